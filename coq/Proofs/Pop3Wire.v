(** Proofs about the POP3 wire format (Model/Pop3Wire.v): what an RFC 1939 client reads back
    from a RETR / TOP reply is exactly the message's lines. *)
From Coq Require Import ZifyN ZifyNat ZifyBool.
From IV Require Import Base.Bytes Base.BytesFacts Model.Pop3Wire.
Open Scope N_scope.

Lemma frev_rev {A} (l : list A) : frev l = rev l.
Proof. unfold frev. rewrite rev_append_rev. apply app_nil_r. Qed.

(** ** Lines hold no LF *)

Lemma lines_lf_no_lf s : forall l, In l (lines_lf s) -> ~ In LF l.
Proof.
  induction s as [|c s IH]; cbn [lines_lf]; intros l Hin.
  - destruct Hin.
  - destruct (c =? LF) eqn:E.
    + destruct Hin as [<-|Hin]; [intros []|auto].
    + apply N.eqb_neq in E.
      destruct (lines_lf s) as [|l0 ls] eqn:El.
      * destruct Hin as [<-|[]]. intros [H|[]]. congruence.
      * destruct Hin as [<-|Hin].
        -- intros [H|H]; [congruence|]. apply (IH l0); [left; reflexivity|exact H].
        -- apply IH. right. exact Hin.
Qed.

Lemma trim_cr_incl l : forall c, In c (trim_cr l) -> In c l.
Proof.
  induction l as [|x l IH]; cbn [trim_cr]; intros c H; [exact H|].
  destruct l as [|y l'].
  - destruct (x =? CR); [destruct H|exact H].
  - destruct H as [<-|H]; [left; reflexivity|right; apply IH; exact H].
Qed.

Lemma scan_lines_no_lf src : forall l, In l (scan_lines src) -> ~ In LF l.
Proof.
  unfold scan_lines. intros l H. apply in_map_iff in H. destruct H as [l0 [<- H]].
  intros Hc. apply trim_cr_incl in Hc. exact (lines_lf_no_lf _ _ H Hc).
Qed.

Lemma trim_cr_snoc l : trim_cr (l ++ [CR]) = l.
Proof.
  induction l as [|x l IH]; [reflexivity|].
  destruct l as [|y l'].
  - reflexivity.
  - change (trim_cr ((x :: y :: l') ++ [CR])) with (x :: trim_cr ((y :: l') ++ [CR])).
    rewrite IH. reflexivity.
Qed.

Lemma stuff_no_lf l : ~ In LF l -> ~ In LF (stuff l).
Proof.
  destruct l as [|c l]; cbn [stuff]; [auto|].
  destruct (c =? DOT); [|auto].
  intros H [E|H']; [discriminate E|auto].
Qed.

Lemma stuff_not_dot l : str_eqb (stuff l) [DOT] = false.
Proof.
  destruct l as [|c l]; [reflexivity|]. cbn [stuff].
  destruct (c =? DOT) eqn:E; cbn [str_eqb].
  - rewrite N.eqb_refl. reflexivity.
  - rewrite E. reflexivity.
Qed.

Lemma unstuff_stuff l : unstuff (stuff l) = l.
Proof.
  destruct l as [|c l]; [reflexivity|]. cbn [stuff].
  destruct (c =? DOT) eqn:E; cbn [unstuff].
  - rewrite N.eqb_refl. reflexivity.
  - rewrite E. reflexivity.
Qed.

(** ** The client reader on one line *)

Lemma cdec_line l : forall cur acc w, ~ In LF l ->
  cdec cur acc (l ++ LF :: w) =
  (let x := trim_cr (rev (rev l ++ cur)) in
   if str_eqb x [DOT] then Some (rev acc, w) else cdec [] (unstuff x :: acc) w).
Proof.
  induction l as [|c l IH]; intros cur acc w Hl.
  - cbn [app cdec rev]. rewrite N.eqb_refl, !frev_rev. reflexivity.
  - cbn [app cdec]. destruct (c =? LF) eqn:E.
    + apply N.eqb_eq in E. exfalso. apply Hl. left. exact E.
    + rewrite IH by (intros H; apply Hl; right; exact H).
      cbn [rev]. rewrite <- app_assoc. reflexivity.
Qed.

Lemma cdec_wire_line l acc w : ~ In LF l ->
  cdec [] acc ((stuff l ++ CRLF) ++ w) = cdec [] (l :: acc) w.
Proof.
  intros Hl. unfold CRLF.
  replace ((stuff l ++ [CR; LF]) ++ w) with ((stuff l ++ [CR]) ++ LF :: w)
    by (rewrite <- !app_assoc; reflexivity).
  rewrite cdec_line.
  - cbn zeta. rewrite app_nil_r, rev_involutive, trim_cr_snoc, stuff_not_dot, unstuff_stuff.
    reflexivity.
  - intros H. apply in_app_or in H. destruct H as [H|[H|[]]].
    + exact (stuff_no_lf _ Hl H).
    + discriminate H.
Qed.

Lemma cdec_wire ls : forall acc rest, (forall l, In l ls -> ~ In LF l) ->
  cdec [] acc (wire_of (map stuff ls) ++ rest) = Some (rev acc ++ ls, rest).
Proof.
  induction ls as [|l ls IH]; intros acc rest H.
  - unfold wire_of, wire_lines. cbn [map concat app].
    change (DOT :: CRLF ++ rest) with ([DOT; CR] ++ LF :: rest).
    rewrite cdec_line by (intros [E|[E|[]]]; discriminate E).
    cbn. rewrite app_nil_r. reflexivity.
  - unfold wire_of, wire_lines in *. cbn [map concat].
    rewrite <- !app_assoc. rewrite app_assoc.
    rewrite cdec_wire_line by (apply H; left; reflexivity).
    rewrite app_assoc. rewrite IH by (intros l' Hl'; apply H; right; exact Hl').
    cbn [rev]. rewrite <- app_assoc. reflexivity.
Qed.

(** ** RETR *)

Theorem pop3_lines_roundtrip src rest :
  pop3_client_lines (pop3_send src ++ rest) = Some (scan_lines src, rest).
Proof.
  unfold pop3_client_lines, pop3_send.
  rewrite cdec_wire by apply scan_lines_no_lf. reflexivity.
Qed.

Theorem pop3_roundtrip src :
  pop3_client_decode (pop3_send src) = Some (crlf_join (scan_lines src)).
Proof.
  unfold pop3_client_decode.
  rewrite <- (app_nil_r (pop3_send src)), pop3_lines_roundtrip. reflexivity.
Qed.

(** ** TOP *)

Lemma stuff_nil_iff l : stuff l = [] <-> l = [].
Proof.
  destruct l as [|c l]; [tauto|]. cbn [stuff]. destruct (c =? DOT); split; discriminate.
Qed.

Lemma top_sel_map_stuff ls : forall b n,
  top_sel b n (map stuff ls) = map stuff (top_sel b n ls).
Proof.
  induction ls as [|l ls IH]; intros b n; [reflexivity|].
  cbn [map top_sel]. destruct b.
  - destruct (n <? 1); [reflexivity|]. cbn [map]. rewrite IH. reflexivity.
  - cbn [map]. rewrite IH. f_equal. f_equal.
    destruct l as [|c l]; [reflexivity|]. cbn [stuff]. destruct (c =? DOT); reflexivity.
Qed.

Lemma top_sel_body ls : forall n, top_sel true n ls = firstn_N n ls.
Proof.
  induction ls as [|l ls IH]; intros n; [reflexivity|].
  cbn [top_sel firstn_N].
  destruct (n <? 1) eqn:E1; destruct (n =? 0) eqn:E0; try lia; [reflexivity|].
  rewrite IH. f_equal. f_equal. lia.
Qed.

Lemma top_sel_spec ls n : top_sel false n ls = top_spec ls n.
Proof.
  unfold top_spec. induction ls as [|l ls IH]; [reflexivity|].
  cbn [top_sel header_block]. destruct l as [|c l].
  - rewrite top_sel_body. reflexivity.
  - rewrite IH. destruct (header_block ls). reflexivity.
Qed.

Lemma top_sel_incl ls : forall b n l, In l (top_sel b n ls) -> In l ls.
Proof.
  induction ls as [|x ls IH]; intros b n l H; [exact H|].
  cbn [top_sel] in H. destruct b.
  - destruct (n <? 1); [destruct H|]. destruct H as [<-|H]; [left; reflexivity|right; eauto].
  - destruct H as [<-|H]; [left; reflexivity|right; eauto].
Qed.

Theorem pop3_top_lines_roundtrip src n rest :
  pop3_client_lines (pop3_send_top src n ++ rest) = Some (top_spec (scan_lines src) n, rest).
Proof.
  unfold pop3_client_lines, pop3_send_top.
  rewrite top_sel_map_stuff, cdec_wire.
  - rewrite top_sel_spec. reflexivity.
  - intros l H. apply top_sel_incl in H. exact (scan_lines_no_lf _ _ H).
Qed.

Theorem pop3_top_roundtrip src n :
  pop3_client_decode (pop3_send_top src n) = Some (crlf_join (top_spec (scan_lines src) n)).
Proof.
  unfold pop3_client_decode.
  rewrite <- (app_nil_r (pop3_send_top src n)), pop3_top_lines_roundtrip. reflexivity.
Qed.

(** ** What the normalisation keeps *)

(** The reassembled message is the source with every line ending made CRLF: for a source
    whose lines all end in CRLF (what SMTP DATA stores) it is the source itself. *)
Lemma lines_lf_wire l : ~ In LF l -> forall rest,
  lines_lf (l ++ CRLF ++ rest) = (l ++ [CR]) :: lines_lf rest.
Proof.
  induction l as [|c l IH]; intros Hl rest.
  - cbn. destruct (lines_lf rest); reflexivity.
  - cbn [app lines_lf]. destruct (c =? LF) eqn:E.
    + apply N.eqb_eq in E. exfalso. apply Hl. left. exact E.
    + rewrite IH by (intros H; apply Hl; right; exact H). reflexivity.
Qed.

(** Non-vacuity / identity on CRLF sources: scanning the CRLF join of LF-free lines returns
    the lines, so RETR returns such a source byte for byte. *)
Theorem scan_lines_crlf_join ls :
  (forall l, In l ls -> ~ In LF l) -> scan_lines (crlf_join ls) = ls.
Proof.
  unfold scan_lines, crlf_join, wire_lines. induction ls as [|l ls IH]; intros H; [reflexivity|].
  cbn [map concat]. rewrite <- app_assoc, lines_lf_wire by (apply H; left; reflexivity).
  cbn [map]. rewrite trim_cr_snoc, IH by (intros l' Hl'; apply H; right; exact Hl').
  reflexivity.
Qed.

Corollary pop3_roundtrip_crlf ls :
  (forall l, In l ls -> ~ In LF l) ->
  pop3_client_decode (pop3_send (crlf_join ls)) = Some (crlf_join ls).
Proof.
  intros H. rewrite pop3_roundtrip, scan_lines_crlf_join by exact H. reflexivity.
Qed.

Example pop3_roundtrip_ex :
  pop3_client_decode (pop3_send [65; 13; 10; 46; 13; 10; 46; 46; 66; 10; 13; 67]) =
  Some [65; 13; 10; 46; 13; 10; 46; 46; 66; 13; 10; 13; 67; 13; 10].
Proof. vm_compute. reflexivity. Qed.

(** * The whole reply on the byte stream (C02's statement for POP3) *)

Lemma take_line_app l w : ~ In LF l -> take_line (l ++ LF :: w) = Some (l, w).
Proof.
  induction l as [|c l IH]; intros H; cbn [app take_line].
  - rewrite N.eqb_refl. reflexivity.
  - destruct (c =? LF) eqn:E; [apply N.eqb_eq in E; exfalso; apply H; left; exact E|].
    rewrite IH by (intros X; apply H; right; exact X). reflexivity.
Qed.

Lemma has_prefix_app p s : has_prefix p (p ++ s) = true.
Proof. induction p as [|c p IH]; [reflexivity|]. cbn. rewrite N.eqb_refl. exact IH. Qed.

Lemma status_line_read text w :
  ~ In LF text -> ~ In CR text ->
  take_line (ok_prefix ++ text ++ CRLF ++ w) = Some ((ok_prefix ++ text) ++ [CR], w) /\
  trim_cr ((ok_prefix ++ text) ++ [CR]) = ok_prefix ++ text.
Proof.
  intros H1 H2. split; [|apply trim_cr_snoc].
  replace (ok_prefix ++ text ++ CRLF ++ w) with (((ok_prefix ++ text) ++ [CR]) ++ LF :: w)
    by (unfold CRLF; rewrite <- !app_assoc; reflexivity).
  apply take_line_app. intros H. apply in_app_or in H. destruct H as [H|[H|[]]]; [|discriminate H].
  apply in_app_or in H. destruct H as [H|H]; [|exact (H1 H)].
  unfold ok_prefix in H. cbn in H. intuition discriminate.
Qed.

(** RETR, for EVERY stored source (any bytes): the client reads the +OK status line, the
    dot-stuffed CRLF lines up to the terminator, gets exactly the lines of the source, and
    leaves what follows the terminator unread. *)
Theorem retr_stream_roundtrip : forall text src rest,
  ~ In LF text -> ~ In CR text ->
  client_read_multi (retr_reply text src ++ rest) = Some (ok_prefix ++ text, scan_lines src, rest).
Proof.
  intros text src rest H1 H2. unfold client_read_multi, retr_reply.
  rewrite <- !app_assoc.
  destruct (status_line_read text (pop3_send src ++ rest) H1 H2) as [A B].
  rewrite A. cbn zeta. rewrite B, has_prefix_app, pop3_lines_roundtrip. reflexivity.
Qed.

(** TOP n, for every source and EVERY n. *)
Theorem top_stream_roundtrip : forall text src n rest,
  ~ In LF text -> ~ In CR text ->
  client_read_multi (top_reply text src n ++ rest) = Some (ok_prefix ++ text, top_spec (scan_lines src) n, rest).
Proof.
  intros text src n rest H1 H2. unfold client_read_multi, top_reply.
  rewrite <- !app_assoc.
  destruct (status_line_read text (pop3_send_top src n ++ rest) H1 H2) as [A B].
  rewrite A. cbn zeta. rewrite B, has_prefix_app, pop3_top_lines_roundtrip. reflexivity.
Qed.

(** What TOP shows, in the corner cases. *)
Lemma header_block_app ls : let (h, b) := header_block ls in ls = h ++ b.
Proof.
  induction ls as [|l ls IH]; [reflexivity|]. cbn [header_block]. destruct l as [|c l]; [reflexivity|].
  destruct (header_block ls) as [h b]. cbn [app]. rewrite IH. reflexivity.
Qed.

Lemma firstn_N_all {A} (l : list A) : forall n, N.of_nat (length l) <= n -> firstn_N n l = l.
Proof.
  induction l as [|x l IH]; intros n H; [reflexivity|]. cbn [firstn_N length] in *.
  destruct (n =? 0) eqn:E; [lia|]. rewrite IH by lia. reflexivity.
Qed.

(** n at least the number of body lines: the whole message. *)
Theorem top_beyond_body : forall ls n,
  N.of_nat (length (snd (header_block ls))) <= n -> top_spec ls n = ls.
Proof.
  intros ls n H. unfold top_spec. pose proof (header_block_app ls) as Ha.
  destruct (header_block ls) as [h b]. cbn [snd] in H. rewrite firstn_N_all by exact H. symmetry. exact Ha.
Qed.

(** A source without header/body separator (no empty line): everything is header, TOP n
    shows the whole message for every n. *)
Lemma header_block_no_sep ls : (forall l, In l ls -> l <> []) -> header_block ls = (ls, []).
Proof.
  induction ls as [|l ls IH]; intros H; [reflexivity|]. cbn [header_block].
  destruct l as [|c l]; [exfalso; apply (H []); [left; reflexivity|reflexivity]|].
  rewrite IH by (intros l' H'; apply H; right; exact H'). reflexivity.
Qed.

Theorem top_no_separator : forall ls n, (forall l, In l ls -> l <> []) -> top_spec ls n = ls.
Proof.
  intros ls n H. unfold top_spec. rewrite header_block_no_sep by exact H. cbn. apply app_nil_r.
Qed.

(** TOP 0: the header block with its separating empty line, nothing of the body. *)
Theorem top_zero : forall ls, top_spec ls 0 = fst (header_block ls).
Proof.
  intros ls. unfold top_spec. destruct (header_block ls) as [h b]. cbn [fst].
  destruct b; cbn; apply app_nil_r.
Qed.

(** TOP never shows more than the message, and always a prefix of it. *)
Theorem top_is_prefix : forall ls n, exists more, ls = top_spec ls n ++ more.
Proof.
  intros ls n. unfold top_spec. pose proof (header_block_app ls) as Ha. destruct (header_block ls) as [h b].
  assert (G : forall (l : list str) k, exists m, l = firstn_N k l ++ m).
  { induction l as [|x l IH]; intros k; [exists []; reflexivity|]. cbn [firstn_N].
    destruct (k =? 0); [exists (x :: l); reflexivity|]. destruct (IH (N.pred k)) as [m Hm]. exists m. cbn [app]. f_equal. exact Hm. }
  destruct (G b n) as [m Hm]. exists m. rewrite <- app_assoc, <- Hm. exact Ha.
Qed.

(** ** Line-ending normalisation *)

Definition strip_eol (s : str) : str := filter (fun c => negb ((c =? CR) || (c =? LF))) s.

Lemma strip_eol_app a b : strip_eol (a ++ b) = strip_eol a ++ strip_eol b.
Proof. apply filter_app. Qed.

Lemma strip_eol_trim_cr l : strip_eol (trim_cr l) = strip_eol l.
Proof.
  induction l as [|c l IH]; [reflexivity|]. cbn [trim_cr]. destruct l as [|d l'].
  - destruct (c =? CR) eqn:E; [|reflexivity]. unfold strip_eol. cbn. rewrite E. reflexivity.
  - change (c :: d :: l') with ([c] ++ d :: l'). change (c :: trim_cr (d :: l')) with ([c] ++ trim_cr (d :: l')).
    rewrite !strip_eol_app, IH. reflexivity.
Qed.

Lemma strip_eol_lines_lf s : strip_eol (concat (lines_lf s)) = strip_eol s.
Proof.
  induction s as [|c s IH]; [reflexivity|]. cbn [lines_lf]. destruct (c =? LF) eqn:E.
  - cbn [concat app]. rewrite IH. apply N.eqb_eq in E. subst c. reflexivity.
  - destruct (lines_lf s) as [|l ls] eqn:El.
    + cbn [concat app] in *. change (c :: s) with ([c] ++ s). rewrite strip_eol_app, <- IH. cbn. rewrite app_nil_r. reflexivity.
    + cbn [concat] in *. change ((c :: l) ++ concat ls) with ([c] ++ (l ++ concat ls)).
      change (c :: s) with ([c] ++ s). rewrite (strip_eol_app [c] (l ++ concat ls)), (strip_eol_app [c] s), IH. reflexivity.
Qed.

(** Only line endings differ between a source and what the client reassembles: the bytes
    other than CR and LF are the same, in the same order. *)
Theorem pop3_norm_only_line_endings : forall src, strip_eol (pop3_norm src) = strip_eol src.
Proof.
  intros src. unfold pop3_norm, crlf_join, wire_lines, scan_lines.
  rewrite <- (strip_eol_lines_lf src).
  induction (lines_lf src) as [|l ls IH]; [reflexivity|].
  cbn [map concat]. rewrite !strip_eol_app, IH, strip_eol_trim_cr. cbn. rewrite app_nil_r. reflexivity.
Qed.

(** Normalising twice changes nothing; a normalised message is delivered byte for byte. *)
Theorem pop3_norm_idempotent : forall src, pop3_norm (pop3_norm src) = pop3_norm src.
Proof.
  intros src. unfold pop3_norm. rewrite scan_lines_crlf_join by apply scan_lines_no_lf. reflexivity.
Qed.

Theorem retr_delivers_normalised : forall src,
  pop3_client_decode (pop3_send src) = Some (pop3_norm src) /\
  pop3_client_decode (pop3_send (pop3_norm src)) = Some (pop3_norm src).
Proof.
  intros src. split; [apply pop3_roundtrip|]. rewrite pop3_roundtrip. fold (pop3_norm (pop3_norm src)).
  rewrite pop3_norm_idempotent. reflexivity.
Qed.

(** ** Exactly what is normalised

    [pop3_norm_only_line_endings] compares the bytes other than CR and LF, so it cannot see a
    lost or moved bare CR.  The exact statement: cut the source at its LFs; every piece comes
    back with exactly one CR before its LF - a piece that already ends in CR is unchanged (only
    ONE CR counts as part of the line ending: "a CR CR LF" stays "a CR CR LF"), a piece that
    does not gets a CR appended ("a LF" becomes "a CR LF"), and a final piece without LF is
    terminated the same way.  Nothing else changes, no byte moves. *)
Theorem pop3_norm_pieces : forall src,
  lines_lf (pop3_norm src) = map (fun l => trim_cr l ++ [CR]) (lines_lf src).
Proof.
  intros src. unfold pop3_norm, crlf_join, wire_lines, scan_lines.
  assert (H : forall l, In l (lines_lf src) -> ~ In LF l) by apply lines_lf_no_lf.
  induction (lines_lf src) as [|l ls IH]; [reflexivity|].
  cbn [map concat]. rewrite <- app_assoc.
  rewrite lines_lf_wire by (intros X; apply trim_cr_incl in X; exact (H l (or_introl eq_refl) X)).
  rewrite IH by (intros l' H'; apply H; right; exact H'). reflexivity.
Qed.

Lemma trim_cr_readd l : trim_cr (l ++ [CR]) ++ [CR] = l ++ [CR].
Proof. rewrite trim_cr_snoc. reflexivity. Qed.

(** A piece that ends in CR is untouched; in particular a second CR before it stays. *)
Theorem pop3_norm_piece_with_cr : forall l, trim_cr (l ++ [CR]) ++ [CR] = l ++ [CR].
Proof. exact trim_cr_readd. Qed.

Example pop3_norm_examples :
  pop3_norm [97; 13; 13; 10] = [97; 13; 13; 10] /\      (* a CR CR LF: unchanged *)
  pop3_norm [97; 13; 10] = [97; 13; 10] /\              (* a CR LF: unchanged *)
  pop3_norm [97; 10] = [97; 13; 10] /\                  (* a LF: CR inserted *)
  pop3_norm [97; 13; 98; 10] = [97; 13; 98; 13; 10] /\  (* a bare CR inside a line stays where it is *)
  pop3_norm [97; 13] = [97; 13; 10] /\                  (* unterminated "a CR": read as "a", terminated *)
  pop3_norm [97] = [97; 13; 10].
Proof. vm_compute. repeat split; reflexivity. Qed.

(** C14 / C02 / C07 — marking a message seen, as every interface sees it, over ONE abstract store.

    REST  PATCH /api/v1/mailbox/<name>/<id>  {"seen":true}  (Store.MarkSeen) of a live message e of mailbox mb
    answers 200, changes the seen flag of exactly that entry and nothing else: same date, same content tag,
    same size, same position in the listing; every other entry of every mailbox is the same entry as before;
    the POP3 model's view of the store does not change at all (POP3 has no seen flag); REST /source and web-UI
    /source still answer 200 with the same content tag. *)
From Coq Require Import List NArith ZArith Lia Sorted Bool.
From IV Require Import Base.Bytes Base.BytesFacts Model.StoreSpec Proofs.StoreSpecFacts Proofs.StoreSpecRefine.
From IV Require Model.Rest Proofs.RestConv Model.Pop3 Model.Pop3Store Proofs.Pop3Store Proofs.InterfacesAgree.
Import ListNotations.
Local Open Scope nat_scope.

Definition seen_entry (e : entry) : entry :=
  {| e_mb := e_mb e; e_k := e_k e; e_msg := msg_set_seen (e_msg e) |}.

Section Seen.
Variable mfa : str -> option str.
Variable cfg : scfg.
Variable srcok : str -> nat -> bool.
Variable content : N -> str.

Theorem seen_changes_only_the_flag st name mb e num :
  SInv st -> mfa name = Some mb -> In e (box mb (live st)) -> srcok mb (e_k e) = true ->
  let st' := {| live := set_seen mb (e_k e) (live st); counts := counts st |} in
  Rest.run_handler mfa cfg srcok st Rest.HSeen name (Rest.id_of_k (e_k e)) num Rest.BTrue = (st', (Rest.S200, Rest.POk)) /\
  SInv st' /\
  (* the mailbox: the same entries in the same order, this one with the flag set *)
  box mb (live st') = map (seen_k (e_k e)) (box mb (live st)) /\
  In (seen_entry e) (box mb (live st')) /\
  m_seen (e_msg (seen_entry e)) = true /\ m_tag (e_msg (seen_entry e)) = m_tag (e_msg e) /\
  m_size (e_msg (seen_entry e)) = m_size (e_msg e) /\ m_date (e_msg (seen_entry e)) = m_date (e_msg e) /\
  (forall x, In x (box mb (live st)) -> e_k x <> e_k e -> In x (box mb (live st'))) /\
  (forall mb', mb' <> mb -> box mb' (live st') = box mb' (live st)) /\
  (* POP3 sees no difference *)
  Pop3Store.abs content st' = Pop3Store.abs content st /\
  (* the source is still served, with the same content *)
  Rest.run_handler mfa cfg srcok st' Rest.HSrc name (Rest.id_of_k (e_k e)) num Rest.BTrue
    = (st', (Rest.S200, Rest.PSrc (e_k e, msg_set_seen (e_msg e)))) /\
  Rest.run_handler mfa cfg srcok st' Rest.USrc name (Rest.id_of_k (e_k e)) num Rest.BTrue
    = (st', (Rest.S200, Rest.PSrc (e_k e, msg_set_seen (e_msg e)))).
Proof.
  intros HI Hn He Hok st'.
  assert (Hx : exec_spec cfg st (Seen mb (Kth (e_k e))) = (st', OUnit (Ok tt), [])).
  { cbn [exec_spec find_h]. rewrite (InterfacesAgree.find_live_entry st mb e HI He). reflexivity. }
  assert (HI' : SInv st').
  { pose proof (exec_spec_SInv cfg st (Seen mb (Kth (e_k e))) HI) as H. rewrite Hx in H. exact H. }
  assert (Hbox : box mb (live st') = map (seen_k (e_k e)) (box mb (live st))) by apply box_seen_same.
  assert (Hin : In (seen_entry e) (box mb (live st'))).
  { rewrite Hbox. apply in_map_iff. exists e. split; [|exact He]. unfold seen_k, seen_entry. rewrite Nat.eqb_refl. reflexivity. }
  split; [unfold Rest.run_handler; rewrite Hn, RestConv.lit_handle_k, Hx; reflexivity|].
  split; [exact HI'|]. split; [exact Hbox|]. split; [exact Hin|].
  split; [reflexivity|]. split; [reflexivity|]. split; [reflexivity|]. split; [reflexivity|].
  split.
  { intros x Hxin Hne. rewrite Hbox. apply in_map_iff. exists x. split; [|exact Hxin].
    unfold seen_k. destruct (Nat.eqb (e_k x) (e_k e)) eqn:E; [apply Nat.eqb_eq in E; contradiction|reflexivity]. }
  split; [intros mb' Hne; apply box_seen_other; exact Hne|].
  split; [unfold Pop3Store.abs; cbn [live counts st']; apply Pop3Store.seen_abs|].
  pose proof (InterfacesAgree.http_source_handlers mfa cfg srcok st' name mb (seen_entry e) num Rest.BTrue HI' Hn Hin Hok) as [H1 H2].
  split; [exact H1|exact H2].
Qed.

End Seen.

(** C01 with a mailbox cap: evicting at every delivery leaves each mailbox with exactly the [cap]
    most recent of the messages the dialogue entitled it to - trimming as the store does, delivery
    by delivery, equals trimming the uncapped mailbox once at the end. *)
From IV Require Import Base.Bytes Model.Policy Model.Smtp.
From Coq Require Import Lia.
Local Open Scope nat_scope.

Lemma cap_box_idem cap ms : cap_box cap (cap_box cap ms) = cap_box cap ms.
Proof.
  destruct cap as [|c]; [reflexivity|]. cbn [cap_box].
  rewrite skipn_length.
  replace (length ms - (length ms - S c) - S c) with 0 by lia. reflexivity.
Qed.

Lemma cap_box_app cap ms d : cap_box cap (cap_box cap ms ++ [d]) = cap_box cap (ms ++ [d]).
Proof.
  destruct cap as [|c]; [reflexivity|]. cbn [cap_box].
  rewrite !app_length, skipn_length. cbn [length].
  destruct (Nat.le_gt_cases (length ms) (S c)) as [Hle|Hgt].
  - replace (length ms - S c) with 0 by lia. cbn [skipn]. rewrite Nat.sub_0_r. reflexivity.
  - replace (length ms - (length ms - S c) + 1 - S c) with 1 by lia.
    replace (length ms + 1 - S c) with (S (length ms - S c)) by lia.
    assert (Hs : forall (k : nat) (l : list delivery), k < length l ->
               skipn 1 (skipn k l ++ [d]) = skipn (S k) (l ++ [d])).
    { induction k as [|k IH]; intros l Hk.
      - destruct l; [cbn in Hk; lia|reflexivity].
      - destruct l as [|x l]; [cbn in Hk; lia|]. cbn [skipn app]. apply (IH l). cbn in Hk. lia. }
    apply Hs. lia.
Qed.

Definition trim (cap : nat) (σ : mstore) : mstore := map (fun nm => (fst nm, cap_box cap (snd nm))) σ.

Lemma store_add_cap_trim cap σ d : store_add_cap cap (trim cap σ) d = trim cap (store_add σ d).
Proof.
  induction σ as [|[n ms] σ IH]; cbn [trim map store_add store_add_cap fst snd].
  - reflexivity.
  - destruct (str_eqb n (d_mailbox d)); cbn [map fst snd].
    + rewrite cap_box_app. reflexivity.
    + fold (trim cap σ). rewrite IH. reflexivity.
Qed.

(** For every sequence of deliveries: the capped store is the uncapped one, each mailbox cut down
    to its [cap] most recent messages. *)
Theorem capped_store_is_most_recent : forall cap ds σ,
  store_after_cap cap (trim cap σ) ds = trim cap (store_after σ ds).
Proof.
  intros cap ds. induction ds as [|d ds IH]; intros σ; cbn [store_after_cap store_after fold_left]; [reflexivity|].
  rewrite store_add_cap_trim. apply IH.
Qed.

Corollary capped_store_from_empty : forall cap ds,
  store_after_cap cap [] ds = trim cap (store_after [] ds).
Proof. intros. apply (capped_store_is_most_recent cap ds []). Qed.

Lemma store_get_trim cap σ n : store_get (trim cap σ) n = cap_box cap (store_get σ n).
Proof.
  induction σ as [|[m ms] σ IH]; cbn [trim map store_get fst snd].
  - destruct cap; reflexivity.
  - destruct (str_eqb m n); [reflexivity|exact IH].
Qed.

(** ... and never more than [cap] of them. *)
Theorem capped_store_bound : forall cap ds n, cap <> 0%nat ->
  (length (store_get (store_after_cap cap [] ds) n) <= cap)%nat.
Proof.
  intros cap ds n Hc. rewrite capped_store_from_empty, store_get_trim.
  destruct cap as [|c]; [congruence|]. cbn [cap_box]. rewrite skipn_length. lia.
Qed.

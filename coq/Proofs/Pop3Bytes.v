(** The byte-level front end of the POP3 model: ParseInt, parseCmd, the line splitting of
    the client's byte stream.  Everything proved for event lists (Proofs/Pop3.v) holds for
    raw byte streams because [run_bytes] is [run] on [expand]ed events; this file adds what
    is specific to bytes. *)
From Coq Require Import ZifyN ZifyNat ZifyBool.
From IV Require Import Base.Bytes Base.BytesFacts Model.Pop3Wire Model.Pop3 Gen.Pop3Consts
  Proofs.Pop3Wire Proofs.Pop3.
Open Scope N_scope.

(** * ParseInt(., 10, 32) *)

Theorem parse_int32_range s z :
  parse_int32 s = Some z -> (-2147483648 <= z <= 2147483647)%Z.
Proof.
  unfold parse_int32. destruct s as [|c r]; [discriminate|].
  set (ds := if (c =? 43) || (c =? 45) then r else c :: r).
  destruct ds as [|d ds']; [discriminate|].
  destruct (forallb is_digit (d :: ds')); [|discriminate].
  destruct (c =? 45).
  - destruct (digits_val (d :: ds') <=? 2147483648) eqn:E; [|discriminate]. intros H. inversion H. lia.
  - destruct (digits_val (d :: ds') <=? 2147483647) eqn:E; [|discriminate]. intros H. inversion H. lia.
Qed.

(** Unsigned decimal digits within range are read as their value. *)
Theorem parse_int32_digits ds :
  ds <> [] -> forallb is_digit ds = true -> digits_val ds <= 2147483647 ->
  parse_int32 ds = Some (Z.of_N (digits_val ds)).
Proof.
  intros Hne Hd Hr. unfold parse_int32. destruct ds as [|c r]; [congruence|].
  assert (Hc : is_digit c = true) by (cbn in Hd; apply andb_prop in Hd; tauto).
  unfold is_digit in Hc.
  assert (E1 : (c =? 43) = false) by lia. assert (E2 : (c =? 45) = false) by lia.
  rewrite E1, E2. cbn [orb]. rewrite Hd.
  destruct (digits_val (c :: r) <=? 2147483647) eqn:E; [reflexivity|lia].
Qed.

(** Every index the handlers use is inside the snapshot (and inside [retain]). *)
Theorem index_guarded s a i :
  msg_index s a = Some i ->
  (exists m, nth_error (s_msgs s) i = Some m) /\
  (inv s -> exists b, nth_error (s_retain s) i = Some b).
Proof.
  intros H. apply msg_index_lt in H. split.
  - apply nth_error_some_lt. exact H.
  - intros Hi. apply nth_error_some_lt. unfold inv in Hi. lia.
Qed.

(** * parseCmd on a canonical line *)

Lemma trim_right_crlf_app_crlf l : trim_right_crlf (l ++ CRLF) = trim_right_crlf l.
Proof.
  induction l as [|c l IH]; [reflexivity|].
  cbn [app trim_right_crlf]. rewrite IH. reflexivity.
Qed.

Lemma trim_right_crlf_id l : ~ In CR l -> ~ In LF l -> trim_right_crlf l = l.
Proof.
  induction l as [|c l IH]; intros H1 H2; [reflexivity|].
  cbn [trim_right_crlf]. rewrite IH; [|intros H; apply H1; right; exact H|intros H; apply H2; right; exact H].
  destruct l; [|reflexivity].
  assert (c <> CR) by (intros ->; apply H1; left; reflexivity).
  assert (c <> LF) by (intros ->; apply H2; left; reflexivity).
  destruct (c =? CR) eqn:E1; [apply N.eqb_eq in E1; congruence|].
  destruct (c =? LF) eqn:E2; [apply N.eqb_eq in E2; congruence|]. reflexivity.
Qed.

Lemma split_on_nosep sep w : ~ In sep w -> split_on sep w = [w].
Proof.
  induction w as [|c w IH]; intros H; [reflexivity|].
  cbn [split_on]. rewrite IH by (intros H'; apply H; right; exact H').
  destruct (c =? sep) eqn:E; [|reflexivity].
  apply N.eqb_eq in E. exfalso. apply H. left. exact E.
Qed.

Lemma split_on_nonempty sep s : split_on sep s <> [].
Proof.
  destruct s as [|c s]; cbn [split_on]; [discriminate|].
  destruct (split_on sep s); [discriminate|]. destruct (c =? sep); discriminate.
Qed.

Lemma split_on_sep sep w rest : ~ In sep w ->
  split_on sep (w ++ sep :: rest) = w :: split_on sep rest.
Proof.
  induction w as [|c w IH]; intros H.
  - cbn [app split_on]. rewrite N.eqb_refl.
    destruct (split_on sep rest) eqn:E; [exfalso; exact (split_on_nonempty _ _ E)|reflexivity].
  - cbn [app split_on]. rewrite IH by (intros H'; apply H; right; exact H').
    destruct (c =? sep) eqn:E; [|reflexivity].
    apply N.eqb_eq in E. exfalso. apply H. left. exact E.
Qed.

Lemma split_on_join sep args : forall w,
  ~ In sep w -> (forall a, In a args -> ~ In sep a) ->
  split_on sep (w ++ concat (map (cons sep) args)) = w :: args.
Proof.
  induction args as [|a args IH]; intros w Hw Ha.
  - cbn. rewrite app_nil_r. apply split_on_nosep. exact Hw.
  - cbn [map concat]. change ((sep :: a) ++ concat (map (cons sep) args))
      with (sep :: (a ++ concat (map (cons sep) args))).
    rewrite split_on_sep by exact Hw.
    rewrite IH; [reflexivity|apply Ha; left; reflexivity|intros a' H'; apply Ha; right; exact H'].
Qed.

Definition clean_arg (a : str) : Prop := ~ In 32 a /\ ~ In CR a /\ ~ In LF a.

(** A canonical command line - NAME SP arg SP arg CRLF - is read as that command with
    those arguments, for every name the session handlers know.  (Re-proved against the
    command table generated from the Go source on every run.) *)
Theorem parse_line_canonical name c args :
  In (name, c) name_table -> (forall a, In a args -> clean_arg a) ->
  parse_line (name ++ concat (map (cons 32) args) ++ CRLF) = CCmd c args.
Proof.
  intros Hin Ha.
  assert (Hname : ~ In 32 name /\ ~ In CR name /\ ~ In LF name /\ go_upper name = name /\
                  name <> [] /\ str_eqb name w_CAPA = false /\
                  mem_str name pop3_commands = true /\ name_of name name_table = c).
  { unfold name_table in Hin. cbn [In] in Hin.
    repeat (destruct Hin as [Hin|Hin];
            [inversion Hin; subst; clear Hin;
             repeat split; try reflexivity; try discriminate;
             cbn [In]; intros H; repeat (destruct H as [H|H]; [discriminate H|]); exact H|]).
    destruct Hin. }
  destruct Hname as (N1 & N2 & N3 & N4 & N5 & N6 & N7 & N8).
  unfold parse_line. rewrite app_assoc, trim_right_crlf_app_crlf.
  assert (Hc : forall x, In x (concat (map (cons 32) args)) -> x = 32 \/ exists a, In a args /\ In x a).
  { clear -args. induction args as [|a args IH]; cbn [map concat]; intros x H; [destruct H|].
    cbn [app In] in H. destruct H as [<-|H]; [left; reflexivity|].
    apply in_app_or in H. destruct H as [H|H].
    - right. exists a. split; [left; reflexivity|exact H].
    - destruct (IH x H) as [E|(a' & A & B)]; [left; exact E|right; exists a'; split; [right; exact A|exact B]]. }
  rewrite trim_right_crlf_id.
  - destruct (name ++ concat (map (cons 32) args)) as [|x l] eqn:El.
    + destruct name; [congruence|discriminate].
    + rewrite <- El. rewrite split_on_join by (try exact N1; intros a H; destruct (Ha a H) as (X & _); exact X).
      rewrite N4. unfold classify. rewrite N6. destruct name; [congruence|].
      rewrite N7, N8. reflexivity.
  - intros H. apply in_app_or in H. destruct H as [H|H]; [exact (N2 H)|].
    destruct (Hc _ H) as [E|(a & A & B)]; [discriminate E|]. destruct (Ha a A) as (_ & X & _). exact (X B).
  - intros H. apply in_app_or in H. destruct H as [H|H]; [exact (N3 H)|].
    destruct (Hc _ H) as [E|(a & A & B)]; [discriminate E|]. destruct (Ha a A) as (_ & _ & X). exact (X B).
Qed.

(** * Chunking of the client's bytes is irrelevant *)

Lemma feed_app a : forall cur b,
  feed cur (a ++ b) =
  (let (ls1, p1) := feed cur a in let (ls2, p2) := feed (frev p1) b in (ls1 ++ ls2, p2)).
Proof.
  induction a as [|c a IH]; intros cur b.
  - cbn [app feed]. rewrite !frev_rev, rev_involutive. destruct (feed cur b). reflexivity.
  - cbn [app feed]. destruct (c =? LF).
    + rewrite IH. destruct (feed [] a) as [ls1 p1]. destruct (feed (frev p1) b) as [ls2 p2]. reflexivity.
    + apply IH.
Qed.

Theorem chunking_irrelevant chunks : forall pend,
  expand pend (map BBytes chunks) = expand pend [BBytes (concat chunks)].
Proof.
  induction chunks as [|b chunks IH]; intros pend.
  - cbn [map concat expand feed]. reflexivity.
  - cbn [map concat expand]. rewrite feed_app.
    destruct (feed (frev pend) b) as [ls1 p1].
    rewrite IH. cbn [expand]. destruct (feed (frev p1) (concat chunks)) as [ls2 p2].
    rewrite map_app, <- app_assoc. reflexivity.
Qed.

(** Every line handed to the command loop ends with its LF and holds no other LF. *)
Lemma feed_lines b : forall cur l, In l (fst (feed cur b)) -> exists body, l = body ++ [LF].
Proof.
  induction b as [|c b IH]; intros cur l H; cbn [feed] in H.
  - destruct H.
  - destruct (c =? LF) eqn:E.
    + destruct (feed [] b) as [ls p] eqn:Ef. cbn [fst In] in H. destruct H as [<-|H].
      * apply N.eqb_eq in E. subst c. rewrite frev_rev. cbn [rev]. eauto.
      * apply (IH [] l). rewrite Ef. exact H.
    + apply (IH _ l H).
Qed.

Fixpoint count_lf (b : str) : nat :=
  match b with [] => O | c :: b' => if c =? LF then S (count_lf b') else count_lf b' end.

Lemma feed_count b : forall cur, length (fst (feed cur b)) = count_lf b.
Proof.
  induction b as [|c b IH]; intros cur; cbn [feed count_lf]; [reflexivity|].
  destruct (c =? LF).
  - specialize (IH []). destruct (feed [] b). cbn [fst length] in *. lia.
  - apply IH.
Qed.

(** * One reply per line, at byte level *)

Definition is_line_event (e : event) : bool :=
  match e with ECmd _ | ELine _ => true | _ => false end.

Lemma open_before fl evs : forall w, is_open (run fl w evs) = true -> is_open w = true.
Proof.
  intros w H. destruct (is_open w) eqn:E; [reflexivity|].
  unfold is_open in E. destruct (s_state (w_sess w)) eqn:Es; try discriminate.
  unfold is_open in H. rewrite (closed_stays fl evs w Es) in H. discriminate.
Qed.

Lemma one_reply_per_line_ev fl evs : forall w,
  (forall e, In e evs -> is_line_event e = true) ->
  w_wfail w = false ->
  is_open (run fl w evs) = true ->
  length (w_out (run fl w evs)) = (length (w_out w) + length evs)%nat /\ w_wfail (run fl w evs) = false.
Proof.
  induction evs as [|e evs IH]; intros w Hl Hw Ho.
  - cbn. split; [lia|exact Hw].
  - rewrite run_cons in *.
    assert (Ho1 : is_open (wstep fl w e) = true) by (eapply open_before; exact Ho).
    assert (Ho0 : is_open w = true).
    { destruct (is_open w) eqn:E; [reflexivity|]. unfold is_open in E.
      destruct (s_state (w_sess w)) eqn:Es; try discriminate.
      destruct (wstep_facts fl w e) as (_ & _ & _ & _ & F5 & _).
      unfold is_open in Ho1. rewrite (F5 Es) in Ho1. discriminate. }
    assert (Hstep : length (w_out (wstep fl w e)) = S (length (w_out w)) /\ w_wfail (wstep fl w e) = false).
    { pose proof (Hl e (or_introl eq_refl)) as He.
      destruct e; try discriminate He; cbn [wstep]; unfold do_cmd; rewrite Ho0, Hw.
      all: match goal with |- context [step ?a ?b ?c ?d] => destruct (step a b c d) as [[s1 r1] st1] end.
      all: cbn [w_out w_wfail]; rewrite app_length; cbn [length]; (split; [lia|reflexivity]). }
    destruct Hstep as [H1 H2].
    destruct (IH (wstep fl w e) (fun e' H => Hl e' (or_intror H)) H2 Ho) as [A B].
    split; [rewrite A, H1; cbn [length]; lia|exact B].
Qed.

(** However the client's bytes arrive, as long as the session is open it has answered every
    complete line with exactly one reply (plus the greeting): nothing is swallowed, nothing
    wedges. *)
Theorem one_reply_per_line fl st chunks :
  let w := run fl (init_world st) (expand [] (map BBytes chunks)) in
  is_open w = true ->
  length (w_out w) = S (count_lf (concat chunks)).
Proof.
  cbn zeta. rewrite chunking_irrelevant. cbn [expand].
  change (frev (@nil N)) with (@nil N).
  pose proof (feed_count (concat chunks) []) as Hc.
  destruct (feed [] (concat chunks)) as [ls p]. cbn [fst] in Hc. rewrite app_nil_r.
  intros Ho.
  destruct (one_reply_per_line_ev fl (map ELine ls) (init_world st)) as [A _].
  - intros e H. apply in_map_iff in H. destruct H as (l & <- & _). reflexivity.
  - reflexivity.
  - exact Ho.
  - rewrite A. cbn [w_out init_world length]. rewrite map_length, Hc. reflexivity.
Qed.

(** The model's theorems, instantiated for raw byte streams. *)
Theorem bytes_total_no_panic fl st bes r :
  In r (w_out (run_bytes fl st bes)) -> is_panic r = false.
Proof. apply total_no_panic. Qed.

Theorem bytes_no_quit_no_delete fl st bes :
  (forall e, In e (expand [] bes) -> is_quit_event e = false) ->
  w_store (run_bytes fl st bes) = fold_left ext_step (expand [] bes) st.
Proof.
  intros H. unfold run_bytes. rewrite no_quit_line_no_delete.
  - rewrite fold_left_app. reflexivity.
  - intros e Hin. apply in_app_or in Hin. destruct Hin as [Hin|[<-|[]]]; [auto|reflexivity].
Qed.

(** A QUIT whose LF never arrives is not a QUIT: what is pending at EOF is dropped. *)
Example pending_quit_dropped :
  expand [] [BBytes [81; 85; 73; 84; 13]] = [].
Proof. vm_compute. reflexivity. Qed.

Example parse_line_examples :
  parse_line [100; 101; 108; 101; 32; 50; 13; 10] = CCmd DELE [[50]] /\          (* "dele 2" *)
  parse_line [76; 73; 83; 84; 32; 32; 49; 10] = CCmd LIST [[]; [49]] /\          (* "LIST  1": empty argument *)
  parse_line [108; 196; 177; 197; 191; 116; 13; 10] = CCmd LIST [] /\            (* dotless i, long s *)
  parse_line [32; 83; 84; 65; 84; 13; 10] = CEmpty /\                            (* " STAT" *)
  parse_line [13; 10] = CEmpty /\
  parse_line [88; 89; 90; 13; 10] = CUnknown.
Proof. vm_compute. repeat split; reflexivity. Qed.

(** * The session on a raw byte stream ([run_stream]) *)

Lemma run_stream_bytes fl st w : run_stream fl st w = run_bytes fl st [BBytes w].
Proof.
  unfold run_stream, run_bytes, read_lines. cbn [expand]. change (frev (@nil N)) with (@nil N).
  destruct (feed [] w) as [ls p]. cbn [fst expand]. rewrite app_nil_r. reflexivity.
Qed.

(** The session always ends. *)
Theorem stream_session_always_ends fl st w : s_state (w_sess (run_stream fl st w)) = Closed.
Proof. unfold run_stream. rewrite run_app. reflexivity. Qed.

Theorem bytes_session_always_ends fl st bes : s_state (w_sess (run_bytes fl st bes)) = Closed.
Proof. unfold run_bytes. rewrite run_app. reflexivity. Qed.

(** Never a panic, whatever the bytes. *)
Theorem stream_never_panics fl st w r : In r (w_out (run_stream fl st w)) -> is_panic r = false.
Proof. apply total_no_panic. Qed.

(** Replies are caused by lines: at most one per complete line (plus the greeting); none for
    the unterminated rest, none after the session has ended; and - [one_reply_per_line] - exactly
    one per line for as long as the session is open. *)
Lemma out_len_step fl w e :
  is_line_event e = true -> (length (w_out (wstep fl w e)) <= S (length (w_out w)))%nat.
Proof.
  intros He. destruct e; try discriminate He; cbn [wstep]; unfold do_cmd;
    (destruct (is_open w); [|lia]);
    match goal with |- context [step ?a ?b ?c ?d] => destruct (step a b c d) as [[s1 r1] st1] end;
    (destruct (w_wfail w); cbn [w_out]; [lia|rewrite app_length; cbn [length]; lia]).
Qed.

Lemma out_len_lines fl evs : forall w,
  (forall e, In e evs -> is_line_event e = true) ->
  (length (w_out (run fl w evs)) <= length (w_out w) + length evs)%nat.
Proof.
  induction evs as [|e evs IH]; intros w H; [cbn; lia|].
  rewrite run_cons. specialize (IH (wstep fl w e) (fun e' H' => H e' (or_intror H'))).
  pose proof (out_len_step fl w e (H e (or_introl eq_refl))). cbn [length]. lia.
Qed.

Theorem stream_reply_per_line fl st w :
  (length (w_out (run_stream fl st w)) <= S (count_lf w))%nat.
Proof.
  unfold run_stream, read_lines. rewrite run_app.
  pose proof (feed_count w []) as Hc. destruct (feed [] w) as [ls p]. cbn [fst] in *.
  cbn [run fold_left wstep w_out].
  pose proof (out_len_lines fl (map ELine ls) (init_world st)) as H.
  rewrite map_length, Hc in H. cbn [w_out init_world length] in H. apply H.
  intros e He. apply in_map_iff in He. destruct He as (l & <- & _). reflexivity.
Qed.

(** A closed session is silent and inert. *)
Theorem closed_is_inert fl w c : is_open w = false -> do_cmd fl w c = w.
Proof. intros H. unfold do_cmd. rewrite H. reflexivity. Qed.

(** An arbitrary byte stream changes the store only through a QUIT line processed in
    TRANSACTION state. *)
Theorem stream_store_only_quit fl st w :
  (forall pre e post, map ELine (read_lines w) ++ [EEof] = pre ++ e :: post ->
                      commits (run fl (init_world st) pre) e = false) ->
  w_store (run_stream fl st w) = st.
Proof.
  intros H. unfold run_stream. rewrite (no_quit_no_delete fl _ _ H). cbn [w_store init_world].
  assert (Hn : forall evs st0, (forall e, In e evs -> ext_step st0 e = st0 /\ forall s, ext_step s e = s) ->
                               fold_left ext_step evs st0 = st0).
  { induction evs as [|e evs IH]; intros st0 He; [reflexivity|]. cbn [fold_left].
    destruct (He e (or_introl eq_refl)) as [-> _]. apply IH. intros e' H'.
    destruct (He e' (or_intror H')) as [_ A]. split; apply A. }
  apply Hn. intros e He. apply in_app_or in He. destruct He as [He|[<-|[]]].
  - apply in_map_iff in He. destruct He as (l & <- & _). split; reflexivity.
  - split; reflexivity.
Qed.

(** In particular a stream with no QUIT line at all - garbage, a dialogue cut anywhere - leaves
    the store alone. *)
Corollary stream_without_quit_keeps_store fl st w :
  (forall l, In l (read_lines w) -> is_quit (parse_line l) = false) ->
  w_store (run_stream fl st w) = st.
Proof.
  intros H. apply stream_store_only_quit. intros pre e post E.
  assert (Hin : In e (map ELine (read_lines w) ++ [EEof])) by (rewrite E; apply in_or_app; right; left; reflexivity).
  unfold commits. destruct (s_state (w_sess (run fl (init_world st) pre))); try reflexivity.
  apply in_app_or in Hin. destruct Hin as [Hin|[<-|[]]]; [|reflexivity].
  apply in_map_iff in Hin. destruct Hin as (l & <- & Hl). cbn [ev_cmd]. apply H. exact Hl.
Qed.

(** Cutting a stream anywhere: the replies to the complete lines of the prefix are a prefix
    of the replies to the whole stream (the session is causal). *)
Lemma feed_fst_app a : forall cur b, exists more, fst (feed cur (a ++ b)) = fst (feed cur a) ++ more.
Proof.
  intros cur b. rewrite feed_app. destruct (feed cur a) as [ls1 p1]. destruct (feed (frev p1) b) as [ls2 p2].
  exists ls2. reflexivity.
Qed.

Theorem stream_prefix_causal fl st a b :
  exists more,
    w_out (run fl (init_world st) (map ELine (read_lines (a ++ b)))) =
    w_out (run fl (init_world st) (map ELine (read_lines a))) ++ more.
Proof.
  unfold read_lines. destruct (feed_fst_app a [] b) as [ls2 E]. rewrite E, map_app, run_app.
  set (w1 := run fl (init_world st) (map ELine (fst (feed [] a)))).
  clearbody w1. clear E. revert w1. induction (map ELine ls2) as [|e evs IH]; intros w1.
  - exists []. rewrite app_nil_r. reflexivity.
  - rewrite run_cons. destruct (IH (wstep fl w1 e)) as [m Hm]. rewrite Hm.
    assert (exists m0, w_out (wstep fl w1 e) = w_out w1 ++ m0) as [m0 ->].
    { destruct e; cbn [wstep with_store w_out]; try (exists []; rewrite app_nil_r; reflexivity).
      1-2: unfold do_cmd; destruct (is_open w1); [|exists []; rewrite app_nil_r; reflexivity];
           match goal with |- context [step ?a ?b ?c ?d] => destruct (step a b c d) as [[s1 r1] st1] end;
           destruct (w_wfail w1); cbn [w_out]; [exists []; rewrite app_nil_r; reflexivity|eexists; reflexivity].
      destruct (is_open w1); cbn [w_out]; [|exists []; rewrite app_nil_r; reflexivity].
      destruct (w_wfail w1); [exists []; rewrite app_nil_r; reflexivity|eexists; reflexivity]. }
    exists (m0 ++ m). rewrite app_assoc. reflexivity.
Qed.

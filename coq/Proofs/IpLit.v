(** The two facts the naming theorems need about IP literals, proved for the modelled parser
    [go_parse_ip]: acceptance is blind to ASCII letter case, and an accepted literal consists
    of hex digits, '.' and ':' only. *)
From IV Require Import Base.Bytes Base.BytesFacts Model.Addr Model.IpLit Proofs.AddrFacts Proofs.AddrNaming.
From Coq Require Import ZifyN ZifyNat ZifyBool.

Lemma is_hex_lower c : is_hex (lower_b c) = is_hex c.
Proof. unfold is_hex, is_digit, lower_b, is_upper. destruct ((65 <=? c) && (c <=? 90)) eqn:E; lia. Qed.

Lemma is_digit_lower_fix c : is_digit c = true -> lower_b c = c.
Proof. unfold is_digit, lower_b, is_upper. intros H. destruct ((65 <=? c) && (c <=? 90)) eqn:E; lia. Qed.

Lemma is_digit_lower c : is_digit (lower_b c) = is_digit c.
Proof. unfold is_digit, lower_b, is_upper. destruct ((65 <=? c) && (c <=? 90)) eqn:E; lia. Qed.

(** * letter case *)

Lemma v4_lower s : forall f p v ps dl, v4 (lower s) f p v ps dl = v4 s f p v ps dl.
Proof.
  induction s as [|c s IH]; intros f p v ps dl; [reflexivity|].
  change (lower (c :: s)) with (lower_b c :: lower s). cbn [v4].
  rewrite is_digit_lower. rewrite (lower_b_eqb c 46) by reflexivity.
  destruct (is_digit c) eqn:D.
  - rewrite (is_digit_lower_fix c D). destruct ((dl =? 1) && (v =? 0)); [reflexivity|].
    destruct (255 <? v * 10 + (c - 48)); [reflexivity | apply IH].
  - destruct (c =? 46); [|reflexivity].
    assert (E : match lower s with [] => true | _ :: _ => false end = match s with [] => true | _ :: _ => false end) by (destruct s; reflexivity).
    rewrite E. destruct (f || match s with [] => true | _ :: _ => false end || p); [reflexivity|].
    destruct (ps =? 3); [reflexivity | apply IH].
Qed.

Lemma hexrun_lower s : hexrun (lower s) = hexrun s.
Proof.
  induction s as [|c s IH]; [reflexivity|]. change (lower (c :: s)) with (lower_b c :: lower s).
  cbn [hexrun]. rewrite is_hex_lower, IH. reflexivity.
Qed.

Lemma v6end_lower s i ell : v6end (lower s) i ell = v6end s i ell.
Proof. destruct s; reflexivity. Qed.

Lemma v6loop_lower f : forall s i ell, v6loop f (lower s) i ell = v6loop f s i ell.
Proof.
  induction f as [|f IH]; intros s i ell; [reflexivity|]. cbn [v6loop].
  rewrite v6end_lower, hexrun_lower. destruct (16 <=? i); [reflexivity|].
  destruct (Nat.ltb 4 (hexrun s) || Nat.eqb (hexrun s) 0); [reflexivity|].
  rewrite <- lower_skipn. destruct (skipn (hexrun s) s) as [|c r1]; [reflexivity|].
  change (lower (c :: r1)) with (lower_b c :: lower r1). cbv iota beta.
  rewrite (lower_b_eqb c 46), (lower_b_eqb c 58) by reflexivity.
  unfold ipv4_ok. rewrite v4_lower.
  destruct (c =? 46); [reflexivity|]. destruct (negb (c =? 58)); [reflexivity|].
  destruct r1 as [|c2 r2]; [reflexivity|].
  change (lower (c2 :: r2)) with (lower_b c2 :: lower r2). cbv iota beta.
  rewrite (lower_b_eqb c2 58) by reflexivity.
  destruct (c2 =? 58).
  - destruct ell; [reflexivity|]. destruct r2 as [|c3 r3]; [reflexivity|].
    change (lower (c3 :: r3)) with (lower_b c3 :: lower r3). cbv iota beta.
    change (lower_b c3 :: lower r3) with (lower (c3 :: r3)). apply IH.
  - change (lower_b c2 :: lower r2) with (lower (c2 :: r2)). apply IH.
Qed.

Lemma mem_b_lower k s : is_alpha k = false -> mem_b k (lower s) = mem_b k s.
Proof.
  intros Hk. induction s as [|c s IH]; [reflexivity|]. change (lower (c :: s)) with (lower_b c :: lower s).
  cbn [mem_b]. rewrite (lower_b_eqb c k Hk), IH. reflexivity.
Qed.

Lemma ipv6_ok_lower s : ipv6_ok (lower s) = ipv6_ok s.
Proof.
  unfold ipv6_ok. rewrite mem_b_lower by reflexivity. destruct (mem_b 37 s); [reflexivity|].
  destruct s as [|c1 [|c2 t]].
  - reflexivity.
  - change (lower [c1]) with (lower_b c1 :: lower []). cbv iota beta.
    change (lower_b c1 :: lower []) with (lower [c1]). rewrite lower_length. apply v6loop_lower.
  - change (lower (c1 :: c2 :: t)) with (lower_b c1 :: lower_b c2 :: lower t). cbv iota beta.
    rewrite (lower_b_eqb c1 58), (lower_b_eqb c2 58) by reflexivity.
    destruct ((c1 =? 58) && (c2 =? 58)).
    + destruct t as [|c3 t']; [reflexivity|].
      change (lower (c3 :: t')) with (lower_b c3 :: lower t'). cbv iota beta.
      change (lower_b c3 :: lower t') with (lower (c3 :: t')). rewrite lower_length. apply v6loop_lower.
    + change (lower_b c1 :: lower_b c2 :: lower t) with (lower (c1 :: c2 :: t)). rewrite lower_length. apply v6loop_lower.
Qed.

Lemma first_sep_lower s : first_sep (lower s) = first_sep s.
Proof.
  induction s as [|c s IH]; [reflexivity|]. change (lower (c :: s)) with (lower_b c :: lower s).
  cbn [first_sep]. rewrite (lower_b_eqb c 46), (lower_b_eqb c 58), (lower_b_eqb c 37) by reflexivity. rewrite IH. reflexivity.
Qed.

Theorem go_parse_ip_lower s : go_parse_ip (lower s) = go_parse_ip s.
Proof.
  unfold go_parse_ip. rewrite first_sep_lower. unfold ipv4_ok. rewrite v4_lower, ipv6_ok_lower. reflexivity.
Qed.

(** * alphabet *)

Lemma hex_ip_char c : is_hex c = true -> ip_char c = true.
Proof. unfold is_hex, ip_char. intros H. rewrite H. reflexivity. Qed.

Lemma v4_alpha s : forall f p v ps dl, v4 s f p v ps dl = true -> forallb ip_char s = true.
Proof.
  induction s as [|c s IH]; intros f p v ps dl H; [reflexivity|]. cbn [v4] in H. cbn [forallb].
  destruct (is_digit c) eqn:D.
  - destruct ((dl =? 1) && (v =? 0)); [discriminate|]. destruct (255 <? v * 10 + (c - 48)); [discriminate|].
    apply IH in H. rewrite H. unfold ip_char. rewrite D. reflexivity.
  - destruct (c =? 46) eqn:E; [|discriminate].
    destruct (f || match s with [] => true | _ :: _ => false end || p); [discriminate|].
    destruct (ps =? 3); [discriminate|]. apply IH in H. rewrite H. unfold ip_char. rewrite E. rewrite !orb_true_r. reflexivity.
Qed.

Lemma hexrun_firstn s : forallb ip_char (firstn (hexrun s) s) = true.
Proof.
  induction s as [|c s IH]; [reflexivity|]. cbn [hexrun]. destruct (is_hex c) eqn:H; [|reflexivity].
  cbn [firstn forallb]. rewrite IH, (hex_ip_char c H). reflexivity.
Qed.

Lemma v6end_nil s i ell : v6end s i ell = true -> s = [].
Proof. destruct s; [reflexivity | discriminate]. Qed.

Lemma colon_ip_char c : (c =? 58) = true -> ip_char c = true.
Proof. unfold ip_char. intros H. rewrite H. rewrite !orb_true_r. reflexivity. Qed.

Lemma v6loop_alpha f : forall s i ell, v6loop f s i ell = true -> forallb ip_char s = true.
Proof.
  induction f as [|f IH]; intros s i ell H; [discriminate|]. cbn [v6loop] in H.
  destruct (16 <=? i); [apply v6end_nil in H; subst; reflexivity|].
  destruct (Nat.ltb 4 (hexrun s) || Nat.eqb (hexrun s) 0); [discriminate|].
  rewrite <- (firstn_skipn (hexrun s) s), forallb_app, hexrun_firstn. cbn [andb].
  destruct (skipn (hexrun s) s) as [|c r1] eqn:SK; [reflexivity|].
  destruct (c =? 46) eqn:E46.
  - destruct (negb ell && negb (i =? 12)); [discriminate|]. destruct (16 <? i + 4); [discriminate|].
    apply andb_true_iff in H as [H _]. apply v4_alpha in H.
    rewrite <- (firstn_skipn (hexrun s) s), forallb_app, SK in H. apply andb_true_iff in H as [_ H]. exact H.
  - destruct (c =? 58) eqn:E58; [|discriminate]. cbn [negb] in H. cbn [forallb]. rewrite (colon_ip_char c E58). cbn [andb].
    destruct r1 as [|c2 r2]; [discriminate|].
    destruct (c2 =? 58) eqn:E2.
    + destruct ell; [discriminate|]. cbn [forallb]. rewrite (colon_ip_char c2 E2). cbn [andb].
      destruct r2 as [|c3 r3]; [reflexivity|]. eapply IH; exact H.
    + eapply IH; exact H.
Qed.

Lemma ipv6_ok_alpha s : ipv6_ok s = true -> forallb ip_char s = true.
Proof.
  unfold ipv6_ok. destruct (mem_b 37 s); [discriminate|].
  destruct s as [|c1 [|c2 t]]; intros H; try (eapply v6loop_alpha; exact H).
  destruct ((c1 =? 58) && (c2 =? 58)) eqn:E; [|eapply v6loop_alpha; exact H].
  apply andb_true_iff in E as [E1 E2]. cbn [forallb]. rewrite (colon_ip_char c1 E1), (colon_ip_char c2 E2). cbn [andb].
  destruct t as [|c3 t']; [reflexivity|]. eapply v6loop_alpha; exact H.
Qed.

Theorem go_parse_ip_alphabet s : go_parse_ip s = true -> forallb ip_char s = true.
Proof.
  unfold go_parse_ip. destruct (first_sep s =? 46); [apply v4_alpha|].
  destruct (first_sep s =? 58); [apply ipv6_ok_alpha | discriminate].
Qed.

(** an accepted literal is ASCII *)
Lemma ip_char_ascii c : ip_char c = true -> c < 128.
Proof. unfold ip_char, is_digit. lia. Qed.

(** samples: the literals of the existing tests and the usual corner cases *)
Definition s_of (l : list N) := l.
Example ip_samples :
  (* "1.2.3.4" "127.0.0.1" "256.1.1.1" "1.2.3" "01.2.3.4" "1.2.3.4." *)
  map go_parse_ip [[49;46;50;46;51;46;52]; [49;50;55;46;48;46;48;46;49]; [50;53;54;46;49;46;49;46;49]; [49;46;50;46;51]; [48;49;46;50;46;51;46;52]; [49;46;50;46;51;46;52;46]]
    = [true; true; false; false; false; false] /\
  (* "::" "::1" "2001:db8:aaaa:1::100" "2001:DB8::A" "::ffff:1.2.3.4" "1:2:3:4:5:6:7:8" "1:2:3:4:5:6:7:8:9" "1:2:3:4:5:6:7::8" "12345::" "fe80::1%eth0" ":" "1::2::3" *)
  map go_parse_ip [[58;58]; [58;58;49]; [50;48;48;49;58;100;98;56;58;97;97;97;97;58;49;58;58;49;48;48]; [50;48;48;49;58;68;66;56;58;58;65];
                   [58;58;102;102;102;102;58;49;46;50;46;51;46;52]; [49;58;50;58;51;58;52;58;53;58;54;58;55;58;56]; [49;58;50;58;51;58;52;58;53;58;54;58;55;58;56;58;57];
                   [49;58;50;58;51;58;52;58;53;58;54;58;55;58;58;56]; [49;50;51;52;53;58;58]; [102;101;56;48;58;58;49;37;101;116;104;48]; [58]; [49;58;58;50;58;58;51]]
    = [true; true; true; true; true; true; false; false; false; false; false; false].
Proof. vm_compute. split; reflexivity. Qed.

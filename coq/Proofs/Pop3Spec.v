(** The model meets the specification: for every history, the oracle ([oracle] of
    Model/Pop3.v, the function the check evaluates on the IMPLEMENTATION's observation)
    accepts what the model itself answers and leaves in the store. *)
From Coq Require Import ZifyN ZifyNat ZifyBool.
From IV Require Import Base.Bytes Base.BytesFacts Model.Pop3Wire Model.Pop3 Proofs.Pop3Wire Proofs.Pop3.
Open Scope N_scope.

(** * Reflexivity of the comparison functions *)

Lemma nums_eqb_refl b nums i bd :
  reply_eqb_nums {| r_ok := b; r_nums := nums; r_id := i; r_body := bd |} nums = true.
Proof.
  unfold reply_eqb_nums. cbn [r_nums]. rewrite Nat.eqb_refl. cbn [andb].
  induction nums as [|z l IH]; [reflexivity|]. cbn [combine forallb fst snd]. rewrite Z.eqb_refl. exact IH.
Qed.

Lemma rowsN_eqb_refl l : rowsN_eqb l l = true.
Proof. induction l as [|[a b] l IH]; [reflexivity|]. cbn. rewrite !N.eqb_refl. exact IH. Qed.

Lemma rowsS_eqb_refl l : rowsS_eqb l l = true.
Proof. induction l as [|[a b] l IH]; [reflexivity|]. cbn. rewrite N.eqb_refl, str_eqb_refl. exact IH. Qed.

Lemma strs_eqb_refl l : strs_eqb l l = true.
Proof. induction l as [|a l IH]; [reflexivity|]. cbn. rewrite str_eqb_refl. exact IH. Qed.

Lemma dump_eqb_refl l : dump_eqb l l = true.
Proof. induction l as [|[a b] l IH]; [reflexivity|]. cbn. rewrite str_eqb_refl, N.eqb_refl. exact IH. Qed.

(** * The simulation relation *)

Definition unmarked (sp : spec_state) (i : nat) : bool := negb (marked sp i).

Definition sim (s : sess) (sp : spec_state) : Prop :=
  sp_phase sp = s_state s /\
  match s_state s with
  | Auth => sp_pending_user sp = s_user s
  | Trans =>
      sp_user sp = s_user s /\
      s_msgs s = map snap_of (sp_snap sp) /\
      s_retain s = map (unmarked sp) (seq 0 (length (sp_snap sp))) /\
      cinv s
  | Closed => True
  end.

Lemma nth_error_map_seq {A} (g : nat -> A) n : forall k i,
  nth_error (map g (seq k n)) i = if (i <? n)%nat then Some (g (k + i)%nat) else None.
Proof.
  induction n as [|n IH]; intros k i; cbn [seq map].
  - destruct i; reflexivity.
  - destruct i as [|i]; cbn [nth_error].
    + rewrite Nat.add_0_r. reflexivity.
    + rewrite IH. replace (S k + i)%nat with (k + S i)%nat by lia.
      destruct (i <? n)%nat eqn:E1; destruct (S i <? S n)%nat eqn:E2; try reflexivity; lia.
Qed.

Lemma list_ext {A} (l1 l2 : list A) :
  length l1 = length l2 -> (forall i, nth_error l1 i = nth_error l2 i) -> l1 = l2.
Proof.
  revert l2. induction l1 as [|x l1 IH]; intros [|y l2] Hl H; try discriminate; [reflexivity|].
  pose proof (H O) as H0. cbn in H0. inversion H0; subst. f_equal.
  apply IH; [cbn in Hl; lia|]. intros i. exact (H (S i)).
Qed.

Lemma nth_error_Some_lt {A} (l : list A) i x : nth_error l i = Some x -> (i < length l)%nat.
Proof. intros H. apply nth_error_Some. congruence. Qed.

Lemma lenN_map {A B} (f : A -> B) l : lenN (map f l) = lenN l.
Proof. rewrite !lenN_length, map_length. reflexivity. Qed.

Lemma map_const_seq {A} (l : list A) k : map (fun _ => true) l = map (fun _ : nat => true) (seq k (length l)).
Proof. revert k. induction l as [|x l IH]; intros k; cbn; [reflexivity|]. rewrite (IH (S k)). reflexivity. Qed.

Section Trans.
  Variables (fl : flavour) (st : store) (s : sess) (sp : spec_state).
  Hypothesis Hs : s_state s = Trans.
  Hypothesis Hsim : sim s sp.

  Let Hphase : sp_phase sp = Trans.
  Proof. destruct Hsim as [H _]. congruence. Qed.
  Let Huser : sp_user sp = s_user s.
  Proof. destruct Hsim as [_ H]. rewrite Hs in H. tauto. Qed.
  Let Hmsgs : s_msgs s = map snap_of (sp_snap sp).
  Proof. destruct Hsim as [_ H]. rewrite Hs in H. tauto. Qed.
  Let Hret : s_retain s = map (unmarked sp) (seq 0 (length (sp_snap sp))).
  Proof. destruct Hsim as [_ H]. rewrite Hs in H. tauto. Qed.
  Let Hcinv : cinv s.
  Proof. destruct Hsim as [_ H]. rewrite Hs in H. tauto. Qed.

  Lemma sim_inv : inv s.
  Proof. unfold inv. rewrite Hret, Hmsgs, !map_length, seq_length. reflexivity. Qed.

  Lemma retain_nth i :
    nth_error (s_retain s) i = if (i <? length (sp_snap sp))%nat then Some (unmarked sp i) else None.
  Proof. rewrite Hret, nth_error_map_seq. reflexivity. Qed.

  Lemma msgs_nth i : nth_error (s_msgs s) i = option_map snap_of (nth_error (sp_snap sp) i).
  Proof. rewrite Hmsgs. apply nth_error_map. Qed.

  (** The argument checks agree. *)
  Lemma spec_index_eq a allow :
    spec_index sp a allow =
    match msg_index s a with
    | None => None
    | Some i =>
        match nth_error (sp_snap sp) i with
        | Some m => if marked sp i && negb allow then None else Some (i, m)
        | None => None
        end
    end.
  Proof.
    unfold spec_index, msg_index. rewrite Hmsgs, lenN_map.
    destruct (parse_int32 a) as [z|]; [|reflexivity].
    destruct (z <? 1)%Z; [reflexivity|].
    destruct (Z.of_N (lenN (sp_snap sp)) <? z)%Z; reflexivity.
  Qed.

  Lemma msg_index_snap a i : msg_index s a = Some i -> exists m, nth_error (sp_snap sp) i = Some m.
  Proof.
    intros H. apply msg_index_lt in H. rewrite Hmsgs, map_length in H.
    apply nth_error_some_lt. exact H.
  Qed.

  (** The listings agree. *)
  Lemma rows_of_spec {A} (F : snap -> A) (F' : smsg -> A) :
    (forall m, F (snap_of m) = F' m) ->
    forall ms k,
    rows_of F (N.of_nat (S k)) (map snap_of ms) (map (unmarked sp) (seq k (length ms))) = spec_rows F' sp k ms.
  Proof.
    intros HF. induction ms as [|m ms IH]; intros k; [reflexivity|].
    cbn [map length seq rows_of spec_rows]. unfold unmarked at 1.
    replace (N.of_nat (S k) + 1) with (N.of_nat (S (S k))) by lia.
    rewrite IH, HF. destruct (marked sp k); reflexivity.
  Qed.

  Lemma listing_spec : listing s = spec_list sp.
  Proof. unfold listing, spec_list. rewrite Hmsgs, Hret. exact (rows_of_spec p_size spec_size (fun _ => eq_refl) (sp_snap sp) 0%nat). Qed.

  Lemma uid_listing_spec : uid_listing s = spec_uidl sp.
  Proof. unfold uid_listing, spec_uidl. rewrite Hmsgs, Hret. exact (rows_of_spec p_id sid (fun _ => eq_refl) (sp_snap sp) 0%nat). Qed.

  Lemma count_spec : s_count s = Z.of_nat (length (spec_list sp)).
  Proof.
    rewrite <- listing_spec. unfold listing. rewrite rows_of_length by apply sim_inv. exact Hcinv.
  Qed.

  Lemma uidl_len : length (spec_uidl sp) = length (spec_list sp).
  Proof.
    rewrite <- listing_spec, <- uid_listing_spec. unfold listing, uid_listing.
    rewrite !rows_of_length by apply sim_inv. reflexivity.
  Qed.

  (** The commit agrees. *)
  Lemma process_deletes_spec ms : forall k st0,
    process_deletes (s_user s) (map snap_of ms) (map (unmarked sp) (seq k (length ms))) st0 =
    Some (commit_from sp k ms st0).
  Proof.
    induction ms as [|m ms IH]; intros k st0; [reflexivity|].
    cbn [map length seq process_deletes commit_from]. rewrite IH. unfold unmarked. rewrite Huser.
    destruct (marked sp k); reflexivity.
  Qed.

  Definition sp_mark (i : nat) : spec_state :=
    {| sp_phase := Trans; sp_user := sp_user sp; sp_pending_user := sp_pending_user sp;
       sp_snap := sp_snap sp; sp_marked := i :: sp_marked sp |}.
  Definition sp_reset : spec_state :=
    {| sp_phase := Trans; sp_user := sp_user sp; sp_pending_user := sp_pending_user sp;
       sp_snap := sp_snap sp; sp_marked := [] |}.

  Lemma sim_same : sim s sp.
  Proof. exact Hsim. Qed.

  Lemma sim_mark i :
    nth_error (s_retain s) i = Some true ->
    sim {| s_state := s_state s; s_user := s_user s; s_msgs := s_msgs s;
           s_retain := set_nth i false (s_retain s); s_count := (s_count s - 1)%Z |} (sp_mark i).
  Proof.
    intros Hn. unfold sim. cbn [s_state sp_phase sp_mark s_user s_msgs s_retain sp_user sp_snap].
    rewrite Hs. split; [reflexivity|]. split; [exact Huser|]. split; [exact Hmsgs|]. split.
    - apply list_ext.
      + rewrite set_nth_length, Hret, !map_length. reflexivity.
      + intros j. rewrite set_nth_nth, nth_error_map_seq, retain_nth.
        unfold unmarked, marked. cbn [sp_marked sp_mark existsb Nat.add].
        destruct (Nat.eqb j i) eqn:E.
        * destruct (j <? length (sp_snap sp))%nat; reflexivity.
        * destruct (j <? length (sp_snap sp))%nat; reflexivity.
    - unfold cinv in *. cbn [s_count s_retain]. apply count_true_set_false in Hn. lia.
  Qed.

  Lemma sim_reset : sim (retain_all s) sp_reset.
  Proof.
    unfold sim, retain_all. cbn [s_state sp_phase sp_reset s_user s_msgs s_retain sp_user sp_snap].
    rewrite Hs. split; [reflexivity|]. split; [exact Huser|]. split; [exact Hmsgs|]. split.
    - rewrite Hmsgs. rewrite (map_const_seq _ 0), map_length. apply map_ext. reflexivity.
    - apply (retain_all_cinv s).
  Qed.
End Trans.

(** * One TRANSACTION-state command *)

Ltac norm_reply := unfold mk, with_body, r_plus, r_minus; cbn [r_ok r_nums r_id r_body is_single andb].
Ltac same_done Hsim := eexists; split; [reflexivity|exact Hsim].

Lemma trans_sim fl st s sp n args s' r st' :
  s_state s = Trans -> sim s sp ->
  trans_handler fl st s n args = (s', r, st') ->
  exists sp', spec_step fl st sp (CCmd n args) r = (None, sp', st') /\ sim s' sp'.
Proof.
  intros Hs Hsim H.
  pose proof (sim_inv s sp Hs Hsim) as Hinv.
  destruct (trans_handler_facts _ _ _ _ _ _ _ _ H) as (_ & _ & _ & _ & _ & Hp). specialize (Hp Hinv).
  assert (Hph : sp_phase sp = Trans) by (destruct Hsim; congruence).
  pose proof Hsim as Hx. destruct Hx as [_ Hx]. rewrite Hs in Hx. destruct Hx as (Hu & Hm & Hr & Hc).
  unfold spec_step. rewrite Hp, Hph. clear Hp.
  unfold trans_handler in H.
  destruct n.
  - (* QUIT *)
    rewrite Hm, Hr, (process_deletes_spec s sp Hs Hsim) in H. inversion H; subst; clear H.
    eexists. split; [reflexivity|]. unfold sim. cbn. auto.
  - (* STAT *)
    destruct args as [|a args].
    + rewrite (stat_loop_eq _ _ 1) in H by exact Hinv. fold (listing s) in H.
      rewrite (listing_spec s sp Hs Hsim) in H. inversion H; subst; clear H.
      rewrite nat_N_Z.
      norm_reply. rewrite nums_eqb_refl. same_done Hsim.
    + inversion H; subst; clear H. same_done Hsim.
  - (* LIST *)
    destruct args as [|a [|b args]].
    + rewrite rows_loop_eq in H by exact Hinv. fold (listing s) in H.
      rewrite (listing_spec s sp Hs Hsim), (count_spec s sp Hs Hsim) in H. inversion H; subst; clear H.
      norm_reply. rewrite rowsN_eqb_refl.
      rewrite nums_eqb_refl. same_done Hsim.
    + unfold one_arg_reply in H. rewrite (spec_index_eq s sp Hs Hsim).
      destruct (msg_index s a) as [i|] eqn:Ei; [|inversion H; subst; same_done Hsim].
      destruct (msg_index_snap s sp Hs Hsim _ _ Ei) as [m Em].
      rewrite (retain_nth s sp Hs Hsim), (msgs_nth s sp Hs Hsim), Em in H. cbn [option_map] in H.
      rewrite Em. apply nth_error_Some_lt in Em.
      destruct (i <? length (sp_snap sp))%nat eqn:El; [|lia].
      unfold unmarked in H. destruct (marked sp i); cbn [negb andb] in *; inversion H; subst; clear H.
      * same_done Hsim.
      * norm_reply. rewrite nums_eqb_refl. same_done Hsim.
    + inversion H; subst; clear H. same_done Hsim.
  - (* RETR *)
    destruct args as [|a [|b args]]; try (inversion H; subst; clear H; same_done Hsim).
    rewrite (spec_index_eq s sp Hs Hsim).
    destruct (msg_index s a) as [i|] eqn:Ei; [|inversion H; subst; same_done Hsim].
    destruct (msg_index_snap s sp Hs Hsim _ _ Ei) as [m Em].
    rewrite (msgs_nth s sp Hs Hsim), Em in H. cbn [option_map] in H. rewrite Em.
    rewrite andb_false_r.
    inversion H; subst; clear H.
    norm_reply. unfold source_of.
    destruct fl.
    + cbn [p_src snap_of p_size].
      rewrite nums_eqb_refl. cbn [andb].
      rewrite <- (app_nil_r (pop3_send (ssrc m))), pop3_lines_roundtrip, strs_eqb_refl. same_done Hsim.
    + cbn [p_id snap_of]. rewrite Hu.
      destruct (has_msg st' (s_user s') (sid m)) eqn:Eh.
      * cbn [p_src snap_of p_size].
        rewrite nums_eqb_refl. cbn [andb].
        rewrite <- (app_nil_r (pop3_send (ssrc m))), pop3_lines_roundtrip, strs_eqb_refl. same_done Hsim.
      * cbn [negb chk]. same_done Hsim.
  - (* DELE *)
    destruct args as [|a [|b args]]; try (inversion H; subst; clear H; same_done Hsim).
    rewrite (spec_index_eq s sp Hs Hsim).
    destruct (msg_index s a) as [i|] eqn:Ei; [|inversion H; subst; same_done Hsim].
    destruct (msg_index_snap s sp Hs Hsim _ _ Ei) as [m Em].
    rewrite Em.
    pose proof (retain_nth s sp Hs Hsim i) as Hn. apply nth_error_Some_lt in Em.
    destruct (i <? length (sp_snap sp))%nat eqn:El; [|lia].
    rewrite Hn in H. unfold unmarked in H, Hn.
    destruct (marked sp i); cbn [negb andb] in *; inversion H; subst; clear H.
    + same_done Hsim.
    + eexists. split; [reflexivity|]. apply (sim_mark s sp Hs Hsim i Hn).
  - (* NOOP *) inversion H; subst; clear H. same_done Hsim.
  - (* RSET *) inversion H; subst; clear H. eexists. split; [reflexivity|]. apply (sim_reset s sp Hs Hsim).
  - (* TOP *)
    destruct args as [|a [|b [|c0 args]]]; try (inversion H; subst; clear H; same_done Hsim).
    rewrite (spec_index_eq s sp Hs Hsim).
    destruct (msg_index s a) as [i|] eqn:Ei; [|inversion H; subst; same_done Hsim].
    destruct (msg_index_snap s sp Hs Hsim _ _ Ei) as [m Em].
    rewrite (msgs_nth s sp Hs Hsim), Em in H. cbn [option_map] in H. rewrite Em.
    rewrite andb_false_r.
    destruct (parse_int32 b) as [k|]; [|inversion H; subst; same_done Hsim].
    destruct (k <? 0)%Z; [inversion H; subst; same_done Hsim|].
    inversion H; subst; clear H.
    norm_reply. unfold source_of.
    destruct fl.
    + cbn [p_src snap_of].
      rewrite <- (app_nil_r (pop3_send_top (ssrc m) (Z.to_N k))), pop3_top_lines_roundtrip, strs_eqb_refl.
      same_done Hsim.
    + cbn [p_id snap_of]. rewrite Hu.
      destruct (has_msg st' (s_user s') (sid m)) eqn:Eh.
      * cbn [p_src snap_of].
        rewrite <- (app_nil_r (pop3_send_top (ssrc m) (Z.to_N k))), pop3_top_lines_roundtrip, strs_eqb_refl.
        same_done Hsim.
      * cbn [negb chk]. same_done Hsim.
  - (* UIDL *)
    destruct args as [|a [|b args]].
    + rewrite rows_loop_eq in H by exact Hinv. fold (uid_listing s) in H.
      rewrite (uid_listing_spec s sp Hs Hsim), (count_spec s sp Hs Hsim) in H. inversion H; subst; clear H.
      norm_reply. rewrite rowsS_eqb_refl, (uidl_len s' sp Hs Hsim).
      rewrite nums_eqb_refl. same_done Hsim.
    + unfold one_arg_reply in H. rewrite (spec_index_eq s sp Hs Hsim).
      destruct (msg_index s a) as [i|] eqn:Ei; [|inversion H; subst; same_done Hsim].
      destruct (msg_index_snap s sp Hs Hsim _ _ Ei) as [m Em].
      rewrite (retain_nth s sp Hs Hsim), (msgs_nth s sp Hs Hsim), Em in H. cbn [option_map] in H.
      rewrite Em. apply nth_error_Some_lt in Em.
      destruct (i <? length (sp_snap sp))%nat eqn:El; [|lia].
      unfold unmarked in H. destruct (marked sp i); cbn [negb andb] in *; inversion H; subst; clear H.
      * same_done Hsim.
      * norm_reply.
        rewrite nums_eqb_refl, str_eqb_refl. same_done Hsim.
    + inversion H; subst; clear H. same_done Hsim.
  - inversion H; subst; clear H. same_done Hsim.
  - inversion H; subst; clear H. same_done Hsim.
  - inversion H; subst; clear H. same_done Hsim.
  - inversion H; subst; clear H. same_done Hsim.
  - inversion H; subst; clear H. same_done Hsim.
Qed.

(** * One AUTHORIZATION-state command *)

Lemma login_sim fl st s sp u n args :
  sp_phase sp = Auth ->
  (forall r, spec_step fl st sp (CCmd n args) r =
     if is_panic r then (Some R_PANIC, sp, st) else
     ((if r_ok r && is_single r
       then chk (reply_eqb_nums r [Z.of_nat (length (mmsgs (get_box st u)))]) R_LOGIN
       else Some R_STATUS),
      {| sp_phase := Trans; sp_user := u; sp_pending_user := u;
         sp_snap := mmsgs (get_box st u); sp_marked := [] |}, st)) ->
  exists sp', spec_step fl st sp (CCmd n args) (snd (login st s u)) = (None, sp', st) /\
              sim (fst (login st s u)) sp'.
Proof.
  intros Hph Hspec. rewrite Hspec. unfold login. cbn [fst snd].
  unfold retain_all. cbn [s_msgs s_count s_state s_user s_retain].
  unfold load. rewrite lenN_map, lenN_length, nat_N_Z.
  norm_reply. cbn [is_panic r_body]. rewrite nums_eqb_refl. cbn [chk].
  eexists. split; [reflexivity|].
  unfold sim, set_state. cbn [s_state sp_phase s_user sp_user s_msgs sp_snap s_retain].
  split; [reflexivity|]. split; [reflexivity|]. split; [reflexivity|]. split.
  - rewrite (map_const_seq _ 0), map_length. apply map_ext. reflexivity.
  - unfold cinv. cbn [s_count s_retain]. rewrite count_true_all, map_length. reflexivity.
Qed.

Lemma auth_sim fl st s sp n args :
  s_state s = Auth -> sim s sp ->
  exists sp', spec_step fl st sp (CCmd n args) (snd (auth_handler st s n args)) = (None, sp', st) /\
              sim (fst (auth_handler st s n args)) sp'.
Proof.
  intros Hs Hsim.
  assert (Hph : sp_phase sp = Auth) by (destruct Hsim; congruence).
  assert (Hpu : sp_pending_user sp = s_user s) by (destruct Hsim as [_ H]; rewrite Hs in H; exact H).
  unfold auth_handler.
  destruct n;
    try (unfold spec_step; rewrite Hph; cbn [fst snd is_panic r_minus mk r_body];
         destruct args; same_done Hsim).
  - (* QUIT *)
    unfold spec_step. rewrite Hph. cbn. eexists. split; [reflexivity|]. unfold sim. cbn. auto.
  - (* USER *)
    destruct args as [|a args].
    + unfold spec_step. rewrite Hph. cbn. same_done Hsim.
    + unfold spec_step. rewrite Hph. cbn. eexists. split; [reflexivity|].
      unfold sim. cbn. rewrite Hs. auto.
  - (* PASS *)
    destruct (s_user s) as [|c u] eqn:Eu.
    + unfold spec_step. rewrite Hph, Hpu. cbn. same_done Hsim.
    + rewrite <- Eu. apply login_sim; [exact Hph|].
      intros r. unfold spec_step. rewrite Hph, Hpu, Eu. reflexivity.
  - (* APOP *)
    destruct args as [|a [|b [|c0 args]]];
      try (unfold spec_step; rewrite Hph; cbn; same_done Hsim).
    apply login_sim; [exact Hph|].
    intros r. unfold spec_step. rewrite Hph. reflexivity.
Qed.

(** * One command, any state *)

Lemma step_sim fl st s sp c s' r st' :
  s_state s <> Closed -> sim s sp ->
  step fl st s c = (s', r, st') ->
  exists sp', spec_step fl st sp c r = (None, sp', st') /\ sim s' sp'.
Proof.
  intros Ho Hsim H. unfold step in H.
  destruct c as [| | |n args].
  1-3: inversion H; subst; clear H; unfold spec_step; cbn; same_done Hsim.
  destruct (s_state s) eqn:Es; [| |congruence].
  - pose proof (auth_sim fl st s sp n args Es Hsim) as (sp' & A & B).
    destruct (auth_handler st s n args) as [s1 r1]. inversion H; subst; clear H.
    exists sp'. auto.
  - destruct (trans_handler fl st s n args) as [[s1 r1] st1] eqn:Et.
    pose proof (sim_inv s sp Es Hsim) as Hinv.
    destruct (trans_handler_facts _ _ _ _ _ _ _ _ Et) as (_ & _ & _ & _ & _ & Hp). rewrite (Hp Hinv) in H.
    inversion H; subst; clear H.
    exact (trans_sim _ _ _ _ _ _ _ _ _ Es Hsim Et).
Qed.

(** With the write side broken the command still takes effect: only a TRANSACTION-state
    QUIT changes the store, and it commits exactly the marked messages. *)
Lemma step_store_wfail fl st s sp c s' r st' :
  s_state s <> Closed -> sim s sp ->
  step fl st s c = (s', r, st') ->
  st' = match sp_phase sp with
        | Trans => if is_quit c then spec_commit sp st else st
        | _ => st
        end.
Proof.
  intros Ho Hsim H.
  assert (Hph : sp_phase sp = s_state s) by (destruct Hsim; assumption).
  destruct (step_facts _ _ _ _ _ _ _ H) as (_ & _ & _ & _ & F5 & _).
  rewrite Hph. destruct (s_state s) eqn:Es; [| |congruence].
  - apply F5. intros [X _]. discriminate.
  - destruct (is_quit c) eqn:Eq; [|apply F5; intros [_ X]; discriminate].
    destruct c as [| | |n args]; try discriminate. destruct n; try discriminate.
    unfold step in H. rewrite Es in H. unfold trans_handler in H.
    pose proof Hsim as Hx. destruct Hx as [_ Hx]. rewrite Es in Hx. destruct Hx as (Hu & Hm & Hr & Hc).
    rewrite Hm, Hr, (process_deletes_spec s sp Es Hsim) in H. cbn in H. inversion H. reflexivity.
Qed.

(** * Whole histories *)

Lemma sim_closed s sp : s_state s = Closed -> sp_phase sp = Closed -> sim s sp.
Proof. intros A B. unfold sim. rewrite A, B. auto. Qed.

Lemma oracle_run_model fl evs : forall w sp rest,
  sim (w_sess w) sp ->
  exists rs, w_out (run fl w evs) = w_out w ++ rs /\
    oracle_run fl (w_store w) sp (w_wfail w) evs (rs ++ rest) = (None, w_store (run fl w evs), rest).
Proof.
  induction evs as [|e evs IH]; intros w sp rest Hsim.
  - exists []. rewrite app_nil_r. split; reflexivity.
  - rewrite run_cons.
    assert (Hcmd : forall c,
      exists rs, w_out (run fl (do_cmd fl w c) evs) = w_out w ++ rs /\
        (match sp_phase sp with
         | Closed => oracle_run fl (w_store w) sp (w_wfail w) evs (rs ++ rest)
         | _ =>
           if w_wfail w then
             oracle_run fl (match sp_phase sp with
                            | Trans => if is_quit c then spec_commit sp (w_store w) else w_store w
                            | _ => w_store w end) (spec_close sp) (w_wfail w) evs (rs ++ rest)
           else match rs ++ rest with
                | [] => (Some R_COUNT, w_store w, [])
                | r :: rs' =>
                    match spec_step fl (w_store w) sp c r with
                    | (Some why, _, _) => (Some why, w_store w, rs')
                    | (None, sp', st') => oracle_run fl st' sp' (w_wfail w) evs rs'
                    end
                end
         end) = (None, w_store (run fl (do_cmd fl w c) evs), rest)).
    { intros c.
      assert (Hph : sp_phase sp = s_state (w_sess w)) by (destruct Hsim; assumption).
      unfold do_cmd, is_open. destruct (s_state (w_sess w)) eqn:Es.
      - (* Auth *)
        destruct (step fl (w_store w) (w_sess w) c) as [[s' r] st'] eqn:Est.
        assert (Ho : s_state (w_sess w) <> Closed) by congruence.
        rewrite Hph. destruct (w_wfail w) eqn:Ew.
        + pose proof (step_store_wfail _ _ _ _ _ _ _ _ Ho Hsim Est) as Hst. rewrite Hph in Hst. subst st'.
          destruct (IH {| w_store := w_store w; w_sess := set_state s' Closed; w_wfail := true; w_out := w_out w |}
                       (spec_close sp) rest) as (rs & A & B).
          { apply sim_closed; reflexivity. }
          exists rs. cbn [w_out w_store w_wfail] in *. auto.
        + destruct (step_sim _ _ _ _ _ _ _ _ Ho Hsim Est) as (sp' & A & B).
          destruct (IH {| w_store := st'; w_sess := s'; w_wfail := false; w_out := w_out w ++ [r] |} sp' rest B)
            as (rs & C & D).
          exists (r :: rs). cbn [w_out w_store w_wfail app] in *.
          rewrite C, <- app_assoc. split; [reflexivity|]. rewrite A. exact D.
      - (* Trans *)
        destruct (step fl (w_store w) (w_sess w) c) as [[s' r] st'] eqn:Est.
        assert (Ho : s_state (w_sess w) <> Closed) by congruence.
        rewrite Hph. destruct (w_wfail w) eqn:Ew.
        + pose proof (step_store_wfail _ _ _ _ _ _ _ _ Ho Hsim Est) as Hst. rewrite Hph in Hst. subst st'.
          destruct (IH {| w_store := if is_quit c then spec_commit sp (w_store w) else w_store w;
                          w_sess := set_state s' Closed; w_wfail := true; w_out := w_out w |}
                       (spec_close sp) rest) as (rs & A & B).
          { apply sim_closed; reflexivity. }
          exists rs. cbn [w_out w_store w_wfail] in *. auto.
        + destruct (step_sim _ _ _ _ _ _ _ _ Ho Hsim Est) as (sp' & A & B).
          destruct (IH {| w_store := st'; w_sess := s'; w_wfail := false; w_out := w_out w ++ [r] |} sp' rest B)
            as (rs & C & D).
          exists (r :: rs). cbn [w_out w_store w_wfail app] in *.
          rewrite C, <- app_assoc. split; [reflexivity|]. rewrite A. exact D.
      - (* Closed *)
        rewrite Hph. destruct (IH w sp rest Hsim) as (rs & A & B). exists rs. auto. }
    destruct e; cbn [wstep oracle_run].
    + exact (Hcmd c).
    + exact (Hcmd (parse_line line)).
    + destruct (IH (with_store w (deliver (w_store w) name src)) sp rest Hsim) as (rs & A & B).
      exists rs. auto.
    + destruct (IH (with_store w (remove_msg (w_store w) name id)) sp rest Hsim) as (rs & A & B).
      exists rs. auto.
    + destruct (IH (with_store w (purge_box (w_store w) name)) sp rest Hsim) as (rs & A & B).
      exists rs. auto.
    + destruct (IH {| w_store := w_store w; w_sess := w_sess w; w_wfail := true; w_out := w_out w |} sp rest Hsim)
        as (rs & A & B).
      exists rs. auto.
    + destruct (IH {| w_store := w_store w; w_sess := set_state (w_sess w) Closed; w_wfail := w_wfail w;
                      w_out := w_out w |} (spec_close sp) rest) as (rs & A & B).
      { apply sim_closed; reflexivity. }
      exists rs. auto.
    + assert (Hph : sp_phase sp = s_state (w_sess w)) by (destruct Hsim; assumption).
      unfold is_open. destruct (s_state (w_sess w)) eqn:Es; rewrite Hph.
      1-2: destruct (w_wfail w) eqn:Ew;
        [ destruct (IH {| w_store := w_store w; w_sess := set_state (w_sess w) Closed; w_wfail := true;
                          w_out := w_out w |} (spec_close sp) rest) as (rs & A & B);
            [apply sim_closed; reflexivity|];
          exists rs; cbn [w_out w_store w_wfail] in *; auto
        | destruct (IH {| w_store := w_store w; w_sess := set_state (w_sess w) Closed; w_wfail := false;
                          w_out := w_out w ++ [r_minus] |} (spec_close sp) rest) as (rs & A & B);
            [apply sim_closed; reflexivity|];
          exists (r_minus :: rs); cbn [w_out w_store w_wfail app] in *;
          rewrite A, <- app_assoc; split; [reflexivity|exact B] ].
      destruct (IH w sp rest Hsim) as (rs & A & B). exists rs. auto.
Qed.

(** The oracle accepts the model's own observation of every history: each reply the model
    gives is what the specification demands at that point, exactly one reply per command
    line, and the store the model is left with is the store the dialogue entitles. *)
Theorem oracle_accepts_model fl st0 evs names :
  let w := run fl (init_world st0) (evs ++ [EEof]) in
  oracle fl st0 evs (w_out w) (map (fun n => (n, dump_box (w_store w) n)) names) = None.
Proof.
  cbn zeta.
  destruct (oracle_run_model fl (evs ++ [EEof]) (init_world st0) spec_init []) as (rs & A & B).
  { unfold sim. cbn. auto. }
  cbn [w_out init_world app] in A. rewrite A. unfold oracle. cbn [r_ok r_plus mk is_single r_body andb negb].
  rewrite app_nil_r in B. cbn [w_store w_wfail init_world] in B. rewrite B.
  replace (forallb _ _) with true; [reflexivity|].
  symmetry. apply forallb_forall. intros [n d] Hin. apply in_map_iff in Hin.
  destruct Hin as (n0 & E & _). inversion E; subst. cbn [fst snd]. apply dump_eqb_refl.
Qed.

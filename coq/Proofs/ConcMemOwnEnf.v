(** C09 — memory store with the size limit: the linear-ownership invariant for tags, enforcer steps and consequences
    (continues Proofs/ConcMemOwn.v): the book never lists a tag twice, the notice handler's "element no longer
    linked" branch is never taken, curSize is exactly the total of the book plus the message being evicted. *)
From IV Require Import Model.Conc Model.ConcMem Proofs.ConcBase Proofs.ConcMemInv Proofs.ConcMemCrash Proofs.ConcMemLinEnf Proofs.ConcMemTerm Proofs.ConcMemTags Proofs.ConcMemOwn Proofs.ConcStmts Proofs.ConcMemQuiesce.
From Coq Require Import Lia ZifyN ZifyNat ZifyBool.
Local Open Scope nat_scope.
#[local] Hint Rewrite LV_touch LV_setpc LV_addlog LV_with_enf LV_take_done : sys.

Lemma og_enf g s s' : og g s -> step_enf s = SOk s' -> og g s'.
Proof.
  intros [H1 H2 H3 H4 H5] H. unfold step_enf in H.
  destruct (s_max s) as [max|] eqn:Emax; [|discriminate].
  destruct (e_pc (s_enf s)) eqn:Epc; try discriminate.
  all: split_enf H.
  all: inv_ok H.
  all: unfold UB, PR, NT, NTt in *.
  all: try match goal with |- context [setx ?mb ?x ?ss] => pose proof (LV_setx g mb x ss) as HL end.
  all: try match goal with H : box_remove _ _ = (_, Some _) |- _ => apply (box_remove_cnt g) in H end.
  all: try match goal with H : ent_take _ _ = Some _ |- _ => destruct (ent_take_cnt g _ _ _ _ H) as [Htk1 Htk2] end.
  all: try match goal with H : ent_take _ _ = None |- _ => pose proof (ent_take_none _ _ H) as Htn end.
  all: constructor; unfold UB, PR, NT, NTt, after_evict; autorewrite with sys.
  all: repeat match goal with |- context [if (?a <? ?b)%Z then _ else _] => destruct (a <? b)%Z end.
  all: unfold IN, POP, BK, ER in *; rewrite ?Epc in *;
       cbn [e_pc e_all e_els e_rem with_epc s_enf with_enf finish_enf x_box b_msgs m_tag] in *;
       rewrite ?map_app, ?cnt_app in *; cbn [map cnt] in *;
       rewrite ?tag_mem_filter in *; unfold tag_mem in *; cbn [existsb] in *.
  all: try match goal with H : e_all _ = _ :: _ |- _ => rewrite H in *; cbn [map cnt] in * end.
  all: unfold etag in *.
  all: repeat match goal with
       | |- context [(?y =? ?x)%N] => destruct (N.eqb_spec y x)
       | H : context [(?y =? ?x)%N] |- _ => destruct (N.eqb_spec y x)
       end; cbn [b2n negb andb orb] in *.
  all: subst.
  all: repeat match goal with
       | |- context [existsb ?f ?l] => let b := fresh "b" in set (b := existsb f l) in *; clearbody b; destruct b
       | H : context [existsb ?f ?l] |- _ => let b := fresh "b" in set (b := existsb f l) in *; clearbody b; destruct b
       end.
  all: repeat match goal with H : ?x = ?x -> _ |- _ => specialize (H eq_refl) end.
  all: try discriminate.
  all: try lia.
  all: intuition (try discriminate; try lia).
Qed.

Definition own (s : msys) : Prop := forall g, og g s.

Lemma own_step s w c s' : own s -> step s w c = SOk s' -> own s'.
Proof. intros H Hs g. destruct w; cbn [step] in Hs; [eapply og_thr | eapply og_enf]; eauto. Qed.

Lemma NoDup_cnt l : NoDup l -> forall g, cnt g l <= 1.
Proof.
  induction 1 as [|x l Hx _ IH]; intros g; cbn [cnt]; [lia|].
  destruct (N.eqb_spec g x) as [->|]; cbn [b2n]; [|apply IH].
  assert (cnt x l = 0); [|lia]. clear IH. induction l as [|y l IH]; cbn [cnt]; [reflexivity|].
  destruct (N.eqb_spec x y) as [->|]; [exfalso; apply Hx; left; reflexivity|]. cbn [b2n]. apply IH. intros Hin. apply Hx. right; exact Hin.
Qed.
Lemma cnt_NoDup l : (forall g, cnt g l <= 1) -> NoDup l.
Proof.
  induction l as [|x l IH]; intros H; constructor.
  - intros Hin. specialize (H x). cbn [cnt] in H. rewrite N.eqb_refl in H. cbn [b2n] in H.
    assert (1 <= cnt x l); [|lia]. clear -Hin. induction l as [|y l IH]; [destruct Hin|].
    cbn [cnt]. destruct Hin as [->|Hin]; [rewrite N.eqb_refl; cbn; lia | specialize (IH Hin); lia].
  - apply IH. intros g. specialize (H g). cbn [cnt] in H. lia.
Qed.

Lemma init_sums g ops :
  sumf (ub g) (map PStart ops) = cnt g (add_tags_of ops) /\ sumf (pr g) (map PStart ops) = 0 /\ sumf (nt g) (map PStart ops) = 0.
Proof.
  unfold sumf, list_sum, add_tags_of. induction ops as [|o ops (I1 & I2 & I3)]; cbn [map fold_right flat_map]; [auto|].
  rewrite cnt_app. destruct o; cbn [ub pr nt cnt app]; lia.
Qed.

Lemma init_own cap max ops : NoDup (add_tags_of ops) -> own (init_sys cap max [] enf0 ops).
Proof.
  intros Hnd g. destruct (init_sums g ops) as (I1 & I2 & I3). pose proof (NoDup_cnt _ Hnd g).
  constructor; unfold UB, PR, NT, NTt, LV, LVb, IN, POP, BK, ER, init_sys;
    cbn [s_thr s_enf s_boxes enf0 e_pc e_all e_els e_rem cnt tag_mem existsb];
    change (sumf (fun kb : mbname * mbx => cnt g (tags (b_msgs (x_box (snd kb))))) (map (fun kc : mbname * box => (fst kc, mkMbx (snd kc) None)) [])) with 0%nat;
    change (map etag []) with (@nil N); cbn [cnt];
    rewrite ?I1, ?I2, ?I3.
  all: try lia.
  all: intros; repeat split; try reflexivity; try discriminate; try lia.
Qed.

(* ------------------------------------------------------------------ exact accounting *)

Local Open Scope Z_scope.

Definition invX (s : msys) : Prop := e_cur (s_enf s) = total (e_all (s_enf s)) + pending (e_pc (s_enf s)).

Lemma invX_thr s t c s' : invX s -> step_thr s t c = SOk s' -> invX s'.
Proof.
  intros J H. unfold step_thr in H.
  destruct (nth_error (s_thr s) t) as [p|] eqn:Ep; [|discriminate].
  destruct p; try discriminate.
  all: split_step H.
  all: inv_ok H.
  all: unfold invX in *; autorewrite with sys; cbn [s_enf take_done with_epc e_cur e_all e_pc pending with_enf].
  all: try exact J.
  all: try match goal with Hi : is_idle _ = true |- _ =>
         unfold is_idle in Hi; destruct (e_pc (s_enf s)) eqn:Epc; try discriminate end.
  all: cbn [pending] in *; lia.
Qed.

Lemma invX_enf s s' : own s -> invX s -> step_enf s = SOk s' -> invX s'.
Proof.
  intros Ho J H. unfold step_enf in H.
  destruct (s_max s) as [max|] eqn:Emax; [|discriminate].
  destruct (e_pc (s_enf s)) eqn:Epc; try discriminate.
  all: repeat match type of H with
       | context [if locked ?mb ?ss then _ else _] => destruct (locked mb ss) eqn:Elk; [discriminate|]
       | context [if ?b then _ else _] => destruct b eqn:?
       | context [match e_all ?e with _ => _ end] => destruct (e_all e) eqn:Eall
       | context [match ent_take ?g ?l with _ => _ end] => destruct (ent_take g l) as [[? ?]|] eqn:Etake
       | context [match box_remove ?a ?b with _ => _ end] => destruct (box_remove a b) as [? [?|]] eqn:?
       end; try discriminate.
  all: inv_ok H.
  (* the notice handler finds the element linked whenever el is set *)
  all: try (exfalso; destruct (Ho (m_tag (snd k))) as [_ _ _ H4 _];
            match goal with Hb : tag_mem _ _ = true |- _ => specialize (H4 Hb) end;
            apply ent_take_none in Etake; unfold NT, ER, BK in H4; rewrite Epc in H4; unfold etag in *;
            rewrite N.eqb_refl in H4; cbn [b2n] in H4; lia).
  all: unfold invX, after_evict in *; autorewrite with sys.
  all: cbn [pending] in J.
  all: repeat match goal with |- context [if ?b then _ else _] => destruct b eqn:? end.
  all: cbn [s_enf with_enf finish_enf with_epc e_cur e_all e_pc pending s_max].
  all: rewrite ?total_app.
  all: try (apply total_take in Etake).
  all: try (rewrite Eall in J; cbn [total] in J).
  all: rewrite ?Epc in J; cbn [pending e_cur total] in *; lia.
Qed.

Lemma book_total_is_total l : book_total l = total l.
Proof. induction l as [|k l IH]; cbn [book_total total]; [reflexivity | now rewrite IH]. Qed.

Lemma reach_own_X cap max ops s : NoDup (add_tags_of ops) ->
  reach (init_sys cap max [] enf0 ops) s -> own s /\ invX s.
Proof.
  intros Hnd. revert s. apply reach_ind_inv.
  - split; [apply init_own; exact Hnd | reflexivity].
  - intros s1 s2 w c [Ho Hx] Hs. split; [eapply own_step; eauto|].
    destruct w; cbn [step] in Hs; [eapply invX_thr | eapply invX_enf]; eauto.
Qed.

(** Every cap, every size limit, every schedule, wherever it stops, deliveries carrying pairwise distinct tags:
    the enforcer's book lists no message twice and curSize is exactly the total size of the book plus the message
    it is just evicting. *)
Theorem mem_book_is_exact : forall cap max ops sched,
  NoDup (add_tags_of ops) ->
  match run (init_sys cap max [] enf0 ops) sched with
  | Fin s | BlockedAt _ s | CrashedAt _ s =>
      NoDup (book_tags s) /\
      (e_cur (s_enf s) = book_total (e_all (s_enf s)) + match e_pc (s_enf s) with EEvLock k _ => esize k | _ => 0 end)%Z
  end.
Proof.
  intros cap max ops sched Hnd.
  pose proof (run_from_reach (init_sys cap max [] enf0 ops) sched 0 _ (reach_refl _)) as H. unfold run.
  assert (G : forall s, reach (init_sys cap max [] enf0 ops) s ->
     NoDup (book_tags s) /\
     e_cur (s_enf s) = book_total (e_all (s_enf s)) + match e_pc (s_enf s) with EEvLock k _ => esize k | _ => 0 end).
  { intros s R. destruct (reach_own_X _ _ _ _ Hnd R) as [Ho Hx]. split.
    - apply cnt_NoDup. intros g. destruct (Ho g) as [H1 _ _ _ _]. unfold BK in H1. change (book_tags s) with (map etag (e_all (s_enf s))). revert H1. generalize (cnt g (map etag (e_all (s_enf s)))). intros; lia.
    - rewrite book_total_is_total. exact Hx. }
  destruct (run_from 0 _ sched) as [s|n s|n s]; [apply G; exact H | apply G; exact H | apply G; apply H].
Qed.

(** Clauses 2, 3 and 4 of the quiescence statement (audit item 4): when everything has finished, the book has no
    duplicates, curSize is exactly its total, and that is within the limit. *)
Theorem mem_quiescent_book_exact : forall cap max ops sched s,
  (0 <= max)%Z -> NoDup (add_tags_of ops) ->
  run (init_sys cap (Some max) [] enf0 ops) sched = Fin s -> all_done s = true ->
  NoDup (book_tags s) /\ e_cur (s_enf s) = book_total (e_all (s_enf s)) /\ (e_cur (s_enf s) <= max)%Z.
Proof.
  intros cap max ops sched s Hmax Hnd Hr Hd.
  pose proof (mem_book_is_exact cap (Some max) ops sched Hnd) as H1. rewrite Hr in H1.
  pose proof (mem_cursize_within_limit cap max ops sched Hmax) as H2. rewrite Hr in H2.
  unfold all_done in Hd. apply andb_true_iff in Hd. destruct Hd as [_ Hi]. unfold is_idle in Hi.
  destruct (e_pc (s_enf s)) eqn:Epc; try discriminate.
  destruct H1 as [N1 N2]. repeat split; [exact N1 | lia | apply H2; reflexivity].
Qed.

(** The scanning loop of parseEmailAddress and parseMailboxName: what they return on plain
    input, the length bounds that make a name re-parsable, commutation with lower-casing. *)
From IV Require Import Base.Bytes Base.BytesFacts Model.Addr Proofs.AddrFacts.
From Coq Require Import ZifyN ZifyNat ZifyBool.

(** no period directly after a period, [prev] being the byte in front of [s] *)
Fixpoint nodd (prev : N) (s : str) : bool :=
  match s with
  | [] => true
  | c :: t => negb ((prev =? 46) && (c =? 46)) && nodd c t
  end.

Lemma classify_dot c : classify c = CDot -> c = 46.
Proof.
  unfold classify. destruct (is_alpha c || is_digit c || mem_b c email_specials); [discriminate|].
  destruct (c =? 46) eqn:E; [intros _; lia|].
  destruct (c =? 92); [discriminate|]. destruct (c =? 34); [discriminate|]. destruct (c =? 64); [discriminate|].
  destruct (127 <? c); discriminate.
Qed.

Lemma classify_at : classify 64 = CAt.
Proof. vm_compute. reflexivity. Qed.

Lemma classify_not_high c : classify c <> CHigh -> c < 128.
Proof.
  unfold classify. destruct (is_alpha c || is_digit c || mem_b c email_specials) eqn:A.
  - intros _. apply orb_true_iff in A as [A|A]; [apply orb_true_iff in A as [A|A]|].
    + apply is_alpha_lt; exact A.
    + apply is_digit_lt; exact A.
    + apply email_specials_lt; exact A.
  - destruct (c =? 46) eqn:E1; [lia|]. destruct (c =? 92) eqn:E2; [lia|]. destruct (c =? 34) eqn:E3; [lia|].
    destruct (c =? 64) eqn:E4; [lia|]. destruct (127 <? c) eqn:E5; [congruence | lia].
Qed.

Lemma plain_char_cases c : plain_char c = true -> classify c = CCopy \/ classify c = CDot.
Proof. unfold plain_char. destruct (classify c); try discriminate; tauto. Qed.

Lemma plain_cons c s : plain (c :: s) = true <-> plain_char c = true /\ plain s = true.
Proof. unfold plain. simpl. apply andb_true_iff. Qed.

Lemma plain_app a b : plain (a ++ b) = true <-> plain a = true /\ plain b = true.
Proof. unfold plain. rewrite forallb_app. apply andb_true_iff. Qed.

Lemma push_some c r l d : push c r = Some (l, d) -> exists l', l = c :: l' /\ r = Some (l', d).
Proof. destruct r as [[l' d']|]; simpl; [|discriminate]. intros H. inversion H; subst. eauto. Qed.

Lemma last_cons (c : N) n : forall d, last (c :: n) d = last n c.
Proof.
  revert c. induction n as [|x n IH]; intros c d; [reflexivity|].
  change (last (c :: x :: n) d) with (last (x :: n) d). rewrite (IH x d), (IH x c). reflexivity.
Qed.

Lemma last_default_nonempty (x : N) n d d' : last (x :: n) d = last (x :: n) d'.
Proof. rewrite !last_cons. reflexivity. Qed.

(** S1: a plain string without a repeated period is copied verbatim; no domain. *)
Lemma scan_plain s : forall i prev, plain s = true -> nodd prev s = true -> scan s i prev false false = Some (s, []).
Proof.
  induction s as [|c s IH]; intros i prev Hp Hd; [reflexivity|].
  apply plain_cons in Hp as [Hc Hp]. cbn [nodd] in Hd. apply andb_true_iff in Hd as [Hd1 Hd2].
  cbn [scan]. destruct (plain_char_cases c Hc) as [K|K]; rewrite K.
  - rewrite IH by assumption. reflexivity.
  - apply classify_dot in K. subst c. rewrite N.eqb_refl, andb_true_r in Hd1.
    apply negb_true_iff in Hd1. rewrite Hd1. rewrite IH by assumption. reflexivity.
Qed.

(** S2: a plain local part followed by an unquoted '@'. *)
Lemma scan_plain_at n : forall t i prev, plain n = true -> nodd prev n = true ->
  scan (n ++ 64 :: t) i prev false false =
    if max_local_index <? i + N.of_nat (length n) then None
    else if last n prev =? 46 then None else Some (n, t).
Proof.
  induction n as [|c n IH]; intros t i prev Hp Hd.
  - cbn [app scan length last]. rewrite classify_at. cbn [orb]. rewrite N.add_0_r. reflexivity.
  - apply plain_cons in Hp as [Hc Hp]. cbn [nodd] in Hd. apply andb_true_iff in Hd as [Hd1 Hd2].
    rewrite last_cons.
    replace (i + N.of_nat (length (c :: n))) with (i + 1 + N.of_nat (length n)) by (simpl length; lia).
    change ((c :: n) ++ 64 :: t) with (c :: (n ++ 64 :: t)). cbn [scan].
    assert (R : push c (scan (n ++ 64 :: t) (i + 1) c false false) =
                if max_local_index <? i + 1 + N.of_nat (length n) then None
                else if last n c =? 46 then None else Some (c :: n, t)).
    { rewrite IH by assumption. destruct (max_local_index <? i + 1 + N.of_nat (length n)); [reflexivity|].
      destruct (last n c =? 46); reflexivity. }
    destruct (plain_char_cases c Hc) as [K|K]; rewrite K.
    + exact R.
    + apply classify_dot in K. subst c. rewrite N.eqb_refl, andb_true_r in Hd1.
      apply negb_true_iff in Hd1. rewrite Hd1. exact R.
Qed.

(** S3: length bounds. The unquoted local part is no longer than its source, and when a
    domain follows, the local part ended within the 128 limit. *)
Lemma scan_bounds s : forall i p cq sq l d, scan s i p cq sq = Some (l, d) ->
  (length l + length d <= length s)%nat /\
  (d <> [] -> i + N.of_nat (length l) <= max_local_index /\ (length l + 1 + length d <= length s)%nat).
Proof.
  induction s as [|c s IH]; intros i p cq sq l d H; cbn [scan] in H.
  - destruct (cq || sq); [discriminate|]. inversion H; subst. simpl. split; [lia|]. intros X; congruence.
  - assert (PUSH : forall i' p' cq' sq', push c (scan s i' p' cq' sq') = Some (l, d) -> i' = i + 1 ->
        (length l + length d <= length (c :: s))%nat /\
        (d <> [] -> i + N.of_nat (length l) <= max_local_index /\ (length l + 1 + length d <= length (c :: s))%nat)).
    { intros i' p' cq' sq' HP Hi. apply push_some in HP as [l' [-> R]]. apply IH in R as [R1 R2].
      simpl length. split; [lia|]. intros Hd. specialize (R2 Hd). lia. }
    assert (SKIP : forall i' p' cq' sq', scan s i' p' cq' sq' = Some (l, d) -> i' = i + 1 ->
        (length l + length d <= length (c :: s))%nat /\
        (d <> [] -> i + N.of_nat (length l) <= max_local_index /\ (length l + 1 + length d <= length (c :: s))%nat)).
    { intros i' p' cq' sq' R Hi. apply IH in R as [R1 R2].
      simpl length. split; [lia|]. intros Hd. specialize (R2 Hd). lia. }
    destruct (classify c).
    + eapply PUSH; eauto.
    + destruct (p =? 46); [discriminate|]. eapply PUSH; eauto.
    + eapply SKIP; eauto.
    + destruct cq; [eapply PUSH; eauto|]. destruct sq; [eapply SKIP; eauto|].
      destruct (i =? 0); [eapply SKIP; eauto | discriminate].
    + destruct (cq || sq); [eapply PUSH; eauto|].
      destruct (max_local_index <? i) eqn:E; [discriminate|]. destruct (p =? 46); [discriminate|].
      inversion H; subst. simpl length. split; [lia|]. intros _. lia.
    + discriminate.
    + destruct (cq || sq); [eapply PUSH; eauto | discriminate].
Qed.

(** S5: the local part is ASCII. *)
Lemma scan_ascii s : forall i p cq sq l d, scan s i p cq sq = Some (l, d) -> Forall (fun c => c < 128) l.
Proof.
  induction s as [|c s IH]; intros i p cq sq l d H; cbn [scan] in H.
  - destruct (cq || sq); [discriminate|]. inversion H; subst. constructor.
  - assert (C : classify c <> CHigh -> c < 128) by apply classify_not_high.
    assert (PUSH : forall i' p' cq' sq', classify c <> CHigh -> push c (scan s i' p' cq' sq') = Some (l, d) -> Forall (fun c => c < 128) l).
    { intros i' p' cq' sq' K HP. apply push_some in HP as [l' [-> R]]. constructor; [apply C; exact K | eapply IH; eauto]. }
    destruct (classify c) eqn:K.
    + eapply PUSH; eauto; congruence.
    + destruct (p =? 46); [discriminate|]. eapply PUSH; eauto; congruence.
    + eapply IH; eauto.
    + destruct cq; [eapply PUSH; eauto; congruence|]. destruct sq; [eapply IH; eauto|].
      destruct (i =? 0); [eapply IH; eauto | discriminate].
    + destruct (cq || sq); [eapply PUSH; eauto; congruence|].
      destruct (max_local_index <? i); [discriminate|]. destruct (p =? 46); [discriminate|].
      inversion H; subst. constructor.
    + discriminate.
    + destruct (cq || sq); [eapply PUSH; eauto; congruence | discriminate].
Qed.

(** S4: the loop commutes with lower-casing. *)
Definition low2 (p : str * str) : str * str := (lower (fst p), lower (snd p)).

Lemma push_low2 c r : option_map low2 (push c r) = push (lower_b c) (option_map low2 r).
Proof. destruct r as [[l d]|]; reflexivity. Qed.

Lemma scan_lower s : forall i p cq sq,
  scan (lower s) i (lower_b p) cq sq = option_map low2 (scan s i p cq sq).
Proof.
  induction s as [|c s IH]; intros i p cq sq.
  - simpl. destruct (cq || sq); reflexivity.
  - change (lower (c :: s)) with (lower_b c :: lower s). cbn [scan].
    rewrite classify_lower. rewrite (lower_b_eqb p 46) by reflexivity.
    destruct (classify c).
    + rewrite IH, push_low2. reflexivity.
    + destruct (p =? 46); [reflexivity|]. rewrite IH, push_low2. reflexivity.
    + apply IH.
    + destruct cq; [rewrite IH, push_low2; reflexivity|]. destruct sq; [apply IH|].
      destruct (i =? 0); [apply IH | reflexivity].
    + destruct (cq || sq); [rewrite IH, push_low2; reflexivity|].
      destruct (max_local_index <? i); [reflexivity|]. destruct (p =? 46); reflexivity.
    + reflexivity.
    + destruct (cq || sq); [rewrite IH, push_low2; reflexivity | reflexivity].
Qed.

Lemma strip_route_lower a : strip_route (lower a) = option_map lower (strip_route a).
Proof.
  destruct a as [|c a]; [reflexivity|]. change (lower (c :: a)) with (lower_b c :: lower a).
  unfold strip_route. rewrite (lower_b_eqb c 64) by reflexivity.
  destruct (c =? 64); [|reflexivity].
  change (lower_b c :: lower a) with (lower (c :: a)). rewrite index_of_lower by reflexivity.
  destruct (index_of 58 (c :: a)) as [k|]; [|reflexivity]. simpl option_map. rewrite lower_skipn. reflexivity.
Qed.

Lemma parse_email_lower a : parse_email (lower a) = option_map low2 (parse_email a).
Proof.
  destruct a as [|c0 a0]; [reflexivity|]. set (a := c0 :: a0).
  assert (E : parse_email (lower a) =
     if max_address_len <? N.of_nat (length (lower a)) then None
     else match strip_route (lower a) with
          | None => None | Some [] => None
          | Some ((c :: _) as a') => if c =? 46 then None else scan a' 0 46 false false end) by reflexivity.
  rewrite E. clear E. unfold parse_email. fold a. rewrite lower_length.
  destruct (max_address_len <? N.of_nat (length a)); [reflexivity|].
  rewrite strip_route_lower. destruct (strip_route a) as [[|c a']|]; try reflexivity.
  cbn [option_map]. change (lower (c :: a')) with (lower_b c :: lower a'). cbv iota beta.
  rewrite (lower_b_eqb c 46) by reflexivity. destruct (c =? 46); [reflexivity|].
  change (lower_b c :: lower a') with (lower (c :: a')).
  change 46 with (lower_b 46) at 1. apply scan_lower.
Qed.

(** * parseMailboxName *)

Lemma parse_mailbox_name_some l n : parse_mailbox_name l = Some n ->
  n = take_until ext_separator (lower l) /\ Forall (fun c => mailbox_char_ok c = true) n /\
  ~ In ext_separator n /\ (length n <= length l)%nat.
Proof.
  destruct l as [|c l]; [discriminate|]. unfold parse_mailbox_name.
  destruct (forallb mailbox_char_ok (lower (c :: l))) eqn:F; [|discriminate].
  intros H. assert (E : n = take_until ext_separator (lower (c :: l))) by congruence. clear H. subst n.
  split; [reflexivity|]. split; [|split].
  - apply take_until_forall. apply Forall_forall. rewrite forallb_forall in F. exact F.
  - apply take_until_no_sep.
  - rewrite <- (lower_length (c :: l)). apply take_until_length.
Qed.

Lemma lower_fix_forall n : Forall (fun c => mailbox_char_ok c = true) n -> lower n = n.
Proof.
  induction 1 as [|c n Hc Hn IH]; [reflexivity|].
  change (lower (c :: n)) with (lower_b c :: lower n). rewrite IH, mailbox_char_lower_fix by exact Hc. reflexivity.
Qed.

(** M2: a name is its own mailbox name. *)
Lemma parse_mailbox_name_fix n :
  n <> [] -> Forall (fun c => mailbox_char_ok c = true) n -> ~ In ext_separator n -> parse_mailbox_name n = Some n.
Proof.
  intros Hne Hf Hs. destruct n as [|c n]; [congruence|]. unfold parse_mailbox_name.
  rewrite lower_fix_forall by exact Hf.
  assert (F : forallb mailbox_char_ok (c :: n) = true) by (apply forallb_forall; apply Forall_forall; exact Hf).
  rewrite F. rewrite take_until_id by exact Hs. reflexivity.
Qed.

(** M3: only the lower-cased local part matters. *)
Lemma parse_mailbox_name_case l l' : lower l = lower l' -> parse_mailbox_name l = parse_mailbox_name l'.
Proof.
  intros H. destruct l as [|c l], l' as [|c' l']; try discriminate; [reflexivity|].
  unfold parse_mailbox_name. rewrite H. reflexivity.
Qed.

Lemma plain_of_mailbox_chars n : Forall (fun c => mailbox_char_ok c = true) n -> plain n = true.
Proof.
  intros H. apply forallb_forall. rewrite Forall_forall in H. intros c Hc. apply H in Hc.
  apply mailbox_char_plain in Hc. unfold cls_is_plain in Hc. unfold plain_char.
  destruct (classify c); try discriminate; reflexivity.
Qed.

Lemma nodd_of_no_dotdot p n : has_dotdot n = false -> (p =? 46) && (nth 0 n 0 =? 46) = false -> nodd p n = true.
Proof.
  revert p. induction n as [|c n IH]; intros p H1 H2; [reflexivity|].
  cbn [nodd]. simpl nth in H2. rewrite H2. cbn [negb andb].
  cbn [has_dotdot] in H1. apply orb_false_iff in H1 as [H1 H3]. apply IH; [exact H3|].
  destruct n as [|b n]; [simpl; apply andb_false_r | exact H1].
Qed.

(** C15: the hub fed through the asynchronous broker (Model/HubFed.v). *)
From Coq Require Import Lia.
From IV Require Import Base.Bytes Model.Hub Model.HubFed Proofs.HubBasics Proofs.HubInv Proofs.HubTheorems Proofs.HubHistory.
Local Open Scope nat_scope.

(** * The composed system projects onto a run of the hub *)

Fixpoint hacts (p : list msg) (sched : list fact) : list action :=
  match sched with
  | [] => []
  | FEmit m :: t => hacts (p ++ [m]) t
  | FDeliver :: t => match p with [] => hacts [] t | m :: p' => AEnq (ODispatch m) :: hacts p' t end
  | FJoin l k f fail :: t => ANew l k f fail :: hacts p t
  | FHub ch :: t => AHub ch :: hacts p t
  | FTake l :: t => ATake l :: hacts p t
  end.

Fixpoint pend_after (p : list msg) (sched : list fact) : list msg :=
  match sched with
  | [] => p
  | FEmit m :: t => pend_after (p ++ [m]) t
  | FDeliver :: t => match p with [] => pend_after [] t | _ :: p' => pend_after p' t end
  | _ :: t => pend_after p t
  end.

Lemma frun_project c sched : forall s s', frun c s sched = Some s' ->
  run c (fh s) (hacts (fb_pend s) sched) = Some (fh s') /\ fb_pend s' = pend_after (fb_pend s) sched.
Proof.
  induction sched as [|a t IH]; intros s s' R; cbn [frun] in R.
  - inversion R; subst. cbn. auto.
  - destruct (fstep c s a) as [s1|] eqn:E; [|discriminate]. specialize (IH s1 s' R). destruct IH as [IH1 IH2].
    destruct a; cbn [fstep] in E; cbn [hacts pend_after].
    + inversion E; subst s1. cbn [fb_pend fh] in *. auto.
    + destruct (fb_running s); [|discriminate]. destruct (fb_pend s) as [|m p] eqn:P.
      * inversion E; subst s1. cbn [fb_pend fh] in *. auto.
      * destruct (step c (fh s) (AEnq (ODispatch m))) as [h|] eqn:S; [|discriminate]. inversion E; subst s1.
        cbn [fb_pend fh run] in *. rewrite S. auto.
    + destruct (step c (fh s) (ANew l k f fail)) as [h|] eqn:S; [|discriminate]. inversion E; subst s1.
      cbn [fb_pend fh run] in *. rewrite S. auto.
    + destruct (step c (fh s) (AHub ch)) as [h|] eqn:S; [|discriminate]. inversion E; subst s1.
      cbn [fb_pend fh run] in *. rewrite S. auto.
    + destruct (step c (fh s) (ATake l)) as [h|] eqn:S; [|discriminate]. inversion E; subst s1.
      cbn [fb_pend fh run] in *. rewrite S. auto.
Qed.

(** * What is submitted to the hub *)

Definition msgs (ops : list op) : list msg :=
  flat_map (fun o => match o with ODispatch m => [m] | _ => [] end) ops.

Definition pure_op (o : op) : bool := match o with ODispatch _ | OAdd _ => true | _ => false end.

Lemma msgs_app a b : msgs (a ++ b) = msgs a ++ msgs b.
Proof. unfold msgs. apply flat_map_app. Qed.

Lemma submitted_hacts_pure p sched : forallb pure_op (submitted (hacts p sched)) = true.
Proof.
  revert p. induction sched as [|a t IH]; intros p; cbn [hacts]; [reflexivity|].
  destruct a; cbn [submitted forallb pure_op andb]; auto.
  destruct p; cbn [submitted forallb pure_op andb]; auto.
Qed.

Lemma submitted_hacts_msgs p sched : msgs (submitted (hacts p sched)) = handed p sched.
Proof.
  revert p. induction sched as [|a t IH]; intros p; cbn [hacts handed]; [reflexivity|].
  destruct a; cbn [submitted]; auto.
  - destruct p; cbn [submitted]; auto. change (m :: msgs (submitted (hacts p t)) = m :: handed p t). rewrite IH. reflexivity.
  - change (msgs (submitted (hacts p t)) = handed p t). apply IH.
Qed.

(** Nothing is lost or reordered between Emit and the hub's op queue. *)
Lemma handed_pending p sched : handed p sched ++ pend_after p sched = p ++ emitted sched.
Proof.
  revert p. induction sched as [|a t IH]; intros p; cbn [handed pend_after emitted].
  - rewrite app_nil_r. reflexivity.
  - destruct a; try apply IH.
    + rewrite IH, <- app_assoc. reflexivity.
    + destruct p as [|m p]; cbn [app]; [apply (IH [])|]. rewrite IH. reflexivity.
Qed.

Lemma submitted_hacts_app p s1 s2 :
  submitted (hacts p (s1 ++ s2)) = submitted (hacts p s1) ++ submitted (hacts (pend_after p s1) s2).
Proof.
  revert p. induction s1 as [|a t IH]; intros p; cbn [app hacts pend_after]; [reflexivity|].
  destruct a; cbn [submitted]; auto.
  - destruct p; cbn [submitted app]; auto. rewrite IH. reflexivity.
  - rewrite IH. reflexivity.
Qed.

(** * Entitlement over dispatch/join-only op lists *)

Lemma view_after_join l b : forall v, v_joined v = true -> v_reg v = true -> forallb pure_op b = true ->
  v_es (fold_left (view_step l) b v) = v_es v ++ map Stored (msgs b).
Proof.
  induction b as [|o t IH]; intros v J R P; cbn [fold_left].
  - cbn. rewrite app_nil_r. reflexivity.
  - cbn [forallb] in P. apply Bool.andb_true_iff in P. destruct P as [Po Pt]. destruct o; cbn in Po; try discriminate.
    + rewrite IH; auto. cbn [view_step v_es]. rewrite R. change (msgs (ODispatch m :: t)) with (m :: msgs t).
      cbn [map]. rewrite <- app_assoc. reflexivity.
    + assert (view_step l v (OAdd l0) = v) as ->. { cbn [view_step]. rewrite J, Bool.andb_false_r. reflexivity. }
      change (msgs (OAdd l0 :: t)) with (msgs t). apply IH; auto.
Qed.

Lemma dispatched_pure ops : forall acc, forallb pure_op ops = true ->
  dispatched ops acc = acc ++ map (fun m => (m, false)) (msgs ops).
Proof.
  induction ops as [|o t IH]; intros acc P; cbn [dispatched].
  - cbn. rewrite app_nil_r. reflexivity.
  - cbn [forallb] in P. apply Bool.andb_true_iff in P. destruct P as [Po Pt]. destruct o; cbn in Po; try discriminate.
    + rewrite IH by auto. change (msgs (ODispatch m :: t)) with (m :: msgs t). cbn [map]. rewrite <- app_assoc. reflexivity.
    + change (msgs (OAdd l :: t)) with (msgs t). apply IH. auto.
Qed.

Lemma ring_after_pure n ops : forall acc, forallb pure_op ops = true ->
  ring_after (ring_of n acc) ops = ring_of n (dispatched ops acc).
Proof.
  induction ops as [|o t IH]; intros acc P; cbn [ring_after dispatched]; auto.
  cbn [forallb] in P. apply Bool.andb_true_iff in P. destruct P as [Po Pt]. destruct o; cbn in Po; try discriminate; auto.
  rewrite <- IH by auto. f_equal. unfold ring_of.
  rewrite lastn_snoc_push by (rewrite app_length, repeat_length; lia).
  unfold cells. rewrite map_app, <- app_assoc. reflexivity.
Qed.

(** Without deletes the live ring is simply the last [n] dispatched. *)
Lemma ring_live_pure n ops : forallb pure_op ops = true ->
  ring_live (ring_after (ring_init n) ops) = lastn n (msgs ops).
Proof.
  intros P.
  assert (ring_init n = ring_of n []) as ->.
  { unfold ring_of, ring_init, lastn. cbn [cells map]. rewrite app_nil_r, repeat_length.
    replace (n - n) with 0 by lia. reflexivity. }
  rewrite ring_after_pure by auto. rewrite ring_live_ring_of. rewrite dispatched_pure by auto. cbn [app].
  set (g := fun m : msg => (m, false)).
  rewrite (lastn_map g). 
  assert (F : forall xs, map fst (filter (fun x : msg * bool => negb (snd x)) (map g xs)) = xs).
  { induction xs as [|x xs IHx]; cbn; auto. rewrite IHx. reflexivity. }
  apply F.
Qed.

Lemma expected_join_pure n k f l a b :
  forallb pure_op a = true -> forallb pure_op b = true -> ~ In l (adds a) ->
  expected n k f l (a ++ OAdd l :: b) = filter (wants k f) (map Stored (lastn n (msgs a) ++ msgs b)).
Proof.
  intros Pa Pb NA. unfold expected, view_of. rewrite fold_left_app. cbn [fold_left].
  destruct (view_not_added n l a NA) as (E1 & E2 & E3). unfold view_of in E1, E2, E3.
  set (v := fold_left (view_step l) a (mkV (ring_init n) [] false false)) in *.
  assert (view_step l v (OAdd l) = mkV (v_ring v) (map Stored (ring_live (v_ring v))) true true) as ->.
  { cbn [view_step]. rewrite Nat.eqb_refl, E2. reflexivity. }
  rewrite view_after_join by auto. cbn [v_es]. unfold v. rewrite v_ring_fold. cbn [v_ring].
  rewrite ring_live_pure by auto. rewrite map_app. reflexivity.
Qed.

(** * The theorem *)

(** For every sequence of Emit calls and every interleaving of the broker's delivery goroutine,
    the hub goroutine, joins and socket writers:
    (1) what the broker has handed to the hub followed by what it still holds is exactly the
        emitted sequence — the hub's op queue sees the events in emit order, none lost, none twice;
    (2) once everything has settled, a healthy monitor that joined at ANY moment holds: the last
        N of the events that had been handed to the hub before its join, then every other emitted
        event, in emit order, through its filter.
    Special cases: joined before the first Emit — exactly the emitted sequence; joined after
    quiescence with nothing emitted later — exactly the last N. *)
Theorem broker_fed_hub_in_order :
  forall n c s1 l k f fail s2 st ls0,
    frun c (fed_init n) (s1 ++ FJoin l k f fail :: s2) = Some st ->
    handed [] (s1 ++ FJoin l k f fail :: s2) ++ fb_pend st = emitted (s1 ++ FJoin l k f fail :: s2) /\
    (quiescent st = true ->
     find_l l (ls (fh st)) = Some ls0 -> lclosed ls0 = false -> lerred ls0 = false ->
     lout ls0 ++ lq ls0 =
       filter (wants (lk ls0) (lf ls0))
              (map Stored (lastn n (handed [] s1) ++ handed (pend_after [] s1) s2))).
Proof.
  intros n c s1 l k f fail s2 st ls0 R.
  destruct (frun_project c _ _ _ R) as [RH PE]. cbn [fed_init fb_pend fh] in RH, PE.
  split.
  - rewrite PE. apply (handed_pending [] _).
  - intros Q F C E. unfold quiescent in Q.
    destruct (fb_pend st) eqn:Qp; [|discriminate]. destruct (work (fh st)) eqn:Qw; [|discriminate].
    destruct (opq (fh st)) eqn:Qo; [|discriminate].
    rewrite (each_event_once_in_order_quiescent n c _ (fh st) l ls0 RH Qw Qo F C E).
    rewrite submitted_hacts_app. cbn [hacts submitted].
    assert (NA : ~ In l (adds (submitted (hacts [] s1)))).
    { pose proof (reachable_inv n c _ _ RH) as I. destruct I as [_ _ ND _ _ _ _].
      rewrite (fifo_order n c _ _ RH), submitted_hacts_app in ND. cbn [hacts submitted] in ND.
      rewrite adds_app in ND. cbn [adds flat_map app] in ND.
      intro X. apply NoDup_remove_2 in ND. apply ND. rewrite in_app_iff. auto. }
    rewrite expected_join_pure; auto using submitted_hacts_pure.
    rewrite !submitted_hacts_msgs. reflexivity.
Qed.

(** The two cases the assembled-system check exercises. *)
Corollary attached_before_first_emit :
  forall n c l k f fail s2 st ls0,
    frun c (fed_init n) (FJoin l k f fail :: s2) = Some st -> quiescent st = true ->
    find_l l (ls (fh st)) = Some ls0 -> lclosed ls0 = false -> lerred ls0 = false ->
    lout ls0 ++ lq ls0 = filter (wants (lk ls0) (lf ls0)) (map Stored (emitted s2)).
Proof.
  intros n c l k f fail s2 st ls0 R Q F C E.
  destruct (broker_fed_hub_in_order n c [] l k f fail s2 st ls0 R) as [H1 H2].
  rewrite (H2 Q F C E). cbn [handed pend_after app].
  assert (lastn n (@nil msg) = []) as -> by (unfold lastn; destruct (0 - n); reflexivity).
  cbn [app handed emitted] in *. unfold quiescent in Q. destruct (fb_pend st); [|discriminate].
  rewrite app_nil_r in H1. rewrite H1. reflexivity.
Qed.

Corollary attached_after_quiescence :
  forall n c s1 l k f fail s2 st ls0,
    frun c (fed_init n) (s1 ++ FJoin l k f fail :: s2) = Some st -> quiescent st = true ->
    pend_after [] s1 = [] -> emitted s2 = [] ->
    find_l l (ls (fh st)) = Some ls0 -> lclosed ls0 = false -> lerred ls0 = false ->
    lout ls0 ++ lq ls0 = filter (wants (lk ls0) (lf ls0)) (map Stored (lastn n (emitted s1))).
Proof.
  intros n c s1 l k f fail s2 st ls0 R Q P0 E2 F C E.
  destruct (broker_fed_hub_in_order n c s1 l k f fail s2 st ls0 R) as [_ H2].
  rewrite (H2 Q F C E). rewrite P0.
  pose proof (handed_pending [] s1) as HP. rewrite P0, app_nil_r in HP. cbn [app] in HP. rewrite HP.
  pose proof (handed_pending [] s2) as HP2. rewrite E2 in HP2. cbn [app] in HP2.
  apply app_eq_nil in HP2. destruct HP2 as [-> _]. rewrite app_nil_r. reflexivity.
Qed.

(** * Two brokers *)

Fixpoint hacts2 (p d : list msg) (sched : list fact2) : list action :=
  match sched with
  | [] => []
  | F2 (FEmit m) :: t => hacts2 (p ++ [m]) d t
  | F2 FDeliver :: t => match p with [] => hacts2 [] d t | m :: p' => AEnq (ODispatch m) :: hacts2 p' d t end
  | F2 (FJoin l k f fail) :: t => ANew l k f fail :: hacts2 p d t
  | F2 (FHub ch) :: t => AHub ch :: hacts2 p d t
  | F2 (FTake l) :: t => ATake l :: hacts2 p d t
  | F2EmitDel m :: t => hacts2 p (d ++ [m]) t
  | F2DeliverDel :: t => match d with [] => hacts2 p [] t | m :: d' => AEnq (ODelete m) :: hacts2 p d' t end
  end.

Fixpoint pend2_after (p d : list msg) (sched : list fact2) : list msg * list msg :=
  match sched with
  | [] => (p, d)
  | F2 (FEmit m) :: t => pend2_after (p ++ [m]) d t
  | F2 FDeliver :: t => match p with [] => pend2_after [] d t | _ :: p' => pend2_after p' d t end
  | F2EmitDel m :: t => pend2_after p (d ++ [m]) t
  | F2DeliverDel :: t => match d with [] => pend2_after p [] t | _ :: d' => pend2_after p d' t end
  | _ :: t => pend2_after p d t
  end.

Fixpoint emitted_s (sched : list fact2) : list msg :=
  match sched with [] => [] | F2 (FEmit m) :: t => m :: emitted_s t | _ :: t => emitted_s t end.
Fixpoint emitted_d (sched : list fact2) : list msg :=
  match sched with [] => [] | F2EmitDel m :: t => m :: emitted_d t | _ :: t => emitted_d t end.

Definition dels (ops : list op) : list msg :=
  flat_map (fun o => match o with ODelete m => [m] | _ => [] end) ops.

Lemma frun2_project c sched : forall s s', frun2 c s sched = Some s' ->
  run c (fh (f2 s)) (hacts2 (fb_pend (f2 s)) (fd_pend s) sched) = Some (fh (f2 s')) /\
  (fb_pend (f2 s'), fd_pend s') = pend2_after (fb_pend (f2 s)) (fd_pend s) sched.
Proof.
  induction sched as [|a t IH]; intros s s' R; cbn [frun2] in R.
  - inversion R; subst. cbn. auto.
  - destruct (fstep2 c s a) as [s1|] eqn:E; [|discriminate]. specialize (IH s1 s' R). destruct IH as [IH1 IH2].
    destruct a as [a'| m |]; cbn [fstep2] in E.
    + destruct (fstep c (f2 s) a') as [x|] eqn:E1; [|discriminate]. inversion E; subst s1; clear E.
      cbn [f2 fd_pend fd_running] in *.
      destruct a'; cbn [fstep] in E1; cbn [hacts2 pend2_after].
      * inversion E1; subst x. cbn [fb_pend fh] in *. auto.
      * destruct (fb_running (f2 s)); [|discriminate]. destruct (fb_pend (f2 s)) as [|m p] eqn:P.
        -- inversion E1; subst x. cbn [fb_pend fh] in *. auto.
        -- destruct (step c (fh (f2 s)) (AEnq (ODispatch m))) as [h|] eqn:S; [|discriminate]. inversion E1; subst x.
           cbn [fb_pend fh run] in *. rewrite S. auto.
      * destruct (step c (fh (f2 s)) (ANew l k f fail)) as [h|] eqn:S; [|discriminate]. inversion E1; subst x.
        cbn [fb_pend fh run] in *. rewrite S. auto.
      * destruct (step c (fh (f2 s)) (AHub ch)) as [h|] eqn:S; [|discriminate]. inversion E1; subst x.
        cbn [fb_pend fh run] in *. rewrite S. auto.
      * destruct (step c (fh (f2 s)) (ATake l)) as [h|] eqn:S; [|discriminate]. inversion E1; subst x.
        cbn [fb_pend fh run] in *. rewrite S. auto.
    + inversion E; subst s1. cbn [f2 fd_pend hacts2 pend2_after] in *. auto.
    + destruct (fd_running s); [|discriminate]. destruct (fd_pend s) as [|m d] eqn:D; cbn [hacts2 pend2_after].
      * inversion E; subst s1. cbn [f2 fd_pend] in *. auto.
      * destruct (step c (fh (f2 s)) (AEnq (ODelete m))) as [h|] eqn:S; [|discriminate]. inversion E; subst s1.
        cbn [f2 fd_pend fb_pend fh run] in *. rewrite S. auto.
Qed.

Lemma hacts2_streams p d sched :
  msgs (submitted (hacts2 p d sched)) ++ fst (pend2_after p d sched) = p ++ emitted_s sched /\
  dels (submitted (hacts2 p d sched)) ++ snd (pend2_after p d sched) = d ++ emitted_d sched.
Proof.
  revert p d. induction sched as [|a t IH]; intros p d; cbn [hacts2 pend2_after emitted_s emitted_d].
  - cbn. rewrite !app_nil_r. auto.
  - destruct a as [a'| m |].
    + destruct a'; cbn [submitted]; try apply IH.
      * destruct (IH (p ++ [m]) d) as [A B]. rewrite A, B, <- app_assoc. auto.
      * destruct p as [|m p]; [apply (IH [] d)|]. cbn [submitted]. destruct (IH p d) as [A B].
        change (msgs (ODispatch m :: ?x)) with (m :: msgs x). change (dels (ODispatch m :: ?x)) with (dels x).
        cbn [app]. rewrite A, B. auto.
    + destruct (IH p (d ++ [m])) as [A B]. rewrite A, B, <- app_assoc. auto.
    + destruct d as [|m d]; [apply (IH p [])|]. cbn [submitted]. destruct (IH p d) as [A B].
      change (msgs (ODelete m :: ?x)) with (msgs x). change (dels (ODelete m :: ?x)) with (m :: dels x).
      cbn [app]. rewrite A, B. auto.
Qed.

(** With both brokers: each stream reaches the hub's op queue in its own emit order, nothing
    lost, nothing doubled (nothing is said about the order BETWEEN the two streams: there is none);
    and at quiescence every healthy monitor holds exactly its entitlement for the op sequence
    the hub was given. *)
Theorem two_brokers_each_fifo :
  forall n c sched st,
    frun2 c (fed2_init n) sched = Some st ->
    msgs (hlog (fh (f2 st)) ++ opq (fh (f2 st))) ++ fb_pend (f2 st) = emitted_s sched /\
    dels (hlog (fh (f2 st)) ++ opq (fh (f2 st))) ++ fd_pend st = emitted_d sched /\
    (quiescent2 st = true -> forall l s, find_l l (ls (fh (f2 st))) = Some s -> lclosed s = false -> lerred s = false ->
       lout s ++ lq s = expected n (lk s) (lf s) l (hlog (fh (f2 st)))).
Proof.
  intros n c sched st R. destruct (frun2_project c _ _ _ R) as [RH PE].
  cbn [fed2_init fed_init f2 fb_pend fd_pend fh] in RH, PE.
  destruct (hacts2_streams [] [] sched) as [A B]. rewrite <- PE in A, B. cbn [fst snd app] in A, B.
  rewrite (fifo_order n c _ _ RH). repeat split; auto.
  intros Q l s F C E. unfold quiescent2, quiescent in Q. apply Bool.andb_true_iff in Q. destruct Q as [Q _].
  destruct (fb_pend (f2 st)); [|discriminate]. destruct (work (fh (f2 st))) eqn:W; [|discriminate].
  eapply each_event_once_in_order_at_rest; eauto.
Qed.

(** Non-vacuity: the canonical schedules of the assembled-system cases run, end quiescent, and the
    monitors hold what the case expects. *)
Example fed_demo :
  fed_drive pinned_cfg 7 3 [] None
  = Some (map TStored (asm_first 7), map TStored (asm_late 7 3), true).
Proof. vm_compute. reflexivity. Qed.

Example fed_demo_del_fail :
  fed_drive pinned_cfg 6 4 [104; 101] (Some 2)
  = Some (map TStored (asm_first 6) ++ [TDeleted 104; TDeleted 101], [TStored 102; TStored 103; TStored 105], true).
Proof. vm_compute. reflexivity. Qed.

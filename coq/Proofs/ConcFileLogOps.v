(** C09 — the commit log of the file-store model never contains a walk (a walk commits one listing per mailbox). *)
From IV Require Import Model.Conc Model.ConcFile Proofs.ConcBase Proofs.ConcFileInv Proofs.ConcFileLin.

Definition fnot_walk (e : flogent) : Prop := flop e <> OVisit.

Lemma flog_step_no_walk s t c s' : finv2 s -> Forall fnot_walk (f_log s) -> fstep s t c = SOk s' -> Forall fnot_walk (f_log s').
Proof.
  intros Hinv HF H. unfold fstep in H.
  destruct (nth_error (f_thr s) t) as [p|] eqn:Hn; [|discriminate].
  pose proof (iF _ Hinv _ _ Hn) as Hp.
  destruct p; try discriminate.
  all: fsplit H.
  all: injection H as <-.
  all: unfold visit_next3, visit_next2, visit_next1.
  all: repeat match goal with |- context [pick ?c ?l] => destruct (pick c l) as [[? ?]|] end.
  all: cbn [f_log fsetpc faddlog ffinish funlock flock fbump set_idx fwith]; try exact HF.
  all: apply Forall_app; split; [exact HF|]; constructor; [|constructor].
  all: unfold fnot_walk, flop; cbn [fst snd]; try discriminate.
  all: cbn [pcfact] in Hp; destruct o; try contradiction; discriminate.
Qed.

Lemma flog_no_walk g ops s : freach (finit g ops) s -> Forall fnot_walk (f_log s).
Proof.
  intros R. induction R; [constructor|]. eapply flog_step_no_walk; eauto. eapply freach_finv2; eauto.
Qed.

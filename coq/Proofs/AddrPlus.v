(** C04, '+extension' for arbitrary (quoted, escaped) local parts: l@d and l+ext@d, both
    accepted, get the same mailbox name, for every string l without an at sign. *)
From IV Require Import Base.Bytes Base.BytesFacts Model.Addr Proofs.AddrFacts Proofs.AddrScan Proofs.AddrDomain Proofs.AddrNaming.
From Coq Require Import ZifyN ZifyNat ZifyBool.

Definition pushp (c : N) (r : option (str * N * bool * bool)) : option (str * N * bool * bool) :=
  match r with Some (o, p, a, b) => Some (c :: o, p, a, b) | None => None end.

(** the scanning loop over a prefix that holds no at sign: output so far and the state reached *)
Fixpoint scan_pre (s : str) (i : N) (prev : N) (cq sq : bool) : option (str * N * bool * bool) :=
  match s with
  | [] => Some ([], prev, cq, sq)
  | c :: t =>
      match classify c with
      | CCopy => pushp c (scan_pre t (i + 1) c false sq)
      | CDot => if prev =? 46 then None else pushp c (scan_pre t (i + 1) c false sq)
      | CBackslash => scan_pre t (i + 1) c true sq
      | CQuote =>
          if cq then pushp c (scan_pre t (i + 1) c false sq)
          else if sq then scan_pre t (i + 1) c false false
          else if i =? 0 then scan_pre t (i + 1) c false true
          else None
      | CAt => None
      | CHigh => None
      | COther => if cq || sq then pushp c (scan_pre t (i + 1) c false sq) else None
      end
  end.

Definition pushl (o : str) (r : option (str * str)) : option (str * str) :=
  match r with Some (x, y) => Some (o ++ x, y) | None => None end.

Lemma classify_at_inv c : classify c = CAt -> c = 64.
Proof.
  unfold classify. destruct (is_alpha c || is_digit c || mem_b c email_specials); [discriminate|].
  destruct (c =? 46); [discriminate|]. destruct (c =? 92); [discriminate|]. destruct (c =? 34); [discriminate|].
  destruct (c =? 64) eqn:E; [intros _; lia|]. destruct (127 <? c); discriminate.
Qed.

Lemma push_pushl c o r : push c (pushl o r) = pushl (c :: o) r.
Proof. destruct r as [[x y]|]; reflexivity. Qed.

Lemma scan_app l : forall t i p cq sq, ~ In 64 l ->
  scan (l ++ t) i p cq sq =
    match scan_pre l i p cq sq with
    | None => None
    | Some (o, p', cq', sq') => pushl o (scan t (i + N.of_nat (length l)) p' cq' sq')
    end.
Proof.
  induction l as [|c l IH]; intros t i p cq sq Hn.
  - cbn [app scan_pre length]. rewrite N.add_0_r. destruct (scan t i p cq sq) as [[x y]|]; reflexivity.
  - assert (Hc : c <> 64) by (intros X; apply Hn; left; exact X).
    assert (Hl : ~ In 64 l) by (intros X; apply Hn; right; exact X).
    replace (i + N.of_nat (length (c :: l))) with (i + 1 + N.of_nat (length l)) by (simpl length; lia).
    change ((c :: l) ++ t) with (c :: (l ++ t)). cbn [scan scan_pre].
    assert (P : forall p1 cq1 sq1,
      push c (scan (l ++ t) (i + 1) p1 cq1 sq1) =
      match pushp c (scan_pre l (i + 1) p1 cq1 sq1) with
      | None => None
      | Some (o, p', cq', sq') => pushl o (scan t (i + 1 + N.of_nat (length l)) p' cq' sq')
      end).
    { intros p1 cq1 sq1. rewrite IH by exact Hl. destruct (scan_pre l (i + 1) p1 cq1 sq1) as [[[[o p'] cq'] sq']|]; [|reflexivity].
      cbn [pushp]. apply push_pushl. }
    destruct (classify c) eqn:K.
    + apply P.
    + destruct (p =? 46); [reflexivity | apply P].
    + apply IH; exact Hl.
    + destruct cq; [apply P|]. destruct sq; [apply IH; exact Hl|]. destruct (i =? 0); [apply IH; exact Hl | reflexivity].
    + apply classify_at_inv in K. congruence.
    + reflexivity.
    + destruct (cq || sq); [apply P | reflexivity].
Qed.

(** a plain string with a repeated period (counting the byte in front) makes the scan fail *)
Lemma scan_plain_at_nodd_false s : forall i p t, plain s = true -> nodd p s = false -> scan (s ++ 64 :: t) i p false false = None.
Proof.
  induction s as [|b s IH]; intros i p t Ps Ns; [discriminate|].
  apply plain_cons in Ps as [Pb Ps]. cbn [nodd] in Ns. cbn [app scan].
  destruct (plain_char_cases b Pb) as [K|K]; rewrite K.
  - destruct (negb ((p =? 46) && (b =? 46))) eqn:X; cbn [andb] in Ns; [rewrite IH by assumption; reflexivity|].
    apply negb_false_iff in X. apply andb_true_iff in X as [_ X]. apply N.eqb_eq in X. subst b.
    exfalso. clear - K. vm_compute in K. discriminate.
  - apply classify_dot in K. subst b. rewrite N.eqb_refl, andb_true_r in Ns.
    destruct (p =? 46); [reflexivity|]. cbn [negb andb] in Ns. rewrite IH by assumption. reflexivity.
Qed.

Lemma mailbox_name_no_at x m : parse_mailbox_name x = Some m -> ~ In 64 x.
Proof.
  destruct x as [|c x]; [discriminate|]. unfold parse_mailbox_name.
  destruct (forallb mailbox_char_ok (lower (c :: x))) eqn:F; [|discriminate]. intros _ Hin.
  rewrite forallb_forall in F. specialize (F 64). destruct mailbox_char_not_special as [X _].
  rewrite X in F. assert (In 64 (lower (c :: x))); [|intuition discriminate].
  unfold lower. apply in_map_iff. exists 64. split; [reflexivity | exact Hin].
Qed.

Section Plus.
Variable parse_ip : str -> bool.
Notation newrcpt := (new_recipient parse_ip).

(** an accepted recipient's unquoted local part holds no at sign *)
Lemma recipient_local_no_at mode a r x y : newrcpt mode a = Some r -> parse_email a = Some (x, y) -> ~ In 64 x.
Proof.
  intros R P. destruct (recipient_name parse_ip mode a r R) as [x' [y' [P' [_ N]]]].
  rewrite P in P'. inversion P'; subst x' y'. destruct mode.
  - eapply mailbox_name_no_at; exact N.
  - destruct N as [m [N _]]. eapply mailbox_name_no_at; exact N.
  - destruct N as [_ [->|[m N]]]; [simpl; tauto | eapply mailbox_name_no_at; exact N].
Qed.

Theorem plus_insensitive_general mode l e d r r' :
  l <> [] -> ~ In 64 l -> plain e = true ->
  newrcpt mode (l ++ 64 :: d) = Some r -> newrcpt mode (l ++ 43 :: e ++ 64 :: d) = Some r' ->
  r_mailbox r = r_mailbox r'.
Proof.
  intros Hl Hat Pe R R'.
  destruct (recipient_name parse_ip mode _ r R) as [x [y [P [V N]]]].
  destruct (recipient_name parse_ip mode _ r' R') as [x' [y' [P' [V' N']]]].
  pose proof (recipient_local_no_at mode _ r x y R P) as NA.
  destruct l as [|c l']; [congruence|].
  assert (C1 : (c =? 64) = false) by (destruct (c =? 64) eqn:E; [apply N.eqb_eq in E; exfalso; apply Hat; left; congruence | reflexivity]).
  (* both addresses start with c: no route, and c is not a period since they were accepted *)
  assert (Hdot : (c =? 46) = false).
  { destruct (c =? 46) eqn:E; [|reflexivity]. exfalso. revert P. unfold parse_email, strip_route. cbn [app]. rewrite C1, E.
    destruct (max_address_len <? _); discriminate. }
  pose proof (parse_email_bounds _ _ _ P) as [B _]. pose proof (parse_email_bounds _ _ _ P') as [B' _].
  change ((c :: l') ++ 64 :: d) with (c :: (l' ++ 64 :: d)) in *.
  change ((c :: l') ++ 43 :: e ++ 64 :: d) with (c :: (l' ++ 43 :: e ++ 64 :: d)) in *.
  rewrite parse_email_noroute in P by assumption. rewrite parse_email_noroute in P' by assumption.
  change (c :: (l' ++ 64 :: d)) with ((c :: l') ++ 64 :: d) in P.
  change (c :: (l' ++ 43 :: e ++ 64 :: d)) with ((c :: l') ++ 43 :: e ++ 64 :: d) in P'.
  rewrite scan_app in P by exact Hat. rewrite scan_app in P' by exact Hat.
  destruct (scan_pre (c :: l') 0 46 false false) as [[[[o p1] cq1] sq1]|]; [|discriminate].
  set (i1 := 0 + N.of_nat (length (c :: l'))) in *.
  (* the at sign after l is met outside quotes, otherwise it would be part of the local part *)
  assert (Q : cq1 || sq1 = false).
  { destruct (cq1 || sq1) eqn:Q; [|reflexivity]. exfalso. cbn [scan] in P. rewrite classify_at, Q in P.
    destruct (scan d (i1 + 1) 64 false sq1) as [[x0 y0]|]; [|discriminate]. cbn [push pushl] in P.
    inversion P; subst x y. apply NA. apply in_or_app. right. left. reflexivity. }
  apply orb_false_iff in Q as [-> ->].
  cbn [scan] in P. rewrite classify_at in P. cbn [orb] in P.
  destruct (max_local_index <? i1); [discriminate|]. destruct (p1 =? 46) eqn:E1; [discriminate|].
  cbn [pushl] in P. rewrite app_nil_r in P. inversion P; subst x y. clear P.
  (* the second address: '+', then the plain extension, then the same at sign *)
  assert (Pe' : plain (43 :: e) = true) by (apply plain_cons; split; [apply plain_char_not_at | exact Pe]).
  change (43 :: e ++ 64 :: d) with ((43 :: e) ++ 64 :: d) in P'.
  destruct (nodd p1 (43 :: e)) eqn:ND.
  - rewrite scan_plain_at in P' by assumption.
    destruct (max_local_index <? i1 + N.of_nat (length (43 :: e))); [discriminate|].
    destruct (last (43 :: e) p1 =? 46); [discriminate|]. cbn [pushl] in P'. inversion P'; subst x' y'. clear P'.
    assert (QN : forall m m', parse_mailbox_name o = Some m -> parse_mailbox_name (o ++ 43 :: e) = Some m' -> m = m').
    { intros m m' A B0. apply parse_mailbox_name_some in A as [-> _]. apply parse_mailbox_name_some in B0 as [-> _].
      rewrite lower_app. change (lower (43 :: e)) with (ext_separator :: lower e). rewrite take_until_app. reflexivity. }
    destruct mode.
    + apply QN; assumption.
    + destruct N as [m [N1 ->]], N' as [m' [N1' ->]]. rewrite (QN m m' N1 N1'). reflexivity.
    + destruct N as [-> _], N' as [-> _]. reflexivity.
  - rewrite scan_plain_at_nodd_false in P' by assumption. discriminate.
Qed.

End Plus.

(** non-vacuity with a quoted local part: "Joe.Q"@Ex.com and "Joe.Q"+x@Ex.com are both accepted (name joe.q@ex.com) *)
Example plus_quoted_sample :
  option_map r_mailbox (new_recipient no_ip Full ([34;74;111;101;46;81;34] ++ 64 :: [69;120;46;99;111;109])) = Some [106;111;101;46;113;64;101;120;46;99;111;109] /\
  option_map r_mailbox (new_recipient no_ip Full ([34;74;111;101;46;81;34] ++ 43 :: [120] ++ 64 :: [69;120;46;99;111;109])) = Some [106;111;101;46;113;64;101;120;46;99;111;109].
Proof. vm_compute. split; reflexivity. Qed.

(** The same for every l, e, d whatsoever (proved in Proofs/AddrPlusAny.v, theorem plus_insensitive_any). It needs
    the alphabet assumption on net.ParseIP (with an arbitrary parse_ip, u@[1@2] against u@[1+e@2] is a counterexample);
    the correspondence oracle checks it on every generated pair, including at signs and quotes in l and e. *)
Definition plus_insensitive_any_stmt : Prop :=
  forall (parse_ip : str -> bool), (forall s, parse_ip s = true -> forallb ip_char s = true) ->
  forall mode l e d r r',
    new_recipient parse_ip mode (l ++ 64 :: d) = Some r -> new_recipient parse_ip mode (l ++ 43 :: e ++ 64 :: d) = Some r' ->
    r_mailbox r = r_mailbox r'.

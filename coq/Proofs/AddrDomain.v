(** ValidateDomainPart and canonicalDomain: validation is insensitive to the canonical
    re-spelling (which keeps an exact IPv6 tag), canonicalisation is idempotent, and a
    validated label domain is a string parseEmailAddress / parseMailboxName accept. *)
From IV Require Import Base.Bytes Base.BytesFacts Model.Addr Proofs.AddrFacts Proofs.AddrScan.
From Coq Require Import ZifyN ZifyNat ZifyBool.

(** relations between the generated constants *)
Lemma canon_tag_is : canon_tag = 91 :: ip_tag. Proof. reflexivity. Qed.
Lemma canon_skip_is : canon_skip = length canon_tag. Proof. reflexivity. Qed.
Lemma ip_tag_upper : exists p0 p, ip_tag = p0 :: p /\ is_upper p0 = true.
Proof. eexists. eexists. split; reflexivity. Qed.
Lemma ip_start_tagged_is : ip_start_tagged = length canon_tag. Proof. reflexivity. Qed.
Lemma ip_start_plain_is : ip_start_plain = 1%nat. Proof. reflexivity. Qed.
Lemma domain_fits_address : max_domain_len <= max_address_len. Proof. vm_compute. discriminate. Qed.

Lemma has_ip_tag_lower s : has_prefix ip_tag (lower s) = false.
Proof. destruct ip_tag_upper as [p0 [p [-> H]]]. apply has_prefix_upper_lower. exact H. Qed.

Lemma has_canon_tag_lower s : has_prefix canon_tag (lower s) = false.
Proof.
  rewrite canon_tag_is. destruct s as [|c s]; [reflexivity|].
  change (lower (c :: s)) with (lower_b c :: lower s). cbn [has_prefix]. rewrite has_ip_tag_lower. apply andb_false_r.
Qed.

Lemma canonical_tagged r : canonical_domain (canon_tag ++ r) = canon_tag ++ lower r.
Proof.
  unfold canonical_domain. rewrite has_prefix_app. rewrite canon_skip_is.
  rewrite skipn_app, skipn_all, Nat.sub_diag. reflexivity.
Qed.

Lemma canonical_cases d :
  (exists r, d = canon_tag ++ r /\ canonical_domain d = canon_tag ++ lower r) \/
  (has_prefix canon_tag d = false /\ canonical_domain d = lower d).
Proof.
  destruct (has_prefix canon_tag d) eqn:T.
  - left. apply has_prefix_split in T. exists (skipn (length canon_tag) d). split; [exact T|].
    rewrite T at 1. apply canonical_tagged.
  - right. split; [reflexivity|]. unfold canonical_domain. rewrite T. reflexivity.
Qed.

Lemma lower_canon_tag_app r : lower (canon_tag ++ lower r) = lower (canon_tag ++ r).
Proof. rewrite !lower_app, lower_idem. reflexivity. Qed.

(** the canonical spelling is a letter-case variant *)
Lemma lower_canonical d : lower (canonical_domain d) = lower d.
Proof.
  destruct (canonical_cases d) as [[r [-> E]]|[_ E]]; rewrite E.
  - apply lower_canon_tag_app.
  - apply lower_idem.
Qed.

Lemma canonical_length d : length (canonical_domain d) = length d.
Proof. rewrite <- (lower_length (canonical_domain d)), lower_canonical. apply lower_length. Qed.

(** V2 *)
Lemma canonical_idem d : canonical_domain (canonical_domain d) = canonical_domain d.
Proof.
  destruct (canonical_cases d) as [[r [-> E]]|[_ E]]; rewrite E.
  - rewrite canonical_tagged, lower_idem. reflexivity.
  - unfold canonical_domain at 1. rewrite has_canon_tag_lower. apply lower_idem.
Qed.

Lemma is_bracketed_case d d' : lower d = lower d' -> is_bracketed d = is_bracketed d'.
Proof.
  intros H. unfold is_bracketed.
  rewrite <- (nth0_lower_eqb d 91), <- (nth0_lower_eqb d' 91), <- (last_lower_eqb d 93), <- (last_lower_eqb d' 93) by reflexivity.
  rewrite H. reflexivity.
Qed.

Lemma labels_lower s : forall p n h, labels_ok (lower s) (lower_b p) n h = labels_ok s p n h.
Proof.
  induction s as [|c s IH]; intros p n h; [reflexivity|].
  change (lower (c :: s)) with (lower_b c :: lower s). cbn [labels_ok].
  rewrite is_label_char_lower. rewrite (lower_b_eqb c 45), (lower_b_eqb c 46), (lower_b_eqb p 45), (lower_b_eqb p 46) by reflexivity.
  destruct (is_label_char c); [apply IH|].
  destruct (c =? 45); [destruct ((p =? 46) || (p =? 45)); [reflexivity | apply IH]|].
  destruct (c =? 46); [|reflexivity].
  destruct ((p =? 46) || (p =? 45)); [reflexivity|]. destruct (max_label_len <? n); [reflexivity|].
  destruct (negb h); [reflexivity | apply IH].
Qed.

Lemma labels_bracket s p n h : labels_ok (91 :: s) p n h = false.
Proof. reflexivity. Qed.

Lemma is_bracketed_first d : is_bracketed d = true -> exists d1, d = 91 :: d1.
Proof.
  unfold is_bracketed. intros H. apply andb_true_iff in H as [H _]. destruct d as [|c d]; [discriminate|].
  simpl in H. apply N.eqb_eq in H. subst. eauto.
Qed.

Lemma ip_inner_tagged r : ip_inner (canon_tag ++ r) = firstn (length r - 1) r.
Proof.
  unfold ip_inner. rewrite canon_tag_is. change (skipn 1 ((91 :: ip_tag) ++ r)) with (ip_tag ++ r).
  rewrite has_prefix_app. rewrite <- canon_tag_is. rewrite ip_start_tagged_is.
  rewrite skipn_app, skipn_all, Nat.sub_diag. cbn [skipn app]. rewrite app_length.
  f_equal; lia.
Qed.

Lemma ip_inner_plain d : has_prefix ip_tag (skipn 1 d) = false -> ip_inner d = firstn (length d - 1 - 1) (skipn 1 d).
Proof. intros H. unfold ip_inner. rewrite H. rewrite ip_start_plain_is. reflexivity. Qed.

Lemma last_app_nonempty (a x : str) d : x <> [] -> last (a ++ x) d = last x d.
Proof.
  intros Hx. induction a as [|c a IH]; [reflexivity|].
  change ((c :: a) ++ x) with (c :: (a ++ x)). rewrite last_cons.
  destruct (a ++ x) as [|y z] eqn:E.
  - apply app_eq_nil in E as [_ E]. congruence.
  - rewrite <- IH. apply last_default_nonempty.
Qed.

Section WithParseIP.
Variable parse_ip : str -> bool.
Hypothesis parse_ip_lower : forall s, parse_ip (lower s) = parse_ip s.

(** V1: the canonical spelling of a domain validates exactly when the domain does. *)
Lemma validate_canonical d : validate_domain parse_ip (canonical_domain d) = validate_domain parse_ip d.
Proof.
  unfold validate_domain. rewrite canonical_length.
  destruct (N.of_nat (length d) =? 0); [reflexivity|].
  destruct (max_domain_len <? N.of_nat (length d)); [reflexivity|].
  rewrite (is_bracketed_case (canonical_domain d) d) by apply lower_canonical.
  destruct (canonical_cases d) as [[r [Ed E]]|[T E]]; rewrite E.
  - subst d. destruct ((min_bracket_len <=? N.of_nat (length (canon_tag ++ r))) && is_bracketed (canon_tag ++ r)).
    + rewrite !ip_inner_tagged, lower_length, <- lower_firstn. apply parse_ip_lower.
    + rewrite canon_tag_is.
      destruct (last ((91 :: ip_tag) ++ lower r) 0 =? 46), (last ((91 :: ip_tag) ++ r) 0 =? 46); reflexivity.
  - destruct ((min_bracket_len <=? N.of_nat (length d)) && is_bracketed d) eqn:B.
    + apply andb_true_iff in B as [_ B]. apply is_bracketed_first in B as [d1 ->].
      rewrite canon_tag_is in T. cbn [has_prefix] in T. rewrite N.eqb_refl in T. cbn [andb] in T.
      rewrite (ip_inner_plain (91 :: d1)) by exact T.
      rewrite (ip_inner_plain (lower (91 :: d1))) by (rewrite <- lower_skipn; apply has_ip_tag_lower).
      rewrite lower_length, <- lower_skipn, <- lower_firstn. apply parse_ip_lower.
    + rewrite (last_lower_eqb d 46) by reflexivity.
      destruct (last d 0 =? 46).
      * exact (labels_lower d 46 0 false).
      * change [46] with (lower [46]). rewrite <- lower_app. exact (labels_lower (d ++ [46]) 46 0 false).
Qed.

End WithParseIP.

(** V3: what a validated label domain looks like *)
Lemma is_label_char_not_punct c : is_label_char c = true -> (c =? 46) = false /\ (c =? 45) = false.
Proof. unfold is_label_char, is_alpha, is_upper, is_lower, is_digit. lia. Qed.

Lemma labels_chars s : forall p n h, labels_ok s p n h = true -> forallb is_dom_char s = true /\ nodd p s = true.
Proof.
  induction s as [|c s IH]; intros p n h H; [split; reflexivity|].
  cbn [labels_ok] in H. cbn [forallb nodd]. unfold is_dom_char at 1.
  destruct (is_label_char c) eqn:L.
  - apply is_label_char_not_punct in L as [L1 L2]. rewrite L1. apply IH in H as [H1 H2]. rewrite H1, H2.
    rewrite andb_false_r. split; reflexivity.
  - destruct (c =? 45) eqn:E1.
    + destruct ((p =? 46) || (p =? 45)); [discriminate|]. apply IH in H as [H1 H2]. rewrite H1, H2.
      assert (E2 : (c =? 46) = false) by lia. rewrite E2, andb_false_r. split; reflexivity.
    + destruct (c =? 46) eqn:E2; [|discriminate].
      destruct ((p =? 46) || (p =? 45)) eqn:P; [discriminate|]. apply orb_false_iff in P as [P _].
      destruct (max_label_len <? n); [discriminate|]. destruct (negb h); [discriminate|].
      apply IH in H as [H1 H2]. rewrite H1, H2, P. split; reflexivity.
Qed.

Lemma nodd_app_l p a b : nodd p (a ++ b) = true -> nodd p a = true.
Proof.
  revert p. induction a as [|c a IH]; intros p H; [reflexivity|].
  cbn [app nodd] in *. apply andb_true_iff in H as [H1 H2]. rewrite H1. apply IH in H2. rewrite H2. reflexivity.
Qed.

Lemma nodd_lower s : forall p, nodd (lower_b p) (lower s) = nodd p s.
Proof.
  induction s as [|c s IH]; intros p; [reflexivity|].
  change (lower (c :: s)) with (lower_b c :: lower s). cbn [nodd].
  rewrite (lower_b_eqb p 46), (lower_b_eqb c 46) by reflexivity. rewrite IH. reflexivity.
Qed.

Section WithParseIP2.
Variable parse_ip : str -> bool.

Definition bracket_type (d : str) : bool := (min_bracket_len <=? N.of_nat (length d)) && is_bracketed d.

Lemma validate_label_type d :
  validate_domain parse_ip d = true -> bracket_type d = false ->
  d <> [] /\ N.of_nat (length d) <= max_domain_len /\ forallb is_dom_char d = true /\ nodd 46 d = true.
Proof.
  unfold validate_domain, bracket_type. intros H B. rewrite B in H.
  destruct (N.of_nat (length d) =? 0) eqn:E0; [discriminate|].
  destruct (max_domain_len <? N.of_nat (length d)) eqn:E1; [discriminate|].
  split; [destruct d; [discriminate | congruence]|]. split; [lia|].
  destruct (last d 0 =? 46).
  - apply labels_chars in H. exact H.
  - apply labels_chars in H as [H1 H2]. rewrite forallb_app in H1. apply andb_true_iff in H1 as [H1 _].
    split; [exact H1 | eapply nodd_app_l; exact H2].
Qed.

Lemma validate_nonempty d : validate_domain parse_ip d = true -> d <> [].
Proof. unfold validate_domain. destruct d; [discriminate | congruence]. Qed.

End WithParseIP2.

(** C19: cmd/inbucket/main.go's shutdown sequence and Services.Start's start list, read from the
    source (Gen/LifecyclePins.v), and how Model/LifecycleAsm.v follows them. *)
From Coq Require Import Lia.
From IV Require Import Base.Bytes Gen.LifecyclePins Model.Lifecycle Model.LifecycleAsm Proofs.LifecycleAsm.
Local Open Scope nat_scope.

Definition waits_of (l : list mstep) : list wait :=
  flat_map (fun m => match m with MWait w => [w] | _ => [] end) l.

Definition started (x : startable) : bool := existsb (fun y => match x, y with
  | SHub, SHub | SWeb, SWeb | SSmtp, SSmtp | SPop3, SPop3 | SRetention, SRetention | SReadyWaiter, SReadyWaiter => true
  | _, _ => false end) start_order.

(** Every way out of main()'s signal loop (SIGINT, SIGTERM, a service's failure notification)
    cancels the context first: shutdown is always REQUESTED before main() starts waiting. *)
Theorem every_exit_from_the_loop_cancels : forallb (fun b => b) leaving_branches_cancel = true /\ leaving_branches_cancel <> [].
Proof. split; [reflexivity|discriminate]. Qed.

(** After the loop main() arms timedExit and then performs exactly the waits the model's main()
    performs, in the same order. *)
Theorem main_sequence_is_the_models :
  main_after_loop = MTimedExit :: map MWait (sh_waits pinned_shape) /\
  waits_of main_after_loop = a_todo (asm_init pinned_shape true).
Proof. split; reflexivity. Qed.

(** timedExit is started BEFORE the first wait: whatever a wait does, the process ends
    [timed_exit_seconds] after shutdown was requested at the latest — that bounds, in the real
    binary, how long "an open session can complete its dialogue". *)
Theorem timed_exit_armed_before_any_wait :
  exists rest, main_after_loop = MTimedExit :: rest /\ ~ In MTimedExit rest /\ timed_exit_seconds = 15%nat.
Proof. eexists. split; [reflexivity|]. split; [|reflexivity]. cbn. intuition discriminate. Qed.

(** Services.Start starts, unconditionally and in this order, exactly the goroutines the model
    starts with; nothing else ([SOther] absent). *)
Theorem start_list_is_the_models :
  start_order = [SHub; SWeb; SSmtp; SPop3; SRetention; SReadyWaiter] /\
  started SHub = sh_hub pinned_shape /\ started SWeb = sh_web pinned_shape /\ started SSmtp = sh_smtp pinned_shape /\
  started SPop3 = sh_pop3 pinned_shape /\ started SRetention = sh_ret pinned_shape /\
  started SReadyWaiter = sh_waiter pinned_shape /\ started SOther = false.
Proof. repeat split; reflexivity. Qed.

(** The order of the go statements is not observable: every component is a goroutine of its own
    and the model's initial state does not depend on it. What IS observable is whether a component
    is started unconditionally (seed C19-g1 moved the scanner behind ready.Wait()). *)
Theorem retention_started_unconditionally :
  a_ret (asm_init pinned_shape true) = Some RSleep /\ a_ret (asm_init pinned_shape false) = Some RStopped.
Proof. split; reflexivity. Qed.

(** Put together with [shutdown_terminates]: from every reachable state of the assembled server,
    whichever listeners failed to bind, once a branch has left the loop (so the context is
    cancelled) the waits main() performs — exactly those of the source — can all be got through. *)
Theorem main_shutdown_sequence_terminates :
  forall e ren acts y,
    arun pinned_shape e (asm_init pinned_shape ren) acts = Some y -> a_cancel y = true ->
    exists y', arun pinned_shape e y (finish_acts e y) = Some y' /\ a_todo y' = [] /\
               waits_of main_after_loop = sh_waits pinned_shape.
Proof.
  intros e ren acts y R C. destruct (shutdown_terminates e ren acts y R C) as (y' & R' & T').
  exists y'. repeat split; auto.
Qed.

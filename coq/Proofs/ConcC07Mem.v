(** C09 x C07 — the sequential specification of the concurrency development ([Conc.seq_exec], what the
    interleaved memory store is linearizable to) IS C07's memory-store model [MemStore.exec_mem] without
    size limit, hence (C07 [mem_refines_spec]) the abstract store [StoreSpec.exec_spec].

    Embedding.  Conc's mailbox names and message tags are opaque numbers; C07's names are byte strings
    and its messages carry a date.  A Conc operation is read as a C07 operation by [up_op]: mailbox [n]
    is the one-byte-string name [[n]], the date is 0, and an id [i] is the handle [Kth (i-1)] (the memory
    store's ids are the per-mailbox delivery counter, so the id IS the handle number plus one; id 0 is
    the id no store issues = [Bogus]).  C07's richer observations are projected onto Conc's by [down_obs]
    (a listing as (tag, seen) pairs, a delivery as the id issued).  Walks are not operations of the commit
    log (a walk commits one listing per mailbox) and are excluded here. *)
From Coq Require Import List Arith Lia Sorted NArith ZArith ZifyN ZifyNat ZifyBool.
From IV Require Import Base.Bytes Model.StoreSpec Model.StoreSpecImpl Model.MemStore Proofs.StoreSpecFacts Proofs.MemStoreLoops Proofs.MemStoreRefine.
From IV Require Model.Conc Proofs.ConcBase.
Import ListNotations.
Local Open Scope nat_scope.

Module C := IV.Model.Conc.

Definition nm (mb : C.mbname) : str := [mb].
Definition hd_of (i : N) : handle := if (i =? 0)%N then Bogus else Kth (N.to_nat i - 1).

Definition up_op (o : C.op) : op :=
  match o with
  | C.OAdd mb tag size => Add (nm mb) 0%Z tag size
  | C.OGet mb i => Get (nm mb) (hd_of i)
  | C.OLatest mb => Get (nm mb) Latest
  | C.OList mb => Lst (nm mb)
  | C.OSeen mb i => Seen (nm mb) (hd_of i)
  | C.ORemove mb i => Remove (nm mb) (hd_of i)
  | C.OPurge mb => Purge (nm mb)
  | C.OVisit => Visit
  end.

Definition down_view (v : view) : N * bool := (m_tag (snd v), m_seen (snd v)).
Definition down_obs (ob : obs) : C.res :=
  match ob with
  | OAdd k _ => C.RId (N.of_nat (S k))
  | OGet (Ok v) => C.RMsg (m_tag (snd v)) (m_seen (snd v))
  | OGet NotExist => C.RNotExist
  | OGet Err => C.RFail
  | OList l => C.RList (map down_view l)
  | OUnit (Ok _) => C.ROk
  | OUnit NotExist => C.RNotExist
  | OUnit Err => C.RFail
  | OVisit l => C.RVisit []
  end.

Definition no_visit (o : C.op) : Prop := o <> C.OVisit.

(* ------------------------------------------------------------- abstraction *)

Definition cmsg (m : C.msg) : msg :=
  {| m_date := 0%Z; m_tag := C.m_tag m; m_size := C.m_size m; m_seen := C.m_seen m |}.
Definition amsg (m : C.msg) : mid * msg := (N.to_nat (C.m_id m), cmsg m).
Definition abs_box (b : C.box) : mbox :=
  {| mb_first := N.to_nat (C.b_first b); mb_last := N.to_nat (C.b_last b); mb_msgs := map amsg (C.b_msgs b) |}.

(** Box invariant: ids lie between the eviction cursor and the delivery counter, ascending. *)
Definition ids (l : list C.msg) : list N := map C.m_id l.
Record BI (b : C.box) : Prop := {
  bi_first : (C.b_first b <= C.b_last b + 1)%N;
  bi_range : forall m, In m (C.b_msgs b) -> (C.b_first b <= C.m_id m <= C.b_last b)%N /\ (1 <= C.m_id m)%N;
  bi_sorted : StronglySorted N.lt (ids (C.b_msgs b))
}.

Lemma find_amsg i l : mal_find (N.to_nat i) (map amsg l) = option_map cmsg (C.find_msg i l).
Proof.
  induction l as [|m l IH]; [reflexivity|]. cbn [map C.find_msg]. unfold mal_find in *. cbn [al_find amsg fst snd].
  destruct (C.m_id m =? i)%N eqn:E.
  - apply N.eqb_eq in E. subst. rewrite Nat.eqb_refl. reflexivity.
  - assert (Nat.eqb (N.to_nat i) (N.to_nat (C.m_id m)) = false) as ->.
    { apply Nat.eqb_neq. intros H. apply N2Nat.inj in H. apply N.eqb_neq in E. congruence. }
    exact IH.
Qed.

Lemma remove_amsg i l : mal_remove (N.to_nat i) (map amsg l) = map amsg (C.del_msg i l).
Proof.
  induction l as [|m l IH]; [reflexivity|]. cbn [map C.del_msg]. unfold mal_remove in *. cbn [al_remove amsg fst snd].
  destruct (C.m_id m =? i)%N eqn:E.
  - apply N.eqb_eq in E. subst. rewrite Nat.eqb_refl. reflexivity.
  - assert (Nat.eqb (N.to_nat i) (N.to_nat (C.m_id m)) = false) as ->.
    { apply Nat.eqb_neq. intros H. apply N2Nat.inj in H. apply N.eqb_neq in E. congruence. }
    cbn [map]. now rewrite IH.
Qed.

Lemma seen_amsg i l : mal_seen (N.to_nat i) (map amsg l) = map amsg (C.mark_seen i l).
Proof.
  induction l as [|m l IH]; [reflexivity|]. cbn [map C.mark_seen]. unfold mal_seen in *. cbn [al_seen amsg fst snd].
  destruct (C.m_id m =? i)%N eqn:E.
  - apply N.eqb_eq in E. subst. rewrite Nat.eqb_refl. reflexivity.
  - assert (Nat.eqb (N.to_nat i) (N.to_nat (C.m_id m)) = false) as ->.
    { apply Nat.eqb_neq. intros H. apply N2Nat.inj in H. apply N.eqb_neq in E. congruence. }
    cbn [map]. now rewrite IH.
Qed.

Lemma sorted_amsg l : StronglySorted N.lt (ids l) -> StronglySorted klt2 (map amsg l).
Proof.
  induction l as [|m l IH]; cbn [map ids]; intros H; [constructor|].
  apply StronglySorted_inv in H as [H1 H2]. constructor; [apply IH; exact H1|].
  rewrite Forall_map. fold (ids l) in H2. unfold ids in H2. rewrite Forall_map in H2.
  eapply Forall_impl; [|exact H2]. intros x Hx. unfold klt2, amsg. cbn [fst]. cbn beta in Hx. lia.
Qed.

Lemma ids_mark_seen i l : ids (C.mark_seen i l) = ids l.
Proof. induction l as [|m l IH]; [reflexivity|]. cbn [C.mark_seen]. destruct (C.m_id m =? i)%N; cbn [ids map]; [reflexivity|]. f_equal. exact IH. Qed.

Lemma sorted_del i l : StronglySorted N.lt (ids l) -> StronglySorted N.lt (ids (C.del_msg i l)).
Proof.
  induction l as [|m l IH]; cbn [C.del_msg ids map]; intros H; [constructor|].
  apply StronglySorted_inv in H as [H1 H2]. destruct (C.m_id m =? i)%N; [exact H1|].
  cbn [ids map]. constructor; [apply IH; exact H1|].
  rewrite Forall_forall in *. intros x Hx. apply H2. unfold ids in *. apply in_map_iff in Hx. destruct Hx as (y & <- & Hy).
  apply in_map. eapply ConcBase.del_msg_incl; eauto.
Qed.

Lemma del_not_id i l m : StronglySorted N.lt (ids l) -> In m (C.del_msg i l) -> C.m_id m <> i.
Proof.
  induction l as [|x l IH]; cbn [C.del_msg ids map]; intros H Hm; [destruct Hm|].
  apply StronglySorted_inv in H as [H1 H2]. destruct (C.m_id x =? i)%N eqn:E.
  - apply N.eqb_eq in E. subst i. rewrite Forall_forall in H2. specialize (H2 (C.m_id m) (in_map _ _ _ Hm)). lia.
  - destruct Hm as [<-|Hm]; [now apply N.eqb_neq | now apply IH].
Qed.

Lemma find_none_not_id i l m : C.find_msg i l = None -> In m l -> C.m_id m <> i.
Proof.
  induction l as [|x l IH]; cbn [C.find_msg]; intros H Hm; [destruct Hm|].
  destruct (C.m_id x =? i)%N eqn:E; [discriminate|]. destruct Hm as [<-|Hm]; [now apply N.eqb_neq | now apply IH].
Qed.

Lemma cap_loop_BI capN : (1 <= capN)%N -> forall fuel b ev, BI b -> BI (fst (C.cap_loop fuel capN b ev)).
Proof.
  intros Hc. induction fuel as [|f IH]; intros b ev HB; cbn [C.cap_loop fst]; [exact HB|].
  destruct (N.of_nat (length (C.b_msgs b)) <=? capN)%N eqn:E; [exact HB|]. apply N.leb_gt in E.
  destruct HB as [H1 H2 H3].
  assert (Hlt : (C.b_first b <= C.b_last b)%N).
  { destruct (C.b_msgs b) as [|m l] eqn:El; [cbn in E; lia|]. destruct (H2 m (or_introl eq_refl)); lia. }
  destruct (C.find_msg (C.b_first b) (C.b_msgs b)) as [old|] eqn:Ef; apply IH; constructor; cbn [C.b_first C.b_last C.b_msgs].
  - lia.
  - intros m Hm. destruct (H2 m (ConcBase.del_msg_incl _ _ _ Hm)) as [Hr H1m].
    pose proof (del_not_id _ _ _ H3 Hm). split; [lia | exact H1m].
  - now apply sorted_del.
  - lia.
  - intros m Hm. destruct (H2 m Hm) as [Hr H1m]. pose proof (find_none_not_id _ _ _ Ef Hm). split; [lia | exact H1m].
  - exact H3.
Qed.

Lemma cap_loop_abs capN : forall fuel b ev,
  cap_loop fuel (N.to_nat capN) (N.to_nat (C.b_first b)) (map amsg (C.b_msgs b)) (map amsg ev) =
  (N.to_nat (C.b_first (fst (C.cap_loop fuel capN b ev))),
   map amsg (C.b_msgs (fst (C.cap_loop fuel capN b ev))),
   map amsg (snd (C.cap_loop fuel capN b ev))) /\
  C.b_last (fst (C.cap_loop fuel capN b ev)) = C.b_last b.
Proof.
  induction fuel as [|f IH]; intros b ev; cbn [cap_loop C.cap_loop]; [split; reflexivity|].
  rewrite map_length.
  assert (Hc : Nat.ltb (N.to_nat capN) (length (C.b_msgs b)) = negb (N.of_nat (length (C.b_msgs b)) <=? capN)%N).
  { destruct (N.of_nat (length (C.b_msgs b)) <=? capN)%N eqn:E; cbn [negb].
    - apply N.leb_le in E. apply Nat.ltb_ge. lia.
    - apply N.leb_gt in E. apply Nat.ltb_lt. lia. }
  rewrite Hc. destruct (N.of_nat (length (C.b_msgs b)) <=? capN)%N; cbn [negb fst snd]; [split; reflexivity|].
  rewrite find_amsg. destruct (C.find_msg (C.b_first b) (C.b_msgs b)) as [old|] eqn:Ef; cbn [option_map].
  - rewrite remove_amsg. destruct (ConcBase.find_msg_in _ _ _ Ef) as [_ Hid].
    specialize (IH (C.mkBox (C.b_last b) (C.b_first b + 1) (C.del_msg (C.b_first b) (C.b_msgs b))) (ev ++ [old])).
    cbn [C.b_first C.b_msgs C.b_last] in IH. rewrite map_app in IH. cbn [map] in IH.
    unfold amsg at 3 in IH. rewrite Hid in IH.
    replace (N.to_nat (C.b_first b + 1)) with (S (N.to_nat (C.b_first b))) in IH by lia. exact IH.
  - specialize (IH (C.mkBox (C.b_last b) (C.b_first b + 1) (C.b_msgs b)) ev).
    cbn [C.b_first C.b_msgs C.b_last] in IH.
    replace (N.to_nat (C.b_first b + 1)) with (S (N.to_nat (C.b_first b))) in IH by lia. exact IH.
Qed.

(* ------------------------------------------------------------- the simulation *)

Definition cfg0 (capN : N) : scfg := {| c_cap := N.to_nat capN; c_max := 0 |}.

Record R (S : C.sstore) (ms : mem_store) (iss : issued mid) : Prop := {
  r_box : forall mb, get_mbox (nm mb) ms = abs_box (C.sget mb S);
  r_iss : forall mb, iss_of mid (nm mb) iss = seq 1 (N.to_nat (C.b_last (C.sget mb S)));
  r_bi : forall mb, BI (C.sget mb S)
}.

Lemma nm_inj a b : nm a = nm b -> a = b.
Proof. unfold nm. intros H. now inversion H. Qed.

Lemma sget_aset_same mb b S : C.sget mb (C.aset mb b S) = b.
Proof. unfold C.sget. now rewrite ConcBase.aget_aset_same. Qed.
Lemma sget_aset_other mb mb' b S : mb' <> mb -> C.sget mb' (C.aset mb b S) = C.sget mb' S.
Proof. intros H. unfold C.sget. now rewrite ConcBase.aget_aset_other. Qed.
Lemma sget_rd mb mb' S : C.sget mb' (C.aset mb (C.sget mb S) S) = C.sget mb' S.
Proof. destruct (N.eq_dec mb' mb) as [->|H]; [apply sget_aset_same | now apply sget_aset_other]. Qed.

(** Updating one mailbox on both sides keeps the relation. *)
Lemma R_update S ms iss mb b enf :
  R S ms iss -> BI b -> C.b_last b = C.b_last (C.sget mb S) ->
  R (C.aset mb b S) {| ms_boxes := bx_set (nm mb) (abs_box b) (ms_boxes ms); ms_enf := enf |} iss.
Proof.
  intros [H1 H2 H3] HB Hl. constructor; intros mb'; destruct (N.eq_dec mb' mb) as [->|Hne].
  - rewrite sget_aset_same. unfold get_mbox. cbn [ms_boxes]. apply bx_get_set_same.
  - rewrite sget_aset_other by exact Hne. unfold get_mbox. cbn [ms_boxes].
    rewrite bx_get_set_other by (intros E; apply nm_inj in E; congruence). apply H1.
  - rewrite sget_aset_same, Hl. apply H2.
  - rewrite sget_aset_other by exact Hne. apply H2.
  - rewrite sget_aset_same. exact HB.
  - rewrite sget_aset_other by exact Hne. apply H3.
Qed.

Lemma R_touch S ms iss mb : R S ms iss -> R (C.aset mb (C.sget mb S) S) ms iss.
Proof. intros [H1 H2 H3]. constructor; intros mb'; rewrite sget_rd; auto. Qed.

Lemma nth_seq1 n k : nth_error (seq 1 n) k = if Nat.ltb k n then Some (S k) else None.
Proof.
  destruct (Nat.ltb k n) eqn:E.
  - apply Nat.ltb_lt in E. rewrite nth_error_nth' with (d := 0) by (rewrite seq_length; exact E). now rewrite seq_nth.
  - apply Nat.ltb_ge in E. apply nth_error_None. now rewrite seq_length.
Qed.

(** Resolution of an id used as a handle: the id itself when some delivery issued it. *)
Lemma resolve_id S ms iss mb i : R S ms iss ->
  resolve mid iss (nm mb) (hd_of i) =
  if ((1 <=? i) && (i <=? C.b_last (C.sget mb S)))%N then QId (N.to_nat i) else QBogus.
Proof.
  intros HR. unfold hd_of. destruct (i =? 0)%N eqn:E0.
  - apply N.eqb_eq in E0. subst. reflexivity.
  - apply N.eqb_neq in E0. cbn [resolve]. rewrite (r_iss _ _ _ HR), nth_seq1.
    assert ((1 <=? i)%N = true) as -> by (apply N.leb_le; lia). cbn [andb].
    destruct (i <=? C.b_last (C.sget mb S))%N eqn:E.
    + apply N.leb_le in E. assert (Nat.ltb (N.to_nat i - 1) (N.to_nat (C.b_last (C.sget mb S))) = true) as -> by (apply Nat.ltb_lt; lia).
      f_equal. lia.
    + apply N.leb_gt in E. assert (Nat.ltb (N.to_nat i - 1) (N.to_nat (C.b_last (C.sget mb S))) = false) as -> by (apply Nat.ltb_ge; lia).
      reflexivity.
Qed.

Lemma find_out_of_range b i : BI b -> ((1 <=? i) && (i <=? C.b_last b))%N = false -> C.find_msg i (C.b_msgs b) = None.
Proof.
  intros HB Hr. destruct (C.find_msg i (C.b_msgs b)) as [m|] eqn:E; [|reflexivity].
  destruct (ConcBase.find_msg_in _ _ _ E) as [Hin Hid]. destruct (bi_range _ HB m Hin) as [[_ H2] H1]. subst i.
  apply andb_false_iff in Hr. destruct Hr as [Hr|Hr]; [apply N.leb_gt in Hr | apply N.leb_gt in Hr]; lia.
Qed.

Lemma msgs_sorted_abs b : BI b -> sort_by_index (map amsg (C.b_msgs b)) = map amsg (C.b_msgs b).
Proof. intros HB. apply sort_sorted. apply sorted_amsg. apply (bi_sorted _ HB). Qed.

Lemma last_opt_amsg l : last_opt (map amsg l) = option_map amsg (C.last_msg l).
Proof.
  induction l as [|m l IH]; [reflexivity|]. destruct l as [|m' l]; [reflexivity|].
  change (last_opt (map amsg (m :: m' :: l))) with (last_opt (map amsg (m' :: l))). rewrite IH. reflexivity.
Qed.

Definition step_rel (capN : N) (S : C.sstore) (ms : mem_store) (iss : issued mid) (o : C.op) : Prop :=
  let sp := C.seq_exec true capN S o in
  let im := step_impl mid Nat.eqb mem_store (exec_mem (cfg0 capN)) (ms, iss) (up_op o) in
  R (fst sp) (fst (fst (fst im))) (snd (fst (fst im))) /\ down_obs (snd (fst im)) = snd sp.

Section Steps.
  Variable capN : N.
  Variables (Sx : C.sstore) (ms : mem_store) (iss : issued mid).
  Hypothesis HR : R Sx ms iss.

  Lemma msgs_of mb : mb_msgs (get_mbox (nm mb) ms) = map amsg (C.b_msgs (C.sget mb Sx)).
  Proof. rewrite (r_box _ _ _ HR). reflexivity. Qed.

  Lemma step_get mb i : step_rel capN Sx ms iss (C.OGet mb i).
  Proof.
    unfold step_rel. cbn [up_op C.seq_exec step_impl]. rewrite (resolve_id _ _ _ mb i HR).
    destruct ((1 <=? i) && (i <=? C.b_last (C.sget mb Sx)))%N eqn:Er; cbn [exec_mem mem_get fst snd].
    - rewrite msgs_of, find_amsg. unfold C.box_get.
      destruct (C.find_msg i (C.b_msgs (C.sget mb Sx))); cbn [option_map tr_msg down_obs tr_view snd fst cmsg m_tag m_seen];
        (split; [apply R_touch; exact HR | reflexivity]).
    - unfold C.box_get. rewrite (find_out_of_range _ _ (r_bi _ _ _ HR mb) Er). cbn [tr_msg down_obs].
      split; [apply R_touch; exact HR | reflexivity].
  Qed.

  Lemma step_latest mb : step_rel capN Sx ms iss (C.OLatest mb).
  Proof.
    unfold step_rel. cbn [up_op C.seq_exec step_impl resolve exec_mem mem_get fst snd].
    rewrite msgs_of, (msgs_sorted_abs _ (r_bi _ _ _ HR mb)), last_opt_amsg. unfold C.box_latest.
    destruct (C.last_msg (C.b_msgs (C.sget mb Sx))); cbn [option_map tr_msg down_obs tr_view snd fst amsg cmsg m_tag m_seen];
      (split; [apply R_touch; exact HR | reflexivity]).
  Qed.

  Lemma step_list mb : step_rel capN Sx ms iss (C.OList mb).
  Proof.
    unfold step_rel. cbn [up_op C.seq_exec step_impl exec_mem fst snd].
    rewrite msgs_of, (msgs_sorted_abs _ (r_bi _ _ _ HR mb)). split; [apply R_touch; exact HR|].
    cbn [down_obs]. unfold C.box_list, C.view_of. f_equal. rewrite !map_map. reflexivity.
  Qed.

  Lemma BI_same_ids b l : BI b -> ids l = ids (C.b_msgs b) -> BI (C.mkBox (C.b_last b) (C.b_first b) l).
  Proof.
    intros [H1 H2 H3] Hi. constructor; cbn [C.b_first C.b_last C.b_msgs]; [exact H1 | | now rewrite Hi].
    intros m Hm. assert (Hin : In (C.m_id m) (ids (C.b_msgs b))) by (rewrite <- Hi; now apply in_map).
    unfold ids in Hin. apply in_map_iff in Hin. destruct Hin as (m' & Hid & Hm'). rewrite <- Hid. now apply H2.
  Qed.

  Lemma BI_del b i : BI b -> BI (C.mkBox (C.b_last b) (C.b_first b) (C.del_msg i (C.b_msgs b))).
  Proof.
    intros [H1 H2 H3]. constructor; cbn [C.b_first C.b_last C.b_msgs]; [exact H1 | | now apply sorted_del].
    intros m Hm. apply H2. eapply ConcBase.del_msg_incl; eauto.
  Qed.

  Lemma step_seen mb i : step_rel capN Sx ms iss (C.OSeen mb i).
  Proof.
    unfold step_rel. cbn [up_op C.seq_exec step_impl]. rewrite (resolve_id _ _ _ mb i HR).
    pose proof (r_bi _ _ _ HR mb) as HB.
    destruct ((1 <=? i) && (i <=? C.b_last (C.sget mb Sx)))%N eqn:Er; cbn [exec_mem fst snd].
    - rewrite msgs_of, find_amsg. unfold C.box_seen.
      destruct (C.find_msg i (C.b_msgs (C.sget mb Sx))) eqn:Ef; cbn [option_map tr_unit down_obs fst snd].
      + split; [|reflexivity].
        replace (set_msgs (get_mbox (nm mb) ms) (mal_seen (N.to_nat i) (map amsg (C.b_msgs (C.sget mb Sx)))))
          with (abs_box (C.mkBox (C.b_last (C.sget mb Sx)) (C.b_first (C.sget mb Sx)) (C.mark_seen i (C.b_msgs (C.sget mb Sx))))).
        * apply R_update; [exact HR | apply BI_same_ids; [exact HB | apply ids_mark_seen] | reflexivity].
        * rewrite (r_box _ _ _ HR). unfold abs_box, set_msgs. cbn. now rewrite seen_amsg.
      + split; [apply R_touch; exact HR | reflexivity].
    - unfold C.box_seen. rewrite (find_out_of_range _ _ HB Er). cbn [tr_unit down_obs fst snd].
      split; [apply R_touch; exact HR | reflexivity].
  Qed.

  Lemma step_remove mb i : step_rel capN Sx ms iss (C.ORemove mb i).
  Proof.
    unfold step_rel. cbn [up_op C.seq_exec step_impl]. rewrite (resolve_id _ _ _ mb i HR).
    pose proof (r_bi _ _ _ HR mb) as HB.
    destruct ((1 <=? i) && (i <=? C.b_last (C.sget mb Sx)))%N eqn:Er; cbn [exec_mem fst snd].
    - rewrite msgs_of, find_amsg. unfold C.box_remove.
      destruct (C.find_msg i (C.b_msgs (C.sget mb Sx))) eqn:Ef; cbn [option_map tr_unit down_obs fst snd].
      + split; [|reflexivity].
        replace (set_msgs (get_mbox (nm mb) ms) (mal_remove (N.to_nat i) (map amsg (C.b_msgs (C.sget mb Sx)))))
          with (abs_box (C.mkBox (C.b_last (C.sget mb Sx)) (C.b_first (C.sget mb Sx)) (C.del_msg i (C.b_msgs (C.sget mb Sx))))).
        * apply R_update; [exact HR | apply BI_del; exact HB | reflexivity].
        * rewrite (r_box _ _ _ HR). unfold abs_box, set_msgs. cbn. now rewrite remove_amsg.
      + split; [apply R_touch; exact HR | reflexivity].
    - unfold C.box_remove. rewrite (find_out_of_range _ _ HB Er). cbn [tr_unit down_obs fst snd].
      split; [apply R_touch; exact HR | reflexivity].
  Qed.

  Lemma step_purge mb : step_rel capN Sx ms iss (C.OPurge mb).
  Proof.
    unfold step_rel. cbn [up_op C.seq_exec step_impl exec_mem fst snd C.box_purge tr_unit down_obs].
    split; [|reflexivity]. pose proof (r_bi _ _ _ HR mb) as HB.
    assert (HBe : BI (C.mkBox (C.b_last (C.sget mb Sx)) (C.b_first (C.sget mb Sx)) [])).
    { destruct HB as [H1 _ _]. constructor; cbn; [exact H1 | intros m [] | constructor]. }
    destruct (mb_msgs (get_mbox (nm mb) ms)) as [|p l] eqn:Em.
    - (* nothing to forget: their record stays as it is (possibly absent) *)
      pose proof (msgs_of mb) as Hm. rewrite Em in Hm. symmetry in Hm. apply map_eq_nil in Hm.
      destruct HR as [H1 H2 H3]. constructor; intros mb'; destruct (N.eq_dec mb' mb) as [->|Hne];
        rewrite ?sget_aset_same, ?sget_aset_other by exact Hne; auto.
      + unfold get_mbox in *. cbn [ms_boxes]. rewrite H1. unfold abs_box. cbn. now rewrite Hm.
      + apply H1.
      + apply H2.
    - replace (set_msgs (get_mbox (nm mb) ms) []) with (abs_box (C.mkBox (C.b_last (C.sget mb Sx)) (C.b_first (C.sget mb Sx)) [])).
      + apply R_update; [exact HR | exact HBe | reflexivity].
      + rewrite (r_box _ _ _ HR). reflexivity.
  Qed.

  Lemma fold_enf0 name (l : list (mid * msg)) e :
    fold_left (fun e p => enf_remove 0 name (fst p) (m_size (snd p)) e) l e = e.
  Proof. induction l as [|p l IH]; [reflexivity|]. cbn [fold_left]. unfold enf_remove at 2. cbn. exact IH. Qed.

  Lemma BI_insert b tag size : BI b -> BI (snd (C.box_insert tag size b)).
  Proof.
    intros [H1 H2 H3]. unfold C.box_insert. cbn [snd]. constructor; cbn [C.b_first C.b_last C.b_msgs].
    - lia.
    - intros m Hm. apply in_app_or in Hm. destruct Hm as [Hm|[<-|[]]].
      + destruct (H2 m Hm). lia.
      + cbn [C.m_id]. lia.
    - unfold ids. rewrite map_app. cbn [map C.m_id].
      assert (G : forall l, StronglySorted N.lt l -> (forall x, In x l -> (x <= C.b_last b)%N) ->
                  StronglySorted N.lt (l ++ [(C.b_last b + 1)%N])).
      { induction l as [|x l IH]; intros Hs Hle; cbn [app]; [repeat constructor|].
        apply StronglySorted_inv in Hs as [Hs1 Hs2]. constructor.
        - apply IH; [exact Hs1 | intros y Hy; apply Hle; now right].
        - rewrite Forall_app. split; [exact Hs2|]. constructor; [|constructor]. specialize (Hle x (or_introl eq_refl)). lia. }
      apply G; [exact H3|]. intros x Hx. unfold ids in Hx. apply in_map_iff in Hx. destruct Hx as (m & <- & Hm).
      destruct (H2 m Hm). lia.
  Qed.

  Lemma mem_add_eq mb tag size :
    let b1 := snd (C.box_insert tag size (C.sget mb Sx)) in
    let b2 := fst (C.box_cap capN b1) in
    exists evs,
    mem_add (cfg0 capN) ms (nm mb) {| m_date := 0; m_tag := tag; m_size := size; m_seen := false |} =
      ({| ms_boxes := bx_set (nm mb) (abs_box b2) (ms_boxes ms); ms_enf := ms_enf ms |},
       LAdd (N.to_nat (C.b_last (C.sget mb Sx) + 1)), evs) /\
    BI b2 /\ C.b_last b2 = (C.b_last (C.sget mb Sx) + 1)%N.
  Proof.
    cbv zeta. pose proof (r_bi _ _ _ HR mb) as HB. pose proof (BI_insert _ tag size HB) as HB1.
    unfold mem_add. rewrite (r_box _ _ _ HR). cbn [abs_box mb_first mb_last mb_msgs cfg0 c_cap c_max].
    assert (Hm1 : map amsg (C.b_msgs (C.sget mb Sx)) ++ [(Datatypes.S (N.to_nat (C.b_last (C.sget mb Sx))),
                    {| m_date := 0; m_tag := tag; m_size := size; m_seen := false |})]
                  = map amsg (C.b_msgs (snd (C.box_insert tag size (C.sget mb Sx))))).
    { unfold C.box_insert. cbn [snd C.b_msgs]. rewrite map_app. cbn [map]. unfold amsg at 3, cmsg. cbn [C.m_id C.m_tag C.m_size C.m_seen].
      do 3 f_equal. lia. }
    rewrite Hm1. unfold C.box_cap. destruct (capN =? 0)%N eqn:Ec.
    - apply N.eqb_eq in Ec. subst capN. cbn [N.to_nat Nat.eqb fold_left map N.eqb fst].
      eexists. split; [|split; [exact HB1 | reflexivity]].
      unfold abs_box, C.box_insert. cbn [snd C.b_first C.b_last C.b_msgs].
      rewrite !N2Nat.inj_add. change (N.to_nat 1) with 1. rewrite !Nat.add_1_r. reflexivity.
    - apply N.eqb_neq in Ec. assert (Nat.eqb (N.to_nat capN) 0 = false) as -> by (apply Nat.eqb_neq; lia).
      set (b1 := snd (C.box_insert tag size (C.sget mb Sx))) in *.
      assert (Hfuel : Datatypes.S (Datatypes.S (Datatypes.S (N.to_nat (C.b_last (C.sget mb Sx)))) - N.to_nat (C.b_first (C.sget mb Sx))) = C.cap_fuel b1).
      { unfold C.cap_fuel, b1, C.box_insert. cbn [snd C.b_last C.b_first]. destruct HB as [H1 _ _]. lia. }
      rewrite Hfuel.
      assert (Hf1 : N.to_nat (C.b_first (C.sget mb Sx)) = N.to_nat (C.b_first b1)) by reflexivity.
      rewrite Hf1. change (@nil (mid * msg)) with (map amsg []).
      destruct (cap_loop_abs capN (C.cap_fuel b1) b1 []) as [Hl Hlast]. rewrite Hl.
      rewrite fold_enf0. cbn [N.eqb]. eexists. split; [|split].
      + unfold abs_box. rewrite Hlast.
        assert (Hb1 : C.b_last b1 = (C.b_last (C.sget mb Sx) + 1)%N) by reflexivity. rewrite Hb1.
        rewrite !N2Nat.inj_add. change (N.to_nat 1) with 1. rewrite !Nat.add_1_r. reflexivity.
      + apply cap_loop_BI; [lia | exact HB1].
      + rewrite Hlast. reflexivity.
  Qed.

  Lemma step_add mb tag size : step_rel capN Sx ms iss (C.OAdd mb tag size).
  Proof.
    unfold step_rel. cbn [up_op C.seq_exec step_impl exec_mem].
    destruct (mem_add_eq mb tag size) as (evs & Hadd & HB2 & Hlast2). cbv zeta in Hadd, HB2, Hlast2.
    rewrite Hadd. cbn [fst snd].
    unfold C.box_insert in *. cbn [fst snd] in *.
    destruct (C.box_cap capN _) as [b2 ev] eqn:Ecap. cbn [fst snd] in *.
    split.
    - constructor; intros mb'; destruct (N.eq_dec mb' mb) as [->|Hne].
      + rewrite sget_aset_same. unfold get_mbox. cbn [ms_boxes]. apply bx_get_set_same.
      + rewrite sget_aset_other by exact Hne. unfold get_mbox. cbn [ms_boxes].
        rewrite bx_get_set_other by (intros E; apply nm_inj in E; congruence). apply (r_box _ _ _ HR).
      + rewrite sget_aset_same, Hlast2. unfold iss_of. rewrite bx_get_set_same. fold (iss_of mid (nm mb) iss).
        rewrite (r_iss _ _ _ HR). rewrite N2Nat.inj_add. change (N.to_nat 1) with 1. rewrite Nat.add_1_r, seq_S. reflexivity.
      + rewrite sget_aset_other by exact Hne. unfold iss_of. rewrite bx_get_set_other by (intros E; apply nm_inj in E; congruence).
        apply (r_iss _ _ _ HR).
      + rewrite sget_aset_same. exact HB2.
      + rewrite sget_aset_other by exact Hne. apply (r_bi _ _ _ HR).
    - cbn [down_obs]. rewrite (r_iss _ _ _ HR), seq_length. f_equal. lia.
  Qed.

  Lemma step_any o : no_visit o -> step_rel capN Sx ms iss o.
  Proof.
    intros Hv. destruct o; [apply step_add | apply step_get | apply step_latest | apply step_list | apply step_seen
                          | apply step_remove | apply step_purge | exfalso; apply Hv; reflexivity].
  Qed.
End Steps.

(** [seq_run] of the concurrency development against [run_mem] (walks excluded): same answers
    (after projection) and related final states. *)
Lemma run_sim capN : forall ops S ms iss, R S ms iss -> Forall no_visit ops ->
  map down_obs (map fst (run_impl mid Nat.eqb mem_store (exec_mem (cfg0 capN)) (ms, iss) (map up_op ops))) =
    snd (C.seq_run true capN S ops) /\
  R (fst (C.seq_run true capN S ops))
    (fst (final_impl mid Nat.eqb mem_store (exec_mem (cfg0 capN)) (ms, iss) (map up_op ops)))
    (snd (final_impl mid Nat.eqb mem_store (exec_mem (cfg0 capN)) (ms, iss) (map up_op ops))).
Proof.
  induction ops as [|o ops IH]; intros S ms iss HR Hv; cbn [map run_impl final_impl C.seq_run fst snd]; [split; [reflexivity | exact HR]|].
  inversion Hv as [|? ? Ho Hrest]; subst.
  destruct (step_any capN S ms iss HR o Ho) as [HR' Hob]. unfold step_rel in HR', Hob. cbv zeta in HR', Hob.
  destruct (step_impl mid Nat.eqb mem_store (exec_mem (cfg0 capN)) (ms, iss) (up_op o)) as [[[ms' iss'] ob] evs].
  destruct (C.seq_exec true capN S o) as [S' r]. cbn [fst snd] in *.
  destruct (IH S' ms' iss' HR' Hrest) as [H1 H2].
  destruct (C.seq_run true capN S' ops) as [S2 rs]. cbn [fst snd map] in *. split; [f_equal; assumption | exact H2].
Qed.

Lemma R_init : R [] mem_init [].
Proof.
  constructor; intros mb; cbn.
  - reflexivity.
  - reflexivity.
  - constructor; cbn; [lia | intros m [] | constructor].
Qed.

(** The sequential specification of the concurrency development is C07's memory-store model, hence the
    abstract store: for every cap and every list of operations (walks apart) the answers of
    [Conc.seq_run] are the answers of [StoreSpec.run_spec] on the same operations. *)
Theorem conc_spec_is_storespec : forall capN ops, Forall no_visit ops ->
  snd (C.seq_run true capN [] ops) =
  map down_obs (map fst (run_spec (cfg0 capN) spec_init (map up_op ops))).
Proof.
  intros capN ops Hv. rewrite <- mem_refines_spec. unfold run_mem.
  symmetry. apply (run_sim capN ops [] mem_init [] R_init Hv).
Qed.

(** ... and the final stores correspond mailbox by mailbox (counters, ids, sizes, seen flags). *)
Theorem conc_spec_final_is_memstore : forall capN ops mb, Forall no_visit ops ->
  get_mbox (nm mb) (fst (final_mem (cfg0 capN) (map up_op ops))) = abs_box (C.sget mb (fst (C.seq_run true capN [] ops))).
Proof.
  intros capN ops mb Hv. unfold final_mem.
  destruct (run_sim capN ops [] mem_init [] R_init Hv) as [_ HR]. apply (r_box _ _ _ HR).
Qed.

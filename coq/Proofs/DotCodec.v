(** The dot codec round-trips every sequence of LF-free lines, whatever bytes they hold. *)
From IV Require Import Base.Bytes Model.Dot.
From Coq Require Import ZifyN ZifyNat ZifyBool Lia.

Lemma emit_emit a b r : emit a (emit b r) = emit (a ++ b) r.
Proof. destruct r as [[d rest]|]; simpl; [rewrite app_assoc|]; reflexivity. Qed.
Lemma emit_nil r : emit [] r = r.
Proof. destruct r as [[d rest]|]; reflexivity. Qed.

Lemma mid_line : forall l w, ~ In LFb l ->
  dec Data (l ++ CRb :: LFb :: w) = emit (l ++ [LFb]) (dec BeginLine w) /\
  dec CR (l ++ CRb :: LFb :: w) = emit (CRb :: l ++ [LFb]) (dec BeginLine w).
Proof.
  induction l as [|c l IH]; intros w Hn.
  - split; reflexivity || (cbn [app dec]; cbn; rewrite emit_emit; reflexivity).
  - assert (Hc : c <> LFb) by (intro; apply Hn; left; auto).
    assert (Hl : ~ In LFb l) by (intro; apply Hn; right; auto).
    destruct (IH w Hl) as [IH1 IH2].
    assert (E : (c =? LFb) = false) by (apply N.eqb_neq; exact Hc).
    cbn [app dec]. rewrite E.
    destruct (c =? CRb) eqn:Ec.
    + apply N.eqb_eq in Ec; subst c. rewrite IH2. rewrite emit_emit. split; reflexivity.
    + rewrite IH1. rewrite !emit_emit. split; reflexivity.
Qed.

Lemma one_line l w : ~ In LFb l ->
  dec BeginLine (stuff l ++ CRb :: LFb :: w) = emit (l ++ [LFb]) (dec BeginLine w).
Proof.
  intros Hn. destruct l as [|c l].
  - reflexivity.
  - assert (Hc : c <> LFb) by (intro; apply Hn; left; auto).
    assert (Hl : ~ In LFb l) by (intro; apply Hn; right; auto).
    destruct (mid_line l w Hl) as [M1 M2].
    unfold stuff. destruct (c =? DOTb) eqn:Ed.
    + apply N.eqb_eq in Ed; subst c. cbn [app dec]. cbn. rewrite M1, emit_emit. reflexivity.
    + cbn [app dec]. rewrite Ed. destruct (c =? CRb) eqn:Ec.
      * apply N.eqb_eq in Ec; subst c. rewrite M2. reflexivity.
      * rewrite M1, emit_emit. reflexivity.
Qed.

Theorem dot_lines : forall ls rest, (forall l, In l ls -> ~ In LFb l) ->
  dec BeginLine (wire ls ++ rest) = Some (joined_lf ls, rest).
Proof.
  induction ls as [|l ls IH]; intros rest H.
  - reflexivity.
  - cbn [wire joined_lf]. rewrite <- !app_assoc. cbn [app].
    rewrite one_line by (apply H; left; reflexivity).
    rewrite IH by (intros; apply H; right; assumption).
    cbn [emit]. rewrite <- app_assoc. reflexivity.
Qed.

(** The decoder never reads past the terminator and consumes at least one byte. *)
Lemma dec_rest_len : forall w st d r, dec st w = Some (d, r) -> (length r < length w)%nat.
Proof.
  induction w as [|c w IH]; intros st d r H; [discriminate|].
  cbn [dec] in H. cbn [length].
  destruct st;
    repeat match type of H with
           | context [if ?b then _ else _] => destruct b
           end;
    try (inversion H; subst; lia);
    try (match type of H with
         | emit _ (dec ?s w) = _ => destruct (dec s w) as [[d' r']|] eqn:E; [|discriminate];
             cbn [emit] in H; inversion H; subst; apply IH in E; lia
         | dec ?s w = _ => apply IH in H; lia
         end).
Qed.

(** Cutting the wire anywhere before the end of the terminator yields "unexpected EOF":
    a truncated DATA block is never taken for a complete message. *)
Theorem truncated_is_none : forall w st d r k,
  dec st w = Some (d, r) -> (k < length w - length r)%nat -> dec st (firstn k w) = None.
Proof.
  induction w as [|c w IH]; intros st d r k H Hk; [discriminate|].
  destruct k as [|k]; [reflexivity|].
  cbn [firstn]. cbn [dec] in H |- *. cbn [length] in Hk.
  destruct st;
    repeat match type of H with
           | context [if ?b then _ else _] => destruct b
           end;
    try (inversion H; subst; lia);
    try (match type of H with
         | emit _ (dec ?s w) = _ => destruct (dec s w) as [[d' r']|] eqn:E; [|discriminate];
             cbn [emit] in H; inversion H; subst;
             pose proof (dec_rest_len _ _ _ _ E);
             rewrite (IH _ _ _ k E) by lia; reflexivity
         | dec ?s w = _ => pose proof (dec_rest_len _ _ _ _ H); apply (IH _ _ _ k H); lia
         end).
Qed.

(** Lines produced by [lines_of] contain no LF. *)
Lemma lines_acc_nolf : forall b cur, ~ In LFb cur -> forall l, In l (lines_acc cur b) -> ~ In LFb l.
Proof.
  induction b as [|c b IH]; intros cur Hc l Hl; cbn [lines_acc] in Hl.
  - destruct cur; [destruct Hl|]. destruct Hl as [<-|[]]. rewrite <- in_rev. exact Hc.
  - destruct (c =? LFb) eqn:E.
    + destruct Hl as [<-|Hl].
      * destruct cur as [|x cur']; [intros []|].
        destruct (x =? CRb); rewrite <- in_rev; intro; apply Hc; [right|]; assumption.
      * eapply IH; [|exact Hl]. intros [].
    + eapply IH; [|exact Hl]. intros [Hx|H]; [apply N.eqb_neq in E; congruence|auto].
Qed.

Theorem dot_roundtrip : forall body rest, dec BeginLine (enc body ++ rest) = Some (lf_norm body, rest).
Proof.
  intros. unfold enc, lf_norm. apply dot_lines.
  intros l Hl. eapply lines_acc_nolf; [|exact Hl]. intros [].
Qed.

(** Non-vacuity / sanity: a hostile body survives. *)
Example dot_roundtrip_example :
  dec BeginLine (enc [46;10; 46;46;120;13;10; 13;97;0;255;10; 98] ++ [81]) =
  Some ([46;10; 46;46;120;10; 13;97;0;255;10; 98;10], [81]).
Proof. vm_compute. reflexivity. Qed.

(** The only thing the SMTP reception changes is line ends: with every CR and LF byte removed,
    the normalised body and the body the client had are the same byte string (nothing lost, added
    or reordered), and every line of the normalised body ends in LF. *)
Definition strip_eol (s : str) : str := filter (fun c => negb ((c =? CRb) || (c =? LFb))) s.

Lemma strip_eol_app a b : strip_eol (a ++ b) = strip_eol a ++ strip_eol b.
Proof. unfold strip_eol. apply filter_app. Qed.

Lemma lines_acc_strip : forall b cur,
  strip_eol (joined_lf (lines_acc cur b)) = strip_eol (rev cur) ++ strip_eol b.
Proof.
  induction b as [|c b IH]; intros cur; cbn [lines_acc].
  - destruct cur as [|x cur]; [reflexivity|]. cbn [joined_lf]. rewrite !strip_eol_app. cbn. rewrite app_nil_r. reflexivity.
  - destruct (c =? LFb) eqn:E.
    + apply N.eqb_eq in E. subst c. cbn [joined_lf]. rewrite !strip_eol_app, IH. cbn [rev app].
      change (strip_eol [LFb]) with (@nil N). change (strip_eol (LFb :: b)) with (strip_eol b). cbn [app].
      f_equal. destruct cur as [|x cur']; [reflexivity|].
      destruct (x =? CRb) eqn:Ex; [|reflexivity].
      apply N.eqb_eq in Ex. subst x. cbn [rev]. rewrite strip_eol_app. cbn. rewrite app_nil_r. reflexivity.
    + rewrite IH. cbn [rev]. rewrite strip_eol_app, <- app_assoc. f_equal.
      change (c :: b) with ([c] ++ b). rewrite strip_eol_app. reflexivity.
Qed.

Theorem lf_norm_only_line_endings : forall body, strip_eol (lf_norm body) = strip_eol body.
Proof. intros. unfold lf_norm, lines_of. rewrite lines_acc_strip. reflexivity. Qed.

(** C09 x C07 — non-overlapping runs of the memory-store concurrency model WITH the size limit, for histories
    of deliveries, reads and mark-seen without cap (no removal notices): every operation answers as C07's
    [run_mem] with that limit; in particular the eviction loop of the enforcer goroutine, spread over several
    scheduling steps (mem.enf.evict / mem.wm.lock), evicts exactly what [MemStore.evict_loop] evicts at once.
    What is NOT covered (see [conc_sequential_is_memstore_limit_stmt]): removals, purges and cap evictions
    together with the limit, i.e. the correspondence of the removal notices (the model looks a message up by
    its tag = the identity of the Message object, C07's model by (mailbox, id)). *)
From Coq Require Import List Arith Lia NArith ZArith Sorted ZifyN ZifyNat ZifyBool.
From IV Require Import Base.Bytes.
From IV Require Model.StoreSpec Model.StoreSpecImpl Model.MemStore Proofs.StoreSpecFacts Proofs.MemStoreLoops Proofs.MemStoreRefine Proofs.ConcC07Mem Proofs.ConcC07Seq.
From IV Require Import Model.Conc Model.ConcMem Proofs.ConcBase Proofs.ConcMemInv Proofs.ConcMemCrash Proofs.ConcMemLin Proofs.ConcMemSeq.
Import ListNotations.

Module MS := IV.Model.MemStore.
Module SI := IV.Model.StoreSpecImpl.
Module SS := IV.Model.StoreSpec.
Module B := IV.Proofs.ConcC07Mem.

(* ------------------------------------------------ moving through a block, one enabled party at a time *)

Lemma adv_T i x x' : (forall c, step x E c = SNoop) -> (forall c, step x (T i) c = SOk x') ->
  forall b n y, block_of i b -> run_from n x b = Fin y ->
  y = x \/ exists n' b', block_of i b' /\ run_from n' x' b' = Fin y.
Proof.
  intros HE HT. induction b as [|[w c] b IH]; intros n y Hb Hr; cbn [run_from] in Hr.
  - inversion Hr; auto.
  - inversion Hb as [|? ? Hw Hrest]; subst. cbn [fst] in Hw. destruct Hw as [-> | ->].
    + rewrite HT in Hr. right. eauto.
    + rewrite HE in Hr. eapply IH; eauto.
Qed.

Lemma adv_E i x x' : (forall c, step x (T i) c = SBlocked) -> (forall c, step x E c = SOk x') ->
  forall b n y, block_of i b -> run_from n x b = Fin y ->
  y = x \/ exists n' b', block_of i b' /\ run_from n' x' b' = Fin y.
Proof.
  intros HT HE. induction b as [|[w c] b IH]; intros n y Hb Hr; cbn [run_from] in Hr.
  - inversion Hr; auto.
  - inversion Hb as [|? ? Hw Hrest]; subst. cbn [fst] in Hw. destruct Hw as [-> | ->].
    + rewrite HT in Hr. discriminate.
    + rewrite HE in Hr. right. eauto.
Qed.

Lemma stay i x : (forall c, step x E c = SNoop) -> (forall c, step x (T i) c = SNoop) ->
  forall b n y, block_of i b -> run_from n x b = Fin y -> y = x.
Proof.
  intros HE HT. induction b as [|[w c] b IH]; intros n y Hb Hr; cbn [run_from] in Hr.
  - now inversion Hr.
  - inversion Hb as [|? ? Hw Hrest]; subst. cbn [fst] in Hw. destruct Hw as [-> | ->]; [rewrite HT in Hr | rewrite HE in Hr]; eapply IH; eauto.
Qed.

Lemma stuck i x : (forall c, step x (T i) c = SBlocked) -> (forall c, step x E c = SCrash) ->
  forall b n y, block_of i b -> run_from n x b = Fin y -> y = x.
Proof.
  intros HT HE. destruct b as [|[w c] b]; intros n y Hb Hr; cbn [run_from] in Hr; [now inversion Hr|].
  inversion Hb as [|? ? Hw Hrest]; subst. cbn [fst] in Hw. destruct Hw as [-> | ->]; [rewrite HT in Hr | rewrite HE in Hr]; discriminate.
Qed.

Lemma enf_idle_noop x m : s_max x = Some m -> e_pc (s_enf x) = EIdle -> forall c, step x E c = SNoop.
Proof. intros Hm Hp c. cbn [step]. unfold step_enf. now rewrite Hm, Hp. Qed.

(* ------------------------------------------------ the relation at quiescent points *)

Definition S_of (x : msys) : sstore := map (fun kb => (fst kb, x_box (snd kb))) (s_boxes x).

Lemma sget_S_of mb x : sget mb (S_of x) = x_box (getx mb x).
Proof.
  unfold sget, S_of, getx. induction (s_boxes x) as [|[k v] l IH]; [reflexivity|]. cbn [map aget fst snd].
  destruct (k =? mb); [reflexivity | exact IH].
Qed.

Definition ent3 (k : ent) : str * MS.mid * N := (B.nm (fst k), N.to_nat (m_id (snd k)), m_size (snd k)).
Fixpoint sum3 (l : list (str * MS.mid * N)) : N := match l with [] => 0 | x :: l' => snd x + sum3 l' end.

Section Limit.
  Variable maxb : N.
  Hypothesis Hmax : maxb <> 0.
  Let cfgL : SS.scfg := {| SS.c_cap := 0%nat; SS.c_max := maxb |}.

  Record Q (x : msys) (ms : MS.mem_store) (iss : SI.issued MS.mid) : Prop := {
    q_cap : s_cap x = 0;
    q_max : s_max x = Some (Z.of_N maxb);
    q_R : B.R (S_of x) ms iss;
    q_lock : forall mb, x_lock (getx mb x) = None;
    q_idle : e_pc (s_enf x) = EIdle;
    q_done : e_done (s_enf x) = [];
    q_rem : e_rem (s_enf x) = [];
    q_all : MS.en_all (MS.ms_enf ms) = map ent3 (e_all (s_enf x));
    q_cur : e_cur (s_enf x) = Z.of_N (MS.en_cur (MS.ms_enf ms));
    q_sum : MS.en_cur (MS.ms_enf ms) = sum3 (MS.en_all (MS.ms_enf ms))
  }.

  Lemma R_ext S S' ms iss : (forall mb, sget mb S' = sget mb S) -> B.R S ms iss -> B.R S' ms iss.
  Proof. intros H [H1 H2 H3]. constructor; intros mb; rewrite H; auto. Qed.

  Definition read_op (o : op) : Prop :=
    match o with OGet _ _ | OLatest _ | OList _ | OSeen _ _ => True | _ => False end.

  Definition outcome_of (ms : MS.mem_store) (iss : SI.issued MS.mid) (o : op) :=
    SI.step_impl MS.mid Nat.eqb MS.mem_store (MS.exec_mem cfgL) (ms, iss) (B.up_op o).

  Lemma thread_done_false x i p : nth_error (s_thr x) i = Some p -> thr_done p = false -> thread_done x i = false.
  Proof. intros H Hp. unfold thread_done. rewrite H. destruct p; try reflexivity; discriminate. Qed.

  (** exec_mem does not look at the limits for reads and mark-seen. *)
  Lemma outcome_read ms iss o : read_op o ->
    outcome_of ms iss o = SI.step_impl MS.mid Nat.eqb MS.mem_store (MS.exec_mem (B.cfg0 0)) (ms, iss) (B.up_op o).
  Proof. destruct o; intros H; try contradiction; reflexivity. Qed.

  Lemma read_enf cfg ms iss o : read_op o ->
    MS.ms_enf (fst (fst (fst (SI.step_impl MS.mid Nat.eqb MS.mem_store (MS.exec_mem cfg) (ms, iss) (B.up_op o))))) = MS.ms_enf ms.
  Proof.
    destruct o as [| mb id | mb | mb | mb id | | |]; intros H; try contradiction; cbn [B.up_op SI.step_impl].
    all: repeat match goal with
         | |- context [SI.resolve ?a ?b ?c ?d] => destruct (SI.resolve a b c d); cbn [MS.exec_mem]
         | |- context [match MS.mal_find ?a ?b with _ => _ end] => destruct (MS.mal_find a b)
         end; reflexivity.
  Qed.

  Lemma block_read x ms iss i o b y :
    Q x ms iss -> nth_error (s_thr x) i = Some (PStart o) -> read_op o -> block_of i b ->
    run x b = Fin y -> thread_done y i = true ->
    Q y (fst (fst (fst (outcome_of ms iss o)))) (snd (fst (fst (outcome_of ms iss o)))) /\
    nth_error (s_thr y) i = Some (PDone (B.down_obs (snd (fst (outcome_of ms iss o))))) /\
    (forall j, j <> i -> nth_error (s_thr y) j = nth_error (s_thr x) j).
  Proof.
    intros HQ Hn Hro Hb Hr Hd. pose proof (nth_error_lt _ _ _ Hn) as Hlt.
    rewrite (outcome_read ms iss o Hro).
    pose proof (B.step_any 0 (S_of x) ms iss (q_R _ _ _ HQ) o) as Hstep.
    assert (Hnv : B.no_visit o) by (destruct o; try contradiction; discriminate).
    specialize (Hstep Hnv). unfold B.step_rel in Hstep. cbv zeta in Hstep. destruct Hstep as [HR' Hob].
    set (im := SI.step_impl MS.mid Nat.eqb MS.mem_store (MS.exec_mem (B.cfg0 0)) (ms, iss) (B.up_op o)) in *.
    (* first step: lookup-or-create, park at the lock *)
    assert (HE0 : forall c, step x E c = SNoop) by (apply (enf_idle_noop x _ (q_max _ _ _ HQ) (q_idle _ _ _ HQ))).
    destruct o as [| mb id | mb | mb | mb id | | |]; try contradiction.
    all: unfold run in Hr.
    all: match type of Hn with
         | context [OGet ?mb ?id] => set (x1 := setpc i (PGetLock mb id) (touch mb x))
         | context [OLatest ?mb] => set (x1 := setpc i (PLatestLock mb) (touch mb x))
         | context [OList ?mb] => set (x1 := setpc i (PListLock mb) (touch mb x))
         | context [OSeen ?mb ?id] => set (x1 := setpc i (PSeenLock mb id) (touch mb x))
         end.
    all: assert (HT0 : forall c, step x (T i) c = SOk x1) by (intros c; cbn [step]; unfold step_thr; rewrite Hn; reflexivity).
    all: destruct (adv_T i x x1 HE0 HT0 b 0%nat y Hb Hr) as [-> | (n1 & b1 & Hb1 & Hr1)];
         [rewrite (thread_done_false x i _ Hn eq_refl) in Hd; discriminate|].
    all: assert (Hn1 : nth_error (s_thr x1) i = Some _) by (unfold x1; autorewrite with sys; apply nth_set_same; exact Hlt).
    all: assert (HE1 : forall c, step x1 E c = SNoop)
           by (apply (enf_idle_noop x1 (Z.of_N maxb)); unfold x1; autorewrite with sys; [apply (q_max _ _ _ HQ) | apply (q_idle _ _ _ HQ)]).
    all: assert (Hl1 : locked mb x1 = false) by (unfold locked, x1; autorewrite with sys; now rewrite (q_lock _ _ _ HQ)).
    all: assert (Hg1 : forall mb', getx mb' x1 = getx mb' x) by (intros mb'; unfold x1; now autorewrite with sys).
    all: match type of Hn1 with
         | context [PGetLock ?mb ?id] =>
             set (r := box_get id (x_box (getx mb x1))); set (x2 := addlog (T i, OGet mb id, r) (setpc i (PDone r) x1))
         | context [PLatestLock ?mb] =>
             set (r := box_latest (x_box (getx mb x1))); set (x2 := addlog (T i, OLatest mb, r) (setpc i (PDone r) x1))
         | context [PListLock ?mb] =>
             set (r := box_list (x_box (getx mb x1))); set (x2 := addlog (T i, OList mb, r) (setpc i (PDone r) x1))
         | context [PSeenLock ?mb ?id] =>
             set (r := snd (box_seen id (x_box (getx mb x1))));
             set (x2 := addlog (T i, OSeen mb id, r) (setpc i (PDone r) (setx mb (mkMbx (fst (box_seen id (x_box (getx mb x1)))) None) x1)))
         end.
    all: assert (HT1 : forall c, step x1 (T i) c = SOk x2)
           by (intros c; cbn [step]; unfold step_thr; rewrite Hn1, Hl1; unfold x2, r;
               try (destruct (box_seen id (x_box (getx mb x1))); reflexivity); reflexivity).
    all: destruct (adv_T i x1 x2 HE1 HT1 b1 n1 y Hb1 Hr1) as [-> | (n2 & b2 & Hb2 & Hr2)];
         [rewrite (thread_done_false x1 i _ Hn1 eq_refl) in Hd; discriminate|].
    all: assert (Hlt1 : (i < length (s_thr x1))%nat) by (eapply nth_error_lt; eauto).
    all: assert (Hn2 : nth_error (s_thr x2) i = Some (PDone r)) by (unfold x2; autorewrite with sys; apply nth_set_same; exact Hlt1).
    all: assert (HE2 : forall c, step x2 E c = SNoop)
           by (apply (enf_idle_noop x2 (Z.of_N maxb)); unfold x2, x1; autorewrite with sys; [apply (q_max _ _ _ HQ) | apply (q_idle _ _ _ HQ)]).
    all: assert (HT2 : forall c, step x2 (T i) c = SNoop) by (intros c; cbn [step]; unfold step_thr; now rewrite Hn2).
    all: pose proof (stay i x2 HE2 HT2 b2 n2 y Hb2 Hr2) as ->.
    all: split; [|split].
    (* other threads *)
    all: try (intros j Hj; unfold x2, x1; autorewrite with sys; rewrite !nth_set_other by congruence; reflexivity).
    (* the result *)
    all: try (rewrite Hn2; f_equal; f_equal; rewrite Hob; unfold r; rewrite Hg1, <- sget_S_of; cbn [seq_exec snd];
              try reflexivity; unfold box_seen; destruct (find_msg id (b_msgs (sget mb (S_of x)))); reflexivity).
    all: pose proof (read_enf (B.cfg0 0) ms iss _ Hro) as Henf; fold im in Henf.
    all: destruct HQ as [Q1 Q2 Q3 Q4 Q5 Q6 Q7 Q8 Q9 Q10].
    all: constructor; rewrite ?Henf; unfold x2, x1; autorewrite with sys; auto.
    (* boxes *)
    all: try (eapply R_ext; [|exact HR']; intros mb'; rewrite sget_S_of; cbn [seq_exec fst]; autorewrite with sys;
              rewrite ?B.sget_rd, ?sget_S_of; reflexivity).
    all: try (intros mb0; autorewrite with sys; apply Q4).
    - eapply R_ext; [|exact HR']. intros mb'. rewrite sget_S_of. cbn [seq_exec fst]. autorewrite with sys.
      rewrite <- (sget_S_of mb x). unfold box_seen.
      destruct (find_msg id (b_msgs (sget mb (S_of x)))) eqn:Ef; cbn [fst].
      + destruct (N.eq_dec mb' mb) as [->|Hne]; [rewrite getx_setx_same, B.sget_aset_same; reflexivity|].
        rewrite getx_setx_other by exact Hne. autorewrite with sys. rewrite B.sget_aset_other by exact Hne. now rewrite sget_S_of.
      + destruct (N.eq_dec mb' mb) as [->|Hne]; [rewrite getx_setx_same, B.sget_rd; reflexivity|].
        rewrite getx_setx_other by exact Hne. autorewrite with sys. rewrite B.sget_rd. now rewrite sget_S_of.
    - intros mb0. autorewrite with sys. destruct (N.eq_dec mb0 mb) as [->|Hne]; [now rewrite getx_setx_same|].
      rewrite getx_setx_other by exact Hne. autorewrite with sys. apply Q4.
  Qed.

  (* ------------------------------------------------ the delivery: the enforcer's part *)

  Definition gb (mb : mbname) (boxesC : list (str * MS.mbox)) : MS.mbox := SI.bx_get MS.mbox_empty (B.nm mb) boxesC.

  (** What stays fixed while the enforcer works for thread i (parked at mem.deliver.sent). *)
  Record XB (xb : msys) (i : tid) (p : pc) (boxesC : list (str * MS.mbox)) : Prop := {
    xb_cap : s_cap xb = 0;
    xb_max : s_max xb = Some (Z.of_N maxb);
    xb_thr : nth_error (s_thr xb) i = Some p;
    xb_box : forall mb, gb mb boxesC = B.abs_box (x_box (getx mb xb));
    xb_lock : forall mb, x_lock (getx mb xb) = None;
    xb_bi : forall mb, B.BI (x_box (getx mb xb))
  }.

  Record Final (y : msys) (i : tid) (r : res) (xb : msys) (boxesC : list (str * MS.mbox)) (allC : list (str * MS.mid * N)) (curC : N) : Prop := {
    f_xb : XB y i (PDone r) boxesC;
    f_idle : e_pc (s_enf y) = EIdle;
    f_done : e_done (s_enf y) = [];
    f_rem : e_rem (s_enf y) = [];
    f_all : allC = map ent3 (e_all (s_enf y));
    f_cur : e_cur (s_enf y) = Z.of_N curC;
    f_sum : curC = sum3 allC;
    f_oth : forall j, j <> i -> nth_error (s_thr y) j = nth_error (s_thr xb) j;
    f_last : forall mb, b_last (x_box (getx mb y)) = b_last (x_box (getx mb xb))
  }.

  Lemma sum3_app l x : sum3 (l ++ [x]) = sum3 l + snd x.
  Proof. induction l as [|a l IH]; cbn [sum3 app]; lia. Qed.

  (** Removing a message from its mailbox on both sides (both tolerate its absence). *)
  Lemma remove_both xb i p boxesC (k : ent) :
    XB xb i p boxesC ->
    let xt := touch (fst k) xb in
    let bx := box_remove (m_id (snd k)) (x_box (getx (fst k) xt)) in
    match MS.box_remove (B.nm (fst k)) (N.to_nat (m_id (snd k))) boxesC with
    | Some boxes' => snd bx <> None /\ XB (setx (fst k) (mkMbx (fst bx) None) xt) i p boxes'
    | None => snd bx = None /\ XB xt i p boxesC
    end.
  Proof.
    intros [H1 H2 H3 H4 H5 H6]. cbv zeta. unfold MS.box_remove. fold (gb (fst k) boxesC). rewrite H4.
    cbn [B.abs_box MS.mb_msgs]. rewrite B.find_amsg. rewrite getx_touch. unfold box_remove.
    destruct (find_msg (m_id (snd k)) (b_msgs (x_box (getx (fst k) xb)))) eqn:Ef; cbn [option_map fst snd].
    - split; [discriminate|]. constructor; autorewrite with sys; auto.
      + intros mb. unfold gb. destruct (N.eq_dec mb (fst k)) as [->|Hne].
        * rewrite StoreSpecFacts.bx_get_set_same, getx_setx_same. cbn [x_box B.abs_box MS.mb_first MS.mb_last MS.mb_msgs b_first b_last b_msgs].
          rewrite B.remove_amsg. reflexivity.
        * rewrite StoreSpecFacts.bx_get_set_other by (intros E; apply B.nm_inj in E; congruence).
          rewrite getx_setx_other by exact Hne. rewrite getx_touch. apply H4.
      + intros mb. destruct (N.eq_dec mb (fst k)) as [->|Hne]; [now rewrite getx_setx_same|].
        rewrite getx_setx_other by exact Hne. rewrite getx_touch. apply H5.
      + intros mb. destruct (N.eq_dec mb (fst k)) as [->|Hne].
        * rewrite getx_setx_same. cbn [x_box]. apply B.BI_del. apply H6.
        * rewrite getx_setx_other by exact Hne. rewrite getx_touch. apply H6.
    - split; [reflexivity|]. constructor; autorewrite with sys; auto; intros mb; rewrite getx_touch; auto.
  Qed.

  Lemma fin_phase xb i mb nm boxesC e1 b n y :
    XB xb i (PAddRegister mb nm true) boxesC -> e_done e1 = [] -> e_rem e1 = [] ->
    block_of i b -> run_from n (with_enf xb (finish_enf i e1)) b = Fin y -> thread_done y i = true ->
    Final y i (RId (m_id nm)) xb boxesC (map ent3 (e_all e1)) (sum3 (map ent3 (e_all e1))) \/ False ->
    True.
  Proof. trivial. Qed.

  Lemma fin_phase' xb i mb nm boxesC e1 curC b n y :
    XB xb i (PAddRegister mb nm true) boxesC -> e_done e1 = [] -> e_rem e1 = [] ->
    e_cur e1 = Z.of_N curC -> curC = sum3 (map ent3 (e_all e1)) ->
    block_of i b -> run_from n (with_enf xb (finish_enf i e1)) b = Fin y -> thread_done y i = true ->
    Final y i (RId (m_id nm)) xb boxesC (map ent3 (e_all e1)) curC.
  Proof.
    intros HX Hd Hrm Hc Hs Hb Hr Hdone. destruct HX as [H1 H2 H3 H4 H5 H6].
    set (x5 := with_enf xb (finish_enf i e1)) in *.
    pose proof (nth_error_lt _ _ _ H3) as Hlt.
    assert (HE5 : forall c, step x5 E c = SNoop) by (apply (enf_idle_noop x5 (Z.of_N maxb)); [exact H2 | reflexivity]).
    set (x6 := setpc i (PDone (RId (m_id nm))) (take_done i x5)).
    assert (HT5 : forall c, step x5 (T i) c = SOk x6).
    { intros c. cbn [step]. unfold step_thr. change (s_thr x5) with (s_thr xb). rewrite H3.
      change (s_max x5) with (s_max xb). rewrite H2.
      assert (has_done i x5 = true) as -> by (unfold has_done, x5; cbn; now rewrite Nat.eqb_refl). reflexivity. }
    destruct (adv_T i x5 x6 HE5 HT5 b n y Hb Hr) as [-> | (n6 & b6 & Hb6 & Hr6)].
    { rewrite (thread_done_false x5 i (PAddRegister mb nm true)) in Hdone; [discriminate | exact H3 | reflexivity]. }
    assert (Hn6 : nth_error (s_thr x6) i = Some (PDone (RId (m_id nm)))) by (unfold x6; autorewrite with sys; apply nth_set_same; exact Hlt).
    assert (HE6 : forall c, step x6 E c = SNoop) by (apply (enf_idle_noop x6 (Z.of_N maxb)); [exact H2 | reflexivity]).
    assert (HT6 : forall c, step x6 (T i) c = SNoop) by (intros c; cbn [step]; unfold step_thr; now rewrite Hn6).
    pose proof (stay i x6 HE6 HT6 b6 n6 y Hb6 Hr6) as ->.
    constructor.
    - constructor; auto.
    - reflexivity.
    - unfold x6, x5. cbn. rewrite Nat.eqb_refl. cbn. rewrite Hd. reflexivity.
    - exact Hrm.
    - reflexivity.
    - exact Hc.
    - exact Hs.
    - intros j Hj. unfold x6. autorewrite with sys. rewrite nth_set_other by congruence. reflexivity.
    - intros mb0. reflexivity.
  Qed.

  Lemma norm_some xb e0 e e' mbk v ent :
    addlog ent (with_enf (setx mbk v (with_enf (touch mbk (with_enf xb e0)) e)) e') =
    with_enf (addlog ent (setx mbk v (touch mbk xb))) e'.
  Proof. unfold touch. cbn [s_boxes with_enf]. destruct (aget mbk (s_boxes xb)); reflexivity. Qed.
  Lemma norm_none xb e0 e e' mbk ent :
    addlog ent (with_enf (with_enf (touch mbk (with_enf xb e0)) e) e') = with_enf (addlog ent (touch mbk xb)) e'.
  Proof. unfold touch. cbn [s_boxes with_enf]. destruct (aget mbk (s_boxes xb)); reflexivity. Qed.

  (** The eviction loop, one victim per two scheduling steps, against MemStore.evict_loop. *)
  Lemma loop i mb nm : forall all xb e1 boxesC curC evs b n y,
    e_all e1 = all -> XB xb i (PAddRegister mb nm true) boxesC -> e_done e1 = [] -> e_rem e1 = [] ->
    e_cur e1 = Z.of_N curC -> curC = sum3 (map ent3 all) ->
    block_of i b -> run_from n (with_enf xb (after_evict (Z.of_N maxb) i e1)) b = Fin y -> thread_done y i = true ->
    exists boxes' all' cur' evs' xb',
      MS.evict_loop (S (length all)) maxb boxesC (map ent3 all) curC evs = Some (boxes', all', cur', evs') /\
      Final y i (RId (m_id nm)) xb' boxes' all' cur' /\
      (forall j, j <> i -> nth_error (s_thr xb') j = nth_error (s_thr xb) j) /\
      (forall mb0, b_last (x_box (getx mb0 xb')) = b_last (x_box (getx mb0 xb))).
  Proof.
    induction all as [|k rest IH]; intros xb e1 boxesC curC evs b n y Hall HX Hd Hrm Hc Hs Hb Hr Hdone.
    - (* empty book: curC = 0, nothing to evict *)
      cbn [map sum3] in Hs. subst curC. unfold after_evict in Hr. rewrite Hc in Hr.
      assert ((Z.of_N maxb <? Z.of_N 0)%Z = false) as Hlt by (apply Z.ltb_ge; lia). rewrite Hlt in Hr.
      exists boxesC, [], 0, evs, xb. rewrite MemStoreLoops.evict_loop_S.
      assert ((maxb <? 0) = false) as -> by (apply N.ltb_ge; lia).
      split; [reflexivity|]. split; [|split; auto].
      pose proof (fin_phase' xb i mb nm boxesC e1 0 b n y HX Hd Hrm Hc) as HF. rewrite Hall in HF. apply HF; auto.
    - unfold after_evict in Hr. rewrite Hc in Hr. rewrite MemStoreLoops.evict_loop_S.
      assert (Hcmp : (Z.of_N maxb <? Z.of_N curC)%Z = (maxb <? curC)).
      { destruct (maxb <? curC) eqn:E; [apply N.ltb_lt in E; apply Z.ltb_lt; lia | apply N.ltb_ge in E; apply Z.ltb_ge; lia]. }
      rewrite Hcmp in Hr. destruct (maxb <? curC) eqn:Eover.
      + (* over the limit: pop the oldest, unlink it, go round *)
        cbn [map]. unfold ent3 at 1. destruct HX as [H1 H2 H3 H4 H5 H6].
        set (xe := with_enf xb (with_epc e1 (EEvict i))) in *.
        set (e2 := mkEnf (EEvLock k i) rest (e_cur e1) (filter (fun g => negb (g =? m_tag (snd k))) (e_els e1)) (e_rem e1) (e_done e1)).
        set (xl := with_enf (touch (fst k) xe) e2).
        assert (HTe : forall c, step xe (T i) c = SBlocked).
        { intros c. cbn [step]. unfold step_thr. change (s_thr xe) with (s_thr xb). rewrite H3.
          change (s_max xe) with (s_max xb). rewrite H2.
          assert (has_done i xe = false) as -> by (unfold has_done, xe; cbn; now rewrite Hd). reflexivity. }
        assert (HEe : forall c, step xe E c = SOk xl).
        { intros c. cbn [step]. unfold step_enf. change (s_max xe) with (s_max xb). rewrite H2. cbn [s_enf xe with_enf with_epc e_pc e_all].
          rewrite Hall. reflexivity. }
        destruct (adv_E i xe xl HTe HEe b n y Hb Hr) as [-> | (n1 & b1 & Hb1 & Hr1)].
        { rewrite (thread_done_false xe i (PAddRegister mb nm true)) in Hdone; [discriminate | exact H3 | reflexivity]. }
        (* at the mailbox lock of the victim *)
        pose proof (remove_both xb i (PAddRegister mb nm true) boxesC k (Build_XB _ _ _ _ H1 H2 H3 H4 H5 H6)) as Hrem. cbv zeta in Hrem.
        assert (HTl : forall c, step xl (T i) c = SBlocked).
        { intros c. cbn [step]. unfold step_thr. unfold xl. autorewrite with sys. change (s_thr xe) with (s_thr xb). rewrite H3.
          change (s_max xe) with (s_max xb). rewrite H2.
          assert (has_done i (with_enf (touch (fst k) xe) e2) = false) as -> by (unfold has_done; cbn; now rewrite Hd). reflexivity. }
        assert (Hgl : forall mb0, getx mb0 xl = getx mb0 (touch (fst k) xb)).
        { intros mb0. unfold xl. rewrite getx_with_enf, !getx_touch. reflexivity. }
        assert (Hll : locked (fst k) xl = false) by (unfold locked; rewrite Hgl, getx_touch; now rewrite H5).
        set (bx := box_remove (m_id (snd k)) (x_box (getx (fst k) (touch (fst k) xb)))) in *.
        set (e3 := mkEnf (EEvLock k i) rest (e_cur e1 - esize k)%Z (e_els e2) (e_rem e1) (e_done e1)).
        assert (Hc3 : e_cur e3 = Z.of_N (curC - m_size (snd k)) /\ (curC - m_size (snd k)) = sum3 (map ent3 rest)).
        { assert (Hs' : curC = m_size (snd k) + sum3 (map ent3 rest)) by (rewrite Hs; reflexivity).
          cbn [e_cur e3]. rewrite Hc. unfold esize. split; lia. }
        destruct Hc3 as [Hc3 Hs3].
        assert (Hlast : forall bb, b_last (fst (box_remove (m_id (snd k)) bb)) = b_last bb).
        { intros bb. unfold box_remove. destruct (find_msg _ _); reflexivity. }
        destruct (MS.box_remove (B.nm (fst k)) (N.to_nat (m_id (snd k))) boxesC) as [boxes1|] eqn:Ebr.
        * destruct Hrem as [Hsome HX1]. destruct (snd bx) as [mfound|] eqn:Ebx; [|congruence].
          set (xb1 := addlog (E, ORemove (fst k) (m_id (snd k)), ROk) (setx (fst k) (mkMbx (fst bx) None) (touch (fst k) xb))).
          assert (HEl : forall c, step xl E c = SOk (with_enf xb1 (after_evict (Z.of_N maxb) i e3))).
          { intros c. cbn [step]. unfold step_enf. unfold xl at 1. rewrite max_with_enf, max_touch. change (s_max xe) with (s_max xb). rewrite H2.
            cbn [s_enf xl with_enf e_pc e2]. rewrite Hll. rewrite Hgl. fold bx.
            unfold xb1. destruct bx as [bb fo]. cbn [snd fst] in *. subst fo. f_equal. unfold xl, xe. apply norm_some. }
          destruct (adv_E i xl _ HTl HEl b1 n1 y Hb1 Hr1) as [-> | (n2 & b2 & Hb2 & Hr2)].
          { rewrite (thread_done_false xl i (PAddRegister mb nm true)) in Hdone; [discriminate | | reflexivity].
            unfold xl. autorewrite with sys. exact H3. }
          assert (HX1' : XB xb1 i (PAddRegister mb nm true) boxes1).
          { destruct HX1 as [A1 A2 A3 A4 A5 A6]. constructor; unfold xb1; autorewrite with sys; auto. }
          destruct (IH xb1 e3 boxes1 (curC - m_size (snd k)) (evs ++ [(StoreSpec.EDeleted, B.nm (fst k), N.to_nat (m_id (snd k)))]) b2 n2 y
                      eq_refl HX1' Hd Hrm Hc3 Hs3 Hb2 Hr2 Hdone) as (boxes' & all' & cur' & evs' & xb' & He & HF & Ho & Hl).
          exists boxes', all', cur', evs', xb'. split; [exact He|]. split; [exact HF|]. split.
          -- intros j Hj. rewrite (Ho j Hj). unfold xb1. autorewrite with sys. reflexivity.
          -- intros mb0. rewrite Hl. unfold xb1. autorewrite with sys. destruct (N.eq_dec mb0 (fst k)) as [->|Hne].
             ++ rewrite getx_setx_same. cbn [x_box]. unfold bx. rewrite Hlast. now rewrite getx_touch.
             ++ rewrite getx_setx_other by exact Hne. now rewrite getx_touch.
        * destruct Hrem as [Hnone HX1].
          set (xb1 := addlog (E, ORemove (fst k) (m_id (snd k)), RNotExist) (touch (fst k) xb)).
          assert (HEl : forall c, step xl E c = SOk (with_enf xb1 (after_evict (Z.of_N maxb) i e3))).
          { intros c. cbn [step]. unfold step_enf. unfold xl at 1. rewrite max_with_enf, max_touch. change (s_max xe) with (s_max xb). rewrite H2.
            cbn [s_enf xl with_enf e_pc e2]. rewrite Hll. rewrite Hgl. fold bx.
            unfold xb1. destruct bx as [bb fo]. cbn [snd fst] in *. subst fo. f_equal. unfold xl, xe. apply norm_none. }
          destruct (adv_E i xl _ HTl HEl b1 n1 y Hb1 Hr1) as [-> | (n2 & b2 & Hb2 & Hr2)].
          { rewrite (thread_done_false xl i (PAddRegister mb nm true)) in Hdone; [discriminate | | reflexivity].
            unfold xl. autorewrite with sys. exact H3. }
          assert (HX1' : XB xb1 i (PAddRegister mb nm true) boxesC).
          { destruct HX1 as [A1 A2 A3 A4 A5 A6]. constructor; unfold xb1; autorewrite with sys; auto. }
          destruct (IH xb1 e3 boxesC (curC - m_size (snd k)) evs b2 n2 y
                      eq_refl HX1' Hd Hrm Hc3 Hs3 Hb2 Hr2 Hdone) as (boxes' & all' & cur' & evs' & xb' & He & HF & Ho & Hl).
          exists boxes', all', cur', evs', xb'. split; [exact He|]. split; [exact HF|]. split.
          -- intros j Hj. rewrite (Ho j Hj). unfold xb1. autorewrite with sys. reflexivity.
          -- intros mb0. rewrite Hl. unfold xb1. autorewrite with sys. reflexivity.
      + (* within the limit: the enforcer answers *)
        exists boxesC, (map ent3 (k :: rest)), curC, evs, xb. split; [reflexivity|]. split; [|split; auto].
        pose proof (fin_phase' xb i mb nm boxesC e1 curC b n y HX Hd Hrm Hc) as HF. rewrite Hall in HF. apply HF; auto.
  Qed.

  Lemma mem_add_limit ms name m0 :
    MS.mem_add cfgL ms name m0 =
    (let b := MS.get_mbox name ms in
     let last' := S (MS.mb_last b) in
     let boxes1 := SI.bx_set name {| MS.mb_first := MS.mb_first b; MS.mb_last := last'; MS.mb_msgs := MS.mb_msgs b ++ [(last', m0)] |} (MS.ms_boxes ms) in
     let all1 := MS.en_all (MS.ms_enf ms) ++ [(name, last', SS.m_size m0)] in
     let cur1 := MS.en_cur (MS.ms_enf ms) + SS.m_size m0 in
     match MS.evict_loop (S (length all1)) maxb boxes1 all1 cur1 [] with
     | Some (boxes2, all2, cur2, evs2) =>
         ({| MS.ms_boxes := boxes2; MS.ms_enf := {| MS.en_all := all2; MS.en_cur := cur2 |} |}, SI.LAdd last', evs2)
     | None => ({| MS.ms_boxes := boxes1; MS.ms_enf := MS.ms_enf ms |}, SI.LPanic, [])
     end).
  Proof.
    unfold MS.mem_add. cbn [cfgL SS.c_cap SS.c_max Nat.eqb fold_left map app].
    assert ((maxb =? 0) = false) as -> by (apply N.eqb_neq; exact Hmax). reflexivity.
  Qed.

  Lemma block_add x ms iss i mb tag size b y :
    Q x ms iss -> nth_error (s_thr x) i = Some (PStart (OAdd mb tag size)) -> block_of i b ->
    run x b = Fin y -> thread_done y i = true ->
    Q y (fst (fst (fst (outcome_of ms iss (OAdd mb tag size))))) (snd (fst (fst (outcome_of ms iss (OAdd mb tag size))))) /\
    nth_error (s_thr y) i = Some (PDone (B.down_obs (snd (fst (outcome_of ms iss (OAdd mb tag size)))))) /\
    (forall j, j <> i -> nth_error (s_thr y) j = nth_error (s_thr x) j).
  Proof.
    intros HQ Hn Hb Hr Hd. pose proof (nth_error_lt _ _ _ Hn) as Hlt. unfold run in Hr.
    destruct HQ as [Q1 Q2 Q3 Q4 Q5 Q6 Q7 Q8 Q9 Q10]. destruct Q3 as [R1 R2 R3].
    assert (Hbox : forall mb', MS.get_mbox (B.nm mb') ms = B.abs_box (x_box (getx mb' x))) by (intros; rewrite R1, sget_S_of; reflexivity).
    assert (Hiss : forall mb', SI.iss_of MS.mid (B.nm mb') iss = seq 1 (N.to_nat (b_last (x_box (getx mb' x))))) by (intros; rewrite R2, sget_S_of; reflexivity).
    assert (Hbi : forall mb', B.BI (x_box (getx mb' x))) by (intros; rewrite <- sget_S_of; apply R3).
    (* client steps up to the send *)
    assert (HE0 : forall c, step x E c = SNoop) by (apply (enf_idle_noop x _ Q2 Q5)).
    set (x1 := setpc i (PAddLock mb tag size) (touch mb x)).
    assert (HT0 : forall c, step x (T i) c = SOk x1) by (intros c; cbn [step]; unfold step_thr; rewrite Hn; reflexivity).
    destruct (adv_T i x x1 HE0 HT0 b 0%nat y Hb Hr) as [-> | (n1 & b1 & Hb1 & Hr1)];
      [rewrite (thread_done_false x i _ Hn eq_refl) in Hd; discriminate|].
    assert (Hn1 : nth_error (s_thr x1) i = Some (PAddLock mb tag size)) by (unfold x1; autorewrite with sys; apply nth_set_same; exact Hlt).
    assert (HE1 : forall c, step x1 E c = SNoop) by (apply (enf_idle_noop x1 (Z.of_N maxb)); unfold x1; autorewrite with sys; assumption).
    set (b0 := x_box (getx mb x)).
    set (id := (b_last b0 + 1)%N). set (nm := mkMsg tag id size false).
    set (b1x := mkBox id (b_first b0) (b_msgs b0 ++ [nm])).
    set (x2 := addlog (T i, OAdd mb tag size, RId id) (setpc i (PAddVisible mb nm) (setx mb (mkMbx b1x (Some i)) x1))).
    assert (HT1 : forall c, step x1 (T i) c = SOk x2).
    { intros c. cbn [step]. unfold step_thr. rewrite Hn1.
      assert (locked mb x1 = false) as -> by (unfold locked, x1; autorewrite with sys; now rewrite Q4).
      unfold x1 at 1. autorewrite with sys. reflexivity. }
    destruct (adv_T i x1 x2 HE1 HT1 b1 n1 y Hb1 Hr1) as [-> | (n2 & b2 & Hb2 & Hr2)];
      [rewrite (thread_done_false x1 i _ Hn1 eq_refl) in Hd; discriminate|].
    assert (Hlt1 : (i < length (s_thr x1))%nat) by (eapply nth_error_lt; eauto).
    assert (Hn2 : nth_error (s_thr x2) i = Some (PAddVisible mb nm)) by (unfold x2; autorewrite with sys; apply nth_set_same; exact Hlt1).
    assert (HE2 : forall c, step x2 E c = SNoop) by (apply (enf_idle_noop x2 (Z.of_N maxb)); unfold x2, x1; autorewrite with sys; assumption).
    set (x3 := setpc i (PAddRegister mb nm false) (setx mb (mkMbx b1x None) x2)).
    assert (HT2 : forall c, step x2 (T i) c = SOk x3).
    { intros c. cbn [step]. unfold step_thr. rewrite Hn2.
      assert (s_cap x2 = 0) as -> by (unfold x2, x1; autorewrite with sys; exact Q1).
      assert (x_box (getx mb x2) = b1x) as -> by (unfold x2; autorewrite with sys; reflexivity). reflexivity. }
    destruct (adv_T i x2 x3 HE2 HT2 b2 n2 y Hb2 Hr2) as [-> | (n3 & b3 & Hb3 & Hr3)];
      [rewrite (thread_done_false x2 i _ Hn2 eq_refl) in Hd; discriminate|].
    assert (Hlt2 : (i < length (s_thr x2))%nat) by (eapply nth_error_lt; eauto).
    assert (Hn3 : nth_error (s_thr x3) i = Some (PAddRegister mb nm false)) by (unfold x3; autorewrite with sys; apply nth_set_same; exact Hlt2).
    assert (Henf3 : s_enf x3 = s_enf x) by (unfold x3, x2, x1; now autorewrite with sys).
    assert (Hmax3 : s_max x3 = Some (Z.of_N maxb)) by (unfold x3, x2, x1; autorewrite with sys; exact Q2).
    assert (HE3 : forall c, step x3 E c = SNoop) by (apply (enf_idle_noop x3 (Z.of_N maxb)); [exact Hmax3 | now rewrite Henf3]).
    set (x4 := setpc i (PAddRegister mb nm true) (with_enf x3 (with_epc (s_enf x3) (EIncoming (mb, nm) i)))).
    assert (HT3 : forall c, step x3 (T i) c = SOk x4).
    { intros c. cbn [step]. unfold step_thr. rewrite Hn3, Hmax3.
      assert (is_idle x3 = true) as -> by (unfold is_idle; now rewrite Henf3, Q5). reflexivity. }
    destruct (adv_T i x3 x4 HE3 HT3 b3 n3 y Hb3 Hr3) as [-> | (n4 & b4 & Hb4 & Hr4)];
      [rewrite (thread_done_false x3 i _ Hn3 eq_refl) in Hd; discriminate|].
    assert (Hlt3 : (i < length (s_thr x3))%nat) by (eapply nth_error_lt; eauto).
    assert (Hn4 : nth_error (s_thr x4) i = Some (PAddRegister mb nm true)) by (unfold x4; autorewrite with sys; apply nth_set_same; exact Hlt3).
    assert (Hg4 : forall mb', getx mb' x4 = if N.eq_dec mb' mb then mkMbx b1x None else getx mb' x).
    { intros mb'. unfold x4, x3, x2, x1. autorewrite with sys. destruct (N.eq_dec mb' mb) as [->|Hne].
      - now rewrite getx_setx_same.
      - rewrite getx_setx_other by exact Hne. autorewrite with sys. rewrite getx_setx_other by exact Hne. now autorewrite with sys. }
    set (e := s_enf x) in *.
    set (e1 := mkEnf (EIncoming (mb, nm) i) (e_all e ++ [(mb, nm)]) (e_cur e + esize (mb, nm))%Z (m_tag nm :: e_els e) [] (e_done e)).
    assert (HT4 : forall c, step x4 (T i) c = SBlocked).
    { intros c. cbn [step]. unfold step_thr. rewrite Hn4. unfold x4 at 1. autorewrite with sys. rewrite Hmax3.
      assert (has_done i x4 = false) as -> by (unfold has_done; change (e_done (s_enf x4)) with (e_done (s_enf x3)); rewrite Henf3; fold e; now rewrite Q6). reflexivity. }
    assert (HE4 : forall c, step x4 E c = SOk (with_enf x4 (after_evict (Z.of_N maxb) i e1))).
    { intros c. cbn [step]. unfold step_enf. change (s_max x4) with (s_max x3). rewrite Hmax3.
      change (e_pc (s_enf x4)) with (EIncoming (mb, nm) i). cbn iota.
      change (e_rem (s_enf x4)) with (e_rem (s_enf x3)). rewrite Henf3. fold e. rewrite Q7. cbn [tag_mem existsb snd].
      unfold e1. subst e. rewrite <- Henf3. reflexivity. }
    destruct (adv_E i x4 _ HT4 HE4 b4 n4 y Hb4 Hr4) as [-> | (n5 & b5 & Hb5 & Hr5)];
      [rewrite (thread_done_false x4 i _ Hn4 eq_refl) in Hd; discriminate|].
    (* the C07 side of the delivery *)
    set (bC := MS.get_mbox (B.nm mb) ms).
    set (m0 := {| SS.m_date := 0%Z; SS.m_tag := tag; SS.m_size := size; SS.m_seen := false |}).
    set (boxes1 := SI.bx_set (B.nm mb) {| MS.mb_first := MS.mb_first bC; MS.mb_last := S (MS.mb_last bC); MS.mb_msgs := MS.mb_msgs bC ++ [(S (MS.mb_last bC), m0)] |} (MS.ms_boxes ms)).
    assert (Habs1 : {| MS.mb_first := MS.mb_first bC; MS.mb_last := S (MS.mb_last bC); MS.mb_msgs := MS.mb_msgs bC ++ [(S (MS.mb_last bC), m0)] |} = B.abs_box b1x).
    { assert (Hid : N.to_nat id = S (N.to_nat (b_last b0))) by (unfold id; lia).
      assert (Ham : B.amsg nm = (S (N.to_nat (b_last b0)), m0)) by (unfold B.amsg, B.cmsg, nm, m0; cbn [m_id m_tag m_size m_seen]; now rewrite Hid).
      unfold bC. rewrite Hbox. fold b0. unfold B.abs_box, b1x. cbn [b_first b_last b_msgs MS.mb_first MS.mb_last MS.mb_msgs].
      rewrite map_app. cbn [map]. rewrite Ham, Hid. reflexivity. }
    assert (HX4 : XB x4 i (PAddRegister mb nm true) boxes1).
    { constructor.
      - unfold x4, x3, x2, x1. autorewrite with sys. exact Q1.
      - unfold x4. autorewrite with sys. exact Hmax3.
      - exact Hn4.
      - intros mb'. unfold gb, boxes1. rewrite Hg4. destruct (N.eq_dec mb' mb) as [->|Hne].
        + rewrite StoreSpecFacts.bx_get_set_same. cbn [x_box]. exact Habs1.
        + rewrite StoreSpecFacts.bx_get_set_other by (intros Eq; apply B.nm_inj in Eq; congruence). apply Hbox.
      - intros mb'. rewrite Hg4. destruct (N.eq_dec mb' mb); [reflexivity | apply Q4].
      - intros mb'. rewrite Hg4. destruct (N.eq_dec mb' mb) as [->|Hne]; [|apply Hbi].
        cbn [x_box]. apply (B.BI_insert b0 tag size). apply Hbi. }
    set (curC := (MS.en_cur (MS.ms_enf ms) + size)%N).
    assert (Hc1 : e_cur e1 = Z.of_N curC) by (cbn [e_cur e1]; unfold esize, curC; cbn [snd m_size nm]; rewrite Q9; lia).
    assert (Hs1 : curC = sum3 (map ent3 (e_all e ++ [(mb, nm)]))).
    { unfold curC. rewrite map_app. cbn [map]. rewrite sum3_app, <- Q8, <- Q10. reflexivity. }
    destruct (loop i mb nm (e_all e ++ [(mb, nm)]) x4 e1 boxes1 curC [] b5 n5 y eq_refl HX4 Q6 eq_refl Hc1 Hs1 Hb5 Hr5 Hd)
      as (boxes' & all' & cur' & evs' & xb' & He & HF & Ho & Hl).
    assert (HlastC : MS.mb_last bC = N.to_nat (b_last b0)) by (unfold bC; rewrite Hbox; reflexivity).
    assert (Hid : N.to_nat id = S (MS.mb_last bC)) by (rewrite HlastC; unfold id; lia).
    assert (Hall1 : MS.en_all (MS.ms_enf ms) ++ [(B.nm mb, S (MS.mb_last bC), SS.m_size m0)] = map ent3 (e_all e ++ [(mb, nm)])).
    { rewrite map_app, <- Q8. cbn [map]. unfold ent3. cbn [fst snd nm m_id m_size m0 SS.m_size]. now rewrite Hid. }
    assert (Hout : outcome_of ms iss (OAdd mb tag size) =
       ({| MS.ms_boxes := boxes'; MS.ms_enf := {| MS.en_all := all'; MS.en_cur := cur' |} |},
        SI.bx_set (B.nm mb) (SI.iss_of MS.mid (B.nm mb) iss ++ [S (MS.mb_last bC)]) iss,
        snd (fst (outcome_of ms iss (OAdd mb tag size))), snd (outcome_of ms iss (OAdd mb tag size))) /\
       B.down_obs (snd (fst (outcome_of ms iss (OAdd mb tag size)))) = RId id).
    { unfold outcome_of. cbn [B.up_op SI.step_impl MS.exec_mem]. rewrite mem_add_limit. cbv zeta. fold bC. fold m0. fold boxes1.
      rewrite Hall1. cbn [SS.m_size m0]. fold curC. rewrite map_length. rewrite He.
      cbn [MS.exec_mem fst snd B.down_obs]. split; [reflexivity|]. rewrite Hiss, seq_length. fold b0. unfold id. f_equal. lia. }
    destruct Hout as [Hout Hres]. rewrite Hout. cbn [fst snd]. rewrite Hres.
    destruct HF as [[F1 F2 F3 F4 F5 F6] F7 F8 F9 F10 F11 F12 F13 F14].
    assert (Hlast_y : forall mb', b_last (x_box (getx mb' y)) = if N.eq_dec mb' mb then id else b_last (x_box (getx mb' x))).
    { intros mb'. rewrite F14, Hl, Hg4. destruct (N.eq_dec mb' mb); reflexivity. }
    split; [|split].
    - constructor; auto; try (cbn [MS.ms_enf MS.en_all MS.en_cur]; assumption).
      constructor; intros mb'; rewrite sget_S_of.
      + apply F4.
      + rewrite Hlast_y. unfold SI.iss_of. destruct (N.eq_dec mb' mb) as [->|Hne].
        * rewrite StoreSpecFacts.bx_get_set_same. fold (SI.iss_of MS.mid (B.nm mb) iss). rewrite Hiss. fold b0.
          rewrite Hid, HlastC. rewrite seq_S. reflexivity.
        * rewrite StoreSpecFacts.bx_get_set_other by (intros Eq; apply B.nm_inj in Eq; congruence). apply Hiss.
      + apply F6.
    - exact F3.
    - intros j Hj. rewrite (F13 j Hj), (Ho j Hj). unfold x4, x3, x2, x1. autorewrite with sys. rewrite !nth_set_other by congruence. reflexivity.
  Qed.

  Definition add_or_read (o : op) : Prop :=
    match o with OAdd _ _ _ | OGet _ _ | OLatest _ | OList _ | OSeen _ _ => True | _ => False end.

  Lemma block_any x ms iss i o b y :
    Q x ms iss -> nth_error (s_thr x) i = Some (PStart o) -> add_or_read o -> block_of i b ->
    run x b = Fin y -> thread_done y i = true ->
    Q y (fst (fst (fst (outcome_of ms iss o)))) (snd (fst (fst (outcome_of ms iss o)))) /\
    nth_error (s_thr y) i = Some (PDone (B.down_obs (snd (fst (outcome_of ms iss o))))) /\
    (forall j, j <> i -> nth_error (s_thr y) j = nth_error (s_thr x) j).
  Proof.
    intros HQ Hn Ho. destruct o; try contradiction.
    - apply block_add; assumption.
    - apply block_read; auto; exact I.
    - apply block_read; auto; exact I.
    - apply block_read; auto; exact I.
    - apply block_read; auto; exact I.
  Qed.

  Lemma blocks_limit : forall blocks rest k x ms iss s,
    Q x ms iss -> (forall j o, nth_error rest j = Some o -> nth_error (s_thr x) (k + j) = Some (PStart o)) ->
    Forall add_or_read rest -> length blocks = length rest -> blocks_ok k blocks -> run_blocks x k blocks = Some s ->
    (forall j r, nth_error (s_thr s) (k + j) = Some (PDone r) -> (j < length rest)%nat ->
       nth_error (map B.down_obs (map fst (SI.run_impl MS.mid Nat.eqb MS.mem_store (MS.exec_mem cfgL) (ms, iss) (map B.up_op rest)))) j = Some r) /\
    (forall j, (j < k)%nat -> nth_error (s_thr s) j = nth_error (s_thr x) j).
  Proof.
    induction blocks as [|b bs IH]; intros rest k x ms iss s HQ Hthr Hok Hlen Hbo Hr.
    - destruct rest; [|discriminate]. cbn in Hr. inversion Hr; subst. split; [intros j r _ Hj; cbn in Hj; lia | auto].
    - destruct rest as [|o rest]; [discriminate|]. cbn [run_blocks blocks_ok length] in *.
      destruct Hbo as [Hb Hbs]. inversion Hok as [|? ? Ho Hrest]; subst.
      destruct (run x b) as [y| |] eqn:Ey; try discriminate. destruct (thread_done y k) eqn:Ed; [|discriminate].
      assert (Hk : nth_error (s_thr x) k = Some (PStart o)) by (specialize (Hthr 0%nat o eq_refl); now rewrite Nat.add_0_r in Hthr).
      destruct (block_any x ms iss k o b y HQ Hk Ho Hb Ey Ed) as (HQy & Hky & Hoth).
      assert (Hthr' : forall j o', nth_error rest j = Some o' -> nth_error (s_thr y) (S k + j) = Some (PStart o')).
      { intros j o' Hj. rewrite Hoth by lia. replace (S k + j)%nat with (k + S j)%nat by lia. apply Hthr. exact Hj. }
      destruct (IH rest (S k) y _ _ s HQy Hthr' Hrest ltac:(lia) Hbs Hr) as [H1 H2].
      unfold outcome_of in *. cbn [map SI.run_impl].
      destruct (SI.step_impl MS.mid Nat.eqb MS.mem_store (MS.exec_mem cfgL) (ms, iss) (B.up_op o)) as [[[ms' iss'] ob] evs]. cbn [fst snd] in *.
      split.
      + intros j r Hj Hlt. destruct j as [|j]; cbn [map nth_error fst].
        * rewrite Nat.add_0_r in Hj. rewrite H2 in Hj by lia. rewrite Hky in Hj. now inversion Hj.
        * apply H1; [|lia]. replace (S k + j)%nat with (k + S j)%nat by lia. exact Hj.
      + intros j Hj. rewrite H2 by lia. apply Hoth. lia.
  Qed.
End Limit.

(** Non-overlapping runs WITH the size limit, for histories of deliveries, reads and mark-seen (no cap):
    every operation answers exactly as C07's [run_mem] with that limit. *)
Theorem conc_sequential_is_memstore_limit_partial : forall (maxb : N) ops blocks s,
  maxb <> 0 -> Forall add_or_read ops -> length blocks = length ops -> blocks_ok 0%nat blocks ->
  run_blocks (init_sys 0 (Some (Z.of_N maxb)) [] enf0 ops) 0%nat blocks = Some s ->
  forall t r, nth_error (s_thr s) t = Some (PDone r) -> (t < length ops)%nat ->
    nth_error (map B.down_obs (map fst (MS.run_mem {| SS.c_cap := 0%nat; SS.c_max := maxb |} (map B.up_op ops)))) t = Some r.
Proof.
  intros maxb ops blocks s Hm Hok Hlen Hbo Hr t r Ht Hlt.
  assert (HQ0 : Q maxb (init_sys 0 (Some (Z.of_N maxb)) [] enf0 ops) MS.mem_init []).
  { constructor; try reflexivity. apply B.R_init. }
  assert (Hthr0 : forall j o, nth_error ops j = Some o ->
            nth_error (s_thr (init_sys 0 (Some (Z.of_N maxb)) [] enf0 ops)) (0 + j) = Some (PStart o)).
  { intros j o Hj. cbn [init_sys s_thr Nat.add]. rewrite nth_error_map. rewrite Hj. reflexivity. }
  destruct (blocks_limit maxb Hm blocks ops 0%nat _ MS.mem_init [] s HQ0 Hthr0 Hok Hlen Hbo Hr) as [H1 _].
  apply H1; assumption.
Qed.

(** Non-vacuity: three deliveries of 600 bytes with a 1 KB limit (the first is evicted when the second
    registers, ...), then a listing; each run one after the other with the enforcer's steps in between. *)
Example limit_run_exists :
  exists s, run_blocks (init_sys 0 (Some 1024%Z) [] enf0 [OAdd 1 1 600; OAdd 1 2 600; OAdd 2 3 600; OList 1]) 0%nat
    [ [(T 0,0);(T 0,0);(T 0,0);(T 0,0);(E,0);(T 0,0)]%nat;
      [(T 1,0);(T 1,0);(T 1,0);(T 1,0);(E,0);(E,0);(E,0);(T 1,0)]%nat;
      [(T 2,0);(T 2,0);(T 2,0);(T 2,0);(E,0);(E,0);(E,0);(T 2,0)]%nat;
      [(T 3,0);(T 3,0)]%nat ] = Some s /\ nth_error (s_thr s) 3 = Some (PDone (RList [])).
Proof. eexists. vm_compute. split; reflexivity. Qed.

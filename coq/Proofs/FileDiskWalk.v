(** C11/C10: the walker (VisitMailboxes) and the by-name readers agree, in every reachable state — crash states
    included; and atomicity of every operation of a store without a message cap. *)
From IV Require Import Base.Bytes Base.BytesFacts Model.FileDisk Proofs.FileDiskMap Proofs.FileDiskInv Proofs.FileDiskSteps Proofs.FileDiskOps Proofs.FileDiskCrash Proofs.FileDiskParents.
From Coq Require Import List NArith Bool Lia.
Import ListNotations.

(** every mailbox directory on the disk is the directory of a mailbox NAME *)
Definition Named (hash : str -> str) (d : disk) : Prop :=
  forall p, lookup d p = Some Dir -> length p = 3%nat -> exists mb, p = mbdir (hash mb).

Definition mk_ok (hash : str -> str) (s : fsstep) : Prop :=
  match s with Mkdir p => exists mb, p = mbdir (hash mb) | _ => True end.

Lemma Named_mkdir hash d p d' : Named hash d -> (length p <= 3)%nat -> (length p = 3%nat -> exists mb, p = mbdir (hash mb)) ->
  mkdir_chain [] p d = Some d' -> Named hash d'.
Proof.
  intros H Hl Hp Hm q Hq Hlen. destruct (mkdir_chain_spec _ _ _ _ Hm) as [_ [B _]].
  destruct (B q Dir Hq) as [Hold|[_ [k [Hk Hqk]]]]; [apply H; auto|].
  simpl in Hqk. subst q. rewrite firstn_length in Hlen.
  assert (k = length p \/ (k < length p)%nat) as [->|Hlt] by lia.
  - rewrite firstn_all. apply Hp. lia.
  - lia.
Qed.

Lemma Named_sub hash x y : Named hash x -> (forall q, lookup y q = Some Dir -> lookup x q = Some Dir) -> Named hash y.
Proof. intros H Hs q Hq Hl. apply H; auto. Qed.

Lemma Named_step hash s x y : mk_ok hash s -> Named hash x -> apply_step s x = Some y -> Named hash y.
Proof.
  intros Hok H E. destruct s; simpl in E.
  - destruct Hok as [mb ->]. apply (Named_mkdir hash x (mbdir (hash mb)) y H); [simpl; lia | intros _; eauto | exact E].
  - destruct (is_dir x (parent p)); [|discriminate].
    destruct (lookup x p) as [[|c]|]; inversion E; subst; eapply Named_sub; eauto;
      intros q Hq; rewrite lookup_set in Hq; destruct (path_eqb p q); [discriminate|auto | discriminate | auto].
  - destruct (lookup x p) as [[|c]|]; inversion E; subst. eapply Named_sub; eauto.
    intros q Hq. rewrite lookup_set in Hq. destruct (path_eqb p q); [discriminate|auto].
  - destruct (lookup x p) as [[|c]|]; inversion E; subst. eapply Named_sub; eauto.
    intros q Hq. rewrite lookup_set in Hq. destruct (path_eqb p q); [discriminate|auto].
  - destruct (lookup x p) as [[|c]|]; inversion E; subst; auto.
  - destruct (lookup x p) as [[|c]|]; try discriminate. destruct (is_dir x (parent q)); [|discriminate].
    destruct (lookup x q) as [[|c']|]; inversion E; subst; eapply Named_sub; eauto;
      intros r Hr; rewrite lookup_set, lookup_del in Hr; destruct (path_eqb q r); try discriminate;
      destruct (path_eqb p r); try discriminate; auto.
  - destruct (lookup x p) as [[|c]|]; inversion E; subst; auto. eapply Named_sub; eauto.
    intros q Hq. rewrite lookup_del in Hq. destruct (path_eqb p q); [discriminate|auto].
  - destruct (lookup x p) as [[|c]|]; inversion E; subst. eapply Named_sub; eauto.
    intros q Hq. rewrite lookup_del in Hq. destruct (path_eqb p q); [discriminate|auto].
  - inversion E; subst. eapply Named_sub; eauto. intros q Hq. rewrite lookup_del_tree in Hq.
    destruct (is_prefix p q); [discriminate|auto].
  - destruct (lookup x p) as [[|c]|]; try discriminate. destruct (children p x); inversion E; subst.
    eapply Named_sub; eauto. intros q Hq. rewrite lookup_del in Hq. destruct (path_eqb p q); [discriminate|auto].
Qed.

Lemma Named_mid hash v s x y : mk_ok hash s -> Named hash x -> mid_step v s x = Some y -> Named hash y.
Proof.
  intros Hok H E. destruct s; destruct v; simpl in E; try discriminate.
  - destruct Hok as [mb ->]. eapply (Named_mkdir hash x (firstn n (mbdir (hash mb)))); eauto.
    + rewrite firstn_length. simpl. lia.
    + intros Hl. rewrite firstn_length in Hl. simpl in Hl. exists mb. apply firstn_all2. simpl. lia.
  - destruct (lookup x p) as [[|c]|]; inversion E; subst. eapply Named_sub; eauto.
    intros q Hq. rewrite lookup_set in Hq. destruct (path_eqb p q); [discriminate|auto].
  - destruct (lookup x p) as [[|c]|]; inversion E; subst. eapply Named_sub; eauto.
    intros q Hq. rewrite lookup_set in Hq. destruct (path_eqb p q); [discriminate|auto].
  - inversion E; subst. eapply Named_sub; eauto. intros q Hq. rewrite lookup_del_tree_partial in Hq.
    destruct (negb (is_prefix p q) || path_eqb q p || keep q); [auto|discriminate].
Qed.

Lemma crash_Named hash ss : forall d d', Forall (mk_ok hash) ss -> Named hash d -> crash_reach ss d d' -> Named hash d'.
Proof.
  induction ss as [|s r IH]; intros d d' Hok H Hc.
  - apply crash_reach_nil in Hc; subst; auto.
  - inversion Hok as [|? ? Hs Hr]; subst.
    inversion Hc as [ | v s0 ss0 d0 d0' Hm | s0 ss0 d0 d1 d0' Ha Hcr]; subst; auto.
    + apply (Named_mid hash v s d d' Hs H Hm).
    + apply (IH d1 d' Hr (Named_step hash s d d1 Hs H Ha) Hcr).
Qed.

(** all step lists of the operations create only the directory of the operation's mailbox *)
Definition prog_mk (hash : str -> str) (a : prog) : Prop := forall d, Forall (mk_ok hash) (a d).

Lemma pseq_mk hash a b : prog_mk hash a -> prog_mk hash b -> prog_mk hash (pseq a b).
Proof. intros Ha Hb d. unfold pseq. apply Forall_app. split; auto. Qed.

Ltac mk_list := repeat (constructor; simpl; auto).

Lemma p_mkdir_mk hash mb : prog_mk hash (p_mkdir (hash mb)).
Proof. intros d. unfold p_mkdir. destruct (lookup d (mbdir (hash mb))); mk_list. eauto. Qed.

Lemma p_file_mk hash w p b : prog_mk hash (p_file w p b).
Proof. intros d. unfold p_file. mk_list. Qed.

Lemma p_rmdirs_mk hash h : prog_mk hash (p_rmdirs h).
Proof.
  intros d. unfold p_rmdirs. destruct (empty_dir d (l2dir h)); [|constructor].
  destruct (empty_dir (del (l2dir h) d) (l1dir h)); mk_list.
Qed.

Lemma p_write_index_mk enc hash mb nm ms : prog_mk hash (p_write_index enc (hash mb) nm ms).
Proof.
  unfold p_write_index. destruct ms.
  - apply pseq_mk; [|apply p_rmdirs_mk]. intros d. mk_list.
  - apply pseq_mk; [apply p_mkdir_mk|]. intros d. apply Forall_app. split; [apply p_file_mk | mk_list].
Qed.

Lemma p_remove_mk enc hash mb nm ms id : prog_mk hash (p_remove enc (hash mb) nm ms id).
Proof.
  unfold p_remove. apply pseq_mk; [apply p_write_index_mk|]. intros d. destruct (remove_first id ms); mk_list.
Qed.

Lemma p_evict_mk enc hash mb n : forall nm ms, prog_mk hash (p_evict enc n (hash mb) nm ms).
Proof.
  induction n as [|n IH]; intros nm ms; simpl.
  - destruct ms; intros d; constructor.
  - destruct ms as [|m ms']; [intros d; constructor|]. apply pseq_mk; [apply p_remove_mk | apply IH].
Qed.

Lemma steps_mk enc dec hash cap o d : Forall (mk_ok hash) (steps enc dec hash cap o d).
Proof.
  unfold steps. destruct (read_index dec d (hash (op_mailbox o)) (op_mailbox o)) as [[nm ms]|]; [|constructor].
  destruct o as [mb info body cands | mb id | mb id | mb]; cbn [op_mailbox].
  - destruct (pick_id cands (skipn (evict_count cap (length ms)) ms)).
    + apply pseq_mk; [apply p_evict_mk|]. apply pseq_mk; [apply p_mkdir_mk|].
      apply pseq_mk; [apply p_file_mk | apply p_write_index_mk].
    + apply p_evict_mk.
  - destruct (find_id id ms) as [m|]; [|constructor]. destruct (m_seen m); [constructor | apply p_write_index_mk].
  - destruct (has_id id ms); [apply p_remove_mk | constructor].
  - apply p_write_index_mk.
Qed.

Lemma reach_Named enc dec hash cap d : reach enc dec hash cap d -> Named hash d.
Proof.
  induction 1 as [|d o d' Hr IH Hc].
  - intros p H. discriminate.
  - eapply crash_Named; [apply steps_mk | exact IH | exact Hc].
Qed.

(** The walker and the by-name readers agree, on every reachable disk (after any history of completed and
    killed operations): the walk succeeds; every non-empty listing it yields is the by-name listing of a
    mailbox NAME (so it never reports mail a by-name reader cannot see — the defect of seed C11-q1); and every
    mailbox that lists mail by name is yielded by the walk. (Empty lists the walk may yield for directories
    without an index carry no mail.) *)
Theorem walk_agrees_with_by_name : forall (enc : index -> str) (dec : str -> option index), (forall i, dec (enc i) = Some i) ->
  forall (hash : str -> str) (cap : nat) (d : disk),
    reach enc dec hash cap d ->
    exists vs, visit dec d = Some vs /\
      (forall v, In v vs -> v <> [] -> exists mb, view dec d (hash mb) = Some v) /\
      (forall mb v, view dec d (hash mb) = Some v -> v <> [] -> In v vs).
Proof.
  intros enc dec Hde hash cap d Hr.
  destruct (crash_readable enc dec Hde hash cap d Hr) as [_ Hvis].
  destruct (visit dec d) as [vs|] eqn:Evis; [|congruence]. exists vs. split; auto. split.
  - intros v Hin Hne.
    assert (Hview : exists h, view dec d h = Some v).
    { unfold visit in Evis. clear -Evis Hin. revert vs Evis Hin.
      generalize (children [] d). intros names.
      induction names as [|x r IH]; intros vs H Hin; cbn [visit_l1] in H; [inversion H; subst; destruct Hin|].
      destruct (is_dir d [x]); [|discriminate].
      destruct (visit_l2 dec d x (children [x] d)) as [a|] eqn:Ea; [|discriminate].
      destruct (visit_l1 dec d r) as [b|] eqn:Eb; [|discriminate]. inversion H; subst.
      apply in_app_or in Hin as [Hin|Hin]; [|eapply IH; eauto].
      clear -Ea Hin. revert a Ea Hin. generalize (children [x] d). intros names.
      induction names as [|y r IH]; intros vs H Hin; cbn [visit_l2] in H; [inversion H; subst; destruct Hin|].
      destruct (is_dir d [x; y]); [|discriminate].
      destruct (visit_mboxes dec d (children [x; y] d)) as [a|] eqn:Ea; [|discriminate].
      destruct (visit_l2 dec d x r) as [b|] eqn:Eb; [|discriminate]. inversion H; subst.
      apply in_app_or in Hin as [Hin|Hin]; [|eapply IH; eauto].
      clear -Ea Hin. revert a Ea Hin. generalize (children [x; y] d). intros names.
      induction names as [|z r IH]; intros vs H Hin; simpl in H; [inversion H; subst; destruct Hin|].
      destruct (view dec d z) as [vz|] eqn:Ez; [|discriminate].
      destruct (visit_mboxes dec d r) as [vr|] eqn:Er; [|discriminate]. inversion H; subst.
      destruct Hin as [<-|Hin]; eauto. }
    destruct Hview as [h Hh].
    (* a non-empty listing: the index exists, hence its directory, which is a named one *)
    assert (Hidx : exists b, lookup d (idx h) = Some (File b)).
    { unfold view, read_index in Hh. destruct (lookup d (idx h)) as [[|b]|] eqn:E; eauto; [discriminate|].
      inversion Hh; subst. congruence. }
    destruct Hidx as [b Hidx].
    pose proof (reach_PC enc dec hash cap d Hde Hr) as HP.
    assert (H3 : lookup d (mbdir h) = Some Dir).
    { apply (HP (idx h) _ Hidx). rewrite parent_idx. discriminate. }
    destruct (reach_Named enc dec hash cap d Hr (mbdir h) H3 eq_refl) as [mb Hmb].
    exists mb. assert (Eh : h = hash mb) by (unfold mbdir in Hmb; injection Hmb; auto). rewrite <- Eh. exact Hh.
  - intros mb v Hv Hne. destruct (visit_complete enc dec Hde hash cap d mb v Hr Hv Hne) as [vs' [E Hin]].
    rewrite Evis in E. inversion E; subst. exact Hin.
Qed.

(** A store without a message cap: every operation is atomic in every crash state. *)
Theorem crash_atomic_uncapped : forall (enc : index -> str) (dec : str -> option index), (forall i, dec (enc i) = Some i) ->
  forall (hash : str -> str) (d : disk) (o : op) (d' : disk),
    reach enc dec hash 0 d -> crash_reach (steps enc dec hash 0 o d) d d' ->
    (forall h, view dec d' h = view dec d h) \/ (forall h, view dec d' h = view dec (exec enc dec hash 0 o d) h).
Proof.
  intros enc dec Hde hash d o d' Hr Hc. apply (crash_atomic_partial enc dec Hde hash 0 d o d' Hr); auto.
  unfold evictions. destruct (read_index dec d (mailbox_of hash o) (op_mailbox o)) as [[nm ms]|]; auto.
  destruct o; reflexivity.
Qed.

(** The reply codes of the SMTP session, model against source: Gen/SmtpReplies.v is regenerated on every
    run from pkg/server/smtp/handler.go (the literal three-digit prefix of every send call). Every reply
    line the model's step function writes carries one of those codes (unless it is the code of an
    extension's own Deny), and every code in the source is written by some step of the model (220 too: the
    greeting precedes the loop, but an accepted STARTTLS is answered 220 by a step). A reply site added to, removed from or renumbered in the source
    therefore breaks a theorem here even where no generated dialogue reaches it. *)
From IV Require Import Base.Bytes Model.Policy Model.Smtp Gen.SmtpReplies Proofs.SmtpInv.
From Coq Require Import ZifyBool Lia.

Definition hook_code_free (it : item) : bool :=
  match it with
  | L (Mail _ (Deny _ _)) | L (Rcpt _ (Deny _ _)) => false
  | _ => true
  end.

Definition code_pinned (code : Z) : bool := existsb (Z.eqb code) smtp_reply_codes.

Theorem step_codes_pinned : forall c s it s' r d,
  step c s it = Ok s' r d -> hook_code_free it = true ->
  forallb (fun rl => code_pinned (fst rl)) r = true.
Proof.
  intros c s it s' r d H Hf.
  unfold step, step_greet, step_ready, step_mail, step_mail_from, step_data in H.
  destruct (st s) eqn:Es; step_cases; try discriminate Hf; try reflexivity;
    try (unfold ehlo_reply; destruct (tls_enabled c && negb (tls _)); reflexivity).
Qed.

(** The two reply sites whose code is an extension's: MAIL and RCPT denied by a hook. *)
Theorem dynamic_sites_pinned : smtp_dynamic_reply_sites = 2%nat.
Proof. reflexivity. Qed.

(** Conversely: concrete steps that write each code of the source. *)
Definition p0 : pcfg := {| def_accept := false; accept_l := []; reject_l := []; def_store := true; store_l := [];
                           discard_l := []; reject_origin_l := [] |}.
Definition c0 : scfg := {| pol := p0; max_rcpt := 1; max_bytes := 10; tls_enabled := false |}.
Definition sess (x : sstate) : session := {| st := x; from := None; rcpts := []; helo := [104]; tls := false |}.
Definition og : origin := {| o_addr := [97]; o_domain := [98] |}.
Definition rc : recipient := {| r_addr := [97]; r_domain := [98]; r_mailbox := [97] |}.
Definition c_tls : scfg := {| pol := p0; max_rcpt := 1; max_bytes := 10; tls_enabled := true |}.
Definition witnesses : list (scfg * session * item) :=
  [ (c0, sess READY, L Quit);                                   (* 221 *)
    (c0, sess PASSWORD, L Noop);                                (* 235 *)
    (c0, sess READY, L Noop);                                   (* 250 *)
    (c0, sess READY, L Vrfy);                                   (* 252 *)
    (c0, sess READY, L (Auth ALogin));                          (* 334 *)
    (c0, {| st := MAIL; from := Some og; rcpts := [rc]; helo := [104]; tls := false |}, L (DataC true));             (* 354 *)
    (c0, {| st := DATA; from := Some og; rcpts := [rc]; helo := [104]; tls := false |}, B (PBlock [] None None));    (* 451 *)
    (c0, sess READY, L Starttls);                               (* 454 *)
    (c_tls, sess READY, L Starttls);                            (* 220 *)
    (c0, sess READY, L Unknown);                                (* 500 *)
    (c0, sess READY, L (Mail MBadSyntax NoAns));                (* 501 *)
    (c0, sess READY, L Unimpl);                                 (* 502 *)
    (c0, sess GREET, L Rset);                                   (* 250 *)
    (c0, sess GREET, L (Mail MBadSyntax NoAns));                (* 503 *)
    (c0, {| st := MAIL; from := Some og; rcpts := []; helo := [104]; tls := false |}, L (Rcpt (RParsed (Some rc)) NoAns));   (* 550 *)
    (c0, sess READY, L (Mail (MParsed (SzVal 11) (Some og)) NoAns)) ].                                  (* 552 *)
Definition writes (w : scfg * session * item) (code : Z) : bool :=
  hook_code_free (snd w) &&
  match step (fst (fst w)) (snd (fst w)) (snd w) with
  | Ok _ r _ => existsb (fun rl => (fst rl =? code)%Z) r
  | _ => false
  end.

Theorem pinned_codes_written :
  forallb (fun code => existsb (fun w => writes w code) witnesses) smtp_reply_codes = true.
Proof. vm_compute. reflexivity. Qed.

Theorem every_source_code_is_a_model_code : forall code, In code smtp_reply_codes ->
  exists c s it s' r d, step c s it = Ok s' r d /\ hook_code_free it = true /\ In code (map fst r).
Proof.
  intros code Hin. pose proof pinned_codes_written as H. rewrite forallb_forall in H. specialize (H _ Hin).
  apply existsb_exists in H as ([[c s] it] & _ & Hw). unfold writes in Hw. cbn [fst snd] in Hw.
  apply andb_true_iff in Hw as [Hf Hw].
  destruct (step c s it) as [s' r d| |] eqn:E; try discriminate.
  apply existsb_exists in Hw as ([cd more] & Hr & Hc). cbn [fst] in Hc.
  exists c, s, it, s', r, d. repeat split; auto. apply in_map_iff. exists (cd, more). split; [cbn; lia|exact Hr].
Qed.

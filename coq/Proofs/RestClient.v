(** C14: requests reach the route they mean ([serve_routes], [api_reflects_store]), the Go
    client's URL reaches the route of exactly (name, id) ([client_roundtrip]) and its methods
    have the effect their names say ([client_op_effect]); the '/' counterexample. *)
From Coq Require Import ZifyN ZifyNat ZifyBool.
From IV Require Import Base.Bytes Base.BytesFacts Model.StoreSpec Model.Rest Proofs.Rest Proofs.RestRoute.
Open Scope N_scope.

Section Srv.
Variable mfa : str -> option str.
Variable cfg : scfg.
Variable srcok : str -> nat -> bool.
Variable base : list str.

(** A request whose escaped segments decode (compositionally) to plain, slash-free segments
    is dispatched on exactly those segments. *)
Lemma serve_routes st m body segs segs' :
  segs' <> [] -> Forall2 dec_as segs segs' -> Forall nosl segs' -> Forall (fun s => plain_seg s = true) segs' ->
  serve mfa cfg srcok base st {| rq_meth := m; rq_path := join_slash segs; rq_body := body |}
  = dispatch mfa cfg srcok st m body (route base m segs').
Proof.
  intros NE D F P. unfold serve. cbn [rq_path rq_meth rq_body].
  rewrite (unescape_join _ _ D). rewrite (clean_path_plain _ NE F P). rewrite str_eqb_refl. cbn [negb].
  rewrite (split_join_rooted _ NE F). reflexivity.
Qed.

(** Guard of [api_reflects_store]: no escaped segment of the request path decodes to a string
    containing '/' (the open finding K-C14-client-slash). *)
Definition no_enc_slash (wire : str) : bool :=
  match split_on slash wire with
  | _ :: segs =>
      match unescape_all segs with
      | Some segs' => forallb (fun s => negb (mem_b slash s)) segs'
      | None => true
      end
  | [] => true
  end.

Lemma forallb_Forall {A} (f : A -> bool) l : forallb f l = true -> Forall (fun x => f x = true) l.
Proof. intros H. apply Forall_forall. apply forallb_forall. exact H. Qed.

Lemma api_reflects_store st rq out :
  no_enc_slash (rq_path rq) = true ->
  spec_serve mfa cfg srcok base st rq = Some out -> serve mfa cfg srcok base st rq = out.
Proof.
  destruct rq as [m wire body]. unfold no_enc_slash, spec_serve, spec_route. cbn [rq_path rq_meth rq_body].
  destruct (split_on slash wire) as [|hd segs] eqn:S; [discriminate|].
  destruct hd; [|discriminate]. destruct segs as [|s0 segs0]; [discriminate|].
  set (segs := s0 :: segs0) in *.
  destruct (forallb plain_seg segs) eqn:P0; [|discriminate].
  destruct (unescape_all segs) as [segs'|] eqn:U; [|discriminate].
  destruct (forallb plain_seg segs') eqn:P1; [|discriminate].
  intros G H.
  pose proof (split_on_join_back wire [] segs S) as W. cbn [app] in W. subst wire.
  pose proof (unescape_all_dec _ _ U) as D.
  assert (NE : segs' <> []) by (intros ->; inversion D).
  assert (F : Forall nosl segs').
  { apply forallb_Forall in G. eapply Forall_impl; [|exact G]. intros s K I. apply mem_b_In in I. cbv beta in K. rewrite I in K. discriminate. }
  rewrite (serve_routes st m body segs segs' NE D F (forallb_Forall _ _ P1)).
  destruct (route base m segs') as [h name id num| | |] eqn:R; cbn [dispatch].
  - apply handler_meets_spec. exact H.
  - destruct (existsb _ _); [discriminate|]. inversion H; reflexivity.
  - destruct (existsb _ _); [discriminate|]. inversion H; reflexivity.
  - destruct (existsb _ _); discriminate.
Qed.

(* ------------------------------------------------------------------ client URL ↔ router *)

Definition good_name (name : str) : Prop :=
  Forall byte_ok name /\ ~ In 32 name /\ ~ In slash name /\ name <> [] /\ name <> [dot] /\ name <> [dot; dot].

(** Ids and base-path segments: characters that need no escaping, not empty, not a dot segment. *)
Definition good_seg (s : str) : Prop := inert s /\ plain_seg s = true.

Lemma good_seg_dec s : good_seg s -> dec_as s s.
Proof. intros [I _]. apply inert_dec_as. exact I. Qed.

Lemma Forall2_same {A} (R : A -> A -> Prop) l : Forall (fun x => R x x) l -> Forall2 R l l.
Proof. induction 1; constructor; assumption. Qed.

Lemma inert_lits : inert s_api /\ inert s_v1 /\ inert s_mailbox /\ inert s_source.
Proof. repeat split; repeat constructor. Qed.

Lemma plain_lits : plain_seg s_api = true /\ plain_seg s_v1 = true /\ plain_seg s_mailbox = true /\ plain_seg s_source = true.
Proof. repeat split. Qed.

Lemma good_lits : good_seg s_api /\ good_seg s_v1 /\ good_seg s_mailbox /\ good_seg s_source.
Proof. destruct inert_lits as [A [B [C D]]]. repeat split; assumption. Qed.

Lemma join_slash_mid a q t : join_slash (a ++ q :: t) = join_slash a ++ slash :: q ++ join_slash t.
Proof. rewrite join_slash_app. reflexivity. Qed.

Lemma client_joined name tail :
  (match join_slash base with [] => [slash] | _ => join_slash base end) ++ slash :: client_uri name tail
  = join_slash ((match base with [] => [[]; []] | _ => base ++ [[]] end) ++ [s_api; s_v1; s_mailbox; qescape name] ++ tail).
Proof.
  unfold client_uri.
  change s_prefix with (join_slash [s_api; s_v1; s_mailbox] ++ [slash]).
  change ([s_api; s_v1; s_mailbox; qescape name] ++ tail) with ([s_api; s_v1; s_mailbox] ++ qescape name :: tail).
  set (A3 := [s_api; s_v1; s_mailbox]).
  assert (U : (join_slash A3 ++ [slash]) ++ qescape name ++ join_slash tail = join_slash (A3 ++ qescape name :: tail)).
  { rewrite join_slash_mid, <- app_assoc. reflexivity. }
  rewrite U. set (Y := A3 ++ qescape name :: tail). destruct base as [|b bs].
  - reflexivity.
  - destruct (join_slash (b :: bs)) eqn:J; [discriminate J|]. rewrite <- J.
    rewrite <- app_assoc. symmetry. exact (join_slash_mid (b :: bs) [] Y).
Qed.

Lemma filter_seg_ok_plain l : Forall (fun s => plain_seg s = true) l -> filter seg_ok l = l.
Proof. induction 1 as [|s l Ps Pl IH]; [reflexivity|]. cbn [filter]. rewrite (plain_seg_ok _ Ps), IH. reflexivity. Qed.

(** The wire path the client sends: base, "api/v1/mailbox", the escaped name, the tail. *)
Lemma client_wire_is name tail :
  good_name name -> Forall good_seg base -> Forall good_seg tail ->
  client_wire (join_slash base) (client_uri name tail)
  = join_slash (base ++ [s_api; s_v1; s_mailbox; qescape name] ++ tail).
Proof.
  intros [Hb [Hs [Hsl [N0 [N1 N2]]]]] GB GT. unfold client_wire. rewrite client_joined.
  set (pre := match base with [] => [[]; []] | _ => base ++ [[]] end).
  set (Y := [s_api; s_v1; s_mailbox; qescape name] ++ tail).
  destruct good_lits as [Ga [Gv [Gm _]]].
  assert (Pq : plain_seg (qescape name) = true) by (apply qescape_plain; assumption).
  assert (PY : Forall (fun s => plain_seg s = true) Y).
  { unfold Y. apply Forall_app. split.
    - repeat constructor; try reflexivity. exact Pq.
    - eapply Forall_impl; [|exact GT]. intros s [_ P]; exact P. }
  assert (FY : Forall nosl Y).
  { unfold Y. apply Forall_app. split.
    - repeat constructor; try (apply inert_nosl; apply inert_lits). apply qescape_nosl.
    - eapply Forall_impl; [|exact GT]. intros s [I _]. apply inert_nosl; exact I. }
  assert (Ppre : Forall (fun s => s = [] \/ plain_seg s = true) pre /\ Forall nosl pre /\ filter seg_ok pre = base).
  { unfold pre. destruct base as [|b bs] eqn:EB.
    - repeat split; repeat constructor; auto; intros [].
    - rewrite <- EB in *. repeat split.
      + apply Forall_app. split; [|repeat constructor; auto].
        eapply Forall_impl; [|exact GB]. intros s [_ P]; right; exact P.
      + apply Forall_app. split; [|repeat constructor; intros []].
        eapply Forall_impl; [|exact GB]. intros s [I _]. apply inert_nosl; exact I.
      + rewrite filter_app. cbn [filter seg_ok is_empty negb]. rewrite app_nil_r. apply filter_seg_ok_plain.
        eapply Forall_impl; [|exact GB]. intros s [_ P]; exact P. }
  destruct Ppre as [P1 [P2 P3]].
  assert (YN : Y <> []) by (unfold Y; discriminate).
  destruct (exists_last' Y YN) as [r [z EY]].
  assert (Z : z <> []).
  { assert (In z Y) by (rewrite EY; apply in_or_app; right; left; reflexivity).
    rewrite Forall_forall in PY. specialize (PY z H). apply plain_seg_iff in PY. tauto. }
  rewrite (clean_path_join (pre ++ Y)) with (r := pre ++ r) (z := z).
  - clearbody pre Y. rewrite filter_app. f_equal. f_equal; [exact P3 | exact (filter_seg_ok_plain Y PY)].
  - apply Forall_app; split; assumption.
  - apply Forall_app; split; [exact P1|]. eapply Forall_impl; [|exact PY]. intros; right; assumption.
  - rewrite EY, app_assoc. reflexivity.
  - exact Z.
Qed.

Lemma client_roundtrip name tail st m body :
  good_name name -> Forall good_seg base -> Forall good_seg tail ->
  serve mfa cfg srcok base st {| rq_meth := m; rq_path := client_wire (join_slash base) (client_uri name tail); rq_body := body |}
  = dispatch mfa cfg srcok st m body (route base m (base ++ [s_api; s_v1; s_mailbox; name] ++ tail)).
Proof.
  intros GN GB GT. rewrite (client_wire_is name tail GN GB GT).
  destruct GN as [Hb [Hs [Hsl [N0 [N1 N2]]]]]. destruct good_lits as [Ga [Gv [Gm _]]].
  apply serve_routes.
  - destruct base; discriminate.
  - apply Forall2_app; [apply Forall2_same; eapply Forall_impl; [|exact GB]; apply good_seg_dec|].
    apply Forall2_app; [|apply Forall2_same; eapply Forall_impl; [|exact GT]; apply good_seg_dec].
    repeat constructor; try (apply good_seg_dec; assumption). apply qescape_dec_as; assumption.
  - apply Forall_app; split; [eapply Forall_impl; [|exact GB]; intros s [I _]; apply inert_nosl; exact I|].
    apply Forall_app; split; [|eapply Forall_impl; [|exact GT]; intros s [I _]; apply inert_nosl; exact I].
    repeat constructor; try (apply inert_nosl; apply inert_lits). exact Hsl.
  - apply Forall_app; split; [eapply Forall_impl; [|exact GB]; intros s [_ P]; exact P|].
    apply Forall_app; split; [|eapply Forall_impl; [|exact GT]; intros s [_ P]; exact P].
    repeat constructor; try reflexivity. apply plain_seg_iff. auto.
Qed.

(* -- what the router does with those segments *)

Lemma strip_prefix_app pre rest : strip_prefix pre (pre ++ rest) = Some rest.
Proof. induction pre as [|p pre IH]; [reflexivity|]. cbn [app strip_prefix]. rewrite str_eqb_refl. exact IH. Qed.

Lemma route_box m name : name <> [] ->
  route base m (base ++ [s_api; s_v1; s_mailbox; name] ++ []) =
  match m with GET => RHandler HList name [] [] | DELETE => RHandler HPurge name [] [] | _ => RNotFound end.
Proof.
  intros N. unfold route. rewrite strip_prefix_app. destruct name; [congruence|]. destruct m; reflexivity.
Qed.

Lemma route_msg m name id : name <> [] -> id <> [] ->
  route base m (base ++ [s_api; s_v1; s_mailbox; name] ++ [id]) =
  match m with GET => RHandler HShow name id [] | PATCH => RHandler HSeen name id [] | DELETE => RHandler HDel name id [] | MOther => RNotFound end.
Proof.
  intros N I. unfold route. rewrite strip_prefix_app. destruct name; [congruence|]. destruct id; [congruence|]. destruct m; reflexivity.
Qed.

Lemma route_src name id : name <> [] -> id <> [] ->
  route base GET (base ++ [s_api; s_v1; s_mailbox; name] ++ [id; s_source]) = RHandler HSrc name id [].
Proof.
  intros N I. unfold route. rewrite strip_prefix_app. destruct name; [congruence|]. destruct id; [congruence|]. reflexivity.
Qed.

(* -- no redirect from a handler *)

Lemma run_handler_no_301 st h name id num body : fst (snd (run_handler mfa cfg srcok st h name id num body)) <> S301.
Proof.
  unfold run_handler. destruct (mfa name) as [mb|]; [|discriminate].
  destruct h.
  - destruct (exec_spec cfg st (Lst mb)) as [[s o] e]. discriminate.
  - destruct (exec_spec cfg st (Purge mb)) as [[s o] e]. destruct (err_of_res (unit_res o)); discriminate.
  - destruct (mgr_get (st_get cfg srcok st mb id)) as [[v|] []]; discriminate.
  - destruct body; try discriminate. destruct (exec_spec cfg st (Seen mb (lit_handle id))) as [[s o] e]. destruct (err_of_res (unit_res o)); discriminate.
  - destruct (exec_spec cfg st (Remove mb (lit_handle id))) as [[s o] e]. destruct (err_of_res (unit_res o)); discriminate.
  - destruct (mgr_get (st_get cfg srcok st mb id)) as [[v|] []]; discriminate.
  - destruct (mgr_get (st_get cfg srcok st mb id)) as [[v|] []]; discriminate.
  - destruct (mgr_get (st_get cfg srcok st mb id)) as [[v|] []]; discriminate.
  - destruct (mgr_get (st_get cfg srcok st mb id)) as [[v|] []]; discriminate.
  - destruct (parse_uint32 num) as [n|]; [|discriminate].
    destruct (mgr_get (st_get cfg srcok st mb id)) as [[v|] []]; cbn [h_uiatt]; try discriminate.
    destruct (n <? att_count (m_tag (snd v))); discriminate.
Qed.

Lemma client_send_handler st m body name tail h id :
  good_name name -> Forall good_seg base -> Forall good_seg tail ->
  route base m (base ++ [s_api; s_v1; s_mailbox; name] ++ tail) = RHandler h name id [] ->
  client_send mfa cfg srcok base (join_slash base) st m (client_uri name tail) body = run_handler mfa cfg srcok st h name id [] body.
Proof.
  intros GN GB GT R. unfold client_send. rewrite (client_roundtrip name tail st m body GN GB GT), R. cbn [dispatch].
  pose proof (run_handler_no_301 st h name id [] body) as N3.
  destruct (run_handler mfa cfg srcok st h name id [] body) as [st1 [s p]]. cbn [snd fst] in N3.
  destruct s; try reflexivity. congruence.
Qed.

(* ------------------------------------------------------------------ client methods *)

Definition basic_op (op : cop) : bool :=
  match op with CList _ | CGet _ _ | CSeen _ _ | CSrc _ _ | CDel _ _ | CPurge _ => true | _ => false end.

Definition op_id_ok (op : cop) : Prop :=
  match op with
  | CGet _ id | CSeen _ id | CSrc _ id | CDel _ id | CMSrc _ id | CMDel _ id => good_seg id
  | _ => True
  end.

Lemma good_seg_nonempty s : good_seg s -> s <> [].
Proof. intros [_ P]. apply plain_seg_iff in P. tauto. Qed.

Ltac cs_rw H :=
  match goal with
  | |- context [client_send ?a ?b ?c ?d ?e ?f ?g ?h ?i] =>
      let E := fresh "E" in
      assert (E : client_send a b c d e f g h i = _) by exact H; rewrite E; clear E
  end.

Lemma client_op_effect st op mb :
  (forall m k, srcok m k = true) ->
  basic_op op = true -> good_name (cop_name op) -> op_id_ok op -> Forall good_seg base ->
  mfa (cop_name op) = Some mb ->
  spec_cop mfa cfg st op = Some (client_do mfa cfg srcok base (join_slash base) st op).
Proof.
  intros SK B GN GI GB M.
  assert (N0 : cop_name op <> []) by (destruct GN as [_ [_ [_ [N _]]]]; exact N).
  destruct good_lits as [_ [_ [_ Gs]]].
  destruct op; try discriminate; cbn [cop_name op_id_ok] in *; unfold spec_cop; cbn [cop_name]; rewrite M; f_equal;
    cbn [client_do].
  - (* ListMailbox *)
    unfold c_list. cs_rw (client_send_handler st GET BBad name [] HList [] GN GB (Forall_nil _) (route_box GET name N0)).
    unfold run_handler. rewrite M. destruct (exec_spec cfg st (Lst mb)) as [[s o] e]. reflexivity.
  - (* GetMessage *)
    unfold c_get. cs_rw (client_send_handler st GET BBad name [id] HShow id GN GB (Forall_cons _ GI (Forall_nil _)) (route_msg GET name id N0 (good_seg_nonempty _ GI))).
    unfold run_handler. rewrite M, st_get_spec. destruct (spec_get cfg st mb id) as [v| |]; cbn [with_src ans_of_res ga_msg ga_err ga_src mgr_get]; rewrite ?SK; reflexivity.
  - (* MarkSeen *)
    unfold c_unit. cs_rw (client_send_handler st PATCH BTrue name [id] HSeen id GN GB (Forall_cons _ GI (Forall_nil _)) (route_msg PATCH name id N0 (good_seg_nonempty _ GI))).
    unfold run_handler. rewrite M. cbn [exec_spec]. destruct (find_h mb (lit_handle id) (live st)); reflexivity.
  - (* GetMessageSource *)
    unfold c_src. cs_rw (client_send_handler st GET BBad name [id; s_source] HSrc id GN GB (Forall_cons _ GI (Forall_cons _ Gs (Forall_nil _))) (route_src name id N0 (good_seg_nonempty _ GI))).
    unfold run_handler. rewrite M, st_get_spec. destruct (spec_get cfg st mb id) as [v| |]; cbn [with_src ans_of_res ga_msg ga_err ga_src mgr_get]; rewrite ?SK; reflexivity.
  - (* DeleteMessage *)
    unfold c_unit. cs_rw (client_send_handler st DELETE BBad name [id] HDel id GN GB (Forall_cons _ GI (Forall_nil _)) (route_msg DELETE name id N0 (good_seg_nonempty _ GI))).
    unfold run_handler. rewrite M. cbn [exec_spec]. destruct (find_h mb (lit_handle id) (live st)); reflexivity.
  - (* PurgeMailbox *)
    unfold c_unit. cs_rw (client_send_handler st DELETE BBad name [] HPurge [] GN GB (Forall_nil _) (route_box DELETE name N0)).
    unfold run_handler. rewrite M. reflexivity.
Qed.

End Srv.

(* ------------------------------------------------------------------ the open finding *)

Definition mfa_id (s : str) : option str := Some s.
Definition src_all (_ : str) (_ : nat) : bool := true.
Definition cfg0 : scfg := {| c_cap := O; c_max := 0 |}.
Definition mb_st : str := [115; 47; 116].          (* "s/t" *)
Definition st_one : spec_store := fst (fst (exec_spec cfg0 spec_init (Add mb_st 0%Z 1 148))).

(** ListMailbox("s/t") is served as "message t of mailbox s": the client reports an error
    although the mailbox holds a message. *)
Lemma client_slash_witness :
  spec_cop mfa_id cfg0 st_one (CList mb_st) <> Some (client_do mfa_id cfg0 src_all [] [] st_one (CList mb_st))
  /\ snd (client_do mfa_id cfg0 src_all [] [] st_one (CList mb_st)) = CErr
  /\ exists v, option_map snd (spec_cop mfa_id cfg0 st_one (CList mb_st)) = Some (COkList mb_st [v]).
Proof.
  split; [vm_compute; discriminate|]. split; [vm_compute; reflexivity|]. eexists. vm_compute. reflexivity.
Qed.

(** The same for a hand-made request GET /api/v1/mailbox/s%2Ft. *)
Definition rq_slash : request := {| rq_meth := GET; rq_path := [47;97;112;105;47;118;49;47;109;97;105;108;98;111;120;47;115;37;50;70;116]; rq_body := BBad |}.

Lemma api_slash_witness :
  no_enc_slash (rq_path rq_slash) = false /\
  exists out, spec_serve mfa_id cfg0 src_all [] st_one rq_slash = Some out /\ serve mfa_id cfg0 src_all [] st_one rq_slash <> out
              /\ fst (snd out) = S200 /\ fst (snd (serve mfa_id cfg0 src_all [] st_one rq_slash)) = S404.
Proof.
  split; [vm_compute; reflexivity|]. eexists. split; [vm_compute; reflexivity|].
  split; [vm_compute; discriminate|]. split; vm_compute; reflexivity.
Qed.

(** Non-vacuity of the hypotheses of [client_roundtrip] / [client_op_effect]. *)
Example good_name_ex : good_name [97; 38; 98; 37; 52; 49].       (* "a&b%41" *)
Proof.
  repeat split; try discriminate; try (repeat constructor; unfold byte_ok; lia);
    intros K; repeat (destruct K as [K|K]; [discriminate|]); destruct K.
Qed.
Example good_seg_ex : good_seg [50; 48; 50; 54; 84; 49; 45; 48; 48; 48; 49] /\ good_seg s_latest /\ good_seg (id_of_k 12).
Proof. repeat split; repeat constructor. Qed.

(** Further session-level theorems: what RETR returns, what DELE hides, single-argument
    LIST/UIDL against the listings. *)
From Coq Require Import ZifyN ZifyNat ZifyBool.
From IV Require Import Base.Bytes Base.BytesFacts Model.Pop3Wire Model.Pop3 Proofs.Pop3Wire Proofs.Pop3.
Open Scope N_scope.

(** * RETR returns the snapshot's message *)

Theorem retr_returns_snapshot fl st s a i m :
  s_state s = Trans -> msg_index s a = Some i -> nth_error (s_msgs s) i = Some m ->
  source_of fl st (s_user s) m = Some (p_src m) ->
  step fl st s (CCmd RETR [a]) =
    (s, with_body (mk true [Z.of_N (p_size m)]) (BWire (pop3_send (p_src m))), st) /\
  pop3_client_decode (pop3_send (p_src m)) = Some (crlf_join (scan_lines (p_src m))).
Proof.
  intros Hs Hi Hm Hsrc. split; [|apply pop3_roundtrip].
  unfold step. rewrite Hs. cbn [trans_handler]. rewrite Hi, Hm, Hsrc. reflexivity.
Qed.

(** On the mem store the bytes are always there, even after somebody removed the message,
    and even if this session marked it deleted. *)
Lemma mem_source_always st u m : source_of Mem st u m = Some (p_src m).
Proof. reflexivity. Qed.

Lemma file_source_present st u m :
  has_msg st u (p_id m) = true -> source_of File st u m = Some (p_src m).
Proof. intros H. unfold source_of. rewrite H. reflexivity. Qed.

(** The bytes RETR sends are those the store held at login. *)
Theorem retr_is_login_source fl w e evs a i sm :
  s_state (w_sess w) = Auth ->
  s_state (w_sess (wstep fl w e)) = Trans ->
  let w2 := run fl (wstep fl w e) evs in
  s_state (w_sess w2) = Trans ->
  msg_index (w_sess w2) a = Some i ->
  nth_error (mmsgs (get_box (w_store w) (s_user (w_sess w2)))) i = Some sm ->
  fl = Mem \/ has_msg (w_store w2) (s_user (w_sess w2)) (sid sm) = true ->
  exists r, step fl (w_store w2) (w_sess w2) (CCmd RETR [a]) = (w_sess w2, r, w_store w2) /\
            r_ok r = true /\ r_nums r = [Z.of_N (lenN (ssrc sm))] /\
            r_body r = BWire (pop3_send (ssrc sm)) /\
            pop3_client_decode (pop3_send (ssrc sm)) = Some (crlf_join (scan_lines (ssrc sm))).
Proof.
  cbn zeta. intros Ha Ht Hf Hi Hn Hfl.
  pose proof (snapshot_is_login_store fl w e evs Ha Ht Hf) as Hsnap.
  set (w2 := run fl (wstep fl w e) evs) in *.
  assert (Hm : nth_error (s_msgs (w_sess w2)) i = Some (snap_of sm)).
  { rewrite Hsnap. unfold load. rewrite nth_error_map, Hn. reflexivity. }
  assert (Hsrc : source_of fl (w_store w2) (s_user (w_sess w2)) (snap_of sm) = Some (p_src (snap_of sm))).
  { destruct Hfl as [->|H]; [reflexivity|]. destruct fl; [reflexivity|]. apply file_source_present. exact H. }
  destruct (retr_returns_snapshot fl (w_store w2) (w_sess w2) a i (snap_of sm) Hf Hi Hm Hsrc) as [A B].
  eexists. split; [exact A|]. cbn. repeat split. exact B.
Qed.

(** * DELE hides exactly one message *)

Theorem dele_hides_one fl st s a i :
  s_state s = Trans -> inv s -> msg_index s a = Some i -> nth_error (s_retain s) i = Some true ->
  exists s',
    step fl st s (CCmd DELE [a]) = (s', mk true [num_of i], st) /\
    s_msgs s' = s_msgs s /\ s_state s' = Trans /\ s_count s' = (s_count s - 1)%Z /\
    forall n v, In (n, v) (listing s') <-> (In (n, v) (listing s) /\ n <> 1 + N.of_nat i).
Proof.
  intros Hs Hinv Hi Hr. eexists. split.
  - unfold step. rewrite Hs. cbn [trans_handler]. rewrite Hi, Hr. cbn [is_panic mk r_body]. reflexivity.
  - cbn [s_msgs s_state s_count]. split; [reflexivity|]. split; [exact Hs|]. split; [reflexivity|].
    intros n v. unfold listing. cbn [s_msgs s_retain]. rewrite !rows_of_in. split.
    + intros (k & m & E & R1 & R2 & R3). rewrite set_nth_nth in R1.
      destruct (Nat.eqb k i) eqn:Ek.
      * apply Nat.eqb_eq in Ek. subst k. rewrite Hr in R1. discriminate.
      * apply Nat.eqb_neq in Ek. split; [exists k, m; auto|lia].
    + intros [(k & m & E & R1 & R2 & R3) Hne]. exists k, m. rewrite set_nth_nth.
      destruct (Nat.eqb k i) eqn:Ek; [apply Nat.eqb_eq in Ek; subst k; lia|]. auto.
Qed.

(** * LIST n / UIDL n agree with the listings *)

Theorem list_single_agrees fl st s a :
  s_state s = Trans -> inv s ->
  let '(s', r, st') := step fl st s (CCmd LIST [a]) in
  s' = s /\ st' = st /\ r_body r = BNone /\
  (r_ok r = true ->
     exists n v, r_nums r = [Z.of_N n; Z.of_N v] /\ In (n, v) (listing s)) /\
  (r_ok r = false ->
     forall i, msg_index s a = Some i -> forall v, ~ In (1 + N.of_nat i, v) (listing s)).
Proof.
  intros Hs Hinv. unfold step. rewrite Hs. cbn [trans_handler]. unfold one_arg_reply.
  destruct (msg_index s a) as [i|] eqn:Ei.
  - destruct (nth_error (s_retain s) i) as [[|]|] eqn:Er.
    + destruct (nth_error (s_msgs s) i) as [m|] eqn:Em.
      * cbn [is_panic mk r_body r_ok r_nums]. repeat split; try discriminate.
        intros _. exists (1 + N.of_nat i), (p_size m). split.
        -- unfold num_of. f_equal. lia.
        -- unfold listing. apply rows_of_in. exists i, m. auto.
      * exfalso. apply msg_index_lt in Ei. apply nth_error_None in Em. lia.
    + cbn [is_panic r_minus mk r_body r_ok]. repeat split; try discriminate.
      intros _ i0 Hi0 v Hin. inversion Hi0; subst i0. unfold listing in Hin. apply rows_of_in in Hin.
      destruct Hin as (k & m & E & R1 & _). assert (k = i) by lia. subst k. congruence.
    + exfalso. apply msg_index_lt in Ei. apply nth_error_None in Er. unfold inv in Hinv. lia.
  - cbn [is_panic r_minus mk r_body r_ok]. repeat split; try discriminate.
Qed.

(** * What the code does that a reader might not expect (documented, as coded) *)

Definition out_bodies (w : world) : list (bool * body) := map (fun r => (r_ok r, r_body r)) (w_out w).

(** A message this session marked deleted is still served by RETR. *)
Example retr_after_dele_served :
  last (out_bodies (run Mem (init_world ex_store)
     [ln [65; 80; 79; 80; 32; 98; 32; 120]; ln [68; 69; 76; 69; 32; 49]; ln [82; 69; 84; 82; 32; 49]]))
     (false, BNone)
  = (true, BWire [65; 13; 10; 46; 13; 10]).
Proof. vm_compute. reflexivity. Qed.

(** The mailbox name is the USER/APOP argument verbatim: "B" is not "b" (finding K-C04-pop3-user
    belongs to C04). *)
Example user_verbatim :
  map r_nums (w_out (run Mem (init_world ex_store) [ln [65; 80; 79; 80; 32; 66; 32; 120]])) = [[]; [0%Z]] /\
  map r_nums (w_out (run Mem (init_world ex_store) [ln [65; 80; 79; 80; 32; 98; 32; 120]])) = [[]; [3%Z]].
Proof. vm_compute. split; reflexivity. Qed.

(** File store: RETR of a message somebody else removed answers "+OK" and then an
    unterminated "-ERR"; the mem store still serves the bytes. *)
Example file_retr_of_removed_message :
  last (out_bodies (run File (init_world ex_store)
     [ln [65; 80; 79; 80; 32; 98; 32; 120]; ERemove [98] [0]; ln [82; 69; 84; 82; 32; 49]])) (false, BNone)
  = (true, BFail) /\
  last (out_bodies (run Mem (init_world ex_store)
     [ln [65; 80; 79; 80; 32; 98; 32; 120]; ERemove [98] [0]; ln [82; 69; 84; 82; 32; 49]])) (false, BNone)
  = (true, BWire [65; 13; 10; 46; 13; 10]).
Proof. vm_compute. split; reflexivity. Qed.

(** * What others do to the store is invisible to the session's numbers, sizes and ids *)

Definition is_external (e : event) : bool :=
  match e with EDeliver _ _ | ERemove _ _ | EPurge _ => true | _ => false end.

Theorem store_changes_invisible fl evs : forall w,
  (forall e, In e evs -> is_external e = true) ->
  w_sess (run fl w evs) = w_sess w /\ w_out (run fl w evs) = w_out w /\ w_wfail (run fl w evs) = w_wfail w.
Proof.
  induction evs as [|e evs IH]; intros w H; [auto|].
  rewrite run_cons.
  destruct (IH (wstep fl w e) (fun e' H' => H e' (or_intror H'))) as (A & B & C).
  rewrite A, B, C. pose proof (H e (or_introl eq_refl)) as He.
  destruct e; try discriminate He; cbn; auto.
Qed.

(** Every reply except the bodies of RETR/TOP (file store) and the effect of QUIT is a
    function of the session state alone: the store the command runs against is irrelevant. *)
Theorem replies_ignore_store fl st1 st2 s c args :
  c <> RETR -> c <> TOP -> c <> QUIT ->
  fst (trans_handler fl st1 s c args) = fst (trans_handler fl st2 s c args).
Proof.
  intros H1 H2 H3. unfold trans_handler.
  destruct c; try congruence; repeat break_match; reflexivity.
Qed.

(** * A client that stops reading *)

(** Once writes fail, the next command is still executed (its reply is lost) and the
    session then ends: sendError is only looked at between commands. *)
Theorem write_break_ends_session fl w c :
  is_open w = true -> w_wfail w = true ->
  s_state (w_sess (do_cmd fl w c)) = Closed /\ w_out (do_cmd fl w c) = w_out w.
Proof.
  intros Ho Hw. unfold do_cmd. rewrite Ho, Hw.
  destruct (step fl (w_store w) (w_sess w) c) as [[s' r] st']. split; reflexivity.
Qed.

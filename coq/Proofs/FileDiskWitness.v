(** The open finding K-C11-evict-then-append as a theorem about the model, and non-vacuity examples. *)
From IV Require Import Base.Bytes Base.BytesFacts Model.FileDisk Model.FileDiskCodec
  Proofs.FileDiskMap Proofs.FileDiskInv Proofs.FileDiskSteps Proofs.FileDiskOps Proofs.FileDiskCrash Proofs.FileDiskCodec.
From Coq Require Import List NArith Bool Lia.
Import ListNotations.

Definition w_hash (s : str) : str := s.
Definition w_mb : str := [97; 98; 99; 100; 101; 102; 103].
Definition w_add1 : op := FileDisk.Add w_mb [49] [104; 105] [[105; 49]].
Definition w_add2 : op := FileDisk.Add w_mb [50] [104; 111] [[105; 50]].
Definition w_d0 : disk := exec enc_index dec_index w_hash 1 w_add1 [].

(** cap 1, one message stored, second delivery: the state after the eviction's index commit (1 step
    done) is neither the old mailbox nor the new one. *)
Theorem crash_atomic_capped_refuted :
  exists (enc : index -> str) (dec : str -> option index) (hash : str -> str) (cap : nat) (d : disk) (o : op) (d' : disk),
    (forall i, dec (enc i) = Some i) /\ reach enc dec hash cap d /\
    crash_reach (steps enc dec hash cap o d) d d' /\
    ~ ((forall h, view dec d' h = view dec d h) \/ (forall h, view dec d' h = view dec (exec enc dec hash cap o d) h)).
Proof.
  exists enc_index, dec_index, w_hash, 1%nat, w_d0, w_add2.
  destruct (crash_disk 1 None (steps enc_index dec_index w_hash 1 w_add2 w_d0) w_d0) as [d'|] eqn:E;
    [|vm_compute in E; discriminate].
  exists d'. split; [exact dec_enc_index|]. split.
  - apply (exec_reach enc_index dec_index dec_enc_index w_hash 1 [] w_add1). constructor.
  - split; [eapply crash_disk_reach; eauto|].
    vm_compute in E. inversion E; subst. clear E.
    intros [H|H]; specialize (H w_mb); vm_compute in H; discriminate.
Qed.

(** non-vacuity: the hypotheses of the C10/C11 theorems are satisfiable — a codec with the round trip
    exists, and a reachable disk with a non-empty mailbox and a crash state exist *)
Example reach_nonempty : reach enc_index dec_index w_hash 1 w_d0 /\ view dec_index w_d0 w_mb <> Some [].
Proof.
  split.
  - apply (exec_reach enc_index dec_index dec_enc_index w_hash 1 [] w_add1). constructor.
  - vm_compute. discriminate.
Qed.

(** * C10, open finding K-C10-id-reissued-after-restart *)
From IV Require Import Proofs.FileDiskDurable.

(** The FULL statement of "removed messages stay gone" as seen by a holder of the id: after a
    successful removal the id never names a message of that mailbox again, whatever follows.
    It does not hold: the id generator (wall-clock second + a counter that restarts with the process)
    may issue the id of a message that is gone once more — [removed_stay_gone_refuted]. What does hold is
    [FileDiskDurable.removed_stay_gone] (Props/C10/removed_stay_gone_partial), under the guard
    [never_reissued]. *)
Definition removed_stay_gone_stmt : Prop :=
  forall (enc : index -> str) (dec : str -> option index), (forall i, dec (enc i) = Some i) ->
  forall (hash : str -> str) (cap : nat) (d : disk) (mb id : str) (its : list item),
    reach enc dec hash cap d ->
    ~ In id (view_ids dec (run_items enc dec hash cap (exec enc dec hash cap (Remove mb id) d) its) (hash mb)).

(** the delivery after the restart: the generator's first candidate is the id of the removed message *)
Definition w_add_again : op := FileDisk.Add w_mb [50] [104; 111] [[105; 49]].

Theorem removed_stay_gone_refuted :
  exists (enc : index -> str) (dec : str -> option index) (hash : str -> str) (cap : nat) (d : disk)
         (mb id : str) (its : list item),
    (forall i, dec (enc i) = Some i) /\ reach enc dec hash cap d /\
    In id (view_ids dec d (hash mb)) /\
    result_of dec hash cap (Remove mb id) d = ROk /\
    ~ In id (view_ids dec (exec enc dec hash cap (Remove mb id) d) (hash mb)) /\
    let d2 := run_items enc dec hash cap (exec enc dec hash cap (Remove mb id) d) its in
    In id (view_ids dec d2 (hash mb)) /\
    (* and it names a different message: other metadata, other content *)
    view dec d2 (hash mb) <> view dec d (hash mb).
Proof.
  exists enc_index, dec_index, w_hash, 1%nat, w_d0, w_mb, [105; 49], [IReopen; IOp w_add_again].
  split; [exact dec_enc_index|]. split.
  - apply (exec_reach enc_index dec_index dec_enc_index w_hash 1 [] w_add1). constructor.
  - split; [vm_compute; auto|]. split; [vm_compute; reflexivity|]. split; [vm_compute; tauto|].
    split; [vm_compute; auto | vm_compute; discriminate].
Qed.

Theorem removed_stay_gone_stmt_false : ~ removed_stay_gone_stmt.
Proof.
  intros H.
  assert (Hr : reach enc_index dec_index w_hash 1 w_d0).
  { apply (exec_reach enc_index dec_index dec_enc_index w_hash 1 [] w_add1). constructor. }
  apply (H enc_index dec_index dec_enc_index w_hash 1%nat w_d0 w_mb [105; 49] [IReopen; IOp w_add_again] Hr).
  vm_compute. auto.
Qed.

(** non-vacuity of the guards: an operation without eviction that has a crash state equal to neither...
    no — equal to the NEW state before it returns, and one equal to the OLD state (so both disjuncts of
    crash_atomic_partial occur); and [never_generated] / [never_reissued] hold for a real continuation. *)
Example atomic_partial_both_sides :
  evictions dec_index w_hash 0 w_add2 w_d0 = 0%nat /\
  (exists d', crash_disk 3 None (steps enc_index dec_index w_hash 0 w_add2 w_d0) w_d0 = Some d' /\
              view dec_index d' w_mb = view dec_index w_d0 w_mb) /\
  (exists d', crash_disk 9 None (steps enc_index dec_index w_hash 0 w_add2 w_d0) w_d0 = Some d' /\
              view dec_index d' w_mb = view dec_index (exec enc_index dec_index w_hash 0 w_add2 w_d0) w_mb /\
              view dec_index d' w_mb <> view dec_index w_d0 w_mb).
Proof.
  split; [vm_compute; reflexivity|]. split.
  - eexists. split; [vm_compute; reflexivity|]. vm_compute. reflexivity.
  - eexists. split; [vm_compute; reflexivity|]. split; [vm_compute; reflexivity | vm_compute; discriminate].
Qed.

Example never_generated_satisfiable :
  never_generated [105; 49] [IReopen; IOp w_add2; IOp (Seen w_mb [105; 50])].
Proof.
  intros o [H|[H|[H|[]]]]; try discriminate; inversion H; subst; simpl; auto.
  intros [F|[]]. discriminate.
Qed.

(** * C11: the FULL atomicity statement, kept visible — "the interrupted operation has either happened
    completely or not at all from a reader's point of view", for every operation. It is FALSE for a delivery
    that evicts for the mailbox cap ([crash_atomic_capped_refuted], open finding K-C11-evict-then-append);
    proved instead: crash_atomic_partial (no eviction) and crash_atomic_capped (what does hold). *)
Definition crash_atomic_stmt : Prop :=
  forall (enc : index -> str) (dec : str -> option index), (forall i, dec (enc i) = Some i) ->
  forall (hash : str -> str) (cap : nat) (d : disk) (o : op) (d' : disk),
    reach enc dec hash cap d -> crash_reach (steps enc dec hash cap o d) d d' ->
    (forall h, view dec d' h = view dec d h) \/ (forall h, view dec d' h = view dec (exec enc dec hash cap o d) h).

Theorem crash_atomic_stmt_false : ~ crash_atomic_stmt.
Proof.
  intros H. destruct crash_atomic_capped_refuted as [enc [dec [hash [cap [d [o [d' [Hde [Hr [Hc Hn]]]]]]]]]].
  apply Hn. eapply H; eauto.
Qed.

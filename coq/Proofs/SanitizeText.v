(** C18 — TextToHTML: for every text and every list of URL match intervals whose matches are
    non-empty and free of CR/LF, the output with every "<...>" removed is the escaped text
    with normalised line ends, and every "<...>" is one of the three tags the server
    generates; the generated href never holds a double quote. *)
From IV Require Import Base.Bytes Gen.SanitizeConsts Model.Sanitize Proofs.SanitizeEscape.

(* ----------------------------------------------------------------- list facts *)

Lemma In_firstn : forall (A : Type) n (l : list A) x, In x (firstn n l) -> In x l.
Proof. induction n; intros [|a l] x H; cbn [firstn] in H; try contradiction. destruct H; [left|right]; auto. Qed.

Lemma In_skipn : forall (A : Type) n (l : list A) x, In x (skipn n l) -> In x l.
Proof. induction n; intros [|a l] x H; cbn [skipn] in H; auto. right; auto. Qed.

Lemma two_step : forall (P : str -> Prop),
  P [] -> (forall c, P [c]) -> (forall c a s, P s -> P (a :: s) -> P (c :: a :: s)) -> forall s, P s.
Proof.
  intros P H0 H1 H2 s. enough (P s /\ forall c, P (c :: s)) by tauto.
  induction s as [|a s [IH1 IH2]]; split; auto.
Qed.

Definition not_lf_head (y : str) : Prop := match y with c :: _ => c <> 10 | [] => True end.

(* ------------------------------------------------- the line replacer, in closed form *)

Definition br_tag : str := [60; 98; 114; 47; 62].
Definition brmap (c : N) : str := if c =? 10 then br_tag ++ [10] else [c].

Lemma line_first_crlf : forall s, first_match line_pairs ([13; 10] ++ s) = Some (br_tag ++ [10], length [13; 10]).
Proof. reflexivity. Qed.
Lemma line_first_cr : forall a s, (10 =? a) = false -> first_match line_pairs ([13] ++ a :: s) = Some (br_tag ++ [10], length [13]).
Proof. intros a s H. unfold line_pairs. cbn [first_match is_nil strip_prefix app]. change (13 =? 13) with true. cbv iota. rewrite H. reflexivity. Qed.
Lemma line_first_cr_end : first_match line_pairs ([13] ++ []) = Some (br_tag ++ [10], length [13]).
Proof. reflexivity. Qed.
Lemma line_first_lf : forall s, first_match line_pairs ([10] ++ s) = Some (br_tag ++ [10], length [10]).
Proof. reflexivity. Qed.
Lemma line_first_none : forall c s, (13 =? c) = false -> (10 =? c) = false -> first_match line_pairs (c :: s) = None.
Proof. intros c s H1 H2. unfold line_pairs. cbn [first_match is_nil strip_prefix]. rewrite H1, H2. reflexivity. Qed.

Lemma normalise_cons_other : forall c s, (c =? 13) = false -> normalise_nl (c :: s) = c :: normalise_nl s.
Proof. intros c s H. cbn [normalise_nl]. rewrite H. reflexivity. Qed.

Lemma line_replace_closed : forall s, replace_pairs line_pairs s = flat_map brmap (normalise_nl s).
Proof.
  apply two_step.
  - reflexivity.
  - intro c. destruct (13 =? c) eqn:E13.
    + apply N.eqb_eq in E13. subst c. reflexivity.
    + destruct (10 =? c) eqn:E10.
      * apply N.eqb_eq in E10. subst c. reflexivity.
      * assert (E13' : (c =? 13) = false) by (rewrite N.eqb_sym; exact E13).
        assert (E10' : (c =? 10) = false) by (rewrite N.eqb_sym; exact E10).
        rewrite replace_miss by (apply line_first_none; auto). rewrite replace_nil.
        rewrite normalise_cons_other by exact E13'.
        cbn [normalise_nl flat_map]. unfold brmap. rewrite E10'. reflexivity.
  - intros c a s IH1 IH2. destruct (13 =? c) eqn:E13.
    + apply N.eqb_eq in E13. subst c. destruct (10 =? a) eqn:E10.
      * apply N.eqb_eq in E10. subst a.
        change (13 :: 10 :: s) with ([13; 10] ++ s) at 1.
        rewrite (replace_hit _ [13; 10] (br_tag ++ [10])); [|discriminate|apply line_first_crlf].
        rewrite IH1. reflexivity.
      * assert (E10' : (a =? 10) = false) by (rewrite N.eqb_sym; exact E10).
        change (13 :: a :: s) with ([13] ++ a :: s) at 1.
        rewrite (replace_hit _ [13] (br_tag ++ [10])); [|discriminate|apply line_first_cr; exact E10].
        rewrite IH2. cbn [normalise_nl]. change (13 =? 13) with true. cbv iota.
        rewrite E10'. reflexivity.
    + assert (E13' : (c =? 13) = false) by (rewrite N.eqb_sym; exact E13).
      destruct (10 =? c) eqn:E10.
      * apply N.eqb_eq in E10. subst c.
        change (10 :: a :: s) with ([10] ++ a :: s) at 1.
        rewrite (replace_hit _ [10] (br_tag ++ [10])); [|discriminate|apply line_first_lf].
        rewrite IH2. reflexivity.
      * assert (E10' : (c =? 10) = false) by (rewrite N.eqb_sym; exact E10).
        rewrite replace_miss by (apply line_first_none; auto). rewrite IH2.
        rewrite (normalise_cons_other c) by exact E13'.
        cbn [flat_map]. unfold brmap at 2. rewrite E10'. reflexivity.
Qed.

(* --------------------------------------------------- normalise_nl and concatenation *)

Lemma normalise_app_head : forall y, not_lf_head y -> forall x,
  normalise_nl (x ++ y) = normalise_nl x ++ normalise_nl y.
Proof.
  intros y Hy. apply two_step.
  - reflexivity.
  - intro c. cbn [app]. destruct (c =? 13) eqn:E.
    + apply N.eqb_eq in E. subst c. destruct y as [|d y]; [reflexivity|].
      cbn [not_lf_head] in Hy. cbn [normalise_nl app]. change (13 =? 13) with true. cbv iota.
      destruct (d =? 10) eqn:E10; [apply N.eqb_eq in E10; contradiction|].
      reflexivity.
    + rewrite (normalise_cons_other c y), (normalise_cons_other c []) by exact E. reflexivity.
  - intros c a s IH1 IH2. cbn [app] in *. destruct (c =? 13) eqn:E.
    + apply N.eqb_eq in E. subst c. cbn [normalise_nl]. change (13 =? 13) with true. cbv iota.
      destruct (a =? 10).
      * cbn [app]. f_equal. exact IH1.
      * cbn [app]. f_equal. exact IH2.
    + rewrite (normalise_cons_other c (a :: s ++ y)), (normalise_cons_other c (a :: s)) by exact E.
      cbn [app]. f_equal. exact IH2.
Qed.

Lemma normalise_app_nocr : forall x y, ~ In 13 x -> normalise_nl (x ++ y) = x ++ normalise_nl y.
Proof.
  induction x as [|c x IH]; intros y H; [reflexivity|].
  cbn [app]. rewrite normalise_cons_other.
  - f_equal. apply IH. intro; apply H; right; assumption.
  - apply N.eqb_neq. intro; subst. apply H. left; reflexivity.
Qed.

Lemma normalise_In : forall s c, In c (normalise_nl s) -> In c s \/ c = 10.
Proof.
  apply (two_step (fun s => forall c, In c (normalise_nl s) -> In c s \/ c = 10)).
  - intros c [].
  - intros c x H. destruct (c =? 13) eqn:E.
    + apply N.eqb_eq in E. subst c. cbn in H. destruct H as [<-|[]]. right; reflexivity.
    + rewrite normalise_cons_other in H by exact E. left. exact H.
  - intros c a s IH1 IH2 x H. destruct (c =? 13) eqn:E.
    + apply N.eqb_eq in E. subst c. cbn [normalise_nl] in H. change (13 =? 13) with true in H. cbv iota in H.
      destruct (a =? 10); destruct H as [<-|H]; auto.
      * apply IH1 in H. destruct H; auto. left. right. right. assumption.
      * apply IH2 in H. destruct H; auto. left. right. assumption.
    + rewrite normalise_cons_other in H by exact E. destruct H as [<-|H]; [left; left; reflexivity|].
      apply IH2 in H. destruct H; auto. left. right. assumption.
Qed.

Lemma brmap_id : forall z, ~ In 10 z -> flat_map brmap z = z.
Proof.
  induction z as [|c z IH]; intro H; [reflexivity|]. cbn [flat_map]. unfold brmap at 1.
  destruct (c =? 10) eqn:E; [apply N.eqb_eq in E; subst; exfalso; apply H; left; reflexivity|].
  cbn [app]. f_equal. apply IH. intro; apply H; right; assumption.
Qed.

(* ------------------------------------------------------------ the segments of wrap *)

Definition seg_raw (s : seg) : str := match s with SText x => x | SAnchor m => m end.
Definition render_with (f : str -> str) (s : seg) : str := match s with SText x => x | SAnchor m => f m end.
Definition norm_with (f : str -> str) (s : seg) : str := match s with SText x => normalise_nl x | SAnchor m => f m end.

Lemma wrap_segs_raw : forall ivs pos e, flat_map seg_raw (wrap_segs pos e ivs) = e.
Proof.
  induction ivs as [|[a b] r IH]; intros pos e; cbn [wrap_segs].
  - cbn. apply app_nil_r.
  - destruct ((pos <=? a) && (a <=? b)); [|apply IH].
    cbn [flat_map seg_raw]. rewrite IH. rewrite firstn_skipn. apply firstn_skipn.
Qed.

Lemma wrap_segs_chars : forall ivs pos e s c, In s (wrap_segs pos e ivs) -> In c (seg_raw s) -> In c e.
Proof.
  induction ivs as [|[a b] r IH]; intros pos e s c Hs Hc; cbn [wrap_segs] in Hs.
  - destruct Hs as [<-|[]]. exact Hc.
  - destruct ((pos <=? a) && (a <=? b)); [|eapply IH; eauto].
    destruct Hs as [<-|[<-|Hs]]; cbn [seg_raw] in Hc.
    + eapply In_firstn; eauto.
    + eapply In_skipn. eapply In_firstn; eauto.
    + eapply In_skipn. eapply In_skipn. eapply IH; eauto.
Qed.

(** normalisation commutes with the segment structure when every anchor rendering [f m]
    is non-empty, does not start with LF and holds no CR *)
Lemma normalise_segs : forall (f : str -> str),
  (forall m, plain_match m = true -> f m <> [] /\ not_lf_head (f m) /\ ~ In 13 (f m)) ->
  forall ivs pos e, forallb seg_plain (wrap_segs pos e ivs) = true ->
  normalise_nl (flat_map (render_with f) (wrap_segs pos e ivs)) = flat_map (norm_with f) (wrap_segs pos e ivs).
Proof.
  intros f Hf. induction ivs as [|[a b] r IH]; intros pos e Hp; cbn [wrap_segs] in *.
  - cbn [flat_map render_with norm_with]. rewrite !app_nil_r. reflexivity.
  - destruct ((pos <=? a) && (a <=? b)); [|apply IH; exact Hp].
    cbn [forallb seg_plain] in Hp. apply andb_prop in Hp as [_ Hp]. apply andb_prop in Hp as [Hm Hp].
    cbn [flat_map render_with norm_with].
    destruct (Hf _ Hm) as [Hne [Hh Hcr]].
    rewrite normalise_app_head.
    + f_equal. rewrite normalise_app_nocr by exact Hcr. f_equal. apply IH. exact Hp.
    + destruct (f (firstn (N.to_nat (b - a)) (skipn (N.to_nat (a - pos)) e))) as [|d fm]; [congruence|].
      exact Hh.
Qed.

(* --------------------------------------------------------------- replacer's bytes *)

Lemma first_match_new : forall pairs s new n, first_match pairs s = Some (new, n) -> In new (map snd pairs).
Proof.
  induction pairs as [|[old nw] ps IH]; intros s new n H; cbn [first_match] in H; [discriminate|].
  destruct (is_nil old); [right; eauto|].
  destruct (strip_prefix old s); [inversion H; left; reflexivity|right; eauto].
Qed.

Lemma replace_aux_chars : forall pairs s k c, In c (replace_aux pairs k s) ->
  In c s \/ exists new, In new (map snd pairs) /\ In c new.
Proof.
  induction s as [|x s IH]; intros k c H; cbn [replace_aux] in H; [contradiction|].
  destruct k as [|k].
  - destruct (first_match pairs (x :: s)) as [[new n]|] eqn:F.
    + apply in_app_or in H as [H|H].
      * right. exists new. split; [eapply first_match_new; eauto|exact H].
      * apply IH in H as [H|H]; [left; right; exact H|right; exact H].
    + destruct H as [<-|H]; [left; left; reflexivity|].
      apply IH in H as [H|H]; [left; right; exact H|right; exact H].
  - apply IH in H as [H|H]; [left; right; exact H|right; exact H].
Qed.

(* ------------------------------------------------------------------ the anchor *)

Lemma wrap_pre_shape : wrap_pre = 60 :: anchor_open_pre. Proof. reflexivity. Qed.
Lemma wrap_mid_shape : wrap_mid = anchor_open_post ++ [62]. Proof. reflexivity. Qed.
Lemma wrap_post_shape : wrap_post = 60 :: tag_close_a ++ [62]. Proof. reflexivity. Qed.

Definition href_of (m : str) : str := replace_pairs [(wrap_amp_old, wrap_amp_new)] m.

Lemma anchor_shape : forall m,
  anchor m = 60 :: (anchor_open_pre ++ href_of m ++ anchor_open_post) ++ 62 :: m ++ 60 :: tag_close_a ++ 62 :: [].
Proof.
  intro m. unfold anchor. change wrap_first_raw with false. change wrap_second_raw with true. cbv iota.
  fold (href_of m). rewrite wrap_pre_shape, wrap_mid_shape, wrap_post_shape.
  cbn [app]. f_equal. rewrite <- !app_assoc. reflexivity.
Qed.

Lemma href_chars : forall m c, In c (href_of m) -> In c m \/ c = 38.
Proof.
  intros m c H. unfold href_of, replace_pairs in H. apply replace_aux_chars in H as [H|[new [Hn Hc]]]; [left; exact H|].
  right. cbn in Hn. destruct Hn as [<-|[]]. cbn in Hc. destruct Hc as [<-|[]]. reflexivity.
Qed.

Definition clean (m : str) : Prop := forall c, In c m -> c <> 60 /\ c <> 62 /\ c <> 34 /\ c <> 39.

Lemma href_clean : forall m, clean m -> clean (href_of m).
Proof. intros m H c I. apply href_chars in I as [I| ->]; [auto|repeat split; discriminate]. Qed.

Lemma In_consts : forall c, In c (anchor_open_pre ++ anchor_open_post ++ tag_close_a) -> c <> 60 /\ c <> 62 /\ c <> 13 /\ c <> 10.
Proof.
  intros c H. assert (forallb (fun c => negb (c =? 60) && negb (c =? 62) && negb (c =? 13) && negb (c =? 10))
                        (anchor_open_pre ++ anchor_open_post ++ tag_close_a) = true) as F by (vm_compute; reflexivity).
  rewrite forallb_forall in F. specialize (F _ H).
  repeat (apply andb_prop in F as [F ?]).
  repeat split; intro; subst; discriminate.
Qed.

Lemma anchor_plain : forall m, plain_match m = true ->
  anchor m <> [] /\ not_lf_head (anchor m) /\ ~ In 13 (anchor m) /\ ~ In 10 (anchor m).
Proof.
  intros m Hm. rewrite anchor_shape. split; [discriminate|]. split; [cbn; discriminate|].
  unfold plain_match in Hm. apply andb_prop in Hm as [Hm H10]. apply andb_prop in Hm as [_ H13].
  apply negb_true_iff in H10, H13.
  assert (M13 : ~ In 13 m) by (intro I; apply mem_b_In in I; congruence).
  assert (M10 : ~ In 10 m) by (intro I; apply mem_b_In in I; congruence).
  assert (K : forall c, (c = 13 \/ c = 10) -> ~ In c m) by (intros c [->| ->]; assumption).
  assert (G : forall c, (c = 13 \/ c = 10) ->
     ~ In c (60 :: (anchor_open_pre ++ href_of m ++ anchor_open_post) ++ 62 :: m ++ 60 :: tag_close_a ++ [62])).
  { intros c Hc I.
    assert (C : forall x, In x (anchor_open_pre ++ anchor_open_post ++ tag_close_a) -> x <> c).
    { intros x Hx. apply In_consts in Hx. destruct Hx as [_ [_ [? ?]]]. destruct Hc; subst; auto. }
    destruct I as [<-|I]; [destruct Hc; discriminate|].
    apply in_app_or in I as [I|I].
    - apply in_app_or in I as [I|I]; [apply (C c); [apply in_or_app; left; exact I|reflexivity]|].
      apply in_app_or in I as [I|I].
      + apply href_chars in I as [I|I]; [exact (K c Hc I)|destruct Hc; subst; discriminate].
      + apply (C c); [apply in_or_app; right; apply in_or_app; left; exact I|reflexivity].
    - destruct I as [<-|I]; [destruct Hc; discriminate|].
      apply in_app_or in I as [I|I]; [exact (K c Hc I)|].
      destruct I as [<-|I]; [destruct Hc; discriminate|].
      apply in_app_or in I as [I|I].
      + apply (C c); [apply in_or_app; right; apply in_or_app; right; exact I|reflexivity].
      + destruct I as [<-|[]]. destruct Hc; discriminate. }
  split; apply G; auto.
Qed.

(* ---------------------------------------------------------- strip_tags / tags_of *)

Lemma strip_out : forall z R, ~ In 60 z -> strip_tags false (z ++ R) = z ++ strip_tags false R.
Proof.
  induction z as [|c z IH]; intros R H; [reflexivity|]. cbn [app strip_tags].
  destruct (c =? 60) eqn:E; [apply N.eqb_eq in E; subst; exfalso; apply H; left; reflexivity|].
  f_equal. apply IH. intro; apply H; right; assumption.
Qed.

Lemma strip_in : forall z R, ~ In 62 z -> strip_tags true (z ++ 62 :: R) = strip_tags false R.
Proof.
  induction z as [|c z IH]; intros R H; cbn [app strip_tags].
  - reflexivity.
  - destruct (c =? 62) eqn:E; [apply N.eqb_eq in E; subst; exfalso; apply H; left; reflexivity|].
    cbn [negb]. apply IH. intro; apply H; right; assumption.
Qed.

Lemma tags_out : forall z R, ~ In 60 z -> tags_of None (z ++ R) = tags_of None R.
Proof.
  induction z as [|c z IH]; intros R H; [reflexivity|]. cbn [app tags_of].
  destruct (c =? 60) eqn:E; [apply N.eqb_eq in E; subst; exfalso; apply H; left; reflexivity|].
  apply IH. intro; apply H; right; assumption.
Qed.

Lemma tags_in : forall z acc R, ~ In 62 z ->
  tags_of (Some acc) (z ++ 62 :: R) = (true, rev acc ++ z) :: tags_of None R.
Proof.
  induction z as [|c z IH]; intros acc R H; cbn [app tags_of].
  - change (62 =? 62) with true. cbv iota. rewrite app_nil_r. reflexivity.
  - destruct (c =? 62) eqn:E; [apply N.eqb_eq in E; subst; exfalso; apply H; left; reflexivity|].
    rewrite IH by (intro; apply H; right; assumption). cbn [rev]. rewrite <- app_assoc. reflexivity.
Qed.

(** text stretch: z holds neither '<' nor '>' *)
Lemma strip_text : forall z R, (forall c, In c z -> c <> 60 /\ c <> 62) ->
  strip_tags false (flat_map brmap z ++ R) = z ++ strip_tags false R.
Proof.
  induction z as [|c z IH]; intros R H; [reflexivity|].
  cbn [flat_map]. rewrite <- app_assoc. unfold brmap at 1.
  assert (Hz : forall c, In c z -> c <> 60 /\ c <> 62) by (intros; apply H; right; assumption).
  destruct (c =? 10) eqn:E.
  - apply N.eqb_eq in E. subst c. cbn. f_equal. apply IH. exact Hz.
  - cbn [app strip_tags]. destruct (c =? 60) eqn:E60.
    + apply N.eqb_eq in E60. destruct (H c (or_introl eq_refl)) as [? _]. contradiction.
    + f_equal. apply IH. exact Hz.
Qed.

Lemma tags_text : forall z R, (forall c, In c z -> c <> 60 /\ c <> 62) ->
  forallb gen_tag_ok (tags_of None (flat_map brmap z ++ R)) = forallb gen_tag_ok (tags_of None R).
Proof.
  induction z as [|c z IH]; intros R H; [reflexivity|].
  cbn [flat_map]. rewrite <- app_assoc. unfold brmap at 1.
  assert (Hz : forall c, In c z -> c <> 60 /\ c <> 62) by (intros; apply H; right; assumption).
  destruct (c =? 10) eqn:E.
  - apply N.eqb_eq in E. subst c.
    change ((br_tag ++ [10]) ++ flat_map brmap z ++ R) with (60 :: [98; 114; 47] ++ 62 :: 10 :: flat_map brmap z ++ R).
    cbn [tags_of]. change (60 =? 60) with true. cbv iota.
    rewrite tags_in by (cbn; intros [?|[?|[?|[]]]]; discriminate).
    cbn [forallb]. change (gen_tag_ok (true, rev [] ++ [98; 114; 47])) with true. cbn [andb].
    cbn [tags_of]. change (10 =? 60) with false. cbv iota. apply IH. exact Hz.
  - cbn [app tags_of]. destruct (c =? 60) eqn:E60.
    + apply N.eqb_eq in E60. destruct (H c (or_introl eq_refl)) as [? _]. contradiction.
    + apply IH. exact Hz.
Qed.

Lemma clean_no : forall m, clean m -> ~ In 60 m /\ ~ In 62 m /\ ~ In 34 m.
Proof. intros m H. repeat split; intro I; destruct (H _ I) as [? [? [? ?]]]; congruence. Qed.

Lemma open_tag_no62 : forall m, clean m -> ~ In 62 (anchor_open_pre ++ href_of m ++ anchor_open_post).
Proof.
  intros m Hm I. apply in_app_or in I as [I|I].
  - assert (In 62 (anchor_open_pre ++ anchor_open_post ++ tag_close_a)) as J by (apply in_or_app; left; exact I).
    apply In_consts in J. destruct J as [_ [? _]]. congruence.
  - apply in_app_or in I as [I|I].
    + apply (href_clean m Hm) in I. destruct I as [_ [? _]]. congruence.
    + assert (In 62 (anchor_open_pre ++ anchor_open_post ++ tag_close_a)) as J
        by (apply in_or_app; right; apply in_or_app; left; exact I).
      apply In_consts in J. destruct J as [_ [? _]]. congruence.
Qed.

Lemma strip_anchor : forall m R, clean m -> strip_tags false (anchor m ++ R) = m ++ strip_tags false R.
Proof.
  intros m R Hm. rewrite anchor_shape. destruct (clean_no m Hm) as [M60 [M62 _]].
  cbn [app strip_tags]. change (60 =? 60) with true. cbv iota.
  rewrite <- app_assoc. cbn [app]. rewrite strip_in by (apply open_tag_no62; exact Hm).
  rewrite <- app_assoc. rewrite strip_out by exact M60.
  f_equal.
Qed.

Lemma strip_prefix_app : forall p s, strip_prefix p (p ++ s) = Some s.
Proof. induction p as [|x p IH]; intro s; cbn [app strip_prefix]; [reflexivity|]. rewrite N.eqb_refl. apply IH. Qed.

Lemma span_not_app : forall c a b, ~ In c a -> span_not c (a ++ c :: b) = (a, c :: b).
Proof.
  induction a as [|x a IH]; intros b H; cbn [app span_not].
  - rewrite N.eqb_refl. reflexivity.
  - destruct (x =? c) eqn:E; [apply N.eqb_eq in E; subst; exfalso; apply H; left; reflexivity|].
    rewrite IH by (intro; apply H; right; assumption). reflexivity.
Qed.

Lemma str_eqb_refl : forall s, str_eqb s s = true.
Proof. induction s; cbn [str_eqb]; [reflexivity|]. rewrite N.eqb_refl. assumption. Qed.

Lemma anchor_open_post_shape : anchor_open_post = 34 :: tl anchor_open_post. Proof. reflexivity. Qed.

Lemma open_tag_ok : forall m, clean m ->
  gen_tag_ok (true, anchor_open_pre ++ href_of m ++ anchor_open_post) = true.
Proof.
  intros m Hm. unfold gen_tag_ok. cbn [fst snd andb].
  assert (anchor_open_ok (anchor_open_pre ++ href_of m ++ anchor_open_post) = true) as ->; [|apply orb_true_r].
  unfold anchor_open_ok. rewrite strip_prefix_app.
  rewrite anchor_open_post_shape at 1.
  rewrite span_not_app by (destruct (clean_no _ (href_clean m Hm)) as [_ [_ ?]]; assumption).
  cbn [snd]. rewrite <- anchor_open_post_shape. apply str_eqb_refl.
Qed.

Lemma tags_anchor : forall m R, clean m ->
  forallb gen_tag_ok (tags_of None (anchor m ++ R)) = forallb gen_tag_ok (tags_of None R).
Proof.
  intros m R Hm. rewrite anchor_shape. destruct (clean_no m Hm) as [M60 [M62 _]].
  cbn [app tags_of]. change (60 =? 60) with true. cbv iota.
  rewrite <- app_assoc. cbn [app]. rewrite tags_in by (apply open_tag_no62; exact Hm).
  cbn [forallb rev app]. rewrite (open_tag_ok m Hm). cbn [andb].
  rewrite <- app_assoc. rewrite tags_out by exact M60.
  reflexivity.
Qed.

(* ----------------------------------------------------------------- putting together *)

Definition final_seg (s : seg) : str :=
  match s with SText x => flat_map brmap (normalise_nl x) | SAnchor m => anchor m end.

Definition segs_clean (segs : list seg) : Prop := forall s, In s segs -> clean (seg_raw s).

Lemma normalise_clean : forall x, clean x -> forall c, In c (normalise_nl x) -> c <> 60 /\ c <> 62.
Proof.
  intros x H c I. apply normalise_In in I as [I| ->]; [|split; discriminate].
  destruct (H _ I) as [? [? _]]. split; assumption.
Qed.

Lemma final_strip : forall segs, segs_clean segs ->
  strip_tags false (flat_map final_seg segs) = flat_map (norm_with (fun m => m)) segs.
Proof.
  induction segs as [|s segs IH]; intro H; [reflexivity|].
  assert (Hs : segs_clean segs) by (intros x I; apply H; right; assumption).
  pose proof (H s (or_introl eq_refl)) as Hc.
  cbn [flat_map]. destruct s as [x|m]; cbn [final_seg norm_with seg_raw] in *.
  - rewrite strip_text by (apply normalise_clean; exact Hc). f_equal. apply IH. exact Hs.
  - rewrite strip_anchor by exact Hc. f_equal. apply IH. exact Hs.
Qed.

Lemma final_tags : forall segs, segs_clean segs ->
  forallb gen_tag_ok (tags_of None (flat_map final_seg segs)) = true.
Proof.
  induction segs as [|s segs IH]; intro H; [reflexivity|].
  assert (Hs : segs_clean segs) by (intros x I; apply H; right; assumption).
  pose proof (H s (or_introl eq_refl)) as Hc.
  cbn [flat_map]. destruct s as [x|m]; cbn [final_seg seg_raw] in *.
  - rewrite tags_text by (apply normalise_clean; exact Hc). apply IH. exact Hs.
  - rewrite tags_anchor by exact Hc. apply IH. exact Hs.
Qed.

Lemma flat_map_brmap_segs : forall segs, (forall m, In (SAnchor m) segs -> ~ In 10 (anchor m)) ->
  flat_map brmap (flat_map (norm_with anchor) segs) = flat_map final_seg segs.
Proof.
  induction segs as [|s segs IH]; intro H; [reflexivity|].
  cbn [flat_map]. rewrite flat_map_app. f_equal.
  - destruct s as [x|m]; cbn [norm_with final_seg]; [reflexivity|]. apply brmap_id. apply H. left; reflexivity.
  - apply IH. intros m I. apply H. right; assumption.
Qed.

Lemma escape_std_clean : forall t, clean (escape_std t).
Proof. intros t c I. exact (proj1 escape_no_active_chars t c I). Qed.

Lemma text_to_html_final : forall t ivs, matches_plain (escape_std t) ivs = true ->
  text_to_html t ivs = flat_map final_seg (wrap_segs 0 (escape_std t) ivs).
Proof.
  intros t ivs Hp. unfold text_to_html, wrap_urls. rewrite line_replace_closed.
  change render_seg with (render_with anchor).
  rewrite (normalise_segs anchor).
  - apply flat_map_brmap_segs. intros m I. unfold matches_plain in Hp. rewrite forallb_forall in Hp.
    specialize (Hp _ I). cbn [seg_plain] in Hp. apply anchor_plain in Hp. tauto.
  - intros m Hm. apply anchor_plain in Hm. tauto.
  - exact Hp.
Qed.

Theorem text_fully_escaped : forall (t : str) (ivs : list (N * N)),
  matches_plain (escape_std t) ivs = true ->
  strip_tags false (text_to_html t ivs) = normalise_nl (escape_std t)
  /\ forallb gen_tag_ok (tags_of None (text_to_html t ivs)) = true
  /\ text_spec t (text_to_html t ivs) = true.
Proof.
  intros t ivs Hp.
  assert (C : segs_clean (wrap_segs 0 (escape_std t) ivs)).
  { intros s I c Ic. apply (escape_std_clean t). eapply wrap_segs_chars; eauto. }
  assert (S : strip_tags false (text_to_html t ivs) = normalise_nl (escape_std t)).
  { rewrite text_to_html_final by exact Hp. rewrite final_strip by exact C.
    rewrite <- (normalise_segs (fun m => m)).
    - f_equal. change (render_with (fun m => m)) with seg_raw. apply wrap_segs_raw.
    - intros m Hm. unfold plain_match in Hm. apply andb_prop in Hm as [Hm H10]. apply andb_prop in Hm as [Hn H13].
      apply negb_true_iff in H10, H13, Hn.
      split; [destruct m; [discriminate|discriminate]|]. split.
      + destruct m as [|d m]; [exact I|]. cbn [not_lf_head]. intro; subst d. cbn [mem_b] in H10.
        rewrite N.eqb_refl in H10. discriminate.
      + intro I. apply mem_b_In in I. congruence.
    - exact Hp. }
  assert (T : forallb gen_tag_ok (tags_of None (text_to_html t ivs)) = true).
  { rewrite text_to_html_final by exact Hp. apply final_tags. exact C. }
  split; [exact S|]. split; [exact T|].
  unfold text_spec. rewrite S, T, str_eqb_refl. reflexivity.
Qed.

(** without any hypothesis on the matches: no generated href ever holds a double quote, '<' or '>' *)
Theorem href_never_quoted : forall t ivs m, In (SAnchor m) (wrap_segs 0 (escape_std t) ivs) ->
  forall c, In c (href_of m) -> c <> 34 /\ c <> 60 /\ c <> 62 /\ c <> 39.
Proof.
  intros t ivs m I c Ic.
  assert (clean m) as Hm.
  { intros x Ix. apply (escape_std_clean t). eapply (wrap_segs_chars ivs 0 _ (SAnchor m)); eauto. }
  destruct (href_clean m Hm c Ic) as [? [? [? ?]]]. repeat split; assumption.
Qed.

(* --------------------------------------------------------------- non-vacuity *)
(* text: a<b CR LF http://x/?a&b  with the match interval the regexp reports on the escaped text *)
Definition ex_text : str := [97;60;98;13;10;104;116;116;112;58;47;47;120;47;63;97;38;98].
Example text_example_hyp : matches_plain (escape_std ex_text) [(8, 25)] = true.
Proof. vm_compute. reflexivity. Qed.
Example text_example_out : text_spec ex_text (text_to_html ex_text [(8, 25)]) = true.
Proof. vm_compute. reflexivity. Qed.
(* the hypothesis matters: an empty match between CR and LF splits the line end in two *)
Example text_hyp_needed : text_spec [13;10] (text_to_html [13;10] [(1, 1)]) = false.
Proof. vm_compute. reflexivity. Qed.

(* ------------------------------------------------------------- composition: text_to_html_escaped_and_anchored *)

(** For EVERY text and EVERY list of match intervals (matches non-empty, no CR/LF):
    (1) every less-than, greater-than, quote, apostrophe of the input is escaped, every ampersand of the escaped
        text starts an entity, and the escaped text decodes back to the input;
    (2) the output is the escaped text cut at the match intervals, with an anchor around
        exactly the match segments and line ends turned into br + LF in the text segments —
        nothing else is generated;
    (3) removing the tags gives back the escaped text (line ends normalised), and every tag is
        one of the three generated forms;
    (4) every generated href is attribute-safe (no quote, apostrophe, less-than, greater-than).
    NOT claimed: anything about the SCHEME of a generated href — it is whatever the URL pattern
    matched (see Proofs/SanitizeTextScheme.v: a javascript: text becomes a clickable anchor). *)
Theorem text_to_html_escaped_and_anchored : forall (t : str) (ivs : list (N * N)),
  matches_plain (escape_std t) ivs = true ->
  let e := escape_std t in
  let segs := wrap_segs 0 e ivs in
  ((forall c, In c e -> c <> 60 /\ c <> 62 /\ c <> 34 /\ c <> 39) /\ amp_ok esc_std e = true /\ unescape esc_std e = t)
  /\ (text_to_html t ivs = flat_map final_seg segs /\ flat_map seg_raw segs = e)
  /\ (strip_tags false (text_to_html t ivs) = normalise_nl e
      /\ forallb gen_tag_ok (tags_of None (text_to_html t ivs)) = true)
  /\ (forall m, In (SAnchor m) segs -> forall c, In c (href_of m) -> c <> 34 /\ c <> 60 /\ c <> 62 /\ c <> 39).
Proof.
  intros t ivs Hp e segs. split; [|split; [|split]].
  - split; [exact (proj1 escape_no_active_chars t)|]. split.
    + exact (proj1 escape_amp_only_entities t).
    + exact (proj1 (proj2 (proj2 escape_no_active_chars)) t).
  - split; [apply text_to_html_final; exact Hp|apply wrap_segs_raw].
  - destruct (text_fully_escaped t ivs Hp) as [S [T _]]. split; assumption.
  - intros m I. exact (href_never_quoted t ivs m I).
Qed.

(* ------------------------------------------- the other direction: the text is recoverable *)

Lemma esc_byte_no_cr : forall d, d <> 13 -> ~ In 13 (esc_byte esc_std d).
Proof.
  intros d Hd I. unfold esc_byte in I.
  match type of I with context [match ?x with _ => _ end] => destruct x as [e|] eqn:A end.
  - apply assoc_n_In in A.
    assert (F : forallb (fun p => negb (mem_b 13 (snd p))) esc_std = true) by (vm_compute; reflexivity).
    rewrite forallb_forall in F. specialize (F _ A). cbn [snd] in F. apply negb_true_iff in F.
    apply (proj2 (mem_b_In 13 e)) in I. rewrite I in F. discriminate.
  - destruct I as [I|[]]. apply Hd. exact I.
Qed.

Lemma esc_byte_head_not_lf : forall d, d <> 10 -> not_lf_head (esc_byte esc_std d).
Proof.
  intros d Hd. unfold esc_byte.
  match goal with |- context [match ?x with _ => _ end] => destruct x as [e|] eqn:A end.
  - apply assoc_n_In in A.
    assert (F : forallb (fun p => match snd p with c :: _ => negb (c =? 10) | [] => true end) esc_std = true) by (vm_compute; reflexivity).
    rewrite forallb_forall in F. specialize (F _ A). cbn [snd] in F.
    destruct e as [|c e]; [exact I|]. cbn [not_lf_head]. apply negb_true_iff in F. apply N.eqb_neq. exact F.
  - cbn [not_lf_head]. exact Hd.
Qed.

Lemma escape_cons : forall c r, escape_std (c :: r) = esc_byte esc_std c ++ escape_std r.
Proof. reflexivity. Qed.

Lemma normalise_escape_commute : forall t, normalise_nl (escape_std t) = escape_std (normalise_nl t).
Proof.
  apply two_step.
  - reflexivity.
  - intro c. destruct (c =? 13) eqn:E.
    + apply N.eqb_eq in E. subst c. reflexivity.
    + rewrite (normalise_cons_other c []) by exact E. rewrite escape_cons.
      rewrite normalise_app_nocr by (apply esc_byte_no_cr; apply N.eqb_neq; exact E). reflexivity.
  - intros c a s IH1 IH2. destruct (c =? 13) eqn:E.
    + apply N.eqb_eq in E. subst c. destruct (a =? 10) eqn:E10.
      * apply N.eqb_eq in E10. subst a.
        change (escape_std (13 :: 10 :: s)) with (13 :: 10 :: escape_std s).
        change (normalise_nl (13 :: 10 :: s)) with (10 :: normalise_nl s).
        change (normalise_nl (13 :: 10 :: escape_std s)) with (10 :: normalise_nl (escape_std s)).
        rewrite IH1. reflexivity.
      * assert (Ha : a <> 10) by (apply N.eqb_neq; exact E10).
        change (escape_std (13 :: a :: s)) with (13 :: escape_std (a :: s)).
        assert (N1 : normalise_nl (13 :: a :: s) = 10 :: normalise_nl (a :: s)).
        { cbn [normalise_nl]. change (13 =? 13) with true. cbv iota. rewrite E10. reflexivity. }
        rewrite N1. change (escape_std (10 :: normalise_nl (a :: s))) with (10 :: escape_std (normalise_nl (a :: s))).
        rewrite <- IH2.
        pose proof (esc_byte_head_not_lf a Ha) as Hh. rewrite escape_cons in *.
        destruct (esc_byte esc_std a) as [|h e] eqn:EB.
        { exfalso. unfold esc_byte in EB.
          match type of EB with context [match ?x with _ => _ end] => destruct x eqn:A end; [|discriminate].
          apply assoc_n_In in A.
          assert (F : forallb (fun p => negb (is_nil (snd p))) esc_std = true) by (vm_compute; reflexivity).
          rewrite forallb_forall in F. specialize (F _ A). cbn [snd] in F. subst. discriminate. }
        cbn [not_lf_head] in Hh. cbn [app normalise_nl]. change (13 =? 13) with true. cbv iota.
        destruct (h =? 10) eqn:H10; [apply N.eqb_eq in H10; contradiction|]. reflexivity.
    + rewrite (normalise_cons_other c (a :: s)) by exact E. rewrite !escape_cons.
      rewrite normalise_app_nocr by (apply esc_byte_no_cr; apply N.eqb_neq; exact E).
      rewrite <- escape_cons. rewrite IH2. rewrite <- escape_cons. reflexivity.
Qed.

(** BOTH DIRECTIONS: from the output alone the original text (line ends normalised to LF) is
    recovered by removing the tags and decoding the five entities *)
Theorem text_recoverable : forall (t : str) (ivs : list (N * N)),
  matches_plain (escape_std t) ivs = true ->
  unescape esc_std (strip_tags false (text_to_html t ivs)) = normalise_nl t.
Proof.
  intros t ivs Hp. destruct (text_fully_escaped t ivs Hp) as [S _]. rewrite S.
  rewrite normalise_escape_commute. exact (proj1 (proj2 (proj2 escape_no_active_chars)) (normalise_nl t)).
Qed.

(** Store group (C07, C08, C16): the models against what the translator reads from the source on
    every run (coq/Gen/StorePins.v): id format and counter of the file store, the functions that take
    messages out of a mailbox and the functions that emit the after-events, the order of the steps
    of the delivery paths. A change of the source that alters one of these tables makes the
    corresponding theorem here fail to re-check, which names the change structurally. *)
From Coq Require Import List NArith Lia String Ascii.
From IV Require Import Base.Bytes Base.BytesFacts Model.StoreSpec Model.StoreSpecImpl Model.MemStore Model.FileStore
  Gen.StorePins Proofs.FileStoreClock.
Import ListNotations.
Local Open Scope N_scope.

(** A Go identifier as the translator prints it. *)
Definition nm (x : string) : list N := List.map N_of_ascii (list_ascii_of_string x).

Definition names_eqb (a b : list (list N)) : bool :=
  (Nat.eqb (List.length a) (List.length b)) && forallb (fun p => str_eqb (fst p) (snd p)) (combine a b).

(* ------------------------------------------------------------------ file-store ids *)

(** The id of a file-store message is <layout second>-<counter %0Nd>; the counter starts at
    [file_ctr_start], advances by [file_ctr_step] modulo [file_ctr_mod]. The model (FileStore.v) uses
    (second, counter), step 1, modulus 10000 and tries every counter value once ([gen_fuel]). *)
Theorem file_id_format_pinned :
  file_ctr_start = 0 /\ file_ctr_step = 1 /\ file_ctr_mod = 10000 /\
  10 ^ file_id_ctr_digits = file_ctr_mod /\            (* %04d never needs a 5th digit: equal ids <-> equal (second, counter) *)
  gen_fuel = N.to_nat file_ctr_mod /\
  str_eqb file_id_sep (nm "-") = true /\ str_eqb file_id_layout (nm "20060102T150405") = true /\
  str_eqb file_raw_suffix (nm ".raw") = true /\ str_eqb file_index_name (nm "index.gob") = true /\
  file_hash_cuts = [0; 3; 0; 6] /\
  (forall ticks, fs_ctr (file_init ticks) = file_ctr_start) /\
  (forall sec c l, has_id (sec, c) l = false ->
     gen_loop gen_fuel sec c l = ((sec, c), (c + file_ctr_step) mod file_ctr_mod)).
Proof.
  repeat split; try reflexivity. intros sec c l H. apply gen_loop_first. exact H.
Qed.

(* ------------------------------------------------------------------ who removes, who emits *)

(** Memory store: every function that takes messages out of a mailbox map
    (delete(mb.messages, …) or a re-assignment of mb.messages) announces them: it emits
    AfterMessageDeleted itself or through emitDeleted. *)
Definition mem_removal_covered : bool :=
  forallb (fun f => mem_str f mem_deleted_emitters ||
                    (mem_str f mem_emitDeleted_callers && mem_str (nm "Store.emitDeleted") mem_deleted_emitters))
          (mem_delete_sites ++ mem_reassign_sites).

(** File store: every function that assigns the index slice, other than the two that only add or
    load (AddMessage appends, readIndex loads), emits AfterMessageDeleted itself or is only called
    from functions that do. *)
Definition file_removal_covered : bool :=
  forallb (fun f =>
             str_eqb f (nm "Store.AddMessage") || str_eqb f (nm "mbox.readIndex") ||
             mem_str f file_deleted_emitters ||
             (str_eqb f (nm "mbox.purge") && negb (match file_purge_callers with [] => true | _ => false end) &&
              forallb (fun c => mem_str c file_deleted_emitters) file_purge_callers))
          file_assign_sites.

(** The tables themselves, as the models assume them (model counterparts on the right):
    memory  — Store.AddMessage: cap loop                     (MemStore.cap_loop, events evs1 of mem_add)
              Store.removeMessage: RemoveMessage + enforcer  (exec_mem LoRemove, MemStore.evict_loop)
              Store.PurgeMessages                            (exec_mem LoPurge)
    file    — mbox.removeMessage: RemoveMessage + cap        (exec_file LoRemove, FileStore.fcap_loop)
              Store.PurgeMessages (emits) + mbox.purge       (exec_file LoPurge)
    stored  — StoreManager.Deliver only, after AddMessage    (StoreSpecImpl.step_impl, Add) *)
Theorem removal_paths_emit :
  mem_removal_covered = true /\ file_removal_covered = true /\
  names_eqb mem_delete_sites [nm "Store.AddMessage"; nm "Store.removeMessage"] = true /\
  names_eqb mem_reassign_sites [nm "Store.PurgeMessages"] = true /\
  names_eqb mem_deleted_emitters [nm "Store.PurgeMessages"; nm "Store.emitDeleted"; nm "Store.removeMessage"] = true /\
  names_eqb mem_removeMessage_callers [nm "Store.RemoveMessage"; nm "Store.maxSizeEnforcer"] = true /\
  names_eqb file_assign_sites [nm "Store.AddMessage"; nm "mbox.purge"; nm "mbox.readIndex"; nm "mbox.removeMessage"] = true /\
  names_eqb file_deleted_emitters [nm "Store.PurgeMessages"; nm "mbox.removeMessage"] = true /\
  names_eqb file_removeMessage_callers [nm "Store.RemoveMessage"; nm "mbox.newMessage"] = true /\
  (* the stored event has exactly one emitter, outside the stores; no store emits it, the manager emits no deleted event *)
  names_eqb manager_stored_emitters [nm "StoreManager.Deliver"] = true /\
  mem_stored_emitters = [] /\ file_stored_emitters = [] /\ manager_deleted_emitters = [].
Proof. vm_compute. repeat split; reflexivity. Qed.

(* ------------------------------------------------------------------ order of steps *)

(** Memory AddMessage: inside the mailbox lock the insert and the cap loop (delete); then, per
    evicted message, enforcerRemove and the deleted event; then the registration with the size
    enforcer, whose loop pops the front of its list and removes that message. File AddMessage:
    newMessage (read index, cap loop through removeMessage, id with the hasID retry), then the
    body file, then the index. Deliver: the before-hook, AddMessage, then the stored event.
    The models run the same order: MemStore.mem_add (cap_loop; fold enf_remove, evs1; evict_loop,
    evs2), FileStore.file_add (fcap_loop; gen_loop; append), StoreSpecImpl.step_impl (exec LoAdd,
    then EStored). *)
Theorem add_steps_pinned :
  names_eqb mem_add_steps [nm "withMailbox"; nm "delete"; nm "enforcerRemove"; nm "emitDeleted"; nm "enforcerDeliver"] = true /\
  names_eqb mem_enforcer_steps [nm "PushBack"; nm "Front"; nm "Remove"; nm "removeMessage"; nm "Remove"] = true /\
  names_eqb file_add_steps [nm "newMessage"; nm "createDir"; nm "Create"; nm "Copy"; nm "writeIndex"] = true /\
  names_eqb file_newmessage_steps [nm "readIndex"; nm "removeMessage"; nm "generateID"; nm "hasID"; nm "generateID"] = true /\
  names_eqb deliver_steps [nm "Emit"; nm "AddMessage"; nm "Emit"] = true.
Proof. vm_compute. repeat split; reflexivity. Qed.

(** The model side of "stored is emitted after AddMessage, by the deliverer": whatever the
    back-end answers, the events of a delivery are the back-end's own events, then the stored
    event, then those of the read-back. *)
Lemma step_impl_add_shape (ID S : Type) (eqb : ID -> ID -> bool) (exec : S -> lop ID -> S * lres ID * list (lev ID))
      s iss mb date tag size s1 i evs :
  exec s (LoAdd mb {| m_date := date; m_tag := tag; m_size := size; m_seen := false |}) = (s1, LAdd i, evs) ->
  exists iss' tail,
    snd (step_impl ID eqb S exec (s, iss) (Add mb date tag size)) =
      List.map (tr_ev ID eqb iss') evs ++ [(EStored, mb, List.length (iss_of ID mb iss))] ++ tail.
Proof.
  intros H. cbn [step_impl]. rewrite H.
  destruct (exec s1 (LoGet mb (QId i))) as [[s2 r2] evs2]. cbn [snd]. eexists. eexists. reflexivity.
Qed.

(** The store abstraction of the POP3 model is exactly the abstract store of C07: every
    store access of a session ([GetMessages] at login, [RemoveMessage] at the commit, the
    availability of a message's source) and everything other clients do commute with [abs].
    Hence the C13 theorems hold for a session running against StoreSpec
    ([pop3_over_storespec]) and, through C07's refinement theorems, against both store
    models. *)
From Coq Require Import ZifyN ZifyNat ZifyBool Sorting.Sorted.
From IV Require Import Base.Bytes Base.BytesFacts Model.StoreSpec Model.Pop3Wire Model.Pop3 Model.Pop3Store
  Proofs.StoreSpecFacts Proofs.Pop3.
Open Scope N_scope.

(** Reachable spec stores: C07's invariant plus unique mailbox names in [counts]. *)
Definition CInv (st : spec_store) : Prop := SInv st /\ NoDup (map fst (counts st)).

Lemma CInv_init : CInv StoreSpec.spec_init.
Proof. split; [apply SInv_init|constructor]. Qed.

Lemma NoDup_snoc' {A} (l : list A) a : NoDup l -> ~ In a l -> NoDup (l ++ [a]).
Proof.
  induction l as [|x l IH]; intros H Hn; cbn [app].
  - constructor; [intros []|constructor].
  - inversion H; subst. constructor.
    + intros Hin. apply in_app_or in Hin. destruct Hin as [Hin|[E|[]]]; [contradiction|].
      subst. apply Hn. left. reflexivity.
    + apply IH; [assumption|]. intros Hin. apply Hn. right. exact Hin.
Qed.

Lemma bump_nodup mb c : NoDup (map fst c) -> NoDup (map fst (bump mb c)).
Proof.
  intros H. destruct (in_dec (list_eq_dec N.eq_dec) mb (map fst c)) as [Hin|Hn].
  - rewrite bump_names_in by exact Hin. exact H.
  - rewrite bump_names_notin by exact Hn. apply NoDup_snoc'; assumption.
Qed.

Lemma exec_spec_CInv cfg st o : CInv st -> CInv (fst (fst (exec_spec cfg st o))).
Proof.
  intros [H1 H2]. split; [apply exec_spec_SInv; exact H1|].
  destruct o as [mb date tag size|mb h|mb|mb h|mb h|mb|]; cbn [exec_spec].
  - rewrite spec_add_unfold. cbv zeta.
    destruct (add_cap cfg mb _) as [d1 l2]. destruct (add_fit cfg l2) as [d2 l3].
    cbn [fst counts]. apply bump_nodup. exact H2.
  - destruct h; exact H2.
  - exact H2.
  - destruct (find_h mb h (live st)); exact H2.
  - destruct (find_h mb h (live st)); exact H2.
  - exact H2.
  - exact H2.
Qed.

Lemma final_spec_CInv cfg ops : forall st, CInv st -> CInv (final_spec cfg st ops).
Proof.
  induction ops as [|o ops IH]; intros st H; cbn [final_spec]; [exact H|].
  pose proof (exec_spec_CInv cfg st o H) as H'. destruct (exec_spec cfg st o) as [[st' ob] evs]. apply IH. exact H'.
Qed.

Section Abs.
Variable content : N -> str.
Notation abs := (abs content).
Notation smsg_of := (smsg_of content).
Notation abs_box := (abs_box content).

(** * Reading the abstraction *)

Lemma has_box_abs_gen l c name : has_box (map (abs_box l) c) name = existsb (fun p => str_eqb (fst p) name) c.
Proof. induction c as [|[n k] c IH]; cbn; [reflexivity|]. rewrite IH. reflexivity. Qed.

Lemma get_box_abs_gen l c name :
  get_box (map (abs_box l) c) name =
  if existsb (fun p => str_eqb (fst p) name) c
  then {| mnext := N.of_nat (count_of name c); mmsgs := map smsg_of (box name l) |}
  else empty_box.
Proof.
  induction c as [|[n k] c IH]; cbn [map get_box existsb abs_box fst snd count_of]; [reflexivity|].
  rewrite (str_eqb_sym name n).
  destruct (str_eqb n name) eqn:E; cbn [orb].
  - apply str_eqb_eq in E. subst n. reflexivity.
  - exact IH.
Qed.

Lemma no_count_no_box st name :
  SInv st -> existsb (fun p => str_eqb (fst p) name) (counts st) = false -> box name (live st) = [].
Proof.
  intros [_ H] Hn. apply filter_all_false. intros e He. apply ent_in_neq. intros Heq.
  specialize (H e He). rewrite Heq in H.
  rewrite count_zero_notin in H; [lia|].
  intros Hin. apply in_map_iff in Hin. destruct Hin as ([n k] & E & Hin). cbn in E. subst n.
  assert (existsb (fun p => str_eqb (fst p) name) (counts st) = true).
  { apply existsb_exists. exists (name, k). split; [exact Hin|apply str_eqb_refl]. }
  congruence.
Qed.

(** [GetMessages]: a mailbox of [abs st] is the box of StoreSpec, oldest first. *)
Lemma mmsgs_abs st name : SInv st -> mmsgs (get_box (abs st) name) = map smsg_of (box name (live st)).
Proof.
  intros H. unfold abs. rewrite get_box_abs_gen.
  destruct (existsb _ (counts st)) eqn:E; [reflexivity|].
  rewrite (no_count_no_box st name H E). reflexivity.
Qed.

Lemma count_zero_noex name c : existsb (fun (p : str * nat) => str_eqb (fst p) name) c = false -> (count_of name c = 0)%nat.
Proof.
  induction c as [|[n k] c IH]; cbn; [reflexivity|]. rewrite (str_eqb_sym name n).
  destruct (str_eqb n name); cbn; [discriminate|exact IH].
Qed.

Lemma mnext_abs st name : mnext (get_box (abs st) name) = N.of_nat (count_of name (counts st)).
Proof.
  unfold abs. rewrite get_box_abs_gen.
  destruct (existsb _ (counts st)) eqn:E; [reflexivity|]. rewrite (count_zero_noex _ _ E). reflexivity.
Qed.

(** The well-formedness the drivers guarantee: the recorded size is the length of the bytes. *)
Definition sized (st : spec_store) : Prop :=
  forall e, In e (live st) -> m_size (e_msg e) = lenN (content (m_tag (e_msg e))).

(** The session's snapshot is the listing StoreSpec answers to [Lst]. *)
Theorem load_is_lst cfg st u :
  SInv st -> sized st ->
  exists l, snd (fst (exec_spec cfg st (Lst u))) = OList l /\
            load (abs st) u = map (snap_of_view content) l.
Proof.
  intros H Hs. eexists. split; [reflexivity|].
  unfold load. rewrite mmsgs_abs by exact H. rewrite !map_map.
  apply map_ext_in. intros e He. apply box_in in He. destruct He as [He _].
  unfold snap_of, snap_of_view, view_of. cbn. rewrite (Hs e He). reflexivity.
Qed.

Lemma id_of_k_inj a b : str_eqb (id_of_k a) (id_of_k b) = Nat.eqb a b.
Proof.
  unfold id_of_k. cbn. rewrite andb_true_r.
  destruct (Nat.eqb a b) eqn:E; [apply Nat.eqb_eq in E; subst; apply N.eqb_refl|].
  apply Nat.eqb_neq in E. apply N.eqb_neq. lia.
Qed.

(** [Source()] of a file-store message succeeds iff StoreSpec still finds the message. *)
Theorem has_msg_is_get cfg st u k :
  SInv st ->
  has_msg (abs st) u (id_of_k k) =
  match snd (fst (exec_spec cfg st (Get u (Kth k)))) with OGet (Ok _) => true | _ => false end.
Proof.
  intros H. unfold has_msg. rewrite mmsgs_abs by exact H. cbn [exec_spec find_h fst snd].
  unfold box. induction (live st) as [|e l IH]; [reflexivity|].
  cbn [filter find]. unfold is_ent at 1. destruct (ent_in u e) eqn:E; cbn [andb map existsb].
  - unfold smsg_of at 1. cbn [sid]. rewrite id_of_k_inj.
    destruct (Nat.eqb (e_k e) k); [reflexivity|exact IH].
  - exact IH.
Qed.

(** * Writing through the abstraction *)

Lemma upd_box_abs l c mb f :
  NoDup (map fst c) ->
  upd_box (map (abs_box l) c) mb f =
  map (fun p => if str_eqb (fst p) mb then (fst p, f (snd (abs_box l p))) else abs_box l p) c.
Proof.
  induction c as [|[n k] c IH]; intros Hnd; [reflexivity|].
  cbn [map upd_box abs_box fst snd]. inversion Hnd as [|x y Hn Hnd']; subst.
  destruct (str_eqb n mb) eqn:E.
  - apply str_eqb_eq in E. subst n. f_equal.
    apply map_ext_in. intros [n' k'] Hin. cbn [fst].
    destruct (str_eqb n' mb) eqn:E'; [|reflexivity].
    apply str_eqb_eq in E'. subst n'. exfalso. apply Hn. apply in_map_iff. exists (mb, k'). split; [reflexivity|exact Hin].
  - f_equal. apply IH. exact Hnd'.
Qed.

Lemma abs_ext l l' c : (forall name, box name l = box name l') -> map (abs_box l) c = map (abs_box l') c.
Proof. intros H. apply map_ext. intros p. unfold Pop3Store.abs_box. rewrite H. reflexivity. Qed.

Lemma is_ent_key d x : is_ent (e_mb d) (e_k d) x = true <-> e_mb x = e_mb d /\ e_k x = e_k d.
Proof.
  unfold is_ent, ent_in. rewrite andb_true_iff, str_eqb_eq, Nat.eqb_eq. intuition congruence.
Qed.

(** [RemoveMessage] of handle k. *)
Lemma remove_abs l c mb k :
  NoDup (map fst c) ->
  remove_msg (map (abs_box l) c) mb (id_of_k k) = map (abs_box (remove_ent mb k l)) c.
Proof.
  intros Hnd. unfold remove_msg. rewrite upd_box_abs by exact Hnd.
  apply map_ext. intros [n cnt]. unfold Pop3Store.abs_box; cbn [fst snd mnext mmsgs].
  unfold remove_ent. rewrite box_filter.
  destruct (str_eqb n mb) eqn:E.
  - apply str_eqb_eq in E. subst n. f_equal. f_equal.
    rewrite filter_map_comm. f_equal. apply filter_ext_in. intros e He.
    apply box_in in He. destruct He as [_ He].
    unfold id_neqb, Pop3Store.smsg_of, is_ent, ent_in. cbn [sid]. rewrite id_of_k_inj, <- He, str_eqb_refl. reflexivity.
  - f_equal. f_equal. f_equal. symmetry. apply filter_all_true. intros e He.
    apply box_in in He. destruct He as [_ He]. unfold is_ent, ent_in. rewrite He, (str_eqb_sym mb n), E. reflexivity.
Qed.

(** An id that is no handle matches no message. *)
Lemma remove_nohandle_abs l c mb id :
  (forall k, id <> id_of_k k) -> remove_msg (map (abs_box l) c) mb id = map (abs_box l) c.
Proof.
  intros Hid. unfold remove_msg. induction c as [|[n cnt] c IH]; [reflexivity|].
  cbn [map upd_box Pop3Store.abs_box fst snd]. destruct (str_eqb n mb).
  - f_equal. unfold Pop3Store.abs_box. cbn [fst snd mnext mmsgs]. f_equal. f_equal. apply filter_all_true. intros m Hm.
    apply in_map_iff in Hm. destruct Hm as (e & <- & _). unfold id_neqb, Pop3Store.smsg_of. cbn [sid].
    destruct (str_eqb (id_of_k (e_k e)) id) eqn:E; [|reflexivity].
    apply str_eqb_eq in E. exfalso. exact (Hid _ (eq_sym E)).
  - f_equal. exact IH.
Qed.

Lemma purge_abs l c mb :
  NoDup (map fst c) ->
  purge_box (map (abs_box l) c) mb = map (abs_box (filter (fun e => negb (ent_in mb e)) l)) c.
Proof.
  intros Hnd. unfold purge_box. rewrite upd_box_abs by exact Hnd.
  apply map_ext. intros [n cnt]. unfold Pop3Store.abs_box; cbn [fst snd mnext mmsgs]. rewrite box_filter.
  destruct (str_eqb n mb) eqn:E.
  - apply str_eqb_eq in E. subst n. f_equal. f_equal.
    rewrite filter_all_false; [reflexivity|]. intros e He. apply box_in in He. destruct He as [_ He].
    unfold ent_in. rewrite He, str_eqb_refl. reflexivity.
  - f_equal. f_equal. f_equal. symmetry. apply filter_all_true. intros e He.
    apply box_in in He. destruct He as [_ He]. unfold ent_in. rewrite He, (str_eqb_sym mb n), E. reflexivity.
Qed.

Lemma seen_abs l c mb k : map (abs_box (set_seen mb k l)) c = map (abs_box l) c.
Proof.
  apply map_ext. intros [n cnt]. unfold Pop3Store.abs_box. cbn [fst snd]. f_equal. f_equal.
  unfold set_seen, box. induction l as [|e l IH]; [reflexivity|].
  cbn [map filter]. destruct (is_ent mb k e); cbn [e_mb ent_in]; unfold ent_in in *; cbn [e_mb];
    destruct (str_eqb n (e_mb e)); cbn [map]; rewrite ?IH; reflexivity.
Qed.

(** [AddMessage] without limits. *)
Lemma deliver_abs_gen l c mb m :
  NoDup (map fst c) ->
  (existsb (fun p => str_eqb (fst p) mb) c = false -> box mb l = []) ->
  deliver (map (abs_box l) c) mb (content (m_tag m)) =
  map (abs_box (l ++ [{| e_mb := mb; e_k := count_of mb c; e_msg := m |}])) (bump mb c).
Proof.
  intros Hnd Hempty. unfold deliver. rewrite has_box_abs_gen.
  set (new := {| e_mb := mb; e_k := count_of mb c; e_msg := m |}).
  assert (Hbox : forall n, n <> mb -> box n (l ++ [new]) = box n l).
  { intros n Hn. rewrite box_app. unfold box at 2; cbn [filter]; unfold ent_in at 1; cbn [e_mb new].
    destruct (str_eqb n mb) eqn:E; [apply str_eqb_eq in E; congruence|]. apply app_nil_r. }
  assert (Hmb : box mb (l ++ [new]) = box mb l ++ [new]).
  { rewrite box_app. unfold box at 2; cbn [filter]; unfold ent_in at 1; cbn [e_mb new]. rewrite str_eqb_refl. reflexivity. }
  assert (Hother : forall n cnt, str_eqb n mb = false -> abs_box (l ++ [new]) (n, cnt) = abs_box l (n, cnt)).
  { intros n cnt E. unfold Pop3Store.abs_box. cbn [fst snd]. rewrite Hbox; [reflexivity|].
    intros ->. rewrite str_eqb_refl in E. discriminate. }
  destruct (existsb (fun p => str_eqb (fst p) mb) c) eqn:Ex.
  - rewrite upd_box_abs by exact Hnd. clear Hempty.
    assert (Hk : e_k new = count_of mb c) by reflexivity. assert (Hm : e_msg new = m) by reflexivity. clearbody new.
    induction c as [|[n k] c IH]; [discriminate Ex|].
    cbn [map bump fst snd count_of] in *. inversion Hnd as [|x y Hn Hnd']; subst x y.
    rewrite (str_eqb_sym mb n) in *. destruct (str_eqb n mb) eqn:E.
    + apply str_eqb_eq in E. subst n. cbn [map]. f_equal.
      * unfold Pop3Store.abs_box. cbn [fst snd mnext mmsgs]. f_equal. f_equal; [lia|].
        rewrite Hmb, map_app. cbn [map]. f_equal. unfold Pop3Store.smsg_of, id_of_k. rewrite Hk, Hm. reflexivity.
      * apply map_ext_in. intros [n' k'] Hin. cbn [fst].
        destruct (str_eqb n' mb) eqn:E'; [|symmetry; apply Hother; exact E'].
        apply str_eqb_eq in E'. subst n'. exfalso. apply Hn. apply in_map_iff. exists (mb, k'). split; [reflexivity|exact Hin].
    + cbn [map]. f_equal; [symmetry; apply Hother; exact E|].
      cbn [existsb fst orb] in Ex. rewrite E in Ex. apply IH; assumption.
  - specialize (Hempty eq_refl). rewrite Hempty in Hmb.
    assert (Hc : count_of mb c = O) by (apply count_zero_noex; exact Ex).
    assert (Hk : e_k new = O) by (cbn; exact Hc). assert (Hm : e_msg new = m) by reflexivity. clearbody new.
    clear Hnd Hc Hempty.
    induction c as [|[n k] c IH].
    + cbn [map bump app]. unfold Pop3Store.abs_box. cbn [fst snd]. rewrite Hmb. cbn [map app].
      unfold Pop3Store.smsg_of, id_of_k. rewrite Hk, Hm. reflexivity.
    + cbn [existsb fst orb] in Ex. apply orb_false_iff in Ex. destruct Ex as [E Ex].
      cbn [map bump app]. rewrite (str_eqb_sym mb n), E. cbn [map]. f_equal; [symmetry; apply Hother; exact E|].
      apply IH. exact Ex.
Qed.

(** * Evictions are removals *)

Definition rm_all (ds : list entry) (l : list entry) : list entry :=
  fold_left (fun l d => remove_ent (e_mb d) (e_k d) l) ds l.

Definition keyed (ds : list entry) (x : entry) : bool :=
  existsb (fun d => is_ent (e_mb d) (e_k d) x) ds.

Lemma rm_all_filter ds : forall l, rm_all ds l = filter (fun x => negb (keyed ds x)) l.
Proof.
  unfold rm_all. induction ds as [|d ds IH]; intros l; cbn [fold_left keyed existsb].
  - symmetry. apply filter_all_true. reflexivity.
  - rewrite IH. unfold remove_ent. rewrite filter_filter_and. apply filter_ext. intros x.
    fold (keyed ds x). rewrite negb_orb. reflexivity.
Qed.

Lemma removes_abs c ds : NoDup (map fst c) -> forall l,
  fold_left ext_step (map (fun d => ERemove (e_mb d) (id_of_k (e_k d))) ds) (map (abs_box l) c) =
  map (abs_box (rm_all ds l)) c.
Proof.
  intros Hnd. induction ds as [|d ds IH]; intros l; [reflexivity|].
  cbn [map fold_left ext_step]. rewrite remove_abs by exact Hnd. apply IH.
Qed.

(** Removing the keys of a prefix of a strictly sorted list leaves the rest. *)
Lemma filter_prefix_keys P S :
  StronglySorted klt (P ++ S) -> filter (fun x => negb (keyed P x)) (P ++ S) = S.
Proof.
  intros H. rewrite filter_app.
  rewrite (filter_all_false _ P), (filter_all_true _ S); [reflexivity| |].
  - intros x Hx. apply negb_true_iff. unfold keyed.
    destruct (existsb _ P) eqn:E; [|reflexivity]. apply existsb_exists in E. destruct E as (d & Hd & E).
    apply is_ent_key in E. apply SS_app_inv in H. destruct H as (_ & _ & H). specialize (H d x Hd Hx).
    unfold klt in H. lia.
  - intros x Hx. apply negb_false_iff. unfold keyed. apply existsb_exists. exists x. split; [exact Hx|].
    apply is_ent_key. auto.
Qed.

Lemma keyed_other_box ds name x mb :
  (forall d, In d ds -> e_mb d = mb) -> e_mb x = name -> name <> mb -> keyed ds x = false.
Proof.
  intros Hd Hx Hn. unfold keyed. destruct (existsb _ ds) eqn:E; [|reflexivity].
  apply existsb_exists in E. destruct E as (d & Hin & E). apply is_ent_key in E. rewrite (Hd d Hin) in E. destruct E. congruence.
Qed.

Lemma firstn_In' {A} (x : A) n : forall l, In x (firstn n l) -> In x l.
Proof. induction n as [|n IH]; intros [|y l] H; cbn in *; try tauto. destruct H; auto. Qed.

Lemma add_cap_boxes cfg mb l1 c :
  LInv c l1 ->
  let '(d1, l2) := add_cap cfg mb l1 in
  forall name, box name l2 = filter (fun x => negb (keyed d1 x)) (box name l1).
Proof.
  intros [Hs _]. unfold add_cap. destruct (Nat.eqb (c_cap cfg) 0).
  - intros name. symmetry. apply filter_all_true. reflexivity.
  - pose proof (drop_oldest_spec mb (length (box mb l1) - c_cap cfg) l1) as H.
    destruct (drop_oldest mb _ l1) as [d r]. destruct H as (Hd & Hmb & Hoth & _).
    intros name. destruct (list_eq_dec N.eq_dec name mb) as [->|Hne].
    + rewrite Hmb, Hd. rewrite <- (firstn_skipn (length (box mb l1) - c_cap cfg) (box mb l1)) at 3.
      symmetry. apply filter_prefix_keys. rewrite firstn_skipn. apply Hs.
    + rewrite Hoth by exact Hne. symmetry. apply filter_all_true. intros x Hx. apply negb_true_iff.
      apply box_in in Hx. destruct Hx as [_ Hx].
      apply (keyed_other_box d name x mb); [|exact Hx|exact Hne].
      intros d0 Hd0. rewrite Hd in Hd0. apply firstn_In' in Hd0. apply box_in in Hd0. tauto.
Qed.

Lemma add_fit_boxes cfg l2 c :
  LInv c l2 ->
  let '(d2, l3) := add_fit cfg l2 in
  forall name, box name l3 = filter (fun x => negb (keyed d2 x)) (box name l2).
Proof.
  intros [Hs _]. pose proof (add_fit_split cfg l2) as H. destruct (add_fit cfg l2) as [d2 l3]. subst l2.
  intros name. rewrite box_app, filter_app.
  rewrite (filter_all_false _ (box name d2)), (filter_all_true _ (box name l3)); [reflexivity| |].
  - intros x Hx. apply negb_true_iff. unfold keyed.
    destruct (existsb _ d2) eqn:E; [|reflexivity]. apply existsb_exists in E. destruct E as (d & Hd & E).
    apply is_ent_key in E. destruct E as [E1 E2].
    specialize (Hs name). rewrite box_app in Hs. apply SS_app_inv in Hs. destruct Hs as (_ & _ & Hs).
    apply box_in in Hx. destruct Hx as [Hx Hxn].
    assert (Hdb : In d (box name d2)) by (apply box_in; split; [exact Hd|congruence]).
    assert (Hxb : In x (box name l3)) by (apply box_in; split; assumption).
    specialize (Hs d x Hdb Hxb). unfold klt in Hs. lia.
  - intros x Hx. apply negb_false_iff. unfold keyed. apply existsb_exists. exists x. split.
    + apply box_in in Hx. tauto.
    + apply is_ent_key. auto.
Qed.

Lemma flat_map_ev_remove ds rest :
  flat_map ev_remove (map ev_deleted ds ++ rest) =
  map (fun d => ERemove (e_mb d) (id_of_k (e_k d))) ds ++ flat_map ev_remove rest.
Proof. induction ds as [|d ds IH]; [reflexivity|]. cbn. rewrite IH. reflexivity. Qed.

(** [AddMessage] under any cap and size limit: a delivery followed by the removals of the
    evicted messages. *)
Lemma add_abs cfg st mb date tag size :
  CInv st ->
  fold_left ext_step (tr content cfg st (Add mb date tag size)) (abs st) =
  abs (fst (fst (exec_spec cfg st (Add mb date tag size)))).
Proof.
  intros Hc. pose proof Hc as [Hs Hnd].
  set (m := {| m_date := date; m_tag := tag; m_size := size; m_seen := false |}).
  unfold tr. cbn [exec_spec]. fold m. rewrite spec_add_unfold. cbv zeta.
  pose proof (LInv_snoc _ _ mb m Hs) as H1. fold (add_l1 st mb m) in H1.
  pose proof (add_cap_boxes cfg mb _ _ H1) as Hcap.
  assert (H2 : LInv (bump mb (counts st)) (snd (add_cap cfg mb (add_l1 st mb m)))).
  { unfold add_cap. destruct (Nat.eqb (c_cap cfg) 0); [exact H1|apply LInv_drop; exact H1]. }
  destruct (add_cap cfg mb (add_l1 st mb m)) as [d1 l2]. cbn [snd] in H2.
  pose proof (add_fit_boxes cfg l2 _ H2) as Hfit.
  destruct (add_fit cfg l2) as [d2 l3]. cbn [fst snd live counts].
  cbn [fold_left ext_step].
  change (content tag) with (content (m_tag m)).
  unfold Pop3Store.abs at 1. rewrite deliver_abs_gen; [|exact Hnd|intros Ex; exact (no_count_no_box st mb Hs Ex)].
  fold (add_l1 st mb m).
  rewrite app_assoc, <- map_app, flat_map_ev_remove. cbn [flat_map ev_remove app]. rewrite app_nil_r.
  rewrite removes_abs by (apply bump_nodup; exact Hnd).
  unfold Pop3Store.abs. cbn [live counts]. apply abs_ext. intros name.
  rewrite rm_all_filter, box_filter, Hfit, Hcap, filter_filter_and.
  apply filter_ext. intros x. unfold keyed. rewrite existsb_app, negb_orb. reflexivity.
Qed.

(** * Every operation of another client commutes with the abstraction *)

Lemma find_is_ent_none mb k l : find (is_ent mb k) l = None -> remove_ent mb k l = l.
Proof.
  intros H. unfold remove_ent. apply filter_all_true. intros x Hx.
  apply negb_true_iff. exact (find_none _ _ H x Hx).
Qed.

Lemma find_is_ent_some mb k l e : find (is_ent mb k) l = Some e -> e_k e = k.
Proof.
  intros H. apply find_some in H. destruct H as [_ H]. unfold is_ent in H.
  apply andb_prop in H. destruct H as [_ H]. apply Nat.eqb_eq in H. exact H.
Qed.

Lemma remove_kth_abs cfg st mb k :
  CInv st ->
  remove_msg (abs st) mb (id_of_k k) = abs (fst (fst (exec_spec cfg st (Remove mb (Kth k))))).
Proof.
  intros [_ Hnd]. unfold Pop3Store.abs at 1. rewrite remove_abs by exact Hnd.
  cbn [exec_spec find_h]. destruct (find (is_ent mb k) (live st)) as [e|] eqn:E.
  - rewrite (find_is_ent_some _ _ _ _ E). reflexivity.
  - rewrite (find_is_ent_none _ _ _ E). reflexivity.
Qed.

Theorem tr_commutes cfg st o :
  CInv st ->
  fold_left ext_step (tr content cfg st o) (abs st) = abs (fst (fst (exec_spec cfg st o))).
Proof.
  intros Hc. destruct o as [mb date tag size|mb h|mb|mb h|mb h|mb|].
  - apply add_abs. exact Hc.
  - destruct h; reflexivity.
  - reflexivity.
  - cbn [tr fold_left exec_spec]. destruct (find_h mb h (live st)); [|reflexivity].
    cbn [fst]. unfold Pop3Store.abs. cbn [live counts]. symmetry. apply seen_abs.
  - destruct h as [k| |].
    + cbn [tr fold_left ext_step]. apply remove_kth_abs. exact Hc.
    + reflexivity.
    + reflexivity.
  - cbn [tr fold_left ext_step exec_spec fst]. destruct Hc as [_ Hnd].
    unfold Pop3Store.abs at 1. rewrite purge_abs by exact Hnd. reflexivity.
  - reflexivity.
Qed.

(** [RemoveMessage] with any id string, as the session's commit issues it. *)
Lemma remove_any_abs cfg st u id :
  CInv st ->
  remove_msg (abs st) u id = abs (fst (fst (exec_spec cfg st (Remove u (handle_of_id id))))).
Proof.
  intros Hc. destruct id as [|n [|n' id]].
  - cbn [handle_of_id exec_spec find_h fst]. apply remove_nohandle_abs. intros k. discriminate.
  - cbn [handle_of_id]. rewrite <- remove_kth_abs by exact Hc. unfold id_of_k. rewrite N2Nat.id. reflexivity.
  - cbn [handle_of_id exec_spec find_h fst]. apply remove_nohandle_abs. intros k. discriminate.
Qed.

(** [processDeletes] is the sequence of StoreSpec [Remove]s of the marked messages. *)
Theorem process_deletes_is_quit_ops cfg u ms : forall rt st,
  CInv st -> length rt = length ms ->
  process_deletes u ms rt (abs st) = Some (abs (final_spec cfg st (quit_ops u ms rt))).
Proof.
  induction ms as [|m ms IH]; intros [|r rt] st Hc Hl; try discriminate; [reflexivity|].
  cbn [process_deletes quit_ops]. cbn [length] in Hl. destruct r.
  - apply IH; [exact Hc|lia].
  - cbn [final_spec]. rewrite (remove_any_abs cfg st u (p_id m) Hc).
    pose proof (exec_spec_CInv cfg st (Remove u (handle_of_id (p_id m))) Hc) as Hc'.
    destruct (exec_spec cfg st (Remove u (handle_of_id (p_id m)))) as [[st' ob] evs]. cbn [fst] in *.
    apply IH; [exact Hc'|lia].
Qed.

(** Sizes stay the lengths of the bytes. *)
Lemma exec_spec_sized cfg st o :
  sized st -> op_sized content o = true -> sized (fst (fst (exec_spec cfg st o))).
Proof.
  intros Hs Ho. destruct o as [mb date tag size|mb h|mb|mb h|mb h|mb|]; cbn [exec_spec].
  - rewrite spec_add_unfold. cbv zeta.
    set (m := {| m_date := date; m_tag := tag; m_size := size; m_seen := false |}).
    assert (H1 : forall e, In e (add_l1 st mb m) -> m_size (e_msg e) = lenN (content (m_tag (e_msg e)))).
    { intros e He. unfold add_l1 in He. apply in_app_or in He. destruct He as [He|[<-|[]]]; [auto|].
      cbn. cbn in Ho. apply N.eqb_eq in Ho. exact Ho. }
    assert (H2 : forall e, In e (snd (add_cap cfg mb (add_l1 st mb m))) -> In e (add_l1 st mb m)).
    { unfold add_cap. destruct (Nat.eqb (c_cap cfg) 0); [auto|].
      pose proof (drop_oldest_spec mb (length (box mb (add_l1 st mb m)) - c_cap cfg) (add_l1 st mb m)) as H.
      destruct (drop_oldest mb _ _) as [d r]. cbn [snd]. tauto. }
    destruct (add_cap cfg mb (add_l1 st mb m)) as [d1 l2]. cbn [snd] in H2.
    pose proof (add_fit_split cfg l2) as H3. destruct (add_fit cfg l2) as [d2 l3]. subst l2.
    cbn [fst live]. intros e He. apply H1, H2. apply in_or_app. right. exact He.
  - destruct h; exact Hs.
  - exact Hs.
  - destruct (find_h mb h (live st)) as [e0|]; [|exact Hs]. cbn [fst live]. intros e He.
    unfold set_seen in He. apply in_map_iff in He. destruct He as (x & <- & Hx).
    destruct (is_ent mb (e_k _) x); cbn; apply Hs; exact Hx.
  - destruct (find_h mb h (live st)) as [e0|]; [|exact Hs]. cbn [fst live]. intros e He.
    apply filter_In in He. apply Hs. tauto.
  - cbn [fst live]. intros e He. apply filter_In in He. apply Hs. tauto.
  - exact Hs.
Qed.

Lemma final_spec_sized cfg ops : forall st,
  sized st -> forallb (op_sized content) ops = true -> sized (final_spec cfg st ops).
Proof.
  induction ops as [|o ops IH]; intros st Hs Ho; cbn [final_spec]; [exact Hs|].
  cbn [forallb] in Ho. apply andb_prop in Ho. destruct Ho as [Ho1 Ho2].
  pose proof (exec_spec_sized cfg st o Hs Ho1) as H'. destruct (exec_spec cfg st o) as [[st' ob] evs]. apply IH; assumption.
Qed.

Lemma quit_ops_sized u ms : forall rt, forallb (op_sized content) (quit_ops u ms rt) = true.
Proof. induction ms as [|m ms IH]; intros [|r rt]; cbn; try reflexivity. destruct r; cbn; apply IH. Qed.
End Abs.

(** * Histories *)

Lemma run_store_events fl evs : forall w,
  (forall e, In e evs -> is_store_event e = true) ->
  run fl w evs = with_store w (fold_left ext_step evs (w_store w)).
Proof.
  induction evs as [|e evs IH]; intros w H.
  - destruct w; reflexivity.
  - rewrite run_cons. cbn [fold_left]. rewrite IH by (intros e' H'; apply H; right; exact H').
    pose proof (H e (or_introl eq_refl)) as He.
    destruct e; try discriminate He; reflexivity.
Qed.

Lemma tr_store_events content cfg st o e : In e (tr content cfg st o) -> is_store_event e = true.
Proof.
  destruct o as [mb date tag size|mb h|mb|mb h|mb h|mb|]; cbn [tr].
  - intros [<-|Hin]; [reflexivity|]. apply in_flat_map in Hin. destruct Hin as ([[k n] i] & _ & Hin).
    destruct k; cbn in Hin; [destruct Hin|destruct Hin as [<-|[]]; reflexivity].
  - intros [].
  - intros [].
  - intros [].
  - destruct h; cbn; [intros [<-|[]]; reflexivity|intros []|intros []].
  - intros [<-|[]]. reflexivity.
  - intros [].
Qed.

Lemma commits_now_eq w e : commits w e = commits_now w e && is_open w.
Proof.
  unfold commits, commits_now, is_open. destruct (s_state (w_sess w)); destruct e; cbn; rewrite ?andb_true_r; reflexivity.
Qed.

Lemma final_spec_app' cfg : forall a st b, final_spec cfg st (a ++ b) = final_spec cfg (final_spec cfg st a) b.
Proof. induction a as [|o a IH]; intros st b; cbn [app final_spec]; [reflexivity|]. destruct (exec_spec cfg st o) as [[st' ob] evs]. apply IH. Qed.

Lemma final_spec_lst cfg ss l : (forall o, In o l -> exists u, o = Lst u) -> final_spec cfg ss l = ss.
Proof.
  induction l as [|o l IH]; intros H; [reflexivity|].
  destruct (H o (or_introl eq_refl)) as [u ->]. cbn. apply IH. intros o' H'. apply H. right. exact H'.
Qed.

(** One session event: the model's store stays the abstraction of the spec store, where the
    spec store receives exactly the StoreSpec operations the session issues. *)
Lemma session_step_abs content cfg fl ss w e :
  CInv ss -> w_store w = abs content ss -> winv w -> is_store_event e = false ->
  let mine :=
    (if logs_in fl w e then [Lst (s_user (w_sess (wstep fl w e)))] else []) ++
    (if commits_now w e && is_open w
     then quit_ops (s_user (w_sess w)) (s_msgs (w_sess w)) (s_retain (w_sess w)) else []) in
  w_store (wstep fl w e) = abs content (final_spec cfg ss mine).
Proof.
  intros Hc Hst Hi He. cbn zeta.
  destruct (commits_now w e && is_open w) eqn:Ec.
  - apply andb_prop in Ec. destruct Ec as [Ec Eo].
    assert (Ht : s_state (w_sess w) = Trans).
    { unfold commits_now in Ec. destruct (s_state (w_sess w)); try discriminate; reflexivity. }
    assert (Hl : logs_in fl w e = false) by (unfold logs_in; rewrite Ht; reflexivity).
    rewrite Hl. cbn [app].
    assert (Hq : exists c, ev_cmd e = Some c /\ is_quit c = true /\ wstep fl w e = do_cmd fl w c).
    { unfold commits_now in Ec. rewrite Ht in Ec. destruct e; try discriminate; eexists; repeat split; eauto. }
    destruct Hq as (c & _ & Hq & ->). destruct c as [| | |n args]; try discriminate. destruct n; try discriminate.
    unfold do_cmd, step. rewrite Eo, Ht. cbn [trans_handler]. rewrite Hst.
    rewrite (process_deletes_is_quit_ops content cfg _ _ _ _ Hc Hi).
    cbn [is_panic r_plus mk r_body]. destruct (w_wfail w); reflexivity.
  - rewrite app_nil_r.
    destruct (wstep_facts fl w e) as (_ & _ & _ & F4 & _).
    rewrite F4 by (rewrite commits_now_eq; exact Ec).
    rewrite final_spec_lst.
    + rewrite <- Hst. destruct e; try discriminate He; reflexivity.
    + intros o Ho. destruct (logs_in fl w e); [destruct Ho as [<-|[]]; eauto|destruct Ho].
Qed.

Theorem pop3_over_storespec content cfg fl sevs : forall ss ops w pevs,
  CInv ss -> sized content ss -> forallb (op_sized content) (ext_ops sevs) = true ->
  w_store w = abs content ss -> winv w ->
  let '(ss', ops', w', pevs') := srun content cfg fl ss ops w pevs sevs in
  w_store w' = abs content ss' /\ CInv ss' /\ sized content ss' /\ winv w' /\
  (exists more, pevs' = pevs ++ more /\ w' = run fl w more) /\
  (exists mine, ops' = ops ++ mine /\ ss' = final_spec cfg ss mine).
Proof.
  induction sevs as [|[e|o] sevs IH]; intros ss ops w pevs Hc Hs Ho Hst Hi.
  - cbn [srun]. split; [exact Hst|]. split; [exact Hc|]. split; [exact Hs|]. split; [exact Hi|].
    split; exists []; rewrite app_nil_r; split; reflexivity.
  - cbn [srun]. cbn [ext_ops] in Ho. destruct (is_store_event e) eqn:He.
    + apply IH; assumption.
    + pose proof (session_step_abs content cfg fl ss w e Hc Hst Hi He) as Hstep. cbn zeta in Hstep.
      set (mine := (if logs_in fl w e then [Lst (s_user (w_sess (wstep fl w e)))] else []) ++
                   (if commits_now w e && is_open w
                    then quit_ops (s_user (w_sess w)) (s_msgs (w_sess w)) (s_retain (w_sess w)) else [])) in *.
      assert (Hm : forallb (op_sized content) mine = true).
      { unfold mine. rewrite forallb_app. apply andb_true_intro. split.
        - destruct (logs_in fl w e); reflexivity.
        - destruct (commits_now w e && is_open w); [apply quit_ops_sized|reflexivity]. }
      specialize (IH (final_spec cfg ss mine) (ops ++ mine) (wstep fl w e) (pevs ++ [e])
                     (final_spec_CInv cfg mine ss Hc) (final_spec_sized content cfg mine ss Hs Hm) Ho Hstep
                     (proj1 (wstep_facts fl w e) Hi)).
      destruct (srun content cfg fl (final_spec cfg ss mine) (ops ++ mine) (wstep fl w e) (pevs ++ [e]) sevs)
        as [[[ss' ops'] w'] pevs'].
      destruct IH as (A & B & C & D & (more & E1 & E2) & (mn & F1 & F2)).
      split; [exact A|]. split; [exact B|]. split; [exact C|]. split; [exact D|]. split.
      * exists (e :: more). rewrite E1, <- app_assoc. split; [reflexivity|]. rewrite run_cons. exact E2.
      * exists (mine ++ mn). rewrite F1, <- app_assoc. split; [reflexivity|].
        rewrite final_spec_app'. exact F2.
  - cbn [srun]. cbn [ext_ops forallb] in Ho. apply andb_prop in Ho. destruct Ho as [Ho1 Ho2].
    assert (Hrun : run fl w (tr content cfg ss o) = with_store w (abs content (fst (fst (exec_spec cfg ss o))))).
    { rewrite run_store_events by (intros e; apply tr_store_events).
      rewrite Hst, (tr_commutes content cfg ss o Hc). reflexivity. }
    specialize (IH (fst (fst (exec_spec cfg ss o))) (ops ++ [o]) (run fl w (tr content cfg ss o))
                   (pevs ++ tr content cfg ss o)
                   (exec_spec_CInv cfg ss o Hc) (exec_spec_sized content cfg ss o Hs Ho1) Ho2).
    assert (P1 : w_store (run fl w (tr content cfg ss o)) = abs content (fst (fst (exec_spec cfg ss o))))
      by (rewrite Hrun; reflexivity).
    specialize (IH P1 (run_inv fl _ w Hi)).
    destruct (srun content cfg fl (fst (fst (exec_spec cfg ss o))) (ops ++ [o]) (run fl w (tr content cfg ss o))
                   (pevs ++ tr content cfg ss o) sevs) as [[[ss' ops'] w'] pevs'].
    destruct IH as (A & B & C & D & (more & E1 & E2) & (mn & F1 & F2)).
    split; [exact A|]. split; [exact B|]. split; [exact C|]. split; [exact D|]. split.
    + exists (tr content cfg ss o ++ more). rewrite E1, <- app_assoc. split; [reflexivity|]. rewrite run_app. exact E2.
    + exists (o :: mn). rewrite F1, <- app_assoc. split; [reflexivity|].
      cbn [final_spec]. destruct (exec_spec cfg ss o) as [[st1 ob] evs]. exact F2.
Qed.

(** C08 on the abstract store: bounds that hold after every operation of every history. *)
From Coq Require Import List Arith Lia Sorted.
From IV Require Import Base.Bytes Base.BytesFacts Model.StoreSpec Model.StoreSpecImpl
  Proofs.StoreSpecFacts Proofs.StoreSpecRefine.
Import ListNotations.

Lemma total_filter f l : (total (filter f l) <= total l)%N.
Proof. induction l as [|e l IH]; simpl; [lia|]. destruct (f e); simpl; lia. Qed.

Lemma total_app a b : total (a ++ b) = (total a + total b)%N.
Proof. induction a as [|e a IH]; simpl; [reflexivity|]. rewrite IH. lia. Qed.

Lemma total_set_seen mb k l : total (set_seen mb k l) = total l.
Proof.
  unfold set_seen. induction l as [|e l IH]; simpl; [reflexivity|]. rewrite IH.
  destruct (is_ent mb k e); reflexivity.
Qed.

(** [evict_global_oldest_prefix]: what one delivery evicts for the size limit is a prefix of
    the store-wide arrival order, the rest fits, and no shorter prefix would do. *)
Theorem evict_global_oldest_prefix cfg l2 :
  c_max cfg <> 0%N ->
  let '(d2, l3) := add_fit cfg l2 in
  l2 = d2 ++ l3 /\ (total l3 <= c_max cfg)%N /\
  (forall d' r', l2 = d' ++ r' -> (total r' <= c_max cfg)%N -> (length d2 <= length d')%nat).
Proof.
  intros Hm. unfold add_fit. apply N.eqb_neq in Hm. rewrite Hm. apply evict_fit_spec.
Qed.

Lemma add_size_bound cfg st mb m : c_max cfg <> 0%N ->
  (total (live (fst (fst (spec_add cfg st mb m)))) <= c_max cfg)%N.
Proof.
  intros Hm. rewrite spec_add_unfold. cbv zeta. destruct (add_cap cfg mb (add_l1 st mb m)) as [d1 l2].
  pose proof (evict_global_oldest_prefix cfg l2 Hm) as H. destruct (add_fit cfg l2) as [d2 l3]. simpl. tauto.
Qed.

Lemma exec_size_bound cfg st o : c_max cfg <> 0%N -> (total (live st) <= c_max cfg)%N ->
  (total (live (fst (fst (exec_spec cfg st o)))) <= c_max cfg)%N.
Proof.
  intros Hm H. destruct o as [mb date tag size|mb h|mb|mb h|mb h|mb|]; simpl.
  - pose proof (add_size_bound cfg st mb {| m_date := date; m_tag := tag; m_size := size; m_seen := false |} Hm) as H'.
    destruct (spec_add cfg st mb _) as [[st' k] evs]. exact H'.
  - destruct h; exact H.
  - exact H.
  - destruct (find_h mb h (live st)); [|exact H]. simpl. rewrite total_set_seen. exact H.
  - destruct (find_h mb h (live st)); [|exact H]. simpl. unfold remove_ent. pose proof (total_filter (fun e0 => negb (is_ent mb (e_k e) e0)) (live st)). lia.
  - pose proof (total_filter (fun e => negb (ent_in mb e)) (live st)). lia.
  - exact H.
Qed.

(** [size_bound]: with a size limit, after every operation of every history the bytes held by
    the store do not exceed the limit. *)
Theorem size_bound cfg ops : c_max cfg <> 0%N -> (total (live (final_spec cfg spec_init ops)) <= c_max cfg)%N.
Proof.
  intros Hm. assert (H : (total (live spec_init) <= c_max cfg)%N) by (simpl; lia).
  revert H. generalize spec_init. induction ops as [|o ops IH]; intros st H; simpl; [exact H|].
  pose proof (exec_size_bound cfg st o Hm H) as H'. destruct (exec_spec cfg st o) as [[st' ob] evs]. apply IH. exact H'.
Qed.

(* ---- the cap *)
Lemma length_filter_le {A} (f : A -> bool) l : (length (filter f l) <= length l)%nat.
Proof. induction l as [|x l IH]; simpl; [lia|]. destruct (f x); simpl; lia. Qed.

Lemma add_cap_bound cfg st mb m mb' : c_cap cfg <> 0%nat ->
  (length (box mb' (live st)) <= c_cap cfg)%nat ->
  (length (box mb' (live (fst (fst (spec_add cfg st mb m))))) <= c_cap cfg)%nat.
Proof.
  intros Hc H. rewrite spec_add_unfold. cbv zeta.
  pose proof (drop_oldest_spec mb (length (box mb (add_l1 st mb m)) - c_cap cfg) (add_l1 st mb m)) as Hd.
  unfold add_cap. apply Nat.eqb_neq in Hc. rewrite Hc.
  destruct (drop_oldest mb _ (add_l1 st mb m)) as [d1 l2]. destruct Hd as [_ [H2 [H3 _]]].
  pose proof (add_fit_split cfg l2) as Hs. destruct (add_fit cfg l2) as [d2 l3]. simpl. subst l2.
  assert (Hl : (length (box mb' (d2 ++ l3)) <= c_cap cfg)%nat).
  { destruct (list_eq_dec N.eq_dec mb' mb) as [->|Hne].
    - rewrite H2, skipn_length. lia.
    - rewrite H3 by exact Hne. unfold add_l1. rewrite box_app. simpl.
      assert (ent_in mb' {| e_mb := mb; e_k := count_of mb (counts st); e_msg := m |} = false) as ->
        by (apply ent_in_neq; simpl; congruence).
      rewrite app_nil_r. exact H. }
  rewrite box_app, app_length in Hl. lia.
Qed.

Lemma exec_cap_bound cfg st o mb' : c_cap cfg <> 0%nat ->
  (length (box mb' (live st)) <= c_cap cfg)%nat ->
  (length (box mb' (live (fst (fst (exec_spec cfg st o))))) <= c_cap cfg)%nat.
Proof.
  intros Hc H. destruct o as [mb date tag size|mb h|mb|mb h|mb h|mb|]; simpl.
  - pose proof (add_cap_bound cfg st mb {| m_date := date; m_tag := tag; m_size := size; m_seen := false |} mb' Hc H) as H'.
    destruct (spec_add cfg st mb _) as [[st' k] evs]. exact H'.
  - destruct h; exact H.
  - exact H.
  - destruct (find_h mb h (live st)); [|exact H]. simpl.
    destruct (list_eq_dec N.eq_dec mb' mb) as [->|Hne].
    + rewrite box_seen_same, map_length. exact H.
    + rewrite box_seen_other by exact Hne. exact H.
  - destruct (find_h mb h (live st)); [|exact H]. simpl. unfold remove_ent. rewrite box_filter.
    pose proof (length_filter_le (fun e0 => negb (is_ent mb (e_k e) e0)) (box mb' (live st))). lia.
  - rewrite box_filter. pose proof (length_filter_le (fun e => negb (ent_in mb e)) (box mb' (live st))). lia.
  - exact H.
Qed.

(** [cap_bound]: with a cap, after every operation of every history no mailbox holds more
    messages than the cap. *)
Theorem cap_bound cfg ops mb : c_cap cfg <> 0%nat ->
  (length (box mb (live (final_spec cfg spec_init ops))) <= c_cap cfg)%nat.
Proof.
  intros Hc. assert (H : (length (box mb (live spec_init)) <= c_cap cfg)%nat) by (simpl; lia).
  revert H. generalize spec_init. induction ops as [|o ops IH]; intros st H; simpl; [exact H|].
  pose proof (exec_cap_bound cfg st o mb Hc H) as H'. destruct (exec_spec cfg st o) as [[st' ob] evs]. apply IH. exact H'.
Qed.

(** [cap_keeps_newest]: the cap step of a delivery leaves in the mailbox exactly the newest
    [cap] of (previous messages ++ the new one); other mailboxes are untouched. *)
Theorem cap_keeps_newest cfg st mb m :
  let sb := box mb (live st) ++ [{| e_mb := mb; e_k := count_of mb (counts st); e_msg := m |}] in
  let '(d1, l2) := add_cap cfg mb (add_l1 st mb m) in
  (c_cap cfg <> 0%nat -> box mb l2 = skipn (length sb - c_cap cfg) sb /\ d1 = firstn (length sb - c_cap cfg) sb) /\
  (forall mb', mb' <> mb -> box mb' l2 = box mb' (live st)).
Proof.
  intros sb. unfold add_cap, add_l1.
  set (nw := {| e_mb := mb; e_k := count_of mb (counts st); e_msg := m |}) in *.
  assert (Hb : box mb (live st ++ [nw]) = sb).
  { rewrite box_app. simpl. assert (ent_in mb nw = true) as -> by (apply ent_in_eq; reflexivity). reflexivity. }
  assert (Ho : forall mb', mb' <> mb -> box mb' (live st ++ [nw]) = box mb' (live st)).
  { intros mb' Hne. rewrite box_app. simpl. assert (ent_in mb' nw = false) as -> by (apply ent_in_neq; simpl; congruence).
    apply app_nil_r. }
  destruct (Nat.eqb (c_cap cfg) 0) eqn:E.
  - apply Nat.eqb_eq in E. split; [intros Hc; congruence | exact Ho].
  - pose proof (drop_oldest_spec mb (length (box mb (live st ++ [nw])) - c_cap cfg) (live st ++ [nw])) as H.
    destruct (drop_oldest mb _ (live st ++ [nw])) as [d1 l2]. destruct H as [H1 [H2 [H3 _]]]. rewrite Hb in *.
    split; [intros _; split; assumption|]. intros mb' Hne. rewrite H3 by exact Hne. apply Ho. exact Hne.
Qed.

(** C15: the history ring is "the last N dispatched, minus those deleted since, oldest first". *)
From Coq Require Import Lia.
From IV Require Import Base.Bytes Base.BytesFacts Model.Hub Proofs.HubBasics.
Local Open Scope nat_scope.

Lemma msg_eqb_eq a b : msg_eqb a b = true <-> a = b.
Proof.
  unfold msg_eqb. rewrite Bool.andb_true_iff, !str_eqb_eq. destruct a, b; cbn. split; [intros [-> ->]; auto|].
  intros E; inversion E; auto.
Qed.

Lemma msg_eqb_refl a : msg_eqb a a = true.
Proof. apply msg_eqb_eq. reflexivity. Qed.

(** ** cells *)

Definition cell (x : msg * bool) : option msg := if snd x then None else Some (fst x).
Definition cells (acc : list (msg * bool)) : list (option msg) := map cell acc.

Definition blank (m : msg) (c : option msg) : option msg :=
  match c with Some x => if msg_eqb x m then None else Some x | None => None end.

Lemma cells_mark m acc : cells (mark_deleted m acc) = map (blank m) (cells acc).
Proof.
  induction acc as [|[x d] t IH]; cbn [mark_deleted cells map]; auto.
  fold (cells (mark_deleted m t)). fold (cells t). rewrite IH. f_equal.
  unfold cell. cbn [fst snd]. destruct d; cbn [orb blank]; auto.
Qed.

Fixpoint count_match (m : msg) (r : list (option msg)) : nat :=
  match r with
  | [] => 0
  | Some x :: t => (if msg_eqb x m then 1 else 0) + count_match m t
  | None :: t => count_match m t
  end.

Lemma del_first_none m r : count_match m r = 0 -> del_first r m = None /\ map (blank m) r = r.
Proof.
  induction r as [|[x|] t IH]; cbn [count_match del_first map blank]; auto.
  - destruct (msg_eqb x m); [discriminate|]. cbn. intros H. destruct (IH H) as [-> ->]. auto.
  - intros H. destruct (IH H) as [-> ->]. auto.
Qed.

Lemma del_first_one m r : count_match m r = 1 -> del_first r m = Some (map (blank m) r).
Proof.
  induction r as [|[x|] t IH]; cbn [count_match del_first map blank]; [discriminate| |].
  - destruct (msg_eqb x m) eqn:E.
    + cbn. intros H. assert (H0 : count_match m t = 0) by lia. destruct (del_first_none m t H0) as [_ ->]. reflexivity.
    + cbn. intros H. rewrite (IH H). reflexivity.
  - intros H. rewrite (IH H). reflexivity.
Qed.

Lemma ring_del_blank m r : count_match m r <= 1 -> ring_del r m = map (blank m) r.
Proof.
  destruct r as [|h t]; cbn [ring_del map]; auto. intros H.
  destruct (count_match m t) as [|[|k]] eqn:C.
  - destruct (del_first_none m t C) as [-> ->].
    destruct h as [x|]; cbn [del_first blank]; auto. destruct (msg_eqb x m); reflexivity.
  - rewrite (del_first_one m t C). destruct h as [x|]; cbn [blank]; auto.
    cbn [count_match] in H. rewrite C in H. destruct (msg_eqb x m); [lia|reflexivity].
  - exfalso. destruct h as [x|]; cbn [count_match] in H; rewrite C in H; lia.
Qed.

(** ** last n *)

Lemma lastn_snoc_push n (L : list (option msg)) m :
  n <= length L -> ring_push (lastn n L) m = lastn n (L ++ [Some m]).
Proof.
  intros H. unfold lastn. rewrite app_length. cbn [length].
  replace (length L + 1 - n) with (S (length L - n)) by lia.
  remember (length L - n) as k. assert (Hk : k <= length L) by lia.
  destruct n as [|n].
  - assert (k = length L) by lia. subst k. rewrite H0. rewrite skipn_all. cbn [ring_push].
    rewrite skipn_all2; auto. rewrite app_length. cbn. lia.
  - assert (Hk2 : k < length L) by lia. clear Heqk H Hk. revert k Hk2.
    induction L as [|a t IH]; intros k Hk2; cbn [length] in Hk2; [lia|].
    destruct k as [|k].
    + cbn [skipn ring_push app]. reflexivity.
    + cbn [skipn app]. cbn [skipn] in IH. apply IH. lia.
Qed.

Lemma lastn_map {A B} (f : A -> B) n (L : list A) : lastn n (map f L) = map f (lastn n L).
Proof. unfold lastn. rewrite map_length, skipn_map. reflexivity. Qed.

Lemma count_match_skipn m k r : count_match m (skipn k r) <= count_match m r.
Proof.
  revert k. induction r as [|[x|] t IH]; intros [|k]; cbn [skipn count_match]; try lia.
  - specialize (IH k). lia.
  - apply IH.
Qed.

Lemma count_match_app m a b : count_match m (a ++ b) = count_match m a + count_match m b.
Proof. induction a as [|[x|] t IH]; cbn [app count_match]; auto. rewrite IH. lia. Qed.

Lemma count_match_nones m k : count_match m (repeat None k) = 0.
Proof. induction k; cbn; auto. Qed.

Lemma count_match_cells m acc : NoDup (map fst acc) -> count_match m (cells acc) <= 1.
Proof.
  induction acc as [|[x d] t IH]; cbn [map fst cells count_match]; [lia|].
  intros H. inversion H; subst. specialize (IH H3). fold (cells t). unfold cell. cbn [fst snd].
  destruct d; auto. destruct (msg_eqb x m) eqn:E; [|cbn; auto].
  apply msg_eqb_eq in E. subst x.
  assert (count_match m (cells t) = 0); [|lia].
  clear - H2. induction t as [|[y e] t IH]; cbn [cells map count_match]; auto.
  fold (cells t). unfold cell. cbn [fst snd]. cbn [map fst In] in H2.
  destruct e; [apply IH; tauto|]. destruct (msg_eqb y m) eqn:E.
  - apply msg_eqb_eq in E. subst. tauto.
  - cbn. apply IH. tauto.
Qed.

Lemma NoDup_app_l {A} (a b : list A) : NoDup (a ++ b) -> NoDup a.
Proof.
  induction a as [|x t IH]; cbn [app]; intros H; [constructor|].
  inversion H; subst. constructor; auto. rewrite in_app_iff in H2. tauto.
Qed.

(** ** the ring as a function of the dispatched/deleted record *)

Definition ring_of (n : nat) (acc : list (msg * bool)) : list (option msg) :=
  lastn n (repeat None n ++ cells acc).

Lemma dispatched_keys ops : forall acc, exists more, map fst (dispatched ops acc) = map fst acc ++ more.
Proof.
  induction ops as [|o t IH]; intros acc; cbn [dispatched].
  - exists []. rewrite app_nil_r. reflexivity.
  - destruct o; try apply IH.
    + destruct (IH (acc ++ [(m, false)])) as [more E]. exists (m :: more). rewrite E, map_app, <- app_assoc. reflexivity.
    + destruct (IH (mark_deleted m acc)) as [more E]. exists more. rewrite E. f_equal.
      clear. induction acc as [|[x d] t IH]; cbn; auto. rewrite IH. reflexivity.
Qed.

Lemma ring_after_is_ring_of n ops : forall acc,
  NoDup (map fst (dispatched ops acc)) ->
  ring_after (ring_of n acc) ops = ring_of n (dispatched ops acc).
Proof.
  induction ops as [|o t IH]; intros acc ND; cbn [ring_after dispatched] in *; auto.
  destruct o; auto.
  - rewrite <- IH by auto. f_equal. unfold ring_of.
    rewrite lastn_snoc_push by (rewrite app_length, repeat_length; lia).
    unfold cells. rewrite map_app, <- app_assoc. reflexivity.
  - rewrite <- IH by auto. f_equal. unfold ring_of. rewrite cells_mark.
    assert (NDa : NoDup (map fst acc)).
    { destruct (dispatched_keys t (mark_deleted m acc)) as [more E]. rewrite E in ND.
      apply NoDup_app_l in ND. revert ND. clear.
      assert (map fst (mark_deleted m acc) = map fst acc) as ->; auto.
      induction acc as [|[x d] t IH]; cbn; auto. rewrite IH. reflexivity. }
    rewrite ring_del_blank.
    + rewrite <- lastn_map, map_app. f_equal. f_equal.
      clear. induction n; cbn; auto. rewrite IHn. reflexivity.
    + unfold lastn. etransitivity; [apply count_match_skipn|].
      rewrite count_match_app, count_match_nones. apply count_match_cells. exact NDa.
Qed.

Lemma ring_live_nones k r : ring_live (repeat None k ++ r) = ring_live r.
Proof. induction k; cbn; auto. Qed.

Lemma ring_live_skipn_nones j k : ring_live (skipn j (repeat None k)) = [].
Proof.
  revert j. induction k as [|k IH]; intros [|j]; cbn [repeat skipn ring_live]; auto.
  rewrite <- (app_nil_r (repeat None k)). rewrite ring_live_nones. reflexivity.
Qed.

Lemma ring_live_cells acc : ring_live (cells acc) = map fst (filter (fun x => negb (snd x)) acc).
Proof.
  induction acc as [|[x d] t IH]; cbn [cells map ring_live filter]; auto.
  fold (cells t). unfold cell. cbn [fst snd]. destruct d; cbn [negb ring_live map fst]; rewrite IH; reflexivity.
Qed.

Lemma ring_live_ring_of n acc :
  ring_live (ring_of n acc) = map fst (filter (fun x => negb (snd x)) (lastn n acc)).
Proof.
  unfold ring_of, lastn. rewrite skipn_app, app_length, !repeat_length.
  replace (n + length (cells acc) - n) with (length (cells acc)) by lia.
  assert (forall a b, ring_live (a ++ b) = ring_live a ++ ring_live b) as RA.
  { induction a as [|[x|] t IH]; intros b; cbn [app ring_live]; auto. rewrite IH. reflexivity. }
  rewrite RA, ring_live_skipn_nones. cbn [app].
  unfold cells. rewrite map_length, skipn_map. apply ring_live_cells.
Qed.

(** The ring the hub keeps IS the declared history, provided no message id was dispatched
    twice (store ids are unique per mailbox). *)
Theorem ring_is_spec_history :
  forall n ops, NoDup (map fst (dispatched ops [])) ->
    ring_live (ring_after (ring_init n) ops) = spec_history n ops.
Proof.
  intros n ops ND. unfold spec_history.
  assert (ring_init n = ring_of n []) as ->.
  { unfold ring_of, ring_init, lastn. cbn [cells map]. rewrite app_nil_r, repeat_length.
    replace (n - n) with 0 by lia. reflexivity. }
  rewrite ring_after_is_ring_of by auto. apply ring_live_ring_of.
Qed.

(** ** What a joining listener receives first *)

Lemma view_es_extends l ops : forall v, v_joined v = true ->
  exists more, v_es (fold_left (view_step l) ops v) = v_es v ++ more.
Proof.
  induction ops as [|o t IH]; intros v J; cbn [fold_left].
  - exists []. rewrite app_nil_r. reflexivity.
  - assert (X : v_joined (view_step l v o) = true /\ exists m1, v_es (view_step l v o) = v_es v ++ m1).
    { destruct o; cbn [view_step].
      - split; auto. destruct (v_reg v); cbn [v_es]; eexists; [reflexivity|]. rewrite app_nil_r. reflexivity.
      - split; auto. destruct (v_reg v); cbn [v_es]; eexists; [reflexivity|]. rewrite app_nil_r. reflexivity.
      - rewrite J. rewrite Bool.andb_false_r. split; auto. exists []. rewrite app_nil_r. reflexivity.
      - destruct (Nat.eqb l0 l); cbn [v_joined v_es]; split; auto; exists []; rewrite app_nil_r; reflexivity.
      - split; auto. exists []. rewrite app_nil_r. reflexivity. }
    destruct X as [J1 [m1 E1]]. destruct (IH _ J1) as [m2 E2]. exists (m1 ++ m2).
    rewrite E2, E1, app_assoc. reflexivity.
Qed.

Lemma view_at_join n l pre post : ~ In l (adds pre) ->
  exists more, v_es (view_of n l (pre ++ OAdd l :: post))
               = map Stored (ring_live (ring_after (ring_init n) pre)) ++ more.
Proof.
  intros NA. unfold view_of. rewrite fold_left_app. cbn [fold_left].
  destruct (view_not_added n l pre NA) as (E1 & E2 & E3). unfold view_of in E1, E2, E3.
  set (v := fold_left (view_step l) pre (mkV (ring_init n) [] false false)) in *.
  assert (view_step l v (OAdd l) = mkV (v_ring v) (map Stored (ring_live (v_ring v))) true true) as ->.
  { cbn [view_step]. rewrite Nat.eqb_refl, E2. reflexivity. }
  destruct (view_es_extends l post (mkV (v_ring v) (map Stored (ring_live (v_ring v))) true true) eq_refl) as [more E].
  exists more. rewrite E. cbn [v_es]. unfold v. rewrite v_ring_fold. reflexivity.
Qed.

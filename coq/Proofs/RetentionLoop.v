(** Proofs about the run loop of the retention scanner ([Model/RetentionLoop.v], C12), over ALL
    schedules of clock ticks, cancellations, other clients' operations and loop moves. *)
From Coq Require Import List Arith Lia ZArith Sorted.
From IV Require Import Base.Bytes Base.BytesFacts Model.StoreSpec Model.Retention Model.RetentionLoop
  Proofs.StoreSpecFacts Proofs.Retention.
Import ListNotations.
Local Open Scope Z_scope.

Section Loop.
Variable cfg : scfg.
Variable period : Z.
Variable enum : spec_store -> list str.

Notation lstep := (lev_step cfg period enum).
Notation run := (lrun cfg period enum).
Notation lp := (loop_step cfg period enum).

Lemma lrun_cons y e r : run y (e :: r) = run (lstep y e) r.
Proof. reflexivity. Qed.

Lemma lrun_app y a b : run y (a ++ b) = run (run y a) b.
Proof. unfold lrun. apply fold_left_app. Qed.

(* ------------------------------------------------------------------ (a) once Start has returned *)

Lemma exit_absorbing evs : forall y, l_mode y = LExit ->
  let y' := run y evs in
  l_mode y' = LExit /\ l_closed y' = l_closed y /\ s_st (l_sys y') = apply_ops cfg (s_st (l_sys y)) evs /\
  l_log y' = l_log y /\ l_starts y' = l_starts y /\ l_visits y' = l_visits y /\ l_done y' = l_done y.
Proof.
  induction evs as [|e evs IH]; intros y M; [cbn; auto 10|].
  rewrite lrun_cons. destruct e as [d| |o|tf]; cbn [apply_ops].
  - destruct (IH (lstep y (LTick d)) M) as [A [B [C [D [E [F G]]]]]]. cbv zeta. auto 10.
  - destruct (IH (lstep y LCancelEv) M) as [A [B [C [D [E [F G]]]]]]. cbv zeta. auto 10.
  - destruct (IH (lstep y (LOp o)) M) as [A [B [C [D [E [F G]]]]]]. cbv zeta. auto 10.
  - assert (S : lstep y (LStep tf) = y) by (cbn [lev_step]; unfold loop_step; rewrite M; reflexivity).
    rewrite S. apply IH. exact M.
Qed.

(** (a) period <= 0: Start returns at once (Join returns), and whatever happens afterwards the
    store is exactly what the other clients made of it; no scan ever starts. *)
Lemma loop_disabled now st evs :
  period <= 0 ->
  let y := run (linit period now st) evs in
  l_mode y = LExit /\ l_closed y = true /\ s_st (l_sys y) = apply_ops cfg st evs /\
  l_log y = [] /\ l_starts y = [] /\ l_visits y = O.
Proof.
  intros P. apply Z.leb_le in P.
  assert (M : l_mode (linit period now st) = LExit) by (unfold linit; cbn [l_mode]; rewrite P; reflexivity).
  destruct (exit_absorbing evs _ M) as [A [B [C [D [E [F G]]]]]]. cbv zeta.
  repeat split; try assumption.
  - rewrite B. unfold linit. cbn [l_closed]. exact P.
Qed.

(* ------------------------------------------------------------------ (b) one scan per minute *)

Fixpoint spaced (base : Z) (l : list Z) : Prop :=
  match l with
  | [] => True
  | a :: r => hd base r + minute <= a /\ spaced base r
  end.

Definition BInv (base : Z) (y : lstate) : Prop :=
  l_last y <= l_now y /\ l_last y = hd base (l_starts y) /\ spaced base (l_starts y).

Lemma BInv_step base y e : BInv base y -> BInv base (lstep y e).
Proof.
  intros [A [B C]]. destruct e as [d| |o|tf]; cbn [lev_step].
  - unfold BInv. cbn [l_last l_now l_starts]. repeat split; try assumption. lia.
  - exact (conj A (conj B C)).
  - exact (conj A (conj B C)).
  - unfold loop_step. destruct (l_mode y) eqn:M.
    + destruct (s_cancel (l_sys y) && (negb (l_last y + minute <=? l_now y) || negb tf)); [exact (conj A (conj B C))|].
      destruct (l_last y + minute <=? l_now y) eqn:D; [|exact (conj A (conj B C))].
      apply Z.leb_le in D. unfold BInv. cbn [l_last l_now l_starts hd spaced]. repeat split; try lia; try assumption.
    + destruct (is_done (s_phase (l_sys y))); exact (conj A (conj B C)).
    + destruct (s_cancel (l_sys y)); exact (conj A (conj B C)).
    + exact (conj A (conj B C)).
Qed.

(** (b) consecutive scans start at least a minute apart, the first one at least a minute
    after Start was called. *)
Lemma one_scan_per_minute now st evs : spaced now (l_starts (run (linit period now st) evs)).
Proof.
  assert (G : forall evs y, BInv now y -> BInv now (run y evs)).
  { induction evs0 as [|e r IH]; intros y H; [exact H|]. rewrite lrun_cons. apply IH. apply BInv_step. exact H. }
  apply G. unfold BInv, linit. cbn. repeat split; lia.
Qed.

(* ------------------------------------------------------------------ facts about one scanner move *)

Lemma sc_step_cancel c tf s : s_cancel (sc_step cfg c tf s) = s_cancel s.
Proof.
  unfold sc_step. destruct (s_phase s) as [|mb [|v rest]|b]; try reflexivity.
  - destruct (s_todo s); reflexivity.
  - destruct (s_cancel s && negb tf); reflexivity.
  - destruct (expired c (snd v)); reflexivity.
Qed.

Lemma sc_step_removed c tf s : exists delta, s_removed (sc_step cfg c tf s) = s_removed s ++ delta.
Proof.
  unfold sc_step. destruct (s_phase s) as [|mb [|v rest]|b].
  - destruct (s_todo s); exists []; cbn; rewrite app_nil_r; reflexivity.
  - destruct (s_cancel s && negb tf); exists []; cbn; rewrite app_nil_r; reflexivity.
  - destruct (expired c (snd v)); [eexists; reflexivity|exists []; cbn; rewrite app_nil_r; reflexivity].
  - exists []. rewrite app_nil_r. reflexivity.
Qed.

Lemma skipn_length_app {A} (a b : list A) : skipn (length a) (a ++ b) = b.
Proof. induction a as [|x a IH]; [reflexivity|exact IH]. Qed.

(** A scanner move only takes entries out of the store. *)
Lemma sc_step_live_sub c tf s e : In e (live (s_st (sc_step cfg c tf s))) -> In e (live (s_st s)).
Proof.
  unfold sc_step. destruct (s_phase s) as [|mb [|v rest]|b]; try (intros H; exact H).
  - destruct (s_todo s); intros H; exact H.
  - destruct (s_cancel s && negb tf); intros H; exact H.
  - destruct (expired c (snd v)); [|intros H; exact H]. cbn [s_st].
    destruct (do_remove_live cfg (s_st s) mb (fst v)) as [L _]. rewrite L. unfold remove_ent. intros H.
    apply filter_In in H. tauto.
Qed.

(* ------------------------------------------------------------------ (c) cancellation *)

Definition cancelled (y : lstate) : Prop := s_cancel (l_sys y) = true.

Lemma cancelled_step y e : cancelled y -> cancelled (lstep y e).
Proof.
  unfold cancelled. intros C. destruct e as [d| |o|tf]; cbn [lev_step l_sys with_sys ev_step s_cancel]; try assumption; try reflexivity.
  unfold loop_step. destruct (l_mode y).
  - rewrite C. destruct (negb (l_last y + minute <=? l_now y) || negb tf); cbn [andb]; [exact C|].
    destruct (l_last y + minute <=? l_now y); [reflexivity|exact C].
  - destruct (is_done (s_phase (l_sys y))); cbn [l_sys]; [exact C|]. rewrite sc_step_cancel. exact C.
  - rewrite C. exact C.
  - exact C.
Qed.

(** How many more mailbox callbacks a cancelled loop can still start. *)
Definition cap (y : lstate) : nat :=
  match l_mode y with
  | LWait => 1
  | LScan _ => if is_idle (s_phase (l_sys y)) then 1 else 0
  | _ => 0
  end.

Definition tick (tf : bool) : nat := if tf then 1 else 0.

(** Moves at which a timer wins its select although ctx is done. *)
Fixpoint timer_wins (evs : list lev) : nat :=
  match evs with [] => 0 | LStep tf :: r => tick tf + timer_wins r | _ :: r => timer_wins r end.

(** In every move of the schedule the ctx case wins: true of the code once shutdown is
    requested as long as the timers involved have not expired (RetentionSleep not near 0). *)
Definition lctx_first (evs : list lev) : Prop := forall tf, In (LStep tf) evs -> tf = false.

Lemma lctx_first_wins evs : lctx_first evs -> timer_wins evs = 0%nat.
Proof.
  induction evs as [|e r IH]; intros F; [reflexivity|].
  assert (F' : lctx_first r) by (intros tf H; apply F; right; exact H).
  destruct e as [d| |o|tf]; cbn [timer_wins]; try (apply IH; exact F').
  rewrite (F tf (or_introl eq_refl)). cbn. apply IH. exact F'.
Qed.

Lemma budget_step y e : cancelled y ->
  (l_visits (lstep y e) + cap (lstep y e) <= l_visits y + cap y + match e with LStep tf => tick tf | _ => 0 end)%nat.
Proof.
  unfold cancelled. intros C. destruct e as [d| |o|tf]; cbn [lev_step]; try (unfold cap; cbn; lia).
  unfold loop_step. destruct (l_mode y) eqn:M.
  - rewrite C. destruct (negb (l_last y + minute <=? l_now y) || negb tf); cbn [andb].
    + unfold cap. rewrite M. cbn. lia.
    + destruct (l_last y + minute <=? l_now y); unfold cap; rewrite ?M; cbn; lia.
  - unfold cap at 2. rewrite M. destruct (s_phase (l_sys y)) as [|mb rest|b] eqn:P; cbn [is_done is_idle].
    + unfold cap. cbn [l_mode l_sys l_visits]. unfold sc_step. rewrite P. destruct (s_todo (l_sys y)); cbn; lia.
    + unfold cap. cbn [l_mode l_sys l_visits]. unfold sc_step. rewrite P. destruct rest as [|v rest].
      * rewrite C. destruct tf; cbn; lia.
      * destruct (expired cutoff (snd v)); cbn; lia.
    + unfold cap. cbn. lia.
  - rewrite C. unfold cap. cbn. lia.
  - unfold cap. rewrite M. lia.
Qed.

(** (c), safety: once shutdown is requested, the number of mailbox callbacks still started is
    at most one plus the number of moves at which an (already expired) timer wins its select
    against ctx.Done — whatever the schedule. *)
Lemma cancel_callbacks_bounded evs : forall y, cancelled y ->
  (l_visits (run y evs) <= l_visits y + 1 + timer_wins evs)%nat.
Proof.
  assert (G : forall evs y, cancelled y -> (l_visits (run y evs) + cap (run y evs) <= l_visits y + cap y + timer_wins evs)%nat).
  { induction evs0 as [|e r IH]; intros y C; [cbn; lia|]. rewrite lrun_cons.
    pose proof (IH _ (cancelled_step y e C)). pose proof (budget_step y e C).
    destruct e; cbn [timer_wins]; lia. }
  intros y C. specialize (G evs y C). assert (cap y <= 1)%nat.
  { unfold cap. destruct (l_mode y); try lia. destruct (is_idle _); lia. }
  lia.
Qed.

(** …hence at most ONE more callback when the ctx case wins every select (timers not expired). *)
Lemma cancel_one_callback evs y : lctx_first evs -> cancelled y -> (l_visits (run y evs) <= l_visits y + 1)%nat.
Proof. intros F C. pose proof (cancel_callbacks_bounded evs y C). rewrite (lctx_first_wins evs F) in H. lia. Qed.

(** Progress measure of a cancelled loop inside a callback / after the scan. *)
Definition settled (y : lstate) : Prop :=
  match l_mode y with
  | LScan _ => is_idle (s_phase (l_sys y)) = false
  | LWait => False
  | _ => True
  end.

Definition togo (y : lstate) : nat :=
  match l_mode y with
  | LExit => 0
  | LCheck => 1
  | LScan _ => match s_phase (l_sys y) with PDone _ => 2 | PBox _ rest => 3 + length rest | PIdle => 0 end
  | LWait => 0
  end.

Fixpoint lsteps_in (evs : list lev) : nat :=
  match evs with [] => 0 | LStep _ :: r => S (lsteps_in r) | _ :: r => lsteps_in r end.

Lemma settled_step y e : cancelled y -> settled y -> e <> LStep true ->
  settled (lstep y e) /\ cancelled (lstep y e) /\
  match e with LStep _ => l_mode y = LExit \/ (togo (lstep y e) < togo y)%nat | _ => togo (lstep y e) = togo y end.
Proof.
  intros C S NT. split; [|split; [apply cancelled_step; exact C|]].
  - unfold settled in *. destruct e as [d| |o|tf]; cbn [lev_step]; try exact S.
    destruct tf; [congruence|].
    unfold loop_step. destruct (l_mode y) eqn:M; try contradiction.
    + destruct (s_phase (l_sys y)) as [|mb rest|b] eqn:P; cbn [is_done]; [discriminate S| |exact I].
      cbn [l_mode l_sys]. unfold sc_step. rewrite P. destruct rest as [|v rest].
      * unfold cancelled in C. rewrite C. reflexivity.
      * destruct (expired cutoff (snd v)); reflexivity.
    + unfold cancelled in C. rewrite C. exact I.
    + rewrite M. exact I.
  - unfold settled, togo in *. destruct e as [d| |o|tf]; cbn [lev_step]; try reflexivity.
    destruct tf; [congruence|].
    unfold loop_step. destruct (l_mode y) eqn:M; try contradiction.
    + right. destruct (s_phase (l_sys y)) as [|mb rest|b] eqn:P; cbn [is_done]; [discriminate S| |cbn; lia].
      cbn [l_mode l_sys]. unfold sc_step. rewrite P. destruct rest as [|v rest].
      * unfold cancelled in C. rewrite C. cbn. lia.
      * destruct (expired cutoff (snd v)); cbn; lia.
    + right. unfold cancelled in C. rewrite C. cbn. lia.
    + left. reflexivity.
Qed.

(** (c), progress: inside a callback (or behind the scan) a cancelled loop whose timers have not
    expired has returned after (entries left in the snapshot + 3) of its own moves, whatever
    else happens meanwhile. (Each entry left may cost one RemoveMessage call: a mailbox with n
    expired messages delays shutdown by up to n removals.) *)
Lemma cancel_exits evs : forall y, lctx_first evs -> cancelled y -> settled y -> (togo y <= lsteps_in evs)%nat ->
  l_mode (run y evs) = LExit.
Proof.
  induction evs as [|e r IH]; intros y F C S L.
  - change (run y []) with y. cbn in L. unfold settled, togo in *. destruct (l_mode y); try reflexivity; try contradiction; try lia.
    destruct (s_phase (l_sys y)); cbn in *; try discriminate S; try lia.
  - assert (F' : lctx_first r) by (intros tf H; apply F; right; exact H).
    assert (NT : e <> LStep true) by (intros ->; specialize (F true (or_introl eq_refl)); discriminate).
    rewrite lrun_cons. destruct (settled_step y e C S NT) as [S' [C' T]].
    destruct e as [d| |o|tf]; cbn [lsteps_in] in L; try (apply IH; [exact F'|exact C'|exact S'|lia]).
    destruct T as [M|T]; [|apply IH; [exact F'|exact C'|exact S'|lia]].
    assert (E : lstep y (LStep tf) = y) by (cbn [lev_step]; unfold loop_step; rewrite M; reflexivity).
    rewrite E. apply exit_absorbing. exact M.
Qed.

(** Between callbacks — or when an expired sleep timer wins at a callback end — a cancelled loop
    is one move away from [settled], from the end, or from a scan between two mailboxes. *)
Lemma cancel_unsettled y tf : cancelled y -> settled (lp y tf) \/ l_mode (lp y tf) = LExit \/
  (exists c, l_mode (lp y tf) = LScan c /\ s_phase (l_sys (lp y tf)) = PIdle).
Proof.
  unfold cancelled. intros C. unfold loop_step, settled. destruct (l_mode y) eqn:M.
  - rewrite C. destruct (l_last y + minute <=? l_now y); cbn [negb orb andb]; [|right; left; reflexivity].
    destruct tf; cbn [negb]; [right; right; eexists; split; reflexivity|right; left; reflexivity].
  - destruct (s_phase (l_sys y)) as [|mb rest|b] eqn:P; cbn [is_done]; [| |left; exact I].
    + left. cbn [l_mode l_sys]. unfold sc_step. rewrite P. destruct (s_todo (l_sys y)); reflexivity.
    + cbn [l_mode l_sys]. unfold sc_step. rewrite P. destruct rest as [|v rest].
      * rewrite C. destruct tf; cbn [negb andb]; [right; right; eexists; split; reflexivity|left; reflexivity].
      * left. destruct (expired cutoff (snd v)); reflexivity.
  - rewrite C. right; left; reflexivity.
  - right; left. exact M.
Qed.

(** Join returns exactly when Start has returned. *)
Lemma exit_closed now st evs : let y := run (linit period now st) evs in l_mode y = LExit <-> l_closed y = true.
Proof.
  assert (G : forall evs y, (l_mode y = LExit <-> l_closed y = true) -> (l_mode (run y evs) = LExit <-> l_closed (run y evs) = true)).
  { induction evs0 as [|e r IH]; intros y H; [exact H|]. rewrite lrun_cons. apply IH.
    destruct e as [d| |o|tf]; cbn [lev_step]; try exact H.
    unfold loop_step. destruct (l_mode y) eqn:M.
    - destruct (s_cancel (l_sys y) && _); [cbn; tauto|]. destruct (_ <=? _); [cbn; split; discriminate|rewrite M; exact H].
    - destruct (is_done _); cbn; split; discriminate.
    - destruct (s_cancel (l_sys y)); [cbn; tauto|]. cbn. destruct H as [_ H2]. split; [discriminate|].
      intros K. specialize (H2 K). discriminate.
    - rewrite M. exact H. }
  apply G. unfold linit. cbn. destruct (period <=? 0); split; congruence.
Qed.

(* ------------------------------------------------------------------ (d) no young message is ever deleted *)

Definition log_young (y : lstate) : Prop :=
  Forall (fun p => m_date (e_msg (fst p)) < snd p - period) (l_log y).

Definition YInv (y : lstate) : Prop :=
  SInv (s_st (l_sys y)) /\
  match l_mode y with LScan c => c <= l_now y - period /\ Inv c (l_sys y) | _ => True end /\
  log_young y.

Lemma YInv_step y e : YInv y -> YInv (lstep y e).
Proof.
  intros [S [M L]]. destruct e as [d| |o|tf]; cbn [lev_step].
  - split; [exact S|split; [|exact L]]. cbn [l_mode l_now l_sys]. destruct (l_mode y); try exact I.
    destruct M as [M1 M2]. split; [lia|exact M2].
  - split; [exact S|split; [|exact L]]. cbn [with_sys l_mode l_now l_sys]. destruct (l_mode y); try exact I.
    destruct M as [M1 M2]. split; [exact M1|]. apply (Inv_step cfg cutoff (l_sys y) ECancel M2).
  - split; [apply exec_spec_SInv; exact S|split; [|exact L]]. cbn [with_sys l_mode l_now l_sys]. destruct (l_mode y); try exact I.
    destruct M as [M1 M2]. split; [exact M1|]. apply (Inv_step cfg cutoff (l_sys y) (EOp o) M2).
  - unfold loop_step. destruct (l_mode y) eqn:Md.
    + destruct (s_cancel (l_sys y) && _); [split; [exact S|split; [exact I|exact L]]|].
      destruct (l_last y + minute <=? l_now y); [|split; [exact S|split; [rewrite Md; exact I|exact L]]].
      split; [exact S|split; [|exact L]]. cbn [l_mode l_now l_sys]. split; [lia|].
      split; [exact S|split; [constructor|exact I]].
    + destruct M as [M1 M2]. destruct (is_done (s_phase (l_sys y))); [split; [exact S|split; [exact I|exact L]]|].
      pose proof (Inv_step cfg cutoff (l_sys y) (EStep tf) M2) as M3. cbn [ev_step] in M3.
      split; [exact (proj1 M3)|split; [cbn [l_mode l_now l_sys]; split; assumption|]].
      unfold log_young. cbn [l_log]. apply Forall_app. split; [exact L|].
      destruct (sc_step_removed cutoff tf (l_sys y)) as [delta E]. rewrite E, skipn_length_app.
      destruct M3 as [_ [R _]]. rewrite E in R. apply Forall_app in R as [_ R].
      apply Forall_forall. intros p Hp. apply in_map_iff in Hp as [x [<- Hx]]. cbn [fst snd].
      rewrite Forall_forall in R. specialize (R x Hx). unfold expired in R. apply Z.ltb_lt in R. lia.
    + destruct (s_cancel (l_sys y)); split; try exact S; split; try exact I; exact L.
    + split; [exact S|split; [rewrite Md; exact I|exact L]].
Qed.

(** (d), safety: every message a scan of the loop ever removes is, at that moment, older than
    the retention period — whatever is delivered, removed or cancelled meanwhile. *)
Lemma loop_never_deletes_young now st evs : SInv st -> log_young (run (linit period now st) evs).
Proof.
  intros S.
  assert (G : forall evs y, YInv y -> YInv (run y evs)).
  { induction evs0 as [|e r IH]; intros y H; [exact H|]. rewrite lrun_cons. apply IH. apply YInv_step. exact H. }
  apply G. split; [exact S|split; [|constructor]]. unfold linit. cbn [l_mode]. destruct (period <=? 0); exact I.
Qed.

(** …and a move of the loop takes nothing out of the store that it does not log. *)
Lemma loop_step_logs y tf e :
  In e (live (s_st (l_sys y))) ->
  In e (live (s_st (l_sys (lp y tf)))) \/ In (e, l_now y) (l_log (lp y tf)).
Proof.
  intros He. unfold loop_step. destruct (l_mode y); try (left; exact He).
  - destruct (s_cancel (l_sys y) && _); [left; exact He|]. destruct (_ <=? _); left; exact He.
  - destruct (is_done (s_phase (l_sys y))); [left; exact He|]. cbn [l_sys l_log].
    unfold sc_step. destruct (s_phase (l_sys y)) as [|mb [|v rest]|b]; try (left; exact He).
    + destruct (s_todo (l_sys y)); left; exact He.
    + destruct (s_cancel (l_sys y) && negb tf); left; exact He.
    + destruct (expired cutoff (snd v)); [|left; exact He]. cbn [s_st s_removed].
      destruct (do_remove_live cfg (s_st (l_sys y)) mb (fst v)) as [L _]. rewrite L, skipn_length_app.
      destruct (is_ent mb (fst v) e) eqn:E.
      * right. apply in_or_app. right. apply in_map_iff. exists e. split; [reflexivity|apply filter_In; auto].
      * left. unfold remove_ent. apply filter_In. rewrite E. auto.
  - destruct (s_cancel (l_sys y)); left; exact He.
Qed.

(* ------------------------------------------------------------------ (d) expired messages go *)

Lemma SInv_lstep y e : SInv (s_st (l_sys y)) -> SInv (s_st (l_sys (lstep y e))).
Proof.
  intros S. destruct e as [d| |o|tf]; cbn [lev_step with_sys l_sys ev_step s_st]; try exact S.
  - apply exec_spec_SInv. exact S.
  - unfold loop_step. destruct (l_mode y); try exact S.
    + destruct (s_cancel (l_sys y) && _); [exact S|]. destruct (_ <=? _); exact S.
    + destruct (is_done (s_phase (l_sys y))); [exact S|]. cbn [l_sys]. unfold sc_step.
      destruct (s_phase (l_sys y)) as [|mb [|v rest]|b]; try exact S.
      * destruct (s_todo (l_sys y)); exact S.
      * destruct (s_cancel (l_sys y) && negb tf); exact S.
      * destruct (expired cutoff (snd v)); [apply do_remove_SInv|]; exact S.
    + destruct (s_cancel (l_sys y)); exact S.
Qed.

Section Target.
Variable mb0 : str.
Variable k0 : nat.
Variable d0 : Z.
Hypothesis enum_covers : forall st e, SInv st -> In e (live st) -> In (e_mb e) (enum st).

Definition GBase (st : spec_store) : Prop :=
  (k0 < count_of mb0 (counts st))%nat /\
  forall e, In e (live st) -> is_ent mb0 k0 e = true -> m_date (e_msg e) = d0.

Lemma GBase_op st o : GBase st -> GBase (fst (fst (exec_spec cfg st o))).
Proof.
  intros [Lt Dt]. pose proof (exec_spec_count_mono cfg st o mb0) as Mono. split; [lia|].
  intros e' He' Ee'. pose proof Ee' as Ee2. apply is_ent_iff in Ee2 as [Em Ek].
  destruct (exec_spec_origin cfg st o e' He') as [[e [He [M [K D]]]]|New].
  - rewrite <- D. apply Dt; [exact He|]. apply is_ent_iff. split; congruence.
  - rewrite Em, Ek in New. lia.
Qed.

Definition QInv (y : lstate) : Prop :=
  GBase (s_st (l_sys y)) /\ d0 < l_now y - period /\
  match l_mode y with
  | LScan c => d0 < c /\ GInv c mb0 k0 d0 (l_sys y)
  | LCheck => forall ts, hd_error (l_done y) = Some (ts, false) -> ~ present mb0 k0 (s_st (l_sys y))
  | _ => True
  end.

Lemma GInv_base c s : GInv c mb0 k0 d0 s -> GBase (s_st s).
Proof. intros [A [B _]]. split; assumption. Qed.

Lemma QInv_step y e : SInv (s_st (l_sys y)) -> QInv y -> QInv (lstep y e).
Proof.
  intros SI [B [T M]]. destruct e as [d| |o|tf]; cbn [lev_step].
  - split; [exact B|split; [cbn [l_now]; lia|exact M]].
  - split; [exact B|split; [exact T|]]. cbn [with_sys l_mode l_sys l_done]. destruct (l_mode y); exact M.
  - split; [apply GBase_op; exact B|split; [exact T|]]. cbn [with_sys l_mode l_sys l_done ev_step s_st].
    destruct (l_mode y); try exact M.
    + destruct M as [M1 M2]. split; [exact M1|]. pose proof M1 as M1'. apply Z.ltb_lt in M1'.
      apply (GInv_step cfg cutoff mb0 k0 d0 M1' (l_sys y) (EOp o) M2).
    + intros ts H P. apply (M ts H). apply (present_op cfg mb0 k0 _ o P). exact (proj1 B).
  - unfold loop_step. destruct (l_mode y) eqn:Md.
    + destruct (s_cancel (l_sys y) && _); [split; [exact B|split; [exact T|exact I]]|].
      destruct (l_last y + minute <=? l_now y); [|split; [exact B|split; [exact T|rewrite Md; exact I]]].
      split; [exact B|split; [exact T|]]. cbn [l_mode l_sys]. split; [exact T|].
      destruct B as [B1 B2]. split; [exact B1|split; [exact B2|]]. cbn [s_phase scan_sys s_st s_todo].
      intros [e [He Ee]]. apply is_ent_iff in Ee as [Em _]. rewrite <- Em. apply enum_covers; [exact SI|exact He].
    + destruct M as [M1 M2]. destruct (s_phase (l_sys y)) as [|mb rest|b] eqn:P; cbn [is_done].
      * pose proof M1 as M1'. apply Z.ltb_lt in M1'.
        pose proof (GInv_step cfg cutoff mb0 k0 d0 M1' (l_sys y) (EStep tf) M2) as M3. cbn [ev_step] in M3.
        split; [exact (GInv_base _ _ M3)|split; [exact T|]]. cbn [l_mode l_sys]. split; assumption.
      * pose proof M1 as M1'. apply Z.ltb_lt in M1'.
        pose proof (GInv_step cfg cutoff mb0 k0 d0 M1' (l_sys y) (EStep tf) M2) as M3. cbn [ev_step] in M3.
        split; [exact (GInv_base _ _ M3)|split; [exact T|]]. cbn [l_mode l_sys]. split; assumption.
      * split; [exact B|split; [exact T|]]. cbn [l_mode l_done l_sys hd_error].
        intros ts H. inversion H; subst. destruct M2 as [_ [_ M2]]. rewrite P in M2. exact M2.
    + destruct (s_cancel (l_sys y)); split; try exact B; split; try exact T; exact I.
    + split; [exact B|split; [exact T|rewrite Md; exact I]].
Qed.

Lemma QInv_run evs : forall y, SInv (s_st (l_sys y)) -> QInv y -> QInv (run y evs).
Proof.
  induction evs as [|e r IH]; intros y SI H; [exact H|]. rewrite lrun_cons.
  apply IH; [apply SInv_lstep; exact SI|apply QInv_step; assumption].
Qed.

(** Once gone, a message (its handle) never comes back. *)
Lemma absent_forever evs : forall y,
  GBase (s_st (l_sys y)) -> ~ present mb0 k0 (s_st (l_sys y)) -> ~ present mb0 k0 (s_st (l_sys (run y evs))).
Proof.
  induction evs as [|e r IH]; intros y B N; [exact N|]. rewrite lrun_cons. destruct e as [d| |o|tf].
  - apply IH; assumption.
  - apply IH; assumption.
  - apply IH; cbn [lev_step with_sys l_sys ev_step s_st]; [apply GBase_op; exact B|].
    intros P. apply N. apply (present_op cfg mb0 k0 _ o P). exact (proj1 B).
  - assert (Sub : forall x, In x (live (s_st (l_sys (lp y tf)))) -> In x (live (s_st (l_sys y)))).
    { intros x. unfold loop_step. destruct (l_mode y); try (intros H; exact H).
      - destruct (s_cancel (l_sys y) && _); [intros H; exact H|]. destruct (_ <=? _); intros H; exact H.
      - destruct (is_done (s_phase (l_sys y))); [intros H; exact H|]. cbn [l_sys]. apply sc_step_live_sub.
      - destruct (s_cancel (l_sys y)); intros H; exact H. }
    assert (Cn : counts (s_st (l_sys (lp y tf))) = counts (s_st (l_sys y))).
    { unfold loop_step. destruct (l_mode y); try reflexivity.
      - destruct (s_cancel (l_sys y) && _); [reflexivity|]. destruct (_ <=? _); reflexivity.
      - destruct (is_done (s_phase (l_sys y))); [reflexivity|]. cbn [l_sys]. unfold sc_step.
        destruct (s_phase (l_sys y)) as [|mb [|v rest]|b]; try reflexivity.
        + destruct (s_todo (l_sys y)); reflexivity.
        + destruct (s_cancel (l_sys y) && negb tf); reflexivity.
        + destruct (expired cutoff (snd v)); [|reflexivity]. cbn [s_st]. apply do_remove_live.
      - destruct (s_cancel (l_sys y)); reflexivity. }
    apply IH; cbn [lev_step].
    + destruct B as [B1 B2]. split; [rewrite Cn; exact B1|]. intros x Hx. apply B2. apply Sub. exact Hx.
    + intros [x [Hx Ex]]. apply N. exists x. split; [apply Sub; exact Hx|exact Ex].
Qed.

End Target.

(** (d), liveness: a message seen older than the period while the loop is waiting is gone — for
    good — as soon as one scan has run to completion afterwards, whatever other clients do
    meanwhile. (With [loop_scan_due] and [scan_progress]: such a scan starts with the first
    move of the loop once a minute has passed since the previous one started, and every move
    of an uncancelled scan brings it closer to completion.) *)
Lemma loop_deletes_expired y0 e evs1 evs2 ts :
  (forall st x, SInv st -> In x (live st) -> In (e_mb x) (enum st)) ->
  SInv (s_st (l_sys y0)) -> l_mode y0 = LWait ->
  In e (live (s_st (l_sys y0))) -> m_date (e_msg e) < l_now y0 - period ->
  l_mode (run y0 evs1) = LCheck -> hd_error (l_done (run y0 evs1)) = Some (ts, false) ->
  forall e', In e' (live (s_st (l_sys (run y0 (evs1 ++ evs2))))) -> ~ (e_mb e' = e_mb e /\ e_k e' = e_k e).
Proof.
  intros Cov S M He Old M1 D1 e' He' [Em Ek].
  assert (B0 : GBase (e_mb e) (e_k e) (m_date (e_msg e)) (s_st (l_sys y0))).
  { destruct S as [SS LT]. split; [apply LT; exact He|].
    intros x Hx Ex. apply is_ent_iff in Ex as [Xm Xk]. assert (x = e); [|subst; reflexivity].
    eapply SS_klt_inj; [apply (SS (e_mb e))|apply box_in; auto|apply box_in; auto|exact Xk]. }
  assert (Q0 : QInv (e_mb e) (e_k e) (m_date (e_msg e)) y0) by (split; [exact B0|split; [exact Old|rewrite M; exact I]]).
  pose proof (QInv_run _ _ _ Cov evs1 y0 S Q0) as [B1 [_ Q1]]. rewrite M1 in Q1. specialize (Q1 ts D1).
  rewrite lrun_app in He'.
  apply (absent_forever _ _ _ evs2 (run y0 evs1) B1 Q1). exists e'. split; [exact He'|]. apply is_ent_iff. auto.
Qed.

(** The periodic scan: a waiting, uncancelled loop whose minute has passed starts a scan with
    its next move, with cutoff = now - period. *)
Lemma loop_scan_due y tf :
  l_mode y = LWait -> s_cancel (l_sys y) = false -> l_last y + minute <= l_now y ->
  l_mode (lp y tf) = LScan (l_now y - period) /\ l_starts (lp y tf) = l_now y :: l_starts y /\
  s_todo (l_sys (lp y tf)) = enum (s_st (l_sys y)) /\ s_phase (l_sys (lp y tf)) = PIdle.
Proof.
  intros M C D. apply Z.leb_le in D. unfold loop_step. rewrite M, C, D. cbn. auto.
Qed.

(** …and every move of a scan that is not cancelled brings it closer to its end: the pair
    (mailboxes still to visit, entries left in the current snapshot) decreases lexicographically
    — other clients' operations change neither. *)
Definition scan_measure (s : sys) : nat * nat :=
  match s_phase s with
  | PIdle => (S (length (s_todo s)), O)
  | PBox _ rest => (S (length (s_todo s)), S (length rest))
  | PDone _ => (O, O)
  end.

Definition lex_lt (a b : nat * nat) : Prop := (fst a < fst b)%nat \/ (fst a = fst b /\ (snd a < snd b)%nat).

Lemma scan_progress c tf s : s_cancel s = false -> (exists b, s_phase s = PDone b) \/
  lex_lt (scan_measure (sc_step cfg c tf s)) (scan_measure s) \/
  (s_phase s = PIdle /\ exists mb r, s_todo s = mb :: r /\ s_phase (sc_step cfg c tf s) = PBox mb (snapshot (s_st s) mb) /\ s_todo (sc_step cfg c tf s) = r).
Proof.
  intros C. unfold sc_step, scan_measure, lex_lt. destruct (s_phase s) as [|mb [|v rest]|b] eqn:P.
  - destruct (s_todo s) as [|mb r] eqn:T.
    + right; left. cbn. lia.
    + right; right. split; [reflexivity|]. exists mb, r. cbn. auto.
  - right; left. rewrite C. cbn. lia.
  - right; left. destruct (expired c (snd v)); cbn; lia.
  - left. eauto.
Qed.

End Loop.

(** Non-vacuity: Start, a minute passes, the scan runs while mail arrives, shutdown. *)
Example loop_ex :
  let cfg := {| c_cap := O; c_max := 0%N |} in
  let enum := fun st : spec_store => map fst (counts st) in
  let st := fst (fst (exec_spec cfg (fst (fst (exec_spec cfg spec_init (Add [97%N] (-500) 0%N 0%N)))) (Add [97%N] (-5) 1%N 0%N))) in
  let y := lrun cfg 100 enum (linit 100 0 st)
             [LStep true; LTick 61; LStep true; LStep true; LOp (Add [97%N] 61 2%N 0%N); LStep true; LStep true; LStep true;
              LStep true; LStep true; LTick 3; LCancelEv; LStep true; LStep true] in
  l_mode y = LExit /\ l_closed y = true /\ l_starts y = [61] /\ l_done y = [(61, false)] /\
  map e_k (live (s_st (l_sys y))) = [1%nat; 2%nat] /\ map (fun p => (e_k (fst p), snd p)) (l_log y) = [(0%nat, 61)].
Proof. vm_compute. repeat split. Qed.

(** The instance for the store's own enumeration ([spec_visit]: the mailboxes that hold mail,
    what VisitMailboxes hands out): no coverage hypothesis is left. *)
Definition visit_enum (st : spec_store) : list str := map fst (spec_visit st).

Theorem loop_deletes_expired_all cfg period y0 e evs1 evs2 ts :
  SInv (s_st (l_sys y0)) -> l_mode y0 = LWait ->
  In e (live (s_st (l_sys y0))) -> (m_date (e_msg e) < l_now y0 - period)%Z ->
  l_mode (lrun cfg period visit_enum y0 evs1) = LCheck ->
  hd_error (l_done (lrun cfg period visit_enum y0 evs1)) = Some (ts, false) ->
  forall e', In e' (live (s_st (l_sys (lrun cfg period visit_enum y0 (evs1 ++ evs2))))) -> ~ (e_mb e' = e_mb e /\ e_k e' = e_k e).
Proof.
  apply loop_deletes_expired. intros st x S Hx. apply visit_covers; assumption.
Qed.

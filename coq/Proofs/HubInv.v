(** The hub invariant and its preservation by every action (DESIGN §4bis C15). *)
From Coq Require Import Lia.
From IV Require Import Base.Bytes Model.Hub Proofs.HubBasics.
Local Open Scope nat_scope.

Definition healthy (s : lst) : Prop := lclosed s = false /\ lerred s = false.

Record Inv (n : nat) (h : hub) : Prop := mkInv {
  inv_ring : ring h = ring_after (ring_init n) (hlog h);
  inv_regs_nodup : NoDup (regs h);
  inv_adds_nodup : NoDup (adds (hlog h ++ opq h));
  inv_adds_known : forall l, In l (adds (hlog h ++ opq h)) -> find_l l (ls h) <> None;
  inv_regs_added : forall l, In l (regs h) -> In l (adds (hlog h));
  inv_work_added : forall d, In d (work h) -> In (d_to d) (adds (hlog h));
  inv_stream : forall l s, find_l l (ls h) = Some s -> healthy s ->
      lout s ++ lq s ++ pend l s (work h) = filter (wants (lk s) (lf s)) (v_es (view_of n l (hlog h)))
      /\ (In l (regs h) <-> v_reg (view_of n l (hlog h)) = true)
}.

Lemma inv_init n : Inv n (hub_init n).
Proof.
  constructor; cbn; auto; try constructor; try tauto; try discriminate.
Qed.

(** Changing only the op queue by a non-add op, or only flags. *)
Lemma inv_enq n c o h h' : is_add o = false -> Inv n h -> enq c o h = Some h' -> Inv n h'.
Proof.
  intros Ho I E. unfold enq in E. destruct (stopped h); [inversion E; subst; auto|].
  destruct (length (opq h) <? opcap c); [|discriminate]. inversion E; subst h'; clear E.
  destruct I. constructor; cbn [set_opq ring regs ls opq work hlog]; auto.
  - rewrite app_assoc, adds_snoc_nonadd; auto.
  - intros l. rewrite app_assoc, adds_snoc_nonadd; auto.
Qed.

(** Replacing one listener's state by one with the same stream. *)
Lemma inv_upd_same n h l s s' :
  Inv n h -> find_l l (ls h) = Some s ->
  (healthy s' -> healthy s /\ lk s' = lk s /\ lf s' = lf s /\ lout s' ++ lq s' = lout s ++ lq s) ->
  Inv n (set_ls h (upd_l l s' (ls h))).
Proof.
  intros I F K. destruct I. constructor; cbn [set_ls ring regs ls opq work hlog]; auto.
  - intros l0 H. rewrite find_l_upd_none. auto.
  - intros l0 s0 F0 H0. destruct (Nat.eq_dec l0 l) as [->|N].
    + rewrite find_l_upd_same in F0 by congruence. inversion F0; subst s0; clear F0.
      destruct (K H0) as (Hs & E1 & E2 & E3). destruct (inv_stream0 l s F Hs) as [A B].
      split; auto. unfold pend in *. rewrite E1, E2. rewrite app_assoc, E3, <- app_assoc. exact A.
    + rewrite find_l_upd_other in F0 by auto. auto.
Qed.

Lemma healthy_push s e : healthy (l_push s e) <-> healthy s.
Proof. unfold healthy. cbn. tauto. Qed.

(** One listener call. *)
Lemma inv_deliver n c ch h d w s s' err :
  Inv n h -> work h = d :: w -> find_l (d_to d) (ls h) = Some s ->
  deliver c ch s (d_ev d) = Some (s', err) ->
  Inv n (mkH (ring h) (if err && d_drop d then rm_nat (d_to d) (regs h) else regs h)
             (upd_l (d_to d) s' (ls h)) (opq h) w (synced h) (stopped h) (hlog h)).
Proof.
  intros I W F D. destruct I. constructor; cbn [ring regs ls opq work hlog]; auto.
  - destruct (err && d_drop d); auto using rm_nat_NoDup.
  - intros l H. rewrite find_l_upd_none. auto.
  - intros l H. apply inv_regs_added0. destruct (err && d_drop d); auto. apply rm_nat_In in H. tauto.
  - intros d0 H. apply inv_work_added0. rewrite W. right. exact H.
  - intros l s0 F0 H0. destruct (Nat.eq_dec l (d_to d)) as [->|N].
    + rewrite find_l_upd_same in F0 by congruence. inversion F0; subst s0; clear F0.
      (* which way did the call go? *)
      unfold deliver in D.
      destruct (wants (lk s) (lf s) (d_ev d)) eqn:Wt; cbn [negb] in D.
      2:{ inversion D; subst s' err; clear D. destruct (inv_stream0 _ _ F H0) as [A B].
          cbn [andb]. split; auto. rewrite <- A, W, pend_cons_same by reflexivity. rewrite Wt. reflexivity. }
      assert (Push : healthy s -> s' = l_push s (d_ev d) -> err = false ->
                     lout s' ++ lq s' ++ pend (d_to d) s' w =
                       filter (wants (lk s') (lf s')) (v_es (view_of n (d_to d) (hlog h)))
                     /\ (In (d_to d) (if err && d_drop d then rm_nat (d_to d) (regs h) else regs h) <->
                         v_reg (view_of n (d_to d) (hlog h)) = true)).
      { intros Hs -> ->. destruct (inv_stream0 _ _ F Hs) as [A B]. cbn [andb]. split; auto.
        rewrite W, pend_cons_same in A by reflexivity. rewrite Wt in A.
        unfold pend in *. cbn [l_push lk lf lq lout]. rewrite <- A. rewrite <- !app_assoc. reflexivity. }
      destruct (lk s) eqn:K.
      * (* V1 *) destruct (lclosed s) eqn:C.
        -- destruct (ch || (cap_of c V1 <=? length (lq s))); inversion D; subst s' err; clear D;
             destruct H0 as [H1 H2]; cbn in H1, H2; congruence.
        -- destruct (length (lq s) <? cap_of c V1); [|discriminate]. inversion D; subst s' err; clear D.
           apply Push; auto.
      * (* V2 *) destruct (lclosed s) eqn:C.
        -- destruct (ch || (cap_of c V2 <=? length (lq s))); inversion D; subst s' err; clear D;
             destruct H0 as [H1 H2]; cbn in H1, H2; congruence.
        -- destruct (length (lq s) <? cap_of c V2); [|discriminate]. inversion D; subst s' err; clear D.
           apply Push; auto.
      * (* Mock *) destruct (lfail s) as [[|k]|] eqn:Fl; inversion D; subst s' err; clear D.
        -- destruct H0 as [_ H2]. cbn in H2. discriminate.
        -- assert (Hs : healthy s) by (destruct H0 as [H1 H2]; cbn in H1, H2; split; auto).
           destruct (inv_stream0 _ _ F Hs) as [A B]. cbn [andb]. split; auto.
           rewrite <- K in Wt.
           rewrite W, pend_cons_same in A by reflexivity. rewrite Wt in A.
           unfold pend in *. cbn [l_push l_set_fail lk lf lq lout]. rewrite <- A. rewrite <- !app_assoc. reflexivity.
        -- apply Push; auto.
    + rewrite find_l_upd_other in F0 by auto. destruct (inv_stream0 _ _ F0 H0) as [A B]. split.
      * rewrite <- A, W. rewrite (pend_cons_other l s0 d w) by auto. reflexivity.
      * rewrite <- B. destruct (err && d_drop d); [|tauto]. rewrite rm_nat_In. tauto.
Qed.

Lemma adds_mid a o q : adds ((a ++ [o]) ++ q) = adds (a ++ o :: q).
Proof. rewrite <- app_assoc. reflexivity. Qed.

Lemma not_added_yet n h l q :
  Inv n h -> opq h = OAdd l :: q -> ~ In l (adds (hlog h)).
Proof.
  intros I E. destruct I. rewrite E, adds_app in inv_adds_nodup0. cbn [adds flat_map app] in inv_adds_nodup0.
  intro X. apply NoDup_remove_2 in inv_adds_nodup0. apply inv_adds_nodup0. rewrite in_app_iff. auto.
Qed.

(** Popping the next op. *)
Lemma inv_pop n h o q :
  Inv n h -> work h = [] -> opq h = o :: q ->
  Inv n (exec_op o (mkH (ring h) (regs h) (ls h) q [] (synced h) (stopped h) (hlog h ++ [o]))).
Proof.
  intros I W Q. pose proof (not_added_yet n h) as NA. destruct I.
  assert (Hadds : adds ((hlog h ++ [o]) ++ q) = adds (hlog h ++ opq h)) by (rewrite Q; apply adds_mid).
  assert (Hsub : forall l, In l (adds (hlog h)) -> In l (adds (hlog h ++ [o]))).
  { intros l H. rewrite adds_app, in_app_iff. auto. }
  assert (Old : forall l s, find_l l (ls h) = Some s -> healthy s ->
            lout s ++ lq s = filter (wants (lk s) (lf s)) (v_es (view_of n l (hlog h)))
            /\ (In l (regs h) <-> v_reg (view_of n l (hlog h)) = true)).
  { intros l s F H. destruct (inv_stream0 l s F H) as [A B]. split; auto.
    rewrite W in A. unfold pend in A. cbn in A. rewrite app_nil_r in A. exact A. }
  destruct o; cbn [exec_op ring regs ls opq work synced stopped hlog].
  - (* Dispatch *)
    constructor; cbn [ring regs ls opq work hlog]; auto.
    + rewrite ring_after_app, <- inv_ring0. reflexivity.
    + rewrite Hadds. auto.
    + intros l. rewrite Hadds. auto.
    + intros d H. apply in_map_iff in H. destruct H as (x & <- & Hx). cbn. auto.
    + intros l s F H. destruct (Old l s F H) as [A B]. rewrite view_of_snoc. cbn [view_step v_es v_reg].
      rewrite pend_broadcast by auto. split; auto.
      destruct (v_reg (view_of n l (hlog h))) eqn:R.
      * assert (mem_nat l (regs h) = true) as -> by (apply mem_nat_In; tauto).
        rewrite filter_app, <- A. cbn [andb filter]. destruct (wants (lk s) (lf s) (Stored m)); rewrite <- app_assoc; reflexivity.
      * assert (mem_nat l (regs h) = false) as ->.
        { destruct (mem_nat l (regs h)) eqn:M; auto. apply mem_nat_In in M. apply B in M. discriminate. }
        cbn [andb]. rewrite app_nil_r. exact A.
  - (* Delete *)
    constructor; cbn [ring regs ls opq work hlog]; auto.
    + rewrite ring_after_app, <- inv_ring0. reflexivity.
    + rewrite Hadds. auto.
    + intros l. rewrite Hadds. auto.
    + intros d H. apply in_map_iff in H. destruct H as (x & <- & Hx). cbn. auto.
    + intros l s F H. destruct (Old l s F H) as [A B]. rewrite view_of_snoc. cbn [view_step v_es v_reg].
      rewrite pend_broadcast by auto. split; auto.
      destruct (v_reg (view_of n l (hlog h))) eqn:R.
      * assert (mem_nat l (regs h) = true) as -> by (apply mem_nat_In; tauto).
        rewrite filter_app, <- A. cbn [andb filter]. destruct (wants (lk s) (lf s) (Deleted m)); rewrite <- app_assoc; reflexivity.
      * assert (mem_nat l (regs h) = false) as ->.
        { destruct (mem_nat l (regs h)) eqn:M; auto. apply mem_nat_In in M. apply B in M. discriminate. }
        cbn [andb]. rewrite app_nil_r. exact A.
  - (* AddListener *)
    specialize (NA l q (mkInv n h inv_ring0 inv_regs_nodup0 inv_adds_nodup0 inv_adds_known0 inv_regs_added0 inv_work_added0 inv_stream0) Q).
    assert (Hl : In l (adds (hlog h ++ [OAdd l]))) by (rewrite adds_app, in_app_iff; cbn; auto).
    constructor; cbn [ring regs ls opq work hlog]; auto.
    + rewrite ring_after_app, <- inv_ring0. reflexivity.
    + apply add_nat_NoDup. auto.
    + rewrite Hadds. auto.
    + intros l0. rewrite Hadds. auto.
    + intros l0 H. apply add_nat_In in H. destruct H as [H| ->]; auto.
    + intros d H. apply in_map_iff in H. destruct H as (x & <- & Hx). cbn. auto.
    + intros l0 s F H. destruct (Old l0 s F H) as [A B]. rewrite view_of_snoc. cbn [view_step].
      destruct (Nat.eq_dec l l0) as [->|N].
      * destruct (view_not_added n l0 (hlog h) NA) as (E1 & E2 & E3).
        rewrite Nat.eqb_refl, E2. cbn [andb negb v_es v_reg]. rewrite pend_replay.
        rewrite E1 in A. cbn in A. apply app_eq_nil in A. destruct A as [-> ->].
        rewrite v_ring_view, <- inv_ring0. cbn [app]. split; auto.
        rewrite add_nat_In. tauto.
      * assert (Nat.eqb l l0 = false) as -> by (apply Nat.eqb_neq; auto). cbn [andb].
        rewrite pend_replay_other by auto. rewrite app_nil_r. split; auto.
        rewrite add_nat_In. rewrite <- B. intuition congruence.
  - (* RemoveListener *)
    constructor; cbn [ring regs ls opq work hlog]; auto.
    + rewrite ring_after_app, <- inv_ring0. reflexivity.
    + apply rm_nat_NoDup. auto.
    + rewrite Hadds. auto.
    + intros l0. rewrite Hadds. auto.
    + intros l0 H. apply rm_nat_In in H. destruct H. auto.
    + intros d [].
    + intros l0 s F H. destruct (Old l0 s F H) as [A B]. rewrite view_of_snoc. cbn [view_step].
      unfold pend. cbn [filter map]. rewrite app_nil_r. rewrite rm_nat_In.
      destruct (Nat.eqb l l0) eqn:E.
      * apply Nat.eqb_eq in E. subst l0. cbn [v_es v_reg]. split; auto. split; [tauto|discriminate].
      * apply Nat.eqb_neq in E. split; auto. rewrite <- B. intuition congruence.
  - (* Sync *)
    constructor; cbn [ring regs ls opq work hlog]; auto.
    + rewrite ring_after_app, <- inv_ring0. reflexivity.
    + rewrite Hadds. auto.
    + intros l0. rewrite Hadds. auto.
    + intros d [].
    + intros l0 s F H. destruct (Old l0 s F H) as [A B]. rewrite view_of_snoc. cbn [view_step].
      unfold pend. cbn [filter map]. rewrite app_nil_r. auto.
Qed.

Lemma inv_hub_step n c ch h h' : Inv n h -> hub_step c ch h = Some h' -> Inv n h'.
Proof.
  intros I E. unfold hub_step in E. destruct (stopped h) eqn:St; [discriminate|].
  destruct (work h) as [|d w] eqn:W.
  - destruct (opq h) as [|o q] eqn:Q; [discriminate|]. inversion E; subst h'. rewrite <- St. apply inv_pop; auto.
  - destruct (find_l (d_to d) (ls h)) as [s|] eqn:F.
    + destruct (deliver c ch s (d_ev d)) as [[s' err]|] eqn:D; [|discriminate].
      inversion E; subst h'. rewrite <- St. eapply inv_deliver; eauto.
    + inversion E; subst h'; clear E. destruct I. constructor; cbn [ring regs ls opq work hlog]; auto.
      * intros d0 H. apply inv_work_added0. rewrite W. right. exact H.
      * intros l s F0 H0. destruct (inv_stream0 l s F0 H0) as [A B]. split; auto.
        rewrite <- A, W. rewrite (pend_cons_other l s d w); auto. intro X. rewrite X in F. congruence.
Qed.

Lemma inv_step n c h a h' : Inv n h -> step c h a = Some h' -> Inv n h'.
Proof.
  intros I E. destruct a; cbn [step] in E.
  - (* AEnq *) destruct (is_add o) eqn:A; [discriminate|]. eapply inv_enq; eauto.
  - (* ANew *)
    destruct (find_l l (ls h)) eqn:F; [discriminate|].
    assert (NA : ~ In l (adds (hlog h ++ opq h))).
    { intro X. destruct I. apply inv_adds_known0 in X. congruence. }
    assert (NAh : ~ In l (adds (hlog h))) by (intro X; apply NA; rewrite adds_app, in_app_iff; auto).
    assert (I1 : Inv n (set_ls h (ls h ++ [(l, new_lst k f fail)]))).
    { destruct I. constructor; cbn [set_ls ring regs ls opq work hlog]; auto.
      - intros l0 H. rewrite find_l_app. specialize (inv_adds_known0 l0 H). destruct (find_l l0 (ls h)); congruence.
      - intros l0 s F0 H0. rewrite find_l_app in F0. destruct (find_l l0 (ls h)) as [s1|] eqn:F1.
        + inversion F0; subst s1. auto.
        + cbn [find_l] in F0. destruct (Nat.eqb l l0) eqn:E0; [|discriminate]. apply Nat.eqb_eq in E0. subst l0.
          inversion F0; subst s; clear F0. cbn [new_lst lout lq lk lf app].
          destruct (view_not_added n l (hlog h) NAh) as (E1 & E2 & E3). rewrite E1, E3. cbn [filter].
          split.
          * assert (P : forall w, (forall d, In d w -> d_to d <> l) -> pend l (new_lst k f fail) w = []).
            { induction w as [|d w IH]; intros Hw; [reflexivity|]. rewrite pend_cons_other.
              - apply IH. intros d0 Hd. apply Hw. right. exact Hd.
              - apply Hw. left. reflexivity. }
            apply P. intros d Hd X. apply inv_work_added0 in Hd. rewrite X in Hd. tauto.
          * split; [|discriminate]. intros X. apply inv_regs_added0 in X. tauto. }
    unfold enq in E. cbn [set_ls stopped opq] in E. destruct (stopped h) eqn:St.
    + inversion E; subst h'. exact I1.
    + destruct (length (opq h) <? opcap c); [|discriminate]. inversion E; subst h'; clear E.
      destruct I1. cbn [set_ls ring regs ls opq work hlog] in *.
      constructor; cbn [set_opq set_ls ring regs ls opq work hlog]; auto.
      * rewrite app_assoc, adds_app. cbn [adds flat_map app].
        clear - inv_adds_nodup0 NA. induction (adds (hlog h ++ opq h)) as [|x t IH]; cbn [app].
        -- constructor; [tauto|constructor].
        -- inversion inv_adds_nodup0; subst. constructor.
           ++ rewrite in_app_iff. cbn [In] in *. intuition.
           ++ apply IH; auto. cbn [In] in NA. tauto.
      * intros l0 H. rewrite app_assoc, adds_app, in_app_iff in H. destruct H as [H|H]; auto.
        cbn in H. destruct H as [<-|[]]. rewrite find_l_app, F. cbn [find_l]. rewrite Nat.eqb_refl. discriminate.
  - (* AClose *)
    destruct (find_l l (ls h)) as [s|] eqn:F; [|discriminate]. destruct (lclosed s) eqn:C.
    + inversion E; subst h'. exact I.
    + inversion E; subst h'. eapply inv_upd_same; eauto. intros [H1 H2]. cbn in H1. discriminate.
  - (* ARm *)
    destruct (find_l l (ls h)) as [s|] eqn:F; [|discriminate]. destruct (lrm s); [|discriminate].
    eapply (inv_enq n c (ORemove l)); [reflexivity| |exact E]. eapply inv_upd_same; eauto.
  - (* ATake *)
    destruct (find_l l (ls h)) as [s|] eqn:F; [|discriminate].
    destruct (l_take s) as [s'|] eqn:T; [|discriminate]. inversion E; subst h'.
    eapply inv_upd_same; eauto. unfold l_take in T. destruct (lq s) as [|e q] eqn:Q; [discriminate|].
    inversion T; subst s'. intros [H1 H2]. cbn in H1, H2. cbn [lk lf lout lq]. repeat split; auto.
    rewrite <- app_assoc. reflexivity.
  - (* AHub *) eapply inv_hub_step; eauto.
  - (* AStop *)
    destruct (work h) eqn:W; [|discriminate]. inversion E; subst h'. destruct I.
    constructor; cbn [ring regs ls opq work hlog]; auto.
    + intros d [].
    + rewrite <- W. auto.
Qed.

Lemma inv_run n c acts : forall h h', Inv n h -> run c h acts = Some h' -> Inv n h'.
Proof.
  induction acts as [|a t IH]; intros h h' I E; cbn [run] in E.
  - inversion E; subst; auto.
  - destruct (step c h a) as [h1|] eqn:S; [|discriminate]. eapply IH; [|exact E]. eapply inv_step; eauto.
Qed.

Theorem reachable_inv n c acts h : run c (hub_init n) acts = Some h -> Inv n h.
Proof. apply inv_run, inv_init. Qed.

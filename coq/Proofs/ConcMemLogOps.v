(** C09 — facts about the commit log of the memory-store model used by the C07 bridge: a walk never
    commits as a walk (it commits one listing per mailbox), and in a run of non-overlapping
    operations every operation other than a walk commits exactly once. *)
From IV Require Import Model.Conc Model.ConcMem Proofs.ConcBase Proofs.ConcMemInv Proofs.ConcStmts Proofs.ConcMemLin Proofs.ConcMemLinEnf.
From Coq Require Import Lia ZifyN ZifyNat ZifyBool.

Definition not_walk (e : logent) : Prop := lop e <> OVisit.

Lemma log_step_no_walk s w c s' : Forall not_walk (s_log s) -> step s w c = SOk s' -> Forall not_walk (s_log s').
Proof.
  intros HF H. destruct w as [t|]; cbn [step] in H.
  - unfold step_thr in H.
    destruct (nth_error (s_thr s) t) as [p|] eqn:Ep; [|discriminate].
    destruct p; try discriminate.
    all: split_step H.
    all: inv_ok H; autorewrite with sys; try exact HF.
    all: apply Forall_app; split; [exact HF|]; constructor; [unfold not_walk, lop; cbn; discriminate | constructor].
  - unfold step_enf in H. destruct (s_max s) eqn:E; [|discriminate].
    destruct (e_pc (s_enf s)); try discriminate.
    all: split_enf H.
    all: inv_ok H; autorewrite with sys; try exact HF.
    all: apply Forall_app; split; [exact HF|]; constructor; [unfold not_walk, lop; cbn; discriminate | constructor].
Qed.

Lemma log_no_walk cap max ops s : reach (init_sys cap max [] enf0 ops) s -> Forall not_walk (s_log s).
Proof. revert s. apply reach_ind_inv; [constructor | intros; eapply log_step_no_walk; eauto]. Qed.

(** C09 — facts about the commit log of the memory-store model used by the C07 bridge: a walk never
    commits as a walk (it commits one listing per mailbox), and in a run of non-overlapping
    operations every operation other than a walk commits exactly once. *)
From IV Require Import Model.Conc Model.ConcMem Proofs.ConcBase Proofs.ConcMemInv Proofs.ConcStmts Proofs.ConcMemLin Proofs.ConcMemLinEnf.
From Coq Require Import Lia ZifyN ZifyNat ZifyBool.

Definition not_walk (e : logent) : Prop := lop e <> OVisit.

Lemma log_step_no_walk s w c s' : Forall not_walk (s_log s) -> step s w c = SOk s' -> Forall not_walk (s_log s').
Proof.
  intros HF H. destruct w as [t|]; cbn [step] in H.
  - unfold step_thr in H.
    destruct (nth_error (s_thr s) t) as [p|] eqn:Ep; [|discriminate].
    destruct p; try discriminate.
    all: split_step H.
    all: inv_ok H; autorewrite with sys; try exact HF.
    all: apply Forall_app; split; [exact HF|]; constructor; [unfold not_walk, lop; cbn; discriminate | constructor].
  - unfold step_enf in H. destruct (s_max s) eqn:E; [|discriminate].
    destruct (e_pc (s_enf s)); try discriminate.
    all: split_enf H.
    all: inv_ok H; autorewrite with sys; try exact HF.
    all: apply Forall_app; split; [exact HF|]; constructor; [unfold not_walk, lop; cbn; discriminate | constructor].
Qed.

Lemma log_no_walk cap max ops s : reach (init_sys cap max [] enf0 ops) s -> Forall not_walk (s_log s).
Proof. revert s. apply reach_ind_inv; [constructor | intros; eapply log_step_no_walk; eauto]. Qed.

(* ------------------------------------------------------------ every operation commits once *)

Definition tag_is (t : tid) (e : logent) : bool :=
  match fst (fst e) with T u => Nat.eqb t u | E => false end.
Definition count_tag (t : tid) (l : list logent) : nat := length (filter (tag_is t) l).

Lemma count_tag_snoc t l e : count_tag t (l ++ [e]) = (count_tag t l + (if tag_is t e then 1 else 0))%nat.
Proof. unfold count_tag. rewrite filter_app, app_length. cbn [filter]. destruct (tag_is t e); reflexivity. Qed.

Definition post (p : pc) : nat :=
  match p with
  | PStart _ | PAddLock _ _ _ | PGetLock _ _ | PLatestLock _ | PListLock _ | PSeenLock _ _ | PRemoveLock _ _
  | PPurgeLock _ | PVisitLock _ _ _ => 0
  | _ => 1
  end.

(** K: a thread whose operation is not a walk has committed exactly [post pc] times. *)
Definition invK (ops : list op) (s : msys) : Prop :=
  forall t o p, nth_error ops t = Some o -> o <> OVisit -> nth_error (s_thr s) t = Some p ->
    count_tag t (s_log s) = post p.

Lemma tag_is_other t u o r : t <> u -> tag_is t (T u, o, r) = false.
Proof. intros H. unfold tag_is. cbn. now apply Nat.eqb_neq. Qed.
Lemma tag_is_self t o r : tag_is t (T t, o, r) = true.
Proof. unfold tag_is. cbn. apply Nat.eqb_refl. Qed.
Lemma tag_is_E t o r : tag_is t (E, o, r) = false.
Proof. reflexivity. Qed.

Lemma invK_thr ops s t c s' : invR ops s -> invK ops s -> step_thr s t c = SOk s' -> invK ops s'.
Proof.
  intros HR HK H. unfold step_thr in H.
  destruct (nth_error (s_thr s) t) as [p|] eqn:Ep; [|discriminate].
  pose proof (HR _ _ Ep) as Hself.
  destruct p; try discriminate.
  all: split_step H.
  all: inv_ok H.
  all: intros t0 o0 p0 Ho Hv Hn; autorewrite with sys in *.
  all: apply nth_set_cases in Hn; destruct Hn as [(-> & -> & _)|(Hne & Hn)].
  (* another thread: its count is untouched by an entry of t *)
  all: try (rewrite ?count_tag_snoc, ?tag_is_other by congruence; rewrite ?Nat.add_0_r; eapply HK; eauto; fail).
  (* the stepping thread *)
  all: specialize (HK _ _ _ Ho Hv Ep); cbn [post] in HK.
  all: rewrite ?count_tag_snoc, ?tag_is_self, ?HK.
  all: try reflexivity.
  all: try (unfold next_add; match goal with |- context [match ?l with [] => _ | _ => _ end] => destruct l end; reflexivity).
  all: try (unfold purge_next; match goal with |- context [pick ?c ?l] => destruct (pick c l) as [[? ?]|] end; reflexivity).
  (* walk program counters cannot belong to a thread whose operation is not a walk *)
  all: unfold rfact in Hself; cbn [committed pending_op] in Hself; destruct Hself as (o' & Hp & Ho'); inv_ok Hp; congruence.
Qed.

Lemma invK_enf ops s s' : invK ops s -> step_enf s = SOk s' -> invK ops s'.
Proof.
  intros HK H. unfold step_enf in H.
  destruct (s_max s) as [max|] eqn:Emax; [|discriminate].
  destruct (e_pc (s_enf s)) eqn:Epc; try discriminate.
  all: split_enf H.
  all: inv_ok H.
  all: intros t0 o0 p0 Ho Hv Hn; autorewrite with sys in *.
  all: rewrite ?count_tag_snoc, ?tag_is_E, ?Nat.add_0_r; eapply HK; eauto.
Qed.

(** Every operation other than a walk commits exactly once, with its own operation and the result it
    returns — for every cap, every size limit, every schedule. *)
Lemma reach_RK cap max ops s : reach (init_sys cap max [] enf0 ops) s -> invR ops s /\ invK ops s.
Proof.
  revert s. apply reach_ind_inv.
  - split.
    + intros t p H. destruct (init_thr_nth _ _ _ _ _ H) as (o & -> & Ho). unfold rfact; cbn [committed pending_op]. eauto.
    + intros t o p Ho Hv Hp. destruct (init_thr_nth _ _ _ _ _ Hp) as (o' & -> & _). reflexivity.
  - intros x y w c (HR & HK) Hs. destruct w as [t|]; cbn [step] in Hs.
    + split; [eapply invR_thr_any; eauto | eapply invK_thr; eauto].
    + split; [eapply invR_enf; eauto | eapply invK_enf; eauto].
Qed.

Theorem mem_commits_once : forall cap max ops sched s t o r,
  run (init_sys cap max [] enf0 ops) sched = Fin s ->
  nth_error ops t = Some o -> o <> OVisit -> nth_error (s_thr s) t = Some (PDone r) ->
  count_tag t (s_log s) = 1%nat /\ In (T t, o, r) (s_log s).
Proof.
  intros cap max ops sched s t o r Hr Ho Hv Hn.
  pose proof (run_from_reach (init_sys cap max [] enf0 ops) sched 0 _ (reach_refl _)) as R.
  unfold run in Hr. rewrite Hr in R. destruct (reach_RK _ _ _ _ R) as [HR HK].
  split; [exact (HK _ _ _ Ho Hv Hn)|].
  specialize (HR _ _ Hn). unfold rfact in HR. destruct HR as (o' & Ho' & [->|Hi]); rewrite Ho in Ho'; inversion Ho'; subst; [contradiction | exact Hi].
Qed.

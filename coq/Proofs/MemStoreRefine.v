(** The memory-store model refines the abstract store when no limit is configured
    (C07 [mem_refines_spec_nolimit]); the statement with limits is [mem_refines_spec_stmt]. *)
From Coq Require Import List Arith Lia Sorted.
From IV Require Import Base.Bytes Base.BytesFacts Model.StoreSpec Model.StoreSpecImpl Model.MemStore
  Proofs.StoreSpecFacts Proofs.StoreSpecRefine.
Import ListNotations.
Local Open Scope nat_scope.

Lemma meqb_eq a b : Nat.eqb a b = true <-> a = b.
Proof. apply Nat.eqb_eq. Qed.

Definition mdflt : mid := 0.
Definition midof (iss : issued mid) (mb : str) (k : nat) : mid := nth k (iss_of mid mb iss) mdflt.
Definition mrep (iss : issued mid) (mb : str) (sb : list entry) : list (mid * msg) := rep mid (midof iss mb) sb.

Record RM (st : spec_store) (s : mem_store) (iss : issued mid) : Prop := {
  rm_box : forall mb, mb_msgs (get_mbox mb s) = mrep iss mb (box mb (live st));
  rm_last : forall mb, mb_last (get_mbox mb s) = count_of mb (counts st);
  rm_iss : forall mb, iss_of mid mb iss = seq 1 (count_of mb (counts st));
  rm_names : map fst (ms_boxes s) = map fst (counts st);
  rm_names_nd : NoDup (map fst (counts st)) }.

Lemma rm_len st s iss : RM st s iss -> forall mb, length (iss_of mid mb iss) = count_of mb (counts st).
Proof. intros H mb. rewrite (rm_iss _ _ _ H). apply seq_length. Qed.

Lemma rm_nd st s iss : RM st s iss -> forall mb, NoDup (iss_of mid mb iss).
Proof. intros H mb. rewrite (rm_iss _ _ _ H). apply seq_NoDup. Qed.

Lemma midof_inj iss mb : NoDup (iss_of mid mb iss) ->
  forall a b, a < length (iss_of mid mb iss) -> b < length (iss_of mid mb iss) -> midof iss mb a = midof iss mb b -> a = b.
Proof. intros Hnd a b Ha Hb H. eapply NoDup_nth; eauto. Qed.

Lemma handle_of_midof iss mb k : NoDup (iss_of mid mb iss) -> k < length (iss_of mid mb iss) ->
  handle_of mid Nat.eqb iss mb (midof iss mb k) = k.
Proof.
  intros Hnd Hk. unfold handle_of, midof. rewrite (index_of_nth mid Nat.eqb meqb_eq) by assumption. reflexivity.
Qed.

Definition klt2 (a b : mid * msg) : Prop := fst a < fst b.

Lemma ins_head p l : Forall (klt2 p) l -> ins_by_index p l = p :: l.
Proof.
  destruct l as [|q l]; [reflexivity|]. intros H. inversion H; subst. simpl.
  unfold klt2 in *. assert (Nat.leb (fst p) (fst q) = true) as -> by (apply Nat.leb_le; lia). reflexivity.
Qed.

Lemma sort_sorted l : StronglySorted klt2 l -> sort_by_index l = l.
Proof.
  induction l as [|p l IH]; intros H; [reflexivity|]. apply StronglySorted_inv in H as [H1 H2].
  simpl. rewrite IH by exact H1. apply ins_head. exact H2.
Qed.

Section Step.
Variable cfg : scfg.
Hypothesis no_max : c_max cfg = 0%N.
Hypothesis no_cap : c_cap cfg = 0.

Variables (st : spec_store) (s : mem_store) (iss : issued mid).
Hypothesis HR : RM st s iss.
Hypothesis HI : SInv st.

Lemma box_k_lt mb e : In e (box mb (live st)) -> e_k e < length (iss_of mid mb iss).
Proof.
  intros He. apply box_in in He as [He Hm]. rewrite (rm_len _ _ _ HR). destruct HI as [_ H]. specialize (H e He).
  rewrite Hm in H. exact H.
Qed.

Lemma msgs_sorted mb : sort_by_index (mb_msgs (get_mbox mb s)) = mb_msgs (get_mbox mb s).
Proof.
  apply sort_sorted. rewrite (rm_box _ _ _ HR). unfold mrep, rep.
  destruct HI as [Hs _]. specialize (Hs mb).
  assert (Hk : forall e, In e (box mb (live st)) -> midof iss mb (e_k e) = S (e_k e)).
  { intros e He. unfold midof. rewrite (rm_iss _ _ _ HR). pose proof (box_k_lt mb e He) as Hl.
    rewrite (rm_len _ _ _ HR) in Hl. rewrite seq_nth by exact Hl. reflexivity. }
  revert Hk Hs. generalize (box mb (live st)). intros l Hk Hs.
  induction l as [|e l IH]; simpl; [constructor|].
  apply StronglySorted_inv in Hs as [H1 H2]. constructor.
  - apply IH; [intros x Hx; apply Hk; right; exact Hx | exact H1].
  - rewrite Forall_forall in *. intros x Hx. apply in_map_iff in Hx as [y [<- Hy]]. unfold klt2. simpl.
    rewrite Hk by (left; reflexivity). rewrite Hk by (right; exact Hy). specialize (H2 y Hy). unfold klt in H2. lia.
Qed.

Lemma views_ok mb sb : (forall e, In e sb -> In e (box mb (live st))) ->
  map (tr_view mid Nat.eqb iss mb) (mrep iss mb sb) = map view_of sb.
Proof.
  intros Hsb. unfold mrep, rep. rewrite map_map. apply map_ext_in. intros e He.
  unfold tr_view, view_of. simpl. f_equal. apply handle_of_midof; [apply (rm_nd _ _ _ HR) | apply box_k_lt; auto].
Qed.

Lemma find_h_kth_none mb k : length (iss_of mid mb iss) <= k -> find (is_ent mb k) (live st) = None.
Proof.
  intros Hk. destruct (find (is_ent mb k) (live st)) as [e|] eqn:E; [|reflexivity]. exfalso.
  apply find_some in E as [He Hp]. unfold is_ent in Hp. apply andb_true_iff in Hp as [Hm Hk'].
  apply ent_in_eq in Hm. apply Nat.eqb_eq in Hk'.
  assert (In e (box mb (live st))) as Hb by (apply box_in; auto). apply box_k_lt in Hb. lia.
Qed.

(** GetMessage of an issued id answers what the abstract store answers for the handle. *)
Lemma get_id_ok mb k : k < length (iss_of mid mb iss) ->
  tr_msg mid Nat.eqb iss mb (LMsg (mem_get s mb (QId (midof iss mb k)))) = res_of_find (find (is_ent mb k) (live st)).
Proof.
  intros Hk. unfold mem_get. rewrite (rm_box _ _ _ HR). unfold mal_find, mrep.
  rewrite (rep_find mid Nat.eqb meqb_eq (midof iss mb) (length (iss_of mid mb iss)));
    [| apply midof_inj; apply (rm_nd _ _ _ HR) | exact Hk | intros e He; apply box_k_lt; exact He].
  rewrite find_box. destruct (find (fun e => Nat.eqb (e_k e) k) (box mb (live st))) as [e|] eqn:E; simpl; [|reflexivity].
  apply find_some in E as [He Hke]. apply Nat.eqb_eq in Hke. unfold tr_view, view_of. simpl.
  rewrite handle_of_midof; [rewrite Hke; reflexivity | apply (rm_nd _ _ _ HR) | exact Hk].
Qed.

Lemma resolve_kth mb k :
  resolve mid iss mb (Kth k) = if Nat.ltb k (length (iss_of mid mb iss)) then QId (midof iss mb k) else QBogus.
Proof.
  unfold resolve. destruct (Nat.ltb k (length (iss_of mid mb iss))) eqn:E.
  - apply Nat.ltb_lt in E. rewrite (nth_error_nth' _ mdflt E). reflexivity.
  - apply Nat.ltb_ge in E. rewrite (proj2 (nth_error_None _ _) E). reflexivity.
Qed.

Lemma mb_in_names mb e : In e (box mb (live st)) -> In mb (map fst (ms_boxes s)).
Proof.
  intros He. rewrite (rm_names _ _ _ HR). destruct (in_dec (list_eq_dec N.eq_dec) mb (map fst (counts st))) as [H|H]; [exact H|].
  apply count_zero_notin in H. apply box_k_lt in He. rewrite (rm_len _ _ _ HR) in He. lia.
Qed.

(** A state change that touches only the messages of mailbox [mb]. *)
Lemma RM_update mb (L : list (mid * msg)) (l' : list entry) X :
  In mb (map fst (ms_boxes s)) ->
  L = mrep iss mb (box mb l') ->
  (forall mb', mb' <> mb -> box mb' l' = box mb' (live st)) ->
  RM {| live := l'; counts := counts st |}
     {| ms_boxes := bx_set mb (set_msgs (get_mbox mb s) L) (ms_boxes s); ms_enf := X |} iss.
Proof.
  intros Hin HL Hother.
  assert (Hg : forall mb', get_mbox mb' {| ms_boxes := bx_set mb (set_msgs (get_mbox mb s) L) (ms_boxes s); ms_enf := X |} =
                          if list_eq_dec N.eq_dec mb' mb then set_msgs (get_mbox mb s) L else get_mbox mb' s).
  { intros mb'. unfold get_mbox. simpl. destruct (list_eq_dec N.eq_dec mb' mb) as [->|Hne].
    - apply bx_get_set_same.
    - apply bx_get_set_other. congruence. }
  constructor; simpl.
  - intros mb'. rewrite Hg. destruct (list_eq_dec N.eq_dec mb' mb) as [->|Hne].
    + simpl. exact HL.
    + rewrite Hother by exact Hne. apply (rm_box _ _ _ HR).
  - intros mb'. rewrite Hg. destruct (list_eq_dec N.eq_dec mb' mb) as [->|Hne]; simpl; apply (rm_last _ _ _ HR).
  - apply (rm_iss _ _ _ HR).
  - rewrite bx_set_names_in by exact Hin. apply (rm_names _ _ _ HR).
  - apply (rm_names_nd _ _ _ HR).
Qed.

Definition step_ok (o : op) : Prop :=
  let '(si', ob, evs) := step_impl mid Nat.eqb mem_store (exec_mem cfg) (s, iss) o in
  let '(st', ob', evs') := exec_spec cfg st o in
  ob = ob' /\ evs = evs' /\ RM st' (fst si') (snd si').

Lemma step_get mb h : step_ok (Get mb h).
Proof.
  unfold step_ok. destruct h as [k| |].
  - cbn [step_impl exec_spec find_h]. rewrite resolve_kth.
    destruct (Nat.ltb k (length (iss_of mid mb iss))) eqn:E; cbn [exec_mem].
    + apply Nat.ltb_lt in E. cbn [map fst snd]. rewrite get_id_ok by exact E. auto.
    + apply Nat.ltb_ge in E. rewrite find_h_kth_none by exact E. cbn. auto.
  - cbn [step_impl exec_spec resolve exec_mem map fst snd]. split; [|auto]. f_equal.
    unfold mem_get. rewrite msgs_sorted. rewrite (rm_box _ _ _ HR). unfold mrep, rep. rewrite last_opt_map.
    destruct (last_opt (box mb (live st))) as [e|] eqn:E; simpl; [|reflexivity].
    unfold tr_view, view_of. simpl. f_equal. f_equal. apply handle_of_midof; [apply (rm_nd _ _ _ HR)|].
    apply box_k_lt. clear -E. induction (box mb (live st)) as [|a l IH]; [discriminate|].
    destruct l as [|b l]; [inversion E; left; reflexivity | right; apply IH; exact E].
  - cbn. auto.
Qed.

Lemma step_list mb : step_ok (Lst mb).
Proof.
  unfold step_ok. cbn [step_impl exec_spec exec_mem map fst snd]. split; [|auto]. f_equal.
  rewrite msgs_sorted. rewrite (rm_box _ _ _ HR). apply views_ok. auto.
Qed.

Lemma find_id_some mb k e : k < length (iss_of mid mb iss) -> find (is_ent mb k) (live st) = Some e ->
  mal_find (midof iss mb k) (mb_msgs (get_mbox mb s)) = Some (e_msg e) /\ e_k e = k /\ e_mb e = mb /\ In e (box mb (live st)).
Proof.
  intros Hk E. rewrite (rm_box _ _ _ HR). unfold mal_find, mrep.
  rewrite (rep_find mid Nat.eqb meqb_eq (midof iss mb) (length (iss_of mid mb iss)));
    [| apply midof_inj; apply (rm_nd _ _ _ HR) | exact Hk | intros x Hx; apply box_k_lt; exact Hx].
  rewrite <- find_box, E. apply find_some in E as [He Hp]. unfold is_ent in Hp.
  apply andb_true_iff in Hp as [Hm Hk']. apply ent_in_eq in Hm. apply Nat.eqb_eq in Hk'.
  repeat split; auto. apply box_in. auto.
Qed.

Lemma find_id_none mb k : k < length (iss_of mid mb iss) -> find (is_ent mb k) (live st) = None ->
  mal_find (midof iss mb k) (mb_msgs (get_mbox mb s)) = None.
Proof.
  intros Hk E. rewrite (rm_box _ _ _ HR). unfold mal_find, mrep.
  rewrite (rep_find mid Nat.eqb meqb_eq (midof iss mb) (length (iss_of mid mb iss)));
    [| apply midof_inj; apply (rm_nd _ _ _ HR) | exact Hk | intros x Hx; apply box_k_lt; exact Hx].
  rewrite <- find_box, E. reflexivity.
Qed.

Lemma step_seen mb h : step_ok (Seen mb h).
Proof.
  unfold step_ok. destruct h as [k| |]; [|cbn; auto|cbn; auto].
  cbn [step_impl exec_spec find_h]. rewrite resolve_kth.
  destruct (Nat.ltb k (length (iss_of mid mb iss))) eqn:E.
  - apply Nat.ltb_lt in E. cbn [exec_mem]. destruct (find (is_ent mb k) (live st)) as [e|] eqn:F.
    + destruct (find_id_some mb k e E F) as [H1 [H2 [H3 H4]]]. rewrite H1. cbn [map fst snd tr_unit].
      split; [reflexivity|]. split; [reflexivity|]. rewrite H2. apply RM_update.
      * eapply mb_in_names; eauto.
      * rewrite box_seen_same. rewrite (rm_box _ _ _ HR). unfold mal_seen, mrep.
        apply (rep_seen mid Nat.eqb meqb_eq (midof iss mb) (length (iss_of mid mb iss)));
          [apply midof_inj; apply (rm_nd _ _ _ HR) | exact E | intros x Hx; apply box_k_lt; exact Hx | apply HI].
      * intros mb' Hne. apply box_seen_other. exact Hne.
    + rewrite (find_id_none mb k E F). cbn. auto.
  - apply Nat.ltb_ge in E. rewrite find_h_kth_none by exact E. cbn. auto.
Qed.

Lemma step_remove mb h : step_ok (Remove mb h).
Proof.
  unfold step_ok. destruct h as [k| |]; [|cbn; auto|cbn; auto].
  cbn [step_impl exec_spec find_h]. rewrite resolve_kth.
  destruct (Nat.ltb k (length (iss_of mid mb iss))) eqn:E.
  - apply Nat.ltb_lt in E. cbn [exec_mem]. destruct (find (is_ent mb k) (live st)) as [e|] eqn:F.
    + destruct (find_id_some mb k e E F) as [H1 [H2 [H3 H4]]]. rewrite H1. cbn [map fst snd tr_unit tr_ev].
      split; [reflexivity|]. split.
      { unfold ev_deleted. rewrite H2, H3. rewrite handle_of_midof; [reflexivity | apply (rm_nd _ _ _ HR) | exact E]. }
      rewrite H2. apply RM_update.
      * eapply mb_in_names; eauto.
      * rewrite box_remove_same. rewrite (rm_box _ _ _ HR). unfold mal_remove, mrep.
        apply (rep_remove mid Nat.eqb meqb_eq (midof iss mb) (length (iss_of mid mb iss)));
          [apply midof_inj; apply (rm_nd _ _ _ HR) | exact E | intros x Hx; apply box_k_lt; exact Hx | apply HI].
      * intros mb' Hne. apply box_remove_other. exact Hne.
    + rewrite (find_id_none mb k E F). cbn. auto.
  - apply Nat.ltb_ge in E. rewrite find_h_kth_none by exact E. cbn. auto.
Qed.

Lemma del_events_ok mb sb : (forall e, In e sb -> In e (box mb (live st))) ->
  map (tr_ev mid Nat.eqb iss) (map (fun p : mid * msg => (EDeleted, mb, fst p)) (mrep iss mb sb)) = map ev_deleted sb.
Proof.
  intros Hsb. unfold mrep, rep. rewrite !map_map. apply map_ext_in. intros e He. simpl.
  specialize (Hsb e He). unfold ev_deleted. pose proof (box_k_lt mb e Hsb) as Hk.
  apply box_in in Hsb as [_ Hm]. rewrite Hm. rewrite handle_of_midof; [reflexivity | apply (rm_nd _ _ _ HR) | exact Hk].
Qed.

Lemma step_purge mb : step_ok (Purge mb).
Proof.
  unfold step_ok. cbn [step_impl exec_spec exec_mem]. cbn [tr_unit]. split; [reflexivity|]. split.
  - rewrite msgs_sorted. rewrite (rm_box _ _ _ HR). apply del_events_ok. auto.
  - cbn [fst snd]. destruct (mb_msgs (get_mbox mb s)) as [|p L] eqn:EL.
    + constructor; simpl.
      * intros mb'. destruct (list_eq_dec N.eq_dec mb' mb) as [->|Hne].
        -- unfold get_mbox in *. simpl. rewrite EL, box_purge_same. reflexivity.
        -- rewrite box_purge_other by exact Hne. apply (rm_box _ _ _ HR).
      * apply (rm_last _ _ _ HR).
      * apply (rm_iss _ _ _ HR).
      * apply (rm_names _ _ _ HR).
      * apply (rm_names_nd _ _ _ HR).
    + apply RM_update.
      * rewrite (rm_box _ _ _ HR) in EL. destruct (box mb (live st)) as [|e sb] eqn:EB; [discriminate|].
        apply (mb_in_names mb e). rewrite EB. left; reflexivity.
      * rewrite box_purge_same. reflexivity.
      * intros mb' Hne. apply box_purge_other. exact Hne.
Qed.

Lemma step_visit : step_ok Visit.
Proof.
  unfold step_ok. cbn [step_impl exec_spec exec_mem map fst snd]. split; [|auto]. f_equal.
  unfold spec_visit. f_equal.
  transitivity (map (fun n => (n, map view_of (box n (live st)))) (map fst (ms_boxes s))).
  - rewrite !map_map. apply map_ext_in. intros [n b] Hin. simpl. f_equal.
    assert (b = get_mbox n s) as ->.
    { unfold get_mbox. symmetry. apply bx_get_in; [rewrite (rm_names _ _ _ HR); apply (rm_names_nd _ _ _ HR) | exact Hin]. }
    rewrite msgs_sorted. rewrite (rm_box _ _ _ HR). apply views_ok. auto.
  - rewrite (rm_names _ _ _ HR). rewrite map_map. reflexivity.
Qed.

End Step.

(* ------------------------------------------------------------------ AddMessage (no limits) *)
Lemma NoDup_snoc_m {A} (l : list A) a : NoDup l -> ~ In a l -> NoDup (l ++ [a]).
Proof.
  intros H Ha. induction l as [|x l IH]; simpl; [repeat constructor; auto|].
  inversion H as [|? ? Hx Hl]; subst. constructor.
  - intros Hin. apply in_app_or in Hin as [Hin|[<-|[]]]; [auto | apply Ha; left; reflexivity].
  - apply IH; [exact Hl | intros Hin; apply Ha; right; exact Hin].
Qed.

Section StepAdd.
Variable cfg : scfg.
Hypothesis no_max : c_max cfg = 0%N.
Hypothesis no_cap : c_cap cfg = 0.
Variables (st : spec_store) (s : mem_store) (iss : issued mid).
Hypothesis HR : RM st s iss.
Hypothesis HI : SInv st.

Lemma mem_add_char mb m :
  let b := get_mbox mb s in
  mem_add cfg s mb m =
  ({| ms_boxes := bx_set mb {| mb_first := mb_first b; mb_last := S (mb_last b); mb_msgs := mb_msgs b ++ [(S (mb_last b), m)] |} (ms_boxes s);
      ms_enf := ms_enf s |}, LAdd (S (mb_last b)), []).
Proof. intros b. unfold mem_add. fold b. rewrite no_cap, no_max. reflexivity. Qed.

Lemma step_add mb date tag size : step_ok cfg st s iss (Add mb date tag size).
Proof.
  unfold step_ok. cbn [step_impl exec_spec].
  set (m := {| m_date := date; m_tag := tag; m_size := size; m_seen := false |}).
  set (L := iss_of mid mb iss) in *.
  set (sb0 := box mb (live st)).
  set (k := count_of mb (counts st)).
  assert (HkL : length L = k) by (apply (rm_len _ _ _ HR)).
  assert (HLs : L = seq 1 k) by (apply (rm_iss _ _ _ HR)).
  cbn [exec_mem]. rewrite mem_add_char. cbv zeta. rewrite (rm_last _ _ _ HR). fold k.
  set (s1 := {| ms_boxes := _; ms_enf := ms_enf s |}).
  pose proof (spec_add_LInv cfg st mb m HI) as HI'.
  rewrite spec_add_unfold in *. cbv zeta in *.
  unfold add_cap, add_fit, add_l1 in *. rewrite no_cap, no_max in *. simpl Nat.eqb in *. simpl N.eqb in *. cbv iota in *.
  fold k in HI' |- *.
  set (nw := {| e_mb := mb; e_k := k; e_msg := m |}) in *.
  set (st' := {| live := live st ++ [nw]; counts := bump mb (counts st) |}) in *.
  set (iss' := bx_set mb (L ++ [S k]) iss).
  assert (HL' : iss_of mid mb iss' = L ++ [S k]) by (unfold iss', iss_of; apply bx_get_set_same).
  assert (HLo : forall mb', mb' <> mb -> iss_of mid mb' iss' = iss_of mid mb' iss).
  { intros mb' Hne. unfold iss', iss_of. apply bx_get_set_other. congruence. }
  assert (HA : forall k0, k0 < length L -> midof iss' mb k0 = midof iss mb k0).
  { intros k0 Hk0. unfold midof. rewrite HL'. apply app_nth1. exact Hk0. }
  assert (HB : midof iss' mb k = S k).
  { unfold midof. rewrite HL'. rewrite <- HkL. apply nth_middle. }
  assert (Hb1 : box mb (live st ++ [nw]) = sb0 ++ [nw]).
  { rewrite box_app. simpl. assert (ent_in mb nw = true) as -> by (apply ent_in_eq; reflexivity). reflexivity. }
  assert (Ho1 : forall mb', mb' <> mb -> box mb' (live st ++ [nw]) = box mb' (live st)).
  { intros mb' Hne. rewrite box_app. simpl. assert (ent_in mb' nw = false) as -> by (apply ent_in_neq; simpl; congruence).
    apply app_nil_r. }
  assert (Hg : forall mb', get_mbox mb' s1 =
             if list_eq_dec N.eq_dec mb' mb
             then {| mb_first := mb_first (get_mbox mb s); mb_last := S k; mb_msgs := mb_msgs (get_mbox mb s) ++ [(S k, m)] |}
             else get_mbox mb' s).
  { intros mb'. unfold get_mbox, s1. simpl. destruct (list_eq_dec N.eq_dec mb' mb) as [->|Hne].
    - apply bx_get_set_same.
    - apply bx_get_set_other. congruence. }
  assert (HR' : RM st' s1 iss').
  { constructor.
    - intros mb'. rewrite Hg. destruct (list_eq_dec N.eq_dec mb' mb) as [->|Hne].
      + simpl. rewrite Hb1. unfold mrep at 1, rep. rewrite map_app. simpl map. cbn [e_k e_msg nw]. rewrite HB. f_equal.
        rewrite (rm_box _ _ _ HR). unfold mrep, rep. apply map_ext_in. intros e He. f_equal. symmetry. apply HA.
        apply (box_k_lt st s iss HR HI mb). exact He.
      + simpl live. rewrite Ho1 by exact Hne. unfold mrep, rep, midof. rewrite HLo by exact Hne. apply (rm_box _ _ _ HR).
    - intros mb'. rewrite Hg. simpl counts. destruct (list_eq_dec N.eq_dec mb' mb) as [->|Hne].
      + simpl. rewrite count_bump_same. reflexivity.
      + rewrite count_bump_other by congruence. apply (rm_last _ _ _ HR).
    - intros mb'. simpl counts. destruct (list_eq_dec N.eq_dec mb' mb) as [->|Hne].
      + rewrite HL', count_bump_same. fold k. rewrite HLs. rewrite seq_S. reflexivity.
      + rewrite HLo by exact Hne. rewrite count_bump_other by congruence. apply (rm_iss _ _ _ HR).
    - unfold s1. simpl ms_boxes. simpl counts.
      destruct (in_dec (list_eq_dec N.eq_dec) mb (map fst (counts st))) as [Hin|Hin].
      + rewrite bump_names_in by exact Hin. rewrite bx_set_names_in; [apply (rm_names _ _ _ HR)|].
        rewrite (rm_names _ _ _ HR). exact Hin.
      + rewrite bump_names_notin by exact Hin. rewrite bx_set_names_notin; [rewrite (rm_names _ _ _ HR); reflexivity|].
        rewrite (rm_names _ _ _ HR). exact Hin.
    - simpl counts. destruct (in_dec (list_eq_dec N.eq_dec) mb (map fst (counts st))) as [Hin|Hin].
      + rewrite bump_names_in by exact Hin. apply (rm_names_nd _ _ _ HR).
      + rewrite bump_names_notin by exact Hin. apply NoDup_snoc_m; [apply (rm_names_nd _ _ _ HR) | exact Hin]. }
  assert (Hk' : k < length (iss_of mid mb iss')) by (rewrite HL', app_length; simpl; lia).
  fold L. cbn [fst snd map app].
  split; [|split; [|exact HR']].
  - rewrite HkL. f_equal. cbn [find_h].
    pose proof (get_id_ok st' s1 iss' HR' HI' mb k Hk') as Hgo. rewrite HB in Hgo. exact Hgo.
  - rewrite HkL. reflexivity.
Qed.
End StepAdd.

(* ------------------------------------------------------------------ histories *)
Lemma step_any cfg st s iss o : c_max cfg = 0%N -> c_cap cfg = 0 -> RM st s iss -> SInv st -> step_ok cfg st s iss o.
Proof.
  intros Hm Hc HR HI. destruct o.
  - apply step_add; assumption.
  - apply step_get; assumption.
  - apply step_list; assumption.
  - apply step_seen; assumption.
  - apply step_remove; assumption.
  - apply step_purge; assumption.
  - apply step_visit; assumption.
Qed.

Lemma RM_init : RM spec_init mem_init [].
Proof. constructor; simpl; intros; try reflexivity; constructor. Qed.

Lemma mem_run_sim cfg : c_max cfg = 0%N -> c_cap cfg = 0 -> forall ops st s iss, RM st s iss -> SInv st ->
  run_impl mid Nat.eqb mem_store (exec_mem cfg) (s, iss) ops = run_spec cfg st ops.
Proof.
  intros Hm Hc. induction ops as [|o ops IH]; intros st s iss HR HI; [reflexivity|].
  pose proof (step_any cfg st s iss o Hm Hc HR HI) as Hs.
  pose proof (exec_spec_SInv cfg st o HI) as HI'.
  unfold step_ok in Hs. cbn [run_impl run_spec].
  destruct (step_impl mid Nat.eqb mem_store (exec_mem cfg) (s, iss) o) as [[[s' iss'] ob] evs].
  destruct (exec_spec cfg st o) as [[st' ob'] evs']. destruct Hs as [-> [-> HR']]. simpl in HR', HI'.
  f_equal. apply IH; assumption.
Qed.

(** Every history on the memory-store model without limits yields, operation by operation,
    the observations and events of the abstract store. *)
Theorem mem_refines_spec_nolimit cfg ops :
  c_cap cfg = 0 -> c_max cfg = 0%N -> run_mem cfg ops = run_spec cfg spec_init ops.
Proof. intros Hc Hm. unfold run_mem. apply mem_run_sim; auto using RM_init, SInv_init. Qed.

(** The full statement (cap loop with [first], size enforcer): not proved here; it is validated
    by the correspondence check only. *)
Definition mem_refines_spec_stmt : Prop := forall cfg ops, run_mem cfg ops = run_spec cfg spec_init ops.

(** C08 statements about the memory model that need the refinement with limits; kept visible,
    not proved (NOT_PROVED in lib/props/c08.py); the oracle enforces them on every run. *)
Definition en_rep (l : list entry) : list (str * mid * N) := map (fun e => (e_mb e, S (e_k e), m_size (e_msg e))) l.
Definition accounting_exact_stmt : Prop :=
  forall cfg ops, c_max cfg <> 0%N ->
    let s := fst (final_mem cfg ops) in let st := final_spec cfg spec_init ops in
    en_all (ms_enf s) = en_rep (live st) /\ en_cur (ms_enf s) = total (live st).
Definition fits_then_retrievable_stmt : Prop :=
  forall cfg st mb date tag size, SInv st -> (c_max cfg = 0 \/ size <= c_max cfg)%N ->
    exists v, snd (fst (exec_spec cfg st (Add mb date tag size))) = OAdd (count_of mb (counts st)) (Ok v) /\ m_size (snd v) = size.

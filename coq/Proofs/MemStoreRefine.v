(** The memory-store model refines the abstract store when no limit is configured
    (C07 [mem_refines_spec_nolimit]); the statement with limits is [mem_refines_spec_stmt]. *)
From Coq Require Import List Arith Lia Sorted.
From IV Require Proofs.FileStoreRefine.
From IV Require Import Base.Bytes Base.BytesFacts Model.StoreSpec Model.StoreSpecImpl Model.MemStore
  Proofs.StoreSpecFacts Proofs.StoreSpecRefine Proofs.StoreSpecLimits Proofs.MemStoreLoops.
Import ListNotations.
Local Open Scope nat_scope.

Lemma meqb_eq a b : Nat.eqb a b = true <-> a = b.
Proof. apply Nat.eqb_eq. Qed.

Definition mdflt : mid := 0.
Definition midof (iss : issued mid) (mb : str) (k : nat) : mid := nth k (iss_of mid mb iss) mdflt.
Definition mrep (iss : issued mid) (mb : str) (sb : list entry) : list (mid * msg) := rep mid (midof iss mb) sb.

Record RM (st : spec_store) (s : mem_store) (iss : issued mid) : Prop := {
  rm_box : forall mb, mb_msgs (get_mbox mb s) = mrep iss mb (box mb (live st));
  rm_last : forall mb, mb_last (get_mbox mb s) = count_of mb (counts st);
  rm_fl : forall mb, mb_first (get_mbox mb s) <= S (mb_last (get_mbox mb s));
  rm_iss : forall mb, iss_of mid mb iss = seq 1 (count_of mb (counts st));
  rm_names : map fst (ms_boxes s) = map fst (counts st);
  rm_names_nd : NoDup (map fst (counts st)) }.

Lemma rm_len st s iss : RM st s iss -> forall mb, length (iss_of mid mb iss) = count_of mb (counts st).
Proof. intros H mb. rewrite (rm_iss _ _ _ H). apply seq_length. Qed.

Lemma rm_nd st s iss : RM st s iss -> forall mb, NoDup (iss_of mid mb iss).
Proof. intros H mb. rewrite (rm_iss _ _ _ H). apply seq_NoDup. Qed.

Lemma midof_inj iss mb : NoDup (iss_of mid mb iss) ->
  forall a b, a < length (iss_of mid mb iss) -> b < length (iss_of mid mb iss) -> midof iss mb a = midof iss mb b -> a = b.
Proof. intros Hnd a b Ha Hb H. eapply NoDup_nth; eauto. Qed.

Lemma handle_of_midof iss mb k : NoDup (iss_of mid mb iss) -> k < length (iss_of mid mb iss) ->
  handle_of mid Nat.eqb iss mb (midof iss mb k) = k.
Proof.
  intros Hnd Hk. unfold handle_of, midof. rewrite (index_of_nth mid Nat.eqb meqb_eq) by assumption. reflexivity.
Qed.

Lemma ins_head p l : Forall (klt2 p) l -> ins_by_index p l = p :: l.
Proof.
  destruct l as [|q l]; [reflexivity|]. intros H. inversion H; subst. simpl.
  unfold klt2 in *. assert (Nat.leb (fst p) (fst q) = true) as -> by (apply Nat.leb_le; lia). reflexivity.
Qed.

Lemma sort_sorted l : StronglySorted klt2 l -> sort_by_index l = l.
Proof.
  induction l as [|p l IH]; intros H; [reflexivity|]. apply StronglySorted_inv in H as [H1 H2].
  simpl. rewrite IH by exact H1. apply ins_head. exact H2.
Qed.

(** The part of the relation that concerns the eviction cursor and the size enforcer:
    [first] is at or below every live id of its mailbox; with a size limit the enforcer's list
    is exactly the live messages in global arrival order and [curSize] is their total size. *)
Definition RX (cfg : scfg) (st : spec_store) (s : mem_store) : Prop :=
  (forall mb e, In e (box mb (live st)) -> mb_first (get_mbox mb s) <= S (e_k e)) /\ (c_max cfg <> 0%N -> ms_enf s = E (live st)).

Lemma E_set_seen mb k l : E (set_seen mb k l) = E l.
Proof.
  unfold E. f_equal; [|apply total_set_seen]. unfold en_rep, set_seen. rewrite map_map. apply map_ext.
  intros e. destruct (is_ent mb k e); reflexivity.
Qed.

Section Step.
Variable cfg : scfg.

Variables (st : spec_store) (s : mem_store) (iss : issued mid).
Hypothesis HR : RM st s iss.
Hypothesis HI : SInv st.
Hypothesis HX : RX cfg st s.

Lemma box_k_lt mb e : In e (box mb (live st)) -> e_k e < length (iss_of mid mb iss).
Proof.
  intros He. apply box_in in He as [He Hm]. rewrite (rm_len _ _ _ HR). destruct HI as [_ H]. specialize (H e He).
  rewrite Hm in H. exact H.
Qed.

Lemma midof_S mb k : k < length (iss_of mid mb iss) -> midof iss mb k = S k.
Proof.
  intros Hk. unfold midof. rewrite (rm_iss _ _ _ HR). rewrite (rm_len _ _ _ HR) in Hk. rewrite seq_nth by exact Hk. reflexivity.
Qed.

Lemma mrep_mf mb sb : (forall e, In e sb -> In e (box mb (live st))) -> mrep iss mb sb = map mf sb.
Proof.
  intros Hsb. unfold mrep, rep. apply map_ext_in. intros e He. unfold mf. f_equal. apply midof_S. apply box_k_lt. auto.
Qed.

Lemma rm_box_S mb : mb_msgs (get_mbox mb s) = map mf (box mb (live st)).
Proof. rewrite (rm_box _ _ _ HR). apply mrep_mf. auto. Qed.

Lemma msgs_sorted mb : sort_by_index (mb_msgs (get_mbox mb s)) = mb_msgs (get_mbox mb s).
Proof.
  apply sort_sorted. rewrite (rm_box _ _ _ HR). unfold mrep, rep.
  destruct HI as [Hs _]. specialize (Hs mb).
  assert (Hk : forall e, In e (box mb (live st)) -> midof iss mb (e_k e) = S (e_k e)).
  { intros e He. unfold midof. rewrite (rm_iss _ _ _ HR). pose proof (box_k_lt mb e He) as Hl.
    rewrite (rm_len _ _ _ HR) in Hl. rewrite seq_nth by exact Hl. reflexivity. }
  revert Hk Hs. generalize (box mb (live st)). intros l Hk Hs.
  induction l as [|e l IH]; simpl; [constructor|].
  apply StronglySorted_inv in Hs as [H1 H2]. constructor.
  - apply IH; [intros x Hx; apply Hk; right; exact Hx | exact H1].
  - rewrite Forall_forall in *. intros x Hx. apply in_map_iff in Hx as [y [<- Hy]]. unfold klt2. simpl.
    rewrite Hk by (left; reflexivity). rewrite Hk by (right; exact Hy). specialize (H2 y Hy). unfold klt in H2. lia.
Qed.

Lemma views_ok mb sb : (forall e, In e sb -> In e (box mb (live st))) ->
  map (tr_view mid Nat.eqb iss mb) (mrep iss mb sb) = map view_of sb.
Proof.
  intros Hsb. unfold mrep, rep. rewrite map_map. apply map_ext_in. intros e He.
  unfold tr_view, view_of. simpl. f_equal. apply handle_of_midof; [apply (rm_nd _ _ _ HR) | apply box_k_lt; auto].
Qed.

Lemma find_h_kth_none mb k : length (iss_of mid mb iss) <= k -> find (is_ent mb k) (live st) = None.
Proof.
  intros Hk. destruct (find (is_ent mb k) (live st)) as [e|] eqn:E; [|reflexivity]. exfalso.
  apply find_some in E as [He Hp]. unfold is_ent in Hp. apply andb_true_iff in Hp as [Hm Hk'].
  apply ent_in_eq in Hm. apply Nat.eqb_eq in Hk'.
  assert (In e (box mb (live st))) as Hb by (apply box_in; auto). apply box_k_lt in Hb. lia.
Qed.

(** GetMessage of an issued id answers what the abstract store answers for the handle. *)
Lemma get_id_ok mb k : k < length (iss_of mid mb iss) ->
  tr_msg mid Nat.eqb iss mb (LMsg (mem_get s mb (QId (midof iss mb k)))) = res_of_find (find (is_ent mb k) (live st)).
Proof.
  intros Hk. unfold mem_get. rewrite (rm_box _ _ _ HR). unfold mal_find, mrep.
  rewrite (rep_find mid Nat.eqb meqb_eq (midof iss mb) (length (iss_of mid mb iss)));
    [| apply midof_inj; apply (rm_nd _ _ _ HR) | exact Hk | intros e He; apply box_k_lt; exact He].
  rewrite find_box. destruct (find (fun e => Nat.eqb (e_k e) k) (box mb (live st))) as [e|] eqn:E; simpl; [|reflexivity].
  apply find_some in E as [He Hke]. apply Nat.eqb_eq in Hke. unfold tr_view, view_of. simpl.
  rewrite handle_of_midof; [rewrite Hke; reflexivity | apply (rm_nd _ _ _ HR) | exact Hk].
Qed.

Lemma resolve_kth mb k :
  resolve mid iss mb (Kth k) = if Nat.ltb k (length (iss_of mid mb iss)) then QId (midof iss mb k) else QBogus.
Proof.
  unfold resolve. destruct (Nat.ltb k (length (iss_of mid mb iss))) eqn:E.
  - apply Nat.ltb_lt in E. rewrite (nth_error_nth' _ mdflt E). reflexivity.
  - apply Nat.ltb_ge in E. rewrite (proj2 (nth_error_None _ _) E). reflexivity.
Qed.

Lemma mb_in_names mb e : In e (box mb (live st)) -> In mb (map fst (ms_boxes s)).
Proof.
  intros He. rewrite (rm_names _ _ _ HR). destruct (in_dec (list_eq_dec N.eq_dec) mb (map fst (counts st))) as [H|H]; [exact H|].
  apply count_zero_notin in H. apply box_k_lt in He. rewrite (rm_len _ _ _ HR) in He. lia.
Qed.

(** A state change that touches only the messages of mailbox [mb]. *)
Lemma RM_update mb (L : list (mid * msg)) (l' : list entry) X :
  In mb (map fst (ms_boxes s)) ->
  L = mrep iss mb (box mb l') ->
  (forall mb', mb' <> mb -> box mb' l' = box mb' (live st)) ->
  (forall e, In e (box mb l') -> exists e0, In e0 (box mb (live st)) /\ e_k e0 = e_k e) ->
  (c_max cfg <> 0%N -> X = E l') ->
  let s' := {| ms_boxes := bx_set mb (set_msgs (get_mbox mb s) L) (ms_boxes s); ms_enf := X |} in
  RM {| live := l'; counts := counts st |} s' iss /\ RX cfg {| live := l'; counts := counts st |} s'.
Proof.
  intros Hin HL Hother Hks HE s'.
  assert (Hg : forall mb', get_mbox mb' s' =
                          if list_eq_dec N.eq_dec mb' mb then set_msgs (get_mbox mb s) L else get_mbox mb' s).
  { intros mb'. unfold get_mbox, s'. simpl. destruct (list_eq_dec N.eq_dec mb' mb) as [->|Hne].
    - apply bx_get_set_same.
    - apply bx_get_set_other. congruence. }
  split; [constructor; simpl | split; simpl].
  - intros mb'. rewrite Hg. destruct (list_eq_dec N.eq_dec mb' mb) as [->|Hne].
    + simpl. exact HL.
    + rewrite Hother by exact Hne. apply (rm_box _ _ _ HR).
  - intros mb'. rewrite Hg. destruct (list_eq_dec N.eq_dec mb' mb) as [->|Hne]; simpl; apply (rm_last _ _ _ HR).
  - intros mb'. rewrite Hg. destruct (list_eq_dec N.eq_dec mb' mb) as [->|Hne]; simpl; apply (rm_fl _ _ _ HR).
  - apply (rm_iss _ _ _ HR).
  - rewrite bx_set_names_in by exact Hin. apply (rm_names _ _ _ HR).
  - apply (rm_names_nd _ _ _ HR).
  - intros mb' e He. rewrite Hg. destruct (list_eq_dec N.eq_dec mb' mb) as [->|Hne].
    + simpl. destruct (Hks e He) as [e0 [H0 <-]]. apply (proj1 HX). exact H0.
    + rewrite Hother in He by exact Hne. apply (proj1 HX). exact He.
  - exact HE.
Qed.

Definition step_ok (o : op) : Prop :=
  let '(si', ob, evs) := step_impl mid Nat.eqb mem_store (exec_mem cfg) (s, iss) o in
  let '(st', ob', evs') := exec_spec cfg st o in
  ob = ob' /\ evs = evs' /\ RM st' (fst si') (snd si') /\ RX cfg st' (fst si').

Lemma step_get mb h : step_ok (Get mb h).
Proof.
  unfold step_ok. destruct h as [k| |].
  - cbn [step_impl exec_spec find_h]. rewrite resolve_kth.
    destruct (Nat.ltb k (length (iss_of mid mb iss))) eqn:E; cbn [exec_mem].
    + apply Nat.ltb_lt in E. cbn [map fst snd]. rewrite get_id_ok by exact E. auto.
    + apply Nat.ltb_ge in E. rewrite find_h_kth_none by exact E. cbn. auto.
  - cbn [step_impl exec_spec resolve exec_mem map fst snd]. split; [|auto]. f_equal.
    unfold mem_get. rewrite msgs_sorted. rewrite (rm_box _ _ _ HR). unfold mrep, rep. rewrite last_opt_map.
    destruct (last_opt (box mb (live st))) as [e|] eqn:E; simpl; [|reflexivity].
    unfold tr_view, view_of. simpl. f_equal. f_equal. apply handle_of_midof; [apply (rm_nd _ _ _ HR)|].
    apply box_k_lt. clear -E. induction (box mb (live st)) as [|a l IH]; [discriminate|].
    destruct l as [|b l]; [inversion E; left; reflexivity | right; apply IH; exact E].
  - cbn. auto.
Qed.

Lemma step_list mb : step_ok (Lst mb).
Proof.
  unfold step_ok. cbn [step_impl exec_spec exec_mem map fst snd]. split; [|auto]. f_equal.
  rewrite msgs_sorted. rewrite (rm_box _ _ _ HR). apply views_ok. auto.
Qed.

Lemma find_id_some mb k e : k < length (iss_of mid mb iss) -> find (is_ent mb k) (live st) = Some e ->
  mal_find (midof iss mb k) (mb_msgs (get_mbox mb s)) = Some (e_msg e) /\ e_k e = k /\ e_mb e = mb /\ In e (box mb (live st)).
Proof.
  intros Hk E. rewrite (rm_box _ _ _ HR). unfold mal_find, mrep.
  rewrite (rep_find mid Nat.eqb meqb_eq (midof iss mb) (length (iss_of mid mb iss)));
    [| apply midof_inj; apply (rm_nd _ _ _ HR) | exact Hk | intros x Hx; apply box_k_lt; exact Hx].
  rewrite <- find_box, E. apply find_some in E as [He Hp]. unfold is_ent in Hp.
  apply andb_true_iff in Hp as [Hm Hk']. apply ent_in_eq in Hm. apply Nat.eqb_eq in Hk'.
  repeat split; auto. apply box_in. auto.
Qed.

Lemma find_id_none mb k : k < length (iss_of mid mb iss) -> find (is_ent mb k) (live st) = None ->
  mal_find (midof iss mb k) (mb_msgs (get_mbox mb s)) = None.
Proof.
  intros Hk E. rewrite (rm_box _ _ _ HR). unfold mal_find, mrep.
  rewrite (rep_find mid Nat.eqb meqb_eq (midof iss mb) (length (iss_of mid mb iss)));
    [| apply midof_inj; apply (rm_nd _ _ _ HR) | exact Hk | intros x Hx; apply box_k_lt; exact Hx].
  rewrite <- find_box, E. reflexivity.
Qed.

Lemma step_seen mb h : step_ok (Seen mb h).
Proof.
  unfold step_ok. destruct h as [k| |]; [|cbn; auto|cbn; auto].
  cbn [step_impl exec_spec find_h]. rewrite resolve_kth.
  destruct (Nat.ltb k (length (iss_of mid mb iss))) eqn:E.
  - apply Nat.ltb_lt in E. cbn [exec_mem]. destruct (find (is_ent mb k) (live st)) as [e|] eqn:F.
    + destruct (find_id_some mb k e E F) as [H1 [H2 [H3 H4]]]. rewrite H1. cbn [map fst snd tr_unit].
      split; [reflexivity|]. split; [reflexivity|]. rewrite H2. apply RM_update.
      * eapply mb_in_names; eauto.
      * rewrite box_seen_same. rewrite (rm_box _ _ _ HR). unfold mal_seen, mrep.
        apply (rep_seen mid Nat.eqb meqb_eq (midof iss mb) (length (iss_of mid mb iss)));
          [apply midof_inj; apply (rm_nd _ _ _ HR) | exact E | intros x Hx; apply box_k_lt; exact Hx | apply HI].
      * intros mb' Hne. apply box_seen_other. exact Hne.
      * intros x Hx. rewrite box_seen_same in Hx. apply in_map_iff in Hx as [y [<- Hy]]. exists y. split; [exact Hy|].
        unfold seen_k. destruct (Nat.eqb (e_k y) k); reflexivity.
      * intros Hm. rewrite E_set_seen. apply (proj2 HX). exact Hm.
    + rewrite (find_id_none mb k E F). cbn. auto.
  - apply Nat.ltb_ge in E. rewrite find_h_kth_none by exact E. cbn. auto.
Qed.

Lemma step_remove mb h : step_ok (Remove mb h).
Proof.
  unfold step_ok. destruct h as [k| |]; [|cbn; auto|cbn; auto].
  cbn [step_impl exec_spec find_h]. rewrite resolve_kth.
  destruct (Nat.ltb k (length (iss_of mid mb iss))) eqn:E.
  - apply Nat.ltb_lt in E. cbn [exec_mem]. destruct (find (is_ent mb k) (live st)) as [e|] eqn:F.
    + destruct (find_id_some mb k e E F) as [H1 [H2 [H3 H4]]]. rewrite H1. cbn [map fst snd tr_unit tr_ev].
      split; [reflexivity|]. split.
      { unfold ev_deleted. rewrite H2, H3. rewrite handle_of_midof; [reflexivity | apply (rm_nd _ _ _ HR) | exact E]. }
      rewrite H2. apply RM_update.
      * eapply mb_in_names; eauto.
      * rewrite box_remove_same. rewrite (rm_box _ _ _ HR). unfold mal_remove, mrep.
        apply (rep_remove mid Nat.eqb meqb_eq (midof iss mb) (length (iss_of mid mb iss)));
          [apply midof_inj; apply (rm_nd _ _ _ HR) | exact E | intros x Hx; apply box_k_lt; exact Hx | apply HI].
      * intros mb' Hne. apply box_remove_other. exact Hne.
      * intros x Hx. rewrite box_remove_same in Hx. apply filter_In in Hx as [Hx _]. exists x. auto.
      * intros Hm. rewrite (proj2 HX Hm). rewrite midof_S by exact E.
        apply enf_remove_ok; [exact Hm | apply HI | exact F].
    + rewrite (find_id_none mb k E F). cbn. auto.
  - apply Nat.ltb_ge in E. rewrite find_h_kth_none by exact E. cbn. auto.
Qed.

Lemma del_events_ok mb sb : (forall e, In e sb -> In e (box mb (live st))) ->
  map (tr_ev mid Nat.eqb iss) (map (fun p : mid * msg => (EDeleted, mb, fst p)) (mrep iss mb sb)) = map ev_deleted sb.
Proof.
  intros Hsb. unfold mrep, rep. rewrite !map_map. apply map_ext_in. intros e He. simpl.
  specialize (Hsb e He). unfold ev_deleted. pose proof (box_k_lt mb e Hsb) as Hk.
  apply box_in in Hsb as [_ Hm]. rewrite Hm. rewrite handle_of_midof; [reflexivity | apply (rm_nd _ _ _ HR) | exact Hk].
Qed.

Lemma purge_enf mb : c_max cfg <> 0%N ->
  fold_left (fun e p => enf_remove (c_max cfg) mb (fst p) (m_size (snd p)) e)
            (sort_by_index (mb_msgs (get_mbox mb s))) (ms_enf s) =
  E (filter (fun e => negb (ent_in mb e)) (live st)).
Proof.
  intros Hm. rewrite msgs_sorted, rm_box_S, (proj2 HX Hm).
  pose proof (enf_fold (c_max cfg) mb Hm (length (box mb (live st))) (live st) (proj1 HI)) as H.
  rewrite firstn_all in H. unfold enf_step in H. rewrite H. f_equal. apply remove_many_all. apply HI.
Qed.

Lemma step_purge mb : step_ok (Purge mb).
Proof.
  unfold step_ok. cbn [step_impl exec_spec exec_mem]. cbn [tr_unit]. split; [reflexivity|]. split.
  - rewrite msgs_sorted. rewrite (rm_box _ _ _ HR). apply del_events_ok. auto.
  - cbn [fst snd]. pose proof (purge_enf mb) as HP. revert HP.
    destruct (mb_msgs (get_mbox mb s)) as [|p L] eqn:EL; intros HP.
    + split; [constructor; simpl | split; simpl].
      * intros mb'. destruct (list_eq_dec N.eq_dec mb' mb) as [->|Hne].
        -- unfold get_mbox in *. simpl. rewrite EL, box_purge_same. reflexivity.
        -- rewrite box_purge_other by exact Hne. apply (rm_box _ _ _ HR).
      * apply (rm_last _ _ _ HR).
      * apply (rm_fl _ _ _ HR).
      * apply (rm_iss _ _ _ HR).
      * apply (rm_names _ _ _ HR).
      * apply (rm_names_nd _ _ _ HR).
      * intros mb' e He. rewrite box_filter in He. apply filter_In in He as [He _]. apply (proj1 HX). exact He.
      * exact HP.
    + apply RM_update.
      * rewrite (rm_box _ _ _ HR) in EL. destruct (box mb (live st)) as [|e sb] eqn:EB; [discriminate|].
        apply (mb_in_names mb e). rewrite EB. left; reflexivity.
      * rewrite box_purge_same. reflexivity.
      * intros mb' Hne. apply box_purge_other. exact Hne.
      * intros e He. rewrite box_purge_same in He. destruct He.
      * exact HP.
Qed.

Lemma step_visit : step_ok Visit.
Proof.
  unfold step_ok. cbn [step_impl exec_spec exec_mem map fst snd]. split; [|auto]. f_equal.
  unfold spec_visit. f_equal.
  transitivity (map (fun n => (n, map view_of (box n (live st)))) (map fst (ms_boxes s))).
  - rewrite !map_map. apply map_ext_in. intros [n b] Hin. simpl. f_equal.
    assert (b = get_mbox n s) as ->.
    { unfold get_mbox. symmetry. apply bx_get_in; [rewrite (rm_names _ _ _ HR); apply (rm_names_nd _ _ _ HR) | exact Hin]. }
    rewrite msgs_sorted. rewrite (rm_box _ _ _ HR). apply views_ok. auto.
  - rewrite (rm_names _ _ _ HR). rewrite map_map. reflexivity.
Qed.

End Step.

(* ------------------------------------------------------------------ AddMessage *)
Lemma NoDup_snoc_m {A} (l : list A) a : NoDup l -> ~ In a l -> NoDup (l ++ [a]).
Proof.
  intros H Ha. induction l as [|x l IH]; simpl; [repeat constructor; auto|].
  inversion H as [|? ? Hx Hl]; subst. constructor.
  - intros Hin. apply in_app_or in Hin as [Hin|[<-|[]]]; [auto | apply Ha; left; reflexivity].
  - apply IH; [exact Hl | intros Hin; apply Ha; right; exact Hin].
Qed.

Notation cap_d := FileStoreRefine.cap_d.

Section StepAdd.
Variable cfg : scfg.
Variables (st : spec_store) (s : mem_store) (iss : issued mid).
Hypothesis HR : RM st s iss.
Hypothesis HI : SInv st.
Hypothesis HX : RX cfg st s.
Variables (mb : str) (m : msg).

Let k := count_of mb (counts st).
Let L := iss_of mid mb iss.
Let sb0 := box mb (live st).
Let nw := {| e_mb := mb; e_k := k; e_msg := m |}.
Let d := cap_d cfg (length sb0).
Let cnt' := bump mb (counts st).
Let iss' := bx_set mb (L ++ [S k]) iss.
Let lc := snd (drop_oldest mb d (live st)).
Let l2 := lc ++ [nw].

Lemma d_le : d <= length sb0.
Proof. unfold d, cap_d. destruct (Nat.eqb (c_cap cfg) 0) eqn:Q; [lia|]. apply Nat.eqb_neq in Q. lia. Qed.

Lemma drop_oldest_0 n l : drop_oldest n 0 l = ([], l).
Proof. destruct l; reflexivity. Qed.

Lemma add_cap_eq : add_cap cfg mb (add_l1 st mb m) = (firstn d sb0, l2).
Proof.
  unfold add_cap, add_l1. fold k nw.
  assert (Hd : d = if Nat.eqb (c_cap cfg) 0 then 0 else length sb0 + 1 - c_cap cfg) by reflexivity.
  destruct (Nat.eqb (c_cap cfg) 0) eqn:Q.
  - unfold l2, lc. rewrite Hd. rewrite drop_oldest_0. reflexivity.
  - apply Nat.eqb_neq in Q.
    assert (Hb : length (box mb (live st ++ [nw])) - c_cap cfg = d).
    { rewrite Hd, box_app, app_length. simpl. assert (ent_in mb nw = true) as -> by (apply ent_in_eq; reflexivity). reflexivity. }
    rewrite Hb. rewrite drop_oldest_snoc by (fold sb0; rewrite Hd; lia).
    pose proof (drop_oldest_spec mb d (live st)) as Hs. unfold l2, lc.
    destruct (drop_oldest mb d (live st)) as [dd rr]. simpl in *. f_equal. tauto.
Qed.

Lemma lc_box : box mb lc = skipn d sb0 /\ (forall mb', mb' <> mb -> box mb' lc = box mb' (live st)) /\ (forall e, In e lc -> In e (live st)).
Proof.
  pose proof (drop_oldest_spec mb d (live st)) as Hs. fold lc in Hs. unfold lc.
  destruct (drop_oldest mb d (live st)) as [dd rr]. simpl. tauto.
Qed.

Lemma l2_box : box mb l2 = skipn d sb0 ++ [nw] /\ (forall mb', mb' <> mb -> box mb' l2 = box mb' (live st)).
Proof.
  destruct lc_box as [H1 [H2 _]]. unfold l2. split.
  - rewrite box_app, H1. simpl. assert (ent_in mb nw = true) as -> by (apply ent_in_eq; reflexivity). reflexivity.
  - intros mb' Hne. rewrite box_app, H2 by exact Hne. simpl.
    assert (ent_in mb' nw = false) as -> by (apply ent_in_neq; simpl; congruence). apply app_nil_r.
Qed.

Lemma l2_LInv : LInv cnt' l2.
Proof.
  pose proof (LInv_snoc _ _ mb m HI) as H1. fold k nw cnt' in H1.
  pose proof (LInv_drop cnt' mb d _ H1) as H2. rewrite drop_oldest_snoc in H2 by (fold sb0; apply d_le). exact H2.
Qed.

Lemma iss'_seq mb' : iss_of mid mb' iss' = seq 1 (count_of mb' cnt').
Proof.
  unfold iss', iss_of, cnt'. destruct (list_eq_dec N.eq_dec mb' mb) as [->|Hne].
  - rewrite bx_get_set_same, count_bump_same. fold k. unfold L. rewrite (rm_iss _ _ _ HR). fold k. rewrite seq_S. reflexivity.
  - rewrite bx_get_set_other by congruence. rewrite count_bump_other by congruence. apply (rm_iss _ _ _ HR).
Qed.

Lemma midof' mb' k0 : k0 < count_of mb' cnt' -> midof iss' mb' k0 = S k0.
Proof. intros H. unfold midof. rewrite iss'_seq. rewrite seq_nth by exact H. reflexivity. Qed.

Lemma handle_of' mb' k0 : k0 < count_of mb' cnt' -> handle_of mid Nat.eqb iss' mb' (S k0) = k0.
Proof.
  intros H. rewrite <- (midof' mb' k0 H). apply handle_of_midof.
  - rewrite iss'_seq. apply seq_NoDup.
  - rewrite iss'_seq, seq_length. exact H.
Qed.

Lemma tr_evd e : e_k e < count_of (e_mb e) cnt' -> tr_ev mid Nat.eqb iss' (evd e) = ev_deleted e.
Proof. intros H. unfold evd, ev_deleted. cbn [tr_ev]. rewrite handle_of' by exact H. reflexivity. Qed.

Lemma cnt'_ge e : In e (live st) -> e_k e < count_of (e_mb e) cnt'.
Proof.
  intros He. destruct HI as [_ H]. specialize (H e He). unfold cnt'.
  destruct (list_eq_dec N.eq_dec mb (e_mb e)) as [Heq|Hne].
  - rewrite <- Heq in *. rewrite count_bump_same. apply Nat.lt_lt_succ_r. exact H.
  - rewrite count_bump_other by exact Hne. exact H.
Qed.

Lemma names' : (forall b : mbox, map fst (bx_set mb b (ms_boxes s)) = map fst cnt') /\ NoDup (map fst cnt').
Proof.
  unfold cnt'. destruct (in_dec (list_eq_dec N.eq_dec) mb (map fst (counts st))) as [Hin|Hin].
  - rewrite bump_names_in by exact Hin. split; [|apply (rm_names_nd _ _ _ HR)].
    intros b. rewrite bx_set_names_in by (rewrite (rm_names _ _ _ HR); exact Hin). apply (rm_names _ _ _ HR).
  - rewrite bump_names_notin by exact Hin. split; [|apply NoDup_snoc_m; [apply (rm_names_nd _ _ _ HR) | exact Hin]].
    intros b. rewrite bx_set_names_notin by (rewrite (rm_names _ _ _ HR); exact Hin). rewrite (rm_names _ _ _ HR). reflexivity.
Qed.

(** Whatever the final mailbox map [B], enforcer [X] and live list [l3]: if they agree mailbox by
    mailbox, the new state is related. *)
Lemma add_finish (B : list (str * mbox)) (X : enforcer) (l3 : list entry) :
  (forall mb', mb_msgs (gbox mb' B) = map mf (box mb' l3)) ->
  (forall mb', mb_last (gbox mb' B) = count_of mb' cnt') ->
  (forall mb', mb_first (gbox mb' B) <= S (mb_last (gbox mb' B))) ->
  (forall mb' e, In e (box mb' l3) -> mb_first (gbox mb' B) <= S (e_k e)) ->
  map fst B = map fst cnt' ->
  LInv cnt' l3 ->
  (c_max cfg <> 0%N -> X = E l3) ->
  let st' := {| live := l3; counts := cnt' |} in
  let s' := {| ms_boxes := B; ms_enf := X |} in
  RM st' s' iss' /\ RX cfg st' s'.
Proof.
  intros Ha Hb Hfl Hc Hd He Hf st' s'. split; [constructor | split]; simpl.
  - intros mb'. change (get_mbox mb' s') with (gbox mb' B). rewrite Ha. unfold mrep, rep. apply map_ext_in.
    intros e Hin. unfold mf. f_equal. symmetry. apply midof'. apply box_in in Hin as [Hin Hm]. rewrite <- Hm. apply He. exact Hin.
  - intros mb'. change (get_mbox mb' s') with (gbox mb' B). apply Hb.
  - intros mb'. change (get_mbox mb' s') with (gbox mb' B). apply Hfl.
  - apply iss'_seq.
  - exact Hd.
  - apply names'.
  - intros mb' e Hin. change (get_mbox mb' s') with (gbox mb' B). apply Hc. exact Hin.
  - exact Hf.
Qed.

Lemma msgs1_eq : mb_msgs (get_mbox mb s) ++ [(S (mb_last (get_mbox mb s)), m)] = map mf (sb0 ++ [nw]).
Proof.
  rewrite (rm_box_S st s iss HR HI), (rm_last _ _ _ HR). rewrite map_app. reflexivity.
Qed.

Lemma sb_sorted2 : StronglySorted klt2 (map mf (sb0 ++ [nw])).
Proof.
  pose proof (proj1 l2_LInv mb) as H. destruct l2_box as [Hb _].
  assert (Hs : StronglySorted klt (sb0 ++ [nw])).
  { pose proof (LInv_snoc _ _ mb m HI) as [H1 _]. specialize (H1 mb). rewrite box_app in H1. simpl in H1.
    fold k nw in H1. assert (ent_in mb nw = true) as E1 by (apply ent_in_eq; reflexivity). rewrite E1 in H1. exact H1. }
  eapply SS_map; [|exact Hs]. intros a b0 Hab. unfold klt2, mf, klt in *. simpl. lia.
Qed.

Lemma cap_part :
  let b := get_mbox mb s in
  exists first2,
    (if Nat.eqb (c_cap cfg) 0 then (mb_first b, mb_msgs b ++ [(S (mb_last b), m)], [])
     else cap_loop (S (S (S (mb_last b)) - mb_first b)) (c_cap cfg) (mb_first b) (mb_msgs b ++ [(S (mb_last b), m)]) [])
    = (first2, map mf (skipn d sb0 ++ [nw]), map mf (firstn d sb0)) /\
    (forall e, In e (skipn d sb0 ++ [nw]) -> first2 <= S (e_k e)) /\ first2 <= S (S k).
Proof.
  intros b. unfold b. rewrite msgs1_eq.
  assert (Hd : d = if Nat.eqb (c_cap cfg) 0 then 0 else length sb0 + 1 - c_cap cfg) by reflexivity.
  assert (Hbound : forall p, In p (map mf (sb0 ++ [nw])) -> mb_first (get_mbox mb s) <= fst p <= S k).
  { intros p Hp. apply in_map_iff in Hp as [e [<- He]]. simpl. apply in_app_or in He as [He|[<-|[]]].
    - split; [apply (proj1 HX mb e He)|]. pose proof (box_k_lt st s iss HR HI mb e He) as Hl.
      rewrite (rm_len _ _ _ HR) in Hl. fold k in Hl. lia.
    - simpl. pose proof (rm_fl _ _ _ HR mb) as Hfl. rewrite (rm_last _ _ _ HR) in Hfl. fold k in Hfl. lia. }
  pose proof d_le as Hdl.
  destruct (Nat.eqb (c_cap cfg) 0) eqn:Q.
  - exists (mb_first (get_mbox mb s)). rewrite Hd. cbn [skipn firstn map]. repeat split.
    + intros e He. apply (Hbound (mf e)). apply in_map. exact He.
    + pose proof (rm_fl _ _ _ HR mb) as Hfl. rewrite (rm_last _ _ _ HR) in Hfl. fold k in Hfl. lia.
  - apply Nat.eqb_neq in Q. rewrite (rm_last _ _ _ HR). fold k.
    destruct (cap_loop_spec (c_cap cfg) (S k) ltac:(lia) (S (S (S k) - mb_first (get_mbox mb s))) (mb_first (get_mbox mb s))
               (map mf (sb0 ++ [nw])) [] sb_sorted2 Hbound ltac:(lia)) as [f2 [H1 H2]].
    exists f2. rewrite map_length, app_length in H1, H2. simpl length in H1, H2.
    replace (length sb0 + 1 - c_cap cfg) with d in H1, H2 by (rewrite Hd; reflexivity).
    rewrite skipn_map, firstn_map in H1. rewrite skipn_map in H2.
    rewrite skipn_app, firstn_app in H1. rewrite skipn_app in H2.
    replace (d - length sb0) with 0 in H1, H2 by lia. cbn [skipn firstn] in H1, H2. rewrite app_nil_r in H1.
    split; [exact H1|]. split.
    + intros e He. apply (H2 (mf e)). apply in_map. exact He.
    + specialize (H2 (mf nw)). simpl in H2. apply Nat.le_le_succ_r. apply H2. apply in_map. apply in_or_app. right. left. reflexivity.
Qed.

Lemma add_conclude (s' : mem_store) (l3 d2 : list entry) :
  let st' := {| live := l3; counts := cnt' |} in
  RM st' s' iss' /\ RX cfg st' s' -> SInv st' ->
  (forall e, In e d2 -> e_k e < count_of (e_mb e) cnt') ->
  OAdd (length L) (tr_msg mid Nat.eqb iss' mb (LMsg (mem_get s' mb (QId (S k))))) =
    OAdd k (res_of_find (find_h mb (Kth k) l3)) /\
  map (tr_ev mid Nat.eqb iss') (map (fun p : mid * msg => (EDeleted, mb, fst p)) (map mf (firstn d sb0)) ++ map evd d2)
    ++ [(EStored, mb, length L)] ++ [] =
  map ev_deleted (firstn d sb0) ++ map ev_deleted d2 ++ [(EStored, mb, k)].
Proof.
  intros st' [HR' HX'] HI' Hd2.
  assert (HkL : length L = k) by (apply (rm_len _ _ _ HR)).
  assert (Hk' : k < length (iss_of mid mb iss')).
  { rewrite iss'_seq, seq_length. unfold cnt'. rewrite count_bump_same. fold k. lia. }
  split.
  - rewrite HkL. f_equal. cbn [find_h].
    pose proof (get_id_ok st' s' iss' HR' HI' mb k Hk') as Hgo.
    rewrite midof' in Hgo by (unfold cnt'; rewrite count_bump_same; fold k; lia). exact Hgo.
  - rewrite HkL. rewrite map_app, <- app_assoc. f_equal; [|f_equal].
    + rewrite !map_map. apply map_ext_in. intros e He.
      assert (Hin : In e sb0). { rewrite <- (firstn_skipn d sb0). apply in_or_app. left; exact He. }
      apply box_in in Hin as [Hin Hm]. cbn [mf fst]. rewrite <- Hm at 1.
      change (EDeleted, e_mb e, S (e_k e)) with (evd e). apply tr_evd. apply cnt'_ge. exact Hin.
    + rewrite map_map. apply map_ext_in. intros e He. apply tr_evd. apply Hd2. exact He.
Qed.

Lemma step_add date tag size :
  m = {| m_date := date; m_tag := tag; m_size := size; m_seen := false |} ->
  step_ok cfg st s iss (Add mb date tag size).
Proof.
  intros Hm. unfold step_ok. cbn [step_impl exec_spec]. rewrite <- Hm.
  pose proof (spec_add_LInv cfg st mb m HI) as HI'.
  rewrite spec_add_unfold in *. cbv zeta in *. rewrite add_cap_eq in *. fold k in HI' |- *.
  cbn [exec_mem]. unfold mem_add. cbv zeta.
  destruct cap_part as [first2 [Hcap [Hf2 Hf2']]]. cbv zeta in Hcap. rewrite Hcap. clear Hcap.
  rewrite (rm_last _ _ _ HR). fold k.
  set (B1 := bx_set mb {| mb_first := first2; mb_last := S k; mb_msgs := map mf (skipn d sb0 ++ [nw]) |} (ms_boxes s)).
  destruct l2_box as [Hl2a Hl2b].
  assert (HgB1 : forall mb', gbox mb' B1 =
             if list_eq_dec N.eq_dec mb' mb
             then {| mb_first := first2; mb_last := S k; mb_msgs := map mf (skipn d sb0 ++ [nw]) |}
             else get_mbox mb' s).
  { intros mb'. unfold gbox, B1, get_mbox. destruct (list_eq_dec N.eq_dec mb' mb) as [->|Hne].
    - apply bx_get_set_same.
    - apply bx_get_set_other. congruence. }
  assert (HB1m : forall mb', mb_msgs (gbox mb' B1) = map mf (box mb' l2)).
  { intros mb'. rewrite HgB1. destruct (list_eq_dec N.eq_dec mb' mb) as [->|Hne].
    - simpl. rewrite Hl2a. reflexivity.
    - rewrite Hl2b by exact Hne. apply (rm_box_S st s iss HR HI). }
  assert (HB1l : forall mb', mb_last (gbox mb' B1) = count_of mb' cnt').
  { intros mb'. rewrite HgB1. unfold cnt'. destruct (list_eq_dec N.eq_dec mb' mb) as [->|Hne].
    - simpl. rewrite count_bump_same. reflexivity.
    - rewrite count_bump_other by congruence. apply (rm_last _ _ _ HR). }
  assert (HB1fl : forall mb', mb_first (gbox mb' B1) <= S (mb_last (gbox mb' B1))).
  { intros mb'. rewrite HgB1. destruct (list_eq_dec N.eq_dec mb' mb) as [->|Hne]; [simpl; exact Hf2' | apply (rm_fl _ _ _ HR)]. }
  assert (HB1f : forall mb' e, In e (box mb' l2) -> mb_first (gbox mb' B1) <= S (e_k e)).
  { intros mb' e He. rewrite HgB1. destruct (list_eq_dec N.eq_dec mb' mb) as [->|Hne].
    - simpl. apply Hf2. rewrite <- Hl2a. exact He.
    - rewrite Hl2b in He by exact Hne. apply (proj1 HX). exact He. }
  assert (HB1n : map fst B1 = map fst cnt') by (apply (proj1 names')).
  unfold add_fit in *.
  destruct (c_max cfg =? 0)%N eqn:Q.
  - (* no size limit *)
    cbn [exec_mem fst snd]. 
    set (X := fold_left _ _ (ms_enf s)).
    assert (HRX : RM {| live := l2; counts := cnt' |} {| ms_boxes := B1; ms_enf := X |} iss' /\
                  RX cfg {| live := l2; counts := cnt' |} {| ms_boxes := B1; ms_enf := X |}).
    { apply add_finish; auto using l2_LInv. intros Hne. apply N.eqb_eq in Q. contradiction. }
    destruct (add_conclude {| ms_boxes := B1; ms_enf := X |} l2 [] HRX HI' ltac:(intros e [])) as [Ho He].
    cbn [map] in He. rewrite app_nil_r in He.
    split; [exact Ho|]. split; [|exact HRX]. cbn [map app] in *. exact He.
  - (* size limit *)
    apply N.eqb_neq in Q.
    assert (Henf : fold_left (fun e p => enf_remove (c_max cfg) mb (fst p) (m_size (snd p)) e) (map mf (firstn d sb0)) (ms_enf s) = E lc).
    { rewrite (proj2 HX Q). pose proof (enf_fold (c_max cfg) mb Q d (live st) (proj1 HI)) as H. fold sb0 in H.
      unfold enf_step in H. rewrite H. f_equal. apply remove_many_drop. apply HI. }
    rewrite Henf. 
    assert (Hall : en_all (E lc) ++ [(mb, S k, m_size m)] = en_rep l2).
    { unfold l2, en_rep. rewrite map_app. reflexivity. }
    assert (Hcur : (en_cur (E lc) + m_size m)%N = total l2).
    { unfold l2. rewrite total_app. simpl. lia. }
    rewrite Hall, Hcur. unfold en_rep at 1. rewrite map_length.
    destruct (evict_loop_spec (c_max cfg) l2 B1 [] HB1m (proj1 l2_LInv)) as [B2 [He1 [He2 He3]]].
    fold (en_rep l2). rewrite He1.
    pose proof (evict_fit_spec (c_max cfg) l2) as Hfit.
    destruct (evict_fit (c_max cfg) l2) as [d2 l3]. destruct Hfit as [Hsplit _]. cbn [fst snd] in *.
    assert (Hsub : forall mb' e, In e (box mb' l3) -> In e (box mb' l2)).
    { intros mb' e He. rewrite Hsplit, box_app. apply in_or_app. right; exact He. }
    assert (HRX : RM {| live := l3; counts := cnt' |} {| ms_boxes := B2; ms_enf := {| en_all := en_rep l3; en_cur := total l3 |} |} iss' /\
                  RX cfg {| live := l3; counts := cnt' |} {| ms_boxes := B2; ms_enf := {| en_all := en_rep l3; en_cur := total l3 |} |}).
    { apply add_finish.
      - intros mb'. apply (He2 mb').
      - intros mb'. destruct (He2 mb') as [_ [_ H3]]. rewrite H3. apply HB1l.
      - intros mb'. destruct (He2 mb') as [_ [H2 H3]]. rewrite H2, H3. apply HB1fl.
      - intros mb' e He. destruct (He2 mb') as [_ [H2 _]]. rewrite H2. apply HB1f. apply Hsub. exact He.
      - rewrite He3. exact HB1n.
      - apply (LInv_suffix cnt' d2 l3). rewrite <- Hsplit. apply l2_LInv.
      - reflexivity. }
    assert (Hd2 : forall e, In e d2 -> e_k e < count_of (e_mb e) cnt').
    { intros e He. apply (proj2 l2_LInv). rewrite Hsplit. apply in_or_app. left; exact He. }
    destruct (add_conclude _ l3 d2 HRX HI' Hd2) as [Ho Hev].
    cbn [exec_mem fst snd]. split; [exact Ho|]. split; [|exact HRX].
    cbn [map app] in *. exact Hev.
Qed.
End StepAdd.

(* ------------------------------------------------------------------ histories *)
Lemma step_any cfg st s iss o : RM st s iss -> SInv st -> RX cfg st s -> step_ok cfg st s iss o.
Proof.
  intros HR HI HX. destruct o.
  - eapply step_add; eauto.
  - apply step_get; assumption.
  - apply step_list; assumption.
  - apply step_seen; assumption.
  - apply step_remove; assumption.
  - apply step_purge; assumption.
  - apply step_visit; assumption.
Qed.

Lemma RM_init : RM spec_init mem_init [].
Proof. constructor; simpl; intros; try reflexivity; try constructor. repeat constructor. Qed.

Lemma RX_init cfg : RX cfg spec_init mem_init.
Proof. split; [intros mb e He; simpl in He; destruct He | intros _; reflexivity]. Qed.

Lemma mem_run_sim cfg : forall ops st s iss, RM st s iss -> SInv st -> RX cfg st s ->
  run_impl mid Nat.eqb mem_store (exec_mem cfg) (s, iss) ops = run_spec cfg st ops /\
  (RM (final_spec cfg st ops) (fst (final_impl mid Nat.eqb mem_store (exec_mem cfg) (s, iss) ops))
      (snd (final_impl mid Nat.eqb mem_store (exec_mem cfg) (s, iss) ops)) /\
   RX cfg (final_spec cfg st ops) (fst (final_impl mid Nat.eqb mem_store (exec_mem cfg) (s, iss) ops))).
Proof.
  induction ops as [|o ops IH]; intros st s iss HR HI HX; [split; [reflexivity | split; assumption]|].
  pose proof (step_any cfg st s iss o HR HI HX) as Hs.
  pose proof (exec_spec_SInv cfg st o HI) as HI'.
  unfold step_ok in Hs. cbn [run_impl run_spec final_impl final_spec].
  destruct (step_impl mid Nat.eqb mem_store (exec_mem cfg) (s, iss) o) as [[[s' iss'] ob] evs].
  destruct (exec_spec cfg st o) as [[st' ob'] evs']. destruct Hs as [-> [-> [HR' HX']]]. simpl in HR', HX', HI'.
  destruct (IH st' s' iss' HR' HI' HX') as [H1 H2]. split; [f_equal; exact H1 | exact H2].
Qed.

(** [mem_refines_spec]: every history on the memory-store model, for every cap and every
    size limit, yields operation by operation exactly the observations and events of the
    abstract store. In particular the model never reaches the crash outcome [LPanic] (the
    abstract store never answers [Err]). *)
Theorem mem_refines_spec cfg ops : run_mem cfg ops = run_spec cfg spec_init ops.
Proof. unfold run_mem. apply mem_run_sim; auto using RM_init, SInv_init, RX_init. Qed.

(** [accounting_exact]: with a size limit, after every history the enforcer's list is exactly
    the live messages in global arrival order and [curSize] is exactly their total size. *)
Theorem accounting_exact cfg ops : c_max cfg <> 0%N ->
  let s := fst (final_mem cfg ops) in let st := final_spec cfg spec_init ops in
  en_all (ms_enf s) = en_rep (live st) /\ en_cur (ms_enf s) = total (live st).
Proof.
  intros Hm. cbv zeta. unfold final_mem.
  destruct (mem_run_sim cfg ops spec_init mem_init [] RM_init SInv_init (RX_init cfg)) as [_ H].
  destruct H as [_ HX]. unfold RX in HX. destruct HX as [_ HE].
  specialize (HE Hm). split.
  - transitivity (en_all (E (live (final_spec cfg spec_init ops)))); [f_equal; exact HE | reflexivity].
  - transitivity (en_cur (E (live (final_spec cfg spec_init ops)))); [f_equal; exact HE | reflexivity].
Qed.

Theorem mem_refines_spec_nolimit cfg ops :
  c_cap cfg = 0 -> c_max cfg = 0%N -> run_mem cfg ops = run_spec cfg spec_init ops.
Proof. intros _ _. apply mem_refines_spec. Qed.

(** C07 corollaries: equivalence of the back-end models, and order / identity facts of the
    abstract store that the refinement theorems transport to them. *)
From Coq Require Import List Arith Lia Sorted.
From IV Require Import Base.Bytes Base.BytesFacts Model.StoreSpec Model.StoreSpecImpl Model.MemStore Model.FileStore
  Proofs.StoreSpecFacts Proofs.StoreSpecRefine Proofs.FileStoreRefine Proofs.MemStoreRefine.
Import ListNotations.
Local Open Scope nat_scope.

(** [backends_equivalent]: for every cap (the file store has no size limit) the two back-end
    models give the same observations and events, by handle, on every history. *)
Theorem backends_equivalent cfg ticks ops :
  c_max cfg = 0%N -> file_fresh cfg (file_init ticks, []) ops ->
  run_mem cfg ops = run_file cfg ticks ops.
Proof.
  intros Hm Hf. rewrite mem_refines_spec. symmetry. apply file_refines_spec; assumption.
Qed.

(** A listing is in strictly increasing handle order, i.e. in arrival order, oldest first;
    in particular no handle (hence no id) occurs twice. *)
Theorem list_oldest_first cfg ops mb :
  StronglySorted lt (map fst (map view_of (box mb (live (final_spec cfg spec_init ops))))).
Proof.
  pose proof (final_spec_SInv cfg ops spec_init SInv_init) as [H _]. specialize (H mb).
  rewrite map_map. eapply SS_map; [|exact H]. intros a b Hab. exact Hab.
Qed.

Theorem missing_is_not_exist cfg st mb h :
  h <> Latest -> find_h mb h (live st) = None ->
  snd (fst (exec_spec cfg st (Get mb h))) = OGet NotExist /\
  exec_spec cfg st (Seen mb h) = (st, OUnit NotExist, []) /\
  exec_spec cfg st (Remove mb h) = (st, OUnit NotExist, []).
Proof.
  intros Hl Hf. destruct h as [k| |]; [|congruence|]; simpl in *; rewrite ?Hf; auto.
Qed.

Theorem remove_only_named cfg st mb k e :
  find_h mb (Kth k) (live st) = Some e ->
  let st' := fst (fst (exec_spec cfg st (Remove mb (Kth k)))) in
  (forall mb', mb' <> mb -> box mb' (live st') = box mb' (live st)) /\
  box mb (live st') = filter (fun x => negb (Nat.eqb (e_k x) k)) (box mb (live st)) /\
  counts st' = counts st.
Proof.
  intros Hf. cbn [exec_spec]. rewrite Hf. cbn [fst live counts].
  simpl in Hf. apply find_some in Hf as [_ Hp]. unfold is_ent in Hp. apply andb_true_iff in Hp as [_ Hk].
  apply Nat.eqb_eq in Hk. rewrite Hk. repeat split.
  - intros mb' Hne. apply box_remove_other. exact Hne.
  - apply box_remove_same.
Qed.

(** Handles (and with them ids) are never reused: the add counter of a mailbox never decreases
    and every live message's handle is below it, so a later add gets a larger handle. *)
Theorem ids_not_reused cfg ops e :
  In e (live (final_spec cfg spec_init ops)) -> e_k e < count_of (e_mb e) (counts (final_spec cfg spec_init ops)).
Proof. intros H. pose proof (final_spec_SInv cfg ops spec_init SInv_init) as [_ H2]. auto. Qed.

(* ------------------------------------------------------------------ latest / read back *)
From IV Require Import Proofs.StoreSpecLimits Proofs.MemStoreLimits.

Definition res_of_last (l : list view) : res view :=
  match last_opt l with Some v => Ok v | None => NotExist end.

Lemma latest_is_last_spec cfg st mb :
  snd (fst (exec_spec cfg st (Lst mb))) = OList (map view_of (box mb (live st))) /\
  snd (fst (exec_spec cfg st (Get mb Latest))) = OGet (res_of_last (map view_of (box mb (live st)))).
Proof.
  split; [reflexivity|]. cbn [exec_spec fst snd]. unfold res_of_last. rewrite last_opt_map.
  destruct (last_opt (box mb (live st))); reflexivity.
Qed.

Lemma run_spec_two cfg ops o1 o2 :
  let st := final_spec cfg spec_init ops in
  nth_error (map fst (run_spec cfg spec_init (ops ++ [o1; o2]))) (length ops) = Some (snd (fst (exec_spec cfg st o1))) /\
  nth_error (map fst (run_spec cfg spec_init (ops ++ [o1; o2]))) (S (length ops)) =
    Some (snd (fst (exec_spec cfg (fst (fst (exec_spec cfg st o1))) o2))).
Proof.
  intros st. rewrite run_spec_app, map_app. fold st.
  assert (Hl : length (map fst (run_spec cfg spec_init ops)) = length ops) by (rewrite map_length; apply run_spec_length).
  split.
  - rewrite nth_error_app2 by lia. rewrite Hl, Nat.sub_diag. cbn [run_spec].
    destruct (exec_spec cfg st o1) as [[st1 ob1] ev1]. destruct (exec_spec cfg st1 o2) as [[st2 ob2] ev2]. reflexivity.
  - rewrite nth_error_app2 by lia. rewrite Hl. replace (S (length ops) - length ops) with 1 by lia. cbn [run_spec].
    destruct (exec_spec cfg st o1) as [[st1 ob1] ev1]. cbn [fst snd]. destruct (exec_spec cfg st1 o2) as [[st2 ob2] ev2]. reflexivity.
Qed.

(** [latest_is_last]: at any point of any history on the memory-store model (every cap and
    size limit), GetMessage("latest") answers the last element of what GetMessages lists, and
    NotExist when the listing is empty. *)
Theorem latest_is_last cfg ops mb :
  exists l, nth_error (map fst (run_mem cfg (ops ++ [Lst mb; Get mb Latest]))) (length ops) = Some (OList l) /\
            nth_error (map fst (run_mem cfg (ops ++ [Lst mb; Get mb Latest]))) (S (length ops)) = Some (OGet (res_of_last l)).
Proof.
  exists (map view_of (box mb (live (final_spec cfg spec_init ops)))). rewrite mem_refines_spec.
  destruct (run_spec_two cfg ops (Lst mb) (Get mb Latest)) as [H1 H2]. rewrite H1, H2.
  split; [reflexivity | f_equal; exact (proj2 (latest_is_last_spec cfg (final_spec cfg spec_init ops) mb))].
Qed.

Theorem latest_is_last_file cfg ticks ops mb :
  c_max cfg = 0%N -> file_fresh cfg (file_init ticks, []) (ops ++ [Lst mb; Get mb Latest]) ->
  exists l, nth_error (map fst (run_file cfg ticks (ops ++ [Lst mb; Get mb Latest]))) (length ops) = Some (OList l) /\
            nth_error (map fst (run_file cfg ticks (ops ++ [Lst mb; Get mb Latest]))) (S (length ops)) = Some (OGet (res_of_last l)).
Proof.
  intros Hm Hf. exists (map view_of (box mb (live (final_spec cfg spec_init ops)))). rewrite file_refines_spec by assumption.
  destruct (run_spec_two cfg ops (Lst mb) (Get mb Latest)) as [H1 H2]. rewrite H1, H2.
  split; [reflexivity | f_equal; exact (proj2 (latest_is_last_spec cfg (final_spec cfg spec_init ops) mb))].
Qed.

Lemma find_set_seen mb k l :
  find (is_ent mb k) (set_seen mb k l) =
  option_map (fun e => {| e_mb := e_mb e; e_k := e_k e; e_msg := msg_set_seen (e_msg e) |}) (find (is_ent mb k) l).
Proof.
  unfold set_seen. induction l as [|e l IH]; [reflexivity|]. cbn [map find].
  destruct (is_ent mb k e) eqn:Q.
  - assert (is_ent mb k {| e_mb := e_mb e; e_k := e_k e; e_msg := msg_set_seen (e_msg e) |} = true) as -> by exact Q. reflexivity.
  - rewrite Q. exact IH.
Qed.

(** [read_back_as_written] (abstract store): a delivered message that fits reads back with the
    date, content tag and size it was delivered with and unseen; after MarkSeen it reads back
    seen and otherwise unchanged. *)
Theorem read_back_as_written_spec cfg st mb date tag size :
  SInv st -> (c_max cfg = 0 \/ size <= c_max cfg)%N ->
  let k := count_of mb (counts st) in
  let st1 := fst (fst (exec_spec cfg st (Add mb date tag size))) in
  snd (fst (exec_spec cfg st1 (Get mb (Kth k)))) =
    OGet (Ok (k, {| m_date := date; m_tag := tag; m_size := size; m_seen := false |})) /\
  snd (fst (exec_spec cfg st1 (Seen mb (Kth k)))) = OUnit (Ok tt) /\
  snd (fst (exec_spec cfg (fst (fst (exec_spec cfg st1 (Seen mb (Kth k))))) (Get mb (Kth k)))) =
    OGet (Ok (k, {| m_date := date; m_tag := tag; m_size := size; m_seen := true |})).
Proof.
  intros HI Hfit k st1.
  pose proof (fits_then_retrievable_spec cfg st mb date tag size HI Hfit) as H. cbv zeta in H. fold k in H.
  unfold st1. cbn [exec_spec] in *. destruct (spec_add cfg st mb _) as [[st' k'] evs] eqn:Ea. cbn [fst snd] in *.
  injection H as Hk Hfind. subst k'. cbn [find_h] in *.
  destruct (find (is_ent mb k) (live st')) as [e|] eqn:F; [|discriminate]. cbn [res_of_find] in Hfind.
  unfold view_of in Hfind. inversion Hfind as [[Hk Hm]].
  split; [cbn [res_of_find]; unfold view_of; rewrite Hk, Hm; reflexivity|]. split; [reflexivity|].
  cbn [fst snd live]. rewrite Hk. rewrite find_set_seen, F. cbn [option_map res_of_find view_of e_k e_msg].
  rewrite Hk, Hm. reflexivity.
Qed.

Lemma run_spec_nth cfg : forall ops1 st o ops2,
  nth_error (map fst (run_spec cfg st (ops1 ++ o :: ops2))) (length ops1) =
  Some (snd (fst (exec_spec cfg (final_spec cfg st ops1) o))).
Proof.
  induction ops1 as [|a ops1 IH]; intros st o ops2.
  - cbn [app length run_spec final_spec]. destruct (exec_spec cfg st o) as [[st' ob] evs]. reflexivity.
  - cbn [app length run_spec final_spec]. destruct (exec_spec cfg st a) as [[st' ob] evs]. cbn [map nth_error]. apply IH.
Qed.

Lemma final_spec_app cfg : forall a st b, final_spec cfg st (a ++ b) = final_spec cfg (final_spec cfg st a) b.
Proof.
  induction a as [|o a IH]; intros st b; [reflexivity|]. cbn [app final_spec].
  destruct (exec_spec cfg st o) as [[st' ob] evs]. apply IH.
Qed.

(** [read_back_as_written] on the memory-store model: at any point of any history, any cap and
    size limit. *)
Theorem read_back_as_written cfg ops mb date tag size :
  (c_max cfg = 0 \/ size <= c_max cfg)%N ->
  let k := count_of mb (counts (final_spec cfg spec_init ops)) in
  let h := ops ++ [Add mb date tag size; Get mb (Kth k); Seen mb (Kth k); Get mb (Kth k)] in
  nth_error (map fst (run_mem cfg h)) (S (length ops)) =
    Some (OGet (Ok (k, {| m_date := date; m_tag := tag; m_size := size; m_seen := false |}))) /\
  nth_error (map fst (run_mem cfg h)) (S (S (S (length ops)))) =
    Some (OGet (Ok (k, {| m_date := date; m_tag := tag; m_size := size; m_seen := true |}))).
Proof.
  intros Hfit k h. unfold h. rewrite mem_refines_spec.
  pose proof (read_back_as_written_spec cfg (final_spec cfg spec_init ops) mb date tag size
                (final_spec_SInv cfg ops spec_init SInv_init) Hfit) as [H1 [H2 H3]]. fold k in H1, H2, H3.
  set (A := Add mb date tag size) in *. set (G := Get mb (Kth k)) in *. set (S1 := Seen mb (Kth k)) in *.
  split.
  - pose proof (run_spec_nth cfg (ops ++ [A]) spec_init G [S1; G]) as Hn.
    rewrite <- app_assoc in Hn. cbn [app] in Hn. rewrite app_length in Hn. cbn [length] in Hn.
    replace (length ops + 1) with (S (length ops)) in Hn by lia. rewrite Hn.
    rewrite final_spec_app. cbn [final_spec]. destruct (exec_spec cfg (final_spec cfg spec_init ops) A) as [[st1 ob1] ev1].
    cbn [fst snd] in *. rewrite H1. reflexivity.
  - pose proof (run_spec_nth cfg (ops ++ [A; G; S1]) spec_init G []) as Hn.
    rewrite <- app_assoc in Hn. cbn [app] in Hn. rewrite app_length in Hn. cbn [length] in Hn.
    replace (length ops + 3) with (S (S (S (length ops)))) in Hn by lia. rewrite Hn.
    rewrite final_spec_app. cbn [final_spec]. destruct (exec_spec cfg (final_spec cfg spec_init ops) A) as [[st1 ob1] ev1].
    cbn [fst snd] in *.
    assert (HG : fst (fst (exec_spec cfg st1 G)) = st1) by (unfold G; cbn [exec_spec]; reflexivity).
    destruct (exec_spec cfg st1 G) as [[st2 ob2] ev2]. cbn [fst] in HG. subst st2.
    destruct (exec_spec cfg st1 S1) as [[st3 ob3] ev3]. cbn [fst snd] in *. rewrite H3. reflexivity.
Qed.

(* ------------------------------------------------------------------ audit follow-up *)
From IV Require Import Proofs.FileStoreClock.

(** [read_back_as_written] on the file-store model. *)
Theorem read_back_as_written_file cfg ticks ops mb date tag size :
  c_max cfg = 0%N ->
  let k := count_of mb (counts (final_spec cfg spec_init ops)) in
  let h := ops ++ [Add mb date tag size; Get mb (Kth k); Seen mb (Kth k); Get mb (Kth k)] in
  file_fresh cfg (file_init ticks, []) h ->
  nth_error (map fst (run_file cfg ticks h)) (S (length ops)) =
    Some (OGet (Ok (k, {| m_date := date; m_tag := tag; m_size := size; m_seen := false |}))) /\
  nth_error (map fst (run_file cfg ticks h)) (S (S (S (length ops)))) =
    Some (OGet (Ok (k, {| m_date := date; m_tag := tag; m_size := size; m_seen := true |}))).
Proof.
  intros Hm k h Hf. unfold h in *. rewrite (file_refines_spec cfg ticks _ Hm Hf).
  pose proof (read_back_as_written cfg ops mb date tag size (or_introl Hm)) as H. cbv zeta in H. fold k in H.
  rewrite mem_refines_spec in H. exact H.
Qed.

(** Facts about the BACK-END models' own ids (they live inside the refinement relations): the ids
    returned by the deliveries to one mailbox are pairwise distinct — after every history. *)
Theorem ids_distinct_mem cfg ops mb : NoDup (iss_of mid mb (snd (final_mem cfg ops))).
Proof.
  destruct (mem_run_sim cfg ops spec_init mem_init [] RM_init SInv_init (RX_init cfg)) as [_ [H _]].
  exact (rm_nd _ _ _ H mb).
Qed.

Theorem ids_distinct_file cfg ticks ops mb : c_max cfg = 0%N -> env_ok 0 ticks ops ->
  NoDup (iss_of fid mb (snd (final_file cfg ticks ops))).
Proof.
  intros Hm He. pose proof (file_fresh_from_env cfg Hm ticks ops He) as Hf.
  destruct (file_run_sim cfg Hm ops spec_init (file_init ticks) [] (RF_init ticks) SInv_init Hf) as [_ H].
  unfold final_file.
  match type of H with (let '(_, _) := ?t in _) => change (NoDup (iss_of fid mb (snd t))); revert H; destruct t as [s' iss']; intros H end.
  exact (rf_nd _ _ _ H mb).
Qed.

(** [missing_is_not_exist] with the "latest" exclusion where it belongs (only GetMessage gives
    "latest" a meaning). *)
Theorem missing_is_not_exist' cfg st mb h :
  find_h mb h (live st) = None ->
  (h <> Latest -> snd (fst (exec_spec cfg st (Get mb h))) = OGet NotExist) /\
  exec_spec cfg st (Seen mb h) = (st, OUnit NotExist, []) /\
  exec_spec cfg st (Remove mb h) = (st, OUnit NotExist, []).
Proof.
  intros Hf. split; [intros Hl; apply (missing_is_not_exist cfg st mb h Hl Hf)|].
  destruct h as [k| |]; simpl in *; rewrite ?Hf; auto.
Qed.

Lemma run_spec_last cfg ops o :
  nth_error (map fst (run_spec cfg spec_init (ops ++ [o]))) (length ops) =
  Some (snd (fst (exec_spec cfg (final_spec cfg spec_init ops) o))).
Proof. apply run_spec_nth. Qed.

(** On the back-end models, at the end of any history: a handle that names no live message
    (removed, purged, evicted, never issued, or the bogus literal) is answered NotExist by
    GetMessage, MarkSeen and RemoveMessage. *)
Theorem missing_is_not_exist_mem cfg ops mb h :
  find_h mb h (live (final_spec cfg spec_init ops)) = None ->
  (h <> Latest -> nth_error (map fst (run_mem cfg (ops ++ [Get mb h]))) (length ops) = Some (OGet NotExist)) /\
  nth_error (map fst (run_mem cfg (ops ++ [Seen mb h]))) (length ops) = Some (OUnit NotExist) /\
  nth_error (map fst (run_mem cfg (ops ++ [Remove mb h]))) (length ops) = Some (OUnit NotExist).
Proof.
  intros Hf. destruct (missing_is_not_exist' cfg _ mb h Hf) as [H1 [H2 H3]]. rewrite !mem_refines_spec, !run_spec_last.
  split; [intros Hl; rewrite (H1 Hl); reflexivity|]. rewrite H2, H3. split; reflexivity.
Qed.

Theorem missing_is_not_exist_file cfg ticks ops mb h :
  c_max cfg = 0%N -> (forall o, env_ok 0 ticks (ops ++ [o])) ->
  find_h mb h (live (final_spec cfg spec_init ops)) = None ->
  (h <> Latest -> nth_error (map fst (run_file cfg ticks (ops ++ [Get mb h]))) (length ops) = Some (OGet NotExist)) /\
  nth_error (map fst (run_file cfg ticks (ops ++ [Seen mb h]))) (length ops) = Some (OUnit NotExist) /\
  nth_error (map fst (run_file cfg ticks (ops ++ [Remove mb h]))) (length ops) = Some (OUnit NotExist).
Proof.
  intros Hm He Hf. destruct (missing_is_not_exist' cfg _ mb h Hf) as [H1 [H2 H3]].
  rewrite !(file_refines_spec_env cfg Hm) by apply He. rewrite !run_spec_last.
  split; [intros Hl; rewrite (H1 Hl); reflexivity|]. rewrite H2, H3. split; reflexivity.
Qed.

(** The bogus literal is never a message, whatever happened before. *)
Corollary bogus_is_not_exist_mem cfg ops mb :
  nth_error (map fst (run_mem cfg (ops ++ [Get mb Bogus]))) (length ops) = Some (OGet NotExist).
Proof. apply (missing_is_not_exist_mem cfg ops mb Bogus); [reflexivity | discriminate]. Qed.

(** An instance of [backends_equivalent] evaluated by the kernel (the auditor's): two mailboxes,
    cap 2, cap evictions, Seen/Get "latest", double remove, remove of the bogus literal, purge,
    re-add after purge, two visits — 21 operations. *)
Example backends_equivalent_instance :
  let a := [97%N] in let b := [98%N] in
  let ops := [Add a 1%Z 0%N 10%N; Add a 2%Z 1%N 20%N; Add a 3%Z 2%N 30%N; Lst a; Add b 4%Z 3%N 40%N;
              Seen a Latest; Get a Latest; Remove a (Kth 1); Remove a (Kth 1); Remove b Bogus; Visit;
              Purge a; Get a Latest; Add a 5%Z 4%N 50%N; Lst a; Lst b; Seen b (Kth 0); Get b (Kth 0);
              Purge b; Visit; Lst a] in
  length ops = 21 /\ run_mem {| c_cap := 2; c_max := 0 |} ops = run_file {| c_cap := 2; c_max := 0 |} [] ops.
Proof. vm_compute. split; reflexivity. Qed.

(** C07 corollaries: equivalence of the back-end models, and order / identity facts of the
    abstract store that the refinement theorems transport to them. *)
From Coq Require Import List Arith Lia Sorted.
From IV Require Import Base.Bytes Base.BytesFacts Model.StoreSpec Model.StoreSpecImpl Model.MemStore Model.FileStore
  Proofs.StoreSpecFacts Proofs.StoreSpecRefine Proofs.FileStoreRefine Proofs.MemStoreRefine.
Import ListNotations.
Local Open Scope nat_scope.

(** [backends_equivalent]: for every cap (the file store has no size limit) the two back-end
    models give the same observations and events, by handle, on every history. *)
Theorem backends_equivalent cfg ticks ops :
  c_max cfg = 0%N -> file_fresh cfg (file_init ticks, []) ops ->
  run_mem cfg ops = run_file cfg ticks ops.
Proof.
  intros Hm Hf. rewrite mem_refines_spec. symmetry. apply file_refines_spec; assumption.
Qed.

(** A listing is in strictly increasing handle order, i.e. in arrival order, oldest first;
    in particular no handle (hence no id) occurs twice. *)
Theorem list_oldest_first cfg ops mb :
  StronglySorted lt (map fst (map view_of (box mb (live (final_spec cfg spec_init ops))))).
Proof.
  pose proof (final_spec_SInv cfg ops spec_init SInv_init) as [H _]. specialize (H mb).
  rewrite map_map. eapply SS_map; [|exact H]. intros a b Hab. exact Hab.
Qed.

Theorem missing_is_not_exist cfg st mb h :
  h <> Latest -> find_h mb h (live st) = None ->
  snd (fst (exec_spec cfg st (Get mb h))) = OGet NotExist /\
  exec_spec cfg st (Seen mb h) = (st, OUnit NotExist, []) /\
  exec_spec cfg st (Remove mb h) = (st, OUnit NotExist, []).
Proof.
  intros Hl Hf. destruct h as [k| |]; [|congruence|]; simpl in *; rewrite ?Hf; auto.
Qed.

Theorem remove_only_named cfg st mb k e :
  find_h mb (Kth k) (live st) = Some e ->
  let st' := fst (fst (exec_spec cfg st (Remove mb (Kth k)))) in
  (forall mb', mb' <> mb -> box mb' (live st') = box mb' (live st)) /\
  box mb (live st') = filter (fun x => negb (Nat.eqb (e_k x) k)) (box mb (live st)) /\
  counts st' = counts st.
Proof.
  intros Hf. cbn [exec_spec]. rewrite Hf. cbn [fst live counts].
  simpl in Hf. apply find_some in Hf as [_ Hp]. unfold is_ent in Hp. apply andb_true_iff in Hp as [_ Hk].
  apply Nat.eqb_eq in Hk. rewrite Hk. repeat split.
  - intros mb' Hne. apply box_remove_other. exact Hne.
  - apply box_remove_same.
Qed.

(** Handles (and with them ids) are never reused: the add counter of a mailbox never decreases
    and every live message's handle is below it, so a later add gets a larger handle. *)
Theorem ids_not_reused cfg ops e :
  In e (live (final_spec cfg spec_init ops)) -> e_k e < count_of (e_mb e) (counts (final_spec cfg spec_init ops)).
Proof. intros H. pose proof (final_spec_SInv cfg ops spec_init SInv_init) as [_ H2]. auto. Qed.

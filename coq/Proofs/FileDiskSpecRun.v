(** Part 2: the disk model as a back-end of the specification's handle-resolving runner
    (Model/StoreSpecImpl.v [run_impl], the same runner b-store's FileStore model is run by), and the
    simulation: every answer is [run_spec]'s. *)
From IV Require Import Base.Bytes Base.BytesFacts Model.FileDisk Proofs.FileDiskMap Proofs.FileDiskInv Proofs.FileDiskSteps Proofs.FileDiskOps Proofs.FileDiskCrash Proofs.FileDiskHistory Proofs.FileDiskParents Proofs.FileDiskSpec.
From IV Require Import Model.StoreSpec Model.StoreSpecImpl Proofs.StoreSpecFacts Proofs.StoreSpecRefine Proofs.FileStoreRefine.
From Coq Require Import List NArith ZArith Bool Lia Arith Sorted.
Import ListNotations.
Local Open Scope nat_scope.

Lemma evict_cap_d cfg len : evict_count (c_cap cfg) len = cap_d cfg len.
Proof.
  unfold cap_d. destruct (c_cap cfg) as [|c]; [reflexivity|].
  change (evict_count (S c) len) with (if Nat.leb (S c) len then S (len - S c) else 0).
  change (Nat.eqb (S c) 0) with false. cbv iota.
  destruct (Nat.leb (S c) len) eqn:E; [apply Nat.leb_le in E | apply Nat.leb_gt in E]; lia.
Qed.

Section Run.
  Variable info_of : Z -> N -> str.
  Variable body_of : N -> N -> str.
  Variable date_of : str -> Z.
  Variable tag_of : str -> N.
  Hypothesis info_date : forall d t, date_of (info_of d t) = d.
  Hypothesis info_tag : forall d t, tag_of (info_of d t) = t.
  Hypothesis body_len : forall t s, N.of_nat (length (body_of t s)) = s.
  Variable enc : index -> str.
  Variable dec : str -> option index.
  Hypothesis dec_enc : forall i, dec (enc i) = Some i.
  Variable hash : str -> str.
  Hypothesis hash_inj : forall a b, hash a = hash b -> a = b.
  Variable cfg : scfg.
  Hypothesis no_max : c_max cfg = 0%N.       (* the file store has no byte limit *)

  Notation cap := (c_cap cfg).
  Notation reach := (reach enc dec hash cap).
  Notation dexec := (FileDisk.exec enc dec hash cap).
  Notation result_of := (FileDisk.result_of dec hash cap).
  Notation ix := (ix date_of tag_of dec hash).
  Notation conv := (conv date_of tag_of).

  (** state of a run: the disk, and the candidate lists the id generator will produce for the coming
      deliveries (an input, as the clock ticks of b-store's model) *)
  Definition dstate := (disk * list (list str))%type.

  Definition dmsg (m : msg) (cands : list str) (mb : str) : FileDisk.op :=
    FileDisk.Add mb (info_of (m_date m) (m_tag m)) (body_of (m_tag m) (StoreSpec.m_size m)) cands.

  Definition del_ev (mb : str) (p : str * msg) : lev str := (EDeleted, mb, fst p).

  Definition group_of (v : aview) : str * list (str * msg) :=
    (match v with (nm, _, _) :: _ => nm | [] => [] end, map conv v).

  Definition exec_disk (s : dstate) (o : lop str) : dstate * lres str * list (lev str) :=
    let '(d, sup) := s in
    match o with
    | LoAdd mb m =>
        let cands := match sup with c :: _ => c | [] => [] end in
        match result_of (dmsg m cands mb) d with
        | RId i => ((dexec (dmsg m cands mb) d, tl sup), LAdd i,
                    map (del_ev mb) (firstn (evict_count cap (length (ix d mb))) (ix d mb)))
        | _ => (s, LPanic, [])
        end
    | LoGet mb q =>
        (s, LMsg (match q with
                  | QLatest => match last_opt (ix d mb) with Some p => Ok p | None => NotExist end
                  | QId i => match al_find' i (ix d mb) with Some m => Ok (i, m) | None => NotExist end
                  | QBogus => NotExist
                  end), [])
    | LoList mb => (s, LList (ix d mb), [])
    | LoSeen mb (QId i) =>
        match result_of (FileDisk.Seen mb i) d with
        | ROk => ((dexec (FileDisk.Seen mb i) d, sup), LUnit (Ok tt), [])
        | RNotExist => (s, LUnit NotExist, [])
        | _ => (s, LPanic, [])
        end
    | LoSeen mb _ => (s, LUnit NotExist, [])
    | LoRemove mb (QId i) =>
        match result_of (FileDisk.Remove mb i) d with
        | ROk => ((dexec (FileDisk.Remove mb i) d, sup), LUnit (Ok tt), [(EDeleted, mb, i)])
        | RNotExist => (s, LUnit NotExist, [])
        | _ => (s, LPanic, [])
        end
    | LoRemove mb _ => (s, LUnit NotExist, [])
    | LoPurge mb => ((dexec (FileDisk.Purge mb) d, sup), LUnit (Ok tt), map (del_ev mb) (ix d mb))
    | LoVisit => (s, LVisit (match FileDisk.visit dec d with Some vs => map group_of vs | None => [] end), [])
    end.

  Definition dstep := step_impl str str_eqb dstate exec_disk.

  (** ** the simulation relation *)
  Definition idof (iss : issued str) (mb : str) (k : nat) : str := nth k (iss_of str mb iss) [].
  Definition drep (iss : issued str) (mb : str) (sb : list entry) : list (str * msg) := rep str (idof iss mb) sb.

  Record RD (st : spec_store) (d : disk) (iss : issued str) : Prop := {
    rd_reach : reach d;
    rd_box : forall mb, ix d mb = drep iss mb (box mb (live st));
    rd_len : forall mb, length (iss_of str mb iss) = count_of mb (counts st);
    rd_nd : forall mb, NoDup (iss_of str mb iss) }.

  Lemma idof_inj iss mb : NoDup (iss_of str mb iss) ->
    forall a b, a < length (iss_of str mb iss) -> b < length (iss_of str mb iss) -> idof iss mb a = idof iss mb b -> a = b.
  Proof. intros Hnd a b Ha Hb H. eapply NoDup_nth; eauto. Qed.

  Lemma handle_of_idof iss mb k : NoDup (iss_of str mb iss) -> k < length (iss_of str mb iss) ->
    handle_of str str_eqb iss mb (idof iss mb k) = k.
  Proof.
    intros Hnd Hk. unfold handle_of, idof. rewrite (index_of_nth str str_eqb str_eqb_eq) by assumption. reflexivity.
  Qed.

  Section Step.
    Variables (st : spec_store) (d : disk) (sup : list (list str)) (iss : issued str).
    Hypothesis HR : RD st d iss.
    Hypothesis HI : SInv st.

    Lemma dbox_k_lt mb e : In e (box mb (live st)) -> e_k e < length (iss_of str mb iss).
    Proof.
      intros He. apply box_in in He as [He Hm]. rewrite (rd_len _ _ _ HR). destruct HI as [_ H]. specialize (H e He).
      rewrite Hm in H. exact H.
    Qed.

    Lemma dviews_ok mb sb : (forall e, In e sb -> In e (box mb (live st))) ->
      map (tr_view str str_eqb iss mb) (drep iss mb sb) = map view_of sb.
    Proof.
      intros Hsb. unfold drep, rep. rewrite map_map. apply map_ext_in. intros e He.
      unfold tr_view, view_of. simpl. f_equal. apply handle_of_idof; [apply (rd_nd _ _ _ HR) | apply dbox_k_lt; auto].
    Qed.

    Lemma dfind_h_kth_none mb k : length (iss_of str mb iss) <= k -> find (is_ent mb k) (live st) = None.
    Proof.
      intros Hk. destruct (find (is_ent mb k) (live st)) as [e|] eqn:E; [|reflexivity]. exfalso.
      apply find_some in E as [He Hp]. unfold is_ent in Hp. apply andb_true_iff in Hp as [Hm Hk'].
      apply ent_in_eq in Hm. apply Nat.eqb_eq in Hk'.
      assert (In e (box mb (live st))) as Hb by (apply box_in; auto). apply dbox_k_lt in Hb. lia.
    Qed.

    Lemma dfind_id mb k : k < length (iss_of str mb iss) ->
      al_find' (idof iss mb k) (ix d mb) = option_map e_msg (find (is_ent mb k) (live st)).
    Proof.
      intros Hk. rewrite (rd_box _ _ _ HR). unfold drep.
      rewrite (rep_find str str_eqb str_eqb_eq (idof iss mb) (length (iss_of str mb iss)));
        [| apply idof_inj; apply (rd_nd _ _ _ HR) | exact Hk | intros e He; apply dbox_k_lt; exact He].
      rewrite find_box. reflexivity.
    Qed.

    Lemma dfind_some_facts mb k e : find (is_ent mb k) (live st) = Some e ->
      e_k e = k /\ e_mb e = mb /\ In e (box mb (live st)).
    Proof.
      intros E. apply find_some in E as [He Hp]. unfold is_ent in Hp.
      apply andb_true_iff in Hp as [Hm Hk']. apply ent_in_eq in Hm. apply Nat.eqb_eq in Hk'.
      repeat split; auto. apply box_in. auto.
    Qed.

    Lemma dresolve_kth mb k :
      resolve str iss mb (Kth k) = if Nat.ltb k (length (iss_of str mb iss)) then QId (idof iss mb k) else QBogus.
    Proof.
      unfold resolve. destruct (Nat.ltb k (length (iss_of str mb iss))) eqn:E.
      - apply Nat.ltb_lt in E. rewrite (nth_error_nth' _ ([] : str) E). reflexivity.
      - apply Nat.ltb_ge in E. rewrite (proj2 (nth_error_None _ _) E). reflexivity.
    Qed.

    (** a state change that touches only mailbox [mb] and keeps counts and the id table *)
    Lemma RD_update mb d' (l' : list entry) :
      reach d' ->
      ix d' mb = drep iss mb (box mb l') ->
      (forall mb', mb' <> mb -> ix d' mb' = ix d mb') ->
      (forall mb', mb' <> mb -> box mb' l' = box mb' (live st)) ->
      RD {| live := l'; counts := counts st |} d' iss.
    Proof.
      intros Hr HL Hix Hother. constructor; simpl; auto.
      - intros mb'. destruct (list_eq_dec N.eq_dec mb' mb) as [->|Hne]; [exact HL|].
        rewrite Hix, Hother by exact Hne. apply (rd_box _ _ _ HR).
      - apply (rd_len _ _ _ HR).
      - apply (rd_nd _ _ _ HR).
    Qed.

    Definition dstep_ok (o : StoreSpec.op) : Prop :=
      let '(si', ob, evs) := dstep ((d, sup), iss) o in
      let '(st', ob', evs') := exec_spec cfg st o in
      ob = ob' /\ evs = evs' /\ RD st' (fst (fst si')) (snd si').

    Lemma dstep_get mb h : dstep_ok (Get mb h).
    Proof.
      unfold dstep_ok, dstep. destruct h as [k| |].
      - cbn [step_impl exec_spec find_h]. rewrite dresolve_kth.
        destruct (Nat.ltb k (length (iss_of str mb iss))) eqn:E; cbn [exec_disk].
        + apply Nat.ltb_lt in E. cbn [map fst snd]. rewrite dfind_id by exact E. split; [|auto]. f_equal.
          destruct (find (is_ent mb k) (live st)) as [e|] eqn:F; simpl; [|reflexivity].
          destruct (dfind_some_facts mb k e F) as [H1 [H2 H3]]. unfold tr_view, view_of. simpl.
          rewrite handle_of_idof; [rewrite H1; reflexivity | apply (rd_nd _ _ _ HR) | exact E].
        + apply Nat.ltb_ge in E. rewrite dfind_h_kth_none by exact E. cbn. auto.
      - cbn [step_impl exec_spec resolve exec_disk map fst snd]. split; [|auto]. f_equal.
        rewrite (rd_box _ _ _ HR). unfold drep, rep. rewrite last_opt_map.
        destruct (last_opt (box mb (live st))) as [e|] eqn:E; simpl; [|reflexivity].
        unfold tr_view, view_of. simpl. f_equal. f_equal. apply handle_of_idof; [apply (rd_nd _ _ _ HR)|].
        apply dbox_k_lt. clear -E. induction (box mb (live st)) as [|a l IH]; [discriminate|].
        destruct l as [|b l]; [inversion E; left; reflexivity | right; apply IH; exact E].
      - cbn. auto.
    Qed.

    Lemma dstep_list mb : dstep_ok (Lst mb).
    Proof.
      unfold dstep_ok, dstep. cbn [step_impl exec_spec exec_disk map fst snd]. split; [|auto]. f_equal.
      rewrite (rd_box _ _ _ HR). apply dviews_ok. auto.
    Qed.

    Lemma dstep_seen mb h : dstep_ok (StoreSpec.Seen mb h).
    Proof.
      unfold dstep_ok, dstep. destruct h as [k| |]; [|cbn; auto|cbn; auto].
      cbn [step_impl exec_spec find_h]. rewrite dresolve_kth.
      destruct (Nat.ltb k (length (iss_of str mb iss))) eqn:E.
      - apply Nat.ltb_lt in E. cbn [exec_disk].
        rewrite (seen_result date_of tag_of enc dec dec_enc hash cap d mb _ (rd_reach _ _ _ HR)).
        pose proof (dfind_id mb k E) as Hf.
        destruct (find (is_ent mb k) (live st)) as [e|] eqn:F; simpl in Hf; rewrite Hf.
        + destruct (dfind_some_facts mb k e F) as [H1 [H2 H3]]. cbn [map fst snd tr_unit].
          split; [reflexivity|]. split; [reflexivity|]. rewrite H1. apply (RD_update mb).
          * apply exec_reach; [exact dec_enc | apply (rd_reach _ _ _ HR)].
          * rewrite (seen_ix date_of tag_of enc dec dec_enc hash cap d mb _ _ (rd_reach _ _ _ HR) Hf).
            rewrite box_seen_same. rewrite (rd_box _ _ _ HR). unfold drep.
            apply (rep_seen str str_eqb str_eqb_eq (idof iss mb) (length (iss_of str mb iss)));
              [apply idof_inj; apply (rd_nd _ _ _ HR) | exact E | intros x Hx; apply dbox_k_lt; exact Hx | apply HI].
          * intros mb' Hne. apply (other_ix date_of tag_of enc dec dec_enc hash hash_inj cap); [apply (rd_reach _ _ _ HR) | exact Hne].
          * intros mb' Hne. apply box_seen_other. exact Hne.
        + cbn. auto.
      - apply Nat.ltb_ge in E. rewrite dfind_h_kth_none by exact E. cbn. auto.
    Qed.

    Lemma dstep_remove mb h : dstep_ok (StoreSpec.Remove mb h).
    Proof.
      unfold dstep_ok, dstep. destruct h as [k| |]; [|cbn; auto|cbn; auto].
      cbn [step_impl exec_spec find_h]. rewrite dresolve_kth.
      destruct (Nat.ltb k (length (iss_of str mb iss))) eqn:E.
      - apply Nat.ltb_lt in E. cbn [exec_disk].
        rewrite (remove_result date_of tag_of enc dec dec_enc hash cap d mb _ (rd_reach _ _ _ HR)).
        pose proof (dfind_id mb k E) as Hf.
        destruct (find (is_ent mb k) (live st)) as [e|] eqn:F; simpl in Hf; rewrite Hf.
        + destruct (dfind_some_facts mb k e F) as [H1 [H2 H3]]. cbn [map fst snd tr_unit tr_ev].
          split; [reflexivity|]. split.
          { unfold ev_deleted. rewrite H1, H2. rewrite handle_of_idof; [reflexivity | apply (rd_nd _ _ _ HR) | exact E]. }
          rewrite H1. apply (RD_update mb).
          * apply exec_reach; [exact dec_enc | apply (rd_reach _ _ _ HR)].
          * rewrite (remove_ix date_of tag_of enc dec dec_enc hash cap d mb _ _ (rd_reach _ _ _ HR) Hf).
            rewrite box_remove_same. rewrite (rd_box _ _ _ HR). unfold drep.
            apply (rep_remove str str_eqb str_eqb_eq (idof iss mb) (length (iss_of str mb iss)));
              [apply idof_inj; apply (rd_nd _ _ _ HR) | exact E | intros x Hx; apply dbox_k_lt; exact Hx | apply HI].
          * intros mb' Hne. apply (other_ix date_of tag_of enc dec dec_enc hash hash_inj cap); [apply (rd_reach _ _ _ HR) | exact Hne].
          * intros mb' Hne. apply box_remove_other. exact Hne.
        + cbn. auto.
      - apply Nat.ltb_ge in E. rewrite dfind_h_kth_none by exact E. cbn. auto.
    Qed.

    Lemma ddel_events_ok mb sb : (forall e, In e sb -> In e (box mb (live st))) ->
      map (tr_ev str str_eqb iss) (map (del_ev mb) (drep iss mb sb)) = map ev_deleted sb.
    Proof.
      intros Hsb. unfold drep, rep. rewrite !map_map. apply map_ext_in. intros e He. simpl.
      specialize (Hsb e He). unfold ev_deleted. pose proof (dbox_k_lt mb e Hsb) as Hk.
      apply box_in in Hsb as [_ Hm]. rewrite Hm. rewrite handle_of_idof; [reflexivity | apply (rd_nd _ _ _ HR) | exact Hk].
    Qed.

    Lemma dstep_purge mb : dstep_ok (StoreSpec.Purge mb).
    Proof.
      unfold dstep_ok, dstep. cbn [step_impl exec_spec exec_disk]. cbn [tr_unit]. split; [reflexivity|]. split.
      - rewrite (rd_box _ _ _ HR). apply ddel_events_ok. auto.
      - cbn [fst snd]. apply (RD_update mb).
        + apply exec_reach; [exact dec_enc | apply (rd_reach _ _ _ HR)].
        + rewrite (purge_ix date_of tag_of enc dec dec_enc hash cap d mb (rd_reach _ _ _ HR)). rewrite box_purge_same. reflexivity.
        + intros mb' Hne. apply (other_ix date_of tag_of enc dec dec_enc hash hash_inj cap); [apply (rd_reach _ _ _ HR) | exact Hne].
        + intros mb' Hne. apply box_purge_other. exact Hne.
    Qed.

    Lemma dget_id_ok mb k : k < length (iss_of str mb iss) ->
      tr_msg str str_eqb iss mb
        (LMsg (match al_find' (idof iss mb k) (ix d mb) with Some m => Ok (idof iss mb k, m) | None => NotExist end)) =
      res_of_find (find (is_ent mb k) (live st)).
    Proof.
      intros E. rewrite dfind_id by exact E.
      destruct (find (is_ent mb k) (live st)) as [e|] eqn:F; simpl; [|reflexivity].
      destruct (dfind_some_facts mb k e F) as [H1 [H2 H3]]. unfold tr_view, view_of. simpl.
      rewrite handle_of_idof; [rewrite H1; reflexivity | apply (rd_nd _ _ _ HR) | exact E].
    Qed.
  End Step.

  (** ** AddMessage *)
  Section StepAdd.
    Variables (st : spec_store) (d : disk) (sup : list (list str)) (iss : issued str).
    Hypothesis HR : RD st d iss.
    Hypothesis HI : SInv st.

    Definition next_cands : list str := match sup with c :: _ => c | [] => [] end.

    Lemma dstep_add mb date tag size i :
      result_of (FileDisk.Add mb (info_of date tag) (body_of tag size) next_cands) d = RId i ->
      ~ In i (iss_of str mb iss) ->
      dstep_ok st d sup iss (StoreSpec.Add mb date tag size).
    Proof.
      intros Hres Hfresh. unfold dstep_ok, dstep. cbn [step_impl exec_spec].
      set (m := {| m_date := date; m_tag := tag; StoreSpec.m_size := size; StoreSpec.m_seen := false |}).
      set (L := iss_of str mb iss) in *.
      set (sb0 := box mb (live st)).
      pose proof (rd_reach _ _ _ HR) as Hr.
      assert (Hlen0 : length (ix d mb) = length sb0).
      { rewrite (rd_box _ _ _ HR). apply rep_length. }
      cbn [exec_disk]. fold next_cands. unfold dmsg. cbn [m_date m_tag StoreSpec.m_size m]. rewrite Hres.
      destruct (add_ix info_of body_of date_of tag_of info_date info_tag body_len enc dec dec_enc hash cap
                  d mb date tag size next_cands i Hr Hres) as [Hix Hnotin].
      rewrite Hlen0 in Hix, Hnotin |- *. rewrite evict_cap_d in Hix, Hnotin |- *.
      set (dd := cap_d cfg (length sb0)) in *.
      set (d1x := dexec (FileDisk.Add mb (info_of date tag) (body_of tag size) next_cands) d) in *.
      assert (Hr1 : reach d1x) by (apply exec_reach; auto).
      (* abstract side *)
      pose proof (spec_add_LInv cfg st mb m HI) as HI'.
      rewrite spec_add_unfold in *. cbv zeta in *.
      pose proof (spec_cap_char cfg no_max st mb m) as Hcap. cbv zeta in Hcap. fold sb0 dd in Hcap.
      destruct (add_cap cfg mb (add_l1 st mb m)) as [dl l2]. destruct Hcap as [Hd1 [Hb2 Ho2]].
      unfold add_fit in *. rewrite no_max in *. simpl N.eqb in *. cbv iota in *.
      set (k := count_of mb (counts st)) in *.
      set (nw := {| e_mb := mb; e_k := k; e_msg := m |}) in *.
      set (st' := {| live := l2; counts := bump mb (counts st) |}) in *.
      set (iss' := bx_set mb (L ++ [i]) iss).
      assert (HL' : iss_of str mb iss' = L ++ [i]) by (unfold iss', iss_of; apply bx_get_set_same).
      assert (HLo : forall mb', mb' <> mb -> iss_of str mb' iss' = iss_of str mb' iss).
      { intros mb' Hne. unfold iss', iss_of. apply bx_get_set_other. congruence. }
      assert (HkL : length L = k) by (apply (rd_len _ _ _ HR)).
      assert (Hnd' : NoDup (L ++ [i])) by (apply FileStoreRefine.NoDup_snoc; [apply (rd_nd _ _ _ HR) | exact Hfresh]).
      assert (HA : forall k0, k0 < length L -> idof iss' mb k0 = idof iss mb k0).
      { intros k0 Hk0. unfold idof. rewrite HL'. apply app_nth1. exact Hk0. }
      assert (HB : idof iss' mb k = i).
      { unfold idof. rewrite HL'. rewrite <- HkL. apply nth_middle. }
      assert (Hrep : forall sb, (forall e, In e sb -> In e sb0) -> drep iss' mb sb = drep iss mb sb).
      { intros sb Hsb. unfold drep, rep. apply map_ext_in. intros e He. f_equal. apply HA.
        apply (dbox_k_lt st d iss HR HI mb). apply Hsb. exact He. }
      assert (Hsk : forall e, In e (skipn dd sb0) -> In e sb0).
      { intros e He. rewrite <- (firstn_skipn dd sb0). apply in_or_app. right; exact He. }
      assert (Hfi : forall e, In e (firstn dd sb0) -> In e sb0).
      { intros e He. rewrite <- (firstn_skipn dd sb0). apply in_or_app. left; exact He. }
      assert (HR' : RD st' d1x iss').
      { constructor; auto.
        - intros mb'. destruct (list_eq_dec N.eq_dec mb' mb) as [->|Hne].
          + rewrite Hix. simpl live. rewrite Hb2. unfold drep at 1, rep. rewrite map_app. simpl map.
            cbn [e_k e_msg nw]. rewrite HB. f_equal.
            change (map (fun e => (idof iss' mb (e_k e), e_msg e)) (skipn dd sb0)) with (drep iss' mb (skipn dd sb0)).
            rewrite Hrep by exact Hsk. unfold drep, rep. rewrite <- skipn_map.
            change (map (fun e => (idof iss mb (e_k e), e_msg e)) sb0) with (drep iss mb sb0).
            unfold sb0. rewrite <- (rd_box _ _ _ HR). reflexivity.
          + unfold d1x. rewrite (other_ix date_of tag_of enc dec dec_enc hash hash_inj cap d _ mb' Hr) by exact Hne.
            simpl live. rewrite Ho2 by exact Hne.
            unfold drep, rep, idof. rewrite HLo by exact Hne. apply (rd_box _ _ _ HR).
        - intros mb'. simpl counts. destruct (list_eq_dec N.eq_dec mb' mb) as [->|Hne].
          + rewrite HL', app_length, count_bump_same. simpl. fold k. lia.
          + rewrite HLo by exact Hne. rewrite count_bump_other by congruence. apply (rd_len _ _ _ HR).
        - intros mb'. destruct (list_eq_dec N.eq_dec mb' mb) as [->|Hne].
          + rewrite HL'. exact Hnd'.
          + rewrite HLo by exact Hne. apply (rd_nd _ _ _ HR). }
      assert (Hk' : k < length (iss_of str mb iss')) by (rewrite HL', app_length; simpl; lia).
      fold L. cbn [exec_disk fst snd map app].
      split; [|split; [|exact HR']].
      - rewrite HkL. f_equal. rewrite <- HB. cbn [find_h].
        apply (dget_id_ok st' d1x iss' HR' HI' mb k Hk').
      - rewrite HkL. try rewrite app_nil_r. f_equal. rewrite Hd1.
        rewrite (rd_box _ _ _ HR). fold sb0. unfold drep, rep. rewrite firstn_map, !map_map.
        apply map_ext_in. intros e He. cbn [tr_ev fst del_ev]. unfold ev_deleted.
        pose proof (dbox_k_lt st d iss HR HI mb e (Hfi e He)) as Hke. fold L in Hke.
        rewrite <- HA by exact Hke. rewrite handle_of_idof; [| rewrite HL'; exact Hnd' | rewrite HL', app_length; simpl; lia].
        specialize (Hfi e He). apply box_in in Hfi as [_ Hm]. rewrite Hm. reflexivity.
    Qed.
  End StepAdd.

  (** ** histories *)
  Definition is_visit (o : StoreSpec.op) : bool := match o with Visit => true | _ => false end.

  (** NAMED HYPOTHESIS of the id generator ([disk_fresh]): for every delivery of the history the generator's
      candidate list contains an id that is not in the mailbox (so the hasID loop ends) and that no earlier
      delivery to this mailbox was given — b-store's [file_fresh], with the generator's output as an input
      instead of a modelled clock. It is what fails in the open finding K-C10-id-reissued-after-restart. *)
  Fixpoint disk_fresh (si : dstate * issued str) (ops : list StoreSpec.op) : Prop :=
    match ops with
    | [] => True
    | o :: ops' =>
        match o with
        | StoreSpec.Add mb date tag size =>
            exists i, result_of (FileDisk.Add mb (info_of date tag) (body_of tag size) (next_cands (snd (fst si)))) (fst (fst si)) = RId i /\
                      ~ In i (iss_of str mb (snd si))
        | _ => True
        end /\ disk_fresh (fst (fst (dstep si o))) ops'
    end.

  Lemma dstep_any st d sup iss o : RD st d iss -> SInv st -> is_visit o = false ->
    match o with
    | StoreSpec.Add mb date tag size =>
        exists i, result_of (FileDisk.Add mb (info_of date tag) (body_of tag size) (next_cands sup)) d = RId i /\
                  ~ In i (iss_of str mb iss)
    | _ => True
    end -> dstep_ok st d sup iss o.
  Proof.
    intros HR HI Hv Hf. destruct o; try discriminate.
    - destruct Hf as [i [H1 H2]]. eapply dstep_add; eauto.
    - apply dstep_get; assumption.
    - apply dstep_list; assumption.
    - apply dstep_seen; assumption.
    - apply dstep_remove; assumption.
    - apply dstep_purge; assumption.
  Qed.

  Lemma RD_init : RD spec_init [] [].
  Proof.
    constructor; simpl; auto.
    - constructor.
    - intros mb. constructor.
  Qed.

  Lemma disk_run_sim : forall ops st d sup iss,
    RD st d iss -> SInv st -> forallb (fun o => negb (is_visit o)) ops = true -> disk_fresh ((d, sup), iss) ops ->
    run_impl str str_eqb dstate exec_disk ((d, sup), iss) ops = run_spec cfg st ops /\
    (let '((d', _), iss') := final_impl str str_eqb dstate exec_disk ((d, sup), iss) ops in
     RD (final_spec cfg st ops) d' iss').
  Proof.
    induction ops as [|o ops IH]; intros st d sup iss HR HI Hnv Hf; [split; [reflexivity | exact HR]|].
    simpl in Hnv. apply andb_true_iff in Hnv as [Hv Hnv]. apply negb_true_iff in Hv.
    destruct Hf as [Hf1 Hf2]. cbn [fst snd] in Hf1.
    pose proof (dstep_any st d sup iss o HR HI Hv Hf1) as Hs.
    pose proof (exec_spec_SInv cfg st o HI) as HI'.
    unfold dstep_ok in Hs. cbn [run_impl run_spec final_impl final_spec].
    unfold dstep in Hs, Hf2.
    destruct (step_impl str str_eqb dstate exec_disk ((d, sup), iss) o) as [[[[d' sup'] iss'] ob] evs].
    destruct (exec_spec cfg st o) as [[st' ob'] evs']. destruct Hs as [-> [-> HR']]. simpl in HR', Hf2, HI'.
    destruct (IH st' d' sup' iss' HR' HI' Hnv Hf2) as [H1 H2]. split; [f_equal; exact H1 | exact H2].
  Qed.

  (** ** VisitMailboxes: the walk yields exactly the non-empty mailboxes of the specification
      (enumeration order and multiplicity are not part of the contract: compared as sets) *)
  Definition ob_eq (a b : obs) : Prop :=
    match a, b with
    | OVisit l1, OVisit l2 => incl l1 l2 /\ incl l2 l1
    | _, _ => a = b
    end.

  Lemma ob_eq_refl a : ob_eq a a.
  Proof. destruct a; simpl; auto. split; apply incl_refl. Qed.

  Notation dview := (FileDisk.view dec).
  Notation vw := (vw dec hash).

  (** what the walk needs beyond [RD]: entries carry their mailbox's name, and directories that belong to
      no delivered-to mailbox hold no mail *)
  Record RV (st : spec_store) (d : disk) : Prop := {
    rv_name : forall mb e, In e (vw d mb) -> fst (fst e) = mb;
    rv_other : forall h, (forall mb, In mb (map fst (counts st)) -> h <> hash mb) -> dview d h = Some [] }.

  Lemma visit_mboxes_view d names : forall vs v,
    visit_mboxes dec d names = Some vs -> In v vs -> exists h, dview d h = Some v.
  Proof.
    induction names as [|x r IH]; intros vs v H Hin; simpl in H; [inversion H; subst; destruct Hin|].
    destruct (dview d x) as [vx|] eqn:Ex; [|discriminate].
    destruct (visit_mboxes dec d r) as [vr|] eqn:Er; [|discriminate]. inversion H; subst.
    destruct Hin as [<-|Hin]; eauto.
  Qed.

  Lemma visit_l2_view d n1 names : forall vs v,
    visit_l2 dec d n1 names = Some vs -> In v vs -> exists h, dview d h = Some v.
  Proof.
    induction names as [|x r IH]; intros vs v H Hin; cbn [visit_l2] in H; [inversion H; subst; destruct Hin|].
    destruct (is_dir d [n1; x]); [|discriminate].
    destruct (visit_mboxes dec d (children [n1; x] d)) as [a|] eqn:Ea; [|discriminate].
    destruct (visit_l2 dec d n1 r) as [b|] eqn:Eb; [|discriminate]. inversion H; subst.
    apply in_app_or in Hin as [Hin|Hin]; [eapply visit_mboxes_view; eauto | eapply IH; eauto].
  Qed.

  Lemma visit_l1_view d names : forall vs v,
    visit_l1 dec d names = Some vs -> In v vs -> exists h, dview d h = Some v.
  Proof.
    induction names as [|x r IH]; intros vs v H Hin; cbn [visit_l1] in H; [inversion H; subst; destruct Hin|].
    destruct (is_dir d [x]); [|discriminate].
    destruct (visit_l2 dec d x (children [x] d)) as [a|] eqn:Ea; [|discriminate].
    destruct (visit_l1 dec d r) as [b|] eqn:Eb; [|discriminate]. inversion H; subst.
    apply in_app_or in Hin as [Hin|Hin]; [eapply visit_l2_view; eauto | eapply IH; eauto].
  Qed.

  Lemma count_in_names mb c : count_of mb c <> 0 -> In mb (map fst c).
  Proof.
    intros H. destruct (in_dec (list_eq_dec N.eq_dec) mb (map fst c)) as [Hi|Hi]; auto.
    apply count_zero_notin in Hi. congruence.
  Qed.

  Section StepVisit.
    Variables (st : spec_store) (d : disk) (sup : list (list str)) (iss : issued str).
    Hypothesis HR : RD st d iss.
    Hypothesis HV : RV st d.
    Hypothesis HI : SInv st.

    Lemma group_tr mb : vw d mb <> [] ->
      (fun p : str * list (str * msg) => (fst p, map (tr_view str str_eqb iss (fst p)) (snd p))) (group_of (vw d mb)) =
      (mb, map view_of (box mb (live st))).
    Proof.
      intros Hne. unfold group_of. cbn [fst snd].
      assert (Hnm : match vw d mb with (nm, _, _) :: _ => nm | [] => [] end = mb).
      { destruct (vw d mb) as [|[[nm m] c] r] eqn:E; [congruence|]. apply (rv_name _ _ HV mb (nm, m, c)). rewrite E. left; auto. }
      rewrite Hnm. f_equal.
      change (map conv (vw d mb)) with (ix d mb). rewrite (rd_box _ _ _ HR). apply (dviews_ok st d iss HR HI). auto.
    Qed.

    Lemma box_vw_nonempty mb : box mb (live st) <> [] <-> vw d mb <> [].
    Proof.
      assert (length (vw d mb) = length (box mb (live st))).
      { change (length (vw d mb)) with (length (vw d mb)). rewrite <- (map_length conv).
        change (map conv (vw d mb)) with (ix d mb). rewrite (rd_box _ _ _ HR). apply rep_length. }
      split; intros Hn E; apply Hn.
      - destruct (box mb (live st)); auto. rewrite E in H. discriminate.
      - destruct (vw d mb); auto. rewrite E in H. discriminate.
    Qed.

    Lemma dstep_visit :
      let '(si', ob, evs) := dstep ((d, sup), iss) Visit in
      let '(st', ob', evs') := exec_spec cfg st Visit in
      ob_eq ob ob' /\ evs = evs' /\ si' = ((d, sup), iss) /\ st' = st.
    Proof.
      unfold dstep. cbn [step_impl exec_spec exec_disk map fst snd]. split; [|auto].
      pose proof (rd_reach _ _ _ HR) as Hr.
      destruct (crash_readable enc dec dec_enc hash cap d Hr) as [_ Hvis].
      destruct (FileDisk.visit dec d) as [vs|] eqn:Evis; [|congruence]. clear Hvis.
      unfold ob_eq. split.
      - (* everything the walk yields is a mailbox of the specification *)
        intros g Hg. apply filter_In in Hg as [Hg Hne]. apply in_map_iff in Hg as [p [<- Hp]].
        apply in_map_iff in Hp as [v [<- Hv]].
        assert (Hvne : v <> []).
        { intros ->. unfold nonempty_group, group_of in Hne. simpl in Hne. discriminate. }
        destruct (visit_l1_view d _ _ _ Evis Hv) as [h Hh].
        destruct (existsb (fun mb => str_eqb h (hash mb)) (map fst (counts st))) eqn:Ex.
        + apply existsb_exists in Ex as [mb [Hin E]]. apply str_eqb_eq in E; subst h.
          assert (Hvw : vw d mb = v) by (unfold FileDiskSpec.vw; rewrite Hh; reflexivity).
          rewrite <- Hvw in *. rewrite group_tr by exact Hvne.
          unfold spec_visit. apply filter_In. split.
          * apply in_map_iff in Hin as [[n k] [E Hin]]. simpl in E; subst n.
            apply in_map_iff. exists (mb, k). split; auto.
          * simpl. apply box_vw_nonempty in Hvne. destruct (box mb (live st)); [congruence | reflexivity].
        + exfalso. rewrite (rv_other _ _ HV h) in Hh.
          * inversion Hh as [Hv0]. apply Hvne. symmetry. exact Hv0.
          * intros mb Hin E. assert (existsb (fun mb => str_eqb h (hash mb)) (map fst (counts st)) = true).
            { apply existsb_exists. exists mb. split; auto. apply str_eqb_eq; auto. }
            congruence.
      - (* every non-empty mailbox of the specification is yielded by the walk *)
        intros g Hg. unfold spec_visit in Hg. apply filter_In in Hg as [Hg Hne].
        apply in_map_iff in Hg as [[mb k] [<- Hin]]. cbn [fst snd] in *.
        assert (Hb : box mb (live st) <> []) by (destruct (box mb (live st)); [discriminate | discriminate]).
        pose proof (proj1 (box_vw_nonempty mb) Hb) as Hv.
        destruct (visit_complete enc dec dec_enc hash cap d mb (vw d mb) Hr) as [vs' [E' Hin']]; auto.
        { apply (vw_view enc dec dec_enc hash cap d mb Hr). }
        rewrite Evis in E'. inversion E'; subst vs'.
        apply filter_In. split.
        + apply in_map_iff. exists (group_of (vw d mb)). split; [apply (group_tr mb Hv) | apply in_map; exact Hin'].
        + exact Hne.
    Qed.
  End StepVisit.

  (** ** [RV] along a history *)
  Lemma aexec_names od v :
    (forall e, In e v -> fst (fst e) = op_mailbox od) ->
    forall e, In e (aexec_view cap od v) -> fst (fst e) = op_mailbox od.
  Proof.
    intros Hv e He. destruct od as [mb info body cands | mb i | mb i | mb]; cbn [aexec_view op_mailbox] in *.
    - cbv zeta in He. revert He.
      match goal with |- context [pick_id ?a ?b] => destruct (pick_id a b) end; intros He.
      + apply in_app_or in He as [He|[<-|[]]].
        * apply Hv. eapply In_skipn; eauto.
        * cbn [fst]. destruct v as [|[[nm m] c] r]; auto. apply (Hv (nm, m, c)). left; auto.
      + apply Hv. eapply In_skipn; eauto.
    - revert He. destruct (find_id i (map v_meta v)) as [m|]; auto. destruct (FileDisk.m_seen m); auto.
      clear -Hv. intros He. induction v as [|[[nm x] c] r IH]; simpl in *; [destruct He|].
      destruct (str_eqb (m_id x) i); simpl in He.
      + destruct He as [<-|He]; [apply (Hv (nm, x, c)); auto | apply Hv; auto].
      + destruct He as [<-|He]; [apply (Hv (nm, x, c)); auto | apply IH; auto].
    - revert He. destruct (FileDisk.has_id i (map v_meta v)); auto.
      clear -Hv. intros He. induction v as [|[[nm x] c] r IH]; simpl in *; [destruct He|].
      destruct (str_eqb (m_id x) i); simpl in He.
      + apply Hv; auto.
      + destruct He as [<-|He]; [apply (Hv (nm, x, c)); auto | apply IH; auto].
    - destruct He.
  Qed.

  Lemma aexec_nil od : (match od with FileDisk.Add _ _ _ _ => False | _ => True end) -> aexec_view cap od [] = [].
  Proof. destruct od; simpl; tauto. Qed.

  Definition RVn (names : list str) (d : disk) : Prop :=
    (forall mb e, In e (vw d mb) -> fst (fst e) = mb) /\
    (forall h, (forall mb, In mb names -> h <> hash mb) -> dview d h = Some []).

  Lemma RV_RVn st d : RV st d <-> RVn (map fst (counts st)) d.
  Proof. split; [intros [A B]; split; auto | intros [A B]; constructor; auto]. Qed.

  Lemma RVn_mono names names' d : RVn names d -> incl names names' -> RVn names' d.
  Proof. intros [A B] Hi. split; [exact A|]. intros h Hh. apply B. intros mb Hm. apply Hh. apply Hi. exact Hm. Qed.

  Lemma RVn_exec names names' d od : reach d -> RVn names d -> incl names names' ->
    (match od with FileDisk.Add mb _ _ _ => In mb names' | _ => True end) -> RVn names' (dexec od d).
  Proof.
    intros Hr [A B] Hi Hadd. split.
    - intros mb e He. destruct (list_eq_dec N.eq_dec mb (op_mailbox od)) as [->|Hne].
      + rewrite (vw_exec enc dec dec_enc hash cap d od _ Hr eq_refl) in He. eapply aexec_names; eauto.
      + rewrite (vw_exec_other enc dec dec_enc hash cap d od mb Hr) in He; [apply A; exact He|].
        unfold mailbox_of. intros E. apply hash_inj in E. auto.
    - intros h Hh. pose proof (vw_view enc dec dec_enc hash cap d (op_mailbox od) Hr) as Hv.
      destruct (ops_refine_ordered_map enc dec dec_enc hash cap d od _ Hr Hv) as [P1 P2].
      destruct (list_eq_dec N.eq_dec h (hash (op_mailbox od))) as [->|Hne].
      + unfold mailbox_of in P1. rewrite P1. f_equal.
        assert (Hold : dview d (hash (op_mailbox od)) = Some []).
        { apply B. intros mb Hm. apply Hh. apply Hi. exact Hm. }
        unfold FileDiskSpec.vw. rewrite Hold. apply aexec_nil.
        destruct od as [mb ? ? ?| | |]; auto. exfalso. apply (Hh mb Hadd). reflexivity.
      + rewrite P2 by exact Hne. apply B. intros mb Hm. apply Hh. apply Hi. exact Hm.
  Qed.

  (** the disk after one step of the runner: unchanged, or one disk operation on the operation's mailbox *)
  Lemma dstep_disk d sup iss o :
    let d' := fst (fst (fst (fst (dstep ((d, sup), iss) o)))) in
    d' = d \/ exists od, d' = dexec od d /\
      match od, o with
      | FileDisk.Add mb _ _ _, StoreSpec.Add mb' _ _ _ => mb = mb'
      | FileDisk.Add _ _ _ _, _ => False
      | _, _ => True
      end.
  Proof.
    unfold dstep. destruct o as [mb date tag size | mb h | mb | mb h | mb h | mb | ]; cbn [step_impl].
    - cbn [exec_disk]. destruct (result_of _ d) eqn:E; cbn; auto.
      right. eexists. split; [reflexivity|]. reflexivity.
    - destruct (resolve str iss mb h); cbn; auto.
    - cbn; auto.
    - destruct (resolve str iss mb h) as [i| |]; cbn [exec_disk]; cbn; auto.
      destruct (result_of (FileDisk.Seen mb i) d); cbn; auto. right. eexists. split; [reflexivity | exact I].
    - destruct (resolve str iss mb h) as [i| |]; cbn [exec_disk]; cbn; auto.
      destruct (result_of (FileDisk.Remove mb i) d); cbn; auto. right. eexists. split; [reflexivity | exact I].
    - cbn. right. eexists. split; [reflexivity | exact I].
    - cbn; auto.
  Qed.

  Lemma exec_spec_names st o :
    let names' := map fst (counts (fst (fst (exec_spec cfg st o)))) in
    incl (map fst (counts st)) names' /\ match o with StoreSpec.Add mb _ _ _ => In mb names' | _ => True end.
  Proof.
    destruct o as [mb date tag size | mb h | mb | mb h | mb h | mb | ]; cbn [exec_spec].
    - rewrite spec_add_unfold. cbv zeta. destruct (add_cap cfg mb _) as [d1 l2]. destruct (add_fit cfg l2) as [d2 l3].
      cbn [fst counts].
      destruct (in_dec (list_eq_dec N.eq_dec) mb (map fst (counts st))) as [Hin|Hin].
      + rewrite bump_names_in by exact Hin. split; [apply incl_refl | exact Hin].
      + rewrite bump_names_notin by exact Hin. split; [apply incl_appl, incl_refl | apply in_or_app; right; left; reflexivity].
    - destruct h; cbn; split; auto; apply incl_refl.
    - cbn; split; auto; apply incl_refl.
    - destruct (find_h mb h (live st)); cbn; split; auto; apply incl_refl.
    - destruct (find_h mb h (live st)); cbn; split; auto; apply incl_refl.
    - cbn; split; auto; apply incl_refl.
    - cbn; split; auto; apply incl_refl.
  Qed.

  Lemma RV_step st d sup iss o : reach d -> RV st d ->
    RV (fst (fst (exec_spec cfg st o))) (fst (fst (fst (fst (dstep ((d, sup), iss) o))))).
  Proof.
    intros Hr HV. apply RV_RVn in HV. apply RV_RVn.
    destruct (exec_spec_names st o) as [Hi Ha].
    destruct (dstep_disk d sup iss o) as [->|[od [-> Hod]]].
    - eapply RVn_mono; eauto.
    - eapply RVn_exec; eauto. destruct od as [mb ? ? ?| | |]; auto.
      destruct o; try contradiction. subst. exact Ha.
  Qed.

  Lemma RV_init : RV spec_init [].
  Proof. constructor; simpl; [intros mb e [] | intros; reflexivity]. Qed.

  (** ** histories with every operation, Visit included *)
  Definition pair_eq (x y : obs * list event) : Prop := ob_eq (fst x) (fst y) /\ snd x = snd y.

  Lemma disk_run_sim_all : forall ops st d sup iss,
    RD st d iss -> RV st d -> SInv st -> disk_fresh ((d, sup), iss) ops ->
    Forall2 pair_eq (run_impl str str_eqb dstate exec_disk ((d, sup), iss) ops) (run_spec cfg st ops) /\
    (let '((d', _), iss') := final_impl str str_eqb dstate exec_disk ((d, sup), iss) ops in
     RD (final_spec cfg st ops) d' iss' /\ RV (final_spec cfg st ops) d').
  Proof.
    induction ops as [|o ops IH]; intros st d sup iss HR HV HI Hf; [split; [constructor | split; assumption]|].
    destruct Hf as [Hf1 Hf2]. cbn [fst snd] in Hf1.
    pose proof (exec_spec_SInv cfg st o HI) as HI'.
    pose proof (RV_step st d sup iss o (rd_reach _ _ _ HR) HV) as HV'.
    cbn [run_impl run_spec final_impl final_spec].
    destruct (is_visit o) eqn:Ev.
    - destruct o; try discriminate. pose proof (dstep_visit st d sup iss HR HV HI) as Hs.
      unfold dstep in Hs, Hf2, HV'.
      destruct (step_impl str str_eqb dstate exec_disk ((d, sup), iss) Visit) as [[[[d' sup'] iss'] ob] evs].
      destruct (exec_spec cfg st Visit) as [[st' ob'] evs']. destruct Hs as [Hob [-> [Hsi ->]]]. inversion Hsi; subst.
      simpl in Hf2, HI', HV'. destruct (IH st d sup iss HR HV HI Hf2) as [H1 H2]. split; [|exact H2].
      constructor; [split; auto | exact H1].
    - pose proof (dstep_any st d sup iss o HR HI Ev Hf1) as Hs.
      unfold dstep_ok, dstep in Hs. unfold dstep in Hf2, HV'.
      destruct (step_impl str str_eqb dstate exec_disk ((d, sup), iss) o) as [[[[d' sup'] iss'] ob] evs].
      destruct (exec_spec cfg st o) as [[st' ob'] evs']. destruct Hs as [-> [-> HR']]. simpl in HR', Hf2, HI', HV'.
      destruct (IH st' d' sup' iss' HR' HV' HI' Hf2) as [H1 H2]. split; [|exact H2].
      constructor; [split; [apply ob_eq_refl | reflexivity] | exact H1].
  Qed.
End Run.

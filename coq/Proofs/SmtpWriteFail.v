(** C03 / C01 when the server's writes fail (audit item: "at most the one block beyond what the client saw" existed only
    in the OCaml oracle).  [run_net_w] lets the iterations of the session loop run while their reply lines fit the
    budget of lines the connection still accepts; the first iteration with a line that does not fit still runs to its
    end (a DATA block is read and delivered although its 354 or its 250 could not be written) and is the last.
    Here: of the iterations that ran, all but the last had every reply line written; hence every DATA block but
    possibly the one of the last iteration was answered, with its whole history of replies, in what the client
    received — at most ONE message can be in the store without the client having seen its 250. *)
From IV Require Import Base.Bytes Base.BytesFacts Model.Policy Model.Smtp Model.Dot Model.SmtpWire Proofs.SmtpInv Proofs.SmtpThms Proofs.SmtpNet.
From Coq Require Import ZifyBool ZifyNat Lia.

Fixpoint lines_total (tr : list entry) : nat :=
  match tr with [] => 0 | e :: rest => iteration_lines e + lines_total rest end.

Lemma lines_total_app a b : lines_total (a ++ b) = (lines_total a + lines_total b)%nat.
Proof. induction a as [|e a IH]; cbn [app lines_total]; [reflexivity|]. rewrite IH. lia. Qed.

(** ** The accounting of [iterations_run]: all but the last iteration fit the budget *)
Lemma iterations_run_split : forall tr b,
  exists pre last,
    firstn (iterations_run b tr) tr = pre ++ last /\ (length last <= 1)%nat /\ (lines_total pre <= b)%nat /\
    (forall e, last = [e] -> (b < lines_total pre + iteration_lines e)%nat).
Proof.
  induction tr as [|e rest IH]; intros b.
  - exists [], []. cbn. repeat split; try lia. intros e H. discriminate.
  - cbn [iterations_run]. destruct (iteration_lines e <=? b)%nat eqn:E.
    + apply Nat.leb_le in E. destruct (IH (b - iteration_lines e)%nat) as (pre & last & H1 & H2 & H3 & H4).
      exists (e :: pre), last. cbn [firstn]. rewrite H1. cbn [lines_total]. repeat split; try lia.
      intros e' He. specialize (H4 e' He). lia.
    + apply Nat.leb_gt in E. exists [], [e]. cbn. repeat split; try lia.
      intros e' He. inversion He; subst. lia.
Qed.

(** ** Where the DATA state comes from and goes to *)
Lemma step_from_data c s it s' r d : step c s it = Ok s' r d -> st s = DATA ->
  (exists p, it = B p) /\ st s' <> DATA.
Proof.
  intros H Hs. unfold step in H. rewrite Hs in H. destruct it as [l|p| | |]; try discriminate.
  split; [eexists; reflexivity|].
  unfold step_data, set_st, reset in H. rewrite Hs in H.
  step_cases; cbn; discriminate.
Qed.

Lemma step_outside_data c s it s' r d : step c s it = Ok s' r d -> st s <> DATA ->
  (forall p, it <> B p) /\
  (st s' = DATA <-> exists b m, it = L (DataC b) /\ r = [(354%Z, m)]).
Proof.
  intros H Hs.
  assert (Hb : forall p, it <> B p).
  { intros p E. subst it. unfold step in H. destruct (st s); try discriminate; congruence. }
  split; [exact Hb|].
  unfold step, step_greet, step_ready, step_mail, step_mail_from, set_st, reset in H.
  destruct (st s) eqn:Es; try congruence;
    (destruct it as [l|p| | |]; [|exfalso; exact (Hb p eq_refl)| | |]);
    step_cases; cbn [st]; rewrite ?Es;
    (split; [intros X; try discriminate X; try (rewrite Es in X; discriminate X); try (do 2 eexists; split; reflexivity); eauto
            |intros (b & m & X & Y); try discriminate X; try discriminate Y; try (inversion X; subst; discriminate); try reflexivity]).
Qed.

(** ** Reply lines of a transcript vs. the loop's accounting
    The 354 of an accepted DATA command is accounted with the block's iteration; so the two counts agree at every point
    where the session is not waiting for a block. *)
Lemma run_lines c : forall items s tr e,
  run c s items = (tr, e) -> st s <> DATA ->
  forall p1 x r d p2, tr = p1 ++ (B x, r, d) :: p2 ->
    length (replies_of (p1 ++ [(B x, r, d)])) = lines_total (p1 ++ [(B x, r, d)]).
Proof.
  (* generalised over the two situations: outside DATA the counts agree so far (offset 0); inside DATA the transcript
     so far has one line (the 354) more than the accounting *)
  assert (G : forall items s tr e, run c s items = (tr, e) ->
            forall p1 x r d p2, tr = p1 ++ (B x, r, d) :: p2 ->
              (length (replies_of (p1 ++ [(B x, r, d)])) + (if sstate_eqb (st s) DATA then 1 else 0) =
               lines_total (p1 ++ [(B x, r, d)]))%nat).
  { induction items as [|it items IH]; intros s tr e H p1 x r d p2 Ht.
    - cbn in H. inversion H; subst. destruct p1; discriminate.
    - cbn [run] in H. destruct (step c s it) as [s' r0 d0| |] eqn:E.
      2:{ inversion H; subst. destruct p1; discriminate. }
      2:{ inversion H; subst. destruct p1; discriminate. }
      destruct (run c s' items) as [tr' e'] eqn:R. revert Ht. inversion H; subst tr e. clear H. intros Ht.
      destruct (sstate_eqb (st s) DATA) eqn:Ed.
      + assert (Hs : st s = DATA) by (destruct (st s); try discriminate; reflexivity).
        destruct (step_from_data _ _ _ _ _ _ E Hs) as [[p Hp] Hn]. subst it.
        assert (Hd' : sstate_eqb (st s') DATA = false) by (destruct (st s'); try reflexivity; congruence).
        destruct p1 as [|e1 p1]; cbn [app] in Ht; inversion Ht; subst.
        * unfold replies_of. cbn [map concat app lines_total iteration_lines fst snd]. rewrite app_nil_r. lia.
        * specialize (IH s' _ _ R p1 x r d p2 eq_refl). rewrite Hd' in IH.
          cbn [app]. unfold replies_of in *. cbn [map concat lines_total iteration_lines fst snd].
          rewrite app_length. lia.
      + assert (Hs : st s <> DATA) by (intro X; rewrite X in Ed; discriminate).
        destruct (step_outside_data _ _ _ _ _ _ E Hs) as [Hb Hiff].
        destruct p1 as [|e1 p1]; cbn [app] in Ht; inversion Ht; subst; [exfalso; exact (Hb x eq_refl)|].
        specialize (IH s' _ _ R p1 x r d p2 eq_refl).
        cbn [app]. unfold replies_of in *. cbn [map concat lines_total fst snd]. rewrite app_length.
        destruct (sstate_eqb (st s') DATA) eqn:Ed'.
        * assert (Hs' : st s' = DATA) by (destruct (st s'); try discriminate; reflexivity).
          apply Hiff in Hs' as (b & m & -> & ->). cbn [iteration_lines length]. lia.
        * assert (Hn : ~ (exists b m, it = L (DataC b) /\ r0 = [(354%Z, m)])).
          { intros X. apply Hiff in X. rewrite X in Ed'. discriminate. }
          assert (Hl : iteration_lines (it, r0, d0) = length r0).
          { destruct it as [l|p| | |]; try reflexivity; [|exfalso; exact (Hb p eq_refl)].
            destruct l; try reflexivity.
            destruct r0 as [|[cd m] r1]; try reflexivity.
            destruct cd as [|q|q]; try reflexivity.
            repeat (destruct q as [q|q|]; try reflexivity).
            destruct r1 as [|y r1]; [exfalso; apply Hn; eauto|reflexivity]. }
          rewrite Hl. lia. }
  intros items s tr e H Hs p1 x r d p2 Ht. specialize (G items s tr e H p1 x r d p2 Ht).
  assert (Hd : sstate_eqb (st s) DATA = false) by (destruct (st s); try reflexivity; congruence).
  rewrite Hd in G. lia.
Qed.

Lemma firstn_app_le {A} (l1 l2 : list A) n : (length l1 <= n)%nat -> firstn n (l1 ++ l2) = l1 ++ firstn (n - length l1) l2.
Proof. intros H. rewrite firstn_app, firstn_all2 by exact H. reflexivity. Qed.

(** ** The theorem.  A connection whose writes fail after [S b] lines (the greeting is the first): the transcript of the
    iterations that ran is [pre ++ last] with at most one iteration in [last]; every DATA block in [pre] was answered
    and the client received every reply line up to and including that answer.  So only the block of the last iteration
    (if it is one) can be stored without the client having seen its 250: at most one message beyond what the client saw. *)
Theorem write_failure_at_most_one_unseen_block : forall c o chunks f b,
  let '(its, trw, seen) := run_net_w c o chunks f (Some (S b)) in
  exists pre last,
    trw = pre ++ last /\ (length last <= 1)%nat /\
    forall p1 x r d p2, pre = p1 ++ (B x, r, d) :: p2 ->
      firstn (length (replies_of (p1 ++ [(B x, r, d)]))) seen = replies_of (p1 ++ [(B x, r, d)]).
Proof.
  intros c o chunks f b.
  pose proof (run_net_w_run c o chunks f (Some (S b))) as Hrun.
  unfold run_net_w in *. destruct (run_net c o chunks f) as [[its tr] sf].
  set (n := iterations_run b tr) in *.
  destruct (iterations_run_split tr b) as (pre & last & H1 & H2 & H3 & _). fold n in H1.
  exists pre, last. split; [exact H1|]. split; [exact H2|].
  intros p1 x r d p2 Hp.
  destruct (run c init (firstn n its)) as [trn en] eqn:R. cbn [fst] in Hrun. subst trn.
  assert (Hc : length (replies_of (p1 ++ [(B x, r, d)])) = lines_total (p1 ++ [(B x, r, d)])).
  { apply (run_lines c (firstn n its) init (firstn n tr) en R ltac:(discriminate) p1 x r d (p2 ++ last)).
    rewrite H1, Hp, <- app_assoc. reflexivity. }
  assert (Hle : (lines_total (p1 ++ [(B x, r, d)]) <= b)%nat).
  { rewrite Hp in H3. replace (p1 ++ (B x, r, d) :: p2) with ((p1 ++ [(B x, r, d)]) ++ p2) in H3
      by (rewrite <- app_assoc; reflexivity).
    rewrite lines_total_app in H3. lia. }
  assert (Hsplit : pre ++ last = (p1 ++ [(B x, r, d)]) ++ (p2 ++ last)).
  { rewrite Hp, <- !app_assoc. reflexivity. }
  rewrite H1, Hsplit.
  remember (p1 ++ [(B x, r, d)]) as q eqn:Hq in *. clear Hq Hsplit.
  rewrite replies_of_app.
  rewrite (firstn_app_le _ _ b) by lia.
  rewrite firstn_app, firstn_all, Nat.sub_diag. cbn [firstn]. rewrite app_nil_r. reflexivity.
Qed.

(** ... and the deliveries of the iterations that ran are those of [pre] plus those of the one last iteration. *)
Theorem write_failure_deliveries_split : forall c o chunks f b,
  let '(its, trw, seen) := run_net_w c o chunks f (Some (S b)) in
  exists pre last,
    trw = pre ++ last /\ (length last <= 1)%nat /\
    deliveries_of trw = deliveries_of pre ++ deliveries_of last.
Proof.
  intros c o chunks f b. unfold run_net_w. destruct (run_net c o chunks f) as [[its tr] sf].
  destruct (iterations_run_split tr b) as (pre & last & H1 & H2 & _).
  exists pre, last. rewrite H1, deliveries_of_app. repeat split; exact H2.
Qed.

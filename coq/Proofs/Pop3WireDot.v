(** Bridge between the POP3 line reader ([scan_lines], Model/Pop3Wire.v) and the line splitting
    of C02's codec ([lines_of], [lf_norm], Model/Dot.v, imported read-only): on every source that
    ends with LF - what SMTP DATA stores - they yield the same lines, so RETR hands out exactly
    the lines whose LF-joined form is the stored body. *)
From Coq Require Import ZifyN ZifyNat ZifyBool.
From IV Require Import Base.Bytes Base.BytesFacts Model.Dot Model.Pop3Wire Proofs.Pop3Wire.
Open Scope N_scope.

Lemma lines_lf_cut l r : ~ In LF l -> lines_lf (l ++ LF :: r) = l :: lines_lf r.
Proof.
  induction l as [|c l IH]; intros H; cbn [app lines_lf].
  - rewrite N.eqb_refl. reflexivity.
  - destruct (c =? LF) eqn:E; [apply N.eqb_eq in E; exfalso; apply H; left; exact E|].
    rewrite IH by (intros X; apply H; right; exact X). reflexivity.
Qed.

Lemma trim_cr_snoc_gen l x : trim_cr (l ++ [x]) = if x =? CR then l else l ++ [x].
Proof.
  induction l as [|c l IH]; [cbn; destruct (x =? CR); reflexivity|].
  destruct l as [|d l'].
  - cbn. destruct (x =? CR); reflexivity.
  - change (trim_cr ((c :: d :: l') ++ [x])) with (c :: trim_cr ((d :: l') ++ [x])).
    rewrite IH. destruct (x =? CR); reflexivity.
Qed.

Lemma lines_acc_scan : forall b cur, ~ In LF cur ->
  lines_acc cur (b ++ [LFb]) = map trim_cr (lines_lf (rev cur ++ b ++ [LF])).
Proof.
  induction b as [|c b IH]; intros cur Hc.
  - cbn [app lines_acc]. change (LFb =? LFb) with true. cbn iota.
    rewrite lines_lf_cut by (intros X; apply in_rev in X; exact (Hc X)). cbn [lines_lf map lines_acc].
    f_equal. destruct cur as [|x cur']; [reflexivity|]. cbn [rev]. rewrite trim_cr_snoc_gen.
    change CRb with CR. destruct (x =? CR); reflexivity.
  - cbn [app lines_acc]. change LFb with LF. destruct (c =? LF) eqn:E.
    + apply N.eqb_eq in E. subst c.
      rewrite lines_lf_cut by (intros X; apply in_rev in X; exact (Hc X)). cbn [map].
      change LF with LFb at 1. rewrite (IH [] (fun X => X)). cbn [rev app]. f_equal.
      destruct cur as [|x cur']; [reflexivity|]. cbn [rev]. rewrite trim_cr_snoc_gen.
      change CRb with CR. destruct (x =? CR); reflexivity.
    + change LF with LFb. rewrite IH.
      * cbn [rev]. rewrite <- app_assoc. reflexivity.
      * intros [X|X]; [apply N.eqb_neq in E; congruence|exact (Hc X)].
Qed.

(** On a source that ends with LF the POP3 reader and C02's splitter agree. *)
Theorem scan_lines_is_lines_of : forall b, scan_lines (b ++ [LF]) = lines_of (b ++ [LFb]).
Proof. intros b. unfold scan_lines, lines_of. rewrite lines_acc_scan by (intros []). reflexivity. Qed.

Theorem scan_lines_nil : scan_lines [] = lines_of [].
Proof. reflexivity. Qed.

(** Hence for a stored source ending in LF, the LF-joined lines RETR hands out are C02's
    normalised body. *)
Theorem retr_lines_are_lf_norm : forall b,
  joined_lf (scan_lines (b ++ [LF])) = lf_norm (b ++ [LFb]).
Proof. intros b. unfold lf_norm. rewrite scan_lines_is_lines_of. reflexivity. Qed.

(** The one difference, on a source whose last line is unterminated and ends in CR:
    lineScanner trims that CR too (TrimSuffix is applied to every line). *)
Example scan_vs_lines_of_bare_cr :
  scan_lines [97; 13] = [[97]] /\ lines_of [97; 13] = [[97; 13]].
Proof. split; reflexivity. Qed.

(** Over the two hops SMTP DATA -> store -> POP3 RETR a CR can be lost that is not strictly a
    line ending: a body line "a CR CR LF" is stored by the C02 codec as "a CR LF" (its line is
    "a CR", joined with LF), and POP3 reads that CR LF as the line ending and hands out "a".
    Each hop on its own removes at most the one CR directly before an LF. *)
Example two_hop_cr_loss :
  lf_norm [97; 13; 13; 10] = [97; 13; 10] /\
  pop3_norm [97; 13; 13; 10] = [97; 13; 13; 10] /\
  pop3_norm (lf_norm [97; 13; 13; 10]) = [97; 13; 10] /\
  scan_lines (lf_norm [97; 13; 13; 10]) = [[97]].
Proof. vm_compute. repeat split; reflexivity. Qed.

(** C15: joining never waits for the hub. [AddListener] (hence the constructors of the real
    listeners, which the web handler calls BEFORE it starts the socket writer) only submits an
    op; it returns whatever the hub goroutine is doing — even when the hub is blocked in the
    replay to this very listener because the history is longer than the listener's queue and
    no writer is draining yet. *)
From IV Require Import Base.Bytes Gen.HubPins Model.Hub Proofs.HubBasics Proofs.HubTheorems.
Local Open Scope nat_scope.

Theorem add_listener_returns_without_hub :
  forall c h l k f fail,
    find_l l (ls h) = None -> (stopped h = true \/ length (opq h) < opcap c) ->
    exists h', step c h (ANew l k f fail) = Some h' /\
               work h' = work h /\ regs h' = regs h /\ hlog h' = hlog h /\
               forall l0, l0 <> l -> find_l l0 (ls h') = find_l l0 (ls h).
Proof.
  intros c h l k f fail F R. cbn [step]. rewrite F. unfold enq. cbn [set_ls stopped opq].
  assert (O : forall l0, l0 <> l -> find_l l0 (ls h ++ [(l, new_lst k f fail)]) = find_l l0 (ls h)).
  { intros l0 N. rewrite find_l_app. destruct (find_l l0 (ls h)); auto. cbn [find_l].
    assert (Nat.eqb l l0 = false) as -> by (apply Nat.eqb_neq; congruence). reflexivity. }
  destruct (stopped h) eqn:S.
  - eexists. split; [reflexivity|]. cbn. auto.
  - destruct R as [R|R]; [discriminate|]. apply Nat.ltb_lt in R. rewrite R.
    eexists. split; [reflexivity|]. cbn. auto.
Qed.

(** A history one longer than the queue, nobody draining: the replay blocks the hub (this is the
    slow-listener situation) — but the constructor has long returned, and a further listener can
    still be constructed. *)
Definition rmsg (i : nat) : msg := ([97%N], [N.of_nat i]).

Definition long_replay_acts : list action :=
  flat_map (fun i => [AEnq (ODispatch (rmsg i)); AHub true]) (seq 0 (S v2_queue_cap)) ++
  [ANew 0 V2 [] None; AHub true] ++ map (fun _ => AHub true) (seq 0 v2_queue_cap).

Definition long_replay_state : hub :=
  match run pinned_cfg (hub_init (S v2_queue_cap)) long_replay_acts with
  | Some h => h | None => hub_init 0 end.

Example long_replay_blocks_hub_not_constructor :
  run pinned_cfg (hub_init (S v2_queue_cap)) long_replay_acts = Some long_replay_state /\
  (forall ch, hub_step pinned_cfg ch long_replay_state = None) /\
  length (work long_replay_state) = 1 /\
  (exists h', step pinned_cfg long_replay_state (ANew 1 V2 [] None) = Some h').
Proof.
  split; [vm_compute; reflexivity|]. split; [intros []; vm_compute; reflexivity|].
  split; [vm_compute; reflexivity|]. eexists. vm_compute. reflexivity.
Qed.

(** C09 — memory store with the size limit: second half of the ownership invariant for tags (stage 3 of the
    quiescence statement).  For every tag g, with a size limit configured:
      p6   while the tag is on its way to the book or just popped from it, its el field is unset;
      p7   a tag in the book is in a mailbox or announced as removed (exactly one of the two);
      p8   a tag in a mailbox is on its way to the book, in it, or just popped from it;
      p9   a tag on its way to the book whose removed flag is unset is in a mailbox or announced as removed;
      p10  a tag whose removed flag is set is in no mailbox.
    The enforcer evicts by (mailbox, id); that this hits the message with the popped tag, and misses only if the
    tag is in no mailbox, are the two hypotheses [reg1]/[reg2] here — discharged in Proofs/ConcMemReg.v from the
    commit log. Thread steps in this file. *)
From IV Require Import Model.Conc Model.ConcMem Proofs.ConcBase Proofs.ConcMemInv Proofs.ConcMemCrash Proofs.ConcMemLinEnf Proofs.ConcMemTerm Proofs.ConcMemTags Proofs.ConcMemOwn.
From Coq Require Import Lia ZifyN ZifyNat ZifyBool.
Local Open Scope nat_scope.
#[local] Hint Rewrite LV_touch LV_setpc LV_addlog LV_with_enf LV_take_done : sys.

Record og2 (g : N) (s : msys) : Prop := {
  p6 : 1 <= PR g s + IN g (s_enf s) + POP g (s_enf s) -> tag_mem g (e_els (s_enf s)) = false;
  p7 : BK g (s_enf s) = 1 -> LV g s + NT g s = 1;
  p8 : 1 <= LV g s -> PR g s + IN g (s_enf s) + BK g (s_enf s) + POP g (s_enf s) = 1;
  p9 : 1 <= PR g s + IN g (s_enf s) -> tag_mem g (e_rem (s_enf s)) = false -> LV g s + NT g s = 1;
  p10 : tag_mem g (e_rem (s_enf s)) = true -> LV g s = 0
}.

Lemma og2_thr g max s t c s' : s_max s = Some max -> og g s -> og2 g s -> step_thr s t c = SOk s' -> og2 g s'.
Proof.
  intros Hmax [H1 H2 H3 H4 H5] [P6 P7 P8 P9 P10] H. unfold step_thr in H.
  destruct (nth_error (s_thr s) t) as [p|] eqn:Ep; [|discriminate].
  destruct p; try discriminate.
  all: split_step H.
  all: try match goal with Hn : s_max _ = None |- _ => rewrite Hmax in Hn; discriminate end.
  all: inv_ok H.
  all: unfold UB, PR, NT, NTt in *.
  all: match goal with Ep : nth_error _ _ = Some _ |- context [setpc _ ?q _] =>
         pose proof (sumf_set_nth (ub g) _ _ _ q Ep) as Hu;
         pose proof (sumf_set_nth (pr g) _ _ _ q Ep) as Hp;
         pose proof (sumf_set_nth (nt g) _ _ _ q Ep) as Hn end.
  all: try match goal with |- context [setx ?mb ?x ?ss] => pose proof (LV_setx g mb x ss) as HL end.
  all: try match goal with H : is_idle _ = true |- _ => destruct (idle_enf g _ H) as (Hi1 & Hi2 & Hi3) end.
  all: try match goal with H : box_insert _ _ _ = _ |- _ => apply (box_insert_cnt g) in H end.
  all: try match goal with H : box_cap _ _ = _ |- _ => apply (box_cap_cnt g) in H end.
  all: try match goal with H : box_seen _ _ = _ |- _ => apply (box_seen_cnt g) in H end.
  all: try match goal with H : box_remove _ _ = (_, Some _) |- _ => apply (box_remove_cnt g) in H end.
  all: try match goal with H : box_purge _ = _ |- _ => unfold box_purge in H; inv_ok H end.
  all: rewrite ?nt_next_add, ?pr_next_add, ?ub_next_add, ?nt_purge_next, ?pr_purge_next, ?ub_purge_next in *.
  all: try match goal with H : pick _ _ = Some _ |- _ => pose proof (pick_cnt g _ _ _ _ H) as Hpk end.
  all: try match goal with sent : bool |- _ => destruct sent end.
  all: constructor; unfold UB, PR, NT, NTt; autorewrite with sys;
       unfold IN, POP, BK, ER in *;
       cbn [ub pr nt e_pc e_all e_els e_rem with_epc s_enf take_done with_enf x_box b_msgs m_tag] in *;
       unfold etag in *; cbn [snd fst tags map cnt m_tag] in *.
  all: repeat match goal with
       | |- context [b2n ?b] => let n := fresh "n" in pose proof (b2n_le b); set (n := b2n b) in *; clearbody n
       | H : context [b2n ?b] |- _ => let n := fresh "n" in pose proof (b2n_le b); set (n := b2n b) in *; clearbody n
       end.
  all: lia.
Qed.

(** Facts about the address model: character classes (finite sweeps over the 256 byte
    values lifted with [forallb_forall]), the scanning loop of parseEmailAddress,
    parseMailboxName, ValidateDomainPart and canonicalDomain. *)
From IV Require Import Base.Bytes Base.BytesFacts Model.Addr.
From Coq Require Import ZifyN ZifyNat ZifyBool.

(** the translator found every constant it looks for in pkg/policy/address.go *)
Lemma addr_consts_ok : addr_consts_complete = true.
Proof. reflexivity. Qed.

(** * Sweeps *)

Lemma sweep_impl (P Q : N -> bool) :
  (forall c, P c = true -> c < 256) ->
  forallb (fun c => implb (P c) (Q c)) byte_range = true ->
  forall c, P c = true -> Q c = true.
Proof.
  intros Hb Hs c Hc. pose proof (byte_sweep _ Hs c (Hb c Hc)) as H. cbv beta in H.
  rewrite Hc in H. exact H.
Qed.

Lemma mem_b_lt c s k : forallb (fun x => x <? k) s = true -> mem_b c s = true -> c < k.
Proof.
  intros Hs Hm. apply mem_b_In in Hm. rewrite forallb_forall in Hs. apply Hs in Hm. lia.
Qed.

Lemma email_specials_lt c : mem_b c email_specials = true -> c < 128.
Proof. apply mem_b_lt. vm_compute. reflexivity. Qed.

Lemma mailbox_specials_lt c : mem_b c mailbox_specials = true -> c < 128.
Proof. apply mem_b_lt. vm_compute. reflexivity. Qed.

Lemma is_alpha_lt c : is_alpha c = true -> c < 128.
Proof. unfold is_alpha, is_upper, is_lower. lia. Qed.
Lemma is_digit_lt c : is_digit c = true -> c < 128.
Proof. unfold is_digit. lia. Qed.
Lemma is_lower_lt c : is_lower c = true -> c < 128.
Proof. unfold is_lower. lia. Qed.

Lemma mailbox_char_ok_lt c : mailbox_char_ok c = true -> c < 256.
Proof.
  unfold mailbox_char_ok. intros H. apply orb_true_iff in H as [H|H]; [apply orb_true_iff in H as [H|H]|].
  - apply is_lower_lt in H. lia.
  - apply is_digit_lt in H. lia.
  - apply mailbox_specials_lt in H. lia.
Qed.

(** the bytes a validated label domain consists of *)
Definition is_dom_char (c : N) : bool := is_label_char c || (c =? 45) || (c =? 46).

Lemma is_dom_char_lt c : is_dom_char c = true -> c < 256.
Proof.
  unfold is_dom_char, is_label_char. intros H.
  assert (is_alpha c = true \/ is_digit c = true \/ c = 95 \/ c = 45 \/ c = 46) as [A|[A|A]] by lia.
  - apply is_alpha_lt in A. lia.
  - apply is_digit_lt in A. lia.
  - lia.
Qed.

Definition cls_is_plain (c : N) : bool :=
  match classify c with CCopy => negb (c =? 46) | CDot => c =? 46 | _ => false end.

(** A ⊆ U ∪ {'.'}: every byte parseMailboxName admits is copied by parseEmailAddress without quoting. *)
Lemma mailbox_char_plain c : mailbox_char_ok c = true -> cls_is_plain c = true.
Proof. apply sweep_impl; [apply mailbox_char_ok_lt | vm_compute; reflexivity]. Qed.

(** lower fixes A *)
Lemma mailbox_char_lower_fix c : mailbox_char_ok c = true -> lower_b c = c.
Proof.
  intros H. apply N.eqb_eq. revert c H.
  apply sweep_impl; [apply mailbox_char_ok_lt | vm_compute; reflexivity].
Qed.

(** at sign, double quote, backslash and the square brackets are not in A *)
Lemma mailbox_char_not_special :
  mailbox_char_ok 64 = false /\ mailbox_char_ok 34 = false /\ mailbox_char_ok 92 = false /\
  mailbox_char_ok 91 = false /\ mailbox_char_ok 93 = false.
Proof. vm_compute. repeat split. Qed.

(** a byte of a validated label domain, lower-cased, is in A, is not '+', and is plain *)
Lemma dom_char_mailbox c :
  is_dom_char c = true -> mailbox_char_ok (lower_b c) && negb (lower_b c =? ext_separator) && cls_is_plain (lower_b c) = true.
Proof. revert c. apply sweep_impl; [apply is_dom_char_lt | vm_compute; reflexivity]. Qed.

Lemma dom_char_not_bracket c : is_dom_char c = true -> negb (c =? 91) && negb (c =? 64) = true.
Proof. revert c. apply sweep_impl; [apply is_dom_char_lt | vm_compute; reflexivity]. Qed.

Lemma plain_char_not_at : plain_char 64 = false /\ plain_char 43 = true.
Proof. vm_compute. split; reflexivity. Qed.

(** * lower_b and comparisons with non-letters *)

Lemma lower_b_eqb c k : is_alpha k = false -> (lower_b c =? k) = (c =? k).
Proof. unfold lower_b, is_alpha, is_upper, is_lower. intros H. destruct ((65 <=? c) && (c <=? 90)) eqn:E; lia. Qed.

Lemma lower_b_not_upper c : is_upper (lower_b c) = false.
Proof. unfold lower_b, is_upper. destruct ((65 <=? c) && (c <=? 90)) eqn:E; lia. Qed.

Definition cls_eqb (a b : cls) : bool :=
  match a, b with
  | CCopy, CCopy | CDot, CDot | CBackslash, CBackslash | CQuote, CQuote | CAt, CAt | CHigh, CHigh | COther, COther => true
  | _, _ => false
  end.

Lemma cls_eqb_eq a b : cls_eqb a b = true -> a = b.
Proof. destruct a, b; simpl; congruence. Qed.

Lemma classify_lower c : classify (lower_b c) = classify c.
Proof.
  destruct (c <? 256) eqn:E.
  - apply cls_eqb_eq.
    assert (H : forallb (fun c => cls_eqb (classify (lower_b c)) (classify c)) byte_range = true) by (vm_compute; reflexivity).
    exact (byte_sweep _ H c ltac:(lia)).
  - replace (lower_b c) with c; [reflexivity|]. unfold lower_b, is_upper. destruct ((65 <=? c) && (c <=? 90)) eqn:E1; lia.
Qed.

Lemma is_label_char_lower c : is_label_char (lower_b c) = is_label_char c.
Proof.
  unfold is_label_char, lower_b, is_alpha, is_upper, is_lower, is_digit.
  destruct ((65 <=? c) && (c <=? 90)) eqn:E; lia.
Qed.

(** * Small list facts *)

Lemma last_lower_eqb d k : is_alpha k = false -> (last (lower d) 0 =? k) = (last d 0 =? k).
Proof.
  intros Hk. induction d as [|x d IH]; [reflexivity|].
  destruct d as [|y d]; [simpl; apply lower_b_eqb; exact Hk|].
  change (lower (x :: y :: d)) with (lower_b x :: lower (y :: d)).
  change (lower (y :: d)) with (lower_b y :: lower d) in *.
  exact IH.
Qed.

Lemma nth0_lower_eqb d k : is_alpha k = false -> (nth 0 (lower d) 0 =? k) = (nth 0 d 0 =? k).
Proof. intros Hk. destruct d; [reflexivity|]. simpl. apply lower_b_eqb; exact Hk. Qed.

Lemma lower_skipn n s : lower (skipn n s) = skipn n (lower s).
Proof. unfold lower. symmetry. apply skipn_map. Qed.

Lemma lower_firstn n s : lower (firstn n s) = firstn n (lower s).
Proof. unfold lower. symmetry. apply firstn_map. Qed.

Lemma has_prefix_app p s : has_prefix p (p ++ s) = true.
Proof. induction p; simpl; [reflexivity|]. rewrite N.eqb_refl. exact IHp. Qed.

Lemma has_prefix_split p s : has_prefix p s = true -> s = p ++ skipn (length p) s.
Proof.
  revert s; induction p as [|x p IH]; intros s H; [reflexivity|].
  destruct s as [|y s]; [discriminate|]. simpl in H. apply andb_true_iff in H as [H1 H2].
  apply N.eqb_eq in H1. subst. simpl. f_equal. apply IH. exact H2.
Qed.

Lemma has_prefix_upper_lower p0 p s : is_upper p0 = true -> has_prefix (p0 :: p) (lower s) = false.
Proof.
  intros H. destruct s as [|c s]; [reflexivity|]. simpl.
  destruct (p0 =? lower_b c) eqn:E; [|reflexivity]. apply N.eqb_eq in E. subst.
  rewrite lower_b_not_upper in H. discriminate.
Qed.

Lemma index_of_lower c s : is_alpha c = false -> index_of c (lower s) = index_of c s.
Proof.
  intros Hc. induction s as [|x s IH]; [reflexivity|]. simpl.
  rewrite lower_b_eqb by exact Hc. rewrite IH. reflexivity.
Qed.

Lemma take_until_app sep x y : take_until sep (x ++ sep :: y) = take_until sep x.
Proof.
  induction x as [|c x IH]; simpl.
  - rewrite N.eqb_refl. reflexivity.
  - destruct (c =? sep); [reflexivity|]. rewrite IH. reflexivity.
Qed.

Lemma take_until_length sep s : (length (take_until sep s) <= length s)%nat.
Proof. induction s as [|c s IH]; simpl; [lia|]. destruct (c =? sep); simpl; lia. Qed.

Lemma take_until_no_sep sep s : ~ In sep (take_until sep s).
Proof.
  induction s as [|c s IH]; simpl; [tauto|]. destruct (c =? sep) eqn:E; simpl; [tauto|].
  intros [H|H]; [apply N.eqb_neq in E; congruence | tauto].
Qed.

Lemma take_until_id sep s : ~ In sep s -> take_until sep s = s.
Proof.
  induction s as [|c s IH]; simpl; [reflexivity|]. intros H.
  destruct (c =? sep) eqn:E; [apply N.eqb_eq in E; subst; tauto|]. f_equal. apply IH. tauto.
Qed.

Lemma take_until_forall (P : N -> Prop) sep s : Forall P s -> Forall P (take_until sep s).
Proof.
  induction 1 as [|c s Hc Hs IH]; simpl; [constructor|]. destruct (c =? sep); constructor; assumption.
Qed.

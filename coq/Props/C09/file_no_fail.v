(** C09 — file store: no schedule makes an operation fail with an error a sequential run cannot produce: the
    mailbox directory an index is renamed into exists (nobody else touches a mailbox of a bucket whose lock is
    held), and VisitMailboxes tolerates directories that vanish between its reads. The file store has no step
    that kills the process; RFail is the model's only failure outcome. *)
From IV Require Import Model.Conc Model.ConcFile Proofs.ConcFileLin.
Theorem file_no_fail : forall g ops sched s t,
  frun (finit g ops) sched = FFin s -> nth_error (f_thr s) t <> Some (FDone RFail).
Proof. exact file_no_fail_holds. Qed.
Print Assumptions file_no_fail.

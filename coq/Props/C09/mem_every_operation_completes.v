(** C09 — mem_every_operation_completes: memory store, every cap, every size limit >= 0, every schedule: the run never crashes, and from wherever the schedule stopped (finished, or at a party that is blocked) it can be continued — within the step bound — to the state in which every operation has returned and the enforcer is idle (composition of mem_deadlock_free, mem_no_crash and the decreasing measure of mem_step_bound) *)
From IV Require Import Model.Conc Model.ConcMem Model.ConcFile Proofs.ConcBase Proofs.ConcMemInv Proofs.ConcMemCrash Proofs.ConcStmts Proofs.ConcMemTerm Proofs.ConcFileInv Proofs.ConcFileTerm.
From Coq Require Import Lia ZifyN ZifyNat ZifyBool Wf_nat.
From IV Require Import Proofs.ConcCompletes.
Theorem mem_every_operation_completes : forall cap max ops sched,
  (match max with Some z => 0 <= z | None => True end)%Z ->
  match run (init_sys cap max [] enf0 ops) sched with
  | Fin s | BlockedAt _ s =>
      exists ext s', run_from 0%nat s ext = Fin s' /\ all_done s' = true /\
                     (length ext <= (length ops + 1) * (15 * length ops) + 2 * length ops)%nat
  | CrashedAt _ _ => False
  end.
Proof. first [exact ConcCompletes.mem_every_operation_completes | intros; apply ConcCompletes.mem_every_operation_completes]. Qed.
Print Assumptions mem_every_operation_completes.

(** C09 — conc_spec_final_is_memstore: ... and the same final mailboxes (counters, ids, sizes, seen flags), mailbox by mailbox *)
From Coq Require Import List Arith Lia Sorted NArith ZArith ZifyN ZifyNat ZifyBool.
From IV Require Import Base.Bytes Model.StoreSpec Model.StoreSpecImpl Model.MemStore Proofs.StoreSpecFacts Proofs.MemStoreLoops Proofs.MemStoreRefine.
From IV Require Model.Conc Proofs.ConcBase.
From IV Require Import Proofs.ConcC07Mem.
Theorem conc_spec_final_is_memstore : forall capN ops mb, Forall no_visit ops ->
  get_mbox (nm mb) (fst (final_mem (cfg0 capN) (map up_op ops))) = abs_box (C.sget mb (fst (C.seq_run true capN [] ops))).
Proof. first [exact ConcC07Mem.conc_spec_final_is_memstore | intros; apply ConcC07Mem.conc_spec_final_is_memstore]. Qed.
Print Assumptions conc_spec_final_is_memstore.

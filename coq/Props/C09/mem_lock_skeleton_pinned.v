(** C09 — mem_lock_skeleton_pinned: for every operation of the memory store, the enforcer goroutine and the constructor, the skeleton regenerated from the source — with every helper call and every withMailbox replaced by what it runs — IS the structure Model/ConcMem.v transcribes (lock sites, rendezvous, instrumentation points); the only instrumentation point under a mailbox lock is mem.add.visible *)
From IV Require Import Model.ConcSk Gen.StoreLocks.
From IV Require Import Model.Conc Model.ConcMem Proofs.ConcBase Proofs.ConcMemInv.
From IV Require Import Proofs.ConcLocks.
Theorem mem_lock_skeleton_pinned :
  map (expanded mem_sk) api = map (expanded model_sk) api /\
  points_under_mailbox_lock mem_sk = [("Store.AddMessage", "mem.add.visible")].
Proof. first [exact ConcLocks.mem_lock_skeleton_pinned | intros; apply ConcLocks.mem_lock_skeleton_pinned]. Qed.
Print Assumptions mem_lock_skeleton_pinned.

(** C09 — memory store, every configuration: a finished operation other than a walk returned exactly the result
    its own commit step logged (so the per-thread results are the specification's results in commit order). *)
From IV Require Import Model.Conc Model.ConcMem Proofs.ConcMemLinEnf.
Theorem mem_results_are_commits : forall cap max ops sched s t o r,
  run (init_sys cap max [] enf0 ops) sched = Fin s ->
  nth_error ops t = Some o -> o <> OVisit -> nth_error (s_thr s) t = Some (PDone r) ->
  In (T t, o, r) (s_log s).
Proof. exact ConcMemLinEnf.mem_results_are_commits. Qed.
Print Assumptions mem_results_are_commits.

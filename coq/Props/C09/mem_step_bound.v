(** C09 — mem_step_bound: memory store, every cap, every size limit, every schedule and every choice: the n operations and the size enforcer together make at most (n+1)*15n + 2n productive steps — every step strictly decreases a measure (ConcMemTerm.step_decreases), so there is no livelock in the cap loop, the eviction loop or the walk; with mem_deadlock_free every fair schedule finishes every operation *)
From IV Require Import Model.Conc Model.ConcMem Proofs.ConcBase Proofs.ConcMemInv Proofs.ConcStmts Proofs.ConcMemLinEnf.
From Coq Require Import Lia ZifyN ZifyNat ZifyBool.
From IV Require Import Proofs.ConcMemTerm.
Theorem mem_step_bound : forall cap max ops sched,
  (productive (init_sys cap max [] enf0 ops) sched <= (length ops + 1) * (15 * length ops) + 2 * length ops)%nat.
Proof. first [exact ConcMemTerm.mem_step_bound | intros; apply ConcMemTerm.mem_step_bound]. Qed.
Print Assumptions mem_step_bound.

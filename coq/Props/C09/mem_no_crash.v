(** C09 — memory store, any cap, with or without size limit (maxSize >= 0): no schedule of any operations reaches
    the crash of the size enforcer goroutine (all.Front() == nil in the eviction loop), the only step of the
    model that kills the process. *)
From IV Require Import Model.Conc Model.ConcMem Proofs.ConcMemCrash.
Theorem mem_no_crash : forall cap max ops sched n s,
  match max with Some z => (0 <= z)%Z | None => True end ->
  run (init_sys cap max [] enf0 ops) sched <> CrashedAt n s.
Proof. exact mem_no_crash_run. Qed.
Print Assumptions mem_no_crash.

(** C09 — memory store, any cap, with or without size limit: after any schedule of any operations (from the empty
    store; a prefix history is just more threads scheduled first) either everything has finished or some party
    (a client goroutine or the size enforcer) can take a step — no reachable state is a deadlock. *)
From IV Require Import Model.Conc Model.ConcMem Proofs.ConcMemInv.
Theorem mem_deadlock_free : forall cap max ops sched,
  match run (init_sys cap max [] enf0 ops) sched with
  | Fin s | BlockedAt _ s | CrashedAt _ s => all_done s = true \/ exists w, enabled s w = true
  end.
Proof. exact mem_deadlock_free_run. Qed.
Print Assumptions mem_deadlock_free.

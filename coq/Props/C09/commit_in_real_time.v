(** C09 — memory store (any configuration): one scheduling step appends at most one entry to the commit log and
    that entry belongs to the party that stepped. Hence an operation's linearisation point lies between its
    first and its last step: the commit order respects real time. *)
From IV Require Import Model.Conc Model.ConcMem Proofs.ConcMemLin.
Theorem commit_in_real_time : forall s w c s', step s w c = SOk s' ->
  s_log s' = s_log s \/ exists o r, s_log s' = s_log s ++ [(w, o, r)].
Proof. exact commit_is_own_step. Qed.
Print Assumptions commit_in_real_time.

(** C09 — memory store, any cap, with or without size limit: no two deliveries to one mailbox ever commit
    with the same id. *)
From IV Require Import Model.Conc Model.ConcMem Proofs.ConcStmts Proofs.ConcMemIds.
Theorem mem_ids_distinct : forall cap max ops sched s t1 t2 mb g1 g2 z1 z2 id,
    run (init_sys cap max [] enf0 ops) sched = Fin s ->
    In (T t1, OAdd mb g1 z1, RId id) (s_log s) -> In (T t2, OAdd mb g2 z2, RId id) (s_log s) -> t1 = t2.
Proof. exact mem_ids_distinct_holds. Qed.
Print Assumptions mem_ids_distinct.

(** C09 — lock_acquisitions_not_nested: SOURCE level, on the synchronisation skeletons regenerated from pkg/storage/mem and pkg/storage/file on every run (Gen/StoreLocks.v): in both stores a lock is acquired only while none is held — never the one already held — unless it is a leaf lock (released by the very next synchronisation event, nothing blocking in between), no rendezvous and no caller-supplied callback under a lock, every path releases what it took; the one exception, the file store drawing a serial number from its counter channel under the bucket lock, is named, and if that channel is used its sender is a goroutine that only sends *)
From IV Require Import Model.ConcSk Gen.StoreLocks.
From IV Require Import Model.Conc Model.ConcMem Proofs.ConcBase Proofs.ConcMemInv.
From IV Require Import Proofs.ConcLocks.
Theorem lock_acquisitions_not_nested :
  disciplined [] mem_sk = true /\
  disciplined file_free file_sk = true /\
  free_source_ok file_sk = true.
Proof. first [exact ConcLocks.lock_acquisitions_not_nested | intros; apply ConcLocks.lock_acquisitions_not_nested]. Qed.
Print Assumptions lock_acquisitions_not_nested.

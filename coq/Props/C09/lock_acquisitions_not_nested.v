(** C09 — lock_acquisitions_not_nested: SOURCE level, on the synchronisation skeletons regenerated from pkg/storage/mem and pkg/storage/file on every run (Gen/StoreLocks.v): in both stores a lock is acquired only while none is held (never the one already held), no rendezvous and no caller-supplied callback under a lock, every path releases what it took; the one exception, the file store drawing a serial number from its counter channel under the bucket lock, is named, and the sender of that channel is a goroutine without synchronisation of its own *)
From IV Require Import Model.ConcSk Gen.StoreLocks.
From IV Require Import Model.Conc Model.ConcMem Proofs.ConcBase Proofs.ConcMemInv.
From IV Require Import Proofs.ConcLocks.
Theorem lock_acquisitions_not_nested :
  disciplined [] mem_sk = true /\
  disciplined file_free file_sk = true /\
  lookup "generateID" file_sk = Some [KRecv "countChannel"] /\
  lookup "countGenerator" file_sk = Some [KLoop [KSend "c"]] /\
  lookup "init" file_sk = Some [KGo "countGenerator"].
Proof. first [exact ConcLocks.lock_acquisitions_not_nested | intros; apply ConcLocks.lock_acquisitions_not_nested]. Qed.
Print Assumptions lock_acquisitions_not_nested.

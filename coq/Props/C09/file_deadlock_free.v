(** C09 — file store: after any schedule of any operations (incl. VisitMailboxes walks) on any mailbox geometry
    (which mailboxes share a lock bucket / hash directory) either everything has finished or some goroutine can
    take a step: the holder of a bucket lock never waits for anything. *)
From IV Require Import Model.Conc Model.ConcFile Proofs.ConcFileInv.
Theorem file_deadlock_free : forall g ops sched,
  match frun (finit g ops) sched with
  | FFin s | FBlockedAt _ s => fall_done s = true \/ exists t, fenabled s t = true
  end.
Proof. exact file_deadlock_free_run. Qed.
Print Assumptions file_deadlock_free.

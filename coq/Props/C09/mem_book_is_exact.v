(** C09 — mem_book_is_exact: memory store, every cap, every size limit, every schedule, wherever it stops, deliveries with pairwise distinct tags (= Message objects): the enforcer book lists no message twice and curSize is EXACTLY the total size of the book plus the message just being evicted (two-sided; by the linear-ownership invariant for tags, Proofs/ConcMemOwn.v) *)
From IV Require Import Model.Conc Model.ConcMem Proofs.ConcBase Proofs.ConcMemInv Proofs.ConcMemCrash Proofs.ConcMemLinEnf Proofs.ConcMemTerm Proofs.ConcMemTags Proofs.ConcMemOwn Proofs.ConcStmts Proofs.ConcMemQuiesce.
From Coq Require Import Lia ZifyN ZifyNat ZifyBool.
From IV Require Import Proofs.ConcMemOwnEnf.
Theorem mem_book_is_exact : forall cap max ops sched,
  NoDup (add_tags_of ops) ->
  match run (init_sys cap max [] enf0 ops) sched with
  | Fin s | BlockedAt _ s | CrashedAt _ s =>
      NoDup (book_tags s) /\
      (e_cur (s_enf s) = book_total (e_all (s_enf s)) + match e_pc (s_enf s) with EEvLock k _ => esize k | _ => 0 end)%Z
  end.
Proof. first [exact ConcMemOwnEnf.mem_book_is_exact | intros; apply ConcMemOwnEnf.mem_book_is_exact]. Qed.
Print Assumptions mem_book_is_exact.

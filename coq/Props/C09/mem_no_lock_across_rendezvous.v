(** C09 — mem_no_lock_across_rendezvous: memory store, every cap and size limit, every schedule: whoever holds a mailbox lock across a scheduling point is parked inside AddMessage critical section; a goroutine at a rendezvous with the size enforcer (send or wait) holds no mailbox lock (the lock-order argument of deadlock freedom; what seed C09-m2 broke) *)
From IV Require Import Model.Conc Model.ConcMem Proofs.ConcBase.
From Coq Require Import Lia ZifyN ZifyNat ZifyBool.
From IV Require Import Proofs.ConcMemInv.
Theorem mem_no_lock_across_rendezvous : forall cap max ops sched,
  match run (init_sys cap max [] enf0 ops) sched with
  | Fin s | BlockedAt _ s | CrashedAt _ s =>
      (forall mb t, x_lock (getx mb s) = Some t -> exists nm, nth_error (s_thr s) t = Some (PAddVisible mb nm)) /\
      (forall t p mb, nth_error (s_thr s) t = Some p -> at_rendezvous p = true -> x_lock (getx mb s) <> Some t)
  end.
Proof. first [exact ConcMemInv.mem_no_lock_across_rendezvous | intros; apply ConcMemInv.mem_no_lock_across_rendezvous]. Qed.
Print Assumptions mem_no_lock_across_rendezvous.

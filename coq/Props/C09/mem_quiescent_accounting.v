(** C09 — mem_quiescent_accounting: the quiescence statement (audit aud-store item 4) in full — memory store, every cap, every size limit >= 0, every schedule, deliveries with pairwise distinct tags (= Message objects): when every operation has finished and the enforcer is idle, the tags in the enforcer book are exactly the tags in the mailboxes, the book has no duplicates, curSize is exactly the total of the book, and that is within the limit *)
From IV Require Import Model.Conc Model.ConcMem Proofs.ConcBase Proofs.ConcMemInv Proofs.ConcMemCrash Proofs.ConcMemLin Proofs.ConcMemLinEnf Proofs.ConcMemIds Proofs.ConcMemLogOps Proofs.ConcStmts Proofs.ConcMemTerm Proofs.ConcMemTags Proofs.ConcMemOwn Proofs.ConcMemOwnEnf Proofs.ConcMemOwn2 Proofs.ConcMemOwn2Enf Proofs.ConcMemReg Proofs.ConcMemQuiesce.
From Coq Require Import Lia ZifyN ZifyNat ZifyBool.
From IV Require Import Proofs.ConcMemQuiesceAll.
Theorem mem_quiescent_accounting : forall cap max ops sched s,
  (0 <= max)%Z -> NoDup (add_tags_of ops) ->
  run (init_sys cap (Some max) [] enf0 ops) sched = Fin s -> all_done s = true ->
  (forall g, In g (book_tags s) <-> In g (live_tags s)) /\ NoDup (book_tags s) /\
  e_cur (s_enf s) = book_total (e_all (s_enf s)) /\ (e_cur (s_enf s) <= max)%Z.
Proof. first [exact ConcMemQuiesceAll.mem_quiescent_accounting | intros; apply ConcMemQuiesceAll.mem_quiescent_accounting]. Qed.
Print Assumptions mem_quiescent_accounting.

(** C09 — file store: a step appends at most one entry to the commit log, and it is the stepping thread's. *)
From IV Require Import Model.Conc Model.ConcFile Proofs.ConcFileLin.
Theorem file_commit_in_real_time : forall s t c s', fstep s t c = SOk s' ->
  f_log s' = f_log s \/ exists o r, f_log s' = f_log s ++ [(t, o, r)].
Proof. exact fcommit_is_own_step. Qed.
Print Assumptions file_commit_in_real_time.

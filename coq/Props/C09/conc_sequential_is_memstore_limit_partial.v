(** C09 — conc_sequential_is_memstore_limit_partial: memory store WITH the size limit (every limit, no cap), histories of deliveries, reads and mark-seen: a run of non-overlapping operations (block i moves only thread i and the enforcer and runs them to completion) gives every operation exactly the answer of C07 run_mem with that limit — the enforcer eviction loop, spread over several scheduling steps, evicts exactly what MemStore.evict_loop evicts; removals, purges and cap evictions together with the limit are conc_sequential_is_memstore_limit_stmt (not proved) *)
From Coq Require Import List Arith Lia NArith ZArith Sorted ZifyN ZifyNat ZifyBool.
From IV Require Import Base.Bytes.
From IV Require Model.StoreSpec Model.StoreSpecImpl Model.MemStore Proofs.StoreSpecFacts Proofs.MemStoreLoops Proofs.MemStoreRefine Proofs.ConcC07Mem Proofs.ConcC07Seq.
From IV Require Import Model.Conc Model.ConcMem Proofs.ConcBase Proofs.ConcMemInv Proofs.ConcMemCrash Proofs.ConcMemLin Proofs.ConcMemSeq.
From IV Require Import Proofs.ConcC07Limit.
Theorem conc_sequential_is_memstore_limit_partial : forall (maxb : N) ops blocks s,
  maxb <> 0 -> Forall add_or_read ops -> length blocks = length ops -> blocks_ok 0%nat blocks ->
  run_blocks (init_sys 0 (Some (Z.of_N maxb)) [] enf0 ops) 0%nat blocks = Some s ->
  forall t r, nth_error (s_thr s) t = Some (PDone r) -> (t < length ops)%nat ->
    nth_error (map B.down_obs (map fst (MS.run_mem {| SS.c_cap := 0%nat; SS.c_max := maxb |} (map B.up_op ops)))) t = Some r.
Proof. first [exact ConcC07Limit.conc_sequential_is_memstore_limit_partial | intros; apply ConcC07Limit.conc_sequential_is_memstore_limit_partial]. Qed.
Print Assumptions conc_sequential_is_memstore_limit_partial.

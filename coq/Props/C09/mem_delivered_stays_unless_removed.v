(** C09 — memory store, no cap, no size limit: a delivery that committed with an id is still in its mailbox
    after any complete schedule, unless a removal of that id or a purge of that mailbox committed after it. *)
From IV Require Import Model.Conc Model.ConcMem Proofs.ConcStmts Proofs.ConcMemStays.
Theorem mem_delivered_stays_unless_removed : forall ops sched s pre post t mb g z id,
    run (init_sys 0 None [] enf0 ops) sched = Fin s ->
    s_log s = pre ++ (T t, OAdd mb g z, RId id) :: post ->
    (forall e, In e post -> match lop e with ORemove mb' id' => mb' <> mb \/ id' <> id | OPurge mb' => mb' <> mb | _ => True end) ->
    x_lock (getx mb s) = None ->
    find_msg id (b_msgs (x_box (getx mb s))) <> None.
Proof. exact mem_delivered_stays_holds. Qed.
Print Assumptions mem_delivered_stays_unless_removed.

(** C09 — file_every_operation_completes: file store, every mailbox geometry, every schedule: from wherever the schedule stopped it can be continued, within the step bound, to the state in which every operation has returned (composition of file_deadlock_free and the decreasing measure of file_step_bound) *)
From IV Require Import Model.Conc Model.ConcMem Model.ConcFile Proofs.ConcBase Proofs.ConcMemInv Proofs.ConcMemCrash Proofs.ConcStmts Proofs.ConcMemTerm Proofs.ConcFileInv Proofs.ConcFileTerm.
From Coq Require Import Lia ZifyN ZifyNat ZifyBool Wf_nat.
From IV Require Import Proofs.ConcCompletes.
Theorem file_every_operation_completes : forall g ops sched,
  match frun (finit g ops) sched with
  | FFin s | FBlockedAt _ s =>
      exists ext s', frun_from 0%nat s ext = FFin s' /\ fall_done s' = true /\
                     (length ext <= (1 + length ops * (1 + length ops * (length ops + 1)) + 7) * length ops)%nat
  end.
Proof. first [exact ConcCompletes.file_every_operation_completes | intros; apply ConcCompletes.file_every_operation_completes]. Qed.
Print Assumptions file_every_operation_completes.

(** C09 — file store, any mailbox geometry (shared lock buckets / hash directories): after every schedule the
    commit steps, in the order they happened, are a run of the sequential specification fseq_exec with exactly
    the committed results, and its final state is the final content of every mailbox. A commit is a step of its
    own thread (file_commit_in_real_time), so the order respects real time; a walk commits one listing per
    mailbox it reads. *)
From IV Require Import Model.Conc Model.ConcFile Proofs.ConcFileLin.
Theorem file_linearizable : forall g ops sched,
  match frun (finit g ops) sched with
  | FFin s | FBlockedAt _ s =>
      let sp := fseq_run ([], 0) (map flop (f_log s)) in
      snd sp = map flres (f_log s) /\ forall mb, smsgs mb (fst sp) = fmsgs mb s
  end.
Proof. exact file_linearizable_holds. Qed.
Print Assumptions file_linearizable.

(** C09 — file_visit_at_most_once: file store: one VisitMailboxes walk reports no mailbox twice, whatever else runs *)
From IV Require Import Model.Conc Model.ConcFile Proofs.ConcBase Proofs.ConcFileInv Proofs.ConcFileLin Proofs.ConcFileVisit.
From Coq Require Import Lia ZifyN ZifyNat ZifyBool.
From IV Require Import Proofs.ConcFileVisitOnce.
Theorem file_visit_at_most_once : forall g ops sched s t l,
  wf_geo g -> (forall mb tag size, In (OAdd mb tag size) ops -> aget mb g <> None) ->
  In s (ftrace (finit g ops) sched) -> nth_error (f_thr s) t = Some (FDone (RVisit l)) ->
  NoDup (map fst l).
Proof. first [exact ConcFileVisitOnce.file_visit_at_most_once | intros; apply ConcFileVisitOnce.file_visit_at_most_once]. Qed.
Print Assumptions file_visit_at_most_once.

(** C09 — memory store, any cap, WITH or without size limit: after every schedule the commit steps in the order they
    happened — client operations and the evictions committed by the size enforcer goroutine (as removals) — are a
    run of the sequential specification with exactly the committed results, and its store is the store (every
    mailbox whose lock is free). *)
From IV Require Import Model.Conc Model.ConcMem Proofs.ConcStmts Proofs.ConcMemLinEnf.
Theorem mem_linearizable_with_enforcer : forall cap max ops sched,
  match run (init_sys cap max [] enf0 ops) sched with
  | Fin s | BlockedAt _ s | CrashedAt _ s =>
      let sp := seq_run true cap [] (map lop (s_log s)) in
      snd sp = map lres (s_log s) /\
      (forall mb, x_lock (getx mb s) = None -> sget mb (fst sp) = x_box (getx mb s))
  end.
Proof. exact mem_linearizable_with_enforcer_holds. Qed.
Print Assumptions mem_linearizable_with_enforcer.

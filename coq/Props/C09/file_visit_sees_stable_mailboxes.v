(** C09 — file_visit_sees_stable_mailboxes: file store, any well-formed geometry, any schedule: a mailbox that holds mail in every state from a VisitMailboxes walk first read to its last is reported by that walk, and the walk reports no mailbox twice (visited exactly once) *)
From IV Require Import Model.Conc Model.ConcFile Proofs.ConcBase Proofs.ConcFileInv Proofs.ConcFileLin Proofs.ConcFileVisit.
From Coq Require Import Lia ZifyN ZifyNat ZifyBool.
From IV Require Import Proofs.ConcFileVisitOnce.
Theorem file_visit_sees_stable_mailboxes : forall g ops sched mb t,
  wf_geo g -> (forall m tag size, In (OAdd m tag size) ops -> aget m g <> None) -> aget mb g <> None ->
  Forall (fun s => during t s -> holds mb s) (ftrace (finit g ops) sched) ->
  forall s l, In s (ftrace (finit g ops) sched) ->
    nth_error (f_thr s) t = Some (FDone (RVisit l)) ->
    In mb (map fst l) /\ NoDup (map fst l).
Proof. first [exact ConcFileVisitOnce.file_visit_sees_stable_mailboxes | intros; apply ConcFileVisitOnce.file_visit_sees_stable_mailboxes]. Qed.
Print Assumptions file_visit_sees_stable_mailboxes.

(** C09 — file_linearizable_to_storespec: file store, any geometry, any schedule: the commit order, read as C07 operations, is a StoreSpec.run_spec history with the committed results *)
From Coq Require Import List Arith Lia NArith ZArith.
From Coq Require Import Sorted ZifyN ZifyNat ZifyBool.
From IV Require Import Base.Bytes Model.StoreSpec Model.StoreSpecImpl Proofs.StoreSpecFacts Proofs.StoreSpecRefine Proofs.ConcC07Mem.
From IV Require Model.Conc Model.ConcFile Proofs.ConcBase Proofs.ConcFileInv Proofs.ConcFileLin Proofs.ConcFileLogOps.
From IV Require Import Proofs.ConcC07File.
Theorem file_linearizable_to_storespec : forall g ops sched s,
  (F.frun (F.finit g ops) sched = F.FFin s \/ exists n, F.frun (F.finit g ops) sched = F.FBlockedAt n s) ->
  map shape (map FL.flres (F.f_log s)) =
  map shape (map down_obs (map fst (run_spec {| c_cap := 0%nat; c_max := 0%N |} spec_init
                                              (up_file [] 0%N (map FL.flop (F.f_log s)))))).
Proof. first [exact ConcC07File.file_linearizable_to_storespec | intros; apply ConcC07File.file_linearizable_to_storespec]. Qed.
Print Assumptions file_linearizable_to_storespec.

(** C09 — mem_commits_once: memory store, every cap, every size limit, every schedule: an operation other than a walk commits exactly once, with its own operation and the result it returns *)
From IV Require Import Model.Conc Model.ConcMem Proofs.ConcBase Proofs.ConcMemInv Proofs.ConcStmts Proofs.ConcMemLin Proofs.ConcMemLinEnf.
From Coq Require Import Lia ZifyN ZifyNat ZifyBool.
From IV Require Import Proofs.ConcMemLogOps.
Theorem mem_commits_once : forall cap max ops sched s t o r,
  run (init_sys cap max [] enf0 ops) sched = Fin s ->
  nth_error ops t = Some o -> o <> OVisit -> nth_error (s_thr s) t = Some (PDone r) ->
  count_tag t (s_log s) = 1%nat /\ In (T t, o, r) (s_log s).
Proof. first [exact ConcMemLogOps.mem_commits_once | intros; apply ConcMemLogOps.mem_commits_once]. Qed.
Print Assumptions mem_commits_once.

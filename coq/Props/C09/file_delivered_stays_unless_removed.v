(** C09 — file_delivered_stays_unless_removed: file store, every mailbox geometry, every schedule (finished or stopped anywhere): a delivery that committed with an id is listed by its mailbox index unless a removal of that id or a purge of that mailbox committed after it (the file-store model has no cap) *)
From IV Require Import Model.Conc Model.ConcFile Proofs.ConcBase Proofs.ConcFileInv Proofs.ConcFileLin Proofs.ConcStmts Proofs.ConcMemStays.
From Coq Require Import Lia ZifyN ZifyNat ZifyBool.
From IV Require Import Proofs.ConcFileStays.
Theorem file_delivered_stays_unless_removed : forall g ops sched pre post t mb tag z id,
  match frun (finit g ops) sched with
  | FFin s | FBlockedAt _ s =>
      f_log s = pre ++ (t, OAdd mb tag z, RId id) :: post ->
      (forall e, In e post -> match flop e with ORemove mb' id' => mb' <> mb \/ id' <> id | OPurge mb' => mb' <> mb | _ => True end) ->
      find_msg id (fmsgs mb s) <> None
  end.
Proof. first [exact ConcFileStays.file_delivered_stays_unless_removed | intros; apply ConcFileStays.file_delivered_stays_unless_removed]. Qed.
Print Assumptions file_delivered_stays_unless_removed.

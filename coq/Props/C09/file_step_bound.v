(** C09 — file_step_bound: file store, every mailbox geometry, every schedule and every choice: n operations make at most (1 + n(1 + n(n+1)) + 7) * n productive steps — every step strictly decreases a measure (ConcFileTerm.fstep_dec), so there is no livelock, the three-level walk included; with file_deadlock_free every fair schedule finishes every operation *)
From IV Require Import Model.Conc Model.ConcFile Proofs.ConcBase Proofs.ConcFileInv Proofs.ConcStmts Proofs.ConcMemTerm.
From Coq Require Import Lia ZifyN ZifyNat ZifyBool.
From IV Require Import Proofs.ConcFileTerm.
Theorem file_step_bound : forall g ops sched,
  (fproductive (finit g ops) sched <= (1 + length ops * (1 + length ops * (length ops + 1)) + 7) * length ops)%nat.
Proof. first [exact ConcFileTerm.file_step_bound | intros; apply ConcFileTerm.file_step_bound]. Qed.
Print Assumptions file_step_bound.

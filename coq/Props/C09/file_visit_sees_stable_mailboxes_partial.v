(** C09 — file_visit_sees_stable_mailboxes_partial: file store, any well-formed geometry: a VisitMailboxes walk reports every mailbox that holds mail in every state from the walk first read to its last (the at-most-once half of exactly-once is file_visit_at_most_once_stmt, not proved) *)
From IV Require Import Model.Conc Model.ConcFile Proofs.ConcBase Proofs.ConcFileInv Proofs.ConcFileLin.
From Coq Require Import Lia ZifyN ZifyNat ZifyBool.
From IV Require Import Proofs.ConcFileVisit.
Theorem file_visit_sees_stable_mailboxes_partial : forall g ops sched mb t,
  wf_geo g -> aget mb g <> None ->
  Forall (fun s => during t s -> holds mb s) (ftrace (finit g ops) sched) ->
  forall s l, In s (ftrace (finit g ops) sched) ->
    nth_error (f_thr s) t = Some (FDone (RVisit l)) -> In mb (map fst l).
Proof. first [exact ConcFileVisit.file_visit_sees_stable_mailboxes_partial | intros; apply ConcFileVisit.file_visit_sees_stable_mailboxes_partial]. Qed.
Print Assumptions file_visit_sees_stable_mailboxes_partial.

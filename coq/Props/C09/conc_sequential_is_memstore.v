(** C09 — conc_sequential_is_memstore: memory store WITHOUT size limit, every cap, every operation list (walks apart): a run of the concurrency model in which operations do not overlap (block i moves only thread i and runs it to completion) gives every operation exactly the answer of C07 run_mem = run_spec at its place in the program (ids read as handles, answers projected) and ends in C07 final mailboxes; with the size limit the statement is conc_sequential_is_memstore_limit_stmt (not proved) *)
From Coq Require Import List Arith Lia NArith ZArith.
From IV Require Import Base.Bytes Model.StoreSpec Model.StoreSpecImpl Model.MemStore Proofs.MemStoreRefine Proofs.ConcC07Mem.
From IV Require Model.Conc Model.ConcMem Proofs.ConcMemSeq.
From IV Require Import Proofs.ConcC07Seq.
Theorem conc_sequential_is_memstore : forall cap ops blocks s,
  Forall no_visit ops -> length blocks = length ops -> Sq.blocks_ok 0%nat blocks ->
  Sq.run_blocks (M.init_sys cap None [] M.enf0 ops) 0%nat blocks = Some s ->
  (* every operation returned what C07's memory store / abstract store answers at its place in the program *)
  (forall t r, nth_error (M.s_thr s) t = Some (M.PDone r) ->
     nth_error (map down_obs (map fst (run_mem (cfg0 cap) (map up_op ops)))) t = Some r) /\
  nth_error (map down_obs (map fst (run_mem (cfg0 cap) (map up_op ops)))) =
    nth_error (map down_obs (map fst (run_spec (cfg0 cap) spec_init (map up_op ops)))) /\
  (* and the final mailboxes are C07's final mailboxes *)
  (forall mb, M.x_lock (M.getx mb s) = None ->
     get_mbox (nm mb) (fst (final_mem (cfg0 cap) (map up_op ops))) = abs_box (M.x_box (M.getx mb s))).
Proof. first [exact ConcC07Seq.conc_sequential_is_memstore | intros; apply ConcC07Seq.conc_sequential_is_memstore]. Qed.
Print Assumptions conc_sequential_is_memstore.

(** C09 — mem_quiescent_book_exact: clauses 2-4 of the quiescence statement (audit item 4): when every operation has finished and the enforcer is idle, the book has no duplicates, curSize is exactly its total, and that is within the limit *)
From IV Require Import Model.Conc Model.ConcMem Proofs.ConcBase Proofs.ConcMemInv Proofs.ConcMemCrash Proofs.ConcMemLinEnf Proofs.ConcMemTerm Proofs.ConcMemTags Proofs.ConcMemOwn Proofs.ConcStmts Proofs.ConcMemQuiesce.
From Coq Require Import Lia ZifyN ZifyNat ZifyBool.
From IV Require Import Proofs.ConcMemOwnEnf.
Theorem mem_quiescent_book_exact : forall cap max ops sched s,
  (0 <= max)%Z -> NoDup (add_tags_of ops) ->
  run (init_sys cap (Some max) [] enf0 ops) sched = Fin s -> all_done s = true ->
  NoDup (book_tags s) /\ e_cur (s_enf s) = book_total (e_all (s_enf s)) /\ (e_cur (s_enf s) <= max)%Z.
Proof. first [exact ConcMemOwnEnf.mem_quiescent_book_exact | intros; apply ConcMemOwnEnf.mem_quiescent_book_exact]. Qed.
Print Assumptions mem_quiescent_book_exact.

(** C09 — mem_cursize_within_limit: memory store, every cap, every limit >= 0, every schedule, wherever it stops: outside its eviction loop (idle, or looking at a registration / removal notice just received) the enforcer has curSize within the limit *)
From IV Require Import Model.Conc Model.ConcMem Proofs.ConcBase Proofs.ConcMemInv Proofs.ConcMemCrash Proofs.ConcStmts.
From Coq Require Import Lia ZifyN ZifyNat ZifyBool.
From IV Require Import Proofs.ConcMemQuiesce.
Theorem mem_cursize_within_limit : forall cap max ops sched,
  (0 <= max)%Z ->
  match run (init_sys cap (Some max) [] enf0 ops) sched with
  | Fin s | BlockedAt _ s | CrashedAt _ s =>
      outside_loop (e_pc (s_enf s)) = true -> (e_cur (s_enf s) <= max)%Z
  end.
Proof. first [exact ConcMemQuiesce.mem_cursize_within_limit | intros; apply ConcMemQuiesce.mem_cursize_within_limit]. Qed.
Print Assumptions mem_cursize_within_limit.

(** C09 — mem_lock_holder_only_releases: MODEL level, every cap, size limit and schedule, wherever it stops: whoever holds a mailbox lock is parked at the one point the source has under a mailbox lock, holds no second lock, and its next step is enabled whatever the others do and leaves it without any lock *)
From IV Require Import Model.ConcSk Gen.StoreLocks.
From IV Require Import Model.Conc Model.ConcMem Proofs.ConcBase Proofs.ConcMemInv.
From IV Require Import Proofs.ConcLocks.
Theorem mem_lock_holder_only_releases : forall cap max ops sched,
  match run (init_sys cap max [] enf0 ops) sched with
  | Fin s | BlockedAt _ s | CrashedAt _ s =>
      forall mb t, x_lock (getx mb s) = Some t ->
        (exists p site, nth_error (s_thr s) t = Some p /\ pc_site p = Some site /\
                        In site (map snd (points_under_mailbox_lock mem_sk))) /\
        (forall mb', x_lock (getx mb' s) = Some t -> mb' = mb) /\
        (forall c, exists s', step s (T t) c = SOk s' /\ forall mb', x_lock (getx mb' s') <> Some t)
  end.
Proof. first [exact ConcLocks.mem_lock_holder_only_releases | intros; apply ConcLocks.mem_lock_holder_only_releases]. Qed.
Print Assumptions mem_lock_holder_only_releases.

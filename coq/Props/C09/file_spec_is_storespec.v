(** C09 — file_spec_is_storespec: the sequential specification of the file-store concurrency model (fseq_exec, what file_linearizable refers to) is StoreSpec without cap and size limit: same answers on every operation list (walks apart); a Conc id is read as the handle of its position among the ids issued to its mailbox (up_file), deliveries compared up to the id *)
From Coq Require Import List Arith Lia NArith ZArith.
From Coq Require Import Sorted ZifyN ZifyNat ZifyBool.
From IV Require Import Base.Bytes Model.StoreSpec Model.StoreSpecImpl Proofs.StoreSpecFacts Proofs.StoreSpecRefine Proofs.ConcC07Mem.
From IV Require Model.Conc Model.ConcFile Proofs.ConcBase Proofs.ConcFileInv Proofs.ConcFileLin Proofs.ConcFileLogOps.
From IV Require Import Proofs.ConcC07File.
Theorem file_spec_is_storespec : forall ops, Forall no_visit ops ->
  map shape (snd (F.fseq_run ([], 0%N) ops)) =
  map shape (map down_obs (map fst (run_spec {| c_cap := 0%nat; c_max := 0%N |} spec_init (up_file [] 0%N ops)))).
Proof. first [exact ConcC07File.file_spec_is_storespec | intros; apply ConcC07File.file_spec_is_storespec]. Qed.
Print Assumptions file_spec_is_storespec.

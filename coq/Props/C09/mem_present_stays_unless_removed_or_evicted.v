(** C09 — mem_present_stays_unless_removed_or_evicted: memory store, every cap, every size limit, every schedule: a message present after a prefix of the commit order is still in its mailbox at the end unless afterwards a removal of its id committed (by a client, or by the enforcer = size eviction), its mailbox was purged, or (with a cap) another delivery to its mailbox committed *)
From IV Require Import Model.Conc Model.ConcMem Proofs.ConcBase Proofs.ConcMemInv Proofs.ConcStmts Proofs.ConcMemLin Proofs.ConcMemLinEnf.
From Coq Require Import Lia ZifyN ZifyNat ZifyBool.
From IV Require Import Proofs.ConcMemStays.
Theorem mem_present_stays_unless_removed_or_evicted : forall cap max ops sched s pre post mb id,
  run (init_sys cap max [] enf0 ops) sched = Fin s ->
  s_log s = pre ++ post ->
  find_msg id (b_msgs (sget mb (fst (seq_run true cap [] (map lop pre))))) <> None ->
  (forall e, In e post -> harmless_c cap mb id (lop e)) ->
  x_lock (getx mb s) = None ->
  find_msg id (b_msgs (x_box (getx mb s))) <> None.
Proof. first [exact ConcMemStays.mem_present_stays_unless_removed_or_evicted | intros; apply ConcMemStays.mem_present_stays_unless_removed_or_evicted]. Qed.
Print Assumptions mem_present_stays_unless_removed_or_evicted.

(** C09 — memory store without size limit (the default configuration), any cap: for every schedule that runs all
    operations to completion, the commit steps in the order they happened are a run of the sequential
    specification seq_exec giving exactly the committed results; its final store is the final store; and every
    non-walk operation returned the result of its own commit. A commit is a step of its own thread, so this order
    is consistent with real time (commit_in_real_time). A walk commits one listing per mailbox. *)
From IV Require Import Model.Conc Model.ConcMem Proofs.ConcStmts Proofs.ConcMemLin.
Theorem mem_linearizable : forall cap ops sched s,
    run (init_sys cap None [] enf0 ops) sched = Fin s ->
    let sp := seq_run true cap [] (map lop (s_log s)) in
    snd sp = map lres (s_log s) /\
    (forall mb, x_lock (getx mb s) = None -> sget mb (fst sp) = x_box (getx mb s)) /\
    (forall t o r, nth_error ops t = Some o -> o <> OVisit -> nth_error (s_thr s) t = Some (PDone r) ->
       In (T t, o, r) (s_log s)).
Proof. exact mem_linearizable_holds. Qed.
Print Assumptions mem_linearizable.

(** C09 — mem_linearizable_to_storespec: memory store without size limit, any cap, any schedule: the commit order of a finished concurrent execution, read as C07 operations, is a sequential StoreSpec.run_spec history with exactly the committed results; handles are relative to the commit order (id allocation under concurrency); real-time consistency is commit_in_real_time *)
From Coq Require Import List Arith Lia NArith ZArith.
From IV Require Import Base.Bytes Model.StoreSpec Model.StoreSpecImpl Model.MemStore Proofs.ConcC07Mem.
From IV Require Model.Conc Model.ConcMem Proofs.ConcMemInv Proofs.ConcStmts Proofs.ConcMemLin Proofs.ConcMemLogOps.
From IV Require Import Proofs.ConcC07Lin.
Theorem mem_linearizable_to_storespec : forall cap ops sched s,
  M.run (M.init_sys cap None [] M.enf0 ops) sched = M.Fin s ->
  let history := map up_op (map St.lop (M.s_log s)) in
  (* the commit order is a sequential StoreSpec history with the committed results *)
  map St.lres (M.s_log s) = map down_obs (map fst (run_spec (cfg0 cap) spec_init history)) /\
  (* every finished operation other than a walk returned the result of its own commit *)
  (forall t o r, nth_error ops t = Some o -> o <> C.OVisit ->
     nth_error (M.s_thr s) t = Some (M.PDone r) -> In (C.T t, o, r) (M.s_log s)).
Proof. first [exact ConcC07Lin.mem_linearizable_to_storespec | intros; apply ConcC07Lin.mem_linearizable_to_storespec]. Qed.
Print Assumptions mem_linearizable_to_storespec.

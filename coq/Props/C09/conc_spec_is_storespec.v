(** C09 — conc_spec_is_storespec: the sequential specification the interleaved memory store is linearizable to (Conc.seq_exec) is C07 MemStore.exec_mem without size limit and hence StoreSpec.exec_spec: for every cap and every operation list (walks apart) the same answers, after reading ids as handles (up_op) and projecting C07 observations (down_obs) *)
From Coq Require Import List Arith Lia Sorted NArith ZArith ZifyN ZifyNat ZifyBool.
From IV Require Import Base.Bytes Model.StoreSpec Model.StoreSpecImpl Model.MemStore Proofs.StoreSpecFacts Proofs.MemStoreLoops Proofs.MemStoreRefine.
From IV Require Model.Conc Proofs.ConcBase.
From IV Require Import Proofs.ConcC07Mem.
Theorem conc_spec_is_storespec : forall capN ops, Forall no_visit ops ->
  snd (C.seq_run true capN [] ops) =
  map down_obs (map fst (run_spec (cfg0 capN) spec_init (map up_op ops))).
Proof. first [exact ConcC07Mem.conc_spec_is_storespec | intros; apply ConcC07Mem.conc_spec_is_storespec]. Qed.
Print Assumptions conc_spec_is_storespec.

(** C11 — paths_pinned: the model's path scheme (index.gob, .tmp, .raw, hash[0:3]/hash[0:6]/hash for by-name access and for the walk) is the one read from the source on this run *)
From IV Require Import Base.Bytes Base.BytesFacts Model.FileDisk Model.FileDiskSkel Gen.FileSteps Proofs.FileDiskMap.
From Coq Require Import String List NArith Bool Lia.
From IV Require Import Gen.FilePaths.
From IV Require Import Proofs.FileDiskSkel.
Theorem paths_pinned : forall (h id : str),
  idx_name = src_index_name /\ tmp_name = (src_index_name ++ src_tmp_suffix)%list /\ raw_ext = src_raw_suffix /\
  mbdir h = [firstn src_level1_mbox h; firstn src_level2_mbox h; h] /\
  mbdir h = [firstn src_level1_walk h; firstn src_level2_walk h; h] /\
  idx h = (mbdir h ++ [src_index_name])%list /\ tmp h = (mbdir h ++ [(src_index_name ++ src_tmp_suffix)%list])%list /\
  raw h id = (mbdir h ++ [(id ++ src_raw_suffix)%list])%list.
Proof. first [exact FileDiskSkel.paths_pinned | intros; apply FileDiskSkel.paths_pinned]. Qed.
Print Assumptions paths_pinned.

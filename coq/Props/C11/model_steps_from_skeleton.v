(** C11 — model_steps_from_skeleton: the model's step lists are assembled from the crash points of those skeletons, in their call order *)
From IV Require Import Base.Bytes Base.BytesFacts Model.FileDisk Model.FileDiskSkel Gen.FileSteps Proofs.FileDiskMap.
From Coq Require Import String List NArith Bool Lia.
From IV Require Import Proofs.FileDiskSkel.
Theorem model_steps_from_skeleton : forall (enc : FileDisk.index -> str) (h nm : str) (m : meta) (ms : list meta) (id : str) (p : path) (b : str) (d : disk),
  sites (p_file Raw p b d) = pts sk_AddMessage /\
  sites (p_write_index enc h nm (m :: ms) d) = sites (p_mkdir h d) ++ pts (then_of sk_writeIndex) /\
  sites (p_mkdir h d) = match lookup d (mbdir h) with None => pts (then_of sk_createDir) | Some _ => [] end /\
  (exists k, (k <= 2)%nat /\
     sites (p_write_index enc h nm [] d) =
     pts (else_of sk_writeIndex) ++ pts sk_removeDir ++ concat (repeat (pts sk_removeDirIfEmpty) k)) /\
  sites (p_remove enc h nm (m :: ms) id d) =
     sites (p_write_index enc h nm (remove_first id (m :: ms)) d) ++
     (match remove_first id (m :: ms) with [] => [] | _ => pts sk_removeMessage end).
Proof. first [exact FileDiskSkel.model_steps_from_skeleton | intros; apply FileDiskSkel.model_steps_from_skeleton]. Qed.
Print Assumptions model_steps_from_skeleton.

(** C11 — file_steps_pinned: the order of crash points, mutating os calls and helper calls inside every mutating function of pkg/storage/file, as read from the source by the translator on this run, is the order the disk model was written from *)
From IV Require Import Base.Bytes Base.BytesFacts Model.FileDisk Model.FileDiskSkel Gen.FileSteps Proofs.FileDiskMap.
From Coq Require Import String List NArith Bool Lia.
From IV Require Import Proofs.FileDiskSkel.
Theorem file_steps_pinned :
  map erase sk_AddMessage = map erase src_AddMessage /\
  map erase sk_MarkSeen = map erase src_MarkSeen /\
  map erase sk_RemoveMessage = map erase src_RemoveMessage /\
  map erase sk_PurgeMessages = map erase src_PurgeMessages /\
  map erase sk_newMessage = map erase src_newMessage /\
  map erase sk_removeMessage = map erase src_removeMessage /\
  map erase sk_purge = map erase src_purge /\
  map erase sk_writeIndex = map erase src_writeIndex /\
  map erase sk_createDir = map erase src_createDir /\
  map erase sk_removeDir = map erase src_removeDir /\
  map erase sk_removeDirIfEmpty = map erase src_removeDirIfEmpty.
Proof. first [exact FileDiskSkel.file_steps_pinned | intros; apply FileDiskSkel.file_steps_pinned]. Qed.
Print Assumptions file_steps_pinned.

(** C11 (visit walk under interleaving, fix 0012) — for every reachable disk, every operation running
    in another goroutine and every schedule (how many of its file-system steps run before each directory
    read of the walk: the file.visit.* yield points), VisitMailboxes returns no error: a directory that
    vanished since it was listed is skipped, every mailbox it reads decodes. *)
From IV Require Import Base.Bytes Model.FileDisk Model.FileDiskVisit Proofs.FileDiskCrash Proofs.FileDiskVisit.
Theorem visit_tolerates_concurrent_removal : forall (enc : index -> str) (dec : str -> option index),
  (forall i, dec (enc i) = Some i) ->
  forall (hash : str -> str) (cap : nat) (d : disk) (o : op) (sched : list nat),
  reach enc dec hash cap d ->
  fst (cvisit dec true (steps enc dec hash cap o d, d, sched)) <> None.
Proof. exact FileDiskVisit.visit_tolerates_concurrent_removal. Qed.
Print Assumptions visit_tolerates_concurrent_removal.

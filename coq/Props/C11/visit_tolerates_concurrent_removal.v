(** C11 (visit walk under interleaving, fix 0012) — for every reachable disk, ONE other operation running in
    another goroutine, and every schedule of that pair at the granularity of the model (before each directory
    read of the walk — the file.visit.* yield points — the other operation advances by any number of its WHOLE
    file-system steps; states inside a step and several concurrent operations are not covered here),
    VisitMailboxes returns no error: a directory that vanished since it was listed is skipped, every mailbox
    it reads decodes. *)
From IV Require Import Base.Bytes Model.FileDisk Model.FileDiskVisit Proofs.FileDiskCrash Proofs.FileDiskVisit.
Theorem visit_tolerates_concurrent_removal : forall (enc : index -> str) (dec : str -> option index),
  (forall i, dec (enc i) = Some i) ->
  forall (hash : str -> str) (cap : nat) (d : disk) (o : op) (sched : list nat),
  reach enc dec hash cap d ->
  fst (cvisit dec true (steps enc dec hash cap o d, d, sched)) <> None.
Proof. exact FileDiskVisit.visit_tolerates_concurrent_removal. Qed.
Print Assumptions visit_tolerates_concurrent_removal.

(** C11 — what IS guaranteed for a delivery that first evicts for the mailbox cap (two or more index
    commits): every crash state shows the old mailbox minus a prefix of at most [evictions] messages
    (everything else untouched), or the complete new state. *)
From IV Require Import Base.Bytes Model.FileDisk Proofs.FileDiskCrash.
Theorem crash_atomic_capped : forall (enc : index -> str) (dec : str -> option index),
  (forall i, dec (enc i) = Some i) ->
  forall (hash : str -> str) (cap : nat) (d : disk) (o : op) (d' : disk),
  reach enc dec hash cap d -> crash_reach (steps enc dec hash cap o d) d d' ->
  (exists j, (j <= evictions dec hash cap o d)%nat /\
     view dec d' (mailbox_of hash o) = option_map (skipn j) (view dec d (mailbox_of hash o)) /\
     forall h, h <> mailbox_of hash o -> view dec d' h = view dec d h) \/
  (forall h, view dec d' h = view dec (exec enc dec hash cap o d) h).
Proof. exact FileDiskCrash.crash_atomic_capped. Qed.
Print Assumptions crash_atomic_capped.

(** C11 — open finding K-C11-evict-then-append: "completely or not at all" fails for a delivery that
    evicts for the cap. Witness (cap 1, one stored message, second delivery, crash after the first
    step = the eviction's index commit): the mailbox is empty, which is neither the old nor the new state. *)
From IV Require Import Base.Bytes Model.FileDisk Proofs.FileDiskCrash Proofs.FileDiskWitness.
Theorem crash_atomic_capped_refuted :
  exists (enc : index -> str) (dec : str -> option index) (hash : str -> str) (cap : nat) (d : disk) (o : op) (d' : disk),
    (forall i, dec (enc i) = Some i) /\ reach enc dec hash cap d /\
    crash_reach (steps enc dec hash cap o d) d d' /\
    ~ ((forall h, view dec d' h = view dec d h) \/ (forall h, view dec d' h = view dec (exec enc dec hash cap o d) h)).
Proof. exact FileDiskWitness.crash_atomic_capped_refuted. Qed.
Print Assumptions crash_atomic_capped_refuted.

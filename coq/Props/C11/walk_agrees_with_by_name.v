(** C11 — walk_agrees_with_by_name: in every reachable state (crash states included) the VisitMailboxes walk and the by-name readers agree: every non-empty listing the walk yields is the by-name listing of a mailbox name, and every mailbox listing mail by name is yielded *)
From IV Require Import Base.Bytes Base.BytesFacts Model.FileDisk Proofs.FileDiskMap Proofs.FileDiskInv Proofs.FileDiskSteps Proofs.FileDiskOps Proofs.FileDiskCrash Proofs.FileDiskParents.
From Coq Require Import List NArith Bool Lia.
From IV Require Import Proofs.FileDiskWalk.
Theorem walk_agrees_with_by_name : forall (enc : index -> str) (dec : str -> option index), (forall i, dec (enc i) = Some i) ->
  forall (hash : str -> str) (cap : nat) (d : disk),
    reach enc dec hash cap d ->
    exists vs, visit dec d = Some vs /\
      (forall v, In v vs -> v <> [] -> exists mb, view dec d (hash mb) = Some v) /\
      (forall mb v, view dec d (hash mb) = Some v -> v <> [] -> In v vs).
Proof. first [exact FileDiskWalk.walk_agrees_with_by_name | intros; apply FileDiskWalk.walk_agrees_with_by_name]. Qed.
Print Assumptions walk_agrees_with_by_name.

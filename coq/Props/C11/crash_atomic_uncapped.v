(** C11 — crash_atomic_uncapped: a store without a message cap: every operation is atomic in every crash state (the restricted form of the refuted crash_atomic_stmt) *)
From IV Require Import Base.Bytes Base.BytesFacts Model.FileDisk Proofs.FileDiskMap Proofs.FileDiskInv Proofs.FileDiskSteps Proofs.FileDiskOps Proofs.FileDiskCrash Proofs.FileDiskParents.
From Coq Require Import List NArith Bool Lia.
From IV Require Import Proofs.FileDiskWalk.
Theorem crash_atomic_uncapped : forall (enc : index -> str) (dec : str -> option index), (forall i, dec (enc i) = Some i) ->
  forall (hash : str -> str) (d : disk) (o : op) (d' : disk),
    reach enc dec hash 0 d -> crash_reach (steps enc dec hash 0 o d) d d' ->
    (forall h, view dec d' h = view dec d h) \/ (forall h, view dec d' h = view dec (exec enc dec hash 0 o d) h).
Proof. first [exact FileDiskWalk.crash_atomic_uncapped | intros; apply FileDiskWalk.crash_atomic_uncapped]. Qed.
Print Assumptions crash_atomic_uncapped.

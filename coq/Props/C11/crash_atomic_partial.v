(** C11 — an operation that performs no cap eviction is atomic for every reader: in every crash state
    all mailboxes look as before the operation, or all look as after it. *)
From IV Require Import Base.Bytes Model.FileDisk Proofs.FileDiskCrash.
Theorem crash_atomic_partial : forall (enc : index -> str) (dec : str -> option index),
  (forall i, dec (enc i) = Some i) ->
  forall (hash : str -> str) (cap : nat) (d : disk) (o : op) (d' : disk),
  reach enc dec hash cap d -> evictions dec hash cap o d = O ->
  crash_reach (steps enc dec hash cap o d) d d' ->
  (forall h, view dec d' h = view dec d h) \/ (forall h, view dec d' h = view dec (exec enc dec hash cap o d) h).
Proof. exact FileDiskCrash.crash_atomic_partial. Qed.
Print Assumptions crash_atomic_partial.

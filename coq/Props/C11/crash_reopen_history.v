(** C11 — crash_reopen_history: end to end over histories with completed operations, operations killed at any crash point, and reopens interleaved: the store is the ordered-map state with every killed operation applied completely or not at all (capped deliveries: the open finding, 1..evictions oldest messages dropped), and stays reachable *)
From IV Require Import Base.Bytes Base.BytesFacts Model.FileDisk Model.FileDiskCodec Proofs.FileDiskMap Proofs.FileDiskInv Proofs.FileDiskSteps Proofs.FileDiskOps Proofs.FileDiskCrash Proofs.FileDiskCodec Proofs.FileDiskWitness.
From Coq Require Import List NArith Bool Lia.
From IV Require Import Proofs.FileDiskHistory.
Theorem crash_reopen_history : forall (enc : index -> str) (dec : str -> option index), (forall i, dec (enc i) = Some i) ->
  forall (hash : str -> str) (cap : nat) (d : disk) (its : list citem) (d' : disk),
    reach enc dec hash cap d -> crun enc dec hash cap d its d' ->
    reach enc dec hash cap d' /\ arun hash cap (abs dec d) its (abs dec d').
Proof. first [exact FileDiskHistory.crash_reopen_history | intros; apply FileDiskHistory.crash_reopen_history]. Qed.
Print Assumptions crash_reopen_history.

(** C11 — in every crash state the mailboxes other than the operation's are exactly as before, and in
    the operation's mailbox every message the operation does not name ([unnamed_ids]: not evicted by the
    delivery, not the target of seen / remove, nothing for purge) is still listed with the same index
    entry and the same content. *)
From IV Require Import Base.Bytes Model.FileDisk Proofs.FileDiskCrash Proofs.FileDiskUntouched.
Theorem untouched_intact : forall (enc : index -> str) (dec : str -> option index),
  (forall i, dec (enc i) = Some i) ->
  forall (hash : str -> str) (cap : nat) (d : disk) (o : op) (d' : disk) v,
  reach enc dec hash cap d -> crash_reach (steps enc dec hash cap o d) d d' ->
  (forall h, h <> mailbox_of hash o -> view dec d' h = view dec d h) /\
  (view dec d (mailbox_of hash o) = Some v ->
   exists v', view dec d' (mailbox_of hash o) = Some v' /\
     forall e, In e v -> In (m_id (snd (fst e))) (unnamed_ids dec hash cap o d) -> In e v').
Proof. exact FileDiskUntouched.untouched_intact. Qed.
Print Assumptions untouched_intact.

(** C11 — after any history of file-store operations, each of which may have been killed at any point
    (between two file-system steps, inside a content write, a RemoveAll or a MkdirAll), every mailbox
    directory lists without error and the VisitMailboxes walk succeeds. [reach] is that set of disks. *)
From IV Require Import Base.Bytes Model.FileDisk Proofs.FileDiskCrash.
Theorem crash_readable : forall (enc : index -> str) (dec : str -> option index),
  (forall i, dec (enc i) = Some i) ->
  forall (hash : str -> str) (cap : nat) (d : disk),
  reach enc dec hash cap d -> (forall h, view dec d h <> None) /\ visit dec d <> None.
Proof. exact FileDiskCrash.crash_readable. Qed.
Print Assumptions crash_readable.

(** C11 — in every reachable disk state, hence in every crash state, a delivery (whose id generator
    eventually yields an unused id) runs without a failing step; afterwards the mailbox lists the old
    messages minus cap evictions followed by the new message with its full content, other mailboxes
    unchanged. *)
From IV Require Import Base.Bytes Model.FileDisk Proofs.FileDiskCrash.
Theorem accepts_mail_after : forall (enc : index -> str) (dec : str -> option index),
  (forall i, dec (enc i) = Some i) ->
  forall (hash : str -> str) (cap : nat) (d : disk) (mb info body : str) (cands : list str) v,
  reach enc dec hash cap d -> view dec d (hash mb) = Some v ->
  pick_id cands (skipn (evict_count cap (length v)) (map (fun e => snd (fst e)) v)) <> None ->
  exists d1 id nm,
    run (steps enc dec hash cap (Add mb info body cands) d) d = Some d1 /\ reach enc dec hash cap d1 /\
    result_of dec hash cap (Add mb info body cands) d = RId id /\
    view dec d1 (hash mb) = Some (skipn (evict_count cap (length v)) v ++ [(nm, new_meta id info body, Some body)]) /\
    (forall h, h <> hash mb -> view dec d1 h = view dec d h).
Proof. exact FileDiskCrash.accepts_mail_after. Qed.
Print Assumptions accepts_mail_after.

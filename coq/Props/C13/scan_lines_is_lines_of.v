(** C13 — scan_lines_is_lines_of: on a source ending in LF the POP3 line reader and the splitter of the C02 codec agree *)
From Coq Require Import ZifyN ZifyNat ZifyBool.
From IV Require Import Base.Bytes Base.BytesFacts Model.Dot Model.Pop3Wire Proofs.Pop3Wire.
From IV Require Import Proofs.Pop3WireDot.
Theorem scan_lines_is_lines_of : forall b, scan_lines (b ++ [LF]) = lines_of (b ++ [LFb]).
Proof. first [exact Pop3WireDot.scan_lines_is_lines_of | intros; apply Pop3WireDot.scan_lines_is_lines_of]. Qed.
Print Assumptions scan_lines_is_lines_of.

(** C13 — pause_ends_the_session: what the client sends after a pause longer than the timeout is never read *)
From Coq Require Import ZifyN ZifyNat ZifyBool.
From IV Require Import Base.Bytes Base.BytesFacts Model.Pop3Wire Model.Pop3 Model.Pop3Net Proofs.Pop3Wire Proofs.Pop3 Proofs.Pop3Bytes.
From IV Require Import Proofs.Pop3Net.
Theorem pause_ends_the_session fl st w w' ws f :
  run_net fl st (w :: w' :: ws) f = run_net fl st [w] FIdle.
Proof. first [exact Pop3Net.pause_ends_the_session | intros; apply Pop3Net.pause_ends_the_session]. Qed.
Print Assumptions pause_ends_the_session.

(** C13 — stls_keeps_session: an accepted STLS keeps state, user, snapshot and store *)
From Coq Require Import ZifyN ZifyNat ZifyBool.
From IV Require Import Base.Bytes Base.BytesFacts Model.Pop3Wire Model.Pop3 Model.Pop3Tls Proofs.Pop3Wire Proofs.Pop3 Proofs.Pop3Bytes.
From IV Require Import Proofs.Pop3Tls.
Theorem stls_keeps_session : forall tc fl tw l,
  accepts tc tw l = true ->
  let tw' := fst (tline tc fl tw l true) in
  w_store (t_w tw') = w_store (t_w tw) /\ w_sess (t_w tw') = w_sess (t_w tw) /\
  s_state (w_sess (t_w tw')) = Auth /\ t_secure tw' = true /\ t_srv tw' = true.
Proof. first [exact Pop3Tls.stls_keeps_session | intros; apply Pop3Tls.stls_keeps_session]. Qed.
Print Assumptions stls_keeps_session.

From IV Require Import Base.Bytes Model.Pop3Wire Model.Pop3 Proofs.Pop3 Proofs.Pop3Bytes.
Theorem bytes_no_quit_no_delete : forall fl st bes,
  (forall e, In e (expand [] bes) -> is_quit_event e = false) ->
  w_store (run_bytes fl st bes) = fold_left ext_step (expand [] bes) st.
Proof. exact Proofs.Pop3Bytes.bytes_no_quit_no_delete. Qed.
Print Assumptions bytes_no_quit_no_delete.

From IV Require Import Base.Bytes Model.StoreSpec Model.StoreSpecImpl Model.MemStore Model.FileStore Model.Pop3Wire Model.Pop3 Model.Pop3Store Proofs.Pop3 Proofs.Pop3Store Proofs.Pop3StoreCor.
Theorem storespec_ops_commute : forall content cfg st o,
  CInv st ->
  fold_left ext_step (tr content cfg st o) (abs content st) = abs content (fst (fst (exec_spec cfg st o))).
Proof. exact Proofs.Pop3Store.tr_commutes. Qed.
Print Assumptions storespec_ops_commute.

(** C13 — net_single_is_stream: one chunk ended by EOF is the plain byte stream *)
From Coq Require Import ZifyN ZifyNat ZifyBool.
From IV Require Import Base.Bytes Base.BytesFacts Model.Pop3Wire Model.Pop3 Model.Pop3Net Proofs.Pop3Wire Proofs.Pop3 Proofs.Pop3Bytes.
From IV Require Import Proofs.Pop3Net.
Theorem net_single_is_stream fl st w : fst (run_net fl st [w] FEof) = run_stream fl st w.
Proof. first [exact Pop3Net.net_single_is_stream | intros; apply Pop3Net.net_single_is_stream]. Qed.
Print Assumptions net_single_is_stream.

(** C13 — net_reply_per_line: at most one reply per line, plus the greeting and at most one reply to the way the connection ends *)
From Coq Require Import ZifyN ZifyNat ZifyBool.
From IV Require Import Base.Bytes Base.BytesFacts Model.Pop3Wire Model.Pop3 Model.Pop3Net Proofs.Pop3Wire Proofs.Pop3 Proofs.Pop3Bytes.
From IV Require Import Proofs.Pop3Net.
Theorem net_reply_per_line fl st chunks f :
  (length (w_out (fst (run_net fl st chunks f))) <= 2 + count_lf (concat chunks))%nat.
Proof. first [exact Pop3Net.net_reply_per_line | intros; apply Pop3Net.net_reply_per_line]. Qed.
Print Assumptions net_reply_per_line.

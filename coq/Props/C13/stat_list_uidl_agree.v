From IV Require Import Base.Bytes Model.Pop3Wire Model.Pop3 Proofs.Pop3.
Theorem stat_list_uidl_agree : forall fl st0 evs,
  let w := run fl (init_world st0) evs in
  let s := w_sess w in
  s_state s = Trans ->
  step fl (w_store w) s (CCmd LIST []) =
    (s, with_body (mk true [Z.of_nat (length (listing s))]) (BList (listing s)), w_store w) /\
  step fl (w_store w) s (CCmd UIDL []) =
    (s, with_body (mk true [Z.of_nat (length (listing s))]) (BUidl (uid_listing s)), w_store w) /\
  step fl (w_store w) s (CCmd STAT []) =
    (s, mk true [Z.of_nat (length (listing s)); Z.of_N (sum_sizes (listing s))], w_store w) /\
  map fst (listing s) = map fst (uid_listing s) /\
  (forall n v, In (n, v) (listing s) <->
     exists k m, n = 1 + N.of_nat k /\ nth_error (s_retain s) k = Some true /\
                 nth_error (s_msgs s) k = Some m /\ v = p_size m) /\
  (forall n id, In (n, id) (uid_listing s) <->
     exists k m, n = 1 + N.of_nat k /\ nth_error (s_retain s) k = Some true /\
                 nth_error (s_msgs s) k = Some m /\ id = p_id m).
Proof. exact Proofs.Pop3.stat_list_uidl_agree. Qed.
Print Assumptions stat_list_uidl_agree.

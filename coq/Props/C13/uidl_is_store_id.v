From IV Require Import Base.Bytes Model.Pop3Wire Model.Pop3 Proofs.Pop3.
Theorem uidl_is_store_id : forall fl w e evs,
  s_state (w_sess w) = Auth ->
  s_state (w_sess (wstep fl w e)) = Trans ->
  s_state (w_sess (run fl (wstep fl w e) evs)) = Trans ->
  s_msgs (w_sess (run fl (wstep fl w e) evs)) =
  map snap_of (mmsgs (get_box (w_store w) (s_user (w_sess (run fl (wstep fl w e) evs))))).
Proof. exact Proofs.Pop3.snapshot_is_login_store. Qed.
Print Assumptions uidl_is_store_id.

From IV Require Import Base.Bytes Model.Pop3Wire Model.Pop3 Proofs.Pop3.
Theorem rset_unmarks_all : forall fl st s args,
  s_state s = Trans ->
  exists s',
    step fl st s (CCmd RSET args) = (s', r_plus, st) /\
    s_state s' = Trans /\ s_msgs s' = s_msgs s /\ s_user s' = s_user s /\
    s_retain s' = map (fun _ => true) (s_msgs s) /\
    s_count s' = Z.of_nat (length (s_msgs s)) /\
    listing s' = numbered p_size 1 (s_msgs s) /\
    uid_listing s' = numbered p_id 1 (s_msgs s).
Proof. exact Proofs.Pop3.rset_unmarks_all. Qed.
Print Assumptions rset_unmarks_all.

From IV Require Import Base.Bytes Model.Pop3Wire Model.Pop3 Proofs.Pop3.
Theorem total_no_panic : forall fl st0 evs r,
  In r (w_out (run fl (init_world st0) evs)) -> is_panic r = false.
Proof. exact Proofs.Pop3.total_no_panic. Qed.
Print Assumptions total_no_panic.

From IV Require Import Base.Bytes Model.Pop3Wire Model.Pop3 Proofs.Pop3 Proofs.Pop3More.
Theorem dele_hides_one : forall fl st s a i,
  s_state s = Trans -> inv s -> msg_index s a = Some i -> nth_error (s_retain s) i = Some true ->
  exists s',
    step fl st s (CCmd DELE [a]) = (s', mk true [num_of i], st) /\
    s_msgs s' = s_msgs s /\ s_state s' = Trans /\ s_count s' = (s_count s - 1)%Z /\
    forall n v, In (n, v) (listing s') <-> (In (n, v) (listing s) /\ n <> 1 + N.of_nat i).
Proof. exact Proofs.Pop3More.dele_hides_one. Qed.
Print Assumptions dele_hides_one.

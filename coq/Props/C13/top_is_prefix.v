(** C13 — top_is_prefix: TOP n always shows a prefix of the message lines *)
From Coq Require Import ZifyN ZifyNat ZifyBool.
From IV Require Import Base.Bytes Base.BytesFacts Model.Pop3Wire.
From IV Require Import Proofs.Pop3Wire.
Theorem top_is_prefix : forall ls n, exists more, ls = top_spec ls n ++ more.
Proof. first [exact Pop3Wire.top_is_prefix | intros; apply Pop3Wire.top_is_prefix]. Qed.
Print Assumptions top_is_prefix.

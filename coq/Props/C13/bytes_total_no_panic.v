From IV Require Import Base.Bytes Model.Pop3Wire Model.Pop3 Proofs.Pop3 Proofs.Pop3Bytes.
Theorem bytes_total_no_panic : forall fl st bes r,
  In r (w_out (run_bytes fl st bes)) -> is_panic r = false.
Proof. exact Proofs.Pop3Bytes.bytes_total_no_panic. Qed.
Print Assumptions bytes_total_no_panic.

(** C13 — pop3_norm_piece_with_cr: a piece already ending in CR is unchanged (CR CR LF keeps both CRs) *)
From Coq Require Import ZifyN ZifyNat ZifyBool.
From IV Require Import Base.Bytes Base.BytesFacts Model.Pop3Wire.
From IV Require Import Proofs.Pop3Wire.
Theorem pop3_norm_piece_with_cr : forall l, trim_cr (l ++ [CR]) ++ [CR] = l ++ [CR].
Proof. first [exact Pop3Wire.pop3_norm_piece_with_cr | intros; apply Pop3Wire.pop3_norm_piece_with_cr]. Qed.
Print Assumptions pop3_norm_piece_with_cr.

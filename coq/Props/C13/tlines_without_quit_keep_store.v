(** C13 — tlines_without_quit_keep_store *)
From Coq Require Import ZifyN ZifyNat ZifyBool.
From IV Require Import Base.Bytes Base.BytesFacts Model.Pop3Wire Model.Pop3 Model.Pop3Tls Proofs.Pop3Wire Proofs.Pop3 Proofs.Pop3Bytes.
From IV Require Import Proofs.Pop3Tls.
Theorem tlines_without_quit_keep_store : forall tc fl ls tw hs,
  (forall l, In l ls -> is_quit (parse_line l) = false) ->
  w_store (t_w (fst (tlines tc fl tw ls hs))) = w_store (t_w tw).
Proof. first [exact Pop3Tls.tlines_without_quit_keep_store | intros; apply Pop3Tls.tlines_without_quit_keep_store]. Qed.
Print Assumptions tlines_without_quit_keep_store.

From IV Require Import Base.Bytes Model.Pop3Wire Model.Pop3 Proofs.Pop3.
Theorem snapshot_stable : forall fl evs w,
  s_state (w_sess w) = Trans ->
  s_state (w_sess (run fl w evs)) = Trans ->
  s_msgs (w_sess (run fl w evs)) = s_msgs (w_sess w) /\
  s_user (w_sess (run fl w evs)) = s_user (w_sess w).
Proof. exact Proofs.Pop3.snapshot_stable. Qed.
Print Assumptions snapshot_stable.

(** C13 — stls_conditions_pinned: the three conditions governing STLS as source text *)
From IV Require Import Base.Bytes Base.BytesFacts Model.Pop3Wire Model.Pop3 Gen.Pop3Consts.
From IV Require Import Proofs.Pop3Table.
Theorem stls_conditions_pinned :
  pop3_capa_stls_cond = capa_stls_cond_src /\
  pop3_stls_unavailable_cond = stls_unavailable_cond_src /\
  pop3_stls_already_cond = stls_already_cond_src.
Proof. first [exact Pop3Table.stls_conditions_pinned | intros; apply Pop3Table.stls_conditions_pinned]. Qed.
Print Assumptions stls_conditions_pinned.

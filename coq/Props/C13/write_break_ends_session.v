From IV Require Import Base.Bytes Model.Pop3Wire Model.Pop3 Proofs.Pop3 Proofs.Pop3More.
Theorem write_break_ends_session : forall fl w c,
  is_open w = true -> w_wfail w = true ->
  s_state (w_sess (do_cmd fl w c)) = Closed /\ w_out (do_cmd fl w c) = w_out w.
Proof. exact Proofs.Pop3More.write_break_ends_session. Qed.
Print Assumptions write_break_ends_session.

From IV Require Import Base.Bytes Model.Pop3Wire Model.Pop3 Proofs.Pop3 Proofs.Pop3Bytes.
Theorem stream_without_quit_keeps_store : forall fl st w,
  (forall l, In l (read_lines w) -> is_quit (parse_line l) = false) ->
  w_store (run_stream fl st w) = st.
Proof. exact Proofs.Pop3Bytes.stream_without_quit_keeps_store. Qed.
Print Assumptions stream_without_quit_keeps_store.

From IV Require Import Base.Bytes Model.StoreSpec Model.StoreSpecImpl Model.MemStore Model.FileStore Model.Pop3Wire Model.Pop3 Model.Pop3Store Proofs.Pop3 Proofs.Pop3Store Proofs.Pop3StoreCor.
Theorem storespec_quit_listing : forall content cfg ss w name,
  CInv ss -> w_store w = abs content ss -> winv w ->
  s_state (w_sess w) = Trans ->
  let ss' := final_spec cfg ss (quit_ops (s_user (w_sess w)) (s_msgs (w_sess w)) (s_retain (w_sess w))) in
  map (smsg_of content) (box name (live ss')) =
  if str_eqb (s_user (w_sess w)) name
  then filter (fun m => negb (marked_msg (w_sess w) m)) (map (smsg_of content) (box name (live ss)))
  else map (smsg_of content) (box name (live ss)).
Proof. exact Proofs.Pop3StoreCor.storespec_quit_listing. Qed.
Print Assumptions storespec_quit_listing.

From IV Require Import Base.Bytes Model.Pop3Wire Proofs.Pop3Wire.
Theorem pop3_roundtrip_crlf : forall ls, (forall l, In l ls -> ~ In LF l) -> pop3_client_decode (pop3_send (crlf_join ls)) = Some (crlf_join ls).
Proof. exact Proofs.Pop3Wire.pop3_roundtrip_crlf. Qed.
Print Assumptions pop3_roundtrip_crlf.

From IV Require Import Base.Bytes Model.Pop3Wire Model.Pop3 Proofs.Pop3 Proofs.Pop3Bytes.
Theorem stream_store_only_quit : forall fl st w,
  (forall pre e post, map ELine (read_lines w) ++ [EEof] = pre ++ e :: post ->
                      commits (run fl (init_world st) pre) e = false) ->
  w_store (run_stream fl st w) = st.
Proof. exact Proofs.Pop3Bytes.stream_store_only_quit. Qed.
Print Assumptions stream_store_only_quit.

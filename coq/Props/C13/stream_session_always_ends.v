From IV Require Import Base.Bytes Model.Pop3Wire Model.Pop3 Proofs.Pop3 Proofs.Pop3Bytes.
Theorem stream_session_always_ends : forall fl st w, s_state (w_sess (run_stream fl st w)) = Closed.
Proof. exact Proofs.Pop3Bytes.stream_session_always_ends. Qed.
Print Assumptions stream_session_always_ends.

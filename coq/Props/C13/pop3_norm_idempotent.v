(** C13 — pop3_norm_idempotent *)
From Coq Require Import ZifyN ZifyNat ZifyBool.
From IV Require Import Base.Bytes Base.BytesFacts Model.Pop3Wire.
From IV Require Import Proofs.Pop3Wire.
Theorem pop3_norm_idempotent : forall src, pop3_norm (pop3_norm src) = pop3_norm src.
Proof. first [exact Pop3Wire.pop3_norm_idempotent | intros; apply Pop3Wire.pop3_norm_idempotent]. Qed.
Print Assumptions pop3_norm_idempotent.

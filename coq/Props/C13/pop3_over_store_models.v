From IV Require Import Base.Bytes Model.StoreSpec Model.StoreSpecImpl Model.MemStore Model.FileStore Model.Pop3Wire Model.Pop3 Model.Pop3Store Proofs.StoreSpecFacts Proofs.FileStoreRefine Proofs.Pop3 Proofs.Pop3Store Proofs.Pop3StoreCor.
Theorem pop3_over_store_models : forall content cfg fl sevs,
  forallb (op_sized content) (ext_ops sevs) = true ->
  let '(ss', ops', w', pevs') := srun content cfg fl StoreSpec.spec_init [] (init_world []) [] sevs in
  w' = run fl (init_world []) pevs' /\
  w_store w' = abs content ss' /\
  ss' = final_spec cfg StoreSpec.spec_init ops' /\
  run_mem cfg ops' = run_spec cfg StoreSpec.spec_init ops' /\
  (forall ticks, c_max cfg = 0%N -> file_fresh cfg (file_init ticks, []) ops' ->
     run_file cfg ticks ops' = run_spec cfg StoreSpec.spec_init ops').
Proof. exact Proofs.Pop3StoreCor.pop3_over_store_models. Qed.
Print Assumptions pop3_over_store_models.

(** C13 — retr_lines_are_lf_norm *)
From Coq Require Import ZifyN ZifyNat ZifyBool.
From IV Require Import Base.Bytes Base.BytesFacts Model.Dot Model.Pop3Wire Proofs.Pop3Wire.
From IV Require Import Proofs.Pop3WireDot.
Theorem retr_lines_are_lf_norm : forall b,
  joined_lf (scan_lines (b ++ [LF])) = lf_norm (b ++ [LFb]).
Proof. first [exact Pop3WireDot.retr_lines_are_lf_norm | intros; apply Pop3WireDot.retr_lines_are_lf_norm]. Qed.
Print Assumptions retr_lines_are_lf_norm.

From IV Require Import Base.Bytes Model.Pop3Wire Model.Pop3 Proofs.Pop3.
Theorem progress : forall fl st0 evs c,
  let w := run fl (init_world st0) evs in
  is_open w = true -> w_wfail w = false ->
  exists r, w_out (do_cmd fl w c) = w_out w ++ [r] /\ is_panic r = false.
Proof. exact Proofs.Pop3.progress. Qed.
Print Assumptions progress.

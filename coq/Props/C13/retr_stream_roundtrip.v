(** C13 — retr_stream_roundtrip: for every stored source the client reads +OK, the dot-stuffed CRLF lines, the terminator, gets the lines of the source and leaves the rest of the stream unread *)
From Coq Require Import ZifyN ZifyNat ZifyBool.
From IV Require Import Base.Bytes Base.BytesFacts Model.Pop3Wire.
From IV Require Import Proofs.Pop3Wire.
Theorem retr_stream_roundtrip : forall text src rest,
  ~ In LF text -> ~ In CR text ->
  client_read_multi (retr_reply text src ++ rest) = Some (ok_prefix ++ text, scan_lines src, rest).
Proof. first [exact Pop3Wire.retr_stream_roundtrip | intros; apply Pop3Wire.retr_stream_roundtrip]. Qed.
Print Assumptions retr_stream_roundtrip.

(** C13 — reply_sites_pinned: the first word of every send(...) of the session code and the number of +OK / -ERR sites per function, from the source *)
From IV Require Import Base.Bytes Base.BytesFacts Model.Pop3Wire Model.Pop3 Gen.Pop3Consts.
From IV Require Import Proofs.Pop3Table.
Theorem reply_sites_pinned :
  reply_sites_ok = true /\
  site_counts pop3_loop_sends = (2, 4, 12)%nat /\
  site_counts pop3_auth_sends = (5, 4, 9)%nat /\
  site_counts pop3_trans_sends = (11, 26, 41)%nat /\
  site_counts pop3_retr_sends = (0, 2, 5)%nat /\
  site_counts pop3_top_sends = (0, 2, 5)%nat /\
  site_counts pop3_ooseq_sends = (0, 1, 1)%nat.
Proof. first [exact Pop3Table.reply_sites_pinned | intros; apply Pop3Table.reply_sites_pinned]. Qed.
Print Assumptions reply_sites_pinned.

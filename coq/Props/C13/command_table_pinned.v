From IV Require Import Base.Bytes Model.Pop3Wire Model.Pop3 Gen.Pop3Consts Proofs.Pop3Table.
Theorem command_table_pinned :
  table_ok = true /\
  (forall st s c args, in_auth_switch c = false -> auth_handler st s c args = (s, r_minus)) /\
  (forall fl st s c args, in_trans_switch c = false -> trans_handler fl st s c args = (s, r_minus, st)).
Proof. exact Proofs.Pop3Table.command_table_pinned. Qed.
Print Assumptions command_table_pinned.

From IV Require Import Base.Bytes Model.StoreSpec Model.StoreSpecImpl Model.MemStore Model.FileStore Model.Pop3Wire Model.Pop3 Model.Pop3Store Proofs.Pop3 Proofs.Pop3Store Proofs.Pop3StoreCor.
Theorem storespec_removemessage : forall content cfg u ms rt st,
  CInv st -> length rt = length ms ->
  process_deletes u ms rt (abs content st) = Some (abs content (final_spec cfg st (quit_ops u ms rt))).
Proof. exact Proofs.Pop3Store.process_deletes_is_quit_ops. Qed.
Print Assumptions storespec_removemessage.

(** C13 — tls_off_is_the_session_model: without TLS configured the layer is exactly the byte-stream session model *)
From Coq Require Import ZifyN ZifyNat ZifyBool.
From IV Require Import Base.Bytes Base.BytesFacts Model.Pop3Wire Model.Pop3 Model.Pop3Tls Proofs.Pop3Wire Proofs.Pop3 Proofs.Pop3Bytes.
From IV Require Import Proofs.Pop3Tls.
Theorem tls_off_is_the_session_model : forall tc fl tes tw,
  t_enabled tc = false ->
  t_w (trun tc fl tw tes) = run fl (t_w tw) (expand (t_pend tw) (map bevent_of tes)) /\
  t_upgrades (trun tc fl tw tes) = t_upgrades tw.
Proof. first [exact Pop3Tls.tls_off_is_the_session_model | intros; apply Pop3Tls.tls_off_is_the_session_model]. Qed.
Print Assumptions tls_off_is_the_session_model.

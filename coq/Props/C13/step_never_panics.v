(** C13 — step_never_panics: no handler panics in a reachable state, also when the write side is broken and the reply is lost *)
From Coq Require Import ZifyN ZifyNat ZifyBool.
From IV Require Import Base.Bytes Base.BytesFacts Model.Pop3Wire Model.Pop3.
From IV Require Import Proofs.Pop3.
Theorem step_never_panics : forall fl st0 evs c,
  let w := run fl (init_world st0) evs in
  is_panic (snd (fst (step fl (w_store w) (w_sess w) c))) = false.
Proof. first [exact Pop3.step_never_panics | intros; apply Pop3.step_never_panics]. Qed.
Print Assumptions step_never_panics.

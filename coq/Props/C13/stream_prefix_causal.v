From IV Require Import Base.Bytes Model.Pop3Wire Model.Pop3 Proofs.Pop3 Proofs.Pop3Bytes.
Theorem stream_prefix_causal : forall fl st a b,
  exists more,
    w_out (run fl (init_world st) (map ELine (read_lines (a ++ b)))) =
    w_out (run fl (init_world st) (map ELine (read_lines a))) ++ more.
Proof. exact Proofs.Pop3Bytes.stream_prefix_causal. Qed.
Print Assumptions stream_prefix_causal.

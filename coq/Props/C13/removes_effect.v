(** C13 — removes_effect: after any list of Removes on one mailbox every named handle finds nothing, nothing new is live, an entry no operation named is still live, other mailboxes are untouched *)
From Coq Require Import List NArith ZArith Lia Bool.
From IV Require Import Base.Bytes Base.BytesFacts Model.StoreSpec Proofs.StoreSpecFacts Proofs.StoreSpecRefine.
From IV Require Model.Rest Proofs.RestConv Model.Pop3 Model.Pop3Store Proofs.Pop3 Proofs.Pop3Store Proofs.Pop3StoreCor.
From IV Require Import Proofs.InterfacesRemoval.
From IV Require Import Proofs.InterfacesRemovalPop3.
Theorem removes_effect cfg u : forall ops ss, removes_on u ops ->
  let ss' := final_spec cfg ss ops in
  (forall k, In (Remove u (Kth k)) ops -> find (is_ent u k) (live ss') = None) /\
  (forall k, find (is_ent u k) (live ss) = None -> find (is_ent u k) (live ss') = None) /\
  (forall x, In x (live ss') -> In x (live ss)) /\
  (forall x, In x (live ss) -> (e_mb x <> u \/ ~ In (Remove u (Kth (e_k x))) ops) -> In x (live ss')) /\
  (forall mb', mb' <> u -> box mb' (live ss') = box mb' (live ss)).
Proof. exact (InterfacesRemovalPop3.removes_effect cfg u). Qed.
Print Assumptions removes_effect.

From IV Require Import Base.Bytes Model.Pop3Wire Model.Pop3 Proofs.Pop3 Proofs.Pop3Bytes.
Theorem stream_never_panics : forall fl st w r, In r (w_out (run_stream fl st w)) -> is_panic r = false.
Proof. exact Proofs.Pop3Bytes.stream_never_panics. Qed.
Print Assumptions stream_never_panics.

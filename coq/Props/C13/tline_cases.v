(** C13 — tline_cases: under the TLS layer every line is a step of the session model or an accepted STLS, which touches neither store nor session *)
From Coq Require Import ZifyN ZifyNat ZifyBool.
From IV Require Import Base.Bytes Base.BytesFacts Model.Pop3Wire Model.Pop3 Model.Pop3Tls Proofs.Pop3Wire Proofs.Pop3 Proofs.Pop3Bytes.
From IV Require Import Proofs.Pop3Tls.
Theorem tline_cases : forall tc fl tw l hs,
  let '(tw', replaced) := tline tc fl tw l hs in
  (accepts tc tw l = false /\ replaced = false /\
   t_w tw' = wstep fl (t_w tw) (ELine l) /\ t_srv tw' = t_srv tw /\ t_upgrades tw' = t_upgrades tw /\
   t_pend tw' = t_pend tw) \/
  (accepts tc tw l = true /\ replaced = true /\
   w_store (t_w tw') = w_store (t_w tw) /\ t_srv tw' = true /\ t_upgrades tw' = S (t_upgrades tw) /\
   t_pend tw' = [] /\
   if hs then w_sess (t_w tw') = w_sess (t_w tw) /\ w_out (t_w tw') = w_out (t_w tw) ++ [r_plus] /\ t_secure tw' = true
   else s_state (w_sess (t_w tw')) = Closed /\ w_out (t_w tw') = w_out (t_w tw) ++ [r_plus; r_minus]).
Proof. first [exact Pop3Tls.tline_cases | intros; apply Pop3Tls.tline_cases]. Qed.
Print Assumptions tline_cases.

From IV Require Import Base.Bytes Model.Pop3Wire Model.Pop3 Proofs.Pop3 Proofs.Pop3Bytes.
Theorem index_guarded : forall s a i,
  msg_index s a = Some i ->
  (exists m, nth_error (s_msgs s) i = Some m) /\
  (inv s -> exists b, nth_error (s_retain s) i = Some b).
Proof. exact Proofs.Pop3Bytes.index_guarded. Qed.
Print Assumptions index_guarded.

(** C13 — retr_delivers_normalised *)
From Coq Require Import ZifyN ZifyNat ZifyBool.
From IV Require Import Base.Bytes Base.BytesFacts Model.Pop3Wire.
From IV Require Import Proofs.Pop3Wire.
Theorem retr_delivers_normalised : forall src,
  pop3_client_decode (pop3_send src) = Some (pop3_norm src) /\
  pop3_client_decode (pop3_send (pop3_norm src)) = Some (pop3_norm src).
Proof. first [exact Pop3Wire.retr_delivers_normalised | intros; apply Pop3Wire.retr_delivers_normalised]. Qed.
Print Assumptions retr_delivers_normalised.

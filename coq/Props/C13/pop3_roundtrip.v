From IV Require Import Base.Bytes Model.Pop3Wire Proofs.Pop3Wire.
Theorem pop3_roundtrip : forall src, pop3_client_decode (pop3_send src) = Some (crlf_join (scan_lines src)).
Proof. exact Proofs.Pop3Wire.pop3_roundtrip. Qed.
Print Assumptions pop3_roundtrip.

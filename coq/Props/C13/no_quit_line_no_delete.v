From IV Require Import Base.Bytes Model.Pop3Wire Model.Pop3 Proofs.Pop3.
Theorem no_quit_line_no_delete : forall fl evs w,
  (forall e, In e evs -> is_quit_event e = false) ->
  w_store (run fl w evs) = fold_left ext_step evs (w_store w).
Proof. exact Proofs.Pop3.no_quit_line_no_delete. Qed.
Print Assumptions no_quit_line_no_delete.

From IV Require Import Base.Bytes Model.Pop3Wire Proofs.Pop3Wire.
Theorem pop3_lines_roundtrip : forall src rest, pop3_client_lines (pop3_send src ++ rest) = Some (scan_lines src, rest).
Proof. exact Proofs.Pop3Wire.pop3_lines_roundtrip. Qed.
Print Assumptions pop3_lines_roundtrip.

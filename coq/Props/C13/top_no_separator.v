(** C13 — top_no_separator: a source without an empty line is all header; TOP n shows all of it for every n *)
From Coq Require Import ZifyN ZifyNat ZifyBool.
From IV Require Import Base.Bytes Base.BytesFacts Model.Pop3Wire.
From IV Require Import Proofs.Pop3Wire.
Theorem top_no_separator : forall ls n, (forall l, In l ls -> l <> []) -> top_spec ls n = ls.
Proof. first [exact Pop3Wire.top_no_separator | intros; apply Pop3Wire.top_no_separator]. Qed.
Print Assumptions top_no_separator.

(** C13 — top_beyond_body: n at least the number of body lines shows the whole message *)
From Coq Require Import ZifyN ZifyNat ZifyBool.
From IV Require Import Base.Bytes Base.BytesFacts Model.Pop3Wire.
From IV Require Import Proofs.Pop3Wire.
Theorem top_beyond_body : forall ls n,
  N.of_nat (length (snd (header_block ls))) <= n -> top_spec ls n = ls.
Proof. first [exact Pop3Wire.top_beyond_body | intros; apply Pop3Wire.top_beyond_body]. Qed.
Print Assumptions top_beyond_body.

(** C13 — pop3_norm_pieces: exactly what is normalised: every LF-separated piece comes back with exactly one CR before its LF, nothing else changes *)
From Coq Require Import ZifyN ZifyNat ZifyBool.
From IV Require Import Base.Bytes Base.BytesFacts Model.Pop3Wire.
From IV Require Import Proofs.Pop3Wire.
Theorem pop3_norm_pieces : forall src,
  lines_lf (pop3_norm src) = map (fun l => trim_cr l ++ [CR]) (lines_lf src).
Proof. first [exact Pop3Wire.pop3_norm_pieces | intros; apply Pop3Wire.pop3_norm_pieces]. Qed.
Print Assumptions pop3_norm_pieces.

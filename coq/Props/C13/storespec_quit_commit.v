From IV Require Import Base.Bytes Model.StoreSpec Model.StoreSpecImpl Model.MemStore Model.FileStore Model.Pop3Wire Model.Pop3 Model.Pop3Store Proofs.Pop3 Proofs.Pop3Store Proofs.Pop3StoreCor.
Theorem storespec_quit_commit : forall content cfg fl ss w args,
  CInv ss -> w_store w = abs content ss -> winv w ->
  s_state (w_sess w) = Trans ->
  let w' := wstep fl w (ECmd (CCmd QUIT args)) in
  s_state (w_sess w') = Closed /\
  w_store w' = abs content (final_spec cfg ss
                 (quit_ops (s_user (w_sess w)) (s_msgs (w_sess w)) (s_retain (w_sess w)))).
Proof. exact Proofs.Pop3StoreCor.storespec_quit_commit. Qed.
Print Assumptions storespec_quit_commit.

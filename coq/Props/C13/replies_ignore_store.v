From IV Require Import Base.Bytes Model.Pop3Wire Model.Pop3 Proofs.Pop3 Proofs.Pop3More.
Theorem replies_ignore_store : forall fl st1 st2 s c args,
  c <> RETR -> c <> TOP -> c <> QUIT ->
  fst (trans_handler fl st1 s c args) = fst (trans_handler fl st2 s c args).
Proof. exact Proofs.Pop3More.replies_ignore_store. Qed.
Print Assumptions replies_ignore_store.

(** C13 — failed_handshake: +OK then -ERR, session over, nothing committed, server marked as upgraded all the same *)
From Coq Require Import ZifyN ZifyNat ZifyBool.
From IV Require Import Base.Bytes Base.BytesFacts Model.Pop3Wire Model.Pop3 Model.Pop3Tls Proofs.Pop3Wire Proofs.Pop3 Proofs.Pop3Bytes.
From IV Require Import Proofs.Pop3Tls.
Theorem failed_handshake : forall tc fl tw l,
  accepts tc tw l = true ->
  let tw' := fst (tline tc fl tw l false) in
  w_store (t_w tw') = w_store (t_w tw) /\ s_state (w_sess (t_w tw')) = Closed /\
  w_out (t_w tw') = w_out (t_w tw) ++ [r_plus; r_minus] /\ t_srv tw' = true /\ t_secure tw' = false.
Proof. first [exact Pop3Tls.failed_handshake | intros; apply Pop3Tls.failed_handshake]. Qed.
Print Assumptions failed_handshake.

From IV Require Import Base.Bytes Model.Pop3Wire Model.Pop3 Proofs.Pop3 Proofs.Pop3More.
Theorem retr_is_login_source : forall fl w e evs a i sm,
  s_state (w_sess w) = Auth ->
  s_state (w_sess (wstep fl w e)) = Trans ->
  let w2 := run fl (wstep fl w e) evs in
  s_state (w_sess w2) = Trans ->
  msg_index (w_sess w2) a = Some i ->
  nth_error (mmsgs (get_box (w_store w) (s_user (w_sess w2)))) i = Some sm ->
  fl = Mem \/ has_msg (w_store w2) (s_user (w_sess w2)) (sid sm) = true ->
  exists r, step fl (w_store w2) (w_sess w2) (CCmd RETR [a]) = (w_sess w2, r, w_store w2) /\
            r_ok r = true /\ r_nums r = [Z.of_N (lenN (ssrc sm))] /\
            r_body r = BWire (pop3_send (ssrc sm)) /\
            pop3_client_decode (pop3_send (ssrc sm)) = Some (crlf_join (scan_lines (ssrc sm))).
Proof. exact Proofs.Pop3More.retr_is_login_source. Qed.
Print Assumptions retr_is_login_source.

(** C13 — stls_at_most_once: over all connections a server ever sees at most one handshake is started (Server.tlsState is server-level) *)
From Coq Require Import ZifyN ZifyNat ZifyBool.
From IV Require Import Base.Bytes Base.BytesFacts Model.Pop3Wire Model.Pop3 Model.Pop3Tls Proofs.Pop3Wire Proofs.Pop3 Proofs.Pop3Bytes.
From IV Require Import Proofs.Pop3Tls.
Theorem stls_at_most_once : forall tc fl conns st,
  Forall (fun tw => (t_upgrades tw <= 1)%nat) (tsessions tc fl st false O conns).
Proof. first [exact Pop3Tls.stls_at_most_once | intros; apply Pop3Tls.stls_at_most_once]. Qed.
Print Assumptions stls_at_most_once.

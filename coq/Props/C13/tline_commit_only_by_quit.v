(** C13 — tline_commit_only_by_quit *)
From Coq Require Import ZifyN ZifyNat ZifyBool.
From IV Require Import Base.Bytes Base.BytesFacts Model.Pop3Wire Model.Pop3 Model.Pop3Tls Proofs.Pop3Wire Proofs.Pop3 Proofs.Pop3Bytes.
From IV Require Import Proofs.Pop3Tls.
Theorem tline_commit_only_by_quit : forall tc fl tw l hs,
  commits (t_w tw) (ELine l) = false ->
  w_store (t_w (fst (tline tc fl tw l hs))) = w_store (t_w tw).
Proof. first [exact Pop3Tls.tline_commit_only_by_quit | intros; apply Pop3Tls.tline_commit_only_by_quit]. Qed.
Print Assumptions tline_commit_only_by_quit.

From IV Require Import Base.Bytes Model.Pop3Wire Model.Pop3 Proofs.Pop3 Proofs.Pop3Bytes.
Theorem parse_int32_range : forall s z, parse_int32 s = Some z -> (-2147483648 <= z <= 2147483647)%Z.
Proof. exact Proofs.Pop3Bytes.parse_int32_range. Qed.
Print Assumptions parse_int32_range.

From IV Require Import Base.Bytes Model.Pop3Wire Model.Pop3 Proofs.Pop3 Proofs.Pop3Bytes.
Theorem parse_line_canonical : forall name c args,
  In (name, c) name_table -> (forall a, In a args -> clean_arg a) ->
  parse_line (name ++ concat (map (cons 32) args) ++ CRLF) = CCmd c args.
Proof. exact Proofs.Pop3Bytes.parse_line_canonical. Qed.
Print Assumptions parse_line_canonical.

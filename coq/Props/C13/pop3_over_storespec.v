From IV Require Import Base.Bytes Model.StoreSpec Model.StoreSpecImpl Model.MemStore Model.FileStore Model.Pop3Wire Model.Pop3 Model.Pop3Store Proofs.Pop3 Proofs.Pop3Store Proofs.Pop3StoreCor.
Theorem pop3_over_storespec : forall content cfg fl sevs ss ops w pevs,
  CInv ss -> sized content ss -> forallb (op_sized content) (ext_ops sevs) = true ->
  w_store w = abs content ss -> winv w ->
  let '(ss', ops', w', pevs') := srun content cfg fl ss ops w pevs sevs in
  w_store w' = abs content ss' /\ CInv ss' /\ sized content ss' /\ winv w' /\
  (exists more, pevs' = pevs ++ more /\ w' = run fl w more) /\
  (exists mine, ops' = ops ++ mine /\ ss' = final_spec cfg ss mine).
Proof. exact Proofs.Pop3Store.pop3_over_storespec. Qed.
Print Assumptions pop3_over_storespec.

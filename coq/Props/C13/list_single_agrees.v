From IV Require Import Base.Bytes Model.Pop3Wire Model.Pop3 Proofs.Pop3 Proofs.Pop3More.
Theorem list_single_agrees : forall fl st s a,
  s_state s = Trans -> inv s ->
  let '(s', r, st') := step fl st s (CCmd LIST [a]) in
  s' = s /\ st' = st /\ r_body r = BNone /\
  (r_ok r = true ->
     exists n v, r_nums r = [Z.of_N n; Z.of_N v] /\ In (n, v) (listing s)) /\
  (r_ok r = false ->
     forall i, msg_index s a = Some i -> forall v, ~ In (1 + N.of_nat i, v) (listing s)).
Proof. exact Proofs.Pop3More.list_single_agrees. Qed.
Print Assumptions list_single_agrees.

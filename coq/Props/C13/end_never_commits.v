(** C13 — end_never_commits: EOF, idle timeout and read error are never a commit point *)
From Coq Require Import ZifyN ZifyNat ZifyBool.
From IV Require Import Base.Bytes Base.BytesFacts Model.Pop3Wire Model.Pop3 Model.Pop3Net Proofs.Pop3Wire Proofs.Pop3 Proofs.Pop3Bytes.
From IV Require Import Proofs.Pop3Net.
Theorem end_never_commits : forall w e, is_end_event e = true -> commits w e = false.
Proof. first [exact Pop3Net.end_never_commits | intros; apply Pop3Net.end_never_commits]. Qed.
Print Assumptions end_never_commits.

(** C13 — net_without_quit_keeps_store: no QUIT line - however the connection is cut and however it ends - no change *)
From Coq Require Import ZifyN ZifyNat ZifyBool.
From IV Require Import Base.Bytes Base.BytesFacts Model.Pop3Wire Model.Pop3 Model.Pop3Net Proofs.Pop3Wire Proofs.Pop3 Proofs.Pop3Bytes.
From IV Require Import Proofs.Pop3Net.
Theorem net_without_quit_keeps_store : forall fl st chunks f,
  (forall l, In (ELine l) (snd (run_net fl st chunks f)) -> is_quit (parse_line l) = false) ->
  w_store (fst (run_net fl st chunks f)) = st.
Proof. first [exact Pop3Net.net_without_quit_keeps_store | intros; apply Pop3Net.net_without_quit_keeps_store]. Qed.
Print Assumptions net_without_quit_keeps_store.

(** C13 — pop3_norm_only_line_endings: what the client reassembles differs from the source in CR and LF bytes only *)
From Coq Require Import ZifyN ZifyNat ZifyBool.
From IV Require Import Base.Bytes Base.BytesFacts Model.Pop3Wire.
From IV Require Import Proofs.Pop3Wire.
Theorem pop3_norm_only_line_endings : forall src, strip_eol (pop3_norm src) = strip_eol src.
Proof. first [exact Pop3Wire.pop3_norm_only_line_endings | intros; apply Pop3Wire.pop3_norm_only_line_endings]. Qed.
Print Assumptions pop3_norm_only_line_endings.

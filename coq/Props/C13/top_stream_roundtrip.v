(** C13 — top_stream_roundtrip: the same for TOP n, every source and every n *)
From Coq Require Import ZifyN ZifyNat ZifyBool.
From IV Require Import Base.Bytes Base.BytesFacts Model.Pop3Wire.
From IV Require Import Proofs.Pop3Wire.
Theorem top_stream_roundtrip : forall text src n rest,
  ~ In LF text -> ~ In CR text ->
  client_read_multi (top_reply text src n ++ rest) = Some (ok_prefix ++ text, top_spec (scan_lines src) n, rest).
Proof. first [exact Pop3Wire.top_stream_roundtrip | intros; apply Pop3Wire.top_stream_roundtrip]. Qed.
Print Assumptions top_stream_roundtrip.

(** C13 — top_zero: TOP 0 is the header block with its separating empty line *)
From Coq Require Import ZifyN ZifyNat ZifyBool.
From IV Require Import Base.Bytes Base.BytesFacts Model.Pop3Wire.
From IV Require Import Proofs.Pop3Wire.
Theorem top_zero : forall ls, top_spec ls 0 = fst (header_block ls).
Proof. first [exact Pop3Wire.top_zero | intros; apply Pop3Wire.top_zero]. Qed.
Print Assumptions top_zero.

(** C13 — capa_lists_stls_iff_available *)
From Coq Require Import ZifyN ZifyNat ZifyBool.
From IV Require Import Base.Bytes Base.BytesFacts Model.Pop3Wire Model.Pop3 Model.Pop3Tls Proofs.Pop3Wire Proofs.Pop3 Proofs.Pop3Bytes.
From IV Require Import Proofs.Pop3Tls.
Theorem capa_lists_stls_iff_available : forall tc srv,
  capa_lists_stls tc srv = stls_available tc srv.
Proof. first [exact Pop3Tls.capa_lists_stls_iff_available | intros; apply Pop3Tls.capa_lists_stls_iff_available]. Qed.
Print Assumptions capa_lists_stls_iff_available.

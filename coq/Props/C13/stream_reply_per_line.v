From IV Require Import Base.Bytes Model.Pop3Wire Model.Pop3 Proofs.Pop3 Proofs.Pop3Bytes.
Theorem stream_reply_per_line : forall fl st w, (length (w_out (run_stream fl st w)) <= S (count_lf w))%nat.
Proof. exact Proofs.Pop3Bytes.stream_reply_per_line. Qed.
Print Assumptions stream_reply_per_line.

From IV Require Import Base.Bytes Model.Pop3Wire Proofs.Pop3Wire.
Theorem pop3_top_roundtrip : forall src n rest, pop3_client_lines (pop3_send_top src n ++ rest) = Some (top_spec (scan_lines src) n, rest).
Proof. exact Proofs.Pop3Wire.pop3_top_lines_roundtrip. Qed.
Print Assumptions pop3_top_roundtrip.

From IV Require Import Base.Bytes Model.StoreSpec Model.StoreSpecImpl Model.MemStore Model.FileStore Model.Pop3Wire Model.Pop3 Model.Pop3Store Proofs.StoreSpecFacts Proofs.FileStoreRefine Proofs.Pop3 Proofs.Pop3Store Proofs.Pop3StoreCor.
Theorem storespec_snapshot : forall content cfg fl ss w e evs,
  SInv ss -> sized content ss -> w_store w = abs content ss ->
  s_state (w_sess w) = Auth ->
  s_state (w_sess (wstep fl w e)) = Trans ->
  let w2 := run fl (wstep fl w e) evs in
  s_state (w_sess w2) = Trans ->
  exists l, snd (fst (exec_spec cfg ss (Lst (s_user (w_sess w2))))) = OList l /\
            s_msgs (w_sess w2) = map (snap_of_view content) l.
Proof. exact Proofs.Pop3StoreCor.storespec_snapshot. Qed.
Print Assumptions storespec_snapshot.

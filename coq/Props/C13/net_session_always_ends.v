(** C13 — net_session_always_ends: over every scripted connection (chunks, pauses, EOF / silence / read error) the session ends *)
From Coq Require Import ZifyN ZifyNat ZifyBool.
From IV Require Import Base.Bytes Base.BytesFacts Model.Pop3Wire Model.Pop3 Model.Pop3Net Proofs.Pop3Wire Proofs.Pop3 Proofs.Pop3Bytes.
From IV Require Import Proofs.Pop3Net.
Theorem net_session_always_ends fl st chunks f :
  s_state (w_sess (fst (run_net fl st chunks f))) = Closed.
Proof. first [exact Pop3Net.net_session_always_ends | intros; apply Pop3Net.net_session_always_ends]. Qed.
Print Assumptions net_session_always_ends.

(** C13 — stls_refused_once_upgraded *)
From Coq Require Import ZifyN ZifyNat ZifyBool.
From IV Require Import Base.Bytes Base.BytesFacts Model.Pop3Wire Model.Pop3 Model.Pop3Tls Proofs.Pop3Wire Proofs.Pop3 Proofs.Pop3Bytes.
From IV Require Import Proofs.Pop3Tls.
Theorem stls_refused_once_upgraded : forall tc fl tw l hs,
  t_srv tw = true ->
  tline tc fl tw l hs = (fst (tline tc fl tw l hs), false) /\
  t_w (fst (tline tc fl tw l hs)) = wstep fl (t_w tw) (ELine l).
Proof. first [exact Pop3Tls.stls_refused_once_upgraded | intros; apply Pop3Tls.stls_refused_once_upgraded]. Qed.
Print Assumptions stls_refused_once_upgraded.

From IV Require Import Base.Bytes Model.Pop3Wire Model.Pop3 Proofs.Pop3.
Theorem quit_deletes_exactly_marked : forall fl st0 evs args,
  let w := run fl (init_world st0) evs in
  s_state (w_sess w) = Trans ->
  let w' := wstep fl w (ECmd (CCmd QUIT args)) in
  s_state (w_sess w') = Closed /\
  forall name,
    mnext (get_box (w_store w') name) = mnext (get_box (w_store w) name) /\
    mmsgs (get_box (w_store w') name) =
      if str_eqb (s_user (w_sess w)) name
      then filter (fun m => negb (marked_msg (w_sess w) m)) (mmsgs (get_box (w_store w) name))
      else mmsgs (get_box (w_store w) name).
Proof. exact Proofs.Pop3.quit_deletes_exactly_marked. Qed.
Print Assumptions quit_deletes_exactly_marked.

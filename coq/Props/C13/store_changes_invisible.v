From IV Require Import Base.Bytes Model.Pop3Wire Model.Pop3 Proofs.Pop3 Proofs.Pop3More.
Theorem store_changes_invisible : forall fl evs w,
  (forall e, In e evs -> is_external e = true) ->
  w_sess (run fl w evs) = w_sess w /\ w_out (run fl w evs) = w_out w /\ w_wfail (run fl w evs) = w_wfail w.
Proof. exact Proofs.Pop3More.store_changes_invisible. Qed.
Print Assumptions store_changes_invisible.

From IV Require Import Base.Bytes Model.Pop3Wire Model.Pop3 Proofs.Pop3Spec.
Theorem oracle_accepts_model : forall fl st0 evs names,
  let w := run fl (init_world st0) (evs ++ [EEof]) in
  oracle fl st0 evs (w_out w) (map (fun n => (n, dump_box (w_store w) n)) names) = None.
Proof. exact Proofs.Pop3Spec.oracle_accepts_model. Qed.
Print Assumptions oracle_accepts_model.

(** C13 — pipelined_behind_stls_dropped: plaintext pipelined behind an accepted STLS in the same segment is never executed *)
From Coq Require Import ZifyN ZifyNat ZifyBool.
From IV Require Import Base.Bytes Base.BytesFacts Model.Pop3Wire Model.Pop3 Model.Pop3Tls Proofs.Pop3Wire Proofs.Pop3 Proofs.Pop3Bytes.
From IV Require Import Proofs.Pop3Tls.
Theorem pipelined_behind_stls_dropped : forall tc fl tw l rest hs,
  accepts tc tw l = true ->
  tlines tc fl tw (l :: rest) hs = (fst (tline tc fl tw l hs), true).
Proof. first [exact Pop3Tls.pipelined_behind_stls_dropped | intros; apply Pop3Tls.pipelined_behind_stls_dropped]. Qed.
Print Assumptions pipelined_behind_stls_dropped.

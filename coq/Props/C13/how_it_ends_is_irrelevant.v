(** C13 — how_it_ends_is_irrelevant: EOF, silence or error: same store, same session, same write state *)
From Coq Require Import ZifyN ZifyNat ZifyBool.
From IV Require Import Base.Bytes Base.BytesFacts Model.Pop3Wire Model.Pop3 Model.Pop3Net Proofs.Pop3Wire Proofs.Pop3 Proofs.Pop3Bytes.
From IV Require Import Proofs.Pop3Net.
Theorem how_it_ends_is_irrelevant fl st chunks f1 f2 :
  same_but_out (fst (run_net fl st chunks f1)) (fst (run_net fl st chunks f2)).
Proof. first [exact Pop3Net.how_it_ends_is_irrelevant | intros; apply Pop3Net.how_it_ends_is_irrelevant]. Qed.
Print Assumptions how_it_ends_is_irrelevant.

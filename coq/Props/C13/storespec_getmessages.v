From IV Require Import Base.Bytes Model.StoreSpec Model.StoreSpecImpl Model.MemStore Model.FileStore Model.Pop3Wire Model.Pop3 Model.Pop3Store Proofs.StoreSpecFacts Proofs.FileStoreRefine Proofs.Pop3 Proofs.Pop3Store Proofs.Pop3StoreCor.
Theorem storespec_getmessages : forall content cfg st u,
  SInv st -> sized content st ->
  exists l, snd (fst (exec_spec cfg st (Lst u))) = OList l /\
            load (abs content st) u = map (snap_of_view content) l.
Proof. exact Proofs.Pop3Store.load_is_lst. Qed.
Print Assumptions storespec_getmessages.

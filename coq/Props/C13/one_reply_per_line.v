From IV Require Import Base.Bytes Model.Pop3Wire Model.Pop3 Proofs.Pop3 Proofs.Pop3Bytes.
Theorem one_reply_per_line : forall fl st chunks,
  let w := run fl (init_world st) (expand [] (map BBytes chunks)) in
  is_open w = true ->
  length (w_out w) = S (count_lf (concat chunks)).
Proof. exact Proofs.Pop3Bytes.one_reply_per_line. Qed.
Print Assumptions one_reply_per_line.

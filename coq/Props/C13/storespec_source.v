From IV Require Import Base.Bytes Model.StoreSpec Model.StoreSpecImpl Model.MemStore Model.FileStore Model.Pop3Wire Model.Pop3 Model.Pop3Store Proofs.StoreSpecFacts Proofs.FileStoreRefine Proofs.Pop3 Proofs.Pop3Store Proofs.Pop3StoreCor.
Theorem storespec_source : forall content cfg st u k,
  SInv st ->
  has_msg (abs content st) u (id_of_k k) =
  match snd (fst (exec_spec cfg st (Get u (Kth k)))) with OGet (Ok _) => true | _ => false end.
Proof. exact Proofs.Pop3Store.has_msg_is_get. Qed.
Print Assumptions storespec_source.

(** C13 — net_commit_only_by_quit: the store changes only through a QUIT line processed in TRANSACTION *)
From Coq Require Import ZifyN ZifyNat ZifyBool.
From IV Require Import Base.Bytes Base.BytesFacts Model.Pop3Wire Model.Pop3 Model.Pop3Net Proofs.Pop3Wire Proofs.Pop3 Proofs.Pop3Bytes.
From IV Require Import Proofs.Pop3Net.
Theorem net_commit_only_by_quit fl st chunks f :
  let '(w, evs) := run_net fl st chunks f in
  (forall pre l post, evs = pre ++ ELine l :: post -> commits (run fl (init_world st) pre) (ELine l) = false) ->
  w_store w = st.
Proof. first [exact Pop3Net.net_commit_only_by_quit | intros; apply Pop3Net.net_commit_only_by_quit]. Qed.
Print Assumptions net_commit_only_by_quit.

From IV Require Import Base.Bytes Model.Pop3Wire Model.Pop3 Proofs.Pop3 Proofs.Pop3Bytes.
Theorem chunking_irrelevant : forall chunks pend,
  expand pend (map BBytes chunks) = expand pend [BBytes (concat chunks)].
Proof. exact Proofs.Pop3Bytes.chunking_irrelevant. Qed.
Print Assumptions chunking_irrelevant.

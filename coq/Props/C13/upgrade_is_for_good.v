(** C13 — upgrade_is_for_good: once tlsState is set it stays set on every later connection *)
From Coq Require Import ZifyN ZifyNat ZifyBool.
From IV Require Import Base.Bytes Base.BytesFacts Model.Pop3Wire Model.Pop3 Model.Pop3Tls Proofs.Pop3Wire Proofs.Pop3 Proofs.Pop3Bytes.
From IV Require Import Proofs.Pop3Tls.
Theorem upgrade_is_for_good : forall tc fl conns st ups,
  Forall (fun tw => t_srv tw = true) (tsessions tc fl st true ups conns).
Proof. first [exact Pop3Tls.upgrade_is_for_good | intros; apply Pop3Tls.upgrade_is_for_good]. Qed.
Print Assumptions upgrade_is_for_good.

From IV Require Import Base.Bytes Model.StoreSpec Model.StoreSpecImpl Model.MemStore Model.FileStore Model.Pop3Wire Model.Pop3 Model.Pop3Store Proofs.Pop3 Proofs.Pop3Store Proofs.Pop3StoreCor.
Theorem storespec_no_quit_no_remove : forall content cfg fl sevs ss ops w pevs,
  (forall e, In (SSess e) sevs -> is_quit_event e = false) ->
  let '(ss', _, _, _) := srun content cfg fl ss ops w pevs sevs in
  ss' = final_spec cfg ss (ext_ops sevs).
Proof. exact Proofs.Pop3StoreCor.storespec_no_quit_no_remove. Qed.
Print Assumptions storespec_no_quit_no_remove.

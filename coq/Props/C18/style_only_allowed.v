(** C18 — for ALL token lists, sanitizeStyle's output is a concatenation of marker comments and groups [allowed property identifier, value tokens up to and including the first ';']: no declaration whose property is off the allow-list survives *)
From IV Require Import Base.Bytes Model.Sanitize Proofs.SanitizeStyle.
Theorem style_only_allowed : forall toks : list tok, exists ps : list piece, sanitize_style toks = render ps /\ groups_ok false ps = true /\ (forall v, In (PProp v) ps -> allowed v = true).
Proof. exact SanitizeStyle.style_only_allowed. Qed.
Print Assumptions style_only_allowed.

(** C18 — for ALL texts and ALL interval lists whose matches are non-empty and free of CR/LF: TextToHTML's output minus every generated tag is the escaped text with normalised line ends, and every tag in it is br, /a or the anchor opening with a quote-free href *)
From IV Require Import Base.Bytes Model.Sanitize Proofs.SanitizeText.
Theorem text_fully_escaped : forall (t : str) (ivs : list (N * N)),
  matches_plain (escape_std t) ivs = true ->
  strip_tags false (text_to_html t ivs) = normalise_nl (escape_std t)
  /\ forallb gen_tag_ok (tags_of None (text_to_html t ivs)) = true
  /\ text_spec t (text_to_html t ivs) = true.
Proof. exact SanitizeText.text_fully_escaped. Qed.
Print Assumptions text_fully_escaped.

(** C18 — NOT claimed, and false of the code as it is: "every anchor TextToHTML generates has a scheme on the safe list". Witness: the text javascript:alert(1) with the interval Go's regexp reports becomes a clickable anchor with that href, and the text specification accepts it (the property's clause on plain text does not restrict the scheme) *)
From IV Require Import Base.Bytes Model.Sanitize Model.SanitizePolicy Proofs.SanitizeTextScheme.
Theorem text_anchor_scheme_not_claimed : ~ text_anchor_scheme_safe_stmt.
Proof. exact SanitizeTextScheme.text_anchor_scheme_safe_is_false. Qed.
Print Assumptions text_anchor_scheme_not_claimed.

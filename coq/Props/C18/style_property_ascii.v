(** C18 — on an ASCII identifier the allow-list test (which uses Go's Unicode ToLower) is exactly: its ASCII lower-casing is on the list *)
From IV Require Import Base.Bytes Gen.SanitizeConsts Model.Sanitize Proofs.SanitizeStyle.
Theorem style_property_ascii : forall v, is_ascii v = true -> allowed v = mem_str (lower v) allowed_properties.
Proof. exact SanitizeStyle.allowed_ascii. Qed.
Print Assumptions style_property_ascii.

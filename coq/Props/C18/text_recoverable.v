(** C18 — the other direction of the text path: from TextToHTML's output alone the original text (line ends normalised to LF) is recovered by removing the tags and decoding the five entities: nothing of the text is lost, duplicated or reordered *)
From IV Require Import Base.Bytes Gen.SanitizeConsts Model.Sanitize Proofs.SanitizeEscape Proofs.SanitizeText.
Theorem text_recoverable : forall (t : str) (ivs : list (N * N)),
  matches_plain (escape_std t) ivs = true ->
  unescape esc_std (strip_tags false (text_to_html t ivs)) = normalise_nl t.
Proof. exact SanitizeText.text_recoverable. Qed.
Print Assumptions text_recoverable.

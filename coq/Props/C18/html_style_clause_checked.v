(** C18 — the style clause with H-tok in the computable form the oracle evaluates on every case (h_tok_style_check: every style value the policy's tokenizer reports on the rewritten document is a value sanitizeStyle produced for a style attribute of the original): then every style value on a start tag of the final token list consists of allow-listed declaration groups only *)
From IV Require Import Base.Bytes Model.Sanitize Model.SanitizePolicy Proofs.SanitizeStyle Proofs.SanitizePolicy.
Theorem html_style_clause_checked : forall items toks2, h_tok_style_check items toks2 = true ->
  forall n attrs v,
    In (OStart n attrs) (bm_tokens toks2) \/ In (OSelf n attrs) (bm_tokens toks2) ->
    In (s_style, v) attrs ->
    exists ps, v = render ps /\ groups_ok false ps = true /\ (forall p, In (PProp p) ps -> allowed p = true).
Proof. exact SanitizePolicy.html_style_clause_checked. Qed.
Print Assumptions html_style_clause_checked.

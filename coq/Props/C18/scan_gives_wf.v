(** C18 — the names and attribute keys the tag-scanner model hands out (lower-cased, as TagName / TagAttr do) have the shape the round trip rewritten_tag_scans_back requires: the hypotheses of that theorem hold of every tag styleTagFilter can be given *)
From IV Require Import Base.Bytes Model.Sanitize Model.SanitizeTag Proofs.SanitizeTag.
Theorem scan_gives_wf : forall c0 s n attrs sc rest,
  scan_start_tag c0 s = Some (n, attrs, sc, rest) ->
  (exists n', n = lower_b c0 :: n' /\ wf_name_tail n' = true)
  /\ Forall (fun kv => wf_key (fst kv) = true) attrs.
Proof. exact SanitizeTag.scan_gives_wf. Qed.
Print Assumptions scan_gives_wf.

(** C18 — for EVERY token list: a style value the policy writes on a start tag is the value of a style attribute of an input token (the policy never makes up or alters style values) *)
From IV Require Import Base.Bytes Model.Sanitize Model.SanitizePolicy Proofs.SanitizePolicy.
Theorem style_values_pass_through : forall toks n attrs v,
  In (OStart n attrs) (bm_tokens toks) \/ In (OSelf n attrs) (bm_tokens toks) ->
  In (s_style, v) attrs ->
  exists t a, In t toks /\ In a (t_attrs t) /\ a_key a = s_style /\ a_val a = v.
Proof. exact SanitizePolicy.style_values_pass_through. Qed.
Print Assumptions style_values_pass_through.

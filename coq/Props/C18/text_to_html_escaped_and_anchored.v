(** C18 — text path, for EVERY text and EVERY interval list (matches non-empty, no CR/LF): all markup bytes of the input are escaped (invertibly), the output is the escaped text with anchors around exactly the match segments and br at line ends, stripping the tags gives the escaped text back, every tag is one of the three generated forms, every href is attribute-safe. NOT claimed: the scheme of a generated href (see text_anchor_scheme_not_claimed) *)
From IV Require Import Base.Bytes Gen.SanitizeConsts Model.Sanitize Proofs.SanitizeEscape Proofs.SanitizeText.
Theorem text_to_html_escaped_and_anchored : forall (t : str) (ivs : list (N * N)),
  matches_plain (escape_std t) ivs = true ->
  let e := escape_std t in
  let segs := wrap_segs 0 e ivs in
  ((forall c, In c e -> c <> 60 /\ c <> 62 /\ c <> 34 /\ c <> 39) /\ amp_ok esc_std e = true /\ unescape esc_std e = t)
  /\ (text_to_html t ivs = flat_map final_seg segs /\ flat_map seg_raw segs = e)
  /\ (strip_tags false (text_to_html t ivs) = normalise_nl e
      /\ forallb gen_tag_ok (tags_of None (text_to_html t ivs)) = true)
  /\ (forall m, In (SAnchor m) segs -> forall c, In c (href_of m) -> c <> 34 /\ c <> 60 /\ c <> 62 /\ c <> 39).
Proof. exact SanitizeText.text_to_html_escaped_and_anchored. Qed.
Print Assumptions text_to_html_escaped_and_anchored.

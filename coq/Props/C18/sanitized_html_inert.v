(** C18 — HTML path, token level, for EVERY document, EVERY token list and EVERY answer of the attribute pattern matcher: if the supplied net/url results are sound, Policy.Sanitize's output is the blank document itself or the rendering of tokens whose start and self-closing tags are allowed non-forbidden elements with no event-handler attribute and only scheme-checked URL attributes, text and attribute values escaped *)
From IV Require Import Base.Bytes Gen.SanitizeConsts Model.Sanitize Model.SanitizePolicy Proofs.SanitizeEscape Proofs.SanitizePolicy.
Theorem sanitized_html_inert : forall (doc : str) (toks : list htoken),
  forallb tok_sound toks = true ->
  (blank doc = true /\ bm_sanitize doc toks = doc)
  \/ (bm_sanitize doc toks = render_tokens (bm_tokens toks)
      /\ forallb otoken_inert (bm_tokens toks) = true
      /\ (forall d, In (OText d) (bm_tokens toks) ->
            forall c, In c (render_otoken (OText d)) -> c <> 60 /\ c <> 62 /\ c <> 34 /\ c <> 39)
      /\ (forall n attrs k v,
            In (OStart n attrs) (bm_tokens toks) \/ In (OSelf n attrs) (bm_tokens toks) -> In (k, v) attrs ->
            exists v', render_attr (k, v) = [32] ++ k ++ [61; 34] ++ v' ++ [34]
            /\ (forall c, In c v' -> c <> 34 /\ c <> 60 /\ c <> 62 /\ c <> 39 /\ c <> 13)
            /\ unescape esc_x v' = v)).
Proof. exact SanitizePolicy.sanitized_html_inert. Qed.
Print Assumptions sanitized_html_inert.

(** C18 — neither EscapeString lets a markup-significant byte through (stdlib table: TextToHTML; x/net/html table: styleTagFilter, also CR), and escaping is invertible *)
From IV Require Import Base.Bytes Gen.SanitizeConsts Model.Sanitize Proofs.SanitizeEscape.
Theorem escape_no_active_chars :
  (forall t c, In c (escape_std t) -> c <> 60 /\ c <> 62 /\ c <> 34 /\ c <> 39)
  /\ (forall t c, In c (escape esc_x t) -> c <> 60 /\ c <> 62 /\ c <> 34 /\ c <> 39 /\ c <> 13)
  /\ (forall t, unescape esc_std (escape_std t) = t)
  /\ (forall t, unescape esc_x (escape esc_x t) = t).
Proof. exact SanitizeEscape.escape_no_active_chars. Qed.
Print Assumptions escape_no_active_chars.

(** C18 — round trip through the model of the tokenizer's tag scanner: the start tag styleTagFilter writes for (name, attrs, selfclosing), followed by ANY bytes, is scanned back into the name and exactly the attributes it kept, each with the escaped value it wrote, and the scan stops right after the tag *)
From IV Require Import Base.Bytes Model.Sanitize Model.SanitizeTag Proofs.SanitizeTag.
Theorem rewritten_tag_scans_back : forall c0 n attrs sc rest,
  wf_name_tail n = true -> Forall (fun a => wf_key (attr_key a) = true) attrs ->
  scan_tag c0 (tl (tl (filter_item (Tag (c0 :: n) attrs sc))) ++ rest)
  = Some (c0 :: n, flat_map kept_of attrs, rest).
Proof. exact SanitizeTag.rewritten_tag_scans_back. Qed.
Print Assumptions rewritten_tag_scans_back.

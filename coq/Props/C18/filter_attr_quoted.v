(** C18 — styleTagFilter writes every attribute value between double quotes, escaped so that it cannot close them; a style value is sanitizeStyle's output (dropped when empty) *)
From IV Require Import Base.Bytes Gen.SanitizeConsts Model.Sanitize Proofs.SanitizeEscape Proofs.SanitizeStyle Proofs.SanitizeFilter.
Theorem filter_attr_quoted : forall key val toks,
  (filter_attr (Attr key val toks) = [] /\ is_style key = true /\ sanitize_style toks = [])
  \/ exists v',
       filter_attr (Attr key val toks) = [32] ++ key ++ [61; 34] ++ v' ++ [34]
       /\ (forall c, In c v' -> c <> 34 /\ c <> 60 /\ c <> 62 /\ c <> 39 /\ c <> 13)
       /\ unescape esc_x v' = (if is_style key then sanitize_style toks else val)
       /\ (is_style key = true -> exists ps, unescape esc_x v' = render ps /\ groups_ok false ps = true).
Proof. exact SanitizeFilter.filter_attr_quoted. Qed.
Print Assumptions filter_attr_quoted.

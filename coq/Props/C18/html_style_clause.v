(** C18 — the style clause over html_model, composed: under H-tok (every style value the policy's tokenizer reports on the rewritten document is a value sanitizeStyle produced for a style attribute of the original document — an explicit hypothesis about x/net/html), every style value on a start tag of the final token list is a concatenation of allow-listed declaration groups *)
From IV Require Import Base.Bytes Model.Sanitize Model.SanitizePolicy Proofs.SanitizeStyle Proofs.SanitizePolicy.
Theorem html_style_clause : forall items toks2, H_tok_style items toks2 ->
  forall n attrs v,
    In (OStart n attrs) (bm_tokens toks2) \/ In (OSelf n attrs) (bm_tokens toks2) ->
    In (s_style, v) attrs ->
    exists ps, v = render ps /\ groups_ok false ps = true /\ (forall p, In (PProp p) ps -> allowed p = true).
Proof. exact SanitizePolicy.html_style_clause. Qed.
Print Assumptions html_style_clause.

(** C18 — the tables of the real bluemonday policy (regenerated on every run): no attribute it can let through is an event handler; a URL attribute is let through only where validURL is applied to it; no forbidden element is allowed; URLs must parse; unsafe mode is off *)
From IV Require Import Base.Bytes Model.SanitizePolicy Proofs.SanitizePolicy.
Theorem policy_tables_ok : tables_ok = true.
Proof. exact SanitizePolicy.tables_ok_true. Qed.
Print Assumptions policy_tables_ok.

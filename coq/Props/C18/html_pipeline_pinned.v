(** C18 — sanitize.HTML as read from the source on this run is: sanitizeStyleTags on the parameter, then policy.Sanitize on its result, both on every call, the result returned; sanitizeStyleTags runs styleTagFilter unconditionally; the tokenizer is html.NewTokenizer's, only read (no buffer limit); and the model html_model is that composition *)
From IV Require Import Base.Bytes Model.Sanitize Model.SanitizePolicy Proofs.SanitizePipeline.
Theorem html_pipeline_pinned :
  html_pipeline_ok = true /\ style_tags_pipeline_ok = true /\ tokenizer_ok = true
  /\ (forall items toks2, html_model items toks2 = bm_sanitize (style_tag_filter items) toks2).
Proof. exact SanitizePipeline.html_pipeline_pinned. Qed.
Print Assumptions html_pipeline_pinned.

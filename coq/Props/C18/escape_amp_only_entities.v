(** C18 — in the output of either EscapeString every ampersand is the first byte of one of the generated entities: a raw ampersand never survives *)
From IV Require Import Base.Bytes Gen.SanitizeConsts Model.Sanitize Proofs.SanitizeEscape.
Theorem escape_amp_only_entities :
  (forall t, amp_ok esc_std (escape_std t) = true) /\ (forall t, amp_ok esc_x (escape esc_x t) = true).
Proof. exact SanitizeEscape.escape_amp_only_entities. Qed.
Print Assumptions escape_amp_only_entities.

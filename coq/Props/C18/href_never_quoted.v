(** C18 — for ALL texts and ALL interval lists (no hypothesis): the href TextToHTML generates for any match holds no double quote, apostrophe, less-than or greater-than *)
From IV Require Import Base.Bytes Model.Sanitize Proofs.SanitizeText.
Theorem href_never_quoted : forall t ivs m, In (SAnchor m) (wrap_segs 0 (escape_std t) ivs) ->
  forall c, In c (href_of m) -> c <> 34 /\ c <> 60 /\ c <> 62 /\ c <> 39.
Proof. exact SanitizeText.href_never_quoted. Qed.
Print Assumptions href_never_quoted.

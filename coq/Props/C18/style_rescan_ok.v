(** C18 — the oracle's declaration check (every declaration's first significant token is an allow-listed identifier) holds of the tokens sanitizeStyle keeps, for ALL token lists *)
From IV Require Import Base.Bytes Model.Sanitize Proofs.SanitizeStyle.
Theorem style_rescan_ok : forall toks : list tok, decls_ok true (map piece_tok (style_pieces toks)) = true.
Proof. exact SanitizeStyle.style_rescan_ok. Qed.
Print Assumptions style_rescan_ok.

(** C08 — the cap step of a delivery leaves in the mailbox exactly the newest cap of (previous messages ++ the new one), evicts exactly the older ones, and touches no other mailbox *)
From IV Require Import Base.Bytes Model.StoreSpec Proofs.StoreSpecFacts Proofs.StoreSpecLimits.
Theorem cap_keeps_newest : forall cfg st mb m,
  let sb := box mb (live st) ++ [{| e_mb := mb; e_k := count_of mb (counts st); e_msg := m |}] in
  let '(d1, l2) := add_cap cfg mb (add_l1 st mb m) in
  (c_cap cfg <> 0%nat -> box mb l2 = skipn (length sb - c_cap cfg) sb /\ d1 = firstn (length sb - c_cap cfg) sb) /\
  (forall mb', mb' <> mb -> box mb' l2 = box mb' (live st)).
Proof. exact StoreSpecLimits.cap_keeps_newest. Qed.
Print Assumptions cap_keeps_newest.

(** C08 — the file store re-opened on the same path with ANOTHER cap between the segments of a history (n -> smaller n, 0 -> n, n -> 0 -> n): segment by segment and operation by operation the file-store model answers as the abstract store run with the same caps (ids fresh per segment); with cap_keeps_newest (any state): a mailbox above the new cap keeps its messages until its next delivery, which leaves exactly the newest cap *)
From IV Require Import Base.Bytes Model.StoreSpec Model.StoreSpecImpl Model.FileStore Proofs.FileStoreRefine.
Theorem file_refines_spec_reopened : forall ticks segs,
  file_fresh_segs (file_init ticks, []) segs ->
  run_file_segs (file_init ticks, []) segs = run_spec_segs spec_init segs.
Proof. exact FileStoreRefine.file_refines_spec_reopened. Qed.
Print Assumptions file_refines_spec_reopened.

(** C08 — with a size limit, after every operation of every history the bytes held by the (abstract) store do not exceed the limit *)
From IV Require Import Base.Bytes Model.StoreSpec Proofs.StoreSpecLimits.
Theorem size_bound : forall cfg ops, c_max cfg <> 0%N -> (total (live (final_spec cfg spec_init ops)) <= c_max cfg)%N.
Proof. exact StoreSpecLimits.size_bound. Qed.
Print Assumptions size_bound.

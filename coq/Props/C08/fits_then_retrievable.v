(** C08 — memory-store model, any cap and size limit, any point of any history: a delivered message no larger than the size limit is returned by the GetMessage of the id just issued, exactly as written *)
From IV Require Import Base.Bytes Model.StoreSpec Model.StoreSpecImpl Model.MemStore Proofs.MemStoreLimits.
Theorem fits_then_retrievable : forall cfg ops1 ops2 mb date tag size,
  (c_max cfg = 0 \/ size <= c_max cfg)%N ->
  let m := {| m_date := date; m_tag := tag; m_size := size; m_seen := false |} in
  let k := count_of mb (counts (final_spec cfg spec_init ops1)) in
  nth_error (map fst (run_mem cfg (ops1 ++ Add mb date tag size :: ops2))) (length ops1) = Some (OAdd k (Ok (k, m))).
Proof. exact MemStoreLimits.fits_then_retrievable. Qed.
Print Assumptions fits_then_retrievable.

(** C08 — memory-store model with a size limit: after every history the enforcer's list is exactly the live messages in global arrival order and curSize is exactly their total size (the accounting never drifts) *)
From IV Require Import Base.Bytes Model.StoreSpec Model.StoreSpecImpl Model.MemStore Proofs.MemStoreLoops Proofs.MemStoreRefine.
Theorem accounting_exact : forall cfg ops, c_max cfg <> 0%N ->
  let s := fst (final_mem cfg ops) in let st := final_spec cfg spec_init ops in
  en_all (ms_enf s) = en_rep (live st) /\ en_cur (ms_enf s) = total (live st).
Proof. exact MemStoreRefine.accounting_exact. Qed.
Print Assumptions accounting_exact.

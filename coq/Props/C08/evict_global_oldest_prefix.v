(** C08 — what one delivery evicts for the size limit is a prefix of the store-wide arrival order, the rest fits, and no shorter prefix would make it fit (minimality) *)
From IV Require Import Base.Bytes Model.StoreSpec Proofs.StoreSpecFacts Proofs.StoreSpecLimits.
Theorem evict_global_oldest_prefix : forall cfg l2, c_max cfg <> 0%N ->
  let '(d2, l3) := add_fit cfg l2 in
  l2 = d2 ++ l3 /\ (total l3 <= c_max cfg)%N /\
  (forall d' r', l2 = d' ++ r' -> (total r' <= c_max cfg)%N -> (length d2 <= length d')%nat).
Proof. exact StoreSpecLimits.evict_global_oldest_prefix. Qed.
Print Assumptions evict_global_oldest_prefix.

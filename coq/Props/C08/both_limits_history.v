(** C08 — cap and size limit together, after EVERY history: no mailbox above the cap and the store not above the limit (abstract store), and every listing the memory-store model returns is within the cap *)
From IV Require Import Base.Bytes Model.StoreSpec Model.StoreSpecImpl Model.MemStore Proofs.StoreSpecBoth.
Theorem both_limits_history : forall cfg ops mb, c_cap cfg <> 0%nat -> c_max cfg <> 0%N ->
  ((length (box mb (live (final_spec cfg spec_init ops))) <= c_cap cfg)%nat /\
   (total (live (final_spec cfg spec_init ops)) <= c_max cfg)%N) /\
  (exists l, nth_error (map fst (run_mem cfg (ops ++ [Lst mb]))) (length ops) = Some (OList l) /\ (length l <= c_cap cfg)%nat).
Proof. intros cfg ops mb Hc Hm. split; [apply StoreSpecBoth.both_limits_history; assumption | apply StoreSpecBoth.both_limits_mem; assumption]. Qed.
Print Assumptions both_limits_history.

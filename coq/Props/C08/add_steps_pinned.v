(** C08 — read from the source on this run: the order of the steps of a delivery — memory store: insert and cap loop inside the mailbox lock, then enforcerRemove + deleted event per cap-evicted message, then the registration with the size enforcer (push back, pop front, removeMessage); file store: newMessage (read index, cap loop, id with the hasID retry), body, index; Deliver: before-hook, AddMessage, stored event — the order MemStore.mem_add, FileStore.file_add and StoreSpecImpl.step_impl run *)
From Coq Require Import List NArith String.
From IV Require Import Base.Bytes Gen.StorePins Proofs.StoreSpecPins.
Import ListNotations.
Open Scope string_scope.
Theorem add_steps_pinned :
  names_eqb mem_add_steps [nm "withMailbox"; nm "delete"; nm "enforcerRemove"; nm "emitDeleted"; nm "enforcerDeliver"] = true /\
  names_eqb mem_enforcer_steps [nm "PushBack"; nm "Front"; nm "Remove"; nm "removeMessage"; nm "Remove"] = true /\
  names_eqb file_add_steps [nm "newMessage"; nm "createDir"; nm "Create"; nm "Copy"; nm "writeIndex"] = true /\
  names_eqb file_newmessage_steps [nm "readIndex"; nm "removeMessage"; nm "generateID"; nm "hasID"; nm "generateID"] = true /\
  names_eqb deliver_steps [nm "Emit"; nm "AddMessage"; nm "Emit"] = true.
Proof. exact StoreSpecPins.add_steps_pinned. Qed.
Print Assumptions add_steps_pinned.

(** C08 — both directions of "only what is necessary": a delivery evicts by the cap if and only if the receiving mailbox would otherwise exceed the cap, and by the size limit if and only if the store (after the cap step) would otherwise exceed the limit; a limit that is switched off evicts nothing *)
From IV Require Import Base.Bytes Model.StoreSpec Proofs.StoreSpecFacts Proofs.StoreSpecBoth.
Theorem evicts_iff_necessary : forall cfg st mb m,
  let len := length (box mb (live st)) in
  let '(d1, l2) := add_cap cfg mb (add_l1 st mb m) in
  let '(d2, l3) := add_fit cfg l2 in
  (d1 <> [] <-> c_cap cfg <> 0%nat /\ (c_cap cfg < len + 1)%nat) /\
  (d2 <> [] <-> c_max cfg <> 0%N /\ (c_max cfg < total l2)%N).
Proof. exact StoreSpecBoth.evicts_iff_necessary. Qed.
Print Assumptions evicts_iff_necessary.

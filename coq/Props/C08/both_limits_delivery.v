(** C08 — cap and size limit together, one delivery: the cap evicts exactly the oldest messages of the receiving mailbox and as few as necessary, then the size limit evicts the shortest prefix of the store-wide arrival order that makes the store fit; both bounds hold afterwards; every message is accounted for (cap-evicted, size-evicted or still live) *)
From IV Require Import Base.Bytes Model.StoreSpec Proofs.StoreSpecFacts Proofs.StoreSpecLimits Proofs.EventsCount Proofs.StoreSpecBoth.
Theorem both_limits_delivery : forall cfg st mb m,
  c_cap cfg <> 0%nat -> c_max cfg <> 0%N ->
  (forall mb', (length (box mb' (live st)) <= c_cap cfg)%nat) ->
  let nw := {| e_mb := mb; e_k := count_of mb (counts st); e_msg := m |} in
  let sb := box mb (live st) ++ [nw] in
  let '(d1, l2) := add_cap cfg mb (add_l1 st mb m) in
  let '(d2, l3) := add_fit cfg l2 in
  d1 = firstn (length sb - c_cap cfg) sb /\ box mb l2 = skipn (length sb - c_cap cfg) sb /\
  (forall mb', mb' <> mb -> box mb' l2 = box mb' (live st)) /\
  length (box mb l2) = Nat.min (length sb) (c_cap cfg) /\
  l2 = d2 ++ l3 /\ (total l3 <= c_max cfg)%N /\
  (forall d' r', l2 = d' ++ r' -> (total r' <= c_max cfg)%N -> (length d2 <= length d')%nat) /\
  (forall mb', (length (box mb' l3) <= c_cap cfg)%nat) /\
  (forall kk, (live_count kk (live st) + live_count kk [nw] = live_count kk d1 + live_count kk d2 + live_count kk l3)%nat).
Proof. exact StoreSpecBoth.both_limits_delivery. Qed.
Print Assumptions both_limits_delivery.

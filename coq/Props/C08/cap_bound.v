(** C08 — with a cap, after every operation of every history no mailbox of the (abstract) store holds more messages than the cap *)
From IV Require Import Base.Bytes Model.StoreSpec Proofs.StoreSpecLimits.
Theorem cap_bound : forall cfg ops mb, c_cap cfg <> 0%nat -> (length (box mb (live (final_spec cfg spec_init ops))) <= c_cap cfg)%nat.
Proof. exact StoreSpecLimits.cap_bound. Qed.
Print Assumptions cap_bound.

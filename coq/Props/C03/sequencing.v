(** C03 — sequencing *)
From IV Require Import Base.Bytes Base.BytesFacts Model.Policy Model.Smtp Model.Dot Model.SmtpWire Proofs.SmtpInv.
From Coq Require Import ZifyBool ZifyNat Lia.
From IV Require Import Proofs.SmtpThms.
Theorem sequencing : forall c items, forallb sane_item items = true ->
  seq_ok false false 0 (dialogue (fst (run c init items))) = true.
Proof. exact SmtpThms.sequencing. Qed.
Print Assumptions sequencing.

(** C03 — tls_one_reply_per_item *)
From IV Require Import Base.Bytes Base.BytesFacts Model.Policy Model.Smtp Model.Dot Model.SmtpWire Proofs.SmtpInv Proofs.SmtpThms Proofs.DotCodec Proofs.SmtpCut Proofs.SmtpTls.
From Coq Require Import ZifyBool ZifyNat ZifyN Lia.
From IV Require Import Proofs.SmtpTlsWire.
Theorem tls_one_reply_per_item : forall c o plain secure,
  forallb reply_ok (dialogue (snd (fst (run_bytes_tls c o plain secure)))) = true.
Proof. first [exact SmtpTlsWire.tls_one_reply_per_item | intros; apply SmtpTlsWire.tls_one_reply_per_item]. Qed.
Print Assumptions tls_one_reply_per_item.

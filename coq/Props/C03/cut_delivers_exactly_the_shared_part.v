(** C03 — cut_delivers_exactly_the_shared_part *)
From IV Require Import Base.Bytes Base.BytesFacts Model.Policy Model.Smtp Model.Dot Model.SmtpWire Proofs.SmtpInv Proofs.SmtpThms Proofs.DotCodec Proofs.SmtpCut.
From Coq Require Import ZifyBool ZifyNat ZifyN Lia.
From IV Require Import Proofs.SmtpCutTrace.
Theorem cut_delivers_exactly_the_shared_part : forall c o w k,
  exists pre tl rest,
    snd (fst (run_bytes c o (firstn k w))) = pre ++ tl /\
    snd (fst (run_bytes c o w)) = pre ++ rest /\
    deliveries_of (snd (fst (run_bytes c o (firstn k w)))) = deliveries_of pre /\
    deliveries_of (snd (fst (run_bytes c o w))) = deliveries_of pre ++ deliveries_of rest /\
    (length tl <= 2)%nat.
Proof. first [exact SmtpCutTrace.cut_delivers_exactly_the_shared_part | intros; apply SmtpCutTrace.cut_delivers_exactly_the_shared_part]. Qed.
Print Assumptions cut_delivers_exactly_the_shared_part.

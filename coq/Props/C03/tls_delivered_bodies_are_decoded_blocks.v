(** C03 — for connections that upgrade to TLS (run_bytes_tls: the plaintext part followed by what the client sent under TLS): every delivery's body is the dot-decoding of a DATA block that stands in the bytes the client sent; plaintext dropped at the switch delivers nothing, and nothing is delivered that was not sent *)
From Coq Require Import List NArith ZArith Lia.
From IV Require Import Base.Bytes Base.BytesFacts Model.Policy Model.Smtp Model.Dot Model.SmtpWire Model.StoreSpec.
From IV Require Import Proofs.StoreSpecFacts Proofs.SmtpInv Proofs.SmtpThms Proofs.DotCodec Proofs.SmtpCut Proofs.SmtpCutTrace.
From IV Require Import Proofs.StoreCap Proofs.DeliverStore Proofs.DeliverStoreCap Proofs.InterfacesAgree Proofs.EndToEnd.
From IV Require Model.Rest Model.Pop3 Model.Pop3Store Model.Pop3Wire.
From IV Require Import Proofs.EndToEndTls.
Theorem tls_delivered_bodies_are_decoded_blocks : forall c o plain secure d,
  In d (deliveries_of (snd (fst (run_bytes_tls c o plain secure)))) -> block_in (plain ++ secure) (d_body d).
Proof. first [exact EndToEndTls.tls_delivered_bodies_are_decoded_blocks | intros; apply EndToEndTls.tls_delivered_bodies_are_decoded_blocks]. Qed.
Print Assumptions tls_delivered_bodies_are_decoded_blocks.

(** C03 — tls_stream_without_plaintext *)
From IV Require Import Base.Bytes Base.BytesFacts Model.Policy Model.Smtp Model.Dot Model.SmtpWire Proofs.SmtpInv Proofs.SmtpThms Proofs.DotCodec Proofs.SmtpCut Proofs.SmtpTls.
From Coq Require Import ZifyBool ZifyNat ZifyN Lia.
From IV Require Import Proofs.SmtpTlsWire.
Theorem tls_stream_without_plaintext : forall f c o s w tl,
  (length w <= tl)%nat -> run_stream_tls f c o s w tl = run_stream f c o s w.
Proof. first [exact SmtpTlsWire.tls_stream_without_plaintext | intros; apply SmtpTlsWire.tls_stream_without_plaintext]. Qed.
Print Assumptions tls_stream_without_plaintext.

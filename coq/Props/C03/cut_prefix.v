(** C03 — cut_prefix *)
From IV Require Import Base.Bytes Base.BytesFacts Model.Policy Model.Smtp Model.Dot Model.SmtpWire Proofs.SmtpInv Proofs.SmtpThms Proofs.DotCodec.
From Coq Require Import ZifyBool ZifyNat ZifyN Lia.
From IV Require Import Proofs.SmtpCut.
Theorem cut_prefix : forall c o w k,
  exists rest,
    deliveries_of (snd (fst (run_bytes c o w))) =
    deliveries_of (snd (fst (run_bytes c o (firstn k w)))) ++ rest.
Proof. exact SmtpCut.cut_prefix. Qed.
Print Assumptions cut_prefix.

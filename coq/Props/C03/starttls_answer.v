(** C03 — starttls_answer *)
From IV Require Import Base.Bytes Base.BytesFacts Model.Policy Model.Smtp Proofs.SmtpInv Proofs.SmtpThms.
From Coq Require Import ZifyBool ZifyNat Lia.
From IV Require Import Proofs.SmtpTls.
Theorem starttls_answer : forall c s,
  st s = READY ->
  step c s (L Starttls) =
  if tls_enabled c && negb (tls s)
  then Ok {| st := GREET; from := from s; rcpts := rcpts s; helo := []; tls := true |} (one 220) []
  else Ok s (one 454) [].
Proof. first [exact SmtpTls.starttls_answer | intros; apply SmtpTls.starttls_answer]. Qed.
Print Assumptions starttls_answer.

(** C03 — net_session_always_ends *)
From IV Require Import Base.Bytes Base.BytesFacts Model.Policy Model.Smtp Model.Dot Model.SmtpWire Proofs.SmtpInv Proofs.SmtpThms Proofs.DotCodec Proofs.SmtpCut Proofs.SmtpBytes.
From Coq Require Import ZifyBool ZifyNat ZifyN Lia.
From IV Require Import Proofs.SmtpNet.
Theorem net_session_always_ends : forall c o chunks f,
  st (snd (run_net c o chunks f)) = QUIT.
Proof. first [exact SmtpNet.net_session_always_ends | intros; apply SmtpNet.net_session_always_ends]. Qed.
Print Assumptions net_session_always_ends.

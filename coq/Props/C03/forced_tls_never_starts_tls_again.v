(** C03 — forced_tls_never_starts_tls_again *)
From IV Require Import Base.Bytes Base.BytesFacts Model.Policy Model.Smtp Proofs.SmtpInv Proofs.SmtpThms.
From Coq Require Import ZifyBool ZifyNat Lia.
From IV Require Import Proofs.SmtpTls.
Theorem forced_tls_never_starts_tls_again : forall c items it r d,
  In (it, r, d) (fst (run c init_forced items)) ->
  (it = L Starttls -> first_code r <> 220%Z) /\
  (forall dm, it = L (Ehlo dm) -> first_code r = 250%Z -> length r = 4%nat \/ length r = 1%nat).
Proof. first [exact SmtpTls.forced_tls_never_starts_tls_again | intros; apply SmtpTls.forced_tls_never_starts_tls_again]. Qed.
Print Assumptions forced_tls_never_starts_tls_again.

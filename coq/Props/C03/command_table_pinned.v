(** C03 — command_table_pinned *)
From IV Require Import Base.Bytes Base.Regex Gen.SmtpRegex Model.Policy Model.Smtp Model.SmtpWire.
From IV Require Import Proofs.SmtpTable.
Theorem command_table_pinned : model_command_words = command_table.
Proof. first [exact SmtpTable.command_table_pinned | intros; apply SmtpTable.command_table_pinned]. Qed.
Print Assumptions command_table_pinned.

(** C03 — starttls_switch *)
From IV Require Import Base.Bytes Base.BytesFacts Model.Policy Model.Smtp Model.Dot Model.SmtpWire Proofs.SmtpInv Proofs.SmtpThms Proofs.DotCodec Proofs.SmtpCut Proofs.SmtpTls.
From Coq Require Import ZifyBool ZifyNat ZifyN Lia.
From IV Require Import Proofs.SmtpTlsWire.
Theorem starttls_switch : forall f c o s line junk secure,
  st s = READY -> tls_enabled c = true -> tls s = false ->
  ~ In LFb line -> line <> [] -> classify o (drop_last_cr line) = Starttls ->
  run_stream_tls (S f) c o s (line ++ LFb :: junk ++ secure) (length secure) =
  let s' := {| st := GREET; from := from s; rcpts := rcpts s; helo := []; tls := true |} in
  let '(its, tr, sf) := run_stream_tls f c o s' secure (length secure) in
  (L Starttls :: its, (L Starttls, one 220, []) :: tr, sf).
Proof. first [exact SmtpTlsWire.starttls_switch | intros; apply SmtpTlsWire.starttls_switch]. Qed.
Print Assumptions starttls_switch.

(** C03 — injected_plaintext_is_never_executed *)
From IV Require Import Base.Bytes Base.BytesFacts Model.Policy Model.Smtp Model.Dot Model.SmtpWire Proofs.SmtpInv Proofs.SmtpThms Proofs.DotCodec Proofs.SmtpCut Proofs.SmtpTls.
From Coq Require Import ZifyBool ZifyNat ZifyN Lia.
From IV Require Import Proofs.SmtpTlsWire.
Theorem injected_plaintext_is_never_executed : forall f c o s line junk1 junk2 secure,
  st s = READY -> tls_enabled c = true -> tls s = false ->
  ~ In LFb line -> line <> [] -> classify o (drop_last_cr line) = Starttls ->
  run_stream_tls (S f) c o s (line ++ LFb :: junk1 ++ secure) (length secure) =
  run_stream_tls (S f) c o s (line ++ LFb :: junk2 ++ secure) (length secure).
Proof. first [exact SmtpTlsWire.injected_plaintext_is_never_executed | intros; apply SmtpTlsWire.injected_plaintext_is_never_executed]. Qed.
Print Assumptions injected_plaintext_is_never_executed.

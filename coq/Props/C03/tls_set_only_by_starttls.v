(** C03 — tls_set_only_by_starttls *)
From IV Require Import Base.Bytes Base.BytesFacts Model.Policy Model.Smtp Proofs.SmtpInv Proofs.SmtpThms.
From Coq Require Import ZifyBool ZifyNat Lia.
From IV Require Import Proofs.SmtpTls.
Theorem tls_set_only_by_starttls : forall c s it s' r d,
  step c s it = Ok s' r d -> tls s' <> tls s ->
  it = L Starttls /\ r = one 220 /\ tls s = false /\ tls s' = true /\ tls_enabled c = true /\ st s = READY /\ st s' = GREET.
Proof. first [exact SmtpTls.tls_set_only_by_starttls | intros; apply SmtpTls.tls_set_only_by_starttls]. Qed.
Print Assumptions tls_set_only_by_starttls.

(** C03 — one_reply_per_line *)
From IV Require Import Base.Bytes Base.BytesFacts Model.Policy Model.Smtp Model.Dot Model.SmtpWire Proofs.SmtpInv.
From Coq Require Import ZifyBool ZifyNat Lia.
From IV Require Import Proofs.SmtpThms.
Theorem one_reply_per_line : forall c items s,
  forallb reply_ok (dialogue (fst (run c s items))) = true.
Proof. exact SmtpThms.one_reply_per_line. Qed.
Print Assumptions one_reply_per_line.

(** C03 — total_no_panic *)
From IV Require Import Base.Bytes Base.BytesFacts Model.Policy Model.Smtp Model.Dot Model.SmtpWire Proofs.SmtpInv.
From Coq Require Import ZifyBool ZifyNat Lia.
From IV Require Import Proofs.SmtpThms.
Theorem total_no_panic : forall c items, snd (run c init items) <> EPanic.
Proof. exact SmtpThms.total_no_panic. Qed.
Print Assumptions total_no_panic.

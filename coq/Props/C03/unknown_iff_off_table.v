(** C03 — unknown_iff_off_table *)
From IV Require Import Base.Bytes Base.Regex Gen.SmtpRegex Model.Policy Model.Smtp Model.SmtpWire.
From IV Require Import Proofs.SmtpTable.
Theorem unknown_iff_off_table : forall o cmd arg line,
  parse_cmd line = CCmd cmd arg ->
  (classify o line = Unknown <-> mem_str cmd command_table = false).
Proof. first [exact SmtpTable.unknown_iff_off_table | intros; apply SmtpTable.unknown_iff_off_table]. Qed.
Print Assumptions unknown_iff_off_table.

(** C03 — write_failure_replies_prefix *)
From IV Require Import Base.Bytes Base.BytesFacts Model.Policy Model.Smtp Model.Dot Model.SmtpWire Proofs.SmtpInv Proofs.SmtpThms Proofs.DotCodec Proofs.SmtpCut Proofs.SmtpBytes.
From Coq Require Import ZifyBool ZifyNat ZifyN Lia.
From IV Require Import Proofs.SmtpNet.
Theorem write_failure_replies_prefix : forall c o chunks f wl,
  exists rest,
    replies_of (snd (fst (run_net c o chunks f))) = snd (run_net_w c o chunks f wl) ++ rest.
Proof. first [exact SmtpNet.write_failure_replies_prefix | intros; apply SmtpNet.write_failure_replies_prefix]. Qed.
Print Assumptions write_failure_replies_prefix.

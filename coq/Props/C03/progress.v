(** C03 — progress *)
From IV Require Import Base.Bytes Base.BytesFacts Model.Policy Model.Smtp Model.Dot Model.SmtpWire Proofs.SmtpInv.
From Coq Require Import ZifyBool ZifyNat Lia.
From IV Require Import Proofs.SmtpThms.
Theorem progress : forall c s l, st s <> DATA -> st s <> QUIT ->
  exists s' r d, step c s (L l) = Ok s' r d.
Proof. exact SmtpThms.progress. Qed.
Print Assumptions progress.

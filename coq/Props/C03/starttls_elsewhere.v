(** C03 — starttls_elsewhere *)
From IV Require Import Base.Bytes Base.BytesFacts Model.Policy Model.Smtp Proofs.SmtpInv Proofs.SmtpThms.
From Coq Require Import ZifyBool ZifyNat Lia.
From IV Require Import Proofs.SmtpTls.
Theorem starttls_elsewhere : forall c s s' r d,
  st s <> READY -> step c s (L Starttls) = Ok s' r d -> r <> one 220 /\ tls s' = tls s.
Proof. first [exact SmtpTls.starttls_elsewhere | intros; apply SmtpTls.starttls_elsewhere]. Qed.
Print Assumptions starttls_elsewhere.

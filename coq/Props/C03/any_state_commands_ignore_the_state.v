(** C03 — any_state_commands_ignore_the_state *)
From IV Require Import Base.Bytes Base.BytesFacts Base.Regex Gen.SmtpRegex Gen.SmtpDispatch Model.Policy Model.Smtp Model.SmtpWire Proofs.SmtpInv Proofs.SmtpTable.
From Coq Require Import ZifyBool Lia.
From IV Require Import Proofs.SmtpDispatch.
Theorem any_state_commands_ignore_the_state : forall c s1 s2 l,
  (forall w, In w (words_of l) -> mem_str w model_any = true) -> words_of l <> [] ->
  state_name (st s1) <> None -> state_name (st s2) <> None ->
  match step c s1 (L l), step c s2 (L l) with
  | Ok _ r1 _, Ok _ r2 _ => r1 = r2
  | _, _ => False
  end.
Proof. first [exact SmtpDispatch.any_state_commands_ignore_the_state | intros; apply SmtpDispatch.any_state_commands_ignore_the_state]. Qed.
Print Assumptions any_state_commands_ignore_the_state.

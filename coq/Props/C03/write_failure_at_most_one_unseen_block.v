(** C03 — write_failure_at_most_one_unseen_block *)
From IV Require Import Base.Bytes Base.BytesFacts Model.Policy Model.Smtp Model.Dot Model.SmtpWire Proofs.SmtpInv Proofs.SmtpThms Proofs.SmtpNet.
From Coq Require Import ZifyBool ZifyNat Lia.
From IV Require Import Proofs.SmtpWriteFail.
Theorem write_failure_at_most_one_unseen_block : forall c o chunks f b,
  let '(its, trw, seen) := run_net_w c o chunks f (Some (S b)) in
  exists pre last,
    trw = pre ++ last /\ (length last <= 1)%nat /\
    forall p1 x r d p2, pre = p1 ++ (B x, r, d) :: p2 ->
      firstn (length (replies_of (p1 ++ [(B x, r, d)]))) seen = replies_of (p1 ++ [(B x, r, d)]).
Proof. first [exact SmtpWriteFail.write_failure_at_most_one_unseen_block | intros; apply SmtpWriteFail.write_failure_at_most_one_unseen_block]. Qed.
Print Assumptions write_failure_at_most_one_unseen_block.

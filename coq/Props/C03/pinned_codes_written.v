(** C03 — pinned_codes_written *)
From IV Require Import Base.Bytes Model.Policy Model.Smtp Gen.SmtpReplies Proofs.SmtpInv.
From Coq Require Import ZifyBool Lia.
From IV Require Import Proofs.SmtpReplies.
Theorem pinned_codes_written :
  forallb (fun code => existsb (fun w => writes w code) witnesses) smtp_reply_codes = true.
Proof. first [exact SmtpReplies.pinned_codes_written | intros; apply SmtpReplies.pinned_codes_written]. Qed.
Print Assumptions pinned_codes_written.

(** C03 — tls_never_dropped *)
From IV Require Import Base.Bytes Base.BytesFacts Model.Policy Model.Smtp Proofs.SmtpInv Proofs.SmtpThms.
From Coq Require Import ZifyBool ZifyNat Lia.
From IV Require Import Proofs.SmtpTls.
Theorem tls_never_dropped : forall c s it s' r d,
  step c s it = Ok s' r d -> tls s = true -> tls s' = true.
Proof. first [exact SmtpTls.tls_never_dropped | intros; apply SmtpTls.tls_never_dropped]. Qed.
Print Assumptions tls_never_dropped.

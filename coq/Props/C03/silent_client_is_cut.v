(** C03 — silent_client_is_cut *)
From IV Require Import Base.Bytes Base.BytesFacts Model.Policy Model.Smtp Model.Dot Model.SmtpWire Proofs.SmtpInv Proofs.SmtpThms Proofs.DotCodec Proofs.SmtpCut Proofs.SmtpBytes.
From Coq Require Import ZifyBool ZifyNat ZifyN Lia.
From IV Require Import Proofs.SmtpNet.
Theorem silent_client_is_cut : forall c o w k f,
  exists rest,
    deliveries_of (snd (fst (run_bytes c o w))) =
    deliveries_of (snd (fst (run_net c o [firstn k w] f))) ++ rest.
Proof. first [exact SmtpNet.silent_client_is_cut | intros; apply SmtpNet.silent_client_is_cut]. Qed.
Print Assumptions silent_client_is_cut.

(** C03 — tls_delivery_exact *)
From IV Require Import Base.Bytes Base.BytesFacts Model.Policy Model.Smtp Model.Dot Model.SmtpWire Proofs.SmtpInv Proofs.SmtpThms Proofs.DotCodec Proofs.SmtpCut Proofs.SmtpTls.
From Coq Require Import ZifyBool ZifyNat ZifyN Lia.
From IV Require Import Proofs.SmtpTlsWire.
Theorem tls_delivery_exact : forall c o plain secure,
  forallb sane_item (fst (fst (run_bytes_tls c o plain secure))) = true ->
  let tr := snd (fst (run_bytes_tls c o plain secure)) in
  deliveries_of tr = entitled c None [] [] (dialogue tr).
Proof. first [exact SmtpTlsWire.tls_delivery_exact | intros; apply SmtpTlsWire.tls_delivery_exact]. Qed.
Print Assumptions tls_delivery_exact.

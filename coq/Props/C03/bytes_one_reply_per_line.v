(** C03 — bytes_one_reply_per_line *)
From IV Require Import Base.Bytes Base.BytesFacts Model.Policy Model.Smtp Model.Dot Model.SmtpWire Proofs.SmtpInv Proofs.SmtpThms Proofs.DotCodec Proofs.SmtpCut.
From Coq Require Import ZifyBool ZifyNat ZifyN Lia.
From IV Require Import Proofs.SmtpBytes.
Theorem bytes_one_reply_per_line : forall c o w,
  forallb reply_ok (dialogue (snd (fst (run_bytes c o w)))) = true.
Proof. first [exact SmtpBytes.bytes_one_reply_per_line | intros; apply SmtpBytes.bytes_one_reply_per_line]. Qed.
Print Assumptions bytes_one_reply_per_line.

(** C03 — net_one_reply_per_item *)
From IV Require Import Base.Bytes Base.BytesFacts Model.Policy Model.Smtp Model.Dot Model.SmtpWire Proofs.SmtpInv Proofs.SmtpThms Proofs.DotCodec Proofs.SmtpCut Proofs.SmtpBytes.
From Coq Require Import ZifyBool ZifyNat ZifyN Lia.
From IV Require Import Proofs.SmtpNet.
Theorem net_one_reply_per_item : forall c o chunks f,
  forallb reply_ok (dialogue (snd (fst (run_net c o chunks f)))) = true.
Proof. first [exact SmtpNet.net_one_reply_per_item | intros; apply SmtpNet.net_one_reply_per_item]. Qed.
Print Assumptions net_one_reply_per_item.

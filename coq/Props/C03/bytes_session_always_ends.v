(** C03 — bytes_session_always_ends *)
From IV Require Import Base.Bytes Base.BytesFacts Model.Policy Model.Smtp Model.Dot Model.SmtpWire Proofs.SmtpInv Proofs.SmtpThms Proofs.DotCodec Proofs.SmtpCut.
From Coq Require Import ZifyBool ZifyNat ZifyN Lia.
From IV Require Import Proofs.SmtpBytes.
Theorem bytes_session_always_ends : forall c o w,
  st (snd (run_bytes c o w)) = QUIT.
Proof. first [exact SmtpBytes.bytes_session_always_ends | intros; apply SmtpBytes.bytes_session_always_ends]. Qed.
Print Assumptions bytes_session_always_ends.

(** C03 — delivery_exact_net *)
From IV Require Import Base.Bytes Base.BytesFacts Model.Policy Model.Smtp Model.Dot Model.SmtpWire Proofs.SmtpInv Proofs.SmtpThms Proofs.DotCodec Proofs.SmtpCut Proofs.SmtpBytes.
From Coq Require Import ZifyBool ZifyNat ZifyN Lia.
From IV Require Import Proofs.SmtpNet.
Theorem delivery_exact_net : forall c o chunks f, no_extension o ->
  let tr := snd (fst (run_net c o chunks f)) in
  deliveries_of tr = entitled c None [] [] (dialogue tr).
Proof. first [exact SmtpNet.delivery_exact_net | intros; apply SmtpNet.delivery_exact_net]. Qed.
Print Assumptions delivery_exact_net.

(** C03 — cut_trace_prefix *)
From IV Require Import Base.Bytes Base.BytesFacts Model.Policy Model.Smtp Model.Dot Model.SmtpWire Proofs.SmtpInv Proofs.SmtpThms Proofs.DotCodec Proofs.SmtpCut.
From Coq Require Import ZifyBool ZifyNat ZifyN Lia.
From IV Require Import Proofs.SmtpCutTrace.
Theorem cut_trace_prefix : forall c o w k,
  exists pre tl rest,
    snd (fst (run_bytes c o (firstn k w))) = pre ++ tl /\
    snd (fst (run_bytes c o w)) = pre ++ rest /\
    deliveries_of tl = [] /\ (length tl <= 2)%nat.
Proof. first [exact SmtpCutTrace.cut_trace_prefix | intros; apply SmtpCutTrace.cut_trace_prefix]. Qed.
Print Assumptions cut_trace_prefix.

(** C03 — after_starttls_greeting_is_due *)
From IV Require Import Base.Bytes Base.BytesFacts Model.Policy Model.Smtp Proofs.SmtpInv Proofs.SmtpThms.
From Coq Require Import ZifyBool ZifyNat Lia.
From IV Require Import Proofs.SmtpTls.
Theorem after_starttls_greeting_is_due : forall c s s1 r1 d1 l s2 r2 d2,
  step c s (L Starttls) = Ok s1 r1 d1 -> r1 = one 220 ->
  step c s1 (L l) = Ok s2 r2 d2 ->
  match l with
  | Mail _ _ | Rcpt _ _ | DataC _ | Auth _ | Starttls => first_code r2 = 503%Z /\ s2 = s1
  | _ => True
  end.
Proof. first [exact SmtpTls.after_starttls_greeting_is_due | intros; apply SmtpTls.after_starttls_greeting_is_due]. Qed.
Print Assumptions after_starttls_greeting_is_due.

(** C03 — write_failure_deliveries_split *)
From IV Require Import Base.Bytes Base.BytesFacts Model.Policy Model.Smtp Model.Dot Model.SmtpWire Proofs.SmtpInv Proofs.SmtpThms Proofs.SmtpNet.
From Coq Require Import ZifyBool ZifyNat Lia.
From IV Require Import Proofs.SmtpWriteFail.
Theorem write_failure_deliveries_split : forall c o chunks f b,
  let '(its, trw, seen) := run_net_w c o chunks f (Some (S b)) in
  exists pre last,
    trw = pre ++ last /\ (length last <= 1)%nat /\
    deliveries_of trw = deliveries_of pre ++ deliveries_of last.
Proof. first [exact SmtpWriteFail.write_failure_deliveries_split | intros; apply SmtpWriteFail.write_failure_deliveries_split]. Qed.
Print Assumptions write_failure_deliveries_split.

(** C03 — write_failure_is_cut *)
From IV Require Import Base.Bytes Base.BytesFacts Model.Policy Model.Smtp Model.Dot Model.SmtpWire Proofs.SmtpInv Proofs.SmtpThms Proofs.DotCodec Proofs.SmtpCut Proofs.SmtpBytes.
From Coq Require Import ZifyBool ZifyNat ZifyN Lia.
From IV Require Import Proofs.SmtpNet.
Theorem write_failure_is_cut : forall c o chunks f wl,
  exists rest,
    deliveries_of (snd (fst (run_net c o chunks f))) =
    deliveries_of (snd (fst (run_net_w c o chunks f wl))) ++ rest.
Proof. first [exact SmtpNet.write_failure_is_cut | intros; apply SmtpNet.write_failure_is_cut]. Qed.
Print Assumptions write_failure_is_cut.

(** C03 — dynamic_sites_pinned *)
From IV Require Import Base.Bytes Model.Policy Model.Smtp Gen.SmtpReplies Proofs.SmtpInv.
From Coq Require Import ZifyBool Lia.
From IV Require Import Proofs.SmtpReplies.
Theorem dynamic_sites_pinned : smtp_dynamic_reply_sites = 2%nat.
Proof. first [exact SmtpReplies.dynamic_sites_pinned | intros; apply SmtpReplies.dynamic_sites_pinned]. Qed.
Print Assumptions dynamic_sites_pinned.

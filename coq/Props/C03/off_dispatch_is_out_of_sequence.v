(** C03 — off_dispatch_is_out_of_sequence *)
From IV Require Import Base.Bytes Base.BytesFacts Base.Regex Gen.SmtpRegex Gen.SmtpDispatch Model.Policy Model.Smtp Model.SmtpWire Proofs.SmtpInv Proofs.SmtpTable.
From Coq Require Import ZifyBool Lia.
From IV Require Import Proofs.SmtpDispatch.
Theorem off_dispatch_is_out_of_sequence : forall c s l name,
  state_name (st s) = Some name ->
  words_of l <> [] -> forallb (fun w => negb (handled_in name w)) (words_of l) = true ->
  step c s (L l) = Ok s (one 503) [].
Proof. first [exact SmtpDispatch.off_dispatch_is_out_of_sequence | intros; apply SmtpDispatch.off_dispatch_is_out_of_sequence]. Qed.
Print Assumptions off_dispatch_is_out_of_sequence.

(** C03 — starttls_once *)
From IV Require Import Base.Bytes Base.BytesFacts Model.Policy Model.Smtp Proofs.SmtpInv Proofs.SmtpThms.
From Coq Require Import ZifyBool ZifyNat Lia.
From IV Require Import Proofs.SmtpTls.
Theorem starttls_once : forall c s s' r d,
  tls s = true -> step c s (L Starttls) = Ok s' r d -> first_code r <> 220%Z.
Proof. first [exact SmtpTls.starttls_once | intros; apply SmtpTls.starttls_once]. Qed.
Print Assumptions starttls_once.

(** C03 — net_single_is_bytes *)
From IV Require Import Base.Bytes Base.BytesFacts Model.Policy Model.Smtp Model.Dot Model.SmtpWire Proofs.SmtpInv Proofs.SmtpThms Proofs.DotCodec Proofs.SmtpCut Proofs.SmtpBytes.
From Coq Require Import ZifyBool ZifyNat ZifyN Lia.
From IV Require Import Proofs.SmtpNet.
Theorem net_single_is_bytes : forall c o w, run_net c o [w] FEof = run_bytes c o w.
Proof. first [exact SmtpNet.net_single_is_bytes | intros; apply SmtpNet.net_single_is_bytes]. Qed.
Print Assumptions net_single_is_bytes.

(** C03 — envelope_reset *)
From IV Require Import Base.Bytes Base.BytesFacts Model.Policy Model.Smtp Model.Dot Model.SmtpWire Proofs.SmtpInv.
From Coq Require Import ZifyBool ZifyNat Lia.
From IV Require Import Proofs.SmtpThms.
Theorem envelope_reset : forall c s it s' r d, step c s it = Ok s' r d ->
  (it = L Rset \/ (exists dm, it = L (Ehlo dm) /\ (st s = READY \/ st s = MAIL)) \/
   (exists body hdr hook, it = B (PBlock body hdr hook))) ->
  st s <> LOGIN -> st s <> PASSWORD ->
  rcpts s' = [] /\ from s' = None.
Proof. exact SmtpThms.envelope_reset. Qed.
Print Assumptions envelope_reset.

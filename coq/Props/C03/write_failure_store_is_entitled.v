(** C03 — write_failure_store_is_entitled *)
From IV Require Import Base.Bytes Base.BytesFacts Model.Policy Model.Smtp Model.Dot Model.SmtpWire Proofs.SmtpInv Proofs.SmtpThms Proofs.DotCodec Proofs.SmtpCut Proofs.SmtpBytes.
From Coq Require Import ZifyBool ZifyNat ZifyN Lia.
From IV Require Import Proofs.SmtpNet.
Theorem write_failure_store_is_entitled : forall c o chunks f wl, no_extension o ->
  let tr := snd (fst (run_net_w c o chunks f wl)) in
  deliveries_of tr = entitled c None [] [] (dialogue tr).
Proof. first [exact SmtpNet.write_failure_store_is_entitled | intros; apply SmtpNet.write_failure_store_is_entitled]. Qed.
Print Assumptions write_failure_store_is_entitled.

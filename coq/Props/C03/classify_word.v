(** C03 — classify_word *)
From IV Require Import Base.Bytes Base.BytesFacts Base.Regex Gen.SmtpRegex Gen.SmtpDispatch Model.Policy Model.Smtp Model.SmtpWire Proofs.SmtpInv Proofs.SmtpTable.
From Coq Require Import ZifyBool Lia.
From IV Require Import Proofs.SmtpDispatch.
Theorem classify_word : forall o cmd arg line,
  parse_cmd line = CCmd cmd arg -> mem_str cmd command_table = true ->
  In cmd (words_of (classify o line)).
Proof. first [exact SmtpDispatch.classify_word | intros; apply SmtpDispatch.classify_word]. Qed.
Print Assumptions classify_word.

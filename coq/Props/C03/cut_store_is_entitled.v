(** C03 — cut_store_is_entitled *)
From IV Require Import Base.Bytes Base.BytesFacts Model.Policy Model.Smtp Model.Dot Model.SmtpWire Proofs.SmtpInv Proofs.SmtpThms Proofs.DotCodec.
From Coq Require Import ZifyBool ZifyNat ZifyN Lia.
From IV Require Import Proofs.SmtpCut.
Theorem cut_store_is_entitled : forall c o w k, no_extension o ->
  let tr := snd (fst (run_bytes c o (firstn k w))) in
  deliveries_of tr = entitled c None [] [] (dialogue tr).
Proof. exact SmtpCut.cut_store_is_entitled. Qed.
Print Assumptions cut_store_is_entitled.

(** C03 — progress_data *)
From IV Require Import Base.Bytes Base.BytesFacts Model.Policy Model.Smtp Model.Dot Model.SmtpWire Proofs.SmtpInv.
From Coq Require Import ZifyBool ZifyNat Lia.
From IV Require Import Proofs.SmtpThms.
Theorem progress_data : forall c s p, Inv c s -> st s = DATA -> exists s' r d, step c s (B p) = Ok s' r d.
Proof. exact SmtpThms.progress_data. Qed.
Print Assumptions progress_data.

(** C03 — sequencing_bytes *)
From IV Require Import Base.Bytes Base.BytesFacts Model.Policy Model.Smtp Model.Dot Model.SmtpWire Proofs.SmtpInv.
From Coq Require Import ZifyBool ZifyNat Lia.
From IV Require Import Proofs.SmtpThms.
Theorem sequencing_bytes : forall c o w, no_extension o ->
  seq_ok false false 0 (dialogue (snd (fst (run_bytes c o w)))) = true.
Proof. exact SmtpThms.sequencing_bytes. Qed.
Print Assumptions sequencing_bytes.

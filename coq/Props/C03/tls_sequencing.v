(** C03 — tls_sequencing *)
From IV Require Import Base.Bytes Base.BytesFacts Model.Policy Model.Smtp Model.Dot Model.SmtpWire Proofs.SmtpInv Proofs.SmtpThms Proofs.DotCodec Proofs.SmtpCut Proofs.SmtpTls.
From Coq Require Import ZifyBool ZifyNat ZifyN Lia.
From IV Require Import Proofs.SmtpTlsWire.
Theorem tls_sequencing : forall c o plain secure,
  forallb sane_item (fst (fst (run_bytes_tls c o plain secure))) = true ->
  seq_ok false false 0 (dialogue (snd (fst (run_bytes_tls c o plain secure)))) = true.
Proof. first [exact SmtpTlsWire.tls_sequencing | intros; apply SmtpTlsWire.tls_sequencing]. Qed.
Print Assumptions tls_sequencing.

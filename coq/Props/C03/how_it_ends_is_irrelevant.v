(** C03 — how_it_ends_is_irrelevant *)
From IV Require Import Base.Bytes Base.BytesFacts Model.Policy Model.Smtp Model.Dot Model.SmtpWire Proofs.SmtpInv Proofs.SmtpThms Proofs.DotCodec Proofs.SmtpCut Proofs.SmtpBytes.
From Coq Require Import ZifyBool ZifyNat ZifyN Lia.
From IV Require Import Proofs.SmtpNet.
Theorem how_it_ends_is_irrelevant : forall c o chunks f1 f2,
  deliveries_of (snd (fst (run_net c o chunks f1))) = deliveries_of (snd (fst (run_net c o chunks f2))).
Proof. first [exact SmtpNet.how_it_ends_is_irrelevant | intros; apply SmtpNet.how_it_ends_is_irrelevant]. Qed.
Print Assumptions how_it_ends_is_irrelevant.

(** C03 — step_codes_pinned *)
From IV Require Import Base.Bytes Model.Policy Model.Smtp Gen.SmtpReplies Proofs.SmtpInv.
From Coq Require Import ZifyBool Lia.
From IV Require Import Proofs.SmtpReplies.
Theorem step_codes_pinned : forall c s it s' r d,
  step c s it = Ok s' r d -> hook_code_free it = true ->
  forallb (fun rl => code_pinned (fst rl)) r = true.
Proof. first [exact SmtpReplies.step_codes_pinned | intros; apply SmtpReplies.step_codes_pinned]. Qed.
Print Assumptions step_codes_pinned.

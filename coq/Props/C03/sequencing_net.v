(** C03 — sequencing_net *)
From IV Require Import Base.Bytes Base.BytesFacts Model.Policy Model.Smtp Model.Dot Model.SmtpWire Proofs.SmtpInv Proofs.SmtpThms Proofs.DotCodec Proofs.SmtpCut Proofs.SmtpBytes.
From Coq Require Import ZifyBool ZifyNat ZifyN Lia.
From IV Require Import Proofs.SmtpNet.
Theorem sequencing_net : forall c o chunks f, no_extension o ->
  seq_ok false false 0 (dialogue (snd (fst (run_net c o chunks f)))) = true.
Proof. first [exact SmtpNet.sequencing_net | intros; apply SmtpNet.sequencing_net]. Qed.
Print Assumptions sequencing_net.

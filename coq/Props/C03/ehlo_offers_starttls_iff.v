(** C03 — ehlo_offers_starttls_iff *)
From IV Require Import Base.Bytes Base.BytesFacts Model.Policy Model.Smtp Proofs.SmtpInv Proofs.SmtpThms.
From Coq Require Import ZifyBool ZifyNat Lia.
From IV Require Import Proofs.SmtpTls.
Theorem ehlo_offers_starttls_iff : forall c s,
  length (ehlo_reply c s) = (if tls_enabled c && negb (tls s) then 5 else 4)%nat.
Proof. first [exact SmtpTls.ehlo_offers_starttls_iff | intros; apply SmtpTls.ehlo_offers_starttls_iff]. Qed.
Print Assumptions ehlo_offers_starttls_iff.

(** C03 — dispatch_pinned *)
From IV Require Import Base.Bytes Base.BytesFacts Base.Regex Gen.SmtpRegex Gen.SmtpDispatch Model.Policy Model.Smtp Model.SmtpWire Proofs.SmtpInv Proofs.SmtpTable.
From Coq Require Import ZifyBool Lia.
From IV Require Import Proofs.SmtpDispatch.
Theorem dispatch_pinned : model_any = dispatch_any /\ model_state = dispatch_state.
Proof. first [exact SmtpDispatch.dispatch_pinned | intros; apply SmtpDispatch.dispatch_pinned]. Qed.
Print Assumptions dispatch_pinned.

(** C03 — every_source_code_is_a_model_code *)
From IV Require Import Base.Bytes Model.Policy Model.Smtp Gen.SmtpReplies Proofs.SmtpInv.
From Coq Require Import ZifyBool Lia.
From IV Require Import Proofs.SmtpReplies.
Theorem every_source_code_is_a_model_code : forall code, In code smtp_reply_codes ->
  exists c s it s' r d, step c s it = Ok s' r d /\ hook_code_free it = true /\ In code (map fst r).
Proof. first [exact SmtpReplies.every_source_code_is_a_model_code | intros; apply SmtpReplies.every_source_code_is_a_model_code]. Qed.
Print Assumptions every_source_code_is_a_model_code.

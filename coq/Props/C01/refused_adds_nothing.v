(** C01 — refused_adds_nothing *)
From IV Require Import Base.Bytes Base.BytesFacts Model.Policy Model.Smtp Model.Dot Model.SmtpWire Proofs.SmtpInv.
From Coq Require Import ZifyBool ZifyNat Lia.
From IV Require Import Proofs.SmtpThms.
Theorem refused_adds_nothing : forall c items it r d,
  In (it, r, d) (fst (run c init items)) -> d <> [] ->
  (exists body h hook, it = B (PBlock body (Some h) hook)) /\ r = one 250.
Proof. exact SmtpThms.refused_adds_nothing. Qed.
Print Assumptions refused_adds_nothing.

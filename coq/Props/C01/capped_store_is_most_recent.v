(** C01 — capped_store_is_most_recent *)
From IV Require Import Base.Bytes Model.Policy Model.Smtp.
From Coq Require Import Lia.
From IV Require Import Proofs.StoreCap.
Theorem capped_store_is_most_recent : forall cap ds σ,
  store_after_cap cap (trim cap σ) ds = trim cap (store_after σ ds).
Proof. first [exact StoreCap.capped_store_is_most_recent | intros; apply StoreCap.capped_store_is_most_recent]. Qed.
Print Assumptions capped_store_is_most_recent.

(** C01 — delivery_exact *)
From IV Require Import Base.Bytes Base.BytesFacts Model.Policy Model.Smtp Model.Dot Model.SmtpWire Proofs.SmtpInv.
From Coq Require Import ZifyBool ZifyNat Lia.
From IV Require Import Proofs.SmtpThms.
Theorem delivery_exact : forall c items,
  forallb sane_item items = true ->
  deliveries_of (fst (run c init items)) = entitled c None [] [] (dialogue (fst (run c init items))).
Proof. exact SmtpThms.delivery_exact. Qed.
Print Assumptions delivery_exact.

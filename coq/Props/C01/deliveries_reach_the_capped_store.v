(** C01 — with a mailbox cap: the deliveries of a dialogue, performed as AddMessage calls on the abstract store of C07/C08 with c_cap = cap, leave in every mailbox exactly what the session model's capped store holds there *)
From IV Require Import Base.Bytes Base.BytesFacts Model.Policy Model.Smtp Model.StoreSpec Model.MemStore Model.FileStore.
From IV Require Import Proofs.StoreSpecFacts Proofs.SmtpInv Proofs.SmtpThms Proofs.StoreCap Proofs.MemStoreRefine Proofs.FileStoreRefine Proofs.DeliverStore.
From IV Require Import Proofs.DeliverStoreCap.
Theorem deliveries_reach_the_capped_store : forall (tag_of : delivery -> N) (date : Z) (cap : nat) ds mb,
  tags (box mb (live (final_spec (cfgc cap) spec_init (map (add_opc tag_of date) ds)))) =
  map tag_of (store_get (store_after_cap cap [] ds) mb).
Proof. exact DeliverStoreCap.deliveries_reach_the_capped_store. Qed.
Print Assumptions deliveries_reach_the_capped_store.

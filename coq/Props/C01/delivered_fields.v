(** C01 — delivered_fields *)
From IV Require Import Base.Bytes Base.BytesFacts Model.Policy Model.Smtp Model.Dot Model.SmtpWire Proofs.SmtpInv.
From Coq Require Import ZifyBool ZifyNat Lia.
From IV Require Import Proofs.SmtpThms.
Theorem delivered_fields : forall c o rs hl body h d,
  In d (deliveries_for c o rs hl body h None) ->
  d_body d = body /\ d_retpath d = o_addr o /\ d_subject d = h_subject h /\
  d_size d = Z.of_nat (length body) /\
  d_from d = match h_from h with Some a => a | None => o_addr o end /\
  d_to d = match h_to h with Some l => l | None => map r_addr rs end.
Proof. exact SmtpThms.delivered_fields. Qed.
Print Assumptions delivered_fields.

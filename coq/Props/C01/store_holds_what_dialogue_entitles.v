(** C01 — for every configuration and every input sequence, the abstract store after the dialogue's deliveries holds in each mailbox exactly what the dialogue alone entitles it to (delivery_exact carried to the store of C07) *)
From IV Require Import Base.Bytes Base.BytesFacts Model.Policy Model.Smtp Model.StoreSpec Model.MemStore Model.FileStore.
From IV Require Import Proofs.StoreSpecFacts Proofs.SmtpInv Proofs.SmtpThms Proofs.MemStoreRefine Proofs.FileStoreRefine.
From IV Require Import Proofs.DeliverStore.
Theorem store_holds_what_dialogue_entitles : forall (tag_of : delivery -> N) (date : Z) c items mb,
  forallb sane_item items = true ->
  let tr := fst (run c init items) in
  tags (box mb (live (final_spec cfg0 spec_init (map (add_op tag_of date) (deliveries_of tr))))) =
  map tag_of (filter (fun d => str_eqb mb (d_mailbox d)) (entitled c None [] [] (dialogue tr))).
Proof. exact DeliverStore.store_holds_what_dialogue_entitles. Qed.
Print Assumptions store_holds_what_dialogue_entitles.

(** C01 — one_per_recipient *)
From IV Require Import Base.Bytes Base.BytesFacts Model.Policy Model.Smtp Model.Dot Model.SmtpWire Proofs.SmtpInv.
From Coq Require Import ZifyBool ZifyNat Lia.
From IV Require Import Proofs.SmtpThms.
Theorem one_per_recipient : forall c o rs hl body h,
  map d_mailbox (deliveries_for c o rs hl body h None) =
  map r_mailbox (filter (fun r => should_store (pol c) (r_domain r)) rs).
Proof. exact SmtpThms.one_per_recipient. Qed.
Print Assumptions one_per_recipient.

(** C01 — no_other_mailbox_changes *)
From IV Require Import Base.Bytes Base.BytesFacts Model.Policy Model.Smtp Model.Dot Model.SmtpWire Proofs.SmtpInv.
From Coq Require Import ZifyBool ZifyNat Lia.
From IV Require Import Proofs.SmtpThms.
Theorem no_other_mailbox_changes : forall ds σ n,
  store_get (store_after σ ds) n = store_get σ n ++ filter (fun d => str_eqb n (d_mailbox d)) ds.
Proof. exact SmtpThms.no_other_mailbox_changes. Qed.
Print Assumptions no_other_mailbox_changes.

(** C01 — capped_store_bound *)
From IV Require Import Base.Bytes Model.Policy Model.Smtp.
From Coq Require Import Lia.
From IV Require Import Proofs.StoreCap.
Theorem capped_store_bound : forall cap ds n, cap <> 0%nat ->
  (length (store_get (store_after_cap cap [] ds) n) <= cap)%nat.
Proof. first [exact StoreCap.capped_store_bound | intros; apply StoreCap.capped_store_bound]. Qed.
Print Assumptions capped_store_bound.

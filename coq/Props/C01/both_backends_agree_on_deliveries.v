(** C01 — both back-end models (memory store; file store under C07's freshness hypothesis) answer every AddMessage of the deliveries, and a final listing of any mailbox, exactly as the abstract store does: "both storage back-ends" *)
From IV Require Import Base.Bytes Base.BytesFacts Model.Policy Model.Smtp Model.StoreSpec Model.MemStore Model.FileStore.
From IV Require Import Proofs.StoreSpecFacts Proofs.SmtpInv Proofs.SmtpThms Proofs.MemStoreRefine Proofs.FileStoreRefine.
From IV Require Import Proofs.DeliverStore.
Theorem both_backends_agree_on_deliveries : forall (tag_of : delivery -> N) (date : Z) ds mb ticks,
  file_fresh cfg0 (file_init ticks, []) (map (add_op tag_of date) ds ++ [Lst mb]) ->
  run_mem cfg0 (map (add_op tag_of date) ds ++ [Lst mb]) = run_spec cfg0 spec_init (map (add_op tag_of date) ds ++ [Lst mb]) /\
  run_file cfg0 ticks (map (add_op tag_of date) ds ++ [Lst mb]) = run_spec cfg0 spec_init (map (add_op tag_of date) ds ++ [Lst mb]).
Proof. exact DeliverStore.both_backends_agree_on_deliveries. Qed.
Print Assumptions both_backends_agree_on_deliveries.

(** C01 / C02 (with C07, C13, C14 composed) — a server's whole life: any number of SMTP connections ws, sequential or concurrent; the store sees their deliveries as single AddMessage calls in SOME order (C07 linearises them), so ds is any list each of whose members is a delivery of one of the sessions (every interleaving is one; nothing is assumed about the order). Then every entry e any mailbox mb holds afterwards is a delivery d in ds to exactly mb, made by a session w in ws in whose bytes a DATA block stands that decodes to d's body; the bytes behind e are src d; Store.GetMessage, REST /source and the web UI's /source answer exactly this entry and leave the store unchanged; the POP3 view holds src d at the same position *)
From Coq Require Import List NArith ZArith.
From IV Require Import Base.Bytes Model.Smtp Model.Dot Model.SmtpWire Model.StoreSpec Proofs.DeliverStoreCap.
From IV Require Model.Rest Model.Pop3Wire Model.Pop3 Model.Pop3Store.
From IV Require Import Proofs.EndToEnd.
Import ListNotations.
Theorem any_sessions_to_read_interfaces : forall (tag_of : delivery -> N) (date : Z) (cap : nat) (content : N -> str) (src : delivery -> str)
    (mfa : str -> option str) (srcok : str -> nat -> bool) c o (ws : list str) ds name mb i e num body,
  let st := store_of tag_of date cap ds in
  (forall d, In d ds -> exists w, In w ws /\ In d (deliveries_of (snd (fst (run_bytes c o w))))) ->
  (forall d, In d ds -> content (tag_of d) = src d) ->
  mfa name = Some mb -> nth_error (box mb (live st)) i = Some e -> srcok mb (e_k e) = true ->
  exists d w,
    In w ws /\ In d ds /\ d_mailbox d = mb /\ block_in w (d_body d) /\
    content (m_tag (e_msg e)) = src d /\
    exec_spec (cfgc cap) st (Get mb (Kth (e_k e))) = (st, OGet (StoreSpec.Ok (e_k e, e_msg e)), []) /\
    Rest.run_handler mfa (cfgc cap) srcok st Rest.HSrc name (Rest.id_of_k (e_k e)) num body = (st, (Rest.S200, Rest.PSrc (e_k e, e_msg e))) /\
    Rest.run_handler mfa (cfgc cap) srcok st Rest.USrc name (Rest.id_of_k (e_k e)) num body = (st, (Rest.S200, Rest.PSrc (e_k e, e_msg e))) /\
    nth_error (Pop3.mmsgs (Pop3.get_box (Pop3Store.abs content st) mb)) i =
      Some {| Pop3.sid := Pop3Store.id_of_k (e_k e); Pop3.ssrc := src d |}.
Proof. exact EndToEnd.any_sessions_to_read_interfaces. Qed.
Print Assumptions any_sessions_to_read_interfaces.

(** C01 — the deliveries of a dialogue, performed as AddMessage calls on the abstract store of C07, leave in every mailbox exactly those deliveries that name it, in order ([tag_of] names a message's content as one unit) *)
From IV Require Import Base.Bytes Base.BytesFacts Model.Policy Model.Smtp Model.StoreSpec Model.MemStore Model.FileStore.
From IV Require Import Proofs.StoreSpecFacts Proofs.SmtpInv Proofs.SmtpThms Proofs.MemStoreRefine Proofs.FileStoreRefine.
From IV Require Import Proofs.DeliverStore.
Theorem deliveries_reach_the_store : forall (tag_of : delivery -> N) (date : Z) ds mb,
  tags (box mb (live (final_spec cfg0 spec_init (map (add_op tag_of date) ds)))) =
  map tag_of (store_get (store_after [] ds) mb).
Proof. exact DeliverStore.deliveries_reach_the_store. Qed.
Print Assumptions deliveries_reach_the_store.

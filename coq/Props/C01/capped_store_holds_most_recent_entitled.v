(** C01 — after any dialogue, the abstract store with a mailbox cap holds in every mailbox the [cap] most recent of the messages the dialogue entitles it to (cap 0 = no cap: all of them) *)
From IV Require Import Base.Bytes Base.BytesFacts Model.Policy Model.Smtp Model.StoreSpec Model.MemStore Model.FileStore.
From IV Require Import Proofs.StoreSpecFacts Proofs.SmtpInv Proofs.SmtpThms Proofs.StoreCap Proofs.MemStoreRefine Proofs.FileStoreRefine Proofs.DeliverStore.
From IV Require Import Proofs.DeliverStoreCap.
Theorem capped_store_holds_most_recent_entitled : forall (tag_of : delivery -> N) (date : Z) (cap : nat) c items mb,
  forallb sane_item items = true ->
  let tr := fst (run c init items) in
  tags (box mb (live (final_spec (cfgc cap) spec_init (map (add_opc tag_of date) (deliveries_of tr))))) =
  map tag_of (cap_box cap (filter (fun d => str_eqb mb (d_mailbox d)) (entitled c None [] [] (dialogue tr)))).
Proof. exact DeliverStoreCap.capped_store_holds_most_recent_entitled. Qed.
Print Assumptions capped_store_holds_most_recent_entitled.

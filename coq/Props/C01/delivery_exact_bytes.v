(** C01 — delivery_exact_bytes *)
From IV Require Import Base.Bytes Base.BytesFacts Model.Policy Model.Smtp Model.Dot Model.SmtpWire Proofs.SmtpInv.
From Coq Require Import ZifyBool ZifyNat Lia.
From IV Require Import Proofs.SmtpThms.
Theorem delivery_exact_bytes : forall c o w, no_extension o ->
  let tr := snd (fst (run_bytes c o w)) in
  deliveries_of tr = entitled c None [] [] (dialogue tr).
Proof. exact SmtpThms.delivery_exact_bytes. Qed.
Print Assumptions delivery_exact_bytes.

(** C01 — both back-end models, with the cap, return operation by operation (every AddMessage result and a final listing) what the abstract store returns *)
From IV Require Import Base.Bytes Base.BytesFacts Model.Policy Model.Smtp Model.StoreSpec Model.MemStore Model.FileStore.
From IV Require Import Proofs.StoreSpecFacts Proofs.SmtpInv Proofs.SmtpThms Proofs.StoreCap Proofs.MemStoreRefine Proofs.FileStoreRefine Proofs.DeliverStore.
From IV Require Import Proofs.DeliverStoreCap.
Theorem both_backends_agree_on_capped_deliveries : forall (tag_of : delivery -> N) (date : Z) (cap : nat) ds mb ticks,
  file_fresh (cfgc cap) (file_init ticks, []) (map (add_opc tag_of date) ds ++ [Lst mb]) ->
  run_mem (cfgc cap) (map (add_opc tag_of date) ds ++ [Lst mb]) = run_spec (cfgc cap) spec_init (map (add_opc tag_of date) ds ++ [Lst mb]) /\
  run_file (cfgc cap) ticks (map (add_opc tag_of date) ds ++ [Lst mb]) = run_spec (cfgc cap) spec_init (map (add_opc tag_of date) ds ++ [Lst mb]).
Proof. exact DeliverStoreCap.both_backends_agree_on_capped_deliveries. Qed.
Print Assumptions both_backends_agree_on_capped_deliveries.

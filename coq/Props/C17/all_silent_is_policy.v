(** C17 — all_silent_is_policy *)
From IV Require Import Base.Bytes Base.BytesFacts Model.Policy Model.Smtp Model.Hooks Proofs.SmtpInv Proofs.HooksThms.
From Coq Require Import ZifyBool ZifyNat Lia.
From IV Require Import Proofs.HooksCompose.
Theorem all_silent_is_policy : forall (E : Type) (ls : list (E -> option hook_ans)) e,
  (forall l, In l ls -> l e = None) -> session_answer (broker_emit ls e) = NoAns.
Proof. first [exact HooksCompose.all_silent_is_policy | intros; apply HooksCompose.all_silent_is_policy]. Qed.
Print Assumptions all_silent_is_policy.

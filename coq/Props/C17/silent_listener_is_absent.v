(** C17 — silent_listener_is_absent *)
From IV Require Import Base.Bytes Base.BytesFacts Model.Policy Model.Smtp Model.Hooks Proofs.SmtpInv.
From Coq Require Import ZifyBool ZifyNat Lia Permutation.
From IV Require Import Proofs.HooksThms.
Theorem silent_listener_is_absent : forall (E R : Type) (ls1 ls2 : list (E -> option R)) l e,
  l e = None -> broker_emit (ls1 ++ l :: ls2) e = broker_emit (ls1 ++ ls2) e.
Proof. exact HooksThms.silent_listener_is_absent. Qed.
Print Assumptions silent_listener_is_absent.

(** C17 — deny_line_is_the_source_format *)
From IV Require Import Base.Bytes Base.BytesFacts Model.Policy Model.Smtp Model.Hooks Gen.SmtpDeny.
From Coq Require Import ZifyBool ZifyNat ZifyN Lia.
From IV Require Import Proofs.HooksDenyLine.
Theorem deny_line_is_the_source_format : forall code text,
  render_deny fmt_deny (Some code) (Some text) = deny_line code text.
Proof. first [exact HooksDenyLine.deny_line_is_the_source_format | intros; apply HooksDenyLine.deny_line_is_the_source_format]. Qed.
Print Assumptions deny_line_is_the_source_format.

(** C17 — deny_literal_mail *)
From IV Require Import Base.Bytes Base.BytesFacts Model.Policy Model.Smtp Model.Hooks Proofs.SmtpInv.
From Coq Require Import ZifyBool ZifyNat Lia Permutation.
From IV Require Import Proofs.HooksThms.
Theorem deny_literal_mail : forall c s sz o code text,
  st s = READY -> sz <> SzBad ->
  (match sz with SzVal n => (n <= max_bytes c /\ n <= int32_max)%Z | _ => True end) ->
  step c s (L (Mail (MParsed sz (Some o)) (Deny code text))) = Ok s (one code) [].
Proof. first [exact HooksThms.deny_literal_mail | intros; apply HooksThms.deny_literal_mail]. Qed.
Print Assumptions deny_literal_mail.

(** C17 — allow_overrides_policy_rcpt *)
From IV Require Import Base.Bytes Base.BytesFacts Model.Policy Model.Smtp Model.Hooks Proofs.SmtpInv.
From Coq Require Import ZifyBool ZifyNat Lia Permutation.
From IV Require Import Proofs.HooksThms.
Theorem allow_overrides_policy_rcpt : forall c s r,
  st s = MAIL -> (Z.of_nat (length (rcpts s)) < max_rcpt c)%Z ->
  step c s (L (Rcpt (RParsed (Some r)) Allow)) =
  Ok {| st := MAIL; from := from s; rcpts := rcpts s ++ [r]; helo := helo s; tls := tls s |} (one 250) [].
Proof. exact HooksThms.allow_overrides_policy_rcpt. Qed.
Print Assumptions allow_overrides_policy_rcpt.

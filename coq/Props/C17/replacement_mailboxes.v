(** C17 — replacement_mailboxes *)
From IV Require Import Base.Bytes Base.BytesFacts Model.Policy Model.Smtp Model.Hooks Proofs.SmtpInv.
From Coq Require Import ZifyBool ZifyNat Lia Permutation.
From IV Require Import Proofs.HooksThms.
Theorem replacement_mailboxes : forall c o rs hl body h ov,
  map d_mailbox (deliveries_for c o rs hl body h (Some ov)) =
  match ov_mailboxes ov with Some l => l | None => map r_mailbox rs end.
Proof. exact HooksThms.replacement_mailboxes. Qed.
Print Assumptions replacement_mailboxes.

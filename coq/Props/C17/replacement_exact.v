(** C17 — replacement_exact *)
From IV Require Import Base.Bytes Base.BytesFacts Model.Policy Model.Smtp Model.Hooks Proofs.SmtpInv.
From Coq Require Import ZifyBool ZifyNat Lia Permutation.
From IV Require Import Proofs.HooksThms.
Theorem replacement_exact : forall c o rs hl body h mbs f t sj d,
  In d (deliveries_for c o rs hl body h
          (Some {| ov_mailboxes := Some mbs; ov_from := Some f; ov_to := Some t; ov_subject := Some sj |})) ->
  In (d_mailbox d) mbs /\ d_from d = f /\ d_to d = t /\ d_subject d = sj /\ d_body d = body.
Proof. exact HooksThms.replacement_exact. Qed.
Print Assumptions replacement_exact.

(** C17 — deny_literal_rcpt *)
From IV Require Import Base.Bytes Base.BytesFacts Model.Policy Model.Smtp Model.Hooks Proofs.SmtpInv.
From Coq Require Import ZifyBool ZifyNat Lia Permutation.
From IV Require Import Proofs.HooksThms.
Theorem deny_literal_rcpt : forall c s r code text,
  st s = MAIL -> step c s (L (Rcpt (RParsed (Some r)) (Deny code text))) = Ok s (one code) [].
Proof. exact HooksThms.deny_literal_rcpt. Qed.
Print Assumptions deny_literal_rcpt.

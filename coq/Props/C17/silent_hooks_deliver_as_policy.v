(** C17 — silent_hooks_deliver_as_policy *)
From IV Require Import Base.Bytes Base.BytesFacts Model.Policy Model.Smtp Model.Hooks Proofs.SmtpInv.
From Coq Require Import ZifyBool ZifyNat Lia Permutation.
From IV Require Import Proofs.HooksThms.
Theorem silent_hooks_deliver_as_policy : forall c items,
  forallb quiet_item items = true ->
  deliveries_of (fst (run c init items)) = entitled c None [] [] (dialogue (fst (run c init items))).
Proof. exact HooksThms.silent_hooks_deliver_as_policy. Qed.
Print Assumptions silent_hooks_deliver_as_policy.

(** C17 — pool_exclusive *)
From IV Require Import Base.Bytes Base.BytesFacts Model.Policy Model.Smtp Model.Hooks Proofs.SmtpInv.
From Coq Require Import ZifyBool ZifyNat Lia Permutation.
From IV Require Import Proofs.HooksThms.
Theorem pool_exclusive : forall ops, pool_inv (fold_left pool_step ops pool_init).
Proof. exact HooksThms.pool_exclusive. Qed.
Print Assumptions pool_exclusive.

(** C17 — first_replacement_decides *)
From IV Require Import Base.Bytes Base.BytesFacts Model.Policy Model.Smtp Model.Hooks Proofs.SmtpInv Proofs.HooksThms.
From Coq Require Import ZifyBool ZifyNat Lia.
From IV Require Import Proofs.HooksCompose.
Theorem first_replacement_decides : forall (E : Type) c o rs hl body h (ls1 ls2 : list (E -> option overrides)) l e ov,
  (forall l', In l' ls1 -> l' e = None) -> l e = Some ov ->
  deliveries_for c o rs hl body h (broker_emit (ls1 ++ l :: ls2) e) = deliveries_for c o rs hl body h (Some ov).
Proof. first [exact HooksCompose.first_replacement_decides | intros; apply HooksCompose.first_replacement_decides]. Qed.
Print Assumptions first_replacement_decides.

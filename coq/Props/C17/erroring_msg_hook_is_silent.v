(** C17 — erroring_msg_hook_is_silent *)
From IV Require Import Base.Bytes Base.BytesFacts Model.Policy Model.Smtp Model.Hooks Proofs.SmtpInv.
From Coq Require Import ZifyBool ZifyNat Lia Permutation.
From IV Require Import Proofs.HooksThms.
Theorem erroring_msg_hook_is_silent : forall call,
  (forall ov, call <> Returned (LInbound ov)) -> msg_answer call = None.
Proof. exact HooksThms.erroring_msg_hook_is_silent. Qed.
Print Assumptions erroring_msg_hook_is_silent.

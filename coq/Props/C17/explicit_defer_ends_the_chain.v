(** C17 — explicit_defer_ends_the_chain *)
From IV Require Import Base.Bytes Base.BytesFacts Model.Policy Model.Smtp Model.Hooks Proofs.SmtpInv Proofs.HooksThms.
From Coq Require Import ZifyBool ZifyNat Lia.
From IV Require Import Proofs.HooksCompose.
Theorem explicit_defer_ends_the_chain : forall (E : Type) c s p q (ls1 ls2 : list (E -> option hook_ans)) l e,
  (forall l', In l' ls1 -> l' e = None) -> l e = Some Defer ->
  step c s (L (Mail p (session_answer (broker_emit (ls1 ++ l :: ls2) e)))) = step c s (L (Mail p NoAns)) /\
  step c s (L (Rcpt q (session_answer (broker_emit (ls1 ++ l :: ls2) e)))) = step c s (L (Rcpt q NoAns)).
Proof. first [exact HooksCompose.explicit_defer_ends_the_chain | intros; apply HooksCompose.explicit_defer_ends_the_chain]. Qed.
Print Assumptions explicit_defer_ends_the_chain.

(** C17 — deny_line_carries_the_model_code *)
From IV Require Import Base.Bytes Base.BytesFacts Model.Policy Model.Smtp Model.Hooks Gen.SmtpDeny.
From Coq Require Import ZifyBool ZifyNat ZifyN Lia.
From IV Require Import Proofs.HooksDenyLine.
Theorem deny_line_carries_the_model_code : forall code text, (100 <= code <= 999)%Z ->
  line_code (deny_line code text) = Some code /\ first_code (one code) = code.
Proof. first [exact HooksDenyLine.deny_line_carries_the_model_code | intros; apply HooksDenyLine.deny_line_carries_the_model_code]. Qed.
Print Assumptions deny_line_carries_the_model_code.

(** C17 — broken_lua_handler_is_absent *)
From IV Require Import Base.Bytes Base.BytesFacts Model.Policy Model.Smtp Model.Hooks Proofs.SmtpInv Proofs.HooksThms.
From Coq Require Import ZifyBool ZifyNat Lia.
From IV Require Import Proofs.HooksCompose.
Theorem broken_lua_handler_is_absent : forall (E : Type) (call : E -> lua_call) (ls1 ls2 : list (E -> option hook_ans)) e,
  (call e = Raised \/ exists v, call e = Returned v /\ forall a, v <> LResponse a) ->
  broker_emit (ls1 ++ lua_listener call :: ls2) e = broker_emit (ls1 ++ ls2) e.
Proof. first [exact HooksCompose.broken_lua_handler_is_absent | intros; apply HooksCompose.broken_lua_handler_is_absent]. Qed.
Print Assumptions broken_lua_handler_is_absent.

(** C17 — first_allow_decides_rcpt *)
From IV Require Import Base.Bytes Base.BytesFacts Model.Policy Model.Smtp Model.Hooks Proofs.SmtpInv Proofs.HooksThms.
From Coq Require Import ZifyBool ZifyNat Lia.
From IV Require Import Proofs.HooksCompose.
Theorem first_allow_decides_rcpt : forall (E : Type) c s r (ls1 ls2 : list (E -> option hook_ans)) l e,
  st s = MAIL -> (Z.of_nat (length (rcpts s)) < max_rcpt c)%Z ->
  (forall l', In l' ls1 -> l' e = None) -> l e = Some Allow ->
  step c s (L (Rcpt (RParsed (Some r)) (session_answer (broker_emit (ls1 ++ l :: ls2) e)))) =
  Ok {| st := MAIL; from := from s; rcpts := rcpts s ++ [r]; helo := helo s; tls := tls s |} (one 250) [].
Proof. first [exact HooksCompose.first_allow_decides_rcpt | intros; apply HooksCompose.first_allow_decides_rcpt]. Qed.
Print Assumptions first_allow_decides_rcpt.

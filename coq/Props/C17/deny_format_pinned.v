(** C17 — deny_format_pinned *)
From IV Require Import Base.Bytes Base.BytesFacts Model.Policy Model.Smtp Model.Hooks Gen.SmtpDeny.
From Coq Require Import ZifyBool ZifyNat ZifyN Lia.
From IV Require Import Proofs.HooksDenyLine.
Theorem deny_format_pinned : fmt_deny = [37; 48; 51; 100; 32; 37; 115] /\ deny_sites = 2%nat.
Proof. first [exact HooksDenyLine.deny_format_pinned | intros; apply HooksDenyLine.deny_format_pinned]. Qed.
Print Assumptions deny_format_pinned.

(** C17 — deny_line_text_verbatim *)
From IV Require Import Base.Bytes Base.BytesFacts Model.Policy Model.Smtp Model.Hooks Gen.SmtpDeny.
From Coq Require Import ZifyBool ZifyNat ZifyN Lia.
From IV Require Import Proofs.HooksDenyLine.
Theorem deny_line_text_verbatim : forall code text, (100 <= code <= 999)%Z -> skipn 4 (deny_line code text) = text.
Proof. first [exact HooksDenyLine.deny_line_text_verbatim | intros; apply HooksDenyLine.deny_line_text_verbatim]. Qed.
Print Assumptions deny_line_text_verbatim.

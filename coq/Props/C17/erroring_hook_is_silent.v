(** C17 — erroring_hook_is_silent *)
From IV Require Import Base.Bytes Base.BytesFacts Model.Policy Model.Smtp Model.Hooks Proofs.SmtpInv.
From Coq Require Import ZifyBool ZifyNat Lia Permutation.
From IV Require Import Proofs.HooksThms.
Theorem erroring_hook_is_silent : forall call,
  (forall a, call <> Returned (LResponse a)) -> smtp_answer call = NoAns.
Proof. exact HooksThms.erroring_hook_is_silent. Qed.
Print Assumptions erroring_hook_is_silent.

(** C17 — removal_keeps_the_order_of_the_others *)
From IV Require Import Base.Bytes Base.BytesFacts Model.Policy Model.Smtp Model.Hooks Proofs.HooksThms.
From IV Require Import Proofs.HooksChain.
Theorem removal_keeps_the_order_of_the_others : forall (E R : Type) name (c : chain E R), NoDup (map fst c) ->
  map fst (chain_remove name c) = filter (fun n => negb (str_eqb n name)) (map fst c) /\
  NoDup (map fst (chain_remove name c)).
Proof. intros E R; exact (@HooksChain.removal_keeps_the_order_of_the_others E R). Qed.
Print Assumptions removal_keeps_the_order_of_the_others.

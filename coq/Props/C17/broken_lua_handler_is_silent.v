(** C17 — broken_lua_handler_is_silent *)
From IV Require Import Base.Bytes Base.BytesFacts Model.Policy Model.Smtp Model.Hooks Proofs.SmtpInv Proofs.HooksThms.
From Coq Require Import ZifyBool ZifyNat Lia.
From IV Require Import Proofs.HooksCompose.
Theorem broken_lua_handler_is_silent : forall (E : Type) (call : E -> lua_call) e,
  (call e = Raised \/ exists v, call e = Returned v /\ forall a, v <> LResponse a) ->
  lua_listener call e = None.
Proof. first [exact HooksCompose.broken_lua_handler_is_silent | intros; apply HooksCompose.broken_lua_handler_is_silent]. Qed.
Print Assumptions broken_lua_handler_is_silent.

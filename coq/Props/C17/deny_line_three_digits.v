(** C17 — deny_line_three_digits *)
From IV Require Import Base.Bytes Base.BytesFacts Model.Policy Model.Smtp Model.Hooks Gen.SmtpDeny.
From Coq Require Import ZifyBool ZifyNat ZifyN Lia.
From IV Require Import Proofs.HooksDenyLine.
Theorem deny_line_three_digits : forall a b c text,
  (1 <= a <= 9)%Z -> (0 <= b <= 9)%Z -> (0 <= c <= 9)%Z ->
  deny_line (100 * a + 10 * b + c) text = digit a :: digit b :: digit c :: 32 :: text.
Proof. first [exact HooksDenyLine.deny_line_three_digits | intros; apply HooksDenyLine.deny_line_three_digits]. Qed.
Print Assumptions deny_line_three_digits.

(** C17 — readded_listener_goes_last *)
From IV Require Import Base.Bytes Base.BytesFacts Model.Policy Model.Smtp Model.Hooks Proofs.HooksThms.
From IV Require Import Proofs.HooksChain.
Theorem readded_listener_goes_last : forall (E R : Type) name l (c : chain E R), NoDup (map fst c) ->
  map fst (chain_add name l c) = filter (fun n => negb (str_eqb n name)) (map fst c) ++ [name] /\
  NoDup (map fst (chain_add name l c)).
Proof. intros E R; exact (@HooksChain.readded_listener_goes_last E R). Qed.
Print Assumptions readded_listener_goes_last.

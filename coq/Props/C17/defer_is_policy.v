(** C17 — defer_is_policy *)
From IV Require Import Base.Bytes Base.BytesFacts Model.Policy Model.Smtp Model.Hooks Proofs.SmtpInv.
From Coq Require Import ZifyBool ZifyNat Lia Permutation.
From IV Require Import Proofs.HooksThms.
Theorem defer_is_policy : forall c s p,
  step c s (L (Mail p Defer)) = step c s (L (Mail p NoAns)) /\
  forall q, step c s (L (Rcpt q Defer)) = step c s (L (Rcpt q NoAns)).
Proof. exact HooksThms.defer_is_policy. Qed.
Print Assumptions defer_is_policy.

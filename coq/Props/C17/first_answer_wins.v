(** C17 — first_answer_wins *)
From IV Require Import Base.Bytes Base.BytesFacts Model.Policy Model.Smtp Model.Hooks Proofs.SmtpInv.
From Coq Require Import ZifyBool ZifyNat Lia Permutation.
From IV Require Import Proofs.HooksThms.
Theorem first_answer_wins : forall (E R : Type) (ls1 ls2 : list (E -> option R)) l e r,
  (forall l', In l' ls1 -> l' e = None) -> l e = Some r -> broker_emit (ls1 ++ l :: ls2) e = Some r.
Proof. exact HooksThms.first_answer_wins. Qed.
Print Assumptions first_answer_wins.

(** C17 — lua_response_is_the_answer *)
From IV Require Import Base.Bytes Base.BytesFacts Model.Policy Model.Smtp Model.Hooks Proofs.SmtpInv Proofs.HooksThms.
From Coq Require Import ZifyBool ZifyNat Lia.
From IV Require Import Proofs.HooksCompose.
Theorem lua_response_is_the_answer : forall (E : Type) (call : E -> lua_call) e a,
  call e = Returned (LResponse a) -> a <> NoAns -> lua_listener call e = Some a.
Proof. first [exact HooksCompose.lua_response_is_the_answer | intros; apply HooksCompose.lua_response_is_the_answer]. Qed.
Print Assumptions lua_response_is_the_answer.

(** C17 — allow_overrides_policy_mail *)
From IV Require Import Base.Bytes Base.BytesFacts Model.Policy Model.Smtp Model.Hooks Proofs.SmtpInv.
From Coq Require Import ZifyBool ZifyNat Lia Permutation.
From IV Require Import Proofs.HooksThms.
Theorem allow_overrides_policy_mail : forall c s sz o,
  st s = READY -> sz <> SzBad ->
  (match sz with SzVal n => (n <= max_bytes c /\ n <= int32_max)%Z | _ => True end) ->
  step c s (L (Mail (MParsed sz (Some o)) Allow)) =
  Ok {| st := MAIL; from := Some o; rcpts := rcpts s; helo := helo s; tls := tls s |} (one 250) [].
Proof. first [exact HooksThms.allow_overrides_policy_mail | intros; apply HooksThms.allow_overrides_policy_mail]. Qed.
Print Assumptions allow_overrides_policy_mail.

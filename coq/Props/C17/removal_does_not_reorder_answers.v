(** C17 — removal_does_not_reorder_answers *)
From IV Require Import Base.Bytes Base.BytesFacts Model.Policy Model.Smtp Model.Hooks Proofs.HooksThms.
From IV Require Import Proofs.HooksChain.
Theorem removal_does_not_reorder_answers : forall (E R : Type) name (c1 c2 : chain E R) n1 l1 e r,
  n1 <> name -> (forall p, In p c1 -> snd p e = None) -> l1 e = Some r ->
  chain_emit (chain_remove name (c1 ++ (n1, l1) :: c2)) e = Some r.
Proof. intros E R; exact (@HooksChain.removal_does_not_reorder_answers E R). Qed.
Print Assumptions removal_does_not_reorder_answers.

(** C07 — removing a live message takes exactly that message out of its mailbox and leaves every other mailbox and the add counters untouched *)
From IV Require Import Base.Bytes Model.StoreSpec Proofs.StoreSpecOrder.
Theorem remove_only_named : forall cfg st mb k e, find_h mb (Kth k) (live st) = Some e ->
  let st' := fst (fst (exec_spec cfg st (Remove mb (Kth k)))) in
  (forall mb', mb' <> mb -> box mb' (live st') = box mb' (live st)) /\
  box mb (live st') = filter (fun x => negb (Nat.eqb (e_k x) k)) (box mb (live st)) /\
  counts st' = counts st.
Proof. exact StoreSpecOrder.remove_only_named. Qed.
Print Assumptions remove_only_named.

(** C07 — over ONE abstract store, REST DELETE of a mailbox (Store.PurgeMessages) answers 200, emits one deleted event per message of the mailbox and keeps the store invariant; afterwards the store's listing, the REST listing and the POP3 view of that mailbox are empty, every former message answers not-there (404), and every other mailbox is untouched in the store and in the POP3 view *)
From Coq Require Import List NArith ZArith.
From IV Require Import Base.Bytes Model.StoreSpec Proofs.StoreSpecFacts.
From IV Require Model.Rest Model.Pop3 Model.Pop3Store.
From IV Require Import Proofs.InterfacesRemoval.
Import ListNotations.
Theorem purged_mailbox_is_empty_in_every_interface : forall (mfa : str -> option str) (cfg : scfg) (srcok : str -> nat -> bool) (content : N -> str)
    st name mb,
  SInv st -> mfa name = Some mb ->
  let st' := {| live := filter (fun e => negb (ent_in mb e)) (live st); counts := counts st |} in
  Rest.run_handler mfa cfg srcok st Rest.HPurge name [] [] Rest.BTrue = (st', (Rest.S200, Rest.POk)) /\
  exec_spec cfg st (Purge mb) = (st', OUnit (Ok tt), map ev_deleted (box mb (live st))) /\
  SInv st' /\
  exec_spec cfg st' (Lst mb) = (st', OList [], []) /\
  Rest.run_handler mfa cfg srcok st' Rest.HList name [] [] Rest.BTrue = (st', (Rest.S200, Rest.PList mb [])) /\
  Pop3.mmsgs (Pop3.get_box (Pop3Store.abs content st') mb) = [] /\
  (forall e, In e (box mb (live st)) ->
     exec_spec cfg st' (Get mb (Kth (e_k e))) = (st', OGet NotExist, []) /\
     Rest.run_handler mfa cfg srcok st' Rest.HSrc name (Rest.id_of_k (e_k e)) [] Rest.BTrue = (st', (Rest.S404, Rest.PNone))) /\
  (forall mb', mb' <> mb -> box mb' (live st') = box mb' (live st)) /\
  (forall mb', mb' <> mb ->
     Pop3.mmsgs (Pop3.get_box (Pop3Store.abs content st') mb') = Pop3.mmsgs (Pop3.get_box (Pop3Store.abs content st) mb')).
Proof. exact InterfacesRemoval.purged_mailbox_is_empty_in_every_interface. Qed.
Print Assumptions purged_mailbox_is_empty_in_every_interface.

(** C07 — abstract store: a request naming a message that is not live is answered NotExist by mark-seen and remove for every handle, by get for every handle but the literal "latest", and changes nothing *)
From IV Require Import Base.Bytes Model.StoreSpec Proofs.StoreSpecOrder.
Theorem missing_is_not_exist : forall cfg st mb h, find_h mb h (live st) = None ->
  (h <> Latest -> snd (fst (exec_spec cfg st (Get mb h))) = OGet NotExist) /\
  exec_spec cfg st (Seen mb h) = (st, OUnit NotExist, []) /\
  exec_spec cfg st (Remove mb h) = (st, OUnit NotExist, []).
Proof. exact StoreSpecOrder.missing_is_not_exist'. Qed.
Print Assumptions missing_is_not_exist.

(** C07 — a request naming a message that is not live (any handle but "latest") is answered NotExist by get, mark-seen and remove, and changes nothing *)
From IV Require Import Base.Bytes Model.StoreSpec Proofs.StoreSpecOrder.
Theorem missing_is_not_exist : forall cfg st mb h, h <> Latest -> find_h mb h (live st) = None ->
  snd (fst (exec_spec cfg st (Get mb h))) = OGet NotExist /\
  exec_spec cfg st (Seen mb h) = (st, OUnit NotExist, []) /\
  exec_spec cfg st (Remove mb h) = (st, OUnit NotExist, []).
Proof. exact StoreSpecOrder.missing_is_not_exist. Qed.
Print Assumptions missing_is_not_exist.

(** C07 — every history on the file-store model yields, operation by operation, exactly the observations and events of the abstract ordered-mailbox store (by handle; environment hypothesis: no add returns an id an earlier add to that mailbox returned) *)
From IV Require Import Base.Bytes Model.StoreSpec Model.StoreSpecImpl Model.FileStore Proofs.FileStoreRefine.
Theorem file_refines_spec : forall cfg ticks ops, c_max cfg = 0%N -> file_fresh cfg (file_init ticks, []) ops -> run_file cfg ticks ops = run_spec cfg spec_init ops.
Proof. exact FileStoreRefine.file_refines_spec. Qed.
Print Assumptions file_refines_spec.

(** C07 — after every history each live message's handle number is below its mailbox's add counter, which never decreases: a later add never receives the handle (id) of an earlier one, live or removed *)
From IV Require Import Base.Bytes Model.StoreSpec Proofs.StoreSpecOrder.
Theorem ids_not_reused : forall cfg ops e, In e (live (final_spec cfg spec_init ops)) -> (e_k e < count_of (e_mb e) (counts (final_spec cfg spec_init ops)))%nat.
Proof. exact StoreSpecOrder.ids_not_reused. Qed.
Print Assumptions ids_not_reused.

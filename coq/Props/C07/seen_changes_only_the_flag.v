(** C07 — over ONE abstract store, REST PATCH seen:true (Store.MarkSeen) of a live message answers 200 and changes the seen flag of exactly that entry: same date, content tag, size and position; every other entry of the mailbox and every other mailbox is as before; the POP3 model's view of the store does not change; REST /source and web-UI /source still answer 200 with the same content tag *)
From Coq Require Import List NArith ZArith.
From IV Require Import Base.Bytes Model.StoreSpec Proofs.StoreSpecFacts Proofs.StoreSpecRefine.
From IV Require Model.Rest Model.Pop3 Model.Pop3Store.
From IV Require Import Proofs.InterfacesSeen.
Import ListNotations.
Theorem seen_changes_only_the_flag : forall (mfa : str -> option str) (cfg : scfg) (srcok : str -> nat -> bool) (content : N -> str)
    st name mb e num,
  SInv st -> mfa name = Some mb -> In e (box mb (live st)) -> srcok mb (e_k e) = true ->
  let st' := {| live := set_seen mb (e_k e) (live st); counts := counts st |} in
  Rest.run_handler mfa cfg srcok st Rest.HSeen name (Rest.id_of_k (e_k e)) num Rest.BTrue = (st', (Rest.S200, Rest.POk)) /\
  SInv st' /\
  (* the mailbox: the same entries in the same order, this one with the flag set *)
  box mb (live st') = map (seen_k (e_k e)) (box mb (live st)) /\
  In (seen_entry e) (box mb (live st')) /\
  m_seen (e_msg (seen_entry e)) = true /\ m_tag (e_msg (seen_entry e)) = m_tag (e_msg e) /\
  m_size (e_msg (seen_entry e)) = m_size (e_msg e) /\ m_date (e_msg (seen_entry e)) = m_date (e_msg e) /\
  (forall x, In x (box mb (live st)) -> e_k x <> e_k e -> In x (box mb (live st'))) /\
  (forall mb', mb' <> mb -> box mb' (live st') = box mb' (live st)) /\
  (* POP3 sees no difference *)
  Pop3Store.abs content st' = Pop3Store.abs content st /\
  (* the source is still served, with the same content *)
  Rest.run_handler mfa cfg srcok st' Rest.HSrc name (Rest.id_of_k (e_k e)) num Rest.BTrue
    = (st', (Rest.S200, Rest.PSrc (e_k e, msg_set_seen (e_msg e)))) /\
  Rest.run_handler mfa cfg srcok st' Rest.USrc name (Rest.id_of_k (e_k e)) num Rest.BTrue
    = (st', (Rest.S200, Rest.PSrc (e_k e, msg_set_seen (e_msg e)))).
Proof. exact InterfacesSeen.seen_changes_only_the_flag. Qed.
Print Assumptions seen_changes_only_the_flag.

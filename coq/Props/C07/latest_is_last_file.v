(** C07 — the same on the file-store model (environment hypothesis file_fresh) *)
From IV Require Import Base.Bytes Model.StoreSpec Model.StoreSpecImpl Model.FileStore Proofs.FileStoreRefine Proofs.StoreSpecOrder.
Theorem latest_is_last_file : forall cfg ticks ops mb,
  c_max cfg = 0%N -> file_fresh cfg (file_init ticks, []) (ops ++ [Lst mb; Get mb Latest]) ->
  exists l, nth_error (map fst (run_file cfg ticks (ops ++ [Lst mb; Get mb Latest]))) (length ops) = Some (OList l) /\
            nth_error (map fst (run_file cfg ticks (ops ++ [Lst mb; Get mb Latest]))) (S (length ops)) = Some (OGet (res_of_last l)).
Proof. exact StoreSpecOrder.latest_is_last_file. Qed.
Print Assumptions latest_is_last_file.

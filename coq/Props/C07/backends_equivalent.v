(** C07 — for every cap the memory-store and file-store models are observationally equivalent on every history (observations and events by handle; file-store environment hypothesis file_fresh) *)
From IV Require Import Base.Bytes Model.StoreSpec Model.StoreSpecImpl Model.MemStore Model.FileStore Proofs.FileStoreRefine Proofs.StoreSpecOrder.
Theorem backends_equivalent : forall cfg ticks ops, c_max cfg = 0%N -> file_fresh cfg (file_init ticks, []) ops -> run_mem cfg ops = run_file cfg ticks ops.
Proof. exact StoreSpecOrder.backends_equivalent. Qed.
Print Assumptions backends_equivalent.

(** C07 — the freshness hypothesis of file_refines_spec follows from the environment assumption on the inputs "fewer than 10 000 deliveries fall into any one wall-clock second" (one process incarnation): hence file_refines_spec_env *)
From IV Require Import Base.Bytes Model.StoreSpec Model.StoreSpecImpl Model.FileStore Proofs.FileStoreRefine Proofs.FileStoreClock.
Theorem file_fresh_from_env : forall cfg, c_max cfg = 0%N -> forall ticks ops,
  env_ok 0 ticks ops -> file_fresh cfg (file_init ticks, []) ops /\ run_file cfg ticks ops = run_spec cfg spec_init ops.
Proof. intros cfg Hm ticks ops He. split; [apply FileStoreClock.file_fresh_from_env | apply FileStoreClock.file_refines_spec_env]; assumption. Qed.
Print Assumptions file_fresh_from_env.

(** C07 — every history on the memory-store model, for every cap and every size limit (cap loop with first/last, size enforcer as coded), yields operation by operation exactly the observations and events of the abstract ordered-mailbox store; the crash outcome of the eviction loop is unreachable *)
From IV Require Import Base.Bytes Model.StoreSpec Model.StoreSpecImpl Model.MemStore Proofs.MemStoreRefine.
Theorem mem_refines_spec : forall cfg ops, run_mem cfg ops = run_spec cfg spec_init ops.
Proof. exact MemStoreRefine.mem_refines_spec. Qed.
Print Assumptions mem_refines_spec.

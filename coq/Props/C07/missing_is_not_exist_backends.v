(** C07 — on both back-end models, at the end of any history: a handle that names no live message (removed, purged, evicted, never issued, bogus literal) is answered NotExist by GetMessage (except the literal "latest"), MarkSeen and RemoveMessage *)
From IV Require Import Base.Bytes Model.StoreSpec Model.StoreSpecImpl Model.MemStore Model.FileStore Proofs.FileStoreClock Proofs.StoreSpecOrder.
Theorem missing_is_not_exist_backends : forall cfg ops mb h,
  find_h mb h (live (final_spec cfg spec_init ops)) = None ->
  ((h <> Latest -> nth_error (map fst (run_mem cfg (ops ++ [Get mb h]))) (length ops) = Some (OGet NotExist)) /\
   nth_error (map fst (run_mem cfg (ops ++ [Seen mb h]))) (length ops) = Some (OUnit NotExist) /\
   nth_error (map fst (run_mem cfg (ops ++ [Remove mb h]))) (length ops) = Some (OUnit NotExist)) /\
  (forall ticks, c_max cfg = 0%N -> (forall o, env_ok 0 ticks (ops ++ [o])) ->
   (h <> Latest -> nth_error (map fst (run_file cfg ticks (ops ++ [Get mb h]))) (length ops) = Some (OGet NotExist)) /\
   nth_error (map fst (run_file cfg ticks (ops ++ [Seen mb h]))) (length ops) = Some (OUnit NotExist) /\
   nth_error (map fst (run_file cfg ticks (ops ++ [Remove mb h]))) (length ops) = Some (OUnit NotExist)).
Proof.
  intros cfg ops mb h Hf. split; [apply StoreSpecOrder.missing_is_not_exist_mem; exact Hf|].
  intros ticks Hm He. apply StoreSpecOrder.missing_is_not_exist_file; assumption.
Qed.
Print Assumptions missing_is_not_exist_backends.

(** C07 — after every history a listing of the abstract store is in strictly increasing handle order: arrival order, oldest first, no handle (id) twice *)
From Coq Require Import Sorted.
From IV Require Import Base.Bytes Model.StoreSpec Proofs.StoreSpecOrder.
Theorem list_oldest_first : forall cfg ops mb, StronglySorted lt (map fst (map view_of (box mb (live (final_spec cfg spec_init ops))))).
Proof. exact StoreSpecOrder.list_oldest_first. Qed.
Print Assumptions list_oldest_first.

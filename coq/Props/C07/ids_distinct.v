(** C07 — back-end fact: after every history the ids the deliveries to one mailbox returned are pairwise distinct — memory-store model unconditionally, file-store model under the environment assumption env_ok *)
From IV Require Import Base.Bytes Model.StoreSpec Model.StoreSpecImpl Model.MemStore Model.FileStore Proofs.FileStoreClock Proofs.StoreSpecOrder.
Theorem ids_distinct : forall cfg ops mb,
  NoDup (iss_of mid mb (snd (final_mem cfg ops))) /\
  (forall ticks, c_max cfg = 0%N -> env_ok 0 ticks ops -> NoDup (iss_of fid mb (snd (final_file cfg ticks ops)))).
Proof. intros cfg ops mb. split; [apply StoreSpecOrder.ids_distinct_mem | intros; apply StoreSpecOrder.ids_distinct_file; assumption]. Qed.
Print Assumptions ids_distinct.

(** C07 — at any point of any history on the memory-store model (every cap and size limit): a delivered message that fits reads back with the date, content and size it was delivered with and unseen; after MarkSeen it reads back seen and otherwise unchanged *)
From IV Require Import Base.Bytes Model.StoreSpec Model.StoreSpecImpl Model.MemStore Proofs.StoreSpecOrder.
Theorem read_back_as_written : forall cfg ops mb date tag size,
  (c_max cfg = 0 \/ size <= c_max cfg)%N ->
  let k := count_of mb (counts (final_spec cfg spec_init ops)) in
  let h := ops ++ [Add mb date tag size; Get mb (Kth k); Seen mb (Kth k); Get mb (Kth k)] in
  nth_error (map fst (run_mem cfg h)) (S (length ops)) =
    Some (OGet (Ok (k, {| m_date := date; m_tag := tag; m_size := size; m_seen := false |}))) /\
  nth_error (map fst (run_mem cfg h)) (S (S (S (length ops)))) =
    Some (OGet (Ok (k, {| m_date := date; m_tag := tag; m_size := size; m_seen := true |}))).
Proof. exact StoreSpecOrder.read_back_as_written. Qed.
Print Assumptions read_back_as_written.

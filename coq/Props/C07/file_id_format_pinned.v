(** C07 — the file store's id format, counter (start, step, modulus, %04d width), raw suffix, index name and hash-directory cuts as read from the source on this run are the ones the FileStore model uses; one draw of the model's gen_loop advances the counter by the pinned step modulo the pinned modulus *)
From Coq Require Import List NArith String.
From IV Require Import Base.Bytes Model.StoreSpec Model.FileStore Gen.StorePins Proofs.StoreSpecPins.
Import ListNotations.
Open Scope string_scope.
Theorem file_id_format_pinned :
  (file_ctr_start = 0)%N /\ (file_ctr_step = 1)%N /\ (file_ctr_mod = 10000)%N /\
  (10 ^ file_id_ctr_digits = file_ctr_mod)%N /\
  gen_fuel = N.to_nat file_ctr_mod /\
  str_eqb file_id_sep (nm "-") = true /\ str_eqb file_id_layout (nm "20060102T150405") = true /\
  str_eqb file_raw_suffix (nm ".raw") = true /\ str_eqb file_index_name (nm "index.gob") = true /\
  file_hash_cuts = [0; 3; 0; 6]%N /\
  (forall ticks, fs_ctr (file_init ticks) = file_ctr_start) /\
  (forall sec c l, has_id (sec, c) l = false ->
     gen_loop gen_fuel sec c l = ((sec, c), ((c + file_ctr_step) mod file_ctr_mod)%N)).
Proof. exact StoreSpecPins.file_id_format_pinned. Qed.
Print Assumptions file_id_format_pinned.

(** C07 — without limits the two back-end models are observationally equivalent on every history (observations and events by handle) *)
From IV Require Import Base.Bytes Model.StoreSpec Model.StoreSpecImpl Model.MemStore Model.FileStore Proofs.FileStoreRefine Proofs.StoreSpecOrder.
Theorem backends_equivalent_nolimit : forall cfg ticks ops, c_cap cfg = 0%nat -> c_max cfg = 0%N -> file_fresh cfg (file_init ticks, []) ops -> run_mem cfg ops = run_file cfg ticks ops.
Proof. exact StoreSpecOrder.backends_equivalent_nolimit. Qed.
Print Assumptions backends_equivalent_nolimit.

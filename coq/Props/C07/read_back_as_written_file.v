(** C07 — read_back_as_written on the file-store model (every cap; id-freshness hypothesis of file_refines_spec) *)
From IV Require Import Base.Bytes Model.StoreSpec Model.StoreSpecImpl Model.FileStore Proofs.FileStoreRefine Proofs.StoreSpecOrder.
Theorem read_back_as_written_file : forall cfg ticks ops mb date tag size,
  c_max cfg = 0%N ->
  let k := count_of mb (counts (final_spec cfg spec_init ops)) in
  let h := ops ++ [Add mb date tag size; Get mb (Kth k); Seen mb (Kth k); Get mb (Kth k)] in
  file_fresh cfg (file_init ticks, []) h ->
  nth_error (map fst (run_file cfg ticks h)) (S (length ops)) =
    Some (OGet (Ok (k, {| m_date := date; m_tag := tag; m_size := size; m_seen := false |}))) /\
  nth_error (map fst (run_file cfg ticks h)) (S (S (S (length ops)))) =
    Some (OGet (Ok (k, {| m_date := date; m_tag := tag; m_size := size; m_seen := true |}))).
Proof. exact StoreSpecOrder.read_back_as_written_file. Qed.
Print Assumptions read_back_as_written_file.

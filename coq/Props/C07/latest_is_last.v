(** C07 — at any point of any history on the memory-store model (every cap and size limit), GetMessage("latest") answers the last element of what GetMessages lists, NotExist when the listing is empty *)
From IV Require Import Base.Bytes Model.StoreSpec Model.StoreSpecImpl Model.MemStore Proofs.StoreSpecOrder.
Theorem latest_is_last : forall cfg ops mb,
  exists l, nth_error (map fst (run_mem cfg (ops ++ [Lst mb; Get mb Latest]))) (length ops) = Some (OList l) /\
            nth_error (map fst (run_mem cfg (ops ++ [Lst mb; Get mb Latest]))) (S (length ops)) = Some (OGet (res_of_last l)).
Proof. exact StoreSpecOrder.latest_is_last. Qed.
Print Assumptions latest_is_last.

(** C07 — ids are literal: the stores' look-up by id string (comparison with the rendering of each key) answers only for a string that is character for character the rendering of a key; any other string (another spelling a number parser would read as the same number, blanks, other letter case) finds nothing; the literal rendering finds the key's entry *)
From Coq Require Import List.
From IV Require Import Base.Bytes Model.StoreSpec Model.StoreSpecIds Proofs.StoreSpecIds.
Import ListNotations.
Theorem ids_are_literal : forall (ID : Type) (render : ID -> str) s l,
  (forall p, find_by_string ID render s l = Some p -> s = render (fst p)) /\
  ((forall p, In p l -> s <> render (fst p)) -> find_by_string ID render s l = None) /\
  (forall i m l', (forall p, In p l -> s <> render (fst p)) -> s = render i ->
                  find_by_string ID render s (l ++ (i, m) :: l') = Some (i, m)).
Proof. exact StoreSpecIds.ids_are_literal. Qed.
Print Assumptions ids_are_literal.

(** C07 — every history on the memory-store model WITHOUT cap and size limit yields, operation by operation, exactly the observations and events of the abstract ordered-mailbox store (the statement with limits, mem_refines_spec_stmt, is not proved) *)
From IV Require Import Base.Bytes Model.StoreSpec Model.StoreSpecImpl Model.MemStore Proofs.MemStoreRefine.
Theorem mem_refines_spec_nolimit : forall cfg ops, c_cap cfg = 0%nat -> c_max cfg = 0%N -> run_mem cfg ops = run_spec cfg spec_init ops.
Proof. exact MemStoreRefine.mem_refines_spec_nolimit. Qed.
Print Assumptions mem_refines_spec_nolimit.

(** C15 — once the first statement of a listener's Close (close(done)) has run, the hub never again waits for that listener: in every later state, under every schedule, in which the hub's next call goes to it, the hub moves — whatever is buffered for it and however full the op queue is *)
From IV Require Import Base.Bytes Model.Hub Proofs.HubBasics Proofs.HubClose.
Local Open Scope nat_scope.
Theorem close_unblocks_hub : forall c h l s acts h1,
    find_l l (ls h) = Some s -> lclosed s = true ->
    run c h acts = Some h1 -> stopped h1 = false ->
    match work h1 with d :: _ => d_to d = l | [] => False end ->
    exists h2, hub_step c true h1 = Some h2.
Proof. exact HubClose.close_unblocks_hub. Qed.
Print Assumptions close_unblocks_hub.

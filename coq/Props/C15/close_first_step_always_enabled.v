(** C15 — the first statement of Close needs no room in any queue and no cooperation: it is enabled in every state, and leaves the listener closed *)
From IV Require Import Base.Bytes Model.Hub Proofs.HubBasics Proofs.HubClose.
Local Open Scope nat_scope.
Theorem close_first_step_always_enabled : forall c h l s, find_l l (ls h) = Some s ->
    exists h1, step c h (AClose l) = Some h1 /\
    exists s1, find_l l (ls h1) = Some s1 /\ lclosed s1 = true.
Proof. exact HubClose.close_first_step_always_enabled. Qed.
Print Assumptions close_first_step_always_enabled.

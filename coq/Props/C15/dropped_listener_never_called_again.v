(** C15 — dropped_listener_never_called_again: a listener that has joined, is out of the registrations and has no call outstanding stays out and is never called again, under every continuation *)
From Coq Require Import Lia.
From IV Require Import Base.Bytes Model.Hub Proofs.HubBasics Proofs.HubInv.
From IV Require Import Proofs.HubDrop.
Theorem dropped_listener_never_called_again :
  forall n c acts h l,
    run c (hub_init n) acts = Some h -> gone l h ->
    forall acts' h', run c h acts' = Some h' -> gone l h'.
Proof. first [exact HubDrop.dropped_listener_never_called_again | intros; apply HubDrop.dropped_listener_never_called_again]. Qed.
Print Assumptions dropped_listener_never_called_again.

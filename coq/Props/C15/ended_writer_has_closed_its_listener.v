(** C15 — ended_writer_has_closed_its_listener: however a writer ends (failed write, deadline, close frame) its listener is closed from then on *)
From Coq Require Import Lia.
From IV Require Import Base.Bytes Gen.HubWriter Model.Hub Model.HubWriter Proofs.HubBasics Proofs.HubClose.
From IV Require Import Proofs.HubWriter.
Theorem ended_writer_has_closed_its_listener :
  forall n c acts y l w,
    wrunw c (whub_init n) acts = Some y -> find_w l (wws y) = Some w -> w_alive w = false ->
    exists s, find_l l (ls (wh y)) = Some s /\ lclosed s = true.
Proof. first [exact HubWriter.ended_writer_has_closed_its_listener | intros; apply HubWriter.ended_writer_has_closed_its_listener]. Qed.
Print Assumptions ended_writer_has_closed_its_listener.

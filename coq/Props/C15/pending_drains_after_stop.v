(** C15 — pending_drains_after_stop: whatever was pending at shutdown is consumed in finitely many enabled steps and both delivery goroutines exit *)
From Coq Require Import Lia.
From IV Require Import Base.Bytes Model.Hub Model.HubFed Proofs.HubBasics Proofs.HubTheorems Proofs.LifecycleHub.
From IV Require Import Proofs.HubFedStop.
Theorem pending_drains_after_stop :
  forall c s, stopped (fh (f2 s)) = true -> fb_running (f2 s) = true -> fd_running s = true ->
    exists s', frun3 c s (pump3 (S (length (fb_pend (f2 s)))) (F2 FDeliver) ++
                         pump3 (S (length (fd_pend s))) F2DeliverDel) = Some s' /\
               fb_pend (f2 s') = [] /\ fb_running (f2 s') = false /\
               fd_pend s' = [] /\ fd_running s' = false /\ fh (f2 s') = fh (f2 s).
Proof. first [exact HubFedStop.pending_drains_after_stop | intros; apply HubFedStop.pending_drains_after_stop]. Qed.
Print Assumptions pending_drains_after_stop.

(** C15 — error_unregisters: the listener call that returns an error during a broadcast unregisters the listener at once *)
From Coq Require Import Lia.
From IV Require Import Base.Bytes Model.Hub Proofs.HubBasics Proofs.HubInv.
From IV Require Import Proofs.HubDrop.
Theorem error_unregisters :
  forall c ch h d w s s' h',
    stopped h = false -> work h = d :: w -> find_l (d_to d) (ls h) = Some s ->
    deliver c ch s (d_ev d) = Some (s', true) -> d_drop d = true ->
    hub_step c ch h = Some h' -> ~ In (d_to d) (regs h').
Proof. first [exact HubDrop.error_unregisters | intros; apply HubDrop.error_unregisters]. Qed.
Print Assumptions error_unregisters.

(** C15 — converse: a stuck hub is stuck in exactly that situation *)
From IV Require Import Base.Bytes Model.Hub Proofs.HubBasics Proofs.HubInv Proofs.HubTheorems Proofs.HubHistory Proofs.HubWitness.
Local Open Scope nat_scope.
Theorem blocked_only_by_full_open_listener : forall c h, stopped h = false -> busy h -> (forall ch, hub_step c ch h = None) -> head_full c h.
Proof. exact HubTheorems.blocked_only_by_full_open_listener. Qed.
Print Assumptions blocked_only_by_full_open_listener.

(** C15 — deliver_after_stop_never_blocks: once the hub has stopped a running delivery goroutine always gets through its next hub.Dispatch / hub.Delete (dropped, no block on a full op queue, no panic), the hub unchanged, the pending list shrinking or the goroutine exiting *)
From Coq Require Import Lia.
From IV Require Import Base.Bytes Model.Hub Model.HubFed Proofs.HubBasics Proofs.HubTheorems Proofs.LifecycleHub.
From IV Require Import Proofs.HubFedStop.
Theorem deliver_after_stop_never_blocks :
  forall c s, stopped (fh (f2 s)) = true ->
    (fb_running (f2 s) = true ->
       exists s', fstep3 c s (F3 (F2 FDeliver)) = Some s' /\ fh (f2 s') = fh (f2 s) /\
                  fb_pend (f2 s') = tl (fb_pend (f2 s)) /\
                  fb_running (f2 s') = negb (match fb_pend (f2 s) with [] => true | _ => false end)) /\
    (fd_running s = true ->
       exists s', fstep3 c s (F3 F2DeliverDel) = Some s' /\ fh (f2 s') = fh (f2 s) /\
                  fd_pend s' = tl (fd_pend s) /\
                  fd_running s' = negb (match fd_pend s with [] => true | _ => false end)).
Proof. first [exact HubFedStop.deliver_after_stop_never_blocks | intros; apply HubFedStop.deliver_after_stop_never_blocks]. Qed.
Print Assumptions deliver_after_stop_never_blocks.

(** C15 — … or when its writer takes one event (reachable states satisfy queue_bounded: queue_bounded_reachable) *)
From IV Require Import Base.Bytes Model.Hub Proofs.HubBasics Proofs.HubInv Proofs.HubTheorems Proofs.HubHistory Proofs.HubWitness.
Local Open Scope nat_scope.
Theorem take_unblocks : forall c h, 0 < qcap1 c -> 0 < qcap2 c ->
    stopped h = false -> queue_bounded c h -> head_full c h ->
    match work h with
    | d :: _ => exists h1 h2, step c h (ATake (d_to d)) = Some h1 /\ hub_step c true h1 = Some h2
    | [] => False
    end.
Proof. exact HubTheorems.take_unblocks. Qed.
Print Assumptions take_unblocks.

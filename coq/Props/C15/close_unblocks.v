(** C15 — the stall ends when the slow listener is closed (write deadline / peer gone): after its Close the hub moves again *)
From IV Require Import Base.Bytes Model.Hub Proofs.HubBasics Proofs.HubInv Proofs.HubTheorems Proofs.HubHistory Proofs.HubWitness.
Local Open Scope nat_scope.
Theorem close_unblocks : forall c h, stopped h = false -> head_full c h ->
    match work h with
    | d :: _ => exists h1 h2, step c h (AClose (d_to d)) = Some h1 /\ hub_step c true h1 = Some h2
    | [] => False
    end.
Proof. exact HubTheorems.close_unblocks. Qed.
Print Assumptions close_unblocks.

(** C15 — stored and deleted events travel through two independent asynchronous brokers into the hub: each stream reaches the hub's op queue in its own emit order with nothing lost or doubled, and at quiescence every healthy monitor holds exactly its entitlement for the op sequence the hub was given *)
From IV Require Import Base.Bytes Model.Hub Model.HubFed Proofs.HubBasics Proofs.HubFed.
Local Open Scope nat_scope.
Theorem two_brokers_each_fifo : forall n c sched st,
    frun2 c (fed2_init n) sched = Some st ->
    msgs (hlog (fh (f2 st)) ++ opq (fh (f2 st))) ++ fb_pend (f2 st) = emitted_s sched /\
    dels (hlog (fh (f2 st)) ++ opq (fh (f2 st))) ++ fd_pend st = emitted_d sched /\
    (quiescent2 st = true -> forall l s, find_l l (ls (fh (f2 st))) = Some s -> lclosed s = false -> lerred s = false ->
       lout s ++ lq s = expected n (lk s) (lf s) l (hlog (fh (f2 st)))).
Proof. exact HubFed.two_brokers_each_fifo. Qed.
Print Assumptions two_brokers_each_fifo.

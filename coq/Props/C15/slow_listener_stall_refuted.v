(** C15 — REFUTED (open finding K-C15-slow-listener): with the capacities the source declares there is a schedule after which the hub goroutine cannot move although the listener it waits for is open and healthy *)
From IV Require Import Base.Bytes Model.Hub Proofs.HubBasics Proofs.HubInv Proofs.HubTheorems Proofs.HubHistory Proofs.HubWitness.
Local Open Scope nat_scope.
Theorem slow_listener_stall_refuted : ~ hub_never_blocks_stmt.
Proof. exact HubWitness.slow_listener_stall_refuted. Qed.
Print Assumptions slow_listener_stall_refuted.

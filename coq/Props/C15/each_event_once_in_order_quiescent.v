(** C15 — once the hub has run everything submitted, a healthy listener holds exactly its entitlement for the SUBMITTED ops (FIFO op queue) *)
From IV Require Import Base.Bytes Model.Hub Proofs.HubBasics Proofs.HubInv Proofs.HubTheorems Proofs.HubHistory Proofs.HubWitness.
Local Open Scope nat_scope.
Theorem each_event_once_in_order_quiescent : forall n c acts h l s,
    run c (hub_init n) acts = Some h -> work h = [] -> opq h = [] ->
    find_l l (ls h) = Some s -> lclosed s = false -> lerred s = false ->
    lout s ++ lq s = expected n (lk s) (lf s) l (submitted acts).
Proof. exact HubTheorems.each_event_once_in_order_quiescent. Qed.
Print Assumptions each_event_once_in_order_quiescent.

(** C15 — a joining listener first receives, through its filter, those of the last N messages dispatched before its join that were not deleted since, oldest first (ids dispatched at most once) *)
From IV Require Import Base.Bytes Model.Hub Proofs.HubBasics Proofs.HubInv Proofs.HubTheorems Proofs.HubHistory Proofs.HubWitness.
Local Open Scope nat_scope.
Theorem history_replay : forall n c acts h l s pre post,
    run c (hub_init n) acts = Some h ->
    find_l l (ls h) = Some s -> lclosed s = false -> lerred s = false ->
    hlog h = pre ++ OAdd l :: post -> ~ In l (adds pre) ->
    NoDup (map fst (dispatched pre [])) ->
    exists later,
      lout s ++ lq s ++ pend l s (work h)
      = filter (wants (lk s) (lf s)) (map Stored (spec_history n pre)) ++ later.
Proof. exact HubTheorems.history_replay. Qed.
Print Assumptions history_replay.

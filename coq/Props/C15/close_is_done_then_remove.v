(** C15 — close_is_done_then_remove: both listeners Close is close(done) then RemoveListener, in this order *)
From IV Require Import Base.Bytes Gen.HubShape Model.Hub Model.HubShape.
From IV Require Import Proofs.HubShape.
Theorem close_is_done_then_remove : v1_close = model_close /\ v2_close = model_close.
Proof. first [exact HubShape.close_is_done_then_remove | intros; apply HubShape.close_is_done_then_remove]. Qed.
Print Assumptions close_is_done_then_remove.

(** C15 — the order in which one broadcast visits the listeners (Go's map iteration order; the model uses registration order) is unobservable: two consecutive listener calls to different listeners commute exactly, for every resolution of the select choices *)
From IV Require Import Base.Bytes Model.Hub Proofs.HubBasics Proofs.HubOrder.
Local Open Scope nat_scope.
Theorem broadcast_order_diamond : forall c ch1 ch2 h d1 d2 w h1 h2,
    d_to d1 <> d_to d2 -> work h = d1 :: d2 :: w ->
    hub_step c ch1 h = Some h1 -> hub_step c ch2 h1 = Some h2 ->
    exists h3, hub_step c ch2 (with_work h (d2 :: d1 :: w)) = Some h3 /\ hub_step c ch1 h3 = Some h2.
Proof. exact HubOrder.broadcast_order_diamond. Qed.
Print Assumptions broadcast_order_diamond.

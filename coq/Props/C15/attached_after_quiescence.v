(** C15 — a monitor attached after the broker has handed everything over, with nothing emitted later, holds exactly the last N emitted events (through its filter) *)
From IV Require Import Base.Bytes Model.Hub Model.HubFed Proofs.HubBasics Proofs.HubFed.
Local Open Scope nat_scope.
Theorem attached_after_quiescence : forall n c s1 l k f fail s2 st ls0,
    frun c (fed_init n) (s1 ++ FJoin l k f fail :: s2) = Some st -> quiescent st = true ->
    pend_after [] s1 = [] -> emitted s2 = [] ->
    find_l l (ls (fh st)) = Some ls0 -> lclosed ls0 = false -> lerred ls0 = false ->
    lout ls0 ++ lq ls0 = filter (wants (lk ls0) (lf ls0)) (map Stored (lastn n (emitted s1))).
Proof. exact HubFed.attached_after_quiescence. Qed.
Print Assumptions attached_after_quiescence.

(** C15 — exec_op_is_source_program: every hub operation of the model is the interpretation of the program the translator reads off the source for it, statement by statement in the source order *)
From IV Require Import Base.Bytes Gen.HubShape Model.Hub Model.HubShape.
From IV Require Import Proofs.HubShape.
Theorem exec_op_is_source_program :
  forall o h, work h = [] -> interp listeners_container o (prog_of o) h = Some (exec_op o h).
Proof. first [exact HubShape.exec_op_is_source_program | intros; apply HubShape.exec_op_is_source_program]. Qed.
Print Assumptions exec_op_is_source_program.

(** C15 — the hub runs ops in submission order: started ops followed by queued ops = the submissions made before shutdown *)
From IV Require Import Base.Bytes Model.Hub Proofs.HubBasics Proofs.HubInv Proofs.HubTheorems Proofs.HubHistory Proofs.HubWitness.
Local Open Scope nat_scope.
Theorem fifo_order : forall n c acts h, run c (hub_init n) acts = Some h -> hlog h ++ opq h = submitted acts.
Proof. exact HubTheorems.fifo_order. Qed.
Print Assumptions fifo_order.

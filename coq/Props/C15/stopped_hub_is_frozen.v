(** C15 — stopped_hub_is_frozen: after the stop, under every continuation, the hub stays stopped and its ops, queue, work, registrations and history do not change *)
From Coq Require Import Lia.
From IV Require Import Base.Bytes Model.Hub Model.HubFed Proofs.HubBasics Proofs.HubTheorems Proofs.LifecycleHub.
From IV Require Import Proofs.HubFedStop.
Theorem stopped_hub_is_frozen :
  forall c sched s s', frun3 c s sched = Some s' -> stopped (fh (f2 s)) = true ->
    stopped (fh (f2 s')) = true /\ hlog (fh (f2 s')) = hlog (fh (f2 s)) /\ opq (fh (f2 s')) = opq (fh (f2 s)) /\
    work (fh (f2 s')) = work (fh (f2 s)) /\ regs (fh (f2 s')) = regs (fh (f2 s)) /\ ring (fh (f2 s')) = ring (fh (f2 s)).
Proof. first [exact HubFedStop.stopped_hub_is_frozen | intros; apply HubFedStop.stopped_hub_is_frozen]. Qed.
Print Assumptions stopped_hub_is_frozen.

(** C15 — remove_unregisters: the RemoveListener op (what Close submits) unregisters the listener *)
From Coq Require Import Lia.
From IV Require Import Base.Bytes Model.Hub Proofs.HubBasics Proofs.HubInv.
From IV Require Import Proofs.HubDrop.
Theorem remove_unregisters :
  forall c ch h l q h',
    stopped h = false -> work h = [] -> opq h = ORemove l :: q ->
    hub_step c ch h = Some h' -> ~ In l (regs h') /\ work h' = [].
Proof. first [exact HubDrop.remove_unregisters | intros; apply HubDrop.remove_unregisters]. Qed.
Print Assumptions remove_unregisters.

(** C15 — one_frame_per_event: for every schedule of hub, clients, writers and readers: the text frames a writer has put on the wire, followed by the at most one event whose write failed, are exactly what it took from the queue — one frame per event, in order *)
From Coq Require Import Lia.
From IV Require Import Base.Bytes Gen.HubWriter Model.Hub Model.HubWriter Proofs.HubBasics Proofs.HubClose.
From IV Require Import Proofs.HubWriter.
Theorem one_frame_per_event :
  forall n c acts y l s w,
    wrunw c (whub_init n) acts = Some y -> find_l l (ls (wh y)) = Some s -> find_w l (wws y) = Some w ->
    texts (w_frames w) ++ w_lost w = lout s /\ (length (w_lost w) <= 1)%nat.
Proof. first [exact HubWriter.one_frame_per_event | intros; apply HubWriter.one_frame_per_event]. Qed.
Print Assumptions one_frame_per_event.

(** C15 — the hub fed through the asynchronous broker: for every sequence of Emit calls and every interleaving of the broker's delivery goroutine, the hub goroutine, joins and socket writers, (1) handed-to-the-hub ++ still-pending = emitted (emit order, nothing lost or doubled), and (2) at quiescence a healthy monitor that joined at any moment holds the last N of what had been handed to the hub before its join, then every other emitted event, in order, through its filter *)
From IV Require Import Base.Bytes Model.Hub Model.HubFed Proofs.HubBasics Proofs.HubFed.
Local Open Scope nat_scope.
Theorem broker_fed_hub_in_order : forall n c s1 l k f fail s2 st ls0,
    frun c (fed_init n) (s1 ++ FJoin l k f fail :: s2) = Some st ->
    handed [] (s1 ++ FJoin l k f fail :: s2) ++ fb_pend st = emitted (s1 ++ FJoin l k f fail :: s2) /\
    (quiescent st = true ->
     find_l l (ls (fh st)) = Some ls0 -> lclosed ls0 = false -> lerred ls0 = false ->
     lout ls0 ++ lq ls0 =
       filter (wants (lk ls0) (lf ls0))
              (map Stored (lastn n (handed [] s1) ++ handed (pend_after [] s1) s2))).
Proof. exact HubFed.broker_fed_hub_in_order. Qed.
Print Assumptions broker_fed_hub_in_order.

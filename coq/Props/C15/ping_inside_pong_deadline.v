(** C15 — ping_inside_pong_deadline: the ping period lies inside the pong deadline; the write deadline is 10 s (both read from the source) *)
From Coq Require Import Lia.
From IV Require Import Base.Bytes Gen.HubWriter Model.Hub Model.HubWriter Proofs.HubBasics Proofs.HubClose.
From IV Require Import Proofs.HubWriter.
Theorem ping_inside_pong_deadline :
  (v1_pong_wait_s * v1_ping_period_num / v1_ping_period_den < v1_pong_wait_s /\
   v2_pong_wait_s * v2_ping_period_num / v2_ping_period_den < v2_pong_wait_s /\
   0 < v1_write_wait_s /\ 0 < v2_write_wait_s /\ v1_write_wait_s = 10 /\ v2_write_wait_s = 10)%nat.
Proof. first [exact HubWriter.ping_inside_pong_deadline | intros; apply HubWriter.ping_inside_pong_deadline]. Qed.
Print Assumptions ping_inside_pong_deadline.

(** C15 — PARTIAL: the hub goroutine can move whenever it has something to do, unless the listener it is about to call is an OPEN real listener with a FULL queue *)
From IV Require Import Base.Bytes Model.Hub Proofs.HubBasics Proofs.HubInv Proofs.HubTheorems Proofs.HubHistory Proofs.HubWitness.
Local Open Scope nat_scope.
Theorem hub_never_blocks_partial : forall c h, stopped h = false -> busy h -> ~ head_full c h ->
    exists h0, hub_step c true h = Some h0.
Proof. exact HubTheorems.hub_never_blocks_partial. Qed.
Print Assumptions hub_never_blocks_partial.

(** C15 — enqueue_waits_or_gives_up: hub.enqueue and hub.Sync have exactly the arms the model assumes, no default arm *)
From IV Require Import Base.Bytes Gen.HubShape Model.Hub Model.HubShape.
From IV Require Import Proofs.HubShape.
Theorem enqueue_waits_or_gives_up : enqueue_arms = model_enqueue_arms /\ sync_arms = model_sync_arms.
Proof. first [exact HubShape.enqueue_waits_or_gives_up | intros; apply HubShape.enqueue_waits_or_gives_up]. Qed.
Print Assumptions enqueue_waits_or_gives_up.

(** C15 — hub_goroutine_arms: the select of Hub.Start has exactly the two arms the model gives the hub goroutine *)
From IV Require Import Base.Bytes Gen.HubShape Model.Hub Model.HubShape.
From IV Require Import Proofs.HubShape.
Theorem hub_goroutine_arms : start_arms = model_start_arms.
Proof. first [exact HubShape.hub_goroutine_arms | intros; apply HubShape.hub_goroutine_arms]. Qed.
Print Assumptions hub_goroutine_arms.

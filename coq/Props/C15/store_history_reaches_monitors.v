(** C15 — store_history_reaches_monitors: from every history of store operations (both store models, every cap and size limit) through the two asynchronous brokers and the hub to the monitors: a monitor attached first holds per broker exactly the deliveries resp. the deleted events in the store order through its filter; a late joiner the last N stored and not deleted since in the hub order (= the store order when the merge is the emit order); the merge of the two streams is NOT promised *)
From Coq Require Import List Arith Lia.
From IV Require Import Base.Bytes Base.BytesFacts Model.StoreSpec Model.MemStore Model.FileStore Model.Events.
From IV Require Import Proofs.FileStoreClock Proofs.EventsCount Proofs.EventsHistory.
From IV Require Import Model.Hub Model.HubFed Proofs.HubBasics Proofs.HubInv Proofs.HubTheorems Proofs.HubHistory Proofs.HubFed.
From IV Require Import Proofs.HubStore.
Theorem store_history_reaches_monitors :
  forall cfg ops,
    reaches cfg ops (run_mem cfg ops) /\
    (forall ticks, c_max cfg = 0%N -> env_ok 0 ticks ops -> reaches cfg ops (run_file cfg ticks ops)).
Proof. first [exact HubStore.store_history_reaches_monitors | intros; apply HubStore.store_history_reaches_monitors]. Qed.
Print Assumptions store_history_reaches_monitors.

(** C15 — over ALL schedules: what a healthy (not closed, not failed) listener has been handed, plus the calls still to come in the op being run, is exactly the stream the spec entitles it to for the ops the hub has started — each event once, in the hub's order *)
From IV Require Import Base.Bytes Model.Hub Proofs.HubBasics Proofs.HubInv Proofs.HubTheorems Proofs.HubHistory Proofs.HubWitness.
Local Open Scope nat_scope.
Theorem each_event_once_in_order : forall n c acts h l s,
    run c (hub_init n) acts = Some h ->
    find_l l (ls h) = Some s -> lclosed s = false -> lerred s = false ->
    lout s ++ lq s ++ pend l s (work h) = expected n (lk s) (lf s) l (hlog h).
Proof. exact HubTheorems.each_event_once_in_order. Qed.
Print Assumptions each_event_once_in_order.

(** C15 — emit_never_blocks: Emit on either broker never waits for anybody and leaves the hub untouched, stopped hub or not *)
From Coq Require Import Lia.
From IV Require Import Base.Bytes Model.Hub Model.HubFed Proofs.HubBasics Proofs.HubTheorems Proofs.LifecycleHub.
From IV Require Import Proofs.HubFedStop.
Theorem emit_never_blocks :
  forall c s m,
    (exists s', fstep3 c s (F3 (F2 (FEmit m))) = Some s' /\ fh (f2 s') = fh (f2 s)) /\
    (exists s', fstep3 c s (F3 (F2EmitDel m)) = Some s' /\ fh (f2 s') = fh (f2 s)).
Proof. first [exact HubFedStop.emit_never_blocks | intros; apply HubFedStop.emit_never_blocks]. Qed.
Print Assumptions emit_never_blocks.

(** C15 — [NB: by definition of view_step the entitlement of l ignores ops about k, so this is each_event_once_in_order restated; the isolation content is that that theorem holds over all schedules including k's failures and closes. That a failed/closed listener leaves the registrations and is never called again: error_unregisters, remove_unregisters, dropped_listener_never_called_again.] whatever another listener k does (joins, fails, is closed with events buffered, leaves), a healthy listener l holds the stream it would be entitled to had the hub never heard of k *)
From IV Require Import Base.Bytes Model.Hub Proofs.HubBasics Proofs.HubInv Proofs.HubTheorems Proofs.HubHistory Proofs.HubWitness.
Local Open Scope nat_scope.
Theorem faulty_listener_isolated : forall n c acts h l s k,
    run c (hub_init n) acts = Some h -> k <> l ->
    find_l l (ls h) = Some s -> lclosed s = false -> lerred s = false ->
    lout s ++ lq s ++ pend l s (work h)
    = expected n (lk s) (lf s) l (filter (fun o => negb (about k o)) (hlog h)).
Proof. exact HubTheorems.faulty_listener_isolated. Qed.
Print Assumptions faulty_listener_isolated.

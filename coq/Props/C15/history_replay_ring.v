(** C15 — operational reading without the uniqueness assumption: the replay is the live part of the ring (holes for deleted messages) as it stood at the join *)
From IV Require Import Base.Bytes Model.Hub Proofs.HubBasics Proofs.HubInv Proofs.HubTheorems Proofs.HubHistory Proofs.HubWitness.
Local Open Scope nat_scope.
Theorem history_replay_ring : forall n c acts h l s pre post,
    run c (hub_init n) acts = Some h ->
    find_l l (ls h) = Some s -> lclosed s = false -> lerred s = false ->
    hlog h = pre ++ OAdd l :: post -> ~ In l (adds pre) ->
    exists later,
      lout s ++ lq s ++ pend l s (work h)
      = filter (wants (lk s) (lf s)) (map Stored (ring_live (ring_after (ring_init n) pre))) ++ later.
Proof. exact HubTheorems.history_replay_ring. Qed.
Print Assumptions history_replay_ring.

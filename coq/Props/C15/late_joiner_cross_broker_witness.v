(** C15 — late_joiner_cross_broker_witness: the cross-broker finding (K-C16-cross-broker-order) at the monitors: a schedule in which the deleted broker runs first leaves a removed message in the history, and a late joiner is replayed it *)
From Coq Require Import List Arith Lia.
From IV Require Import Base.Bytes Base.BytesFacts Model.StoreSpec Model.MemStore Model.FileStore Model.Events.
From IV Require Import Proofs.FileStoreClock Proofs.EventsCount Proofs.EventsHistory.
From IV Require Import Model.Hub Model.HubFed Proofs.HubBasics Proofs.HubInv Proofs.HubTheorems Proofs.HubHistory Proofs.HubFed.
From IV Require Import Proofs.HubStore.
Theorem late_joiner_cross_broker_witness :
  exists st ls0,
    frun2 pinned_cfg (fed2_init 2) xb_sched = Some st /\ quiescent2 st = true /\
    find_l 2 (ls (fh (f2 st))) = Some ls0 /\ lclosed ls0 = false /\ lerred ls0 = false /\
    lout ls0 ++ lq ls0 = [Stored xb_msg] /\
    (* … whereas in the store's own order the message is gone *)
    spec_history 2 [ODispatch xb_msg; ODelete xb_msg] = [].
Proof. first [exact HubStore.late_joiner_cross_broker_witness | intros; apply HubStore.late_joiner_cross_broker_witness]. Qed.
Print Assumptions late_joiner_cross_broker_witness.

(** C15 — a monitor attached before the first Emit holds, at quiescence, exactly the emitted sequence (through its filter), whatever the interleaving of broker and hub *)
From IV Require Import Base.Bytes Model.Hub Model.HubFed Proofs.HubBasics Proofs.HubFed.
Local Open Scope nat_scope.
Theorem attached_before_first_emit : forall n c l k f fail s2 st ls0,
    frun c (fed_init n) (FJoin l k f fail :: s2) = Some st -> quiescent st = true ->
    find_l l (ls (fh st)) = Some ls0 -> lclosed ls0 = false -> lerred ls0 = false ->
    lout ls0 ++ lq ls0 = filter (wants (lk ls0) (lf ls0)) (map Stored (emitted s2)).
Proof. exact HubFed.attached_before_first_emit. Qed.
Print Assumptions attached_before_first_emit.

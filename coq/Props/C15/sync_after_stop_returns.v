(** C15 — sync_after_stop_returns: a late hub.Sync returns at once *)
From Coq Require Import Lia.
From IV Require Import Base.Bytes Model.Hub Model.HubFed Proofs.HubBasics Proofs.HubTheorems Proofs.LifecycleHub.
From IV Require Import Proofs.HubFedStop.
Theorem sync_after_stop_returns :
  forall c s tok, stopped (fh (f2 s)) = true ->
    exists s', fstep3 c s (F3Sync tok) = Some s' /\ fh (f2 s') = fh (f2 s) /\ sync_returns (fh (f2 s')) tok.
Proof. first [exact HubFedStop.sync_after_stop_returns | intros; apply HubFedStop.sync_after_stop_returns]. Qed.
Print Assumptions sync_after_stop_returns.

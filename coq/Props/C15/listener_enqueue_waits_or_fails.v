(** C15 — listener_enqueue_waits_or_fails: the v1 and v2 listeners enqueue has exactly [send queue | done -> error], no default arm *)
From IV Require Import Base.Bytes Gen.HubShape Model.Hub Model.HubShape.
From IV Require Import Proofs.HubShape.
Theorem listener_enqueue_waits_or_fails :
  v1_enqueue_arms = model_listener_arms /\ v2_enqueue_arms = model_listener_arms.
Proof. first [exact HubShape.listener_enqueue_waits_or_fails | intros; apply HubShape.listener_enqueue_waits_or_fails]. Qed.
Print Assumptions listener_enqueue_waits_or_fails.

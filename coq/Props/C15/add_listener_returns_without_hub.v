(** C15 — AddListener (and so the real listeners' constructors, called by the web handler before it starts the socket writer) only submits an op: it is enabled whenever the op queue has room (or the hub has stopped), whatever the hub goroutine is doing, and touches nothing else *)
From IV Require Import Base.Bytes Model.Hub Proofs.HubBasics Proofs.HubJoin.
Local Open Scope nat_scope.
Theorem add_listener_returns_without_hub : forall c h l k f fail,
    find_l l (ls h) = None -> (stopped h = true \/ length (opq h) < opcap c) ->
    exists h1, step c h (ANew l k f fail) = Some h1 /\
               work h1 = work h /\ regs h1 = regs h /\ hlog h1 = hlog h /\
               forall l0, l0 <> l -> find_l l0 (ls h1) = find_l l0 (ls h).
Proof. exact HubJoin.add_listener_returns_without_hub. Qed.
Print Assumptions add_listener_returns_without_hub.

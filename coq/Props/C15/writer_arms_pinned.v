(** C15 — writer_arms_pinned: the socket writers of the source (translator) have exactly the arms the model assumes: on an event ONE write of exactly that event with a deadline, ending on error; one ping per tick; one close frame when done; Close deferred in writer and reader *)
From Coq Require Import Lia.
From IV Require Import Base.Bytes Gen.HubWriter Model.Hub Model.HubWriter Proofs.HubBasics Proofs.HubClose.
From IV Require Import Proofs.HubWriter.
Theorem writer_arms_pinned :
  v1_writer_arms = model_writer_arms /\ v2_writer_arms = model_writer_arms /\
  v1_writer_defers_close = true /\ v2_writer_defers_close = true /\
  v1_reader_defers_close = true /\ v2_reader_defers_close = true.
Proof. first [exact HubWriter.writer_arms_pinned | intros; apply HubWriter.writer_arms_pinned]. Qed.
Print Assumptions writer_arms_pinned.

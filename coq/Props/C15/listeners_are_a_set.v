(** C15 — listeners_are_a_set: the source holds the listeners in a map keyed by the listener (translator: Gen/HubShape.v) *)
From IV Require Import Base.Bytes Gen.HubShape Model.Hub Model.HubShape.
From IV Require Import Proofs.HubShape.
Theorem listeners_are_a_set : listeners_container = CMap.
Proof. first [exact HubShape.listeners_are_a_set | intros; apply HubShape.listeners_are_a_set]. Qed.
Print Assumptions listeners_are_a_set.

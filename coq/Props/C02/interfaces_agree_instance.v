(** C02 — an instance evaluated by the kernel: two mailboxes, three deliveries, one removal; the live message a/1 (content "A3\nB") through the REST handler, the web-UI handler and the POP3 view of the same store; the POP3 client decodes "A3\r\nB\r\n" *)
From Coq Require Import List NArith ZArith.
From IV Require Import Base.Bytes Model.StoreSpec.
From IV Require Model.Rest Model.Pop3Wire Model.Pop3 Model.Pop3Store.
From IV Require Import Proofs.InterfacesAgree.
Import ListNotations.
Theorem interfaces_agree_instance :
  nth_error (box [97%N] (live ia_st)) 0 = Some ia_e /\
  Rest.run_handler (fun n => Some n) ia_cfg (fun _ _ => true) ia_st Rest.HSrc [97%N] (Rest.id_of_k 1) [] Rest.BTrue
    = (ia_st, (Rest.S200, Rest.PSrc (1%nat, e_msg ia_e))) /\
  Rest.run_handler (fun n => Some n) ia_cfg (fun _ _ => true) ia_st Rest.USrc [97%N] (Rest.id_of_k 1) [] Rest.BTrue
    = (ia_st, (Rest.S200, Rest.PSrc (1%nat, e_msg ia_e))) /\
  map Pop3.ssrc (Pop3.mmsgs (Pop3.get_box (Pop3Store.abs ia_content ia_st) [97%N])) = [ia_content 3%N] /\
  Pop3Wire.pop3_client_decode (Pop3Wire.pop3_send (ia_content 3%N)) = Some [65%N; 51%N; 13%N; 10%N; 66%N; 13%N; 10%N] /\
  m_size (e_msg ia_e) = Pop3.lenN (ia_content 3%N).
Proof. exact InterfacesAgree.interfaces_agree_instance. Qed.
Print Assumptions interfaces_agree_instance.

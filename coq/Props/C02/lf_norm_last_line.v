(** C02 — lf_norm_last_line *)
From IV Require Import Base.Bytes Model.Dot.
From Coq Require Import ZifyN ZifyNat ZifyBool Lia.
From IV Require Import Proofs.DotLines.
Theorem lf_norm_last_line : forall l, l <> [] -> ~ In LFb l -> lf_norm l = l ++ [LFb].
Proof. first [exact DotLines.lf_norm_last_line | intros; apply DotLines.lf_norm_last_line]. Qed.
Print Assumptions lf_norm_last_line.

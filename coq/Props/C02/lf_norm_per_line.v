(** C02 — lf_norm_per_line *)
From IV Require Import Base.Bytes Model.Dot.
From Coq Require Import ZifyN ZifyNat ZifyBool Lia.
From IV Require Import Proofs.DotLines.
Theorem lf_norm_per_line : forall b, let '(ls, r) := split_lf b in
  lf_norm b = unsplit (map strip1 ls) (match r with [] => [] | _ => r ++ [LFb] end).
Proof. first [exact DotLines.lf_norm_per_line | intros; apply DotLines.lf_norm_per_line]. Qed.
Print Assumptions lf_norm_per_line.

(** C02 — lf_norm_terminated_line *)
From IV Require Import Base.Bytes Model.Dot.
From Coq Require Import ZifyN ZifyNat ZifyBool Lia.
From IV Require Import Proofs.DotLines.
Theorem lf_norm_terminated_line : forall l rest, ~ In LFb l ->
  lf_norm (l ++ LFb :: rest) = strip1 l ++ LFb :: lf_norm rest.
Proof. first [exact DotLines.lf_norm_terminated_line | intros; apply DotLines.lf_norm_terminated_line]. Qed.
Print Assumptions lf_norm_terminated_line.

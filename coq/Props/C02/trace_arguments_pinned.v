(** C02 — trace_arguments_pinned *)
From IV Require Import Base.Bytes Model.Dot Gen.SmtpTrace.
From IV Require Import Proofs.SmtpTraceFmt.
Theorem trace_arguments_pinned :
  fmt_retpath_args = [[102;114;111;109;46;65;100;100;114;101;115;115;46;65;100;100;114;101;115;115]] /\
  fmt_received_args = [[115;46;114;101;109;111;116;101;68;111;109;97;105;110];
                       [115;46;114;101;109;111;116;101;72;111;115;116];
                       [115;46;99;111;110;102;105;103;46;68;111;109;97;105;110]] /\
  fmt_for_args = [[114;101;99;118;100;72;101;97;100;101;114]; [109;98]; [116;115;116;97;109;112]].
Proof. first [exact SmtpTraceFmt.trace_arguments_pinned | intros; apply SmtpTraceFmt.trace_arguments_pinned]. Qed.
Print Assumptions trace_arguments_pinned.

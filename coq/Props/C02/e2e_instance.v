(** C02 — smtp_bytes_to_read_interfaces on a concrete dialogue evaluated by the kernel (non-vacuity): HELO a, MAIL FROM:<x@y>, RCPT TO:<z@w>, DATA, a block with CRLF line ends, QUIT on a store with cap 3: mailbox z holds one entry; the delivery's body is lf_norm of the bytes sent; the POP3 view of that store holds Return-Path / Received headers followed by the body with LF line ends *)
From Coq Require Import List NArith ZArith Lia.
From IV Require Import Base.Bytes Base.BytesFacts Model.Policy Model.Smtp Model.Dot Model.SmtpWire Model.StoreSpec.
From IV Require Import Proofs.StoreSpecFacts Proofs.SmtpInv Proofs.SmtpThms Proofs.DotCodec Proofs.SmtpCut Proofs.SmtpCutTrace.
From IV Require Import Proofs.StoreCap Proofs.DeliverStore Proofs.DeliverStoreCap Proofs.InterfacesAgree.
From IV Require Model.Rest Model.Pop3 Model.Pop3Store Model.Pop3Wire.
From IV Require Import Proofs.SmtpExamples.
From IV Require Import Proofs.EndToEnd.
Import ListNotations.
Local Open Scope N_scope.
Theorem e2e_instance :
  exists e d,
    nth_error (box [122] (live (store_of e2e_tag 5%Z 3%nat (deliveries_of (snd (fst (run_bytes c0 orc w_all))))))) 0%nat = Some e /\
    d_body d = lf_norm [83;58;32;49;13;10;13;10;104;105;13;10] /\
    nth_error (Pop3.mmsgs (Pop3.get_box (Pop3Store.abs e2e_content
        (store_of e2e_tag 5%Z 3%nat (deliveries_of (snd (fst (run_bytes c0 orc w_all)))))) [122])) 0%nat =
      Some {| Pop3.sid := Pop3Store.id_of_k (e_k e); Pop3.ssrc := e2e_src d |} /\
    e2e_src d = trace_headers [120;64;121] [97] e2e_ip [100] [122] ++ [83;58;32;49;10;10;104;105;10].
Proof. first [exact EndToEnd.e2e_instance | intros; apply EndToEnd.e2e_instance]. Qed.
Print Assumptions e2e_instance.

(** C02 — truncated_is_none *)
From IV Require Import Base.Bytes Model.Dot.
From Coq Require Import ZifyN ZifyNat ZifyBool Lia.
From IV Require Import Proofs.DotCodec.
Theorem truncated_is_none : forall w st d r k,
  dec st w = Some (d, r) -> (k < length w - length r)%nat -> dec st (firstn k w) = None.
Proof. exact DotCodec.truncated_is_none. Qed.
Print Assumptions truncated_is_none.

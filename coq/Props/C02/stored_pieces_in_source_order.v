(** C02 — stored_pieces_in_source_order *)
From IV Require Import Base.Bytes Model.Dot Gen.SmtpTrace.
From IV Require Import Proofs.SmtpTraceFmt.
Theorem stored_pieces_in_source_order :
  deliver_piece_order = [[114;101;116;117;114;110;80;97;116;104]; [114;101;99;118;100]; [115;111;117;114;99;101]] /\
  forall retpath helo ip domain mailbox payload,
    stored_source retpath helo ip domain mailbox payload =
    render fmt_retpath [retpath] ++
    render fmt_for [render fmt_received [helo; ip; domain]; mailbox; tstamp_mask] ++ payload.
Proof. first [exact SmtpTraceFmt.stored_pieces_in_source_order | intros; apply SmtpTraceFmt.stored_pieces_in_source_order]. Qed.
Print Assumptions stored_pieces_in_source_order.

(** C02 / C01 (with C07, C13, C14 composed) — the forward direction of the end-to-end statement, store without a cap: every delivery d of the dialogue over the bytes w (with delivery_exact: exactly one per accepted, storable recipient of every transaction answered 250) is in the mailbox it names — some entry e at some position i carries its tag — REST /source answers exactly that entry and the POP3 view holds src d at that position: every message the session acknowledged can be read back through every interface. content (tag_of d') = src d' is asked only of the dialogue's own deliveries *)
From Coq Require Import List NArith ZArith.
From IV Require Import Base.Bytes Model.Smtp Model.Dot Model.SmtpWire Model.StoreSpec Proofs.DeliverStoreCap.
From IV Require Model.Rest Model.Pop3Wire Model.Pop3 Model.Pop3Store.
From IV Require Import Proofs.EndToEnd.
Import ListNotations.
Theorem every_delivery_is_readable : forall (tag_of : delivery -> N) (date : Z) (content : N -> str) (src : delivery -> str)
    (mfa : str -> option str) (srcok : str -> nat -> bool) c o w d name num body,
  let tr := snd (fst (run_bytes c o w)) in
  let st := store_of tag_of date 0 (deliveries_of tr) in
  (forall d', In d' (deliveries_of tr) -> content (tag_of d') = src d') ->
  In d (deliveries_of tr) -> mfa name = Some (d_mailbox d) ->
  (forall k, srcok (d_mailbox d) k = true) ->
  exists i e,
    nth_error (box (d_mailbox d) (live st)) i = Some e /\ m_tag (e_msg e) = tag_of d /\
    Rest.run_handler mfa (cfgc 0) srcok st Rest.HSrc name (Rest.id_of_k (e_k e)) num body = (st, (Rest.S200, Rest.PSrc (e_k e, e_msg e))) /\
    nth_error (Pop3.mmsgs (Pop3.get_box (Pop3Store.abs content st) (d_mailbox d))) i =
      Some {| Pop3.sid := Pop3Store.id_of_k (e_k e); Pop3.ssrc := src d |}.
Proof. exact EndToEnd.every_delivery_is_readable. Qed.
Print Assumptions every_delivery_is_readable.

(** C02 — dot_roundtrip *)
From IV Require Import Base.Bytes Model.Dot.
From Coq Require Import ZifyN ZifyNat ZifyBool Lia.
From IV Require Import Proofs.DotCodec.
Theorem dot_roundtrip : forall body rest, dec BeginLine (enc body ++ rest) = Some (lf_norm body, rest).
Proof. exact DotCodec.dot_roundtrip. Qed.
Print Assumptions dot_roundtrip.

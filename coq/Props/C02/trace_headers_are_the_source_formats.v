(** C02 — trace_headers_are_the_source_formats *)
From IV Require Import Base.Bytes Model.Dot Gen.SmtpTrace.
From IV Require Import Proofs.SmtpTraceFmt.
Theorem trace_headers_are_the_source_formats : forall retpath helo ip domain mailbox,
  render fmt_retpath [retpath] ++
  render fmt_for [render fmt_received [helo; ip; domain]; mailbox; tstamp_mask]
  = trace_headers retpath helo ip domain mailbox.
Proof. first [exact SmtpTraceFmt.trace_headers_are_the_source_formats | intros; apply SmtpTraceFmt.trace_headers_are_the_source_formats]. Qed.
Print Assumptions trace_headers_are_the_source_formats.

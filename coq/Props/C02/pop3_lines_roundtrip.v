(** C02 — pop3_lines_roundtrip *)
From Coq Require Import ZifyN ZifyNat ZifyBool.
From IV Require Import Base.Bytes Base.BytesFacts Model.Pop3Wire.
From IV Require Import Proofs.Pop3Wire.
Theorem pop3_lines_roundtrip src rest :
  pop3_client_lines (pop3_send src ++ rest) = Some (scan_lines src, rest).
Proof. first [exact Pop3Wire.pop3_lines_roundtrip | intros; apply Pop3Wire.pop3_lines_roundtrip]. Qed.
Print Assumptions pop3_lines_roundtrip.

(** C02 — every message a connection delivers has as its body the dot-decoding of a DATA block that stands in the bytes the client sent: for every delivery d in the transcript of run_bytes c o w some suffix of w begins with a block that decodes to d_body d (block_in). With dot_roundtrip: a client that sent enc body reads back lf_norm body, nothing else *)
From Coq Require Import List NArith ZArith Lia.
From IV Require Import Base.Bytes Base.BytesFacts Model.Policy Model.Smtp Model.Dot Model.SmtpWire Model.StoreSpec.
From IV Require Import Proofs.StoreSpecFacts Proofs.SmtpInv Proofs.SmtpThms Proofs.DotCodec Proofs.SmtpCut Proofs.SmtpCutTrace.
From IV Require Import Proofs.StoreCap Proofs.DeliverStore Proofs.DeliverStoreCap Proofs.InterfacesAgree.
From IV Require Model.Rest Model.Pop3 Model.Pop3Store Model.Pop3Wire.
From IV Require Proofs.SmtpExamples.
From IV Require Import Proofs.EndToEnd.
Theorem delivered_bodies_are_decoded_blocks : forall c o w d,
  In d (deliveries_of (snd (fst (run_bytes c o w)))) -> block_in w (d_body d).
Proof. first [exact EndToEnd.delivered_bodies_are_decoded_blocks | intros; apply EndToEnd.delivered_bodies_are_decoded_blocks]. Qed.
Print Assumptions delivered_bodies_are_decoded_blocks.

(** C02 — pop3_top_roundtrip *)
From Coq Require Import ZifyN ZifyNat ZifyBool.
From IV Require Import Base.Bytes Base.BytesFacts Model.Pop3Wire.
From IV Require Import Proofs.Pop3Wire.
Theorem pop3_top_roundtrip src n :
  pop3_client_decode (pop3_send_top src n) = Some (crlf_join (top_spec (scan_lines src) n)).
Proof. first [exact Pop3Wire.pop3_top_roundtrip | intros; apply Pop3Wire.pop3_top_roundtrip]. Qed.
Print Assumptions pop3_top_roundtrip.

(** C02 — pop3_roundtrip *)
From Coq Require Import ZifyN ZifyNat ZifyBool.
From IV Require Import Base.Bytes Base.BytesFacts Model.Pop3Wire.
From IV Require Import Proofs.Pop3Wire.
Theorem pop3_roundtrip src :
  pop3_client_decode (pop3_send src) = Some (crlf_join (scan_lines src)).
Proof. first [exact Pop3Wire.pop3_roundtrip | intros; apply Pop3Wire.pop3_roundtrip]. Qed.
Print Assumptions pop3_roundtrip.

(** C02 — strip1_cr *)
From IV Require Import Base.Bytes Model.Dot.
From Coq Require Import ZifyN ZifyNat ZifyBool Lia.
From IV Require Import Proofs.DotLines.
Theorem strip1_cr : forall l, strip1 (l ++ [CRb]) = l.
Proof. first [exact DotLines.strip1_cr | intros; apply DotLines.strip1_cr]. Qed.
Print Assumptions strip1_cr.

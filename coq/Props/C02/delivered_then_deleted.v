(** C02 — (with C07, C13, C14 composed) the whole life of a message: for any bytes w on one SMTP connection and any delivery d of the dialogue over them (store without a cap), d is in the mailbox it names and REST /source and the POP3 view serve it (every_delivery_is_readable); REST DELETE of that entry answers 200 and leaves the store without exactly that entry, invariant kept; afterwards the store, REST /source and web-UI /source answer not-there and the POP3 view of the mailbox is the old one minus that message in the old order; every other live entry is still live (so read_interfaces_agree_on_source applies to it on the new store) and every other mailbox is untouched *)
From Coq Require Import List NArith ZArith.
From IV Require Import Base.Bytes Model.Smtp Model.Dot Model.SmtpWire Model.StoreSpec Proofs.StoreSpecFacts Proofs.DeliverStoreCap.
From IV Require Model.Rest Model.Pop3Wire Model.Pop3 Model.Pop3Store.
From IV Require Import Proofs.EndToEnd Proofs.EndToEndLifecycle.
Import ListNotations.
Theorem delivered_then_deleted : forall (tag_of : delivery -> N) (date : Z) (content : N -> str) (src : delivery -> str)
    (mfa : str -> option str) (srcok : str -> nat -> bool) c o w d name num body,
  let tr := snd (fst (run_bytes c o w)) in
  let st := store_of tag_of date 0 (deliveries_of tr) in
  (forall d', In d' (deliveries_of tr) -> content (tag_of d') = src d') ->
  In d (deliveries_of tr) -> mfa name = Some (d_mailbox d) ->
  (forall k, srcok (d_mailbox d) k = true) ->
  exists i e,
    (* 1. readable *)
    nth_error (box (d_mailbox d) (live st)) i = Some e /\ m_tag (e_msg e) = tag_of d /\
    Rest.run_handler mfa (cfgc 0) srcok st Rest.HSrc name (Rest.id_of_k (e_k e)) num body = (st, (Rest.S200, Rest.PSrc (e_k e, e_msg e))) /\
    nth_error (Pop3.mmsgs (Pop3.get_box (Pop3Store.abs content st) (d_mailbox d))) i =
      Some {| Pop3.sid := Pop3Store.id_of_k (e_k e); Pop3.ssrc := src d |} /\
    (* 2. deleted *)
    let st' := {| live := remove_ent (d_mailbox d) (e_k e) (live st); counts := counts st |} in
    Rest.run_handler mfa (cfgc 0) srcok st Rest.HDel name (Rest.id_of_k (e_k e)) num body = (st', (Rest.S200, Rest.POk)) /\
    SInv st' /\
    (* 3. gone everywhere *)
    exec_spec (cfgc 0) st' (Get (d_mailbox d) (Kth (e_k e))) = (st', OGet NotExist, []) /\
    Rest.run_handler mfa (cfgc 0) srcok st' Rest.HSrc name (Rest.id_of_k (e_k e)) num body = (st', (Rest.S404, Rest.PNone)) /\
    Rest.run_handler mfa (cfgc 0) srcok st' Rest.USrc name (Rest.id_of_k (e_k e)) num body = (st', (Rest.S404, Rest.PNone)) /\
    Pop3.mmsgs (Pop3.get_box (Pop3Store.abs content st') (d_mailbox d)) =
      map (Pop3Store.smsg_of content) (filter (fun x => negb (Nat.eqb (e_k x) (e_k e))) (box (d_mailbox d) (live st))) /\
    (* 4. everything else stays *)
    (forall x, In x (live st) -> x <> e -> In x (live st')) /\
    (forall mb', mb' <> d_mailbox d -> box mb' (live st') = box mb' (live st)).
Proof. exact EndToEndLifecycle.delivered_then_deleted. Qed.
Print Assumptions delivered_then_deleted.

(** C02 — (with C01, C07, C14 composed) the life of a message ended through POP3: for any bytes on one SMTP connection and any delivery d of the dialogue, the message is in its mailbox and REST serves it; the store the dialogue built satisfies the invariant of the POP3 commit theorem, so for ANY POP3 session over that store in TRANSACTION state on that mailbox that marked the message (snapshot position j, retain flag false) its QUIT ends the session and leaves a store - the one the POP3 model then sees - on which Store.GetMessage answers not-there and REST /source and web-UI /source answer 404 for it; nothing new is live and every other mailbox is untouched *)
From Coq Require Import List NArith ZArith.
From IV Require Import Base.Bytes Model.Smtp Model.Dot Model.SmtpWire Model.StoreSpec Proofs.StoreSpecFacts Proofs.DeliverStoreCap.
From IV Require Model.Rest Model.Pop3Wire Model.Pop3 Model.Pop3Store Proofs.Pop3 Proofs.Pop3Store.
From IV Require Import Proofs.EndToEnd Proofs.EndToEndLifecycle.
Import ListNotations.
Theorem delivered_then_popped : forall (tag_of : delivery -> N) (date : Z) (content : N -> str) (src : delivery -> str)
    (mfa : str -> option str) (srcok : str -> nat -> bool) c o w d name num body fl pw args j m,
  let tr := snd (fst (run_bytes c o w)) in
  let st := store_of tag_of date 0 (deliveries_of tr) in
  (forall d', In d' (deliveries_of tr) -> content (tag_of d') = src d') ->
  In d (deliveries_of tr) -> mfa name = Some (d_mailbox d) ->
  (forall k, srcok (d_mailbox d) k = true) ->
  exists i e,
    nth_error (box (d_mailbox d) (live st)) i = Some e /\ m_tag (e_msg e) = tag_of d /\
    Rest.run_handler mfa (cfgc 0) srcok st Rest.HSrc name (Rest.id_of_k (e_k e)) num body = (st, (Rest.S200, Rest.PSrc (e_k e, e_msg e))) /\
    (* any POP3 session on that mailbox over that store which marked it … *)
    (Pop3.w_store pw = Pop3Store.abs content st -> Proofs.Pop3.winv pw ->
     Pop3.s_state (Pop3.w_sess pw) = Pop3.Trans -> Pop3.s_user (Pop3.w_sess pw) = d_mailbox d ->
     nth_error (Pop3.s_msgs (Pop3.w_sess pw)) j = Some m -> nth_error (Pop3.s_retain (Pop3.w_sess pw)) j = Some false ->
     Pop3.p_id m = Pop3Store.id_of_k (e_k e) ->
     let st' := final_spec (cfgc 0) st (Pop3Store.quit_ops (d_mailbox d) (Pop3.s_msgs (Pop3.w_sess pw)) (Pop3.s_retain (Pop3.w_sess pw))) in
     let pw' := Pop3.wstep fl pw (Pop3.ECmd (Pop3.CCmd Pop3.QUIT args)) in
     (* … ends with its QUIT, after which the message is gone from the store, REST and the web UI *)
     Pop3.s_state (Pop3.w_sess pw') = Pop3.Closed /\ Pop3.w_store pw' = Pop3Store.abs content st' /\
     exec_spec (cfgc 0) st' (Get (d_mailbox d) (Kth (e_k e))) = (st', OGet NotExist, []) /\
     Rest.run_handler mfa (cfgc 0) srcok st' Rest.HSrc name (Rest.id_of_k (e_k e)) num body = (st', (Rest.S404, Rest.PNone)) /\
     Rest.run_handler mfa (cfgc 0) srcok st' Rest.USrc name (Rest.id_of_k (e_k e)) num body = (st', (Rest.S404, Rest.PNone)) /\
     (forall x, In x (live st') -> In x (live st)) /\
     (forall mb', mb' <> d_mailbox d -> box mb' (live st') = box mb' (live st))).
Proof. exact EndToEndLifecycle.delivered_then_popped. Qed.
Print Assumptions delivered_then_popped.

(** C02 — strip1_other *)
From IV Require Import Base.Bytes Model.Dot.
From Coq Require Import ZifyN ZifyNat ZifyBool Lia.
From IV Require Import Proofs.DotLines.
Theorem strip1_other : forall l c, c <> CRb -> strip1 (l ++ [c]) = l ++ [c].
Proof. first [exact DotLines.strip1_other | intros; apply DotLines.strip1_other]. Qed.
Print Assumptions strip1_other.

(** C02 (with C01, C07, C13, C14 composed) — from the bytes on the SMTP wire to the bytes every read interface serves: whatever bytes w a client sends on one connection, for every entry e any mailbox mb of the (capped) store holds afterwards there is a delivery d of that dialogue to exactly mb whose body is the dot-decoding of a DATA block standing in w; the bytes behind e are src d; Store.GetMessage, REST /source and the web UI's /source answer exactly this entry and leave the store unchanged; the POP3 view holds src d at the same position, and the POP3 wire form of src d decodes to its CRLF normalisation. content (tag_of d) = src d is asked only of the dialogue's own deliveries (the store models keep content opaque). Sizes and the transport glue are outside this statement *)
From Coq Require Import List NArith ZArith.
From IV Require Import Base.Bytes Model.Smtp Model.Dot Model.SmtpWire Model.StoreSpec Proofs.DeliverStoreCap.
From IV Require Model.Rest Model.Pop3Wire Model.Pop3 Model.Pop3Store.
From IV Require Import Proofs.EndToEnd.
Import ListNotations.
Theorem smtp_bytes_to_read_interfaces : forall (tag_of : delivery -> N) (date : Z) (cap : nat) (content : N -> str) (src : delivery -> str)
    (mfa : str -> option str) (srcok : str -> nat -> bool) c o w name mb i e num body,
  let tr := snd (fst (run_bytes c o w)) in
  let st := store_of tag_of date cap (deliveries_of tr) in
  (forall d, In d (deliveries_of tr) -> content (tag_of d) = src d) ->
  mfa name = Some mb -> nth_error (box mb (live st)) i = Some e -> srcok mb (e_k e) = true ->
  exists d,
    In d (deliveries_of tr) /\ d_mailbox d = mb /\ block_in w (d_body d) /\
    content (m_tag (e_msg e)) = src d /\
    exec_spec (cfgc cap) st (Get mb (Kth (e_k e))) = (st, OGet (StoreSpec.Ok (e_k e, e_msg e)), []) /\
    Rest.run_handler mfa (cfgc cap) srcok st Rest.HSrc name (Rest.id_of_k (e_k e)) num body = (st, (Rest.S200, Rest.PSrc (e_k e, e_msg e))) /\
    Rest.run_handler mfa (cfgc cap) srcok st Rest.USrc name (Rest.id_of_k (e_k e)) num body = (st, (Rest.S200, Rest.PSrc (e_k e, e_msg e))) /\
    nth_error (Pop3.mmsgs (Pop3.get_box (Pop3Store.abs content st) mb)) i =
      Some {| Pop3.sid := Pop3Store.id_of_k (e_k e); Pop3.ssrc := src d |} /\
    Pop3Wire.pop3_client_decode (Pop3Wire.pop3_send (src d)) = Some (Pop3Wire.pop3_norm (src d)).
Proof. exact EndToEnd.smtp_bytes_to_read_interfaces. Qed.
Print Assumptions smtp_bytes_to_read_interfaces.

(** C02 / C01 — performing a dialogue's deliveries on the abstract store with the sizes the real stores record (sz of the tag) instead of the body lengths changes nothing but the size field of the entries: the mailbox cap does not look at sizes (no byte limit in this configuration). This is what lets the end-to-end theorem carry its size clause *)
From Coq Require Import List NArith ZArith.
From IV Require Import Base.Bytes Model.Smtp Model.StoreSpec Proofs.DeliverStoreCap.
From IV Require Import Proofs.EndToEnd Proofs.EndToEndSize.
Import ListNotations.
Theorem sized_store_is_the_store_resized : forall (tag_of : delivery -> N) (date : Z) (cap : nat) (sz : N -> N) ds,
  live (store_sz tag_of date cap sz ds) = map (rz sz) (live (store_of tag_of date cap ds)).
Proof. exact EndToEndSize.sized_store_is_the_store_resized. Qed.
Print Assumptions sized_store_is_the_store_resized.

(** C02 — dot_lines *)
From IV Require Import Base.Bytes Model.Dot.
From Coq Require Import ZifyN ZifyNat ZifyBool Lia.
From IV Require Import Proofs.DotCodec.
Theorem dot_lines : forall ls rest, (forall l, In l ls -> ~ In LFb l) ->
  dec BeginLine (wire ls ++ rest) = Some (joined_lf ls, rest).
Proof. exact DotCodec.dot_lines. Qed.
Print Assumptions dot_lines.

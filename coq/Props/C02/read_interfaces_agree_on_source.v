(** C02 — over ONE abstract store, for a live message e (the i-th of mailbox mb) whose content can be opened: Store.GetMessage answers (e_k e, e_msg e); the REST /source handler and the web-UI /source handler answer 200 with the source of exactly this message and leave the store unchanged; the POP3 model's view of the same store holds content (m_tag (e_msg e)) at the same position, and any session that logged in on the mailbox in this state RETRs exactly pop3_send of these bytes, announces their length, and the client decodes them to their CRLF normalisation; the sizes shown agree with the length of these bytes when the delivery recorded it. Outside: the HTTP / POP3 transport glue *)
From Coq Require Import List NArith ZArith.
From IV Require Import Base.Bytes Model.StoreSpec Proofs.StoreSpecFacts.
From IV Require Model.Rest Model.Pop3Wire Model.Pop3 Model.Pop3Store.
From IV Require Import Proofs.InterfacesAgree.
Import ListNotations.
Theorem read_interfaces_agree_on_source : forall (mfa : str -> option str) (cfg : scfg) (srcok : str -> nat -> bool) (content : N -> str)
    st name mb e i num body,
  SInv st -> mfa name = Some mb -> nth_error (box mb (live st)) i = Some e -> srcok mb (e_k e) = true ->
  let bytes := content (m_tag (e_msg e)) in
  exec_spec cfg st (Get mb (Kth (e_k e))) = (st, OGet (Ok (e_k e, e_msg e)), []) /\
  Rest.run_handler mfa cfg srcok st Rest.HSrc name (Rest.id_of_k (e_k e)) num body = (st, (Rest.S200, Rest.PSrc (e_k e, e_msg e))) /\
  Rest.run_handler mfa cfg srcok st Rest.USrc name (Rest.id_of_k (e_k e)) num body = (st, (Rest.S200, Rest.PSrc (e_k e, e_msg e))) /\
  nth_error (Pop3.mmsgs (Pop3.get_box (Pop3Store.abs content st) mb)) i =
    Some {| Pop3.sid := Pop3Store.id_of_k (e_k e); Pop3.ssrc := bytes |} /\
  (forall fl w ev evs a,
     Pop3.w_store w = Pop3Store.abs content st ->
     Pop3.s_state (Pop3.w_sess w) = Pop3.Auth ->
     Pop3.s_state (Pop3.w_sess (Pop3.wstep fl w ev)) = Pop3.Trans ->
     let w2 := Pop3.run fl (Pop3.wstep fl w ev) evs in
     Pop3.s_state (Pop3.w_sess w2) = Pop3.Trans ->
     Pop3.s_user (Pop3.w_sess w2) = mb ->
     Pop3.msg_index (Pop3.w_sess w2) a = Some i ->
     fl = Pop3.Mem \/ Pop3.has_msg (Pop3.w_store w2) mb (Pop3Store.id_of_k (e_k e)) = true ->
     exists r, Pop3.step fl (Pop3.w_store w2) (Pop3.w_sess w2) (Pop3.CCmd Pop3.RETR [a]) = (Pop3.w_sess w2, r, Pop3.w_store w2) /\
               Pop3.r_ok r = true /\ Pop3.r_nums r = [Z.of_N (Pop3.lenN bytes)] /\
               Pop3.r_body r = Pop3.BWire (Pop3Wire.pop3_send bytes) /\
               Pop3Wire.pop3_client_decode (Pop3Wire.pop3_send bytes) = Some (Pop3Wire.pop3_norm bytes)) /\
  (m_size (e_msg e) = Pop3.lenN bytes ->
     Pop3.p_size (Pop3Store.snap_of_view content (view_of e)) = Pop3.lenN bytes /\ m_size (snd (view_of e)) = Pop3.lenN bytes).
Proof. exact InterfacesAgree.read_interfaces_agree_on_source. Qed.
Print Assumptions read_interfaces_agree_on_source.

(** C02 — lf_norm_only_line_endings *)
From IV Require Import Base.Bytes Model.Dot.
From Coq Require Import ZifyN ZifyNat ZifyBool Lia.
From IV Require Import Proofs.DotCodec.
Theorem lf_norm_only_line_endings : forall body, strip_eol (lf_norm body) = strip_eol body.
Proof. exact DotCodec.lf_norm_only_line_endings. Qed.
Print Assumptions lf_norm_only_line_endings.

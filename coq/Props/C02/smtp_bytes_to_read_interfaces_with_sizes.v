(** C02 / C01 (with C07, C13, C14 composed) — the end-to-end statement WITH the size clause, on the store that records the sizes the real stores record (sz tag = length of the stored source, not of the body): for any bytes w on one SMTP connection and any store cap, every entry a mailbox holds afterwards is a delivery of the dialogue to exactly that mailbox whose body is a decoded block of w; REST /source answers exactly that entry, the POP3 view holds src d at the same position, and the size every listing shows (REST listing, POP3 LIST / STAT) is the length of the bytes every interface serves. Proved by showing that performing the deliveries with other sizes changes nothing but the size field (sized_store_is_the_store_resized: the mailbox cap does not look at sizes; no byte limit). The premise is asked only of the dialogue's own deliveries *)
From Coq Require Import List NArith ZArith.
From IV Require Import Base.Bytes Model.Smtp Model.Dot Model.SmtpWire Model.StoreSpec Proofs.DeliverStoreCap.
From IV Require Model.Rest Model.Pop3Wire Model.Pop3 Model.Pop3Store.
From IV Require Import Proofs.EndToEnd Proofs.EndToEndSize.
Import ListNotations.
Theorem smtp_bytes_to_read_interfaces_with_sizes : forall (tag_of : delivery -> N) (date : Z) (cap : nat) (sz : N -> N)
    (content : N -> str) (src : delivery -> str) (mfa : str -> option str) (srcok : str -> nat -> bool)
    c o w name mb i e num body,
  let tr := snd (fst (run_bytes c o w)) in
  let st := store_sz tag_of date cap sz (deliveries_of tr) in
  (forall d, In d (deliveries_of tr) -> content (tag_of d) = src d /\ sz (tag_of d) = Pop3.lenN (src d)) ->
  mfa name = Some mb -> nth_error (box mb (live st)) i = Some e -> srcok mb (e_k e) = true ->
  exists d,
    In d (deliveries_of tr) /\ d_mailbox d = mb /\ block_in w (d_body d) /\
    content (m_tag (e_msg e)) = src d /\
    Rest.run_handler mfa (cfgc cap) srcok st Rest.HSrc name (Rest.id_of_k (e_k e)) num body = (st, (Rest.S200, Rest.PSrc (e_k e, e_msg e))) /\
    nth_error (Pop3.mmsgs (Pop3.get_box (Pop3Store.abs content st) mb)) i =
      Some {| Pop3.sid := Pop3Store.id_of_k (e_k e); Pop3.ssrc := src d |} /\
    m_size (e_msg e) = Pop3.lenN (src d) /\
    Pop3.p_size (Pop3Store.snap_of_view content (view_of e)) = Pop3.lenN (src d).
Proof. exact EndToEndSize.smtp_bytes_to_read_interfaces_with_sizes. Qed.
Print Assumptions smtp_bytes_to_read_interfaces_with_sizes.

(** C02 — the end-to-end statement for any number of connections each of which may upgrade with STARTTLS, deliveries reaching the (capped) store in any order: every entry a mailbox holds is a delivery to exactly that mailbox made by one of the sessions, its body a decoded block of that session's bytes, REST /source answers exactly this entry and the POP3 view holds its source at the same position *)
From Coq Require Import List NArith ZArith Lia.
From IV Require Import Base.Bytes Base.BytesFacts Model.Policy Model.Smtp Model.Dot Model.SmtpWire Model.StoreSpec.
From IV Require Import Proofs.StoreSpecFacts Proofs.SmtpInv Proofs.SmtpThms Proofs.DotCodec Proofs.SmtpCut Proofs.SmtpCutTrace.
From IV Require Import Proofs.StoreCap Proofs.DeliverStore Proofs.DeliverStoreCap Proofs.InterfacesAgree Proofs.EndToEnd.
From IV Require Model.Rest Model.Pop3 Model.Pop3Store Model.Pop3Wire.
From IV Require Import Proofs.EndToEndTls.
Theorem tls_sessions_to_read_interfaces :
  forall (tag_of : delivery -> N) (date : Z) (cap : nat) (content : N -> str) (src : delivery -> str)
         (mfa : str -> option str) (srcok : str -> nat -> bool)
         c o (ws : list (str * str)) ds name mb i e num body,
  let st := store_of tag_of date cap ds in
  (forall d, In d ds -> exists ps, In ps ws /\ In d (deliveries_of (snd (fst (run_bytes_tls c o (fst ps) (snd ps)))))) ->
  (forall d, In d ds -> content (tag_of d) = src d) ->
  mfa name = Some mb -> nth_error (box mb (live st)) i = Some e -> srcok mb (e_k e) = true ->
  exists d ps,
    In ps ws /\ In d ds /\ d_mailbox d = mb /\ block_in (fst ps ++ snd ps) (d_body d) /\
    content (m_tag (e_msg e)) = src d /\
    Rest.run_handler mfa (cfgc cap) srcok st Rest.HSrc name (Rest.id_of_k (e_k e)) num body = (st, (Rest.S200, Rest.PSrc (e_k e, e_msg e))) /\
    nth_error (Pop3.mmsgs (Pop3.get_box (Pop3Store.abs content st) mb)) i =
      Some {| Pop3.sid := Pop3Store.id_of_k (e_k e); Pop3.ssrc := src d |}.
Proof. first [exact EndToEndTls.tls_sessions_to_read_interfaces | intros; apply EndToEndTls.tls_sessions_to_read_interfaces]. Qed.
Print Assumptions tls_sessions_to_read_interfaces.

(** C14 — at the HTTP level: a request whose decoded path routes to a handler naming one message the mailbox does not hold is answered 404 and changes nothing — in particular GET …/serve/mailbox/name/id/attach/num/file with a well-formed attachment number *)
From IV Require Import Base.Bytes Model.StoreSpec Model.Rest Proofs.Rest Proofs.RestRoute Proofs.RestClient Proofs.RestBase.
Theorem missing_is_404_http :
  (forall mfa cfg srcok base st m body segs segs' h name id num mb,
     segs' <> [] -> Forall2 dec_as segs segs' -> Forall nosl segs' -> Forall (fun s => plain_seg s = true) segs' ->
     route base m segs' = RHandler h name id num ->
     mfa name = Some mb -> spec_get cfg st mb id = NotExist -> addresses_message h body num = true ->
     serve mfa cfg srcok base st {| rq_meth := m; rq_path := join_slash segs; rq_body := body |} = (st, (S404, PNone))) /\
  (forall base name id num file, name <> [] -> id <> [] -> num <> [] -> file <> [] ->
     route base GET (base ++ [s_serve; s_mailbox; name; id; s_attach; num; file]) = RHandler UAtt name id num).
Proof. split; [exact RestBase.missing_is_404_http|exact route_attach]. Qed.
Print Assumptions missing_is_404_http.

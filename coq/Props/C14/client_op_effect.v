(** C14 — ListMailbox, GetMessage, MarkSeen, GetMessageSource, DeleteMessage, PurgeMailbox of the Go client, run against the server, return and effect exactly what their names say on the mailbox of the name (same guard on names as client_roundtrip) *)
From IV Require Import Base.Bytes Model.StoreSpec Model.Rest Proofs.RestRoute Proofs.RestClient.
Theorem client_op_effect : forall mfa cfg srcok base st op mb,
  (forall m k, srcok m k = true) ->
  basic_op op = true -> good_name (cop_name op) -> op_id_ok op -> Forall good_seg base ->
  mfa (cop_name op) = Some mb ->
  spec_cop mfa cfg st op = Some (client_do mfa cfg srcok base (join_slash base) st op).
Proof. exact RestClient.client_op_effect. Qed.
Print Assumptions client_op_effect.

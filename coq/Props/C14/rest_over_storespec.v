(** C14 — rest_over_storespec: every handler is the run of its StoreSpec operations (Lst / Get Kth|Latest|Bogus / Seen / Remove / Purge) and its answer a function of their observations, for every cap and size limit *)
From Coq Require Import ZifyN ZifyNat ZifyBool.
From IV Require Import Base.Bytes Base.BytesFacts Model.StoreSpec Model.StoreSpecImpl Model.MemStore Model.FileStore Model.Rest Proofs.StoreSpecFacts Proofs.MemStoreRefine Proofs.FileStoreRefine Proofs.Rest Proofs.RestRoute Proofs.RestClient Proofs.RestConv.
From IV Require Import Proofs.RestStore.
Theorem rest_over_storespec mfa cfg srcok st h name id num body mb :
  mfa name = Some mb ->
  run_handler mfa cfg srcok st h name id num body =
  (final_spec cfg st (handler_ops h mb id num body),
   handler_answer srcok h mb id num body (obs_of cfg st (handler_ops h mb id num body))).
Proof. exact (RestStore.rest_over_storespec mfa cfg srcok st h name id num body mb). Qed.
Print Assumptions rest_over_storespec.

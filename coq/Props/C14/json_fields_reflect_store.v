(** C14 — DEFINITION MADE EXPLICIT, not a result: the rendering model (jheader_of / jmessage_of / juimessage_of / render) maps every field of every JSON answer to the store's datum — what ties each field to the CODE is the per-field correspondence run; the consequence for the handlers is json_answers_are_store_entries: mailbox, id, from, to, subject, date, posix-millis, size and seen of a header (list entries, v1 message, web-UI message), text / html / MIME header / attachments (digest and links with the resolved mailbox and the id as requested) of the messages, and a listing is rendered header by header in the store's order *)
From IV Require Import Base.Bytes Model.StoreSpec Model.Rest Proofs.RestJson.
Theorem json_fields_reflect_store :
  (forall mb v, let h := jheader_of mb v in let m := snd v in
     jh_mailbox h = mb /\ jh_id h = fst v /\ jh_from h = m_tag m /\ jh_to h = m_tag m /\ jh_subject h = m_tag m /\
     jh_date h = m_date m /\ jh_millis h = m_date m /\ jh_size h = m_size m /\ jh_seen h = m_seen m) /\
  (forall mb rid v, let j := jmessage_of mb rid v in let tag := m_tag (snd v) in
     jm_h j = jheader_of mb v /\ jm_text j = tag /\ jm_html j = (if has_html tag then Some tag else None) /\
     jm_hdr_from j = tag /\ jm_hdr_to j = tag /\ jm_hdr_subject j = tag /\
     length (jm_atts j) = N.to_nat (att_count tag) /\
     Forall (fun a => ja_md5 a = tag /\ ja_link_mb a = mb /\ ja_link_id a = rid) (jm_atts j)) /\
  (forall mb v, let j := juimessage_of mb v in let tag := m_tag (snd v) in
     ju_h j = jheader_of mb v /\ ju_text j = tag /\ ju_html j = (if has_html tag then Some tag else None) /\
     ju_hdr_from j = tag /\ ju_hdr_to j = tag /\ ju_hdr_subject j = tag /\
     length (ju_atts j) = N.to_nat (att_count tag) /\ ju_errors j = 0%N) /\
  (forall st mb, render (PList mb (map view_of (box mb (live st)))) =
                 JHeaders (map (fun e => jheader_of mb (view_of e)) (box mb (live st)))).
Proof. split; [exact header_fields|split; [exact message_fields|split; [exact uimessage_fields|exact list_rendered]]]. Qed.
Print Assumptions json_fields_reflect_store.

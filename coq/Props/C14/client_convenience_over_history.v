(** C14 — client_convenience_over_history: the convenience methods have the effect their names say in every state a history reaches (the store invariant is discharged) *)
From Coq Require Import ZifyN ZifyNat ZifyBool.
From IV Require Import Base.Bytes Base.BytesFacts Model.StoreSpec Model.StoreSpecImpl Model.MemStore Model.FileStore Model.Rest Proofs.StoreSpecFacts Proofs.MemStoreRefine Proofs.FileStoreRefine Proofs.Rest Proofs.RestRoute Proofs.RestClient Proofs.RestConv.
From IV Require Import Proofs.RestStore.
Theorem client_convenience_over_history mfa cfg srcok base cbase l op mb :
  let st := hfinal mfa cfg srcok base cbase spec_init l in
  (forall m k, srcok m k = true) ->
  conv_op op = true -> good_name (cop_name op) -> op_id_ok op -> Forall good_seg base ->
  mfa (cop_name op) = Some mb -> good_name mb -> mfa mb = Some mb ->
  spec_cop mfa cfg st op = Some (client_do mfa cfg srcok base (join_slash base) st op).
Proof. exact (RestStore.client_convenience_over_history mfa cfg srcok base cbase l op mb). Qed.
Print Assumptions client_convenience_over_history.

(** C14 — history_over_storespec: a history of deliveries, requests, client calls and races is the run of its operation log *)
From Coq Require Import ZifyN ZifyNat ZifyBool.
From IV Require Import Base.Bytes Base.BytesFacts Model.StoreSpec Model.StoreSpecImpl Model.MemStore Model.FileStore Model.Rest Proofs.StoreSpecFacts Proofs.MemStoreRefine Proofs.FileStoreRefine Proofs.Rest Proofs.RestRoute Proofs.RestClient Proofs.RestConv.
From IV Require Import Proofs.RestStore.
Theorem history_over_storespec mfa cfg srcok base cbase l : forall st,
  hfinal mfa cfg srcok base cbase st l = final_spec cfg st (hist_ops mfa cfg srcok base cbase st l).
Proof. first [exact RestStore.history_over_storespec | intros; apply RestStore.history_over_storespec]. Qed.
Print Assumptions history_over_storespec.

(** C14 — client_roundtrip_guards_necessary: each guard of client_roundtrip on the name (no space, not ".", not "..", not empty) is necessary — the request the client sends for such a name does not reach the route of that name; none of them can receive mail *)
From IV Require Import Base.Bytes Base.BytesFacts Model.StoreSpec Model.Rest Proofs.RestClient.
From IV Require Import Proofs.RestGuards.
Theorem client_roundtrip_guards_necessary :
  (* a space becomes '+', which the server keeps: the request is for the name "a+b" *)
  routed_of [97; 32; 98] = RHandler HList [97; 43; 98] [] [] /\
  (* "." and ".." are removed by path.Clean on the client: no mailbox route is left *)
  routed_of [46] = RNotFound /\ routed_of [46; 46] = RNotFound /\
  (* the empty name leaves "/api/v1/mailbox": not a route either *)
  routed_of [] = RNotFound /\
  (* whereas a good name reaches its own route *)
  routed_of [97; 38; 98] = RHandler HList [97; 38; 98] [] [].
Proof. first [exact RestGuards.client_roundtrip_guards_necessary | intros; apply RestGuards.client_roundtrip_guards_necessary]. Qed.
Print Assumptions client_roundtrip_guards_necessary.

(** C14 — each v1 / web-UI handler, through StoreManager, answers and effects exactly what the specification of its operation on the abstract store says (list = the mailbox in arrival order, purge empties exactly that mailbox) *)
From IV Require Import Base.Bytes Base.BytesFacts Model.StoreSpec Model.Rest Proofs.Rest.
Theorem api_handlers_reflect_store : forall mfa cfg srcok,
  (forall st h name id num body out, spec_handler mfa cfg srcok st h name id num body = Some out -> run_handler mfa cfg srcok st h name id num body = out) /\
  (forall st name mb, mfa name = Some mb ->
     spec_handler mfa cfg srcok st HList name [] [] BBad = Some (st, (S200, PList mb (map view_of (box mb (live st)))))) /\
  (forall st name mb, mfa name = Some mb ->
     exists st', spec_handler mfa cfg srcok st HPurge name [] [] BBad = Some (st', (S200, POk)) /\
                 box mb (live st') = [] /\ forall mb', str_eqb mb mb' = false -> box mb' (live st') = box mb' (live st)).
Proof. intros mfa cfg srcok. split; [exact (handler_meets_spec mfa cfg srcok)|split; [exact (spec_list_is_box mfa cfg srcok)|exact (spec_purge_empties mfa cfg srcok)]]. Qed.
Print Assumptions api_handlers_reflect_store.

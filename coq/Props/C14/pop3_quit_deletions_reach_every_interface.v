(** C14 — a POP3 session that ends with QUIT in TRANSACTION state, over ONE abstract store shared with the REST / web-UI model: the session ends and the POP3 model's store is the view of the spec store after exactly the Removes of the marked messages (storespec_quit_commit); for every message the session had marked (snapshot position i, retain flag false) Store.GetMessage answers not-there and REST /source, web-UI /source and REST DELETE answer 404 on that store; nothing new is live, an entry the session did not mark (or of another mailbox) is still live - so read_interfaces_agree_on_source applies to it -, other mailboxes are untouched. Outside: the HTTP / POP3 transport glue *)
From Coq Require Import List NArith ZArith.
From IV Require Import Base.Bytes Model.StoreSpec Proofs.StoreSpecFacts.
From IV Require Model.Rest Model.Pop3 Model.Pop3Store Proofs.Pop3 Proofs.Pop3Store.
From IV Require Import Proofs.InterfacesRemovalPop3.
Import ListNotations.
Theorem pop3_quit_deletions_reach_every_interface : forall (content : N -> str) (mfa : str -> option str) (srcok : str -> nat -> bool)
    cfg fl ss w args,
  Proofs.Pop3Store.CInv ss -> Pop3.w_store w = Model.Pop3Store.abs content ss -> Proofs.Pop3.winv w ->
  Pop3.s_state (Pop3.w_sess w) = Pop3.Trans ->
  let u := Pop3.s_user (Pop3.w_sess w) in
  let w' := Pop3.wstep fl w (Pop3.ECmd (Pop3.CCmd Pop3.QUIT args)) in
  let ss' := final_spec cfg ss (Pop3Store.quit_ops u (Pop3.s_msgs (Pop3.w_sess w)) (Pop3.s_retain (Pop3.w_sess w))) in
  (* the session ends and the POP3 model's store is the view of ss' *)
  Pop3.s_state (Pop3.w_sess w') = Pop3.Closed /\ Pop3.w_store w' = Pop3Store.abs content ss' /\
  (* every marked message is gone from the store, REST and the web UI *)
  (forall i m k name num body,
     nth_error (Pop3.s_msgs (Pop3.w_sess w)) i = Some m -> nth_error (Pop3.s_retain (Pop3.w_sess w)) i = Some false ->
     Pop3.p_id m = Pop3Store.id_of_k k -> mfa name = Some u ->
     exec_spec cfg ss' (Get u (Kth k)) = (ss', OGet NotExist, []) /\
     Rest.run_handler mfa cfg srcok ss' Rest.HSrc name (Rest.id_of_k k) num body = (ss', (Rest.S404, Rest.PNone)) /\
     Rest.run_handler mfa cfg srcok ss' Rest.USrc name (Rest.id_of_k k) num body = (ss', (Rest.S404, Rest.PNone)) /\
     Rest.run_handler mfa cfg srcok ss' Rest.HDel name (Rest.id_of_k k) num body = (ss', (Rest.S404, Rest.PNone))) /\
  (* nothing appears; what the session did not mark stays; other mailboxes are untouched *)
  (forall x, In x (live ss') -> In x (live ss)) /\
  (forall x, In x (live ss) ->
     (e_mb x <> u \/
      forall i m, nth_error (Pop3.s_msgs (Pop3.w_sess w)) i = Some m ->
                  nth_error (Pop3.s_retain (Pop3.w_sess w)) i = Some false ->
                  Pop3Store.handle_of_id (Pop3.p_id m) <> Kth (e_k x)) ->
     In x (live ss')) /\
  (forall mb', mb' <> u -> box mb' (live ss') = box mb' (live ss)).
Proof. exact InterfacesRemovalPop3.pop3_quit_deletions_reach_every_interface. Qed.
Print Assumptions pop3_quit_deletions_reach_every_interface.

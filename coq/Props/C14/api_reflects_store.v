(** C14 — wherever the specification fixes the answer to an HTTP request (RFC routing: split the path, then unescape each segment; the operation of the route on the abstract store), the server gives exactly that answer and state — for every request none of whose escaped segments decodes to a string containing '/' (guard = open finding K-C14-client-slash) *)
From IV Require Import Base.Bytes Model.StoreSpec Model.Rest Proofs.RestClient.
Theorem api_reflects_store : forall mfa cfg srcok base st rq out,
  no_enc_slash (rq_path rq) = true ->
  spec_serve mfa cfg srcok base st rq = Some out -> serve mfa cfg srcok base st rq = out.
Proof. exact RestClient.api_reflects_store. Qed.
Print Assumptions api_reflects_store.

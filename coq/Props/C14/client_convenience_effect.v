(** C14 — the convenience methods of the Go client (MessageHeader.GetMessage / GetSource / Delete on the i-th entry of a listing, Message.GetSource / Delete), which go through an id taken from a first answer, return and effect exactly what their names say — on every well-formed store, for names as in client_roundtrip whose canonical mailbox name addresses itself *)
From IV Require Import Base.Bytes Model.StoreSpec Model.Rest Proofs.StoreSpecFacts Proofs.RestRoute Proofs.RestClient Proofs.RestConv.
Theorem client_convenience_effect : forall mfa cfg srcok base st op mb,
  (forall m k, srcok m k = true) ->
  conv_op op = true -> good_name (cop_name op) -> op_id_ok op -> Forall good_seg base ->
  mfa (cop_name op) = Some mb -> good_name mb -> mfa mb = Some mb -> SInv st ->
  spec_cop mfa cfg st op = Some (client_do mfa cfg srcok base (join_slash base) st op).
Proof. exact RestConv.client_convenience_effect. Qed.
Print Assumptions client_convenience_effect.

(** C14 — json_answers_are_store_entries: what the list / show / web-UI message handlers write is the rendering of the very entries StoreSpec returns for Lst / Get (a consequence of handler model + rendering; the tie of each field to the code is the per-field correspondence run) *)
From IV Require Import Base.Bytes Base.BytesFacts Model.StoreSpec Model.Rest Proofs.Rest.
From IV Require Import Proofs.RestJson.
Theorem json_answers_are_store_entries mfa cfg srcok st name id num body mb :
  mfa name = Some mb ->
  (run_handler mfa cfg srcok st HList name id num body =
     (st, (S200, PList mb (map view_of (box mb (live st))))) /\
   render (PList mb (map view_of (box mb (live st)))) = JHeaders (map (fun e => jheader_of mb (view_of e)) (box mb (live st)))) /\
  (forall v, spec_get cfg st mb id = Ok v -> srcok mb (fst v) = true ->
     run_handler mfa cfg srcok st HShow name id num body = (st, (S200, PMsg mb id v)) /\
     render (PMsg mb id v) = JMessage (jmessage_of mb id v) /\
     run_handler mfa cfg srcok st UMsg name id num body = (st, (S200, PUi mb v)) /\
     render (PUi mb v) = JUiMessage (juimessage_of mb v)).
Proof. exact (RestJson.json_answers_are_store_entries mfa cfg srcok st name id num body mb). Qed.
Print Assumptions json_answers_are_store_entries.

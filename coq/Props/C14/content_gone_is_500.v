(** C14 — a message that is in the index but whose content can no longer be opened (a removal completed, or the file was lost, between look-up and open): every handler that needs the content answers 500 — a well-formed answer, never a panic (handler_total holds for every such environment) — and leaves the store unchanged *)
From IV Require Import Base.Bytes Model.StoreSpec Model.Rest Proofs.Rest.
Theorem content_gone_is_500 : forall mfa cfg srcok st h name id num body mb v,
  mfa name = Some mb -> spec_get cfg st mb id = Ok v -> srcok mb (fst v) = false -> needs_content h num = true ->
  run_handler mfa cfg srcok st h name id num body = (st, (S500, PNone)).
Proof. exact Rest.content_gone_is_500. Qed.
Print Assumptions content_gone_is_500.

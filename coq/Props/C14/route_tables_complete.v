(** C14 — route_tables_complete: the converse of route_tables_sound — every handler the model router can answer with is an instance of a route registered in the source (mount point, template, variables, method): the model has no route the source does not have *)
From IV Require Import Base.Bytes Base.BytesFacts Model.StoreSpec Model.Rest Gen.RestRoutes Proofs.RestTable.
From IV Require Import Proofs.RestTableComplete.
Theorem route_tables_complete m segs h name id num :
  route [] m segs = RHandler h name id num -> registered m segs h name id num.
Proof. exact (RestTableComplete.route_tables_complete m segs h name id num). Qed.
Print Assumptions route_tables_complete.

(** C14 — rest_over_store_models: from the empty store, on the operation log of any history the memory-store model and (c_max = 0, file_fresh) the file-store model answer exactly what StoreSpec answers; the store invariant holds *)
From Coq Require Import ZifyN ZifyNat ZifyBool.
From IV Require Import Base.Bytes Base.BytesFacts Model.StoreSpec Model.StoreSpecImpl Model.MemStore Model.FileStore Model.Rest Proofs.StoreSpecFacts Proofs.MemStoreRefine Proofs.FileStoreRefine Proofs.Rest Proofs.RestRoute Proofs.RestClient Proofs.RestConv.
From IV Require Import Proofs.RestStore.
Theorem rest_over_store_models mfa cfg srcok base cbase l :
  let ops := hist_ops mfa cfg srcok base cbase spec_init l in
  hfinal mfa cfg srcok base cbase spec_init l = final_spec cfg spec_init ops /\
  SInv (hfinal mfa cfg srcok base cbase spec_init l) /\
  run_mem cfg ops = run_spec cfg spec_init ops /\
  (forall ticks, c_max cfg = 0 -> file_fresh cfg (file_init ticks, []) ops ->
     run_file cfg ticks ops = run_spec cfg spec_init ops).
Proof. first [exact RestStore.rest_over_store_models | intros; apply RestStore.rest_over_store_models]. Qed.
Print Assumptions rest_over_store_models.

(** C14 — client_over_storespec: every method of the Go client is a run of StoreSpec operations *)
From Coq Require Import ZifyN ZifyNat ZifyBool.
From IV Require Import Base.Bytes Base.BytesFacts Model.StoreSpec Model.StoreSpecImpl Model.MemStore Model.FileStore Model.Rest Proofs.StoreSpecFacts Proofs.MemStoreRefine Proofs.FileStoreRefine Proofs.Rest Proofs.RestRoute Proofs.RestClient Proofs.RestConv.
From IV Require Import Proofs.RestStore.
Theorem client_over_storespec mfa cfg srcok base cbase st op :
  fst (client_do mfa cfg srcok base cbase st op) = final_spec cfg st (cop_ops mfa cfg srcok base cbase st op).
Proof. first [exact RestStore.client_over_storespec | intros; apply RestStore.client_over_storespec]. Qed.
Print Assumptions client_over_storespec.

(** C14 — over ONE abstract store, REST DELETE (Store.RemoveMessage) of a live message e of mailbox mb answers 200, removes exactly that entry with one deleted event and keeps the store invariant; afterwards Store.GetMessage, REST /source, web-UI /source and a second DELETE answer not-there (404); the listing and the POP3 view of the mailbox are the old ones without exactly that message, in the old order; every other entry is still live (so read_interfaces_agree_on_source applies to it on the new store), nothing new appears, every other mailbox is untouched in the store and in the POP3 view. Outside: the HTTP / POP3 transport glue *)
From Coq Require Import List NArith ZArith.
From IV Require Import Base.Bytes Model.StoreSpec Proofs.StoreSpecFacts.
From IV Require Model.Rest Model.Pop3 Model.Pop3Store.
From IV Require Import Proofs.InterfacesRemoval.
Import ListNotations.
Theorem removed_message_is_gone_from_every_interface : forall (mfa : str -> option str) (cfg : scfg) (srcok : str -> nat -> bool) (content : N -> str)
    st name mb e num body,
  SInv st -> mfa name = Some mb -> In e (box mb (live st)) ->
  let st' := {| live := remove_ent mb (e_k e) (live st); counts := counts st |} in
  (* the REST delete answers 200 and removes exactly this entry; one [deleted] event in the store *)
  Rest.run_handler mfa cfg srcok st Rest.HDel name (Rest.id_of_k (e_k e)) num body = (st', (Rest.S200, Rest.POk)) /\
  exec_spec cfg st (Remove mb (Kth (e_k e))) = (st', OUnit (Ok tt), [ev_deleted e]) /\
  SInv st' /\
  (* gone: the store, REST /source, web-UI /source, a second delete *)
  exec_spec cfg st' (Get mb (Kth (e_k e))) = (st', OGet NotExist, []) /\
  Rest.run_handler mfa cfg srcok st' Rest.HSrc name (Rest.id_of_k (e_k e)) num body = (st', (Rest.S404, Rest.PNone)) /\
  Rest.run_handler mfa cfg srcok st' Rest.USrc name (Rest.id_of_k (e_k e)) num body = (st', (Rest.S404, Rest.PNone)) /\
  Rest.run_handler mfa cfg srcok st' Rest.HDel name (Rest.id_of_k (e_k e)) num body = (st', (Rest.S404, Rest.PNone)) /\
  (* gone from the listing and from the POP3 view of the mailbox, everything else in the old order *)
  box mb (live st') = filter (fun x => negb (Nat.eqb (e_k x) (e_k e))) (box mb (live st)) /\
  Pop3.mmsgs (Pop3.get_box (Pop3Store.abs content st') mb) =
    map (Pop3Store.smsg_of content) (filter (fun x => negb (Nat.eqb (e_k x) (e_k e))) (box mb (live st))) /\
  ~ In e (live st') /\
  (* nothing else is touched *)
  (forall x, In x (live st) -> x <> e -> In x (live st')) /\
  (forall x, In x (live st') -> In x (live st)) /\
  (forall mb', mb' <> mb -> box mb' (live st') = box mb' (live st)) /\
  (forall mb', mb' <> mb ->
     Pop3.mmsgs (Pop3.get_box (Pop3Store.abs content st') mb') = Pop3.mmsgs (Pop3.get_box (Pop3Store.abs content st) mb')).
Proof. exact InterfacesRemoval.removed_message_is_gone_from_every_interface. Qed.
Print Assumptions removed_message_is_gone_from_every_interface.

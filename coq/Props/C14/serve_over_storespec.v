(** C14 — serve_over_storespec: a request leaves the store as the run of the operations of the handler it is routed to (none for redirects, unknown routes, bad paths) and answers from their observations *)
From Coq Require Import ZifyN ZifyNat ZifyBool.
From IV Require Import Base.Bytes Base.BytesFacts Model.StoreSpec Model.StoreSpecImpl Model.MemStore Model.FileStore Model.Rest Proofs.StoreSpecFacts Proofs.MemStoreRefine Proofs.FileStoreRefine Proofs.Rest Proofs.RestRoute Proofs.RestClient Proofs.RestConv.
From IV Require Import Proofs.RestStore.
Theorem serve_over_storespec mfa cfg srcok base st rq :
  fst (serve mfa cfg srcok base st rq) = final_spec cfg st (request_ops mfa base rq) /\
  (forall r, request_route base rq = Some r ->
     snd (serve mfa cfg srcok base st rq) = routed_answer mfa srcok r (rq_body rq) (obs_of cfg st (request_ops mfa base rq))).
Proof. first [exact RestStore.serve_over_storespec | intros; apply RestStore.serve_over_storespec]. Qed.
Print Assumptions serve_over_storespec.

(** C14 — (the content is conjunct 1 together with "the stores only give well-formed answers", C07 / fix 0003; conjuncts 2 and 3 then hold by construction of st_get) no handler panics: not on any answer a store can give (a message without error, or no message with an error), not on any request against the abstract store, not anywhere in a history of deliveries, requests and client calls *)
From IV Require Import Base.Bytes Model.StoreSpec Model.Rest Proofs.Rest.
Theorem handler_total :
  (forall mb rid num a r, ans_wf a = true -> In r (lookup_resps mb rid num a) -> fst r <> SPanic) /\
  (forall mfa cfg srcok base st rq, fst (snd (serve mfa cfg srcok base st rq)) <> SPanic) /\
  (forall mfa cfg srcok base cbase ops st p, ~ In (OResp (SPanic, p)) (hrun mfa cfg srcok base cbase st ops)).
Proof. split; [exact lookup_no_panic|split; [exact serve_no_panic|exact hrun_no_panic]]. Qed.
Print Assumptions handler_total.

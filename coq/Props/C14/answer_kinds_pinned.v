(** C14 — status codes and content types against the source as read on this run: per handler, in source order, its http.NotFound calls, the Content-Type of its plain answers and its web.RenderJSON calls; RenderJSON's content type; the status web.Handler gives a handler error — and the handler model answers accordingly (404 where the source can, 200 with that payload kind, 500 for an error) *)
From IV Require Import Base.Bytes Base.BytesFacts Model.StoreSpec Model.Rest Gen.RestJson Proofs.RestJsonPins.
Theorem answer_kinds_pinned :
  (ans_list = [[106; 115; 111; 110]] /\
  ans_show = [[52; 48; 52]; [106; 115; 111; 110]] /\
  ans_seen = [[52; 48; 52]; [106; 115; 111; 110]] /\
  ans_purge = [[106; 115; 111; 110]] /\
  ans_source = [[52; 48; 52]; [99; 116; 58; 116; 101; 120; 116; 47; 112; 108; 97; 105; 110]] /\
  ans_delete = [[52; 48; 52]; [106; 115; 111; 110]] /\
  ans_ui_message = [[52; 48; 52]; [106; 115; 111; 110]] /\
  ans_ui_html = [[52; 48; 52]; [99; 116; 58; 116; 101; 120; 116; 47; 104; 116; 109; 108; 59; 32; 99; 104; 97; 114; 115; 101; 116; 61; 85; 84; 70; 45; 56]] /\
  ans_ui_source = [[52; 48; 52]; [99; 116; 58; 116; 101; 120; 116; 47; 112; 108; 97; 105; 110]] /\
  ans_ui_attach = [[52; 48; 52]; [99; 116; 58; 61; 112; 97; 114; 116; 46; 67; 111; 110; 116; 101; 110; 116; 84; 121; 112; 101]] /\
  ans_render_json = [[99; 116; 58; 97; 112; 112; 108; 105; 99; 97; 116; 105; 111; 110; 47; 106; 115; 111; 110; 59; 32; 99; 104; 97; 114; 115; 101; 116; 61; 117; 116; 102; 45; 56]] /\
  handler_error_status = [[104; 116; 116; 112; 46; 83; 116; 97; 116; 117; 115; 73; 110; 116; 101; 114; 110; 97; 108; 83; 101; 114; 118; 101; 114; 69; 114; 114; 111; 114]; [104; 116; 116; 112; 46; 83; 116; 97; 116; 117; 115; 73; 110; 116; 101; 114; 110; 97; 108; 83; 101; 114; 118; 101; 114; 69; 114; 114; 111; 114]]) /\
  ((forall mb rid, fst (h_show mb rid (None, ENotExist)) = S404 /\ fst (h_show mb rid (None, EOther)) = S500) /\
  (forall mb, fst (h_uimsg mb (None, ENotExist)) = S404) /\
  fst (h_src (None, ENotExist)) = S404 /\ fst (h_uihtml (None, ENotExist)) = S404 /\
  fst (h_uisrc (None, ENotExist)) = S404 /\ (forall n, fst (h_uiatt n (None, ENotExist)) = S404) /\
  h_unit ENotExist = (S404, PNone) /\ h_unit ENil = (S200, POk) /\ h_unit EOther = (S500, PNone) /\
  h_purge ENil = (S200, POk) /\ h_purge ENotExist = (S500, PNone)).
Proof. split; [exact answers_pinned|exact model_statuses]. Qed.
Print Assumptions answer_kinds_pinned.

(** C14 — a configured base path is transparent: the prefixer trims slashes and is the identity on its own output; a request under the base path is served exactly as the same request with the prefix stripped and no base path; nothing outside the base path reaches a handler *)
From IV Require Import Base.Bytes Model.StoreSpec Model.Rest Proofs.RestRoute Proofs.RestClient Proofs.RestBase.
Theorem base_path_transparent :
  (forall s, base_of_config (slash :: s) = base_of_config s /\ base_of_config (s ++ [slash]) = base_of_config s /\
             base_of_config (join_slash (base_of_config s)) = base_of_config s) /\
  (forall base m rest, route base m (base ++ rest) = route [] m rest) /\
  (forall mfa cfg srcok base st m body segs segs',
     Forall good_seg base -> segs' <> [] -> Forall2 dec_as segs segs' -> Forall nosl segs' ->
     Forall (fun s => plain_seg s = true) segs' ->
     serve mfa cfg srcok base st {| rq_meth := m; rq_path := join_slash (base ++ segs); rq_body := body |}
     = serve mfa cfg srcok [] st {| rq_meth := m; rq_path := join_slash segs; rq_body := body |}) /\
  (forall mfa cfg srcok base st m body segs segs',
     segs' <> [] -> Forall2 dec_as segs segs' -> Forall nosl segs' -> Forall (fun s => plain_seg s = true) segs' ->
     strip_prefix base segs' = None ->
     fst (serve mfa cfg srcok base st {| rq_meth := m; rq_path := join_slash segs; rq_body := body |}) = st).
Proof.
  split; [intros s; split; [apply base_of_config_lead|split; [apply base_of_config_trail|apply base_of_config_idem]]|].
  split; [exact route_base_prefix|]. split; [exact serve_base_shift|exact serve_outside_base].
Qed.
Print Assumptions base_path_transparent.

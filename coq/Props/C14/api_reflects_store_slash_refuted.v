(** C14 — without the guard the statement fails: GET /api/v1/mailbox/s%2Ft must list mailbox "s/t" (one message) and is answered 404 (witness of K-C14-client-slash) *)
From IV Require Import Base.Bytes Model.StoreSpec Model.Rest Proofs.RestClient.
Theorem api_reflects_store_slash_refuted :
  no_enc_slash (rq_path rq_slash) = false /\
  exists out, spec_serve mfa_id cfg0 src_all [] st_one rq_slash = Some out /\ serve mfa_id cfg0 src_all [] st_one rq_slash <> out
              /\ fst (snd out) = S200 /\ fst (snd (serve mfa_id cfg0 src_all [] st_one rq_slash)) = S404.
Proof. exact api_slash_witness. Qed.
Print Assumptions api_reflects_store_slash_refuted.

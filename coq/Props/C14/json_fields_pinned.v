(** C14 — the JSON answers against the source as the translator reads it on this run: joining the json tags of the answer structs (pkg/rest/model, pkg/webui) with the expression every handler puts into every field gives exactly the tables of the rendering model (json name -> datum, in struct order); the nine header fields are shared by list entry, v1 message and web-UI message; the Go client decodes into the server's structs; every name the C14 driver decodes is a name the source writes; and the header object of a stored message carries, name by name, the store's data *)
From IV Require Import Base.Bytes Base.BytesFacts Model.StoreSpec Model.Rest Gen.RestJson Proofs.RestJsonPins.
Theorem json_fields_pinned :
  (join_tags tags_header_v1 fill_list_header = Some model_header /\
  join_tags tags_message_v1 fill_show_message = Some model_message /\
  join_tags tags_body_v1 fill_show_body = Some model_body /\
  join_tags tags_attachment_v1 fill_show_attachment = Some model_attachment /\
  join_tags tags_ui_message fill_ui_message = Some model_ui_message /\
  join_tags tags_ui_attachment fill_ui_attachment = Some model_ui_attachment /\
  join_tags tags_ui_error fill_ui_error = Some model_ui_error) /\
  (firstn 9 model_message = model_header /\ firstn 9 model_ui_message = model_header) /\
  (map fst tags_client_header = [[42; 109; 111; 100; 101; 108; 46; 74; 83; 79; 78; 77; 101; 115; 115; 97; 103; 101; 72; 101; 97; 100; 101; 114; 86; 49]; [99; 108; 105; 101; 110; 116]] /\ map fst tags_client_message = [[42; 109; 111; 100; 101; 108; 46; 74; 83; 79; 78; 77; 101; 115; 115; 97; 103; 101; 86; 49]; [99; 108; 105; 101; 110; 116]]) /\
  (forallb (fun p => mem_str (snd p) source_names) driver_tags_message = true /\
  forallb (fun p => mem_str (snd p) source_att_names) driver_tags_attachment = true /\
  driver_tags_message <> [] /\ driver_tags_attachment <> []) /\
  (forall mb v, header_object (jheader_of mb v) =
  [([109; 97; 105; 108; 98; 111; 120], Some (VS mb)); ([105; 100], Some (VK (fst v))); ([102; 114; 111; 109], Some (VT (m_tag (snd v)))); ([116; 111], Some (VT (m_tag (snd v))));
   ([115; 117; 98; 106; 101; 99; 116], Some (VT (m_tag (snd v)))); ([100; 97; 116; 101], Some (VZ (m_date (snd v)))); ([112; 111; 115; 105; 120; 45; 109; 105; 108; 108; 105; 115], Some (VZ (m_date (snd v))));
   ([115; 105; 122; 101], Some (VN (m_size (snd v)))); ([115; 101; 101; 110], Some (VB (m_seen (snd v))))]).
Proof. split; [exact json_tables_pinned|split; [exact header_shared|split; [exact client_decodes_server_structs|split; [exact driver_reads_source_names|exact header_object_of]]]]. Qed.
Print Assumptions json_fields_pinned.

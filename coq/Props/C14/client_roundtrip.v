(** C14 — the URL the Go client builds for (name, id…) reaches the router as exactly the segments base/api/v1/mailbox/name/id…: for every name without '/' and ' ' that is not empty, "." or "..", every id / base-path segment made of unreserved characters *)
From IV Require Import Base.Bytes Model.StoreSpec Model.Rest Proofs.RestRoute Proofs.RestClient.
Theorem client_roundtrip : forall mfa cfg srcok base name tail st m body,
  good_name name -> Forall good_seg base -> Forall good_seg tail ->
  serve mfa cfg srcok base st {| rq_meth := m; rq_path := client_wire (join_slash base) (client_uri name tail); rq_body := body |}
  = dispatch mfa cfg srcok st m body (route base m (base ++ [s_api; s_v1; s_mailbox; name] ++ tail)).
Proof. exact RestClient.client_roundtrip. Qed.
Print Assumptions client_roundtrip.

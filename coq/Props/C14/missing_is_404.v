(** C14 — every request that names one message (show, source, mark-seen, delete, web-UI message/html/source/attachment) of a mailbox in which the store has no such message is answered 404 and changes nothing *)
From IV Require Import Base.Bytes Model.StoreSpec Model.Rest Proofs.Rest.
Theorem missing_is_404 : forall mfa cfg srcok st h name id num body mb,
  mfa name = Some mb -> spec_get cfg st mb id = NotExist -> addresses_message h body num = true ->
  run_handler mfa cfg srcok st h name id num body = (st, (S404, PNone)).
Proof. exact missing_is_404_handler. Qed.
Print Assumptions missing_is_404.

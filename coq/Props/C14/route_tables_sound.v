(** C14 — the router of the model against the route tables read from the source on this run (pkg/rest/routes.go, pkg/webui/routes.go, mount points of server.FullAssembly, the client's URI prefix): every registered template, instantiated with arbitrary non-empty segments, reaches the handler of that route name with exactly those variables, under the registered method *)
From IV Require Import Base.Bytes Model.StoreSpec Model.Rest Gen.RestRoutes Proofs.RestTable.
Theorem route_tables_sound :
  Forall (entry_ok s_api) api_routes /\ Forall (entry_ok s_serve) ui_routes /\
  mount_points = [slash :: s_serve ++ [slash]; slash :: s_api ++ [slash]] /\ client_prefixes = [s_prefix].
Proof. split; [exact api_table_sound|split; [exact ui_table_sound|exact mounts_pinned]]. Qed.
Print Assumptions route_tables_sound.

(** C14 — and the router extracts exactly (name, id) from those segments, choosing the handler by method *)
From IV Require Import Base.Bytes Model.StoreSpec Model.Rest Proofs.RestClient.
Theorem client_routes_exact : forall base name id, name <> [] -> id <> [] ->
  (forall m, route base m (base ++ [s_api; s_v1; s_mailbox; name] ++ []) =
     match m with GET => RHandler HList name [] [] | DELETE => RHandler HPurge name [] [] | _ => RNotFound end) /\
  (forall m, route base m (base ++ [s_api; s_v1; s_mailbox; name] ++ [id]) =
     match m with GET => RHandler HShow name id [] | PATCH => RHandler HSeen name id [] | DELETE => RHandler HDel name id [] | MOther => RNotFound end) /\
  route base GET (base ++ [s_api; s_v1; s_mailbox; name] ++ [id; s_source]) = RHandler HSrc name id [].
Proof. intros base name id N I. split; [intros m; apply route_box; exact N|split; [intros m; apply route_msg; assumption|apply route_src; assumption]]. Qed.
Print Assumptions client_routes_exact.

(** C14 — for a name containing '/' the round trip fails: ListMailbox("s/t") is served as message "t" of mailbox "s" and the client reports an error although the mailbox holds a message (witness of K-C14-client-slash) *)
From IV Require Import Base.Bytes Model.StoreSpec Model.Rest Proofs.RestClient.
Theorem client_roundtrip_slash_refuted :
  spec_cop mfa_id cfg0 st_one (CList mb_st) <> Some (client_do mfa_id cfg0 src_all [] [] st_one (CList mb_st))
  /\ snd (client_do mfa_id cfg0 src_all [] [] st_one (CList mb_st)) = CErr
  /\ exists v, option_map snd (spec_cop mfa_id cfg0 st_one (CList mb_st)) = Some (COkList mb_st [v]).
Proof. exact client_slash_witness. Qed.
Print Assumptions client_roundtrip_slash_refuted.

(** C19 — wait_stays_enabled *)
From Coq Require Import Lia.
From IV Require Import Base.Bytes Gen.LifecyclePins Model.Lifecycle Model.LifecycleAsm.
From IV Require Import Proofs.LifecycleAsm.
Theorem wait_stays_enabled :
  forall sh e y a y' w, astep sh e y a = Some y' -> wait_ok y w = true -> wait_settled y w ->
    wait_ok y' w = true /\ wait_settled y' w.
Proof. first [exact LifecycleAsm.wait_stays_enabled | intros; apply LifecycleAsm.wait_stays_enabled]. Qed.
Print Assumptions wait_stays_enabled.

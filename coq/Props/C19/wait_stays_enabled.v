(** C19 — a wait of the shutdown sequence that has become possible stays possible whatever else happens *)
From IV Require Import Base.Bytes Gen.LifecyclePins Model.Lifecycle Model.LifecycleAsm Proofs.LifecycleAsm.
Local Open Scope nat_scope.
Theorem wait_stays_enabled : forall sh e y a y1 w, astep sh e y a = Some y1 -> wait_ok y w = true -> wait_ok y1 w = true.
Proof. exact LifecycleAsm.wait_stays_enabled. Qed.
Print Assumptions wait_stays_enabled.

(** C19 — session_step_ignores_shutdown: the session step IS given the cancelled / listener-open flags and provably does not depend on them (a model of a handler that looked at the context would fail here and in open_session_unaffected) *)
From Coq Require Import Lia.
From IV Require Import Base.Bytes Model.Lifecycle.
From IV Require Import Proofs.Lifecycle.
Theorem session_step_ignores_shutdown :
  forall pz c1 l1 c2 l2 s a, sess_step pz c1 l1 s a = sess_step pz c2 l2 s a.
Proof. first [exact Lifecycle.session_step_ignores_shutdown | intros; apply Lifecycle.session_step_ignores_shutdown]. Qed.
Print Assumptions session_step_ignores_shutdown.

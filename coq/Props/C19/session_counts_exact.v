(** C19 — session_counts_exact: in the two-step model with the counted accept loop the sessions part of the counter is zero exactly when no accepted session is alive *)
From Coq Require Import Lia.
From IV Require Import Base.Bytes Model.Lifecycle Model.LifecycleAccept Proofs.Lifecycle.
From IV Require Import Proofs.LifecycleAccept.
Theorem session_counts_exact :
  forall p b acts y, run2 (sys2_init p b) acts = Some y ->
    (wg (sv (base y)) = O <-> forall i s, In (i, s) (ss (sv (base y))) -> alive s = false).
Proof. first [exact LifecycleAccept.session_counts_exact | intros; apply LifecycleAccept.session_counts_exact]. Qed.
Print Assumptions session_counts_exact.

(** C19 — drain_uncounted_loop_refuted: before repair 0022 (loop not counted) Drain could return between Accept() returning and wg.Add: witness *)
From Coq Require Import Lia.
From IV Require Import Base.Bytes Model.Lifecycle Model.LifecycleAccept Proofs.Lifecycle.
From IV Require Import Proofs.LifecycleAccept.
Theorem drain_uncounted_loop_refuted : ~ drain_uncounted_loop_stmt.
Proof. first [exact LifecycleAccept.drain_uncounted_loop_refuted | intros; apply LifecycleAccept.drain_uncounted_loop_refuted]. Qed.
Print Assumptions drain_uncounted_loop_refuted.

(** C19 — start_list_is_the_models: Services.Start starts unconditionally exactly the goroutines the model starts with *)
From Coq Require Import Lia.
From IV Require Import Base.Bytes Gen.LifecyclePins Model.Lifecycle Model.LifecycleAsm Proofs.LifecycleAsm.
From IV Require Import Proofs.LifecycleMain.
Theorem start_list_is_the_models :
  start_order = [SHub; SWeb; SSmtp; SPop3; SRetention; SReadyWaiter] /\
  started SHub = sh_hub pinned_shape /\ started SWeb = sh_web pinned_shape /\ started SSmtp = sh_smtp pinned_shape /\
  started SPop3 = sh_pop3 pinned_shape /\ started SRetention = sh_ret pinned_shape /\
  started SReadyWaiter = sh_waiter pinned_shape /\ started SOther = false.
Proof. first [exact LifecycleMain.start_list_is_the_models | intros; apply LifecycleMain.start_list_is_the_models]. Qed.
Print Assumptions start_list_is_the_models.

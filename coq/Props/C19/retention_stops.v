(** C19 — after cancellation the retention scanner closes its shutdown channel within two of its own steps from any state, and stays stopped: Join returns *)
From IV Require Import Base.Bytes Model.Lifecycle Proofs.Lifecycle.
Local Open Scope nat_scope.
Theorem retention_stops : forall n k r, 2 <= k -> rsteps true n k r = RStopped.
Proof. exact Lifecycle.retention_stops. Qed.
Print Assumptions retention_stops.

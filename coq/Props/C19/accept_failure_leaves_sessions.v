(** C19 — accept_failure_leaves_sessions: a permanent Accept error ends the accept loop (its count released, nothing accepted any more) and leaves every session and the sessions counter exactly as they were *)
From Coq Require Import Lia.
From IV Require Import Base.Bytes Model.Lifecycle Model.LifecycleAccept Proofs.Lifecycle.
From IV Require Import Proofs.LifecycleAccept.
Theorem accept_failure_leaves_sessions :
  forall y y', step2 y ServeFail = Some y' ->
    base y' = base y /\ serving y' = false /\ pend y' = None /\ forall i, step2 y' (AcceptRet i) = None.
Proof. first [exact LifecycleAccept.accept_failure_leaves_sessions | intros; apply LifecycleAccept.accept_failure_leaves_sessions]. Qed.
Print Assumptions accept_failure_leaves_sessions.

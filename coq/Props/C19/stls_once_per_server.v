(** C19 — stls_once_per_server: OBSERVATION about the code (DESIGN 10.3): the TLS state is the server's — after one successful STLS every later STLS of any session is refused *)
From IV Require Import Base.Bytes Model.Lifecycle Model.LifecycleStls Proofs.Lifecycle.
From IV Require Import Proofs.LifecycleStls.
Theorem stls_once_per_server :
  forall y i y1 acts y2 rs j y3 r,
    step3 y (Stls i) = Some (y1, Some SOk) -> run3 y1 acts = Some (y2, rs) ->
    step3 y2 (Stls j) = Some (y3, Some r) -> r <> SOk.
Proof. first [exact LifecycleStls.stls_once_per_server | intros; apply LifecycleStls.stls_once_per_server]. Qed.
Print Assumptions stls_once_per_server.

(** C19 — drain_exact_accept_loop: both servers as coded after repair 0022 (accept loop counted; Accept() and wg.Add two steps), bound or not: Drain returns exactly when the accept loop has exited and no accepted session is alive; then nothing is held uncounted and nothing can be accepted any more *)
From Coq Require Import Lia.
From IV Require Import Base.Bytes Model.Lifecycle Model.LifecycleAccept Proofs.Lifecycle.
From IV Require Import Proofs.LifecycleAccept.
Theorem drain_exact_accept_loop :
  forall p b acts y, run2 (sys2_init p b) acts = Some y ->
    (drain_returns2 y = true <->
     (serving y = false /\ forall i s, In (i, s) (ss (sv (base y))) -> alive s = false)) /\
    (drain_returns2 y = true -> pend y = None /\ forall i, step2 y (AcceptRet i) = None).
Proof. first [exact LifecycleAccept.drain_exact_accept_loop | intros; apply LifecycleAccept.drain_exact_accept_loop]. Qed.
Print Assumptions drain_exact_accept_loop.

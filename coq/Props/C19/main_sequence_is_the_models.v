(** C19 — main_sequence_is_the_models: after the loop main() arms timedExit and performs exactly the waits of the model, in the same order *)
From Coq Require Import Lia.
From IV Require Import Base.Bytes Gen.LifecyclePins Model.Lifecycle Model.LifecycleAsm Proofs.LifecycleAsm.
From IV Require Import Proofs.LifecycleMain.
Theorem main_sequence_is_the_models :
  main_after_loop = MTimedExit :: map MWait (sh_waits pinned_shape) /\
  waits_of main_after_loop = a_todo (asm_init pinned_shape true).
Proof. first [exact LifecycleMain.main_sequence_is_the_models | intros; apply LifecycleMain.main_sequence_is_the_models]. Qed.
Print Assumptions main_sequence_is_the_models.

(** C19 — drain_exact: the SESSION-COUNT part of Server.wg (coarse model, accept loop not counted): zero exactly when no accepted session is alive; it is the code's Drain only once the accept loop has exited — see drain_exact_accept_loop and coarse_drain_applies_after_loop_exit *)
From Coq Require Import Lia.
From IV Require Import Base.Bytes Model.Lifecycle.
From IV Require Import Proofs.Lifecycle.
Theorem drain_exact :
  forall p acts y, run (sys_init p) acts = Some y ->
    (drain_returns y = true <-> forall i s, In (i, s) (ss (sv y)) -> alive s = false).
Proof. first [exact Lifecycle.drain_exact | intros; apply Lifecycle.drain_exact]. Qed.
Print Assumptions drain_exact.

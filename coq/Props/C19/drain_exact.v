(** C19 — in every reachable state of the SMTP server and of the POP3 server (as coded now), Drain returns exactly when no accepted session is still alive *)
From IV Require Import Base.Bytes Model.Lifecycle Proofs.Lifecycle.
Local Open Scope nat_scope.
Theorem drain_exact : forall p acts y, run (sys_init p) acts = Some y ->
    (drain_returns y = true <-> forall i s, In (i, s) (ss (sv y)) -> alive s = false).
Proof. exact Lifecycle.drain_exact. Qed.
Print Assumptions drain_exact.

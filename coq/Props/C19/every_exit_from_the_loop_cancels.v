(** C19 — every_exit_from_the_loop_cancels: every branch that leaves the signal loop of main() calls svcCancel() first (translator) *)
From Coq Require Import Lia.
From IV Require Import Base.Bytes Gen.LifecyclePins Model.Lifecycle Model.LifecycleAsm Proofs.LifecycleAsm.
From IV Require Import Proofs.LifecycleMain.
Theorem every_exit_from_the_loop_cancels : forallb (fun b => b) leaving_branches_cancel = true /\ leaving_branches_cancel <> [].
Proof. first [exact LifecycleMain.every_exit_from_the_loop_cancels | intros; apply LifecycleMain.every_exit_from_the_loop_cancels]. Qed.
Print Assumptions every_exit_from_the_loop_cancels.

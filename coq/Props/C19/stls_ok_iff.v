(** C19 — stls_ok_iff: STLS is answered +OK exactly in AUTHORIZATION state with TLS configured and the server TLS state still unset *)
From IV Require Import Base.Bytes Model.Lifecycle Model.LifecycleStls Proofs.Lifecycle.
From IV Require Import Proofs.LifecycleStls.
Theorem stls_ok_iff :
  forall y i y' , step3 y (Stls i) = Some (y', Some SOk) <->
    (exists s, find_s i (ss (sv (b3 y))) = Some s /\ in_authorization (ph s) = true /\
               tls_configured y = true /\ tls_state y = false /\
               y' = mkSys3 (b3 y) true true (i :: upgraded y)).
Proof. first [exact LifecycleStls.stls_ok_iff | intros; apply LifecycleStls.stls_ok_iff]. Qed.
Print Assumptions stls_ok_iff.

(** C19 — when Drain returns, the marked messages of every POP3 session that QUIT in TRANSACTION state have been removed: the deletions belong to the session Drain waits for *)
From IV Require Import Base.Bytes Model.Lifecycle Proofs.Lifecycle.
Local Open Scope nat_scope.
Theorem drain_waits_for_quit_deletes : forall p acts y, run (sys_init p) acts = Some y -> drain_returns y = true ->
    forall i s, In (i, s) (ss (sv y)) -> committed s = true -> marked s = true -> left s = 0.
Proof. exact Lifecycle.drain_waits_for_quit_deletes. Qed.
Print Assumptions drain_waits_for_quit_deletes.

(** C19 — drain_after_accept_failure: after a permanent Accept error Drain returns exactly when no accepted session is alive *)
From Coq Require Import Lia.
From IV Require Import Base.Bytes Model.Lifecycle Model.LifecycleAccept Proofs.Lifecycle.
From IV Require Import Proofs.LifecycleAccept.
Theorem drain_after_accept_failure :
  forall p b acts y y', run2 (sys2_init p b) acts = Some y -> step2 y ServeFail = Some y' ->
    (drain_returns2 y' = true <-> forall i s, In (i, s) (ss (sv (base y'))) -> alive s = false).
Proof. first [exact LifecycleAccept.drain_after_accept_failure | intros; apply LifecycleAccept.drain_after_accept_failure]. Qed.
Print Assumptions drain_after_accept_failure.

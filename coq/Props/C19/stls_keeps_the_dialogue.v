(** C19 — stls_keeps_the_dialogue: STLS leaves every session where it was *)
From IV Require Import Base.Bytes Model.Lifecycle Model.LifecycleStls Proofs.Lifecycle.
From IV Require Import Proofs.LifecycleStls.
Theorem stls_keeps_the_dialogue :
  forall y i y' r, step3 y (Stls i) = Some (y', r) -> b3 y' = b3 y.
Proof. first [exact LifecycleStls.stls_keeps_the_dialogue | intros; apply LifecycleStls.stls_keeps_the_dialogue]. Qed.
Print Assumptions stls_keeps_the_dialogue.

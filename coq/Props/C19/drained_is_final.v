(** C19 — drained_is_final: once Drain has returned nothing can be accepted, counted or started any more *)
From Coq Require Import Lia.
From IV Require Import Base.Bytes Model.Lifecycle Model.LifecycleAccept Proofs.Lifecycle.
From IV Require Import Proofs.LifecycleAccept.
Theorem drained_is_final :
  forall y acts y', Inv2 y -> drain_returns2 y = true -> run2 y acts = Some y' ->
    drain_returns2 y' = true /\ ss (sv (base y')) = ss (sv (base y)).
Proof. first [exact LifecycleAccept.drained_is_final | intros; apply LifecycleAccept.drained_is_final]. Qed.
Print Assumptions drained_is_final.

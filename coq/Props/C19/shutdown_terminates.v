(** C19 — assembled server (shape of Services.Start and main()'s waits read from the source): from EVERY state any schedule can reach, with any subset of the listeners unable to bind, once main() has cancelled, two steps of the retention scanner and then every remaining wait of main() (SMTP Drain, POP3 Drain, retention Join) are enabled in this order and main() is done *)
From IV Require Import Base.Bytes Gen.LifecyclePins Model.Lifecycle Model.LifecycleAsm Proofs.LifecycleAsm.
Local Open Scope nat_scope.
Theorem shutdown_terminates : forall e ren acts y,
    arun pinned_shape e (asm_init pinned_shape ren) acts = Some y -> a_cancel y = true ->
    exists y1, arun pinned_shape e y ([XRet 0; XRet 0] ++ map (fun _ => XMain) (a_todo y)) = Some y1 /\ a_todo y1 = [].
Proof. exact LifecycleAsm.shutdown_terminates. Qed.
Print Assumptions shutdown_terminates.

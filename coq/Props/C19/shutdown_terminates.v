(** C19 — shutdown_terminates *)
From Coq Require Import Lia.
From IV Require Import Base.Bytes Gen.LifecyclePins Model.Lifecycle Model.LifecycleAsm.
From IV Require Import Proofs.LifecycleAsm.
Theorem shutdown_terminates :
  forall e ren acts y,
    arun pinned_shape e (asm_init pinned_shape ren) acts = Some y -> a_cancel y = true ->
    exists y', arun pinned_shape e y (finish_acts e y) = Some y' /\ a_todo y' = [].
Proof. first [exact LifecycleAsm.shutdown_terminates | intros; apply LifecycleAsm.shutdown_terminates]. Qed.
Print Assumptions shutdown_terminates.

(** C19 — the hub goroutine either sees the cancellation or makes progress, unless an open listener with a full queue holds it (the C15 finding); once stopped it stays stopped *)
From IV Require Import Base.Bytes Model.Hub Proofs.HubBasics Proofs.HubTheorems Proofs.LifecycleHub.
Local Open Scope nat_scope.
Theorem hub_stop_not_delayed : forall c h, stopped h = false -> ~ head_full c h ->
    (exists h0, step c h AStop = Some h0) \/ (exists h0, hub_step c true h = Some h0).
Proof. exact LifecycleHub.hub_stop_not_delayed. Qed.
Print Assumptions hub_stop_not_delayed.

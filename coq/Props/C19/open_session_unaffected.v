(** C19 — erase cancellation and listener close from ANY schedule: it is still a schedule and every session goes through exactly the same states (stored messages, applied deletions) with the same counter — open sessions complete as if no shutdown had been requested *)
From IV Require Import Base.Bytes Model.Lifecycle Proofs.Lifecycle.
Local Open Scope nat_scope.
Theorem open_session_unaffected : forall p acts y, run (sys_init p) acts = Some y ->
    exists y0, run (sys_init p) (filter (fun a => negb (is_shutdown a)) acts) = Some y0 /\
               ss (sv y0) = ss (sv y) /\ wg (sv y0) = wg (sv y).
Proof. exact Lifecycle.open_session_unaffected. Qed.
Print Assumptions open_session_unaffected.

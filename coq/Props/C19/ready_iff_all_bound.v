(** C19 — the readyFunc given to Services.Start is called in some schedule iff — and in no schedule unless — all three listeners bound *)
From IV Require Import Base.Bytes Gen.LifecyclePins Model.Lifecycle Model.LifecycleAsm Proofs.LifecycleAsm.
Local Open Scope nat_scope.
Theorem ready_iff_all_bound : forall e ren,
    (exists acts y, arun pinned_shape e (asm_init pinned_shape ren) acts = Some y /\ a_readycalled y = true)
    <-> (f_web e = false /\ f_smtp e = false /\ f_pop3 e = false).
Proof. exact LifecycleAsm.ready_iff_all_bound. Qed.
Print Assumptions ready_iff_all_bound.

(** C19 — once Start has closed the listener, no schedule contains another accept: Accept is disabled in every later state and the set of sessions never grows *)
From IV Require Import Base.Bytes Model.Lifecycle Proofs.Lifecycle.
Local Open Scope nat_scope.
Theorem no_accept_after_close : forall y y0 acts y1 i,
    step y LClose = Some y0 -> run y0 acts = Some y1 ->
    step y1 (Accept i) = None /\ map fst (ss (sv y1)) = map fst (ss (sv y)).
Proof. exact Lifecycle.no_accept_after_close. Qed.
Print Assumptions no_accept_after_close.

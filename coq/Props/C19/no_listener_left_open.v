(** C19 — no_listener_left_open: from every reachable state of the assembled server (in particular shutdown requested before or during start-up), once the context is cancelled, letting each Start run to its end leaves no port bound: every listener is closed or was never bound *)
From Coq Require Import Lia.
From IV Require Import Base.Bytes Gen.LifecyclePins Model.Lifecycle Model.LifecycleAsm.
From IV Require Import Proofs.LifecycleAsm.
Theorem no_listener_left_open :
  forall e ren acts y,
    arun pinned_shape e (asm_init pinned_shape ren) acts = Some y -> a_cancel y = true ->
    exists y', arun pinned_shape e y (rest_acts e y CWeb ++ rest_acts e y CSmtp ++ rest_acts e y CPop3) = Some y' /\
               listening (p_web y') = false /\ listening (p_smtp y') = false /\ listening (p_pop3 y') = false /\
               p_web y' <> BInit /\ p_smtp y' <> BInit /\ p_pop3 y' <> BInit.
Proof. first [exact LifecycleAsm.no_listener_left_open | intros; apply LifecycleAsm.no_listener_left_open]. Qed.
Print Assumptions no_listener_left_open.

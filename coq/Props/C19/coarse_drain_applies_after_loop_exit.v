(** C19 — coarse_drain_applies_after_loop_exit: the coarse model's Drain coincides with the code's exactly when the accept loop has exited; while the loop runs the code's Drain blocks *)
From Coq Require Import Lia.
From IV Require Import Base.Bytes Model.Lifecycle Model.LifecycleAccept Proofs.Lifecycle.
From IV Require Import Proofs.LifecycleAccept.
Theorem coarse_drain_applies_after_loop_exit :
  forall y, (serving y = false -> drain_returns2 y = drain_returns (base y)) /\
            (serving y = true -> drain_returns2 y = false).
Proof. first [exact LifecycleAccept.coarse_drain_applies_after_loop_exit | intros; apply LifecycleAccept.coarse_drain_applies_after_loop_exit]. Qed.
Print Assumptions coarse_drain_applies_after_loop_exit.

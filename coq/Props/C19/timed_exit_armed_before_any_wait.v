(** C19 — timed_exit_armed_before_any_wait: timedExit (15 s) is started before the first wait *)
From Coq Require Import Lia.
From IV Require Import Base.Bytes Gen.LifecyclePins Model.Lifecycle Model.LifecycleAsm Proofs.LifecycleAsm.
From IV Require Import Proofs.LifecycleMain.
Theorem timed_exit_armed_before_any_wait :
  exists rest, main_after_loop = MTimedExit :: rest /\ ~ In MTimedExit rest /\ timed_exit_seconds = 15%nat.
Proof. first [exact LifecycleMain.timed_exit_armed_before_any_wait | intros; apply LifecycleMain.timed_exit_armed_before_any_wait]. Qed.
Print Assumptions timed_exit_armed_before_any_wait.

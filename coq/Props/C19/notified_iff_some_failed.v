(** C19 — the combined Notify channel can carry an error iff some listener failed to bind *)
From IV Require Import Base.Bytes Gen.LifecyclePins Model.Lifecycle Model.LifecycleAsm Proofs.LifecycleAsm.
Local Open Scope nat_scope.
Theorem notified_iff_some_failed : forall e ren,
    (exists acts y, arun pinned_shape e (asm_init pinned_shape ren) acts = Some y /\ a_notified y <> None)
    <-> (f_web e = true \/ f_smtp e = true \/ f_pop3 e = true).
Proof. exact LifecycleAsm.notified_iff_some_failed. Qed.
Print Assumptions notified_iff_some_failed.

(** C19 — main_shutdown_sequence_terminates: the waits the SOURCE performs after cancel can all be got through from every reachable state, whichever listeners failed to bind *)
From Coq Require Import Lia.
From IV Require Import Base.Bytes Gen.LifecyclePins Model.Lifecycle Model.LifecycleAsm Proofs.LifecycleAsm.
From IV Require Import Proofs.LifecycleMain.
Theorem main_shutdown_sequence_terminates :
  forall e ren acts y,
    arun pinned_shape e (asm_init pinned_shape ren) acts = Some y -> a_cancel y = true ->
    exists y', arun pinned_shape e y (finish_acts e y) = Some y' /\ a_todo y' = [] /\
               waits_of main_after_loop = sh_waits pinned_shape.
Proof. first [exact LifecycleMain.main_shutdown_sequence_terminates | intros; apply LifecycleMain.main_shutdown_sequence_terminates]. Qed.
Print Assumptions main_shutdown_sequence_terminates.

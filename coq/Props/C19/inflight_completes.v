(** C19 — whatever the shutdown flags, QUIT is possible in every running position: a message whose DATA was accepted is stored and acknowledged first; a POP3 session in TRANSACTION state enters UPDATE, where removing the marked messages is possible whatever the flags and is what ends the session *)
From IV Require Import Base.Bytes Model.Lifecycle Proofs.Lifecycle.
Local Open Scope nat_scope.
Theorem inflight_completes : forall y i s, find_s i (ss (sv y)) = Some s -> running (ph s) = true ->
    exists y1 s1, step y (Quit i) = Some y1 /\ find_s i (ss (sv y1)) = Some s1 /\
      stored s1 = (match ph s with SData | SBody => S (stored s) | _ => stored s end) /\
      (ph s1 = Ending \/
       (ph s1 = PUpdate /\ exists y2 s2, step y1 (Purge i) = Some y2 /\ find_s i (ss (sv y2)) = Some s2 /\
          ph s2 = Ending /\ left s2 = if marked s then 0 else left s)).
Proof. exact Lifecycle.inflight_completes. Qed.
Print Assumptions inflight_completes.

(** C19 — whatever the shutdown flags, QUIT is possible in every running position: a message whose DATA was accepted is stored and acknowledged, marked POP3 deletions are applied *)
From IV Require Import Base.Bytes Model.Lifecycle Proofs.Lifecycle.
Local Open Scope nat_scope.
Theorem inflight_completes : forall y i s, find_s i (ss (sv y)) = Some s -> running (ph s) = true ->
    exists y1, step y (Quit i) = Some y1 /\
      find_s i (ss (sv y1)) =
        Some (mkS Ending
                  (match ph s with SData | SBody => S (stored s) | _ => stored s end)
                  (match ph s with PDele => 0 | _ => left s end)).
Proof. exact Lifecycle.inflight_completes. Qed.
Print Assumptions inflight_completes.

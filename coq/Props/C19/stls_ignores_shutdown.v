(** C19 — stls_ignores_shutdown: the answer to a POP3 STLS and its effect do not depend on whether shutdown was requested or the listener is still open *)
From IV Require Import Base.Bytes Model.Lifecycle Model.LifecycleStls Proofs.Lifecycle.
From IV Require Import Proofs.LifecycleStls.
Theorem stls_ignores_shutdown :
  forall y i c l,
    step3 (with_flags y c l) (Stls i)
    = match step3 y (Stls i) with Some (y', r) => Some (with_flags y' c l, r) | None => None end.
Proof. first [exact LifecycleStls.stls_ignores_shutdown | intros; apply LifecycleStls.stls_ignores_shutdown]. Qed.
Print Assumptions stls_ignores_shutdown.

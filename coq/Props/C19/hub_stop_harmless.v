(** C19 — after the hub goroutine has stopped, Dispatch / Delete / AddListener / RemoveListener / Sync return at once, change nothing, never block (even with a full op queue) and cannot panic; the hub makes no further listener call *)
From IV Require Import Base.Bytes Model.Hub Proofs.HubBasics Proofs.LifecycleHub.
Local Open Scope nat_scope.
Theorem hub_stop_harmless : forall c h, stopped h = true ->
    (forall o, is_add o = false -> step c h (AEnq o) = Some h) /\
    (forall l k f fail, find_l l (ls h) = None ->
        step c h (ANew l k f fail) = Some (set_ls h (ls h ++ [(l, new_lst k f fail)]))) /\
    (forall l s, find_l l (ls h) = Some s -> lrm s = true ->
        step c h (ARm l) = Some (set_ls h (upd_l l (l_rm_done s) (ls h)))) /\
    (forall tok, sync_returns h tok) /\
    (forall ch, hub_step c ch h = None).
Proof. exact LifecycleHub.hub_stop_harmless. Qed.
Print Assumptions hub_stop_harmless.

(** C05 — bytes_accept_rule *)
From IV Require Import Base.Bytes Base.BytesFacts Model.Policy Model.Smtp Model.Dot Model.SmtpWire Proofs.SmtpInv Proofs.SmtpThms Proofs.DotCodec Proofs.SmtpCut.
From Coq Require Import ZifyBool ZifyNat ZifyN Lia.
From IV Require Import Proofs.SmtpBytes.
Theorem bytes_accept_rule : forall c o w,
  forallb (accept_ok c) (dialogue (snd (fst (run_bytes c o w)))) = true.
Proof. first [exact SmtpBytes.bytes_accept_rule | intros; apply SmtpBytes.bytes_accept_rule]. Qed.
Print Assumptions bytes_accept_rule.

(** C05 — mail_250_iff *)
From IV Require Import Base.Bytes Base.BytesFacts Model.Policy Model.Smtp.
From Coq Require Import ZifyBool ZifyNat Lia ZArith.
From IV Require Import Proofs.MailRule.
Theorem mail_250_iff : forall c s p h s' r d,
  st s = READY -> step c s (L (Mail p h)) = Ok s' r d -> (forall cd t, h <> Deny cd t) ->
  (first_code r = 250%Z <->
   exists sz og, p = MParsed sz (Some og) /\ size_within c sz /\
                 (h = Allow \/ should_accept_origin (pol c) (o_domain og) = true)).
Proof. first [exact MailRule.mail_250_iff | intros; apply MailRule.mail_250_iff]. Qed.
Print Assumptions mail_250_iff.

(** C05 — decisions ignore letter case in the address and in the configuration. *)
From IV Require Import Base.Bytes Model.Policy Proofs.PolicyRules.
Theorem case_blind : forall r r' d d',
  lower d = lower d' ->
  def_accept r = def_accept r' -> def_store r = def_store r' ->
  map lower (accept_l r) = map lower (accept_l r') -> map lower (reject_l r) = map lower (reject_l r') ->
  map lower (store_l r) = map lower (store_l r') -> map lower (discard_l r) = map lower (discard_l r') ->
  map lower (reject_origin_l r) = map lower (reject_origin_l r') ->
  should_accept (lower_cfg r) d = should_accept (lower_cfg r') d' /\
  should_store (lower_cfg r) d = should_store (lower_cfg r') d' /\
  should_accept_origin (lower_cfg r) d = should_accept_origin (lower_cfg r') d'.
Proof. exact PolicyRules.case_blind. Qed.
Print Assumptions case_blind.

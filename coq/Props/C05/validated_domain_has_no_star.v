(** C05 — a domain that passed ValidateDomainPart holds no '*' (the side condition of origin_rule / wildcard_correct); net.ParseIP is an oracle of which only "accepts no string holding a '*'" is used *)
From IV Require Import Base.Bytes Base.BytesFacts Model.Policy Model.Addr Proofs.PolicyGlob Proofs.PolicyRules.
From IV Require Import Proofs.AddrNoStar.
Theorem validated_domain_has_no_star : forall (parse_ip : str -> bool),
  (forall s, parse_ip s = true -> ~ In star s) ->
  forall d, validate_domain parse_ip d = true -> ~ In star d.
Proof. exact AddrNoStar.validated_domain_has_no_star. Qed.
Print Assumptions validated_domain_has_no_star.

(** C05 — recipients_bounded *)
From IV Require Import Base.Bytes Base.BytesFacts Model.Policy Model.Smtp Model.Dot Model.SmtpWire Proofs.SmtpInv.
From Coq Require Import ZifyBool ZifyNat Lia.
From IV Require Import Proofs.SmtpThms.
Theorem recipients_bounded : forall c items tr s',
  run c init items = (tr, EOpen s') -> (Z.of_nat (length (rcpts s')) <= Z.max 0 (max_rcpt c))%Z.
Proof. exact SmtpThms.recipients_bounded. Qed.
Print Assumptions recipients_bounded.

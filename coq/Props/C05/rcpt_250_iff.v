(** C05 — rcpt_250_iff *)
From IV Require Import Base.Bytes Base.BytesFacts Model.Policy Model.Smtp Model.Dot Model.SmtpWire Proofs.SmtpInv.
From Coq Require Import ZifyBool ZifyNat Lia.
From IV Require Import Proofs.SmtpThms.
Theorem rcpt_250_iff : forall c s p h s' r d,
  st s = MAIL -> step c s (L (Rcpt p h)) = Ok s' r d ->
  (first_code r = 250%Z /\ (forall cd t, h <> Deny cd t)) <->
  exists rc, p = RParsed (Some rc) /\ (forall cd t, h <> Deny cd t) /\
             (h = Allow \/ should_accept (pol c) (r_domain rc) = true) /\
             (Z.of_nat (length (rcpts s)) < max_rcpt c)%Z.
Proof. exact SmtpThms.rcpt_250_iff. Qed.
Print Assumptions rcpt_250_iff.

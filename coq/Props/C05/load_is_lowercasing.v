(** C05 — the loaded configuration is the raw one with every list lower-cased *)
From IV Require Import Base.Bytes Model.Policy Proofs.PolicyRules.
Theorem load_is_lowercasing : forall da acc rej ds sto dis rejo, load_cfg da acc rej ds sto dis rejo = lower_cfg (raw_cfg da acc rej ds sto dis rejo).
Proof. exact load_cfg_lower. Qed.
Print Assumptions load_is_lowercasing.

(** C05 — outside that guard the matcher differs from the specification (witness; unreachable for validated sender domains) *)
From IV Require Import Base.Bytes Model.Policy Proofs.PolicyGlob.
Theorem wildcard_star_in_input_refuted : exists p s, match_wild p s <> globb p s.
Proof. exact match_wild_star_input_differs. Qed.
Print Assumptions wildcard_star_in_input_refuted.

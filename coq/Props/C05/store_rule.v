(** C05 — mail is stored for a domain exactly when the store/discard rule says so *)
From IV Require Import Base.Bytes Model.Policy Proofs.PolicyRules.
Theorem store_rule : forall r d, should_store (lower_cfg r) d = true <-> (def_store r = true /\ ~ In_ci d (discard_l r)) \/ (def_store r = false /\ In_ci d (store_l r)).
Proof. exact PolicyRules.store_rule. Qed.
Print Assumptions store_rule.

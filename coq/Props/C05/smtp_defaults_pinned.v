(** C05 — smtp_defaults_pinned *)
From IV Require Import Base.Bytes Base.BytesFacts Model.Policy Gen.ConfigPins Proofs.PolicyGlob Proofs.PolicyRules.
From IV Require Import Proofs.ConfigPins.
Theorem smtp_defaults_pinned :
  default_of [68;101;102;97;117;108;116;65;99;99;101;112;116] = Some [116;114;117;101] /\ default_of [68;101;102;97;117;108;116;83;116;111;114;101] = Some [116;114;117;101] /\
  default_of [77;97;120;82;101;99;105;112;105;101;110;116;115] = Some [50;48;48] /\ default_of [77;97;120;77;101;115;115;97;103;101;66;121;116;101;115] = Some [49;48;50;52;48;48;48;48] /\
  default_of [68;111;109;97;105;110] = Some [105;110;98;117;99;107;101;116] /\ smtp_domain_default = [105;110;98;117;99;107;101;116] /\
  Forall (fun p => default_of (fst p) = Some []) model_lists.
Proof. first [exact ConfigPins.smtp_defaults_pinned | intros; apply ConfigPins.smtp_defaults_pinned]. Qed.
Print Assumptions smtp_defaults_pinned.

(** C05 — the predicate-level accept rule (PolicyRules.accept_rule): after config.Process's lower-casing, a recipient domain is accepted exactly when (default accept and no entry of the reject list equals it up to letter case) or (default reject and some entry of the accept list equals it up to letter case) *)
From IV Require Import Base.Bytes Base.BytesFacts Model.Policy Proofs.PolicyGlob.
From IV Require Import Proofs.PolicyRules.
Theorem accept_domain_rule : forall r d,
  should_accept (lower_cfg r) d = true <->
  (def_accept r = true /\ ~ In_ci d (reject_l r)) \/ (def_accept r = false /\ In_ci d (accept_l r)).
Proof. exact PolicyRules.accept_rule. Qed.
Print Assumptions accept_domain_rule.

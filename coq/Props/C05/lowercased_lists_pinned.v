(** C05 — lowercased_lists_pinned *)
From IV Require Import Base.Bytes Base.BytesFacts Model.Policy Gen.ConfigPins Proofs.PolicyGlob Proofs.PolicyRules.
From IV Require Import Proofs.ConfigPins.
Theorem lowercased_lists_pinned :
  lowercased_config_lists = map (fun p => c_smtp (fst p)) model_lists /\
  (forall r, Forall (fun p => snd p (lower_cfg r) = map lower (snd p r)) model_lists) /\
  (forall r, Forall (fun p => snd p (lower_cfg r) = snd p r) model_switches).
Proof. first [exact ConfigPins.lowercased_lists_pinned | intros; apply ConfigPins.lowercased_lists_pinned]. Qed.
Print Assumptions lowercased_lists_pinned.

(** C05 — a sender domain is refused exactly when it matches a reject-origin pattern *)
From IV Require Import Base.Bytes Model.Policy Proofs.PolicyRules.
Theorem origin_rule : forall r d, ~ In star d -> (should_accept_origin (lower_cfg r) d = false <-> exists p, In p (reject_origin_l r) /\ glob (lower p) (lower d)).
Proof. exact PolicyRules.origin_rule. Qed.
Print Assumptions origin_rule.

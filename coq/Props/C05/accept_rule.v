(** C05 — accept_rule *)
From IV Require Import Base.Bytes Base.BytesFacts Model.Policy Model.Smtp Model.Dot Model.SmtpWire Proofs.SmtpInv.
From Coq Require Import ZifyBool ZifyNat Lia.
From IV Require Import Proofs.SmtpThms.
Theorem accept_rule : forall c items s,
  forallb (accept_ok c) (dialogue (fst (run c s items))) = true.
Proof. first [exact SmtpThms.accept_rule | intros; apply SmtpThms.accept_rule]. Qed.
Print Assumptions accept_rule.

(** C05 — a recipient domain is accepted exactly when the documented rule says so *)
From IV Require Import Base.Bytes Model.Policy Proofs.PolicyRules.
Theorem accept_rule : forall r d, should_accept (lower_cfg r) d = true <-> (def_accept r = true /\ ~ In_ci d (reject_l r)) \/ (def_accept r = false /\ In_ci d (accept_l r)).
Proof. exact PolicyRules.accept_rule. Qed.
Print Assumptions accept_rule.

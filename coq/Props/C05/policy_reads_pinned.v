(** C05 — policy_reads_pinned *)
From IV Require Import Base.Bytes Base.BytesFacts Model.Policy Gen.ConfigPins Proofs.PolicyGlob Proofs.PolicyRules.
From IV Require Import Proofs.ConfigPins.
Theorem policy_reads_pinned :
  map fst policy_reads = [n_accept; n_store; n_origin] /\
  (forall n, In n (map fst model_lists ++ map fst model_switches) ->
     (mem_str n (reads_of n_accept) = false -> forall r d v b,
        should_accept (set_list n v r) d = should_accept r d /\ should_accept (set_switch n b r) d = should_accept r d) /\
     (mem_str n (reads_of n_store) = false -> forall r d v b,
        should_store (set_list n v r) d = should_store r d /\ should_store (set_switch n b r) d = should_store r d) /\
     (mem_str n (reads_of n_origin) = false -> forall r d v b,
        should_accept_origin (set_list n v r) d = should_accept_origin r d /\
        should_accept_origin (set_switch n b r) d = should_accept_origin r d)).
Proof. first [exact ConfigPins.policy_reads_pinned | intros; apply ConfigPins.policy_reads_pinned]. Qed.
Print Assumptions policy_reads_pinned.

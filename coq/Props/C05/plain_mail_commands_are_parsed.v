(** C05 — plain_mail_commands_are_parsed *)
From IV Require Import Base.Bytes Base.Regex Gen.SmtpRegex Model.Policy Model.Smtp Model.SmtpWire Model.SmtpAddr Model.SmtpMailParse.
From IV Require Import Proofs.SmtpMailSamples.
Theorem plain_mail_commands_are_parsed : forallb plain_sample_ok plain_samples = true.
Proof. first [exact SmtpMailSamples.plain_mail_commands_are_parsed | intros; apply SmtpMailSamples.plain_mail_commands_are_parsed]. Qed.
Print Assumptions plain_mail_commands_are_parsed.

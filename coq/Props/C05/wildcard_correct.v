(** C05 — the wildcard matcher as coded decides the glob relation on every input free of '*' *)
From IV Require Import Base.Bytes Model.Policy Proofs.PolicyGlob.
Theorem wildcard_correct : forall p s, ~ In star s -> (match_wild p s = true <-> glob p s).
Proof. exact match_wild_correct. Qed.
Print Assumptions wildcard_correct.

(** C05 — for every validated sender domain (and the empty domain of MAIL FROM:<>): the sender is refused exactly when its domain matches one of the reject-origin patterns, up to letter case; no side condition left *)
From IV Require Import Base.Bytes Base.BytesFacts Model.Policy Model.Addr Proofs.PolicyGlob Proofs.PolicyRules.
From IV Require Import Proofs.AddrNoStar.
Theorem origin_rule_validated : forall (parse_ip : str -> bool),
  (forall s, parse_ip s = true -> ~ In star s) ->
  forall r d, (d = [] \/ validate_domain parse_ip d = true) ->
  (should_accept_origin (lower_cfg r) d = false <->
   exists p, In p (reject_origin_l r) /\ glob (lower p) (lower d)).
Proof. exact AddrNoStar.origin_rule_validated. Qed.
Print Assumptions origin_rule_validated.

(** C05 — net_accept_rule *)
From IV Require Import Base.Bytes Base.BytesFacts Model.Policy Model.Smtp Model.Dot Model.SmtpWire Proofs.SmtpInv Proofs.SmtpThms Proofs.DotCodec Proofs.SmtpCut Proofs.SmtpBytes.
From Coq Require Import ZifyBool ZifyNat ZifyN Lia.
From IV Require Import Proofs.SmtpNet.
Theorem net_accept_rule : forall c o chunks f,
  forallb (accept_ok c) (dialogue (snd (fst (run_net c o chunks f)))) = true.
Proof. first [exact SmtpNet.net_accept_rule | intros; apply SmtpNet.net_accept_rule]. Qed.
Print Assumptions net_accept_rule.

(** C05 — plain_shape_is_narrow *)
From IV Require Import Base.Bytes Base.Regex Gen.SmtpRegex Model.Policy Model.Smtp Model.SmtpWire Model.SmtpAddr Model.SmtpMailParse.
From IV Require Import Proofs.SmtpMailSamples.
Theorem plain_shape_is_narrow : forallb (fun a => negb (plain_mail_arg a)) not_plain_samples = true.
Proof. first [exact SmtpMailSamples.plain_shape_is_narrow | intros; apply SmtpMailSamples.plain_shape_is_narrow]. Qed.
Print Assumptions plain_shape_is_narrow.

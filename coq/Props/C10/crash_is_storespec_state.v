(** C10 — crash_is_storespec_state: an operation killed at any crash point leaves a disk that represents a StoreSpec state: unchanged, or the completed operation's, or (open finding) minus 1..evictions oldest messages *)
From IV Require Import Base.Bytes Base.BytesFacts Model.FileDisk Proofs.FileDiskMap Proofs.FileDiskInv Proofs.FileDiskSteps Proofs.FileDiskOps Proofs.FileDiskCrash Proofs.FileDiskHistory Proofs.FileDiskParents Proofs.FileDiskSpec Proofs.FileDiskSpecRun.
From IV Require Import Model.StoreSpec Model.StoreSpecImpl Proofs.StoreSpecFacts Proofs.StoreSpecRefine Proofs.FileStoreRefine.
From Coq Require Import List NArith ZArith Bool Lia Arith Sorted.
From IV Require Import Model.FileDiskCodec Proofs.FileDiskCodec.
From IV Require Import Proofs.FileDiskSpecTop.
Theorem crash_is_storespec_state :
  forall (date_of : str -> Z) (tag_of : str -> N),
  forall (enc : index -> str) (dec : str -> option index), (forall i, dec (enc i) = Some i) ->
  forall (hash : str -> str), (forall a b, hash a = hash b -> a = b) ->
  forall (cfg : scfg) (st : spec_store) (d : disk) (iss : issued str) (od : FileDisk.op) (d' : disk),
    RD date_of tag_of enc dec hash cfg st d iss ->
    crash_reach (steps enc dec hash (c_cap cfg) od d) d d' ->
    RD date_of tag_of enc dec hash cfg st d' iss \/
    (exists j, (1 <= j <= evictions dec hash (c_cap cfg) od d)%nat /\
       RD date_of tag_of enc dec hash cfg
          {| live := snd (drop_oldest (op_mailbox od) j (live st)); counts := counts st |} d' iss) \/
    (reach enc dec hash (c_cap cfg) d' /\
     forall mb, ix date_of tag_of dec hash d' mb = ix date_of tag_of dec hash (FileDisk.exec enc dec hash (c_cap cfg) od d) mb).
Proof. first [exact FileDiskSpecTop.crash_is_storespec_state | intros; apply FileDiskSpecTop.crash_is_storespec_state]. Qed.
Print Assumptions crash_is_storespec_state.

(** C10 — reopening the store (in process or by a restart) at any positions of any history changes
    nothing observable: the final disk and the sequence of observations — for every operation its result
    and the disk after it (hence every listing, id, metadata, seen flag, size, content), and for every
    VisitMailboxes walk ([IVisit], the retention scanner's view) exactly what it yields — equal those of
    the history without the reopens. The model's walk reads the disk and nothing else, so it is
    transparent by construction; that the real Store keeps nothing else either (e.g. no remembered
    directory listing) is what the C10 correspondence run checks with its v / t operations. *)
From IV Require Import Base.Bytes Model.FileDisk Proofs.FileDiskDurable.
Theorem reopen_transparent : forall (enc : index -> str) (dec : str -> option index) (hash : str -> str) (cap : nat)
  (its : list item) (d : disk),
  run_items enc dec hash cap d its = run_items enc dec hash cap d (strip its) /\
  observations enc dec hash cap d its = observations enc dec hash cap d (strip its).
Proof. exact FileDiskDurable.reopen_transparent. Qed.
Print Assumptions reopen_transparent.

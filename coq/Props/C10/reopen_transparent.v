(** C10 — reopening the store (in process or by a restart) at any positions of any history changes
    nothing observable: the final disk and the sequence of (operation result, disk after it) — hence
    every listing, id, metadata, seen flag, size, content and the visit walk — equal those of the history
    without the reopens. The model has no state but the disk; that the real Store has none either is
    what the C10 correspondence run checks. *)
From IV Require Import Base.Bytes Model.FileDisk Proofs.FileDiskDurable.
Theorem reopen_transparent : forall (enc : index -> str) (dec : str -> option index) (hash : str -> str) (cap : nat)
  (its : list item) (d : disk),
  run_items enc dec hash cap d its = run_items enc dec hash cap d (strip its) /\
  observations enc dec hash cap d its = observations enc dec hash cap d (strip its).
Proof. exact FileDiskDurable.reopen_transparent. Qed.
Print Assumptions reopen_transparent.

(** C10 — acknowledged_mail_survives_restart: mail acknowledged with 250 survives a restart — the deliveries of any SMTP dialogue, performed on the disk model of the file store, then any stops / starts / walks: every mailbox lists exactly the (cap most recent of the) messages the dialogue entitles it to, in order *)
From IV Require Import Base.Bytes Base.BytesFacts Model.FileDisk Proofs.FileDiskMap Proofs.FileDiskInv Proofs.FileDiskSteps Proofs.FileDiskOps Proofs.FileDiskCrash Proofs.FileDiskDurable Proofs.FileDiskHistory Proofs.FileDiskParents Proofs.FileDiskSpec Proofs.FileDiskSpecRun Proofs.FileDiskSpecTop Model.FileDiskCodec Proofs.FileDiskCodec.
From IV Require Import Model.Policy Model.Smtp Model.StoreSpec Model.StoreSpecImpl Proofs.StoreSpecFacts Proofs.StoreSpecRefine Proofs.SmtpInv Proofs.SmtpThms Proofs.StoreCap Proofs.DeliverStore Proofs.DeliverStoreCap.
From Coq Require Import List NArith ZArith Bool Lia Arith.
From IV Require Import Model.Dot Model.SmtpWire Proofs.SmtpExamples.
From IV Require Import Proofs.DeliverDurable.
Theorem acknowledged_mail_survives_restart :
  forall (info_of : Z -> N -> str) (body_of : N -> N -> str) (date_of : str -> Z) (dtag_of : str -> N),
    (forall d t, date_of (info_of d t) = d) -> (forall d t, dtag_of (info_of d t) = t) ->
    (forall t s, N.of_nat (length (body_of t s)) = s) ->
  forall (enc : index -> str) (dec : str -> option index), (forall i, dec (enc i) = Some i) ->
  forall (hash : str -> str), (forall a b, hash a = hash b -> a = b) ->
  forall (tag_of : delivery -> N) (date : Z) (cap : nat)
         (c : Smtp.scfg) (items : list Smtp.item) (sup : list (list str)) (its : list FileDiskDurable.item),
    forallb sane_item items = true ->
    let tr := fst (Smtp.run c Smtp.init items) in
    disk_fresh info_of body_of date_of dtag_of enc dec hash (cfgc cap) (([], sup), []) (map (add_opc tag_of date) (deliveries_of tr)) ->
    quiet_items its ->
    let '((d', _), _) := final_impl str str_eqb FileDiskSpecRun.dstate (exec_disk info_of body_of date_of dtag_of enc dec hash (cfgc cap))
                           (([], sup), []) (map (add_opc tag_of date) (deliveries_of tr)) in
    reach enc dec hash cap d' /\
    forall mb, disk_tags date_of dtag_of dec hash (run_items enc dec hash cap d' its) mb =
               map tag_of (cap_box cap (filter (fun d => str_eqb mb (d_mailbox d)) (entitled c None [] [] (dialogue tr)))).
Proof. first [exact DeliverDurable.acknowledged_mail_survives_restart | intros; apply DeliverDurable.acknowledged_mail_survives_restart]. Qed.
Print Assumptions acknowledged_mail_survives_restart.

(** C10 — open finding K-C10-id-reissued-after-restart. Witness: a mailbox holds one message; it is
    removed (result ok, the id is gone); the store is reopened; the next delivery's id generator — the
    wall-clock second plus a counter that restarts with the process — produces the removed message's id
    first, and since no indexed message has it the id is issued again: the holder of the old id now
    addresses a different message. *)
From IV Require Import Base.Bytes Model.FileDisk Proofs.FileDiskCrash Proofs.FileDiskDurable Proofs.FileDiskWitness.
Theorem removed_stay_gone_refuted :
  exists (enc : index -> str) (dec : str -> option index) (hash : str -> str) (cap : nat) (d : disk)
         (mb id : str) (its : list item),
    (forall i, dec (enc i) = Some i) /\ reach enc dec hash cap d /\
    In id (view_ids dec d (hash mb)) /\
    result_of dec hash cap (Remove mb id) d = ROk /\
    ~ In id (view_ids dec (exec enc dec hash cap (Remove mb id) d) (hash mb)) /\
    let d2 := run_items enc dec hash cap (exec enc dec hash cap (Remove mb id) d) its in
    In id (view_ids dec d2 (hash mb)) /\
    view dec d2 (hash mb) <> view dec d (hash mb).
Proof. exact FileDiskWitness.removed_stay_gone_refuted. Qed.
Print Assumptions removed_stay_gone_refuted.

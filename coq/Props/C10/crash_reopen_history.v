(** C10 — crash_reopen_history: the same end-to-end statement, seen from C10: reopens and restarts after crashes are transparent, the state is always an ordered-map state *)
From IV Require Import Base.Bytes Base.BytesFacts Model.FileDisk Model.FileDiskCodec Proofs.FileDiskMap Proofs.FileDiskInv Proofs.FileDiskSteps Proofs.FileDiskOps Proofs.FileDiskCrash Proofs.FileDiskCodec Proofs.FileDiskWitness.
From Coq Require Import List NArith Bool Lia.
From IV Require Import Proofs.FileDiskHistory.
Theorem crash_reopen_history : forall (enc : index -> str) (dec : str -> option index), (forall i, dec (enc i) = Some i) ->
  forall (hash : str -> str) (cap : nat) (d : disk) (its : list citem) (d' : disk),
    reach enc dec hash cap d -> crun enc dec hash cap d its d' ->
    reach enc dec hash cap d' /\ arun hash cap (abs dec d) its (abs dec d').
Proof. first [exact FileDiskHistory.crash_reopen_history | intros; apply FileDiskHistory.crash_reopen_history]. Qed.
Print Assumptions crash_reopen_history.

(** C10 — reopen_transparent_cached: reopen transparency for every implementation that keeps memory of any kind, provided the memory is coherent with the disk *)
From IV Require Import Base.Bytes Base.BytesFacts Model.FileDisk Proofs.FileDiskMap Proofs.FileDiskInv Proofs.FileDiskSteps Proofs.FileDiskOps Proofs.FileDiskCrash.
From Coq Require Import List NArith Bool Lia.
From IV Require Import Proofs.FileDiskDurable.
Theorem reopen_transparent_cached :
  forall (enc : index -> str) (dec : str -> option index) (hash : str -> str) (cap : nat)
         (M : Type) (coh : M -> disk -> Prop) (m_start : disk -> M) (m_step : M -> disk -> item -> M)
         (m_obs : M -> disk -> item -> list obs),
    (forall d, coh (m_start d) d) ->
    (forall m d it, coh m d -> coh (m_step m d it) (run_item enc dec hash cap d it)) ->
    (forall m d it, coh m d -> m_obs m d it = observations enc dec hash cap d [it]) ->
  forall (its : list item) (m : M) (d : disk), coh m d ->
    m_run enc dec hash cap M m_start m_step m_obs m d its = observations enc dec hash cap d (strip its).
Proof. first [exact FileDiskDurable.reopen_transparent_cached | intros; apply FileDiskDurable.reopen_transparent_cached]. Qed.
Print Assumptions reopen_transparent_cached.

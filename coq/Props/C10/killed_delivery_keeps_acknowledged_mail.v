(** C10 — killed_delivery_keeps_acknowledged_mail: a process killed at any crash point of a further delivery leaves the acknowledged mail as it was, or the delivery complete, or (capped mailbox, open finding) minus 1..evictions oldest *)
From IV Require Import Base.Bytes Base.BytesFacts Model.FileDisk Proofs.FileDiskMap Proofs.FileDiskInv Proofs.FileDiskSteps Proofs.FileDiskOps Proofs.FileDiskCrash Proofs.FileDiskDurable Proofs.FileDiskHistory Proofs.FileDiskParents Proofs.FileDiskSpec Proofs.FileDiskSpecRun Proofs.FileDiskSpecTop Model.FileDiskCodec Proofs.FileDiskCodec.
From IV Require Import Model.Policy Model.Smtp Model.StoreSpec Model.StoreSpecImpl Proofs.StoreSpecFacts Proofs.StoreSpecRefine Proofs.SmtpInv Proofs.SmtpThms Proofs.StoreCap Proofs.DeliverStore Proofs.DeliverStoreCap.
From Coq Require Import List NArith ZArith Bool Lia Arith.
From IV Require Import Model.Dot Model.SmtpWire Proofs.SmtpExamples.
From IV Require Import Proofs.DeliverDurable.
Theorem killed_delivery_keeps_acknowledged_mail :
  forall (info_of : Z -> N -> str) (body_of : N -> N -> str) (date_of : str -> Z) (dtag_of : str -> N),
    (forall d t, date_of (info_of d t) = d) -> (forall d t, dtag_of (info_of d t) = t) ->
    (forall t s, N.of_nat (length (body_of t s)) = s) ->
  forall (enc : index -> str) (dec : str -> option index), (forall i, dec (enc i) = Some i) ->
  forall (hash : str -> str), (forall a b, hash a = hash b -> a = b) ->
  forall (tag_of : delivery -> N) (date : Z) (cap : nat)
         (ds : list delivery) (dl : delivery) (sup : list (list str)) (cands : list str),
    disk_fresh info_of body_of date_of dtag_of enc dec hash (cfgc cap) (([], sup), []) (map (add_opc tag_of date) ds) ->
    let '((d0, _), _) := final_impl str str_eqb FileDiskSpecRun.dstate (exec_disk info_of body_of date_of dtag_of enc dec hash (cfgc cap))
                           (([], sup), []) (map (add_opc tag_of date) ds) in
    let od := FileDisk.Add (d_mailbox dl) (info_of date (tag_of dl)) (body_of (tag_of dl) (N.of_nat (length (d_body dl)))) cands in
    let T0 := fun mb => map tag_of (store_get (store_after_cap cap [] ds) mb) in
    forall d', crash_reach (steps enc dec hash cap od d0) d0 d' ->
      reach enc dec hash cap d' /\
      ((forall mb, disk_tags date_of dtag_of dec hash d' mb = T0 mb) \/
       (exists j, (1 <= j <= evictions dec hash cap od d0)%nat /\
          disk_tags date_of dtag_of dec hash d' (d_mailbox dl) = skipn j (T0 (d_mailbox dl)) /\
          forall mb, mb <> d_mailbox dl -> disk_tags date_of dtag_of dec hash d' mb = T0 mb) \/
       (forall mb, disk_tags date_of dtag_of dec hash d' mb =
                   disk_tags date_of dtag_of dec hash (FileDisk.exec enc dec hash cap od d0) mb)).
Proof. first [exact DeliverDurable.killed_delivery_keeps_acknowledged_mail | intros; apply DeliverDurable.killed_delivery_keeps_acknowledged_mail]. Qed.
Print Assumptions killed_delivery_keeps_acknowledged_mail.

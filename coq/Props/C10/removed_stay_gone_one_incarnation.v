(** C10 — the open finding needs the restart: as long as no later delivery's id generator ever produces
    the removed message's id again (true within one process incarnation: second + counter never repeats
    below 10000 deliveries per second), the removed message stays gone through any history with reopens. *)
From IV Require Import Base.Bytes Model.FileDisk Proofs.FileDiskCrash Proofs.FileDiskDurable.
Theorem removed_stay_gone_one_incarnation : forall (enc : index -> str) (dec : str -> option index),
  (forall i, dec (enc i) = Some i) ->
  forall (hash : str -> str) (cap : nat) (d : disk) (mb id : str) (its : list item),
  reach enc dec hash cap d -> never_generated id its ->
  ~ In id (view_ids dec (run_items enc dec hash cap (exec enc dec hash cap (Remove mb id) d) its) (hash mb)).
Proof. exact FileDiskDurable.removed_stay_gone_one_incarnation. Qed.
Print Assumptions removed_stay_gone_one_incarnation.

(** C10 — filedisk_refines_storespec_exact: without Visit operations the run of the disk model through the specification's runner EQUALS run_spec *)
From IV Require Import Base.Bytes Base.BytesFacts Model.FileDisk Proofs.FileDiskMap Proofs.FileDiskInv Proofs.FileDiskSteps Proofs.FileDiskOps Proofs.FileDiskCrash Proofs.FileDiskHistory Proofs.FileDiskParents Proofs.FileDiskSpec Proofs.FileDiskSpecRun.
From IV Require Import Model.StoreSpec Model.StoreSpecImpl Proofs.StoreSpecFacts Proofs.StoreSpecRefine Proofs.FileStoreRefine.
From Coq Require Import List NArith ZArith Bool Lia Arith Sorted.
From IV Require Import Model.FileDiskCodec Proofs.FileDiskCodec.
From IV Require Import Proofs.FileDiskSpecTop.
Theorem filedisk_refines_storespec_exact :
  forall (info_of : Z -> N -> str) (body_of : N -> N -> str) (date_of : str -> Z) (tag_of : str -> N),
    (forall d t, date_of (info_of d t) = d) -> (forall d t, tag_of (info_of d t) = t) ->
    (forall t s, N.of_nat (length (body_of t s)) = s) ->
  forall (enc : index -> str) (dec : str -> option index), (forall i, dec (enc i) = Some i) ->
  forall (hash : str -> str), (forall a b, hash a = hash b -> a = b) ->
  forall (cfg : scfg), c_max cfg = 0%N ->
  forall (ops : list StoreSpec.op) (sup : list (list str)),
    forallb (fun o => negb (is_visit o)) ops = true ->
    disk_fresh info_of body_of date_of tag_of enc dec hash cfg (([], sup), []) ops ->
    run_impl str str_eqb dstate (exec_disk info_of body_of date_of tag_of enc dec hash cfg) (([], sup), []) ops =
    run_spec cfg spec_init ops.
Proof. first [exact FileDiskSpecTop.filedisk_refines_storespec_exact | intros; apply FileDiskSpecTop.filedisk_refines_storespec_exact]. Qed.
Print Assumptions filedisk_refines_storespec_exact.

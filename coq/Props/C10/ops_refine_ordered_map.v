(** C10 — ops_refine_ordered_map: every completed operation on a reachable disk is the ordered-map operation on the listing *)
From IV Require Import Base.Bytes Base.BytesFacts Model.FileDisk Model.FileDiskCodec Proofs.FileDiskMap Proofs.FileDiskInv Proofs.FileDiskSteps Proofs.FileDiskOps Proofs.FileDiskCrash Proofs.FileDiskCodec Proofs.FileDiskWitness.
From Coq Require Import List NArith Bool Lia.
From IV Require Import Proofs.FileDiskHistory.
Theorem ops_refine_ordered_map : forall (enc : index -> str) (dec : str -> option index), (forall i, dec (enc i) = Some i) ->
  forall (hash : str -> str) (cap : nat) (d : disk) (o : op) (v : aview),
    reach enc dec hash cap d -> view dec d (mailbox_of hash o) = Some v ->
    view dec (exec enc dec hash cap o d) (mailbox_of hash o) = Some (aexec_view cap o v) /\
    forall h, h <> mailbox_of hash o -> view dec (exec enc dec hash cap o d) h = view dec d h.
Proof. first [exact FileDiskHistory.ops_refine_ordered_map | intros; apply FileDiskHistory.ops_refine_ordered_map]. Qed.
Print Assumptions ops_refine_ordered_map.

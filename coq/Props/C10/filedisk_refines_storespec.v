(** C10 — filedisk_refines_storespec: the disk model of the file store refines StoreSpec — every answer is run_spec's (Visit as a set), the final disk is the image of final_spec; hypotheses named: gob round trip, hash injective, descriptor encoding, c_max = 0, disk_fresh *)
From IV Require Import Base.Bytes Base.BytesFacts Model.FileDisk Proofs.FileDiskMap Proofs.FileDiskInv Proofs.FileDiskSteps Proofs.FileDiskOps Proofs.FileDiskCrash Proofs.FileDiskHistory Proofs.FileDiskParents Proofs.FileDiskSpec Proofs.FileDiskSpecRun.
From IV Require Import Model.StoreSpec Model.StoreSpecImpl Proofs.StoreSpecFacts Proofs.StoreSpecRefine Proofs.FileStoreRefine.
From Coq Require Import List NArith ZArith Bool Lia Arith Sorted.
From IV Require Import Model.FileDiskCodec Proofs.FileDiskCodec.
From IV Require Import Proofs.FileDiskSpecTop.
Theorem filedisk_refines_storespec :
  forall (info_of : Z -> N -> str) (body_of : N -> N -> str) (date_of : str -> Z) (tag_of : str -> N),
    (forall d t, date_of (info_of d t) = d) -> (forall d t, tag_of (info_of d t) = t) ->
    (forall t s, N.of_nat (length (body_of t s)) = s) ->
  forall (enc : index -> str) (dec : str -> option index), (forall i, dec (enc i) = Some i) ->
  forall (hash : str -> str), (forall a b, hash a = hash b -> a = b) ->
  forall (cfg : scfg), c_max cfg = 0%N ->
  forall (ops : list StoreSpec.op) (sup : list (list str)),
    disk_fresh info_of body_of date_of tag_of enc dec hash cfg (([], sup), []) ops ->
    Forall2 pair_eq
      (run_impl str str_eqb dstate (exec_disk info_of body_of date_of tag_of enc dec hash cfg) (([], sup), []) ops)
      (run_spec cfg spec_init ops) /\
    (let '((d', _), iss') := final_impl str str_eqb dstate (exec_disk info_of body_of date_of tag_of enc dec hash cfg) (([], sup), []) ops in
     reach enc dec hash (c_cap cfg) d' /\
     forall mb, ix date_of tag_of dec hash d' mb =
                map (fun e => (nth (e_k e) (iss_of str mb iss') [], e_msg e)) (box mb (live (final_spec cfg spec_init ops)))).
Proof. first [exact FileDiskSpecTop.filedisk_refines_storespec | intros; apply FileDiskSpecTop.filedisk_refines_storespec]. Qed.
Print Assumptions filedisk_refines_storespec.

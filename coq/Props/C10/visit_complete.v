(** C10 — visit_complete: every non-empty mailbox that lists by name is among the mailboxes the VisitMailboxes walk (the retention scanner's view) yields, on every reachable disk (any history, crashes included) *)
From IV Require Import Base.Bytes Base.BytesFacts Model.FileDisk Proofs.FileDiskMap Proofs.FileDiskInv Proofs.FileDiskSteps Proofs.FileDiskOps Proofs.FileDiskCrash.
From Coq Require Import List NArith Bool Lia.
From IV Require Import Proofs.FileDiskParents.
Theorem visit_complete : forall (enc : index -> str) (dec : str -> option index), (forall i, dec (enc i) = Some i) ->
  forall (hash : str -> str) (cap : nat) (d : disk) (mb : str) v,
    reach enc dec hash cap d -> view dec d (hash mb) = Some v -> v <> [] ->
    exists vs, visit dec d = Some vs /\ In v vs.
Proof. first [exact FileDiskParents.visit_complete | intros; apply FileDiskParents.visit_complete]. Qed.
Print Assumptions visit_complete.

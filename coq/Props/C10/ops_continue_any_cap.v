(** C10 — ops_continue_any_cap: THE durability theorem — on every disk the store can leave behind, under a cap that may change at every operation, every operation runs, keeps the disk reachable and acts exactly as the ordered-map operation on the old listing (same order, ids, metadata, flags, sizes, content) *)
From IV Require Import Base.Bytes Base.BytesFacts Model.FileDisk Proofs.FileDiskMap Proofs.FileDiskInv Proofs.FileDiskSteps Proofs.FileDiskOps Proofs.FileDiskCrash.
From Coq Require Import List NArith Bool Lia.
From IV Require Import Proofs.FileDiskDurable.
Theorem ops_continue_any_cap : forall (enc : index -> str) (dec : str -> option index), (forall i, dec (enc i) = Some i) ->
  forall (hash : str -> str) (d : disk) (cap : nat) (o : op),
  reachV enc dec hash d ->
  exists nm ms,
    read_index dec d (mailbox_of hash o) (op_mailbox o) = Some (nm, ms) /\
    view dec d (mailbox_of hash o) = Some (mkview d (mailbox_of hash o) nm ms) /\
    run (steps enc dec hash cap o d) d = Some (exec enc dec hash cap o d) /\
    reachV enc dec hash (exec enc dec hash cap o d) /\
    view dec (exec enc dec hash cap o d) (mailbox_of hash o) = Some (post_view cap d o (mailbox_of hash o) nm ms) /\
    (forall h, h <> mailbox_of hash o -> view dec (exec enc dec hash cap o d) h = view dec d h) /\
    (cap <> O -> forall mb info body cands, o = FileDisk.Add mb info body cands ->
       (length (post_view cap d o (mailbox_of hash o) nm ms) <= cap)%nat).
Proof. first [exact FileDiskDurable.ops_continue_any_cap | intros; apply FileDiskDurable.ops_continue_any_cap]. Qed.
Print Assumptions ops_continue_any_cap.

(** C10 — a removed message, and every message of a purged mailbox, is absent from the mailbox after any
    further history with reopens, PROVIDED no later delivery to that mailbox is issued the same id again
    ([never_reissued]). The full statement without that guard is [FileDiskWitness.removed_stay_gone_stmt];
    it is false (Props/C10/removed_stay_gone_refuted, open finding K-C10-id-reissued-after-restart). *)
From IV Require Import Base.Bytes Model.FileDisk Proofs.FileDiskCrash Proofs.FileDiskDurable.
Theorem removed_stay_gone_partial : forall (enc : index -> str) (dec : str -> option index),
  (forall i, dec (enc i) = Some i) ->
  forall (hash : str -> str) (cap : nat) (d : disk) (mb id : str) (its : list item),
  reach enc dec hash cap d ->
  (never_reissued enc dec hash cap id (hash mb) (exec enc dec hash cap (Remove mb id) d) its ->
     ~ In id (view_ids dec (run_items enc dec hash cap (exec enc dec hash cap (Remove mb id) d) its) (hash mb))) /\
  (forall x, never_reissued enc dec hash cap x (hash mb) (exec enc dec hash cap (Purge mb) d) its ->
     ~ In x (view_ids dec (run_items enc dec hash cap (exec enc dec hash cap (Purge mb) d) its) (hash mb))).
Proof. exact FileDiskDurable.removed_stay_gone. Qed.
Print Assumptions removed_stay_gone_partial.

(** C10 — after any reachable disk state (any history, crashes included) followed by any history with
    reopens, every operation still runs without a failing file-system step, leaves a reachable disk,
    has exactly its specified effect on its mailbox ([post_view]: delivery = old list minus cap evictions
    plus the new message with full content; seen / remove / purge accordingly), leaves the other
    mailboxes alone, and a delivery keeps the mailbox within the cap. *)
From IV Require Import Base.Bytes Model.FileDisk Proofs.FileDiskCrash Proofs.FileDiskDurable.
Theorem ops_continue : forall (enc : index -> str) (dec : str -> option index),
  (forall i, dec (enc i) = Some i) ->
  forall (hash : str -> str) (cap : nat) (d : disk) (its : list item) (o : op),
  reach enc dec hash cap d ->
  let d1 := run_items enc dec hash cap d its in
  exists nm ms,
    read_index dec d1 (mailbox_of hash o) (op_mailbox o) = Some (nm, ms) /\
    run (steps enc dec hash cap o d1) d1 = Some (exec enc dec hash cap o d1) /\
    reach enc dec hash cap (exec enc dec hash cap o d1) /\
    view dec (exec enc dec hash cap o d1) (mailbox_of hash o) = Some (post_view cap d1 o (mailbox_of hash o) nm ms) /\
    (forall h, h <> mailbox_of hash o -> view dec (exec enc dec hash cap o d1) h = view dec d1 h) /\
    (cap <> O -> forall mb info body cands, o = Add mb info body cands ->
       (length (post_view cap d1 o (mailbox_of hash o) nm ms) <= cap)%nat).
Proof. exact FileDiskDurable.ops_continue. Qed.
Print Assumptions ops_continue.

(** C16 — on both back-end models, every history, every cap and size limit: message (mb,k) has exactly one stored event if the history delivers more than k messages to mb, and none otherwise *)
From IV Require Import Base.Bytes Model.StoreSpec Model.StoreSpecImpl Model.MemStore Model.FileStore Model.Events Proofs.FileStoreRefine Proofs.EventsCount.
Theorem stored_once : forall cfg ticks ops mb k,
  count_stored (mb, k) (trace_of (run_mem cfg ops)) = lt01 k (n_adds mb ops) /\
  (c_max cfg = 0%N -> file_fresh cfg (file_init ticks, []) ops ->
   count_stored (mb, k) (trace_of (run_file cfg ticks ops)) = lt01 k (n_adds mb ops)).
Proof. exact EventsCount.stored_once. Qed.
Print Assumptions stored_once.

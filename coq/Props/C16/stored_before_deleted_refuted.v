(** C16 — open finding K-C16-oversize-order: on the memory-store model a message larger than the whole size limit gets its deleted event before its stored event *)
From IV Require Import Base.Bytes Model.StoreSpec Model.MemStore Model.Events Proofs.EventsTrace.
Theorem stored_before_deleted_refuted : exists cfg ops, sbd_ok (trace_of (run_mem cfg ops)) = false.
Proof. exact EventsTrace.stored_before_deleted_refuted. Qed.
Print Assumptions stored_before_deleted_refuted.

(** C16 — on both back-end models, every history, every cap and size limit: per message, deleted events + still-live copies = stored events; so a delivered message that left its mailbox for ANY reason (remove, purge, cap, size limit) has exactly one deleted event, a live or never-delivered one has none *)
From IV Require Import Base.Bytes Model.StoreSpec Model.StoreSpecImpl Model.MemStore Model.FileStore Model.Events Proofs.FileStoreRefine Proofs.EventsCount.
Theorem deleted_once : forall cfg ticks ops mb k,
  (count_deleted (mb, k) (trace_of (run_mem cfg ops)) + live_count (mb, k) (live (final_spec cfg spec_init ops))
   = count_stored (mb, k) (trace_of (run_mem cfg ops)))%nat /\
  (c_max cfg = 0%N -> file_fresh cfg (file_init ticks, []) ops ->
   (count_deleted (mb, k) (trace_of (run_file cfg ticks ops)) + live_count (mb, k) (live (final_spec cfg spec_init ops))
   = count_stored (mb, k) (trace_of (run_file cfg ticks ops)))%nat).
Proof. exact EventsCount.deleted_once. Qed.
Print Assumptions deleted_once.

(** C16 — open finding K-C16-cross-broker-order: with one FIFO broker per event type there is a schedule in which every deleted(n) is emitted after stored(n), yet the consumer of both events is invoked with deleted(2) before stored(2) *)
From IV Require Import Base.Bytes Model.Events Proofs.EventsXBroker.
Theorem stored_before_deleted_delivery_refuted :
  exists sched, xsbd_ok (xlog nat 0 (snd (xrun nat (binit nat 1) (binit nat 1) sched))) = false /\
                emitted nat (proj nat true sched) = [1; 2]%nat /\ emitted nat (proj nat false sched) = [2]%nat.
Proof. exact EventsXBroker.stored_before_deleted_delivery_refuted. Qed.
Print Assumptions stored_before_deleted_delivery_refuted.

(** C16 — two brokers, every schedule: if the consumer's stored-queue is empty at the moment deleted(x) is emitted (and stored(x) was emitted before, deleted(x) not yet), the consumer has already been invoked with stored(x) and not yet with deleted(x): it sees stored(x) first. The guard excludes exactly finding K-C16-cross-broker-order *)
From IV Require Import Base.Bytes Model.Events Proofs.EventsXBroker.
Theorem stored_before_deleted_delivery_partial : forall (E : Type) n (pre : list (xact E)) l x, (l < n)%nat ->
  let '(ss, ds, o) := xrun E (binit E n) (binit E n) pre in
  pending E (nth l ss (lst_init E)) = [] ->
  In x (emitted E (proj E true pre)) -> ~ In x (emitted E (proj E false pre)) ->
  In x (begun E l (oproj E true o)) /\ ~ In x (begun E l (oproj E false o)).
Proof. exact EventsXBroker.stored_before_deleted_delivery_partial. Qed.
Print Assumptions stored_before_deleted_delivery_partial.

(** C16 x C08 — at any point of any history on the memory-store model, every cap and size limit: the events of a delivery are exactly one deleted event per message the cap evicts (the oldest of the receiving mailbox; some iff the mailbox would exceed the cap), then one per message the size limit evicts (the shortest prefix of the store-wide arrival order that makes the store fit; some iff the store would exceed the limit), then the stored event *)
From IV Require Import Base.Bytes Model.StoreSpec Model.StoreSpecImpl Model.MemStore Proofs.StoreSpecFacts Proofs.EventsHistory.
Theorem delivery_events_explained : forall cfg ops1 ops2 mb date tag size,
  let st := final_spec cfg spec_init ops1 in
  let m := {| m_date := date; m_tag := tag; m_size := size; m_seen := false |} in
  let sb := box mb (live st) ++ [{| e_mb := mb; e_k := count_of mb (counts st); e_msg := m |}] in
  let '(d1, l2) := add_cap cfg mb (add_l1 st mb m) in
  let '(d2, l3) := add_fit cfg l2 in
  nth_error (map snd (run_mem cfg (ops1 ++ Add mb date tag size :: ops2))) (length ops1) =
    Some (map ev_deleted d1 ++ map ev_deleted d2 ++ [(EStored, mb, count_of mb (counts st))]) /\
  (c_cap cfg <> 0%nat -> d1 = firstn (length sb - c_cap cfg) sb) /\ (c_cap cfg = 0%nat -> d1 = []) /\
  (d1 <> [] <-> c_cap cfg <> 0%nat /\ (c_cap cfg < length (box mb (live st)) + 1)%nat) /\
  l2 = d2 ++ l3 /\
  (c_max cfg <> 0%N -> (total l3 <= c_max cfg)%N /\
     forall d' r', l2 = d' ++ r' -> (total r' <= c_max cfg)%N -> (length d2 <= length d')%nat) /\
  (d2 <> [] <-> c_max cfg <> 0%N /\ (c_max cfg < total l2)%N).
Proof. exact EventsHistory.delivery_events_explained. Qed.
Print Assumptions delivery_events_explained.

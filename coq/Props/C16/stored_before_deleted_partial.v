(** C16 — on both back-end models and every history in which no delivery is larger than the whole size limit (the guard that excludes open finding K-C16-oversize-order): no message's deleted event precedes its stored event *)
From IV Require Import Base.Bytes Model.StoreSpec Model.StoreSpecImpl Model.MemStore Model.FileStore Model.Events Proofs.FileStoreRefine Proofs.EventsTrace Proofs.EventsOrder.
Theorem stored_before_deleted_partial : forall cfg ticks ops, no_oversize cfg ops ->
  sbd_ok (trace_of (run_mem cfg ops)) = true /\
  (c_max cfg = 0%N -> file_fresh cfg (file_init ticks, []) ops -> sbd_ok (trace_of (run_file cfg ticks ops)) = true).
Proof. exact EventsOrder.stored_before_deleted_partial. Qed.
Print Assumptions stored_before_deleted_partial.

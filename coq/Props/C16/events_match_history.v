(** C16 — end-to-end, every history, both back-end models (memory: every cap and size limit; file: every cap under the environment assumption): per operation the events are those of the abstract history; the stored broker gets exactly one event per delivery in delivery order; the deleted broker gets exactly one event per message that left its mailbox (remove, purge, cap, size limit) and none otherwise; failing and reading operations emit nothing; deleted follows stored for the same message unless a delivery exceeds the whole size limit (K-C16-oversize-order). Not promised: cross-broker invocation order (K-C16-cross-broker-order) *)
From IV Require Import Base.Bytes Model.StoreSpec Model.StoreSpecImpl Model.MemStore Model.FileStore Proofs.FileStoreClock Proofs.EventsHistory.
Theorem events_match_history : forall cfg ops,
  events_match cfg ops (run_mem cfg ops) /\
  (forall ticks, c_max cfg = 0%N -> env_ok 0 ticks ops -> events_match cfg ops (run_file cfg ticks ops)).
Proof. exact EventsHistory.events_match_history. Qed.
Print Assumptions events_match_history.

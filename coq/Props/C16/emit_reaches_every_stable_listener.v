(** C16 — a listener that is registered and neither removed nor replaced during a schedule of emits and Add/RemoveListener calls has received exactly the events emitted during it, once each and in emit order, whatever other listeners are added, replaced or removed (Emit is atomic w.r.t. registration) *)
From IV Require Import Base.Bytes Model.Events Proofs.EventsRegistration.
Theorem emit_reaches_every_stable_listener : forall (E : Type) n (sched : list (ract E)) ls q,
  rget E n ls = Some q -> rstable E n sched = true -> rget E n (rrun E ls sched) = Some (q ++ remitted E sched).
Proof. exact EventsRegistration.emit_reaches_every_stable_listener. Qed.
Print Assumptions emit_reaches_every_stable_listener.

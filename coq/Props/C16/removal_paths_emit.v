(** C16 — read from the source on this run: every function of the memory store that takes messages out of a mailbox map, and every function of the file store that assigns the index slice (other than append/load), emits AfterMessageDeleted itself or only through emitting functions; the tables of removing and emitting functions are exactly the ones the models transcribe; AfterMessageStored is emitted by StoreManager.Deliver only *)
From Coq Require Import List NArith String.
From IV Require Import Base.Bytes Gen.StorePins Proofs.StoreSpecPins.
Import ListNotations.
Open Scope string_scope.
Theorem removal_paths_emit :
  mem_removal_covered = true /\ file_removal_covered = true /\
  names_eqb mem_delete_sites [nm "Store.AddMessage"; nm "Store.removeMessage"] = true /\
  names_eqb mem_reassign_sites [nm "Store.PurgeMessages"] = true /\
  names_eqb mem_deleted_emitters [nm "Store.PurgeMessages"; nm "Store.emitDeleted"; nm "Store.removeMessage"] = true /\
  names_eqb mem_removeMessage_callers [nm "Store.RemoveMessage"; nm "Store.maxSizeEnforcer"] = true /\
  names_eqb file_assign_sites [nm "Store.AddMessage"; nm "mbox.purge"; nm "mbox.readIndex"; nm "mbox.removeMessage"] = true /\
  names_eqb file_deleted_emitters [nm "Store.PurgeMessages"; nm "mbox.removeMessage"] = true /\
  names_eqb file_removeMessage_callers [nm "Store.RemoveMessage"; nm "mbox.newMessage"] = true /\
  names_eqb manager_stored_emitters [nm "StoreManager.Deliver"] = true /\
  mem_stored_emitters = [] /\ file_stored_emitters = [] /\ manager_deleted_emitters = [].
Proof. exact StoreSpecPins.removal_paths_emit. Qed.
Print Assumptions removal_paths_emit.

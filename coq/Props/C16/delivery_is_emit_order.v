(** C16 — per-listener FIFO broker, every schedule: the events a listener has been invoked with, followed by those still queued for it, are exactly the emitted events in emit order (invocation order = emit order, nothing lost or duplicated) *)
From IV Require Import Base.Bytes Model.Events Proofs.EventsBroker.
Theorem delivery_is_emit_order : forall (E : Type) n (sched : list (bact E)) l, (l < n)%nat ->
  begun E l (snd (brun E (binit E n) sched)) ++ pending E (nth l (fst (brun E (binit E n) sched)) (lst_init E)) = emitted E sched.
Proof. exact EventsBroker.delivery_is_emit_order. Qed.
Print Assumptions delivery_is_emit_order.

(** C16 — per-listener FIFO broker: under every schedule of emits and delivery-goroutine steps, no invocation of a listener begins before its previous invocation has ended *)
From IV Require Import Base.Bytes Model.Events Proofs.EventsBroker.
Theorem listener_serial : forall (E : Type) n (sched : list (bact E)) l, serial E l false (snd (brun E (binit E n) sched)) = true.
Proof. exact EventsBroker.listener_serial. Qed.
Print Assumptions listener_serial.

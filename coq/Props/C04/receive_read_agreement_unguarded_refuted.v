(** C04 — the unguarded clause (every listed entry point computes the stored name from the address) is refuted by an entry point of the generated list: POP3 USER (open finding K-C04-pop3-user) *)
From IV Require Import Base.Bytes Model.Addr Model.IpLit Model.AddrFlow Proofs.AddrNaming Proofs.AddrReadSide Proofs.AddrFlow.
Theorem receive_read_agreement_unguarded_refuted : exists site e mode a n, In (site, e) read_entries /\ stored_in no_ip mode a = Some n /\ eval no_ip mode e a <> Some n.
Proof. exact AddrFlow.receive_read_agreement_unguarded_refuted. Qed.
Print Assumptions receive_read_agreement_unguarded_refuted.

(** C04 — for a label domain (not an IP literal) every letter-case variant of an accepted address is accepted too and gets the same mailbox name; no assumption on net.ParseIP *)
From IV Require Import Base.Bytes Model.Addr Proofs.AddrFacts Proofs.AddrScan Proofs.AddrDomain Proofs.AddrNaming Proofs.AddrCase.
Theorem case_variant_accepted : forall (parse_ip : str -> bool) mode a a' r, lower a = lower a' -> new_recipient parse_ip mode a = Some r -> bracket_type (r_domain r) = false -> exists r', new_recipient parse_ip mode a' = Some r' /\ r_mailbox r' = r_mailbox r.
Proof. exact AddrCase.case_variant_accepted. Qed.
Print Assumptions case_variant_accepted.

(** C04 — every REST / web-UI / monitor-socket use of the URL name (the generated list read_sites) computes the name fixed at RCPT time, from the address and from the name itself *)
From IV Require Import Base.Bytes Model.Addr Model.IpLit Model.AddrU Proofs.AddrNaming Proofs.AddrGo Proofs.IpLit.
Theorem read_side_same_name : forall site flow, In (site, flow) read_sites -> forall mode a r, new_recipient go_parse_ip mode a = Some r -> read_name go_parse_ip mode flow a = Some (r_mailbox r) /\ read_name go_parse_ip mode flow (r_mailbox r) = Some (r_mailbox r).
Proof. exact AddrGo.read_side_same_name_go. Qed.
Print Assumptions read_side_same_name.

(** C04 — every REST / web-UI / monitor-socket use of the URL name (the generated list read_sites) computes the name fixed at RCPT time, from the address and from the name itself *)
From IV Require Import Base.Bytes Model.Addr Proofs.AddrFacts Proofs.AddrScan Proofs.AddrDomain Proofs.AddrNaming Proofs.AddrReadSide.
Theorem read_side_same_name : forall (parse_ip : str -> bool), (forall s, parse_ip (lower s) = parse_ip s) -> forall site flow, In (site, flow) read_sites -> forall mode a r, new_recipient parse_ip mode a = Some r -> read_name parse_ip mode flow a = Some (r_mailbox r) /\ read_name parse_ip mode flow (r_mailbox r) = Some (r_mailbox r).
Proof. exact AddrReadSide.read_side_same_name. Qed.
Print Assumptions read_side_same_name.

(** C04 — independent reading of doc/config.md ("Mailbox Naming"): every ordinary address words(.words)*[+ext]@label(.label)* (Model/AddrSpec.v, no regenerated constant, no parser model) is accepted in every naming mode, for every parse_ip, and stored under exactly the documented name: local part before '+' / that @ domain / domain, lower-cased *)
From IV Require Import Base.Bytes Model.Addr Model.AddrSpec Proofs.AddrNaming Proofs.AddrSpec.
Theorem ordinary_address_name : forall (parse_ip : str -> bool) mode l d, ordinary_local l = true -> ordinary_domain d = true -> new_recipient parse_ip mode (l ++ 64 :: d) = Some (mkRecipient (l ++ 64 :: d) l d (doc_name mode l d)).
Proof. exact AddrSpec.ordinary_address_name. Qed.
Print Assumptions ordinary_address_name.

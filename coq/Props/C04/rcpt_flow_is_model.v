(** C04 — the receive side as the SOURCE composes it (RCPT handler -> NewRecipient: ParseEmailAddress guard, Mailbox := the generated expression; Deliver stores under Recipient.Mailbox) is the model's new_recipient *)
From IV Require Import Base.Bytes Model.Addr Model.IpLit Model.AddrFlow Proofs.AddrNaming Proofs.AddrReadSide Proofs.AddrFlow.
Theorem rcpt_flow_is_model : forall (parse_ip : str -> bool) mode a, stored_in parse_ip mode a = option_map r_mailbox (new_recipient parse_ip mode a).
Proof. exact AddrFlow.rcpt_flow_is_model. Qed.
Print Assumptions rcpt_flow_is_model.

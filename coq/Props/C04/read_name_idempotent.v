(** C04 — stronger than the fixed point at RCPT: whatever string a user types, the name derived from it is its own name *)
From IV Require Import Base.Bytes Model.Addr Proofs.AddrFacts Proofs.AddrScan Proofs.AddrDomain Proofs.AddrNaming.
Theorem read_name_idempotent : forall (parse_ip : str -> bool), (forall s, parse_ip (lower s) = parse_ip s) -> forall mode a n, extract_mailbox parse_ip mode a = Some n -> extract_mailbox parse_ip mode n = Some n /\ n <> [].
Proof. exact (fun p H m a n E => conj (AddrNaming.extract_idempotent p H m a n E) (AddrNaming.extract_nonempty p m a n E)). Qed.
Print Assumptions read_name_idempotent.

(** C04 — stronger than the fixed point at RCPT: whatever string a user types, the name derived from it is its own name, and non-empty *)
From IV Require Import Base.Bytes Model.Addr Model.IpLit Model.AddrU Proofs.AddrNaming Proofs.AddrGo Proofs.IpLit.
Theorem read_name_idempotent : forall mode a n, extract_mailbox go_parse_ip mode a = Some n -> extract_mailbox go_parse_ip mode n = Some n /\ n <> [].
Proof. exact AddrGo.read_name_idempotent_go. Qed.
Print Assumptions read_name_idempotent.

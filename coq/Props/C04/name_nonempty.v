(** C04 — the mailbox name of every accepted recipient is non-empty, in each naming mode *)
From IV Require Import Base.Bytes Model.Addr Proofs.AddrFacts Proofs.AddrScan Proofs.AddrDomain Proofs.AddrNaming.
Theorem name_nonempty : forall (parse_ip : str -> bool) mode a r, new_recipient parse_ip mode a = Some r -> r_mailbox r <> [].
Proof. exact AddrNaming.name_nonempty. Qed.
Print Assumptions name_nonempty.

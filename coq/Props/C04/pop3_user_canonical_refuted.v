(** C04 — open finding K-C04-pop3-user: POP3 USER takes its argument verbatim; witness User+tag@Example.COM *)
From IV Require Import Base.Bytes Model.Addr Proofs.AddrFacts Proofs.AddrScan Proofs.AddrDomain Proofs.AddrNaming Proofs.AddrReadSide.
Theorem pop3_user_canonical_refuted : exists mode a r, new_recipient no_ip mode a = Some r /\ read_name no_ip mode pop3_user_flow a <> Some (r_mailbox r).
Proof. exact AddrReadSide.pop3_user_canonical_refuted. Qed.
Print Assumptions pop3_user_canonical_refuted.

(** C04 — asking for the mailbox by its own name reaches the same mailbox (literal parser modelled: no assumption on net.ParseIP) *)
From IV Require Import Base.Bytes Model.Addr Model.IpLit Model.AddrU Proofs.AddrNaming Proofs.AddrGo Proofs.IpLit.
Theorem name_fixed_point : forall mode a r, new_recipient go_parse_ip mode a = Some r -> extract_mailbox go_parse_ip mode (r_mailbox r) = Some (r_mailbox r).
Proof. exact AddrGo.name_fixed_point_go. Qed.
Print Assumptions name_fixed_point.

(** C04 — asking for the mailbox by its own name reaches the same mailbox (net.ParseIP only assumed insensitive to letter case) *)
From IV Require Import Base.Bytes Model.Addr Proofs.AddrFacts Proofs.AddrScan Proofs.AddrDomain Proofs.AddrNaming.
Theorem name_fixed_point : forall (parse_ip : str -> bool), (forall s, parse_ip (lower s) = parse_ip s) -> forall mode a r, new_recipient parse_ip mode a = Some r -> extract_mailbox parse_ip mode (r_mailbox r) = Some (r_mailbox r).
Proof. exact AddrNaming.name_fixed_point. Qed.
Print Assumptions name_fixed_point.

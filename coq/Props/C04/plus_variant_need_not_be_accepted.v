(** C04 — limit of the '+extension' clause: the +ext variant of an accepted address need not be accepted (128-byte local part; the theorems say "both accepted => same name") *)
From IV Require Import Base.Bytes Model.Addr Model.IpLit Proofs.AddrNaming Proofs.AddrGo.
Theorem plus_variant_need_not_be_accepted : exists l e d, new_recipient go_parse_ip Local (l ++ 64 :: d) <> None /\ new_recipient go_parse_ip Local (l ++ 43 :: e ++ 64 :: d) = None.
Proof. exact AddrGo.plus_variant_need_not_be_accepted. Qed.
Print Assumptions plus_variant_need_not_be_accepted.

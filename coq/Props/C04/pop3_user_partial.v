(** C04 — what holds for POP3: an address that is its own canonical name reaches its mailbox *)
From IV Require Import Base.Bytes Model.Addr Proofs.AddrFacts Proofs.AddrScan Proofs.AddrDomain Proofs.AddrNaming Proofs.AddrReadSide.
Theorem pop3_user_partial : forall (parse_ip : str -> bool) mode a r, new_recipient parse_ip mode a = Some r -> r_mailbox r = a -> read_name parse_ip mode pop3_user_flow a = Some (r_mailbox r).
Proof. exact AddrReadSide.pop3_user_partial. Qed.
Print Assumptions pop3_user_partial.

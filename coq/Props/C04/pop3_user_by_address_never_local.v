(** C04 — POP3, local naming (the default): no accepted address is its own mailbox name, so USER <address> NEVER reaches the mailbox *)
From IV Require Import Base.Bytes Model.Addr Proofs.AddrNaming Proofs.AddrReadSide.
Theorem pop3_user_by_address_never_local : forall (parse_ip : str -> bool) a r, new_recipient parse_ip Local a = Some r -> r_mailbox r <> a /\ read_name parse_ip Local pop3_user_flow a <> Some (r_mailbox r).
Proof. exact AddrReadSide.pop3_user_by_address_never_local. Qed.
Print Assumptions pop3_user_by_address_never_local.

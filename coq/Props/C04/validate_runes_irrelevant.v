(** C04 — ValidateDomainPart ranges over RUNES (Go's UTF-8 decoding, invalid byte = U+FFFD), the model over bytes: the two agree on EVERY byte string *)
From IV Require Import Base.Bytes Model.Addr Model.IpLit Model.AddrU Proofs.AddrNaming Proofs.AddrGo Proofs.AddrRunes.
Theorem validate_runes_irrelevant : forall (parse_ip : str -> bool) d, validate_domain_runes parse_ip d = validate_domain parse_ip d.
Proof. exact AddrRunes.validate_runes_irrelevant. Qed.
Print Assumptions validate_runes_irrelevant.

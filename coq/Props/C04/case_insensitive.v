(** C04 — two accepted letter-case variants of an address get the same mailbox name *)
From IV Require Import Base.Bytes Model.Addr Proofs.AddrFacts Proofs.AddrScan Proofs.AddrDomain Proofs.AddrNaming.
Theorem case_insensitive : forall (parse_ip : str -> bool), (forall s, parse_ip (lower s) = parse_ip s) -> (forall s, parse_ip s = true -> forallb ip_char s = true) -> forall mode a a' r r', lower a = lower a' -> new_recipient parse_ip mode a = Some r -> new_recipient parse_ip mode a' = Some r' -> r_mailbox r = r_mailbox r'.
Proof. exact AddrNaming.case_insensitive. Qed.
Print Assumptions case_insensitive.

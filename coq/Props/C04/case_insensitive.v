(** C04 — two accepted letter-case variants of an address get the same mailbox name (no assumption on net.ParseIP) *)
From IV Require Import Base.Bytes Model.Addr Model.IpLit Model.AddrU Proofs.AddrNaming Proofs.AddrGo Proofs.IpLit.
Theorem case_insensitive : forall mode a a' r r', lower a = lower a' -> new_recipient go_parse_ip mode a = Some r -> new_recipient go_parse_ip mode a' = Some r' -> r_mailbox r = r_mailbox r'.
Proof. exact AddrGo.case_insensitive_go. Qed.
Print Assumptions case_insensitive.

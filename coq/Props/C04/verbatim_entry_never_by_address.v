(** C04 — in local and domain naming an entry point that uses the reader's string verbatim (POP3) never reaches the mailbox by the address *)
From IV Require Import Base.Bytes Model.Addr Model.IpLit Model.AddrFlow Proofs.AddrNaming Proofs.AddrReadSide Proofs.AddrFlow.
Theorem verbatim_entry_never_by_address : forall mode a n site, mode <> Full -> stored_in go_parse_ip mode a = Some n -> In (site, NArg) read_entries -> eval go_parse_ip mode NArg a <> Some n.
Proof. exact AddrFlow.verbatim_entry_never_by_address. Qed.
Print Assumptions verbatim_entry_never_by_address.

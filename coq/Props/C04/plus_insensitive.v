(** C04 — l@d and l+ext@d, both accepted, get the same mailbox name: for every local part l without an at sign (quoted strings and quoted pairs included) and every unquoted extension *)
From IV Require Import Base.Bytes Model.Addr Proofs.AddrFacts Proofs.AddrScan Proofs.AddrDomain Proofs.AddrNaming Proofs.AddrPlus.
Theorem plus_insensitive : forall (parse_ip : str -> bool) mode l e d r r', l <> [] -> ~ In 64 l -> plain e = true -> new_recipient parse_ip mode (l ++ 64 :: d) = Some r -> new_recipient parse_ip mode (l ++ 43 :: e ++ 64 :: d) = Some r' -> r_mailbox r = r_mailbox r'.
Proof. exact AddrPlus.plus_insensitive_general. Qed.
Print Assumptions plus_insensitive.

(** C04 — l@d and l+ext@d (l, ext unquoted), both accepted, get the same mailbox name *)
From IV Require Import Base.Bytes Model.Addr Proofs.AddrFacts Proofs.AddrScan Proofs.AddrDomain Proofs.AddrNaming.
Theorem plus_insensitive : forall (parse_ip : str -> bool) mode l e d r r', l <> [] -> plain l = true -> plain e = true -> new_recipient parse_ip mode (l ++ 64 :: d) = Some r -> new_recipient parse_ip mode (l ++ 43 :: e ++ 64 :: d) = Some r' -> r_mailbox r = r_mailbox r'.
Proof. exact AddrNaming.plus_insensitive. Qed.
Print Assumptions plus_insensitive.

(** C04 — POP3 (open finding K-C04-pop3-user): USER <address> reaches the mailbox of an accepted address exactly when the address is its own canonical name *)
From IV Require Import Base.Bytes Model.Addr Proofs.AddrNaming Proofs.AddrReadSide.
Theorem pop3_user_by_address_iff : forall (parse_ip : str -> bool) mode a r, new_recipient parse_ip mode a = Some r -> (read_name parse_ip mode pop3_user_flow a = Some (r_mailbox r) <-> r_mailbox r = a).
Proof. exact AddrReadSide.pop3_user_by_address_iff. Qed.
Print Assumptions pop3_user_by_address_iff.

(** C04 — receive side = read side in ONE statement: for every naming mode, every address a message is stored for, and every entry point the translator lists (REST, web UI, monitor sockets, POP3; Gen/AddrFlows.v), asking by the mailbox name reaches the mailbox, and asking by the address reaches it exactly when the entry point goes through the address policy or the address is its own name *)
From IV Require Import Base.Bytes Model.Addr Model.IpLit Model.AddrFlow Proofs.AddrNaming Proofs.AddrReadSide Proofs.AddrFlow.
Theorem receive_read_agreement : forall mode a n, stored_in go_parse_ip mode a = Some n -> forall site e, In (site, e) read_entries -> eval go_parse_ip mode e n = Some n /\ (eval go_parse_ip mode e a = Some n <-> (uses_policy e = true \/ n = a)).
Proof. exact AddrFlow.receive_read_agreement. Qed.
Print Assumptions receive_read_agreement.

(** C04 — '+extension', general clause: for EVERY l, e, d (at signs and colons anywhere, routes, quoting inside the extension), l@d and l+e@d both accepted get the same mailbox name *)
From IV Require Import Base.Bytes Model.Addr Model.IpLit Model.AddrU Proofs.AddrNaming Proofs.AddrGo Proofs.IpLit.
Theorem plus_insensitive_any : forall mode l e d r r', new_recipient go_parse_ip mode (l ++ 64 :: d) = Some r -> new_recipient go_parse_ip mode (l ++ 43 :: e ++ 64 :: d) = Some r' -> r_mailbox r = r_mailbox r'.
Proof. exact AddrGo.plus_insensitive_any_go. Qed.
Print Assumptions plus_insensitive_any.

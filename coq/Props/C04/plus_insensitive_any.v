(** C04 — '+extension', general clause: for EVERY l, e, d (at signs and colons anywhere, routes, quoting inside the extension), l@d and l+e@d both accepted get the same mailbox name; net.ParseIP only assumed to accept nothing but hex digits, dots and colons *)
From IV Require Import Base.Bytes Model.Addr Proofs.AddrFacts Proofs.AddrScan Proofs.AddrDomain Proofs.AddrNaming Proofs.AddrPlus Proofs.AddrPlusAny.
Theorem plus_insensitive_any : forall (parse_ip : str -> bool), (forall s, parse_ip s = true -> forallb ip_char s = true) -> forall mode l e d r r', new_recipient parse_ip mode (l ++ 64 :: d) = Some r -> new_recipient parse_ip mode (l ++ 43 :: e ++ 64 :: d) = Some r' -> r_mailbox r = r_mailbox r'.
Proof. exact AddrPlusAny.plus_insensitive_any. Qed.
Print Assumptions plus_insensitive_any.

(** C04 — the modelled net.ParseIP (Model/IpLit.v, cross-checked against the real one on every case) ignores ASCII letter case *)
From IV Require Import Base.Bytes Model.Addr Model.IpLit Model.AddrU Proofs.AddrNaming Proofs.AddrGo Proofs.IpLit.
Theorem parse_ip_case_blind : forall s, go_parse_ip (lower s) = go_parse_ip s.
Proof. exact IpLit.go_parse_ip_lower. Qed.
Print Assumptions parse_ip_case_blind.

(** C04 — asking for the mailbox by the original address reaches the mailbox fixed at RCPT time. This holds by construction of NewRecipient (Recipient.Mailbox IS ExtractMailbox(address)); the content is that the model, like the code, computes both through the same function *)
From IV Require Import Base.Bytes Model.Addr Proofs.AddrFacts Proofs.AddrScan Proofs.AddrDomain Proofs.AddrNaming.
Theorem name_of_address : forall (parse_ip : str -> bool) mode a r, new_recipient parse_ip mode a = Some r -> extract_mailbox parse_ip mode a = Some (r_mailbox r).
Proof. exact AddrNaming.name_of_address. Qed.
Print Assumptions name_of_address.

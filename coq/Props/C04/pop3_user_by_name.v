(** C04 — POP3: logging in with the mailbox NAME (as the REST list and the web UI show it) reaches the mailbox, in every mode *)
From IV Require Import Base.Bytes Model.Addr Proofs.AddrNaming Proofs.AddrReadSide.
Theorem pop3_user_by_name : forall (parse_ip : str -> bool) mode a r, new_recipient parse_ip mode a = Some r -> read_name parse_ip mode pop3_user_flow (r_mailbox r) = Some (r_mailbox r).
Proof. exact AddrReadSide.pop3_user_by_name. Qed.
Print Assumptions pop3_user_by_name.

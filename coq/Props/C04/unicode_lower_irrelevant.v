(** C04 — Go's Unicode-aware strings.ToLower (any function that is ASCII lower-casing on ASCII strings) never sees a non-ASCII string: in every naming mode and on EVERY input the functions with ToLower coincide with the ASCII-lowering model *)
From IV Require Import Base.Bytes Model.Addr Model.IpLit Model.AddrU Proofs.AddrNaming Proofs.AddrGo Proofs.IpLit.
Theorem unicode_lower_irrelevant : forall (ulower : str -> str), (forall s, is_ascii s = true -> ulower s = lower s) -> forall mode a, extract_mailbox_u ulower go_parse_ip mode a = extract_mailbox go_parse_ip mode a /\ new_recipient_u ulower go_parse_ip mode a = new_recipient go_parse_ip mode a.
Proof. exact (fun u H m a => conj (AddrGo.extract_mailbox_unicode_irrelevant u H m a) (AddrGo.new_recipient_unicode_irrelevant u H m a)). Qed.
Print Assumptions unicode_lower_irrelevant.

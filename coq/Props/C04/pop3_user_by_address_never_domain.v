(** C04 — POP3, domain naming: no accepted address is its own mailbox name, so USER <address> NEVER reaches the mailbox *)
From IV Require Import Base.Bytes Model.Addr Proofs.AddrNaming Proofs.AddrReadSide.
Theorem pop3_user_by_address_never_domain : forall (parse_ip : str -> bool) a r, new_recipient parse_ip Domain a = Some r -> r_mailbox r <> a /\ read_name parse_ip Domain pop3_user_flow a <> Some (r_mailbox r).
Proof. exact AddrReadSide.pop3_user_by_address_never_domain. Qed.
Print Assumptions pop3_user_by_address_never_domain.

(** C04 — the call structure read from the source (which naming function each function of pkg/policy/address.go calls, what the RCPT handler, Deliver, MailboxForAddress and POP3 do) is the structure the model was written from *)
From IV Require Import Base.Bytes Model.Addr Model.IpLit Model.AddrFlow Proofs.AddrNaming Proofs.AddrReadSide Proofs.AddrFlow.
Theorem addr_calls_pinned : addr_calls = model_calls /\ rcpt_handler_calls_new_recipient = true /\ rcpt_handler_policy_calls = [[78;101;119;82;101;99;105;112;105;101;110;116]] /\ rcpt_handler_trim_cutset = [60;62;32] /\ deliver_uses_recipient_mailbox = true /\ rcpt_mailbox_expr = NCall NExtractMailbox NArg /\ rcpt_guard_is_parse_email_address = true /\ mailbox_for_address_expr = NCall NExtractMailbox NArg /\ pop3_loads_user_verbatim = true.
Proof. exact AddrFlow.addr_calls_pinned. Qed.
Print Assumptions addr_calls_pinned.

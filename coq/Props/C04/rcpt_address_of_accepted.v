(** C04 — the RCPT handler's strings.Trim(arg[3:], cutset) (cutset read from the source: "<> ") never alters an address NewRecipient accepts: `RCPT TO:<a>` hands exactly a to NewRecipient, so what is stored for the command is what the theorems say about a *)
From IV Require Import Base.Bytes Model.Addr Model.IpLit Model.AddrFlow Proofs.AddrNaming Proofs.AddrTrim.
Theorem rcpt_address_of_accepted : forall mode a r, new_recipient go_parse_ip mode a = Some r -> rcpt_address a = a /\ trim rcpt_handler_trim_cutset a = a.
Proof. exact (fun m a r R => conj (AddrTrim.rcpt_address_of_accepted m a r R) (AddrTrim.trim_keeps_accepted m a r R)). Qed.
Print Assumptions rcpt_address_of_accepted.

(** C04 — every string the code lower-cases is ASCII unless it is a bracketed literal (so Go's Unicode ToLower and the model's ASCII lower agree) *)
From IV Require Import Base.Bytes Model.Addr Proofs.AddrFacts Proofs.AddrScan Proofs.AddrDomain Proofs.AddrNaming.
Theorem lowercased_strings_ascii : forall (parse_ip : str -> bool) a l d, parse_email a = Some (l, d) -> Forall (fun c => c < 128) l /\ (validate_domain parse_ip d = true -> bracket_type d = false -> Forall (fun c => c < 128) d).
Proof. exact AddrNaming.lowercased_strings_ascii. Qed.
Print Assumptions lowercased_strings_ascii.

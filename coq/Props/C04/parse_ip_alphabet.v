(** C04 — the modelled net.ParseIP accepts only strings of hex digits, dots and colons *)
From IV Require Import Base.Bytes Model.Addr Model.IpLit Model.AddrU Proofs.AddrNaming Proofs.AddrGo Proofs.IpLit.
Theorem parse_ip_alphabet : forall s, go_parse_ip s = true -> forallb ip_char s = true.
Proof. exact IpLit.go_parse_ip_alphabet. Qed.
Print Assumptions parse_ip_alphabet.

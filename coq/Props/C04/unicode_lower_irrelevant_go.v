(** C04 — strings.ToLower as the Go library has it (ASCII fast path; ANY function on strings with a byte >= 128): the naming functions with it coincide with the ASCII-lowering model in every mode on every input -- no hypothesis left *)
From IV Require Import Base.Bytes Model.Addr Model.IpLit Model.AddrU Proofs.AddrNaming Proofs.AddrGo Proofs.AddrRunes.
Theorem unicode_lower_irrelevant_go : forall (umap : str -> str) mode a, extract_mailbox_u (go_tolower umap) go_parse_ip mode a = extract_mailbox go_parse_ip mode a /\ new_recipient_u (go_tolower umap) go_parse_ip mode a = new_recipient go_parse_ip mode a.
Proof. exact AddrRunes.unicode_lower_irrelevant_go. Qed.
Print Assumptions unicode_lower_irrelevant_go.

(** C06 — huge_size_param_refused *)
From IV Require Import Base.Bytes Base.BytesFacts Model.Policy Model.Smtp Model.Dot Model.SmtpWire Proofs.SmtpInv.
From Coq Require Import ZifyBool ZifyNat Lia.
From IV Require Import Proofs.SmtpThms.
Theorem huge_size_param_refused : forall c s n o h,
  st s = READY -> (int32_max < n)%Z ->
  step c s (L (Mail (MParsed (SzVal n) o) h)) = Ok s (one 501) [].
Proof. first [exact SmtpThms.huge_size_param_refused | intros; apply SmtpThms.huge_size_param_refused]. Qed.
Print Assumptions huge_size_param_refused.

(** C06 — size_param_refused *)
From IV Require Import Base.Bytes Base.BytesFacts Model.Policy Model.Smtp Model.Dot Model.SmtpWire Proofs.SmtpInv.
From Coq Require Import ZifyBool ZifyNat Lia.
From IV Require Import Proofs.SmtpThms.
Theorem size_param_refused : forall c s n o h,
  st s = READY -> (max_bytes c < n)%Z -> (n <= int32_max)%Z ->
  step c s (L (Mail (MParsed (SzVal n) o) h)) = Ok s (one 552) [].
Proof. first [exact SmtpThms.size_param_refused | intros; apply SmtpThms.size_param_refused]. Qed.
Print Assumptions size_param_refused.

(** C06 — oversize_declared_never_accepted *)
From IV Require Import Base.Bytes Base.BytesFacts Model.Policy Model.Smtp Model.Dot Model.SmtpWire Proofs.SmtpInv.
From Coq Require Import ZifyBool ZifyNat Lia.
From IV Require Import Proofs.SmtpThms.
Theorem oversize_declared_never_accepted : forall c s n o h s' r d,
  (max_bytes c < n)%Z ->
  step c s (L (Mail (MParsed (SzVal n) o) h)) = Ok s' r d ->
  first_code r <> 250%Z /\ d = [].
Proof. first [exact SmtpThms.oversize_declared_never_accepted | intros; apply SmtpThms.oversize_declared_never_accepted]. Qed.
Print Assumptions oversize_declared_never_accepted.

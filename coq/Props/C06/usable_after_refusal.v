(** C06 — usable_after_refusal *)
From IV Require Import Base.Bytes Base.BytesFacts Model.Policy Model.Smtp Model.Dot Model.SmtpWire Proofs.SmtpInv.
From Coq Require Import ZifyBool ZifyNat Lia.
From IV Require Import Proofs.SmtpThms.
Theorem usable_after_refusal : forall c s body hdr hook og rc body2 h2,
  st s = DATA -> (max_bytes c < Z.of_nat (length body))%Z ->
  should_accept_origin (pol c) (o_domain og) = true ->
  should_accept (pol c) (r_domain rc) = true -> (0 < max_rcpt c)%Z ->
  (Z.of_nat (length body2) <= max_bytes c)%Z ->
  exists sf tr,
    run c s [B (PBlock body hdr hook); L (Mail (MParsed SzNone (Some og)) NoAns);
             L (Rcpt (RParsed (Some rc)) NoAns); L (DataC true); B (PBlock body2 (Some h2) None)]
    = (tr, EOpen sf) /\
    deliveries_of tr = deliveries_for c og [rc] (helo s) body2 h2 None /\ st sf = READY.
Proof. exact SmtpThms.usable_after_refusal. Qed.
Print Assumptions usable_after_refusal.

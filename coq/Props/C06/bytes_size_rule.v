(** C06 — bytes_size_rule *)
From IV Require Import Base.Bytes Base.BytesFacts Model.Policy Model.Smtp Model.Dot Model.SmtpWire Proofs.SmtpInv Proofs.SmtpThms Proofs.DotCodec Proofs.SmtpCut.
From Coq Require Import ZifyBool ZifyNat ZifyN Lia.
From IV Require Import Proofs.SmtpBytes.
Theorem bytes_size_rule : forall c o w,
  forallb (size_ok c) (snd (fst (run_bytes c o w))) = true.
Proof. first [exact SmtpBytes.bytes_size_rule | intros; apply SmtpBytes.bytes_size_rule]. Qed.
Print Assumptions bytes_size_rule.

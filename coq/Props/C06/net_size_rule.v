(** C06 — net_size_rule *)
From IV Require Import Base.Bytes Base.BytesFacts Model.Policy Model.Smtp Model.Dot Model.SmtpWire Proofs.SmtpInv Proofs.SmtpThms Proofs.DotCodec Proofs.SmtpCut Proofs.SmtpBytes.
From Coq Require Import ZifyBool ZifyNat ZifyN Lia.
From IV Require Import Proofs.SmtpNet.
Theorem net_size_rule : forall c o chunks f,
  forallb (size_ok c) (snd (fst (run_net c o chunks f))) = true.
Proof. first [exact SmtpNet.net_size_rule | intros; apply SmtpNet.net_size_rule]. Qed.
Print Assumptions net_size_rule.

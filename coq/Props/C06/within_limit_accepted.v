(** C06 — within_limit_accepted *)
From IV Require Import Base.Bytes Base.BytesFacts Model.Policy Model.Smtp Model.Dot Model.SmtpWire Proofs.SmtpInv.
From Coq Require Import ZifyBool ZifyNat Lia.
From IV Require Import Proofs.SmtpThms.
Theorem within_limit_accepted : forall c s body h hook o,
  st s = DATA -> from s = Some o -> (Z.of_nat (length body) <= max_bytes c)%Z ->
  step c s (B (PBlock body (Some h) hook)) =
  Ok (reset s) (one 250) (deliveries_for c o (rcpts s) (helo s) body h hook).
Proof. exact SmtpThms.within_limit_accepted. Qed.
Print Assumptions within_limit_accepted.

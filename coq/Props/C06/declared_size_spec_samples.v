(** C06 — declared_size_spec_samples *)
From IV Require Import Base.Bytes Base.Regex Gen.SmtpRegex Model.Policy Model.Smtp Model.SmtpWire Model.SmtpAddr Model.SmtpMailParse.
From IV Require Import Proofs.SmtpSizeSeen.
Theorem declared_size_spec_samples :
  map declared_size_spec (firstn 3 size_samples) = [Some [49;48;48;48;48]; Some [49;48;48;48;48]; Some [49;48;48;48;48]].
Proof. first [exact SmtpSizeSeen.declared_size_spec_samples | intros; apply SmtpSizeSeen.declared_size_spec_samples]. Qed.
Print Assumptions declared_size_spec_samples.

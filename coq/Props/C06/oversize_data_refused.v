(** C06 — oversize_data_refused *)
From IV Require Import Base.Bytes Base.BytesFacts Model.Policy Model.Smtp Model.Dot Model.SmtpWire Proofs.SmtpInv.
From Coq Require Import ZifyBool ZifyNat Lia.
From IV Require Import Proofs.SmtpThms.
Theorem oversize_data_refused : forall c s body hdr hook,
  st s = DATA -> (max_bytes c < Z.of_nat (length body))%Z ->
  step c s (B (PBlock body hdr hook)) = Ok (reset s) (one 552) [].
Proof. exact SmtpThms.oversize_data_refused. Qed.
Print Assumptions oversize_data_refused.

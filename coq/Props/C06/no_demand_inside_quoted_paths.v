(** C06 — no_demand_inside_quoted_paths *)
From IV Require Import Base.Bytes Base.Regex Gen.SmtpRegex Model.Policy Model.Smtp Model.SmtpWire Model.SmtpAddr Model.SmtpMailParse.
From IV Require Import Proofs.SmtpSizeSeen.
Theorem no_demand_inside_quoted_paths :
  forallb (fun a => match declared_size_spec a with None => true | Some _ => false end) no_demand_samples = true /\
  forallb (fun a => match mail_facts_of (fun _ => false) a with Some f => size_seen_ok a f | None => false end) no_demand_samples = true.
Proof. first [exact SmtpSizeSeen.no_demand_inside_quoted_paths | intros; apply SmtpSizeSeen.no_demand_inside_quoted_paths]. Qed.
Print Assumptions no_demand_inside_quoted_paths.

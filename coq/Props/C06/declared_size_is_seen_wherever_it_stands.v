(** C06 — declared_size_is_seen_wherever_it_stands *)
From IV Require Import Base.Bytes Base.Regex Gen.SmtpRegex Model.Policy Model.Smtp Model.SmtpWire Model.SmtpAddr Model.SmtpMailParse.
From IV Require Import Proofs.SmtpSizeSeen.
Theorem declared_size_is_seen_wherever_it_stands : forallb sample_ok size_samples = true.
Proof. first [exact SmtpSizeSeen.declared_size_is_seen_wherever_it_stands | intros; apply SmtpSizeSeen.declared_size_is_seen_wherever_it_stands]. Qed.
Print Assumptions declared_size_is_seen_wherever_it_stands.

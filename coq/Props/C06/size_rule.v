(** C06 — size_rule *)
From IV Require Import Base.Bytes Base.BytesFacts Model.Policy Model.Smtp Model.Dot Model.SmtpWire Proofs.SmtpInv.
From Coq Require Import ZifyBool ZifyNat Lia.
From IV Require Import Proofs.SmtpThms.
Theorem size_rule : forall c items s, forallb (size_ok c) (fst (run c s items)) = true.
Proof. exact SmtpThms.size_rule. Qed.
Print Assumptions size_rule.

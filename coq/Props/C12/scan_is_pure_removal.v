(** C12 — a scan changes nothing but message presence: the add counters (the ids issued afterwards) are untouched and the store stays well-formed *)
From Coq Require Import ZArith.
From IV Require Import Base.Bytes Model.StoreSpec Model.Retention Proofs.StoreSpecFacts Proofs.Retention.
Theorem scan_is_pure_removal : forall cfg cutoff order st,
  counts (scan cfg cutoff order st) = counts st /\ (SInv st -> SInv (scan cfg cutoff order st)).
Proof. intros. split; [apply scan_counts|apply scan_SInv]. Qed.
Print Assumptions scan_is_pure_removal.

(** C12 — whatever other clients do between the scanner's steps, a scan that runs to completion (not aborted by shutdown) leaves no message that was expired when it started, in any mailbox of the walk; ids are never reused, so a later delivery cannot stand in for it *)
From Coq Require Import ZArith.
From IV Require Import Base.Bytes Model.StoreSpec Model.Retention Proofs.StoreSpecFacts Proofs.Retention.
Theorem expired_gone_unless_aborted : forall cfg cutoff order st evs,
  SInv st ->
  s_phase (run cfg cutoff (sys_init order st) evs) = PDone false ->
  forall e, In e (live st) -> expired cutoff (e_msg e) = true -> In (e_mb e) order ->
  forall e', In e' (live (s_st (run cfg cutoff (sys_init order st) evs))) -> ~ (e_mb e' = e_mb e /\ e_k e' = e_k e).
Proof. exact Retention.expired_gone_unless_aborted. Qed.
Print Assumptions expired_gone_unless_aborted.

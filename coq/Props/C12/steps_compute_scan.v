(** C12 — left alone and not cancelled, the step-by-step scanner (the machine of the interleaving theorems and of the replayed schedules) terminates normally and computes exactly the scan of scan_exact *)
From Coq Require Import ZArith.
From IV Require Import Base.Bytes Model.StoreSpec Model.Retention Proofs.RetentionSteps.
Theorem steps_compute_scan : forall cfg cutoff order st,
  exists n, s_st (run cfg cutoff (sys_init order st) (repeat (EStep false) n)) = scan cfg cutoff order st /\
            s_phase (run cfg cutoff (sys_init order st) (repeat (EStep false) n)) = PDone false.
Proof. exact RetentionSteps.steps_compute_scan. Qed.
Print Assumptions steps_compute_scan.

(** C12 — what the ghost log s_removed of never_deletes_young is: every scanner step appends to it exactly the entries it takes out of the store (RemoveMessage removes the entries with that mailbox and handle, nothing else), every other entry stays; and RemoveMessage on the abstract store is remove_ent *)
From Coq Require Import ZArith.
From IV Require Import Base.Bytes Model.StoreSpec Model.Retention Proofs.Retention.
Theorem scanner_log_is_what_left_the_store : forall cfg cutoff,
  (forall y tf, exists delta, s_removed (sc_step cfg cutoff tf y) = s_removed y ++ delta /\
     (forall e, In e delta -> In e (live (s_st y)) /\ ~ In e (live (s_st (sc_step cfg cutoff tf y)))) /\
     (forall e, In e (live (s_st y)) -> In e (live (s_st (sc_step cfg cutoff tf y))) \/ In e delta)) /\
  (forall st mb k, live (do_remove cfg st mb k) = remove_ent mb k (live st) /\ counts (do_remove cfg st mb k) = counts st).
Proof. intros cfg cutoff. split; [exact (scanner_step_partition cfg cutoff)|exact (do_remove_live cfg)]. Qed.
Print Assumptions scanner_log_is_what_left_the_store.

(** C12 — with a retention period <= 0 the run loop (Start) never scans, whatever happens, and returns at once (Join returns); the guard lives in Start: DoScan called directly with period 0 does delete *)
From Coq Require Import ZArith.
From IV Require Import Base.Bytes Model.StoreSpec Model.Retention Proofs.Retention.
Theorem zero_period_inert : forall period evs, (period <= 0)%Z -> start period evs = (O, true).
Proof. exact Retention.zero_period_inert. Qed.
Print Assumptions zero_period_inert.

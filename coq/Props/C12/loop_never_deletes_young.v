(** C12 — over every schedule of the run loop: every message any of its scans removes is, at the clock of that moment, older than the retention period; and a move of the loop takes nothing out of the store that is not so logged *)
From Coq Require Import ZArith.
From IV Require Import Base.Bytes Model.StoreSpec Model.Retention Model.RetentionLoop Proofs.StoreSpecFacts Proofs.RetentionLoop.
Theorem loop_never_deletes_young : forall cfg period enum,
  (forall now st evs, SInv st -> log_young period (lrun cfg period enum (linit period now st) evs)) /\
  (forall y tf e, In e (live (s_st (l_sys y))) ->
     In e (live (s_st (l_sys (loop_step cfg period enum y tf)))) \/ In (e, l_now y) (l_log (loop_step cfg period enum y tf))).
Proof. intros. split; [exact (RetentionLoop.loop_never_deletes_young cfg period enum)|exact (loop_step_logs cfg period enum)]. Qed.
Print Assumptions loop_never_deletes_young.

(** C12 — "in every mailbox": a scan over the mailboxes the store itself enumerates (spec_visit: those that hold mail, what VisitMailboxes hands out) leaves in EVERY mailbox exactly the messages not older than the cutoff (scan_exact has the enumeration as a free parameter) *)
From Coq Require Import ZArith.
From IV Require Import Base.Bytes Model.StoreSpec Model.Retention Proofs.StoreSpecFacts Proofs.Retention.
Theorem scan_exact_all : forall cfg cutoff st mb, SInv st ->
  box mb (live (scan cfg cutoff (map fst (spec_visit st)) st)) = filter (fun e => negb (expired cutoff (e_msg e))) (box mb (live st)).
Proof. exact Retention.scan_exact_all. Qed.
Print Assumptions scan_exact_all.

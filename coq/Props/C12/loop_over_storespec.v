(** C12 — loop_over_storespec: whatever the schedule, the store of the run loop is the run of the operations the other clients and the scans issued *)
From Coq Require Import List Arith Lia ZArith.
From IV Require Import Base.Bytes Base.BytesFacts Model.StoreSpec Model.StoreSpecImpl Model.MemStore Model.FileStore Model.Retention Model.RetentionLoop Proofs.StoreSpecFacts Proofs.MemStoreLimits Proofs.MemStoreRefine Proofs.FileStoreRefine Proofs.Retention.
From IV Require Import Proofs.RetentionStore.
Theorem loop_over_storespec cfg period enum evs : forall y,
  s_st (l_sys (lrun cfg period enum y evs)) = final_spec cfg (s_st (l_sys y)) (loop_ops cfg period enum y evs).
Proof. first [exact RetentionStore.loop_over_storespec | intros; apply RetentionStore.loop_over_storespec]. Qed.
Print Assumptions loop_over_storespec.

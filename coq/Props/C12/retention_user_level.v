(** C12 — retention_user_level: for ANY operation history from the empty store under any cap / size limit, after a scan over the mailboxes the store itself enumerates every mailbox lists exactly its messages not older than the cutoff (order, content, flags untouched), add counters and the cap bound are preserved, and the memory-store and (c_max = 0, file_fresh) file-store models answer history + scan + listing exactly as StoreSpec *)
From Coq Require Import List Arith Lia ZArith.
From IV Require Import Base.Bytes Base.BytesFacts Model.StoreSpec Model.StoreSpecImpl Model.MemStore Model.FileStore Model.Retention Model.RetentionLoop Proofs.StoreSpecFacts Proofs.StoreSpecLimits Proofs.MemStoreLimits Proofs.MemStoreRefine Proofs.FileStoreRefine Proofs.Retention.
From IV Require Import Proofs.RetentionStore.
Theorem retention_user_level cfg cutoff ops mb :
  let st := final_spec cfg spec_init ops in
  let sops := scan_ops cfg cutoff (map fst (spec_visit st)) st in
  let st' := final_spec cfg spec_init (ops ++ sops) in
  let all := ops ++ sops ++ [Lst mb] in
  box mb (live st') = filter (fun e => negb (expired cutoff (e_msg e))) (box mb (live st)) /\
  counts st' = counts st /\
  (c_cap cfg <> 0%nat -> (length (box mb (live st')) <= c_cap cfg)%nat) /\
  (exists pre, run_spec cfg spec_init all = pre ++
     [(OList (map view_of (filter (fun e => negb (expired cutoff (e_msg e))) (box mb (live st)))), [])]) /\
  run_mem cfg all = run_spec cfg spec_init all /\
  (forall ticks, c_max cfg = 0%N -> file_fresh cfg (file_init ticks, []) all ->
     run_file cfg ticks all = run_spec cfg spec_init all).
Proof. first [exact RetentionStore.retention_user_level | intros; apply RetentionStore.retention_user_level]. Qed.
Print Assumptions retention_user_level.
